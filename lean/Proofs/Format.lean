import HclModel.Write.Format
/-!
Proofs about the formatter model `HclModel/Write/Format.lean` (property C09).

* `format_map_erase`: only the `sp` field of tokens changes;
* `format_indep`: the output is a function of the erased token sequence (plus the spacing of the
  stripped end-of-file token);
* `format_idem`: idempotence, a corollary of the two.

Method: `eL` erases all spacing of a line, `eC` only that of the comment cell.  Every pass keeps
`map eL` fixed; indent+space is insensitive to `eL` up to `eC`; `alignAssign` commutes with `eC`;
`alignComment` is insensitive to `eC` because a comment cell holds at most one token.
-/
namespace HclModel.Format.Proofs
open HclModel.Format

/-! ### tokens -/

@[simp] theorem erase_ty (t : Tok) : (erase t).ty = t.ty := rfl
@[simp] theorem erase_isIn (t : Tok) : (erase t).isIn = t.isIn := rfl
@[simp] theorem erase_nl (t : Tok) : (erase t).nl = t.nl := rfl
@[simp] theorem erase_width (t : Tok) : (erase t).width = t.width := rfl
@[simp] theorem erase_erase (t : Tok) : erase (erase t) = erase t := rfl
@[simp] theorem erase_setSp (t : Tok) (n : Nat) : erase (setSp t n) = erase t := rfl
@[simp] theorem setSp_erase (t : Tok) (n : Nat) : setSp (erase t) n = setSp t n := rfl
@[simp] theorem setSp_ty (t : Tok) (n : Nat) : (setSp t n).ty = t.ty := rfl
@[simp] theorem setSp_isIn (t : Tok) (n : Nat) : (setSp t n).isIn = t.isIn := rfl

theorem map_erase_erase (l : List Tok) : (l.map erase).map erase = l.map erase := by
  simp [List.map_map, Function.comp_def]

theorem tok_eq_of_erase {t u : Tok} (h : erase t = erase u) (hs : t.sp = u.sp) : t = u := by
  cases t; cases u
  simp only [erase, Tok.mk.injEq] at h
  simp only [Tok.mk.injEq]
  simp_all

/-! ### lines -/

/-- erase all spacing of a line -/
def eL (l : Line) : Line :=
  { lead := l.lead.map erase, assign := l.assign.map erase, comment := l.comment.map erase }

/-- erase the spacing of the comment cell only -/
def eC (l : Line) : Line := { l with comment := l.comment.map erase }

/-- a comment cell holds at most one token -/
def P (l : Line) : Prop := l.comment.length ≤ 1

theorem P_eL (l : Line) : P (eL l) ↔ P l := by simp [P, eL]

theorem allP_of_map_eL {ls ls' : List Line} (h : ls.map eL = ls'.map eL) (hp : ∀ l ∈ ls', P l) :
    ∀ l ∈ ls, P l := by
  intro l hl
  have : eL l ∈ ls'.map eL := h ▸ List.mem_map_of_mem hl
  obtain ⟨l', hl', he⟩ := List.mem_map.mp this
  have := hp l' hl'
  rw [← P_eL] at this ⊢
  rw [← he]; exact this

/-! ### setHead / spaceCell -/

@[simp] theorem map_erase_setHead (n : Nat) (l : List Tok) : (setHead n l).map erase = l.map erase := by
  cases l <;> simp [setHead]

@[simp] theorem map_erase_spaceRest (R : Rules) (l : List Tok) (s : Tok) (b : Nat) :
    (spaceRest R s b l).map erase = l.map erase := by
  induction l generalizing s b with
  | nil => simp [spaceRest]
  | cons a rest ih => simp [spaceRest, ih]

@[simp] theorem map_erase_spaceCell (R : Rules) (l : List Tok) : (spaceCell R l).map erase = l.map erase := by
  cases l <;> simp [spaceCell]

theorem spaceRest_erase (R : Rules) (l : List Tok) (s s' : Tok) (b : Nat)
    (h1 : s'.ty = s.ty) (h2 : s'.isIn = s.isIn) :
    spaceRest R s' b (l.map erase) = spaceRest R s b l := by
  induction l generalizing s s' b with
  | nil => simp [spaceRest]
  | cons a rest ih =>
    simp only [List.map_cons, spaceRest, erase_ty, setSp_erase, h1, h2]
    rw [ih a (erase a) s.ty rfl rfl]

theorem spaceCell_setHead_erase (R : Rules) (k : Nat) (l : List Tok) :
    spaceCell R (setHead k (l.map erase)) = spaceCell R (setHead k l) := by
  cases l with
  | nil => rfl
  | cons t rest =>
    simp only [List.map_cons, setHead, spaceCell, setSp_erase]
    rw [spaceRest_erase R rest (setSp t k) (setSp t k) tyNil rfl rfl]

/-! ### bracket counting and `=` search -/

@[simp] theorem netBrackets_erase (R : Rules) (l : List Tok) :
    netBrackets R (l.map erase) = netBrackets R l := by
  simp [netBrackets, List.foldl_map]

@[simp] theorem leadBrackets_erase (R : Rules) (l : List Tok) :
    leadBrackets R (l.map erase) = leadBrackets R l := by
  induction l with
  | nil => rfl
  | cons t rest ih => simp [leadBrackets, ih]

@[simp] theorem findEqual_erase (l : List Tok) (i : Nat) : findEqual (l.map erase) i = findEqual l i := by
  induction l generalizing i with
  | nil => rfl
  | cons t rest ih => simp [findEqual, ih]

/-! ### linesForFormat -/

theorem splitRaw_erase (ts cur : List Tok) :
    splitRaw (ts.map erase) (cur.map erase) = (splitRaw ts cur).map (List.map erase) := by
  induction ts generalizing cur with
  | nil => simp [splitRaw]
  | cons t rest ih =>
    by_cases h1 : t.ty = tyEOF
    · simp [splitRaw, h1]
    · by_cases h2 : t.nl = true
      · have := ih []
        simp only [List.map_nil] at this
        simp [splitRaw, h1, h2, this]
      · have := ih (t :: cur)
        simp only [List.map_cons] at this
        simp [splitRaw, h1, h2, this]

theorem splitRaw_flatten (ts cur : List Tok) : (splitRaw ts cur).flatten = cur.reverse ++ ts := by
  induction ts generalizing cur with
  | nil => simp [splitRaw]
  | cons t rest ih =>
    simp only [splitRaw]
    split
    · simp
    · split
      · simp [ih]
      · simp [ih]

/-- the lead/comment split at the start of `cells` -/
def splitComment (raw : List Tok) : List Tok × List Tok :=
  match raw.getLast? with
  | some t => if raw.length > 1 ∧ t.ty = tyComment then (raw.dropLast, [t]) else (raw, [])
  | none => (raw, [])

/-- the lead/assign split of `cells` -/
def cellsOf (R : Rules) (lead comment : List Tok) : Line :=
  match findEqual lead 0 with
  | some i =>
    if netBrackets R (lead.drop i) = 0 then
      { lead := lead.take i, assign := lead.drop i, comment := comment }
    else { lead := lead, assign := [], comment := comment }
  | none => { lead := lead, assign := [], comment := comment }

theorem cells_eq (R : Rules) (raw : List Tok) :
    cells R raw = cellsOf R (splitComment raw).1 (splitComment raw).2 := by
  unfold cells cellsOf splitComment
  cases raw.getLast? with
  | none => rfl
  | some t =>
    by_cases h : raw.length > 1 ∧ t.ty = tyComment
    · simp only [h, and_self, if_true]; rfl
    · simp only [h, if_false]; rfl

theorem splitComment_erase (raw : List Tok) :
    splitComment (raw.map erase) = ((splitComment raw).1.map erase, (splitComment raw).2.map erase) := by
  unfold splitComment
  rw [List.getLast?_map]
  cases raw.getLast? with
  | none => rfl
  | some t =>
    simp only [Option.map_some, List.length_map, erase_ty]
    split <;> simp [List.map_dropLast]

theorem splitComment_append (raw : List Tok) : (splitComment raw).1 ++ (splitComment raw).2 = raw := by
  unfold splitComment
  cases h : raw.getLast? with
  | none => simp
  | some t =>
    simp only []
    split
    · obtain ⟨ys, rfl⟩ := List.getLast?_eq_some_iff.mp h
      simp
    · simp

theorem splitComment_P (raw : List Tok) : (splitComment raw).2.length ≤ 1 := by
  unfold splitComment
  cases raw.getLast? with
  | none => simp
  | some t => simp only []; split <;> simp

theorem cellsOf_erase (R : Rules) (lead comment : List Tok) :
    cellsOf R (lead.map erase) (comment.map erase) = eL (cellsOf R lead comment) := by
  unfold cellsOf
  rw [findEqual_erase]
  cases findEqual lead 0 with
  | none => simp [eL]
  | some i =>
    simp only [← List.map_drop, ← List.map_take, netBrackets_erase]
    split <;> simp [eL]

theorem cellsOf_append (R : Rules) (lead comment : List Tok) :
    (cellsOf R lead comment).lead ++ (cellsOf R lead comment).assign = lead ∧
      (cellsOf R lead comment).comment = comment := by
  unfold cellsOf
  cases findEqual lead 0 with
  | none => simp
  | some i => simp only []; split <;> simp

theorem cells_erase (R : Rules) (raw : List Tok) : cells R (raw.map erase) = eL (cells R raw) := by
  rw [cells_eq, cells_eq, splitComment_erase, cellsOf_erase]

theorem cells_append (R : Rules) (raw : List Tok) :
    (cells R raw).lead ++ (cells R raw).assign ++ (cells R raw).comment = raw := by
  rw [cells_eq]
  have := cellsOf_append R (splitComment raw).1 (splitComment raw).2
  rw [this.1, this.2, splitComment_append]

theorem cells_P (R : Rules) (raw : List Tok) : P (cells R raw) := by
  rw [cells_eq]
  have := cellsOf_append R (splitComment raw).1 (splitComment raw).2
  simp only [P, this.2]
  exact splitComment_P raw

/-- the lines of a token list without its trailing EOF -/
def linesOf (R : Rules) (body : List Tok) : List Line := (splitRaw body []).map (cells R)

theorem linesOf_erase (R : Rules) (body : List Tok) :
    linesOf R (body.map erase) = (linesOf R body).map eL := by
  have := splitRaw_erase body []
  simp only [List.map_nil] at this
  simp [linesOf, this, List.map_map, Function.comp_def, cells_erase]

theorem linesOf_P (R : Rules) (body : List Tok) : ∀ l ∈ linesOf R body, P l := by
  intro l hl
  obtain ⟨raw, _, rfl⟩ := List.mem_map.mp hl
  exact cells_P R raw

theorem flatten_linesOf (R : Rules) (body : List Tok) : flatten (linesOf R body) = body := by
  have := splitRaw_flatten body []
  simp only [List.reverse_nil, List.nil_append] at this
  simp only [flatten, linesOf, List.flatMap_map, cells_append]
  simpa [List.flatMap_id'] using this

theorem flatten_map_erase (ls : List Line) : (flatten ls).map erase = flatten (ls.map eL) := by
  induction ls with
  | nil => rfl
  | cons l ls ih =>
    simp only [flatten, List.flatMap_cons, List.map_append, List.map_cons] at ih ⊢
    rw [ih]; simp [eL]

/-! ### indent + space -/

@[simp] theorem eL_spaceLine (R : Rules) (l : Line) : eL (spaceLine R l) = eL l := by
  simp [eL, spaceLine]

theorem eL_setLead (l : Line) (k : Nat) : eL { l with lead := setHead k l.lead } = eL l := by
  simp [eL]

theorem eL_indentLines (R : Rules) (ls : List Line) (st : List Nat) :
    (indentLines R ls st).map eL = ls.map eL := by
  induction ls generalizing st with
  | nil => rfl
  | cons l ls ih =>
    simp only [indentLines]
    split
    · simp [ih]
    · split
      · simp [ih, eL_setLead]
      · split
        · simp [ih, eL_setLead]
        · split <;> simp [ih, eL_setLead]

/-- spacing of a line, then forget the comment spacing -/
def sc (R : Rules) (l : Line) : Line := eC (spaceLine R l)

theorem sc_setLead_eL (R : Rules) (k : Nat) (l : Line) :
    sc R { eL l with lead := setHead k (eL l).lead } = sc R { l with lead := setHead k l.lead } := by
  simp [sc, eC, spaceLine, eL, spaceCell_setHead_erase]

theorem sc_indentLines_eL (R : Rules) (ls : List Line) (st : List Nat) :
    (indentLines R (ls.map eL) st).map (sc R) = (indentLines R ls st).map (sc R) := by
  induction ls generalizing st with
  | nil => rfl
  | cons l ls ih =>
    have key := fun k => sc_setLead_eL R k l
    obtain ⟨lead, assign, comment⟩ := l
    cases lead with
    | nil =>
      have := key 0
      simp only [eL, List.map_nil, setHead] at this
      simp only [List.map_cons, indentLines, eL, List.map_nil, ih, this]
    | cons t rest =>
      have hb : leadBrackets R (erase t :: rest.map erase) = leadBrackets R (t :: rest) := by
        rw [← List.map_cons, leadBrackets_erase]
      simp only [eL, List.map_cons] at key
      simp only [List.map_cons, indentLines, eL, erase_ty, hb, netBrackets_erase]
      split
      · simp only [List.map_cons, ih, key]
      · split
        · simp only [List.map_cons, ih, key]
        · split <;> simp only [List.map_cons, ih, key]

/-! ### chain alignment -/

/-- emit a finished chain -/
def flush (cols : Line → Nat) (set : Line → Nat → Line) (chain : List Line) : List Line :=
  let m := chain.foldl (fun m l => max m (cols l)) 0
  chain.reverse.map fun l => set l (m - cols l + 1)

theorem alignChains_nil (has : Line → Bool) (cols : Line → Nat) (set : Line → Nat → Line) (chain : List Line) :
    alignChains has cols set [] chain = flush cols set chain := rfl

theorem alignChains_cons (has : Line → Bool) (cols : Line → Nat) (set : Line → Nat → Line)
    (l : Line) (ls chain : List Line) :
    alignChains has cols set (l :: ls) chain =
      if has l then alignChains has cols set ls (l :: chain)
      else flush cols set chain ++ l :: alignChains has cols set ls [] := rfl

theorem flush_inv {α : Type} (cols : Line → Nat) (set : Line → Nat → Line) (c : Line → α)
    (hc : ∀ l n, c (set l n) = c l) (chain : List Line) :
    (flush cols set chain).map c = chain.reverse.map c := by
  simp [flush, List.map_map, Function.comp_def, hc]

theorem alignChains_inv {α : Type} (has : Line → Bool) (cols : Line → Nat) (set : Line → Nat → Line)
    (c : Line → α) (hc : ∀ l n, c (set l n) = c l) (ls chain : List Line) :
    (alignChains has cols set ls chain).map c = chain.reverse.map c ++ ls.map c := by
  induction ls generalizing chain with
  | nil => simp [alignChains_nil, flush_inv cols set c hc]
  | cons l ls ih =>
    rw [alignChains_cons]
    split
    · simp [ih]
    · simp [ih, flush_inv cols set c hc]

theorem foldl_max_map (cols : Line → Nat) (f : Line → Line) (chain : List Line)
    (h : ∀ l ∈ chain, cols (f l) = cols l) (init : Nat) :
    (chain.map f).foldl (fun m l => max m (cols l)) init = chain.foldl (fun m l => max m (cols l)) init := by
  induction chain generalizing init with
  | nil => rfl
  | cons l ls ih =>
    simp only [List.map_cons, List.foldl_cons]
    rw [h l (by simp), ih (fun l hl => h l (by simp [hl]))]

theorem flush_map (cols : Line → Nat) (set : Line → Nat → Line) (f g : Line → Line) (P : Line → Prop)
    (h2 : ∀ l, P l → cols (f l) = cols l) (h3 : ∀ l n, P l → set (f l) n = g (set l n))
    (chain : List Line) (hp : ∀ l ∈ chain, P l) :
    flush cols set (chain.map f) = (flush cols set chain).map g := by
  simp only [flush]
  rw [foldl_max_map cols f chain (fun l hl => h2 l (hp l hl))]
  rw [← List.map_reverse, List.map_map, List.map_map]
  apply List.map_congr_left
  intro l hl
  have hpl := hp l (by simpa using hl)
  simp [h2 l hpl, h3 l _ hpl]

theorem alignChains_map (has : Line → Bool) (cols : Line → Nat) (set : Line → Nat → Line)
    (f g : Line → Line) (P : Line → Prop)
    (h1 : ∀ l, P l → has (f l) = has l) (h2 : ∀ l, P l → cols (f l) = cols l)
    (h3 : ∀ l n, P l → set (f l) n = g (set l n)) (h4 : ∀ l, P l → has l = false → f l = g l)
    (ls chain : List Line) (hls : ∀ l ∈ ls, P l) (hch : ∀ l ∈ chain, P l) :
    alignChains has cols set (ls.map f) (chain.map f) = (alignChains has cols set ls chain).map g := by
  induction ls generalizing chain with
  | nil => exact flush_map cols set f g P h2 h3 chain hch
  | cons l ls ih =>
    have hl := hls l (by simp)
    have hls' : ∀ l ∈ ls, P l := fun l h => hls l (by simp [h])
    simp only [List.map_cons, alignChains_cons, h1 l hl]
    cases hh : has l with
    | true =>
      simp only [if_true]
      rw [← List.map_cons, ih (l :: chain) hls']
      intro x hx
      rcases List.mem_cons.mp hx with rfl | hx
      · exact hl
      · exact hch x hx
    | false =>
      have := ih [] hls' (by simp)
      simp only [List.map_nil] at this
      simp [this, flush_map cols set f g P h2 h3 chain hch, h4 l hl hh]

theorem eL_alignAssign (ls : List Line) : (alignAssign ls).map eL = ls.map eL := by
  have := alignChains_inv (fun l => !l.assign.isEmpty) (fun l => columns l.lead)
    (fun l n => { l with assign := setHead n l.assign }) eL (by intro l n; simp [eL]) ls []
  simpa [alignAssign] using this

theorem eL_alignComment (ls : List Line) : (alignComment ls).map eL = ls.map eL := by
  have := alignChains_inv (fun l => !l.comment.isEmpty) (fun l => columns l.lead + columns l.assign)
    (fun l n => { l with comment := setHead n l.comment }) eL (by intro l n; simp [eL]) ls []
  simpa [alignComment] using this

theorem alignAssign_eC (ls : List Line) : alignAssign (ls.map eC) = (alignAssign ls).map eC := by
  have := alignChains_map (fun l => !l.assign.isEmpty) (fun l => columns l.lead)
    (fun l n => { l with assign := setHead n l.assign }) eC eC (fun _ => True)
    (by intros; rfl) (by intros; rfl) (by intros; rfl) (by intros; rfl) ls []
    (by intros; trivial) (by intros; trivial)
  simpa [alignAssign] using this

theorem alignComment_eC (ls : List Line) (hp : ∀ l ∈ ls, P l) :
    alignComment (ls.map eC) = alignComment ls := by
  have := alignChains_map (fun l => !l.comment.isEmpty) (fun l => columns l.lead + columns l.assign)
    (fun l n => { l with comment := setHead n l.comment }) eC id P
    (by intro l _; simp [eC]) (by intros; rfl)
    (by
      intro l n hl
      obtain ⟨lead, assign, comment⟩ := l
      simp only [P] at hl
      match comment, hl with
      | [], _ => rfl
      | [t], _ => rfl)
    (by
      intro l _ hh
      obtain ⟨lead, assign, comment⟩ := l
      cases comment with
      | nil => rfl
      | cons t r => simp at hh)
    ls [] hp (by simp)
  simpa [alignComment] using this

/-! ### formatLines -/

theorem eL_formatLines (R : Rules) (ls : List Line) : (formatLines R ls).map eL = ls.map eL := by
  simp [formatLines, eL_alignComment, eL_alignAssign, List.map_map, Function.comp_def, eL_indentLines]

/-- `formatLines` as a function of the erased lines -/
def G (R : Rules) (ls : List Line) : List Line :=
  alignComment (alignAssign ((indentLines R ls []).map (sc R)))

theorem formatLines_eq_G (R : Rules) (ls : List Line) (hp : ∀ l ∈ ls, P l) :
    formatLines R ls = G R (ls.map eL) := by
  have hP : ∀ l ∈ alignAssign ((indentLines R ls []).map (spaceLine R)), P l := by
    apply allP_of_map_eL _ hp
    simp [eL_alignAssign, List.map_map, Function.comp_def, eL_indentLines]
  unfold formatLines G
  rw [sc_indentLines_eL, ← alignComment_eC _ hP, ← alignAssign_eC, List.map_map]
  rfl

theorem formatLines_congr (R : Rules) (ls ls' : List Line) (h : ls.map eL = ls'.map eL)
    (hp : ∀ l ∈ ls, P l) (hp' : ∀ l ∈ ls', P l) : formatLines R ls = formatLines R ls' := by
  rw [formatLines_eq_G R ls hp, formatLines_eq_G R ls' hp', h]

/-! ### format -/

def formatBody (R : Rules) (body : List Tok) : List Tok := flatten (formatLines R (linesOf R body))

theorem format_eq (R : Rules) (ts : List Tok) :
    format R ts = if ts.isEmpty then [] else formatBody R (stripEOF ts).1 ++ (stripEOF ts).2 := by
  unfold format linesFor
  by_cases h : ts.isEmpty = true
  · simp only [h, if_true]; rfl
  · simp only [h]; rfl

theorem formatBody_map_erase (R : Rules) (body : List Tok) :
    (formatBody R body).map erase = body.map erase := by
  rw [formatBody, flatten_map_erase, eL_formatLines, ← flatten_map_erase, flatten_linesOf]

theorem formatBody_congr (R : Rules) (b b' : List Tok) (h : b.map erase = b'.map erase) :
    formatBody R b = formatBody R b' := by
  unfold formatBody
  rw [formatLines_congr R (linesOf R b) (linesOf R b') _ (linesOf_P R b) (linesOf_P R b')]
  rw [← linesOf_erase, ← linesOf_erase, h]

theorem stripEOF_concat (xs : List Tok) (t : Tok) :
    stripEOF (xs ++ [t]) = if t.ty = tyEOF then (xs, [t]) else (xs ++ [t], []) := by
  simp [stripEOF]

theorem eofSp_concat (xs : List Tok) (t : Tok) :
    eofSp (xs ++ [t]) = if t.ty = tyEOF then t.sp else 0 := by
  simp [eofSp]

theorem stripEOF_append (ts : List Tok) : (stripEOF ts).1 ++ (stripEOF ts).2 = ts := by
  rcases List.eq_nil_or_concat ts with rfl | ⟨xs, t, rfl⟩
  · simp [stripEOF]
  · simp only [List.concat_eq_append, stripEOF_concat]; split <;> simp

theorem format_map_erase (R : Rules) (ts : List Tok) : (format R ts).map erase = ts.map erase := by
  rw [format_eq]
  split
  · rename_i h; simp at h; simp [h]
  · rw [List.map_append, formatBody_map_erase, ← List.map_append, stripEOF_append]

theorem concat_of_map_erase {xs ts' : List Tok} {t : Tok} (h : (xs ++ [t]).map erase = ts'.map erase) :
    ∃ xs' t', ts' = xs' ++ [t'] ∧ xs.map erase = xs'.map erase ∧ erase t = erase t' := by
  rcases List.eq_nil_or_concat ts' with rfl | ⟨xs', t', rfl⟩
  · simp at h
  · refine ⟨xs', t', by simp, ?_⟩
    simp only [List.concat_eq_append, List.map_append, List.map_cons, List.map_nil] at h
    have := List.append_inj' h rfl
    simpa using this

theorem format_indep (R : Rules) (ts ts' : List Tok) (h : ts.map erase = ts'.map erase)
    (he : eofSp ts = eofSp ts') : format R ts = format R ts' := by
  rcases List.eq_nil_or_concat ts with rfl | ⟨xs, t, rfl⟩
  · have : ts' = [] := by simpa using h.symm
    rw [this]
  · rw [List.concat_eq_append] at *
    obtain ⟨xs', t', rfl, hx, ht⟩ := concat_of_map_erase h
    have hty : t.ty = t'.ty := by have := congrArg Tok.ty ht; simpa using this
    rw [eofSp_concat, eofSp_concat, ← hty] at he
    rw [format_eq, format_eq, stripEOF_concat, stripEOF_concat, ← hty]
    have hne : ∀ (a : List Tok) (b : Tok), (a ++ [b]).isEmpty = false := by intro a b; cases a <;> rfl
    simp only [hne, Bool.false_eq_true, if_false]
    by_cases hE : t.ty = tyEOF
    · simp only [hE, if_true] at he ⊢
      rw [tok_eq_of_erase ht he, formatBody_congr R xs xs' hx]
    · simp only [hE, if_false]
      rw [formatBody_congr R (xs ++ [t]) (xs' ++ [t']) h]

theorem eofSp_format (R : Rules) (ts : List Tok) : eofSp (format R ts) = eofSp ts := by
  rcases List.eq_nil_or_concat ts with rfl | ⟨xs, t, rfl⟩
  · simp [format_eq]
  · rw [List.concat_eq_append] at *
    by_cases hE : t.ty = tyEOF
    · rw [format_eq, stripEOF_concat]
      simp [hE, eofSp_concat]
    · have h := (format_map_erase R (xs ++ [t])).symm
      obtain ⟨ys, u, hy, _, hu⟩ := concat_of_map_erase h
      have hty : t.ty = u.ty := by have := congrArg Tok.ty hu; simpa using this
      rw [hy, eofSp_concat, eofSp_concat, ← hty]
      simp [hE]

theorem format_idem (R : Rules) (ts : List Tok) : format R (format R ts) = format R ts :=
  format_indep R (format R ts) ts (format_map_erase R ts) (eofSp_format R ts)

end HclModel.Format.Proofs
