import HclModel.Json.Grammar
namespace HclModel.Json.Proofs
open HclModel.Json

/-- byte-level shape of a string body as the lax scanner sees it: backslash toggles `esc`, a quote is only
    allowed when escaped, every other byte is ≥ 32 and resets `esc`; at the end `esc` must be false -/
def okBody : List Byte → Bool → Prop
  | [], esc => esc = false
  | b :: s, esc =>
    if b = 92 then okBody s (!esc)
    else if b = 34 then esc = true ∧ okBody s false
    else 32 ≤ b ∧ okBody s false

/-- `omega` does not look through the abbreviation `Byte := Nat` -/
local macro "bomega" : tactic => `(tactic| ((try simp only [Byte] at *); omega))

/-! ### hex digits -/

theorem hexDigit?_range {b : Byte} {v : Nat} (h : hexDigit? b = some v) :
    48 ≤ b ∧ b ≤ 102 ∧ b ≠ 92 := by
  unfold hexDigit? isDigit at h
  split at h
  next h1 => simp at h1; bomega
  next =>
    split at h
    next h1 => bomega
    next =>
      split at h
      next h1 => bomega
      next => simp at h

theorem hex4?_cons4 {a b c d : Byte} {rest r' : List Byte} {cp : Nat} :
    hex4? (a :: b :: c :: d :: rest) = some (cp, r') ↔
      ∃ va vb vc vd, hexDigit? a = some va ∧ hexDigit? b = some vb ∧ hexDigit? c = some vc ∧
        hexDigit? d = some vd ∧ ((va * 16 + vb) * 16 + vc) * 16 + vd = cp ∧ rest = r' := by
  cases ha : hexDigit? a
  · simp [hex4?, bind, Option.bind, ha]
  cases hb : hexDigit? b
  · simp [hex4?, bind, Option.bind, ha, hb]
  cases hc : hexDigit? c
  · simp [hex4?, bind, Option.bind, ha, hb, hc]
  cases hd : hexDigit? d
  · simp [hex4?, bind, Option.bind, ha, hb, hc, hd]
  simp [hex4?, bind, Option.bind, ha, hb, hc, hd]

theorem hex4?_split {r r' : List Byte} {cp : Nat} (h : hex4? r = some (cp, r')) :
    ∃ hs, r = hs ++ r' ∧ hs.length = 4 ∧ hex4? hs = some (cp, []) := by
  match r, h with
  | a :: b :: c :: d :: rest, h =>
    refine ⟨[a, b, c, d], ?_⟩
    rw [hex4?_cons4] at h ⊢
    obtain ⟨va, vb, vc, vd, ha, hb, hc, hd, hcp, hr⟩ := h
    exact ⟨by simp [hr], rfl, va, vb, vc, vd, ha, hb, hc, hd, hcp, rfl⟩

theorem hex4?_append {hs r' : List Byte} {cp : Nat} (hl : hs.length = 4)
    (h : hex4? hs = some (cp, [])) : hex4? (hs ++ r') = some (cp, r') := by
  match hs, hl with
  | [a, b, c, d], _ =>
    simp only [List.cons_append, List.nil_append]
    rw [hex4?_cons4] at h ⊢
    obtain ⟨va, vb, vc, vd, ha, hb, hc, hd, hcp, _⟩ := h
    exact ⟨va, vb, vc, vd, ha, hb, hc, hd, hcp, rfl⟩

theorem hex4?_bytes {hs : List Byte} {cp : Nat} (hl : hs.length = 4)
    (h : hex4? hs = some (cp, [])) : ∀ b ∈ hs, 32 ≤ b ∧ b ≠ 34 ∧ b ≠ 92 := by
  match hs, hl with
  | [a, b, c, d], _ =>
    rw [hex4?_cons4] at h
    obtain ⟨va, vb, vc, vd, ha, hb, hc, hd, _, _⟩ := h
    have := hexDigit?_range ha
    have := hexDigit?_range hb
    have := hexDigit?_range hc
    have := hexDigit?_range hd
    intro x hx
    simp at hx
    rcases hx with rfl | rfl | rfl | rfl <;> bomega

theorem simpleEscape_props {e c : Byte} (h : simpleEscape e = some c) : e ≠ 117 ∧ 32 ≤ e := by
  unfold simpleEscape at h
  repeat (split at h; · bomega)
  simp at h


/-! ### one-step equations for `unescape` -/

theorem map_some {α β : Type} {f : α → β} {o : Option α} {y : β} (h : f <$> o = some y) :
    ∃ x, o = some x ∧ f x = y := by
  cases o with
  | none => simp at h
  | some x => exact ⟨x, rfl, by simpa using h⟩

theorem unescape_zero (s : List Byte) : unescape 0 s = none := by
  simp [unescape]

theorem unescape_nil (f : Nat) : unescape (f + 1) [] = some [] := by
  simp [unescape]

theorem unescape_raw {f : Nat} {b : Byte} {rest : List Byte} (hb : b ≠ 92) :
    unescape (f + 1) (b :: rest) =
      if b = 34 ∨ b < 32 then none else (b :: ·) <$> unescape f rest := by
  simp [unescape, hb]

theorem unescape_bs_nil (f : Nat) : unescape (f + 1) [92] = none := by
  simp [unescape]

theorem unescape_esc {f : Nat} {e : Byte} {r : List Byte} (he : e ≠ 117) :
    unescape (f + 1) (92 :: e :: r) =
      match simpleEscape e with
      | some c => (c :: ·) <$> unescape f r
      | none => none := by
  rw [unescape]
  · rw [if_pos rfl]
    cases simpleEscape e <;> rfl
  · exact he

theorem unescape_u_none {f : Nat} {r : List Byte} (hx : hex4? r = none) :
    unescape (f + 1) (92 :: 117 :: r) = none := by
  rw [unescape]
  simp [hx]

theorem unescape_u_plain {f : Nat} {r r' : List Byte} {cp : Nat} (hx : hex4? r = some (cp, r'))
    (hhi : ¬ isHighSurr cp) (hlo : ¬ isLowSurr cp) :
    unescape (f + 1) (92 :: 117 :: r) = (utf8Encode cp ++ ·) <$> unescape f r' := by
  unfold isHighSurr at hhi
  unfold isLowSurr at hlo
  rw [unescape]
  simp [hx, hhi, hlo]

theorem unescape_u_loneLow {f : Nat} {r r' : List Byte} {cp : Nat} (hx : hex4? r = some (cp, r'))
    (hlo : isLowSurr cp) :
    unescape (f + 1) (92 :: 117 :: r) = (replacementChar ++ ·) <$> unescape f r' := by
  have hhi : ¬ (0xD800 ≤ cp ∧ cp < 0xDC00) := by unfold isLowSurr at hlo; omega
  unfold isLowSurr at hlo
  rw [unescape]
  simp [hx, hhi, hlo]

theorem unescape_u_pair {f : Nat} {r r₂ r₃ : List Byte} {hi lo : Nat}
    (hx : hex4? r = some (hi, 92 :: 117 :: r₂)) (hhi : isHighSurr hi)
    (hx' : hex4? r₂ = some (lo, r₃)) (hlo : isLowSurr lo) :
    unescape (f + 1) (92 :: 117 :: r) =
      (utf8Encode (0x10000 + (hi - 0xD800) * 1024 + (lo - 0xDC00)) ++ ·) <$> unescape f r₃ := by
  unfold isHighSurr at hhi
  unfold isLowSurr at hlo
  rw [unescape]
  simp [hx, hx', hhi, hlo]

theorem unescape_u_loneHigh {f : Nat} {r r' : List Byte} {cp : Nat} (hx : hex4? r = some (cp, r'))
    (hhi : isHighSurr cp) (hns : ¬ StartsWithLowEscape r') :
    unescape (f + 1) (92 :: 117 :: r) = (replacementChar ++ ·) <$> unescape f r' := by
  unfold isHighSurr at hhi
  rw [unescape]
  simp only [hx, hhi, if_true, and_self]
  split
  · rename_i r₂
    split
    · rename_i lo r₃ hx'
      split
      · rename_i hlo
        exfalso
        apply hns
        obtain ⟨ls, rfl, hll, hlh⟩ := hex4?_split hx'
        exact ⟨ls, r₃, lo, rfl, hll, hlh, hlo⟩
      · rfl
    · rfl
  · rfl

/-! ### the `Chars` constructors with right-nested lists -/

theorem chars_uni {hs : List Byte} {cp : Nat} {s d : List Byte} (hl : hs.length = 4)
    (hh : IsHex4 hs cp) (h1 : ¬ isHighSurr cp) (h2 : ¬ isLowSurr cp) (hc : Chars s d) :
    Chars (92 :: 117 :: (hs ++ s)) (utf8Encode cp ++ d) :=
  Chars.uni hs cp s d hl hh h1 h2 hc

theorem chars_loneHigh {hs : List Byte} {cp : Nat} {s d : List Byte} (hl : hs.length = 4)
    (hh : IsHex4 hs cp) (h1 : isHighSurr cp) (h2 : ¬ StartsWithLowEscape s) (hc : Chars s d) :
    Chars (92 :: 117 :: (hs ++ s)) (replacementChar ++ d) :=
  Chars.loneHigh hs cp s d hl hh h1 h2 hc

theorem chars_loneLow {hs : List Byte} {cp : Nat} {s d : List Byte} (hl : hs.length = 4)
    (hh : IsHex4 hs cp) (h1 : isLowSurr cp) (hc : Chars s d) :
    Chars (92 :: 117 :: (hs ++ s)) (replacementChar ++ d) :=
  Chars.loneLow hs cp s d hl hh h1 hc

theorem chars_pair {hs ls : List Byte} {hi lo : Nat} {s d : List Byte} (hl : hs.length = 4)
    (ll : ls.length = 4) (hh : IsHex4 hs hi) (lh : IsHex4 ls lo) (h1 : isHighSurr hi)
    (h2 : isLowSurr lo) (hc : Chars s d) :
    Chars (92 :: 117 :: (hs ++ 92 :: 117 :: (ls ++ s)))
      (utf8Encode (0x10000 + (hi - 0xD800) * 1024 + (lo - 0xDC00)) ++ d) := by
  have := Chars.pair hs ls hi lo s d hl ll hh lh h1 h2 hc
  simpa only [List.cons_append, List.append_assoc] using this

/-! ### `unescape` is sound and complete for `Chars` -/

theorem unescape_sound : ∀ (fuel : Nat) (s d : List Byte), unescape fuel s = some d → Chars s d := by
  intro fuel
  induction fuel with
  | zero => intro s d h; simp [unescape_zero] at h
  | succ f ih =>
    intro s d h
    match s with
    | [] =>
      rw [unescape_nil] at h
      cases h
      exact Chars.nil
    | b :: rest =>
      by_cases hb : b = 92
      · subst hb
        match rest with
        | [] => simp [unescape_bs_nil] at h
        | e :: r =>
          by_cases he : e = 117
          · subst he
            cases hx : hex4? r with
            | none => simp [unescape_u_none hx] at h
            | some p =>
              obtain ⟨cp, r'⟩ := p
              obtain ⟨hs, rfl, hl, hh⟩ := hex4?_split hx
              by_cases hhi : isHighSurr cp
              · by_cases hsl : StartsWithLowEscape r'
                · obtain ⟨ls, r₃, lo, rfl, hll, hlh, hlo⟩ := hsl
                  simp only [List.cons_append] at hx h
                  rw [unescape_u_pair hx hhi (hex4?_append hll hlh) hlo] at h
                  obtain ⟨d', hd', rfl⟩ := map_some h
                  exact chars_pair hl hll hh hlh hhi hlo (ih _ _ hd')
                · rw [unescape_u_loneHigh hx hhi hsl] at h
                  obtain ⟨d', hd', rfl⟩ := map_some h
                  exact chars_loneHigh hl hh hhi hsl (ih _ _ hd')
              · by_cases hlo : isLowSurr cp
                · rw [unescape_u_loneLow hx hlo] at h
                  obtain ⟨d', hd', rfl⟩ := map_some h
                  exact chars_loneLow hl hh hlo (ih _ _ hd')
                · rw [unescape_u_plain hx hhi hlo] at h
                  obtain ⟨d', hd', rfl⟩ := map_some h
                  exact chars_uni hl hh hhi hlo (ih _ _ hd')
          · rw [unescape_esc he] at h
            cases hse : simpleEscape e with
            | none => simp [hse] at h
            | some c =>
              rw [hse] at h
              obtain ⟨d', hd', rfl⟩ := map_some h
              exact Chars.esc _ _ _ _ hse (ih _ _ hd')
      · rw [unescape_raw hb] at h
        split at h
        · cases h
        · rename_i hc
          obtain ⟨d', hd', rfl⟩ := map_some h
          exact Chars.raw _ _ _ (by bomega) (by bomega) hb (ih _ _ hd')

theorem unescape_complete {s d : List Byte} (h : Chars s d) :
    ∀ fuel, s.length < fuel → unescape fuel s = some d := by
  induction h with
  | nil =>
    intro fuel hf
    obtain ⟨f, rfl⟩ : ∃ f, fuel = f + 1 := ⟨fuel - 1, by simp at hf; omega⟩
    exact unescape_nil f
  | raw b s d h1 h2 h3 _ ih =>
    intro fuel hf
    obtain ⟨f, rfl⟩ : ∃ f, fuel = f + 1 := ⟨fuel - 1, by simp at hf; omega⟩
    rw [unescape_raw h3, if_neg (by bomega), ih f (by simp at hf; omega)]
    rfl
  | esc e c s d h1 _ ih =>
    intro fuel hf
    obtain ⟨f, rfl⟩ : ∃ f, fuel = f + 1 := ⟨fuel - 1, by simp at hf; omega⟩
    rw [unescape_esc (simpleEscape_props h1).1, h1]
    simp only
    rw [ih f (by simp at hf; omega)]
    rfl
  | uni hs cp s d hl hh h1 h2 _ ih =>
    intro fuel hf
    obtain ⟨f, rfl⟩ : ∃ f, fuel = f + 1 := ⟨fuel - 1, by simp at hf; omega⟩
    simp only [List.cons_append] at hf ⊢
    rw [unescape_u_plain (hex4?_append hl hh) h1 h2, ih f (by simp at hf; omega)]
    rfl
  | pair hs ls hi lo s d hl ll hh lh h1 h2 _ ih =>
    intro fuel hf
    obtain ⟨f, rfl⟩ : ∃ f, fuel = f + 1 := ⟨fuel - 1, by simp at hf; omega⟩
    simp only [List.cons_append, List.append_assoc] at hf ⊢
    rw [unescape_u_pair (hex4?_append hl hh) h1 (hex4?_append ll lh) h2,
      ih f (by simp at hf; omega)]
    rfl
  | loneHigh hs cp s d hl hh h1 h2 _ ih =>
    intro fuel hf
    obtain ⟨f, rfl⟩ : ∃ f, fuel = f + 1 := ⟨fuel - 1, by simp at hf; omega⟩
    simp only [List.cons_append] at hf ⊢
    rw [unescape_u_loneHigh (hex4?_append hl hh) h1 h2, ih f (by simp at hf; omega)]
    rfl
  | loneLow hs cp s d hl hh h1 _ ih =>
    intro fuel hf
    obtain ⟨f, rfl⟩ : ∃ f, fuel = f + 1 := ⟨fuel - 1, by simp at hf; omega⟩
    simp only [List.cons_append] at hf ⊢
    rw [unescape_u_loneLow (hex4?_append hl hh) h1, ih f (by simp at hf; omega)]
    rfl

/-! ### whole string tokens -/

theorem mem_takeWhile_imp {p : Byte → Bool} {l : List Byte} {b : Byte} (h : b ∈ l.takeWhile p) : p b = true := by
  induction l with
  | nil => simp at h
  | cons a l ih =>
    by_cases ha : p a
    · simp only [List.takeWhile_cons, ha, if_true, List.mem_cons] at h
      rcases h with h | h
      · rw [h]; exact ha
      · exact ih h
    · simp [ha] at h

/-- what `dropTrailingWs` removes is whitespace at the end -/
theorem dropTrailingWs_spec (bs : List Byte) : ∃ w, bs = dropTrailingWs bs ++ w ∧ AllWs w := by
  refine ⟨(bs.reverse.takeWhile isWs).reverse, ?_, ?_⟩
  · unfold dropTrailingWs
    rw [← List.reverse_append, List.takeWhile_append_dropWhile, List.reverse_reverse]
  · intro b hb
    exact mem_takeWhile_imp (List.mem_reverse.mp hb)

theorem dropTrailingWs_concat (xs : List Byte) {c : Byte} (hc : isWs c = false) :
    dropTrailingWs (xs ++ [c]) = xs ++ [c] := by
  unfold dropTrailingWs
  simp [hc]

/-- the validator accepts `tok` iff `tok` minus trailing whitespace is a JSON string -/
theorem parseStringBytes_sound {bs d : List Byte} (h : parseStringBytes bs = some d) :
    IsString (dropTrailingWs bs) d := by
  unfold parseStringBytes at h
  split at h
  · rename_i rest heq
    rw [heq]
    split at h
    · rename_i hl
      obtain ⟨ys, rfl⟩ := List.getLast?_eq_some_iff.mp hl
      rw [List.dropLast_concat] at h
      exact IsString.mk _ _ (unescape_sound _ _ _ h)
    · cases h
  · cases h

theorem parseStringBytes_complete {bs d : List Byte} (h : IsString bs d) :
    parseStringBytes bs = some d := by
  cases h with
  | mk s d hc =>
    have hd : dropTrailingWs (34 :: s ++ [34]) = 34 :: (s ++ [34]) := by
      rw [dropTrailingWs_concat _ (by decide)]; rfl
    unfold parseStringBytes
    rw [hd]
    simp only [List.getLast?_concat, List.dropLast_concat]
    exact unescape_complete hc _ (by simp only [List.length_append, List.length_singleton]; omega)

/-! ### the lax scanner's view of a string body -/

theorem okBody_append {hs s : List Byte} (hh : ∀ b ∈ hs, 32 ≤ b ∧ b ≠ 34 ∧ b ≠ 92)
    (h : okBody s false) : okBody (hs ++ s) false := by
  induction hs with
  | nil => simpa using h
  | cons a t ih =>
    have ha := hh a (by simp)
    simp only [List.cons_append, okBody, if_neg ha.2.2, if_neg ha.2.1]
    exact ⟨ha.1, ih (fun b hb => hh b (by simp [hb]))⟩

theorem okBody_u {hs s : List Byte} {cp : Nat} (hl : hs.length = 4) (hh : IsHex4 hs cp)
    (h : okBody s false) : okBody (92 :: 117 :: (hs ++ s)) false := by
  have := okBody_append (hex4?_bytes hl hh) h
  simpa [okBody] using this

theorem Chars.okBody {s d : List Byte} (h : Chars s d) : okBody s false := by
  induction h with
  | nil => simp [Proofs.okBody]
  | raw b s d h1 h2 h3 _ ih => simp [Proofs.okBody, h2, h3, h1, ih]
  | esc e c s d h1 _ ih =>
    by_cases h34 : e = 34
    · simp [Proofs.okBody, h34, ih]
    · by_cases h92 : e = 92
      · simp [Proofs.okBody, h92, ih]
      · simp [Proofs.okBody, h34, h92, ih, (simpleEscape_props h1).2]
  | uni hs cp s d hl hh _ _ _ ih => exact okBody_u hl hh ih
  | pair hs ls hi lo s d hl ll hh lh _ _ _ ih =>
    simp only [List.cons_append, List.append_assoc]
    exact okBody_u hl hh (okBody_u ll lh ih)
  | loneHigh hs cp s d hl hh _ _ _ ih => exact okBody_u hl hh ih
  | loneLow hs cp s d hl hh _ _ ih => exact okBody_u hl hh ih

end HclModel.Json.Proofs
