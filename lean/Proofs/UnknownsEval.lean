import Proofs.UnknownsCond
import Proofs.FreeVars
/-!
One-step equations for `eval` (via `eval_unfold`), with the loop bodies of `for` expressions, splats,
templates and calls as named functions.
-/
set_option linter.unusedSimpArgs false
namespace HclModel.Proofs.Unk
open Val

theorem eval_lit (F : Cx) (ρ : Env) (v : Val) : eval F ρ (.lit v) = (v, []) := by
  rw [eval_unfold]; rfl
theorem eval_var (F : Cx) (ρ : Env) (x : String) :
    eval F ρ (.var x) = match ρ.lookup x with | some v => (v, []) | none => errOut "Unknown variable" := by
  rw [eval_unfold]; rfl
theorem eval_getAttr (F : Cx) (ρ : Env) (e : Expr) (n : String) :
    eval F ρ (.getAttr e n) =
      if hasErrors (eval F ρ e).2 then (Val.dynVal, (eval F ρ e).2)
      else ((getAttr (eval F ρ e).1 n).1, (eval F ρ e).2 ++ (getAttr (eval F ρ e).1 n).2) := by
  rw [eval_unfold]; rfl
theorem eval_index (F : Cx) (ρ : Env) (e k : Expr) :
    eval F ρ (.index e k) =
      ((index F.keepKeyMarks (eval F ρ e).1 (eval F ρ k).1).1,
        (eval F ρ e).2 ++ (eval F ρ k).2 ++ (index F.keepKeyMarks (eval F ρ e).1 (eval F ρ k).1).2) := by
  rw [eval_unfold]; rfl
theorem eval_bin (F : Cx) (ρ : Env) (op : BinOp) (l r : Expr) :
    eval F ρ (.bin op l r) = evalBin F.keepDropped op (eval F ρ l) (eval F ρ r) := by
  rw [eval_unfold]; rfl
theorem eval_un (F : Cx) (ρ : Env) (op : UnOp) (e : Expr) :
    eval F ρ (.un op e) = evalUn op (eval F ρ e) := by
  rw [eval_unfold]; rfl
theorem eval_cond (F : Cx) (ρ : Env) (c t f : Expr) :
    eval F ρ (.cond c t f) = evalCond F.keepDropped (eval F ρ c) (eval F ρ t) (eval F ρ f) := by
  rw [eval_unfold]; rfl
theorem eval_tuple (F : Cx) (ρ : Env) (es : List Expr) :
    eval F ρ (.tuple es) = (.tuple Fl.none (evalList F ρ es).1, (evalList F ρ es).2) := by
  rw [eval_unfold]; rfl
theorem eval_object (F : Cx) (ρ : Env) (items : List (Expr × Expr)) :
    eval F ρ (.object items) =
      if !(evalItems F ρ items).2 then (Val.dynVal, (evalItems F ρ items).1.diags)
      else (Val.object (evalItems F ρ items).1.marks
        ((evalItems F ρ items).1.kvs.map fun (k, vs) => (k, vs.headD Val.dynVal)), (evalItems F ρ items).1.diags) := by
  rw [eval_unfold]; rfl

/-! ### `for` expressions: the loop bodies as named functions -/

/-- evaluation of the value expression of a tuple `for` -/
def ftVal (F : Cx) (ρ' : Env) (val : Expr) (st : ForSt) : ForSt :=
  let (v, vd) := eval F ρ' val
  { st with diags := st.diags ++ vd, vals := st.vals ++ [v] }

def ftStep (F : Cx) (ρ : Env) (keyVar valVar : String) (val : Expr) (cond : Option Expr)
    (st : ForSt) (kv : Val × Val) : ForSt :=
  let ρ' := bindIter ρ keyVar valVar kv.1 kv.2
  match cond with
  | none => ftVal F ρ' val st
  | some ce =>
    let (inc, id) := eval F ρ' ce
    let st := { st with diags := st.diags ++ id }
    if inc.isNull then
      { st with diags := if st.known then st.diags ++ [⟨"Invalid 'for' condition: null", []⟩] else st.diags, known := false }
    else
      let st := { st with marks := st.marks.join inc.fl }
      if !inc.isKnown then { st with known := false }
      else match tryConvert inc .bool with
        | .error d =>
          { st with diags := if st.known then st.diags ++ [if d.isUnsupported then d else ⟨"Invalid 'for' condition", []⟩] else st.diags, known := false }
        | .ok (.bool _ false) => st
        | .ok _ => ftVal F ρ' val st

def forProbe (F : Cx) (ρ : Env) (keyVar valVar : String) (cond : Option Expr) : Option (List Diag × Fl × Bool) :=
  match cond with
  | none => none
  | some ce => some (probeCond (eval F (bindIter ρ keyVar valVar Val.dynVal Val.dynVal) ce))

theorem eval_forTuple (F : Cx) (ρ : Env) (keyVar valVar : String) (coll val : Expr) (cond : Option Expr) :
    eval F ρ (.forTuple keyVar valVar coll val cond) =
      let (cv, cd) := eval F ρ coll
      if cv.isNull then (Val.dynVal, cd ++ [⟨"Iteration over null value", []⟩])
      else if cv.typeOf == .dyn then (Val.dynVal, cd)
      else
        let (cv, cm) := cv.unmark
        if !canIterate cv.typeOf then (Val.dynVal, cd ++ [⟨"Iteration over non-iterable value", []⟩])
        else
          let probe := forProbe F ρ keyVar valVar cond
          let pd := (probe.map (·.1)).getD []
          let pm := (probe.map (·.2.1)).getD Fl.none
          let pstop := (probe.map (·.2.2)).getD false
          if pstop then (Val.dynVal, cd ++ pd)
          else
            match elements cv with
            | none => (Val.dynVal.withFl (cm.join ⟨pm.m, pm.g⟩), cd ++ pd)
            | some els =>
              let st := els.foldl (ftStep F ρ keyVar valVar val cond) ({ diags := cd ++ pd, marks := cm } : ForSt)
              if !st.known then (Val.dynVal.withFl st.marks, st.diags)
              else (Val.tuple st.marks st.vals, st.diags) := by
  rw [eval_unfold]
  cases cond <;> rfl

/-- evaluation of key and value of an object `for` -/
def foVal (F : Cx) (ρ' : Env) (key val : Expr) (group : Bool) (st : ForSt) : ForSt :=
  let (kr, kd) := eval F ρ' key
  let st := { st with diags := st.diags ++ kd }
  if kr.isNull then
    { st with diags := if st.known then st.diags ++ [⟨"Invalid object key: null", []⟩] else st.diags, known := false }
  else
    let st := { st with marks := st.marks.join kr.fl }
    if !kr.isKnown then { st with known := false }
    else match tryConvert kr .str with
      | .error d =>
        { st with diags := if st.known then st.diags ++ [if d.isUnsupported then d else ⟨"Invalid object key", []⟩] else st.diags, known := false }
      | .ok ks =>
        match ks.unmark.1 with
        | .str kf k =>
          let (v, vd) := eval F ρ' val
          let st := { st with diags := st.diags ++ vd }
          if group then { st with kvs := groupInsert k v st.kvs }
          else if (lookupKey k st.kvs).isSome then
            { st with diags := st.diags ++ [⟨"Duplicate object key", if st.marks.m then [] else [.str kf k]⟩] }
          else { st with kvs := groupInsert k v st.kvs }
        | _ => { st with known := false }

def foStep (F : Cx) (ρ : Env) (keyVar valVar : String) (key val : Expr) (cond : Option Expr) (group : Bool)
    (st : ForSt) (kv : Val × Val) : ForSt :=
  let ρ' := bindIter ρ keyVar valVar kv.1 kv.2
  match cond with
  | none => foVal F ρ' key val group st
  | some ce =>
    let (inc, id) := eval F ρ' ce
    let st := { st with diags := st.diags ++ id }
    if inc.isNull then
      { st with diags := if st.known then st.diags ++ [⟨"Invalid 'for' condition: null", []⟩] else st.diags, known := false }
    else
      let st := { st with marks := st.marks.join inc.fl }
      match tryConvert inc .bool with
      | .error d =>
        { st with diags := if st.known then st.diags ++ [if d.isUnsupported then d else ⟨"Invalid 'for' condition", []⟩] else st.diags, known := false }
      | .ok b =>
        if !b.isKnown then { st with known := false }
        else match b with
          | .bool _ false => st
          | _ => foVal F ρ' key val group st

theorem eval_forObject (F : Cx) (ρ : Env) (keyVar valVar : String) (coll key val : Expr) (cond : Option Expr)
    (group : Bool) :
    eval F ρ (.forObject keyVar valVar coll key val cond group) =
      let (cv, cd) := eval F ρ coll
      if cv.isNull then (Val.dynVal, cd ++ [⟨"Iteration over null value", []⟩])
      else if cv.typeOf == .dyn then (Val.dynVal, cd)
      else
        let (cv, cm) := cv.unmark
        if !canIterate cv.typeOf then (Val.dynVal, cd ++ [⟨"Iteration over non-iterable value", []⟩])
        else
          let probe := forProbe F ρ keyVar valVar cond
          let pd := (probe.map (·.1)).getD []
          let pm := (probe.map (·.2.1)).getD Fl.none
          let pstop := (probe.map (·.2.2)).getD false
          if pstop then (Val.dynVal, cd ++ pd)
          else
            match elements cv with
            | none => (Val.dynVal.withFl (cm.join ⟨pm.m, pm.g⟩), cd ++ pd)
            | some els =>
              let st := els.foldl (foStep F ρ keyVar valVar key val cond group) ({ diags := cd ++ pd, marks := cm } : ForSt)
              if !st.known then (Val.dynVal.withFl st.marks, st.diags)
              else if group then
                (Val.object st.marks (st.kvs.map fun (k, vs) => (k, Val.tuple Fl.none vs)), st.diags)
              else (Val.object st.marks (st.kvs.map fun (k, vs) => (k, vs.headD Val.dynVal)), st.diags) := by
  rw [eval_unfold]
  cases cond <;> rfl

/-! ### splat -/

def splatEachTy (F : Cx) (ρ : Env) (anon : String) (each : Expr) (t : Ty) : Ty × List Diag :=
  let (v, ds) := eval F ((anon, Val.unk Fl.none t) :: ρ) each
  (v.typeOf, ds)

def splatResultTy (F : Cx) (ρ : Env) (anon : String) (each : Expr) (sv : Val) : Ty × List Diag :=
  match sv.typeOf with
  | .list t => let (rt, ds) := splatEachTy F ρ anon each t; (.list rt, ds)
  | .tuple ts =>
    let rs := ts.map (splatEachTy F ρ anon each)
    (.tuple (rs.map (·.1)), rs.flatMap (·.2))
  | _ => (.dyn, [])

def splatAutoUp (t : Ty) : Bool := match t with | .tuple _ | .list _ => false | _ => true

def splatItems (sv : Val) : List Val := match sv with | .list _ _ xs => xs | .tuple _ xs => xs | _ => []

theorem eval_splat (F : Cx) (ρ : Env) (anon : String) (src each : Expr) :
    eval F ρ (.splat anon src each) =
      let (sv, sd) := eval F ρ src
      if hasErrors sd then (Val.dynVal, sd)
      else
        let sty := sv.typeOf
        let autoUp : Bool := splatAutoUp sty
        if sv.isNull then
          if autoUp then ((Val.tuple Fl.none []).withFl sv.fl, sd) else (Val.dynVal, sd ++ [⟨"Splat of null value", []⟩])
        else if sty == .dyn then (Val.dynVal.withFl sv.fl, sd)
        else
          let upgradedUnknown := autoUp && !sv.isKnown
          let sv : Val := if autoUp then (Val.tuple Fl.none [sv]).withFl sv.fl else sv
          let resultTy := splatResultTy F ρ anon each sv
          if !sv.isKnown then
            ((Val.unk Fl.none resultTy.1).withFl sv.fl, sd ++ resultTy.2)
          else
            let (sv, sm) := sv.unmark
            let items : List Val := splatItems sv
            let rs := items.map fun it => eval F ((anon, it) :: ρ) each
            let ds := sd ++ rs.flatMap (·.2)
            let vals := rs.map (·.1)
            let ok := rs.all fun r => !hasErrors r.2
            if upgradedUnknown then (Val.dynVal.withFl sm, ds)
            else if !ok then ((Val.unk Fl.none resultTy.1).withFl sm, if F.keepDropped then ds ++ resultTy.2 else ds)
            else match sv with
              | .list _ _ _ =>
                (match vals with
                 | [] => (match resultTy.1 with
                    | .list t => ((Val.list Fl.none t []).withFl sm, ds ++ resultTy.2)
                    | _ => unsupportedOut "splat empty list")
                 | v :: vs =>
                   if vs.all (fun w => w.typeOf == v.typeOf) then ((Val.list Fl.none v.typeOf vals).withFl sm, ds)
                   else unsupportedOut "splat: list elements of different types")
              | _ => ((Val.tuple Fl.none vals).withFl sm, ds) := by
  rw [eval_unfold]; rfl

/-! ### templates -/

def tmplStep (st : List Diag × Bool × Fl × String) (o : Out) : List Diag × Bool × Fl × String :=
  let (ds, known, ms, buf) := st
  let (pv, pd) := o
  let ds := ds ++ pd
  if pv.isNull then (ds ++ [⟨"Invalid template interpolation value: null", []⟩], known, ms, buf)
  else
    let (uv, pm) := pv.unmark
    let ms := ms.join pm
    if !pv.isKnown then (ds, false, ms, buf)
    else match tryConvert uv .str with
      | .error d => (ds ++ [if d.isUnsupported then d else ⟨"Invalid template interpolation value", []⟩], known, ms, buf)
      | .ok (.str _ s) => (ds, known, ms, if known && !hasErrors ds then buf ++ s else buf)
      | .ok _ => (ds, known, ms, buf)

theorem eval_template (F : Cx) (ρ : Env) (parts : List Expr) :
    eval F ρ (.template parts) =
      let st := (evalEach F ρ parts).foldl tmplStep (([] : List Diag), true, Fl.none, "")
      if st.2.1 then (Val.str st.2.2.1 st.2.2.2, st.1) else (Val.unk st.2.2.1 .str, st.1) := by
  rw [eval_unfold]; rfl

theorem eval_tjoin (F : Cx) (ρ : Env) (t : Expr) :
    eval F ρ (.tjoin t) =
      let (tv, ds) := eval F ρ t
      if tv.typeOf == .dyn then (Val.unk Fl.none .str, ds)
      else if !tv.isKnown then (Val.unk Fl.none .str, ds)
      else
        let (tv, tm) := tv.unmark
        match tv with
        | .tuple _ xs => tjoinLoop tm xs ds tm ""
        | _ => unsupportedOut "tjoin of non-tuple" := by
  rw [eval_unfold]; rfl

/-! ### function calls -/

def callExpand (F : Cx) (ρ : Env) (expand : Option Expr) : Except Out (List Val × List Diag) :=
  match expand with
  | none => .ok ([], [])
  | some le =>
    let (ev, ed) := eval F ρ le
    if hasErrors ed then .error (Val.dynVal, ed)
    else if ev.typeOf == .dyn then
      (if ev.isNull then .error (Val.dynVal, ed ++ [⟨"Invalid expanding argument value: null", []⟩]) else .error (Val.dynVal, ed))
    else match ev.typeOf with
      | .tuple _ | .list _ =>
        if ev.isNull then .error (Val.dynVal, ed ++ [⟨"Invalid expanding argument value: null", []⟩])
        else if !ev.isKnown then .error (Val.dynVal, ed)
        else
          let (uv, em) := ev.unmark
          let xs : List Val := match uv with | .list _ _ xs => xs | .tuple _ xs => xs | _ => []
          .ok (xs.map fun x => x.withFl em, ed)
      | _ => .error (Val.dynVal, ed ++ [⟨"Invalid expanding argument value", []⟩])

def callBody (F : Cx) (ρ : Env) (spec : FuncSpec) (args : List Expr) (extra : List Val) (ed : List Diag) : Out :=
  let outs := evalEach F ρ args
  let argVals := outs.map (·.1) ++ extra
  let n := argVals.length
  if n < spec.params.length then (Val.dynVal, ed ++ [⟨"Not enough function arguments", []⟩])
  else if spec.varParam.isNone && n > spec.params.length then (Val.dynVal, ed ++ [⟨"Too many function arguments", []⟩])
  else
    let (vals, cds) := convertArgs spec argVals spec.params
    let ds := ed ++ outs.flatMap (·.2) ++ cds
    if hasErrors ds then (Val.dynVal, ds)
    else match callFunc spec vals with
      | .ok v => (v, ds)
      | .error (.fail _) => (Val.dynVal, ds ++ [⟨"Error in function call", []⟩])
      | .error (.unsupported w) => (Val.dynVal, ds ++ [⟨"UNSUPPORTED " ++ w, []⟩])

theorem eval_call (F : Cx) (ρ : Env) (fn : String) (args : List Expr) (expand : Option Expr) :
    eval F ρ (.call fn args expand) =
      match F.funcs fn with
      | none => errOut "Call to unknown function"
      | some spec =>
        match callExpand F ρ expand with
        | .error o => o
        | .ok (extra, ed) => callBody F ρ spec args extra ed := by
  rw [eval_unfold]
  cases expand <;> rfl

end HclModel.Proofs.Unk
