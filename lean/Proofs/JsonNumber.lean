import HclModel.Json.Grammar
namespace HclModel.Json.Proofs
open HclModel.Json

/-! ### staged re-formulation of `parseNumberBytes` -/

def expSign (r : List Byte) : Bool × List Byte :=
  match r with
  | 45 :: r' => (true, r')
  | 43 :: r' => (false, r')
  | _ => (false, r)

def expPart (r2 : List Byte) : Option Int :=
  match r2 with
  | [] => some 0
  | c :: r =>
    if c = 101 ∨ c = 69 then
      let (eneg, r) := expSign r
      let (ep, r3) := spanDigits r
      if ep.isEmpty ∨ !r3.isEmpty then none
      else some (if eneg then - (digitsVal ep : Int) else (digitsVal ep : Int))
    else none

def fracPart (r1 : List Byte) : Option (List Byte × List Byte) :=
  match r1 with
  | 46 :: r =>
    let (fp, r2) := spanDigits r
    if fp.isEmpty then none else some (fp, r2)
  | _ => some ([], r1)

def numBody (neg : Bool) (bs : List Byte) : Option (Int × Int) :=
  let (ip, r1) := spanDigits bs
  if ip.isEmpty then none
  else if ip.length > 1 ∧ ip.head? = some 48 then none
  else
    match fracPart r1 with
    | none => none
    | some (fp, r2) =>
      match expPart r2 with
      | none => none
      | some ex =>
        let m : Int := digitsVal (ip ++ fp)
        some (if neg then -m else m, ex - fp.length)

def negSplit (bs : List Byte) : Bool × List Byte :=
  match bs with
  | 45 :: r => (true, r)
  | _ => (false, bs)

theorem parseNumberBytes_eq (bs : List Byte) :
    parseNumberBytes bs = numBody (negSplit bs).1 (negSplit bs).2 := rfl

/-! ### digit facts -/

theorem isDigit_ne {b : Byte} (h : isDigit b = true) :
    b ≠ 45 ∧ b ≠ 43 ∧ b ≠ 46 ∧ b ≠ 101 ∧ b ≠ 69 := by
  simp [isDigit] at h
  unfold Byte at *
  omega

/-- `r` does not start with a digit -/
def NoDigitHead (r : List Byte) : Prop := ∀ b t, r = b :: t → isDigit b = false

theorem noDigitHead_nil : NoDigitHead [] := by
  intro b t h; cases h

theorem noDigitHead_cons {b : Byte} (t : List Byte) (h : isDigit b = false) : NoDigitHead (b :: t) := by
  intro b' t' h'; cases h'; exact h

theorem dropWhile_noDigitHead (bs : List Byte) : NoDigitHead (bs.dropWhile isDigit) := by
  induction bs with
  | nil => exact noDigitHead_nil
  | cons a l ih =>
    rw [List.dropWhile_cons]
    split
    · exact ih
    · next h => exact noDigitHead_cons l (by simpa using h)

theorem span_spec (bs : List Byte) :
    (spanDigits bs).1 ++ (spanDigits bs).2 = bs ∧ AllDigits (spanDigits bs).1 ∧
      NoDigitHead (spanDigits bs).2 :=
  ⟨List.takeWhile_append_dropWhile, List.all_eq_true.mp List.all_takeWhile, dropWhile_noDigitHead bs⟩

theorem span_append {ip r : List Byte} (hip : AllDigits ip) (hr : NoDigitHead r) :
    spanDigits (ip ++ r) = (ip, r) := by
  induction ip with
  | nil =>
    cases r with
    | nil => rfl
    | cons b t => simp [spanDigits, hr b t rfl]
  | cons a l ih =>
    have ha : isDigit a = true := hip a (by simp)
    have := ih (fun b hb => hip b (by simp [hb]))
    simp only [spanDigits, Prod.mk.injEq] at this
    simp [spanDigits, ha, this.1, this.2]

theorem span_allDigits {ip : List Byte} (hip : AllDigits ip) : spanDigits ip = (ip, []) := by
  have := span_append hip noDigitHead_nil
  simpa using this

/-! ### sign splitting -/

theorem negSplit_spec (bs : List Byte) :
    (∃ r, bs = 45 :: r ∧ negSplit bs = (true, r)) ∨ negSplit bs = (false, bs) := by
  unfold negSplit
  split
  · exact .inl ⟨_, rfl, rfl⟩
  · exact .inr rfl

theorem negSplit_digit {b : Byte} (t : List Byte) (h : b ≠ 45) : negSplit (b :: t) = (false, b :: t) := by
  unfold negSplit
  split
  · next heq => cases heq; exact absurd rfl h
  · rfl

theorem expSign_spec (r : List Byte) :
    (∃ r', r = 45 :: r' ∧ expSign r = (true, r')) ∨ (∃ r', r = 43 :: r' ∧ expSign r = (false, r')) ∨
      expSign r = (false, r) := by
  unfold expSign
  split
  · exact .inl ⟨_, rfl, rfl⟩
  · exact .inr (.inl ⟨_, rfl, rfl⟩)
  · exact .inr (.inr rfl)

theorem expSign_nil : expSign [] = (false, []) := rfl

theorem expSign_cons {b : Byte} (t : List Byte) (h45 : b ≠ 45) (h43 : b ≠ 43) :
    expSign (b :: t) = (false, b :: t) := by
  unfold expSign
  split
  · next heq => cases heq; exact absurd rfl h45
  · next heq => cases heq; exact absurd rfl h43
  · rfl

/-! ### exponent part -/

def ExpCond (eneg : Bool) (esign ep : List Byte) (emark : Byte) : Prop :=
  ep ≠ [] ∧ AllDigits ep ∧ (emark = 101 ∨ emark = 69) ∧
    ((eneg = true ∧ esign = [45]) ∨ (eneg = false ∧ (esign = [43] ∨ esign = [])))

theorem expPart_sound {r2 : List Byte} {ex : Int} (h : expPart r2 = some ex) :
    (r2 = [] ∧ ex = 0) ∨ ∃ eneg esign ep emark, ExpCond eneg esign ep emark ∧
      r2 = emark :: esign ++ ep ∧
      ex = (if eneg then -(digitsVal ep : Int) else (digitsVal ep : Int)) := by
  cases r2 with
  | nil => simp [expPart] at h; exact .inl ⟨rfl, h.symm⟩
  | cons c r =>
    right
    unfold expPart at h
    simp only at h
    split at h
    · next hc =>
      have key : ∀ eneg r', expSign r = (eneg, r') →
          ∃ esign, r = esign ++ r' ∧
            ((eneg = true ∧ esign = [45]) ∨ (eneg = false ∧ (esign = [43] ∨ esign = []))) := by
        intro eneg r' he
        rcases expSign_spec r with ⟨r'', rfl, h'⟩ | ⟨r'', rfl, h'⟩ | h'
        · rw [h'] at he; cases he; exact ⟨[45], rfl, .inl ⟨rfl, rfl⟩⟩
        · rw [h'] at he; cases he; exact ⟨[43], rfl, .inr ⟨rfl, .inl rfl⟩⟩
        · rw [h'] at he; cases he; exact ⟨[], rfl, .inr ⟨rfl, .inr rfl⟩⟩
      generalize hes : expSign r = p at h
      obtain ⟨eneg, r'⟩ := p
      obtain ⟨esign, rfl, hsign⟩ := key eneg r' hes
      obtain ⟨hsp, hall, -⟩ := span_spec r'
      generalize spanDigits r' = q at h hsp hall
      obtain ⟨ep, r3⟩ := q
      simp only at h hsp hall
      split at h
      · cases h
      · next hne =>
        simp only [not_or, List.isEmpty_iff, Bool.not_eq_eq_eq_not, Bool.not_true] at hne
        cases h
        have hr3 : r3 = [] := by simpa using hne.2
        subst hr3
        simp only [List.append_nil] at hsp
        subst hsp
        exact ⟨eneg, esign, ep, c, ⟨hne.1, hall, hc, hsign⟩, rfl, rfl⟩
    · cases h

theorem expPart_nil : expPart [] = some 0 := rfl

theorem expPart_complete {eneg : Bool} {esign ep : List Byte} {emark : Byte}
    (h : ExpCond eneg esign ep emark) :
    expPart (emark :: esign ++ ep) =
      some (if eneg then -(digitsVal ep : Int) else (digitsVal ep : Int)) := by
  obtain ⟨hne, hall, hmark, hsign⟩ := h
  have hes : expSign (esign ++ ep) = (eneg, ep) := by
    rcases hsign with ⟨rfl, rfl⟩ | ⟨rfl, rfl | rfl⟩
    · rfl
    · rfl
    · cases ep with
      | nil => exact absurd rfl hne
      | cons a l =>
        have ha := isDigit_ne (hall a (by simp))
        exact expSign_cons l ha.1 ha.2.1
  simp only [expPart, List.cons_append, hmark, if_true, hes, span_allDigits hall]
  simp [hne]

/-! ### fraction part -/

theorem fracPart_sound {r1 fp r2 : List Byte} (h : fracPart r1 = some (fp, r2)) :
    AllDigits fp ∧ r1 = (if fp = [] then [] else 46 :: fp) ++ r2 := by
  unfold fracPart at h
  split at h
  · next r =>
    obtain ⟨hsp, hall, -⟩ := span_spec r
    generalize spanDigits r = q at h hsp hall
    obtain ⟨fp', r2'⟩ := q
    simp only at h hsp hall
    split at h
    · cases h
    · next hne =>
      cases h
      have hne' : fp ≠ [] := by simpa using hne
      simp [hne', hsp, hall]
  · cases h
    simp [AllDigits]

theorem fracPart_complete {fp r2 : List Byte} (hall : AllDigits fp) (hr2 : NoDigitHead r2)
    (h46 : ∀ t, r2 ≠ 46 :: t) :
    fracPart ((if fp = [] then [] else 46 :: fp) ++ r2) = some (fp, r2) := by
  by_cases hfp : fp = []
  · subst hfp
    simp only [if_true, List.nil_append]
    unfold fracPart
    split
    · exact absurd rfl (h46 _)
    · rfl
  · simp only [hfp, if_false, List.cons_append]
    unfold fracPart
    simp only [span_append hall hr2]
    simp [hfp]

/-! ### the body after the optional minus sign -/

theorem IsNumber.mk' {bs : List Byte} {m e : Int}
    (neg : Bool) (ip fp : List Byte) (hasExp : Bool) (eneg : Bool) (esign : List Byte) (ep : List Byte)
    (emark : Byte) (hip : IsInt ip) (hfp : AllDigits fp)
    (hexp : hasExp = true → ExpCond eneg esign ep emark)
    (hb : bs = (if neg then [45] else []) ++ ip ++ (if fp = [] then [] else 46 :: fp) ++
          (if hasExp then emark :: esign ++ ep else []))
    (hm : m = (if neg then -(digitsVal (ip ++ fp) : Int) else (digitsVal (ip ++ fp) : Int)))
    (he : e = (if hasExp then (if eneg then -(digitsVal ep : Int) else (digitsVal ep : Int)) else 0)
          - fp.length) :
    IsNumber bs m e := by
  subst hb hm he
  exact IsNumber.mk neg ip fp hasExp eneg esign ep emark hip hfp hexp

theorem numBody_sound {neg : Bool} {bs : List Byte} {m e : Int} (h : numBody neg bs = some (m, e)) :
    IsNumber ((if neg then [45] else []) ++ bs) m e := by
  unfold numBody at h
  obtain ⟨hsp, hall, -⟩ := span_spec bs
  generalize spanDigits bs = q at h hsp hall
  obtain ⟨ip, r1⟩ := q
  simp only at h hsp hall
  split at h
  · cases h
  · next hne =>
    split at h
    · cases h
    · next hlead =>
      have hip : IsInt ip := by
        refine ⟨by simpa using hne, hall, ?_⟩
        intro hlen hhead
        exact hlead ⟨hlen, hhead⟩
      split at h
      · cases h
      · next fp r2 hfrac =>
        obtain ⟨hfp, hr1⟩ := fracPart_sound hfrac
        split at h
        · cases h
        · next ex hex =>
          simp only [Option.some.injEq, Prod.mk.injEq] at h
          obtain ⟨hm, he⟩ := h
          rcases expPart_sound hex with ⟨rfl, rfl⟩ | ⟨eneg, esign, ep, emark, hcond, rfl, rfl⟩
          · refine IsNumber.mk' neg ip fp false false [] [] 0 hip hfp (by simp) ?_ hm.symm ?_
            · simp [← hsp, hr1]
            · simp [← he]
          · refine IsNumber.mk' neg ip fp true eneg esign ep emark hip hfp (fun _ => hcond) ?_ hm.symm ?_
            · simp [← hsp, hr1]
            · simp [← he]

theorem numBody_complete (neg : Bool) {ip fp : List Byte} (hasExp eneg : Bool) {esign ep : List Byte}
    {emark : Byte} (hip : IsInt ip) (hfp : AllDigits fp)
    (hexp : hasExp = true → ExpCond eneg esign ep emark) :
    numBody neg (ip ++ (if fp = [] then [] else 46 :: fp) ++
        (if hasExp then emark :: esign ++ ep else [])) =
      some ((if neg then -(digitsVal (ip ++ fp) : Int) else (digitsVal (ip ++ fp) : Int)),
        (if hasExp then (if eneg then -(digitsVal ep : Int) else (digitsVal ep : Int)) else 0)
          - fp.length) := by
  obtain ⟨hne, hall, hlead⟩ := hip
  -- the exponent text
  have hX : NoDigitHead (if hasExp then emark :: esign ++ ep else []) ∧
      (∀ t, (if hasExp then emark :: esign ++ ep else []) ≠ 46 :: t) ∧
      expPart (if hasExp then emark :: esign ++ ep else []) =
        some (if hasExp then (if eneg then -(digitsVal ep : Int) else (digitsVal ep : Int)) else 0) := by
    cases hasExp with
    | false => exact ⟨noDigitHead_nil, fun t h => (by cases h), rfl⟩
    | true =>
      have hc := hexp rfl
      have hmark : isDigit emark = false ∧ emark ≠ 46 := by
        rcases hc.2.2.1 with rfl | rfl <;> decide
      refine ⟨noDigitHead_cons _ hmark.1, ?_, expPart_complete hc⟩
      intro t h
      simp only [if_true, List.cons_append, List.cons.injEq] at h
      exact hmark.2 h.1
  generalize (if hasExp then emark :: esign ++ ep else []) = X at hX
  generalize (if hasExp then (if eneg then -(digitsVal ep : Int) else (digitsVal ep : Int)) else 0) = ex at hX
  obtain ⟨hXd, hX46, hXe⟩ := hX
  have hF : NoDigitHead ((if fp = [] then [] else 46 :: fp) ++ X) := by
    by_cases h : fp = []
    · simpa [h] using hXd
    · simp only [h, if_false, List.cons_append]
      exact noDigitHead_cons _ (by decide)
  unfold numBody
  rw [List.append_assoc, span_append hall hF]
  simp only [fracPart_complete hfp hXd hX46, hXe]
  have h1 : ip.isEmpty = false := by simpa using hne
  have h2 : ¬ (ip.length > 1 ∧ ip.head? = some 48) := fun h => hlead h.1 h.2
  simp [h1, h2]

/-! ### main theorems -/

theorem parseNumberBytes_sound {bs : List Byte} {m e : Int}
    (h : parseNumberBytes bs = some (m, e)) : IsNumber bs m e := by
  rw [parseNumberBytes_eq] at h
  rcases negSplit_spec bs with ⟨r, rfl, hs⟩ | hs
  · rw [hs] at h
    exact numBody_sound h
  · rw [hs] at h
    exact numBody_sound h

theorem parseNumberBytes_complete {bs : List Byte} {m e : Int}
    (h : IsNumber bs m e) : parseNumberBytes bs = some (m, e) := by
  obtain ⟨neg, ip, fp, hasExp, eneg, esign, ep, emark, hip, hfp, hexp⟩ := h
  rw [parseNumberBytes_eq]
  have hbody := numBody_complete neg hasExp eneg hip hfp hexp
  cases neg with
  | true =>
    simp only [if_true, List.append_assoc, List.cons_append, List.nil_append] at hbody ⊢
    exact hbody
  | false =>
    obtain ⟨hne, hall, -⟩ := hip
    cases ip with
    | nil => exact absurd rfl hne
    | cons a l =>
      have ha := isDigit_ne (hall a (by simp))
      simp only [Bool.false_eq_true, if_false, List.nil_append, List.cons_append] at hbody ⊢
      rw [negSplit_digit _ ha.1]
      exact hbody

/-- shape facts the scanner proof needs -/
theorem IsNumber.scan_facts {bs : List Byte} {m e : Int} (h : IsNumber bs m e) :
    (∃ b r, bs = b :: r ∧ canStartNumber b = true) ∧ (∀ b ∈ bs, isNumberByte b = true) := by
  obtain ⟨neg, ip, fp, hasExp, eneg, esign, ep, emark, hip, hfp, hexp⟩ := h
  obtain ⟨hne, hall, -⟩ := hip
  have hdig : ∀ b, isDigit b = true → isNumberByte b = true := by
    intro b hb; simp [isNumberByte, hb]
  constructor
  · cases neg with
    | true => exact ⟨45, _, rfl, by decide⟩
    | false =>
      cases ip with
      | nil => exact absurd rfl hne
      | cons a l =>
        exact ⟨a, _, rfl, by simp [canStartNumber, hall a (by simp)]⟩
  · intro b hb
    simp only [List.mem_append] at hb
    rcases hb with ((hb | hb) | hb) | hb
    · cases neg with
      | true => simp at hb; subst hb; decide
      | false => simp at hb
    · exact hdig b (hall b hb)
    · by_cases h : fp = []
      · simp [h] at hb
      · simp only [h, if_false, List.mem_cons] at hb
        rcases hb with rfl | hb
        · decide
        · exact hdig b (hfp b hb)
    · cases hasExp with
      | false => simp at hb
      | true =>
        obtain ⟨-, hepall, hmark, hsign⟩ := hexp rfl
        simp only [if_true, List.mem_cons, List.mem_append] at hb
        rcases hb with (rfl | hb) | hb
        · rcases hmark with rfl | rfl <;> decide
        · rcases hsign with ⟨-, rfl⟩ | ⟨-, rfl | rfl⟩
          · simp at hb; subst hb; decide
          · simp at hb; subst hb; decide
          · simp at hb
        · exact hdig b (hepall b hb)

end HclModel.Json.Proofs
