import HclModel.Gohcl.Codec
/-!
C16: the struct encoder and decoder, one field at a time.  `encodeFields`, `decodeFields`, `fieldsOk`,
`fieldsPtrOk`, `fieldsWf`, `labelVals` are restated as "head field, then the rest"; everything else about the
struct round trip (`Proofs/GohclStruct.lean`) is proved from these equations, not from the definitions.
-/
namespace HclModel.Gohcl.Proofs
open HclModel HclModel.Body

/-- a block as `Content` sees it -/
def toB (blk : GBlock) : Block GBlock := ⟨blk.type, blk.labels, blk⟩

theorem native_mk (as : List (String × Val)) (bs : List GBlock) :
    (GBody.mk as bs).native = { attrs := as, blocks := bs.map toB } := rfl

/-! ### encoder -/

/-- what an attribute field contributes to the body -/
def encAttr (name : String) (ty : GTy) (v : GVal) : Option (List (String × Val)) :=
  match ty, v with
  | .ptr _, .ptr none => some []
  | .ptr (.ptr _), .ptr (some (.ptr none)) => some []
  | .ptr t, .ptr (some x) => (toCty t x).map fun c => [(name, c)]
  | _, _ => (toCty ty v).map fun c => [(name, c)]

/-- what a block field contributes to the body -/
def encHere (type : String) (shape : Shape) (sty : STy) (v : FVal) : Option (List GBlock) :=
  match shape, v with
  | .one, .one s => (encodeBlock type sty s).map ([·])
  | .ptr, .ptr none => some []
  | .ptr, .ptr (some s) => (encodeBlock type sty s).map ([·])
  | .slice, .slice none => some []
  | .slice, .slice (some xs) => encodeBlocks type sty xs
  | .slicePtr, .slicePtr none => some []
  | .slicePtr, .slicePtr (some xs) => encodeBlocks type sty xs
  | _, _ => none

def encField : Field → FVal → Option (List (String × Val) × List GBlock)
  | .attr name _ ty, .attr v => (encAttr name ty v).map fun a => (a, [])
  | .label _, .label _ => some ([], [])
  | .block type shape sty, v => (encHere type shape sty v).map fun b => ([], b)
  | _, _ => none

/- The equation compiler cannot generate the equational theorems of `encodeFields` ("failed to generate
   equational theorem"): its equations are stated here and hold by definitional unfolding. -/

theorem encodeFields_attr (name : String) (o : Bool) (ty : GTy) (fs : List Field) (v : GVal) (vs : List FVal) :
    encodeFields (.attr name o ty :: fs) (.attr v :: vs) =
      match encodeFields fs vs with
      | none => none
      | some (as, bs) =>
        match ty, v with
        | .ptr _, .ptr none => some (as, bs)
        | .ptr (.ptr _), .ptr (some (.ptr none)) => some (as, bs)
        | .ptr t, .ptr (some x) => (toCty t x).map fun c => ((name, c) :: as, bs)
        | _, _ => (toCty ty v).map fun c => ((name, c) :: as, bs) := rfl

theorem encodeFields_label (n s : String) (fs : List Field) (vs : List FVal) :
    encodeFields (.label n :: fs) (.label s :: vs) = encodeFields fs vs := rfl

theorem encodeFields_block (type : String) (shape : Shape) (sty : STy) (fs : List Field) (v : FVal)
    (vs : List FVal) :
    encodeFields (.block type shape sty :: fs) (v :: vs) =
      match encodeFields fs vs with
      | none => none
      | some (as, bs) => (encHere type shape sty v).map fun h => (as, h ++ bs) := by
  rcases v with _ | _ | _ | (_ | _) | (_ | _) | (_ | _) <;> cases shape <;> rfl

theorem encodeFields_cons (f : Field) (fs : List Field) (v : FVal) (vs : List FVal) :
    encodeFields (f :: fs) (v :: vs) =
      match encodeFields fs vs, encField f v with
      | some (as, bs), some (a, b) => some (a ++ as, b ++ bs)
      | _, _ => none := by
  cases f with
  | attr name o ty =>
    cases v with
    | attr g =>
      rw [encodeFields_attr]
      cases encodeFields fs vs with
      | none => rfl
      | some p =>
        obtain ⟨as, bs⟩ := p
        simp only [encField, encAttr]
        split
        · rfl
        · rfl
        · cases toCty _ _ <;> rfl
        · cases toCty _ _ <;> rfl
    | label _ | one _ | ptr _ | slice _ | slicePtr _ =>
      rcases encodeFields fs vs with _ | ⟨as, bs⟩ <;> rfl
  | label n =>
    cases v with
    | label s => 
      rw [encodeFields_label]
      cases encodeFields fs vs with
      | none => rfl
      | some p => rfl
    | attr _ | one _ | ptr _ | slice _ | slicePtr _ =>
      rcases encodeFields fs vs with _ | ⟨as, bs⟩ <;> rfl
  | block type shape sty =>
    rw [encodeFields_block]
    cases encodeFields fs vs with
    | none => rfl
    | some p =>
      obtain ⟨as, bs⟩ := p
      simp only [encField]
      cases encHere type shape sty v <;> rfl

theorem encodeFields_nil : encodeFields [] [] = some ([], []) := rfl

/-! ### decoder -/

/-- the block field of one shape, from the blocks of its type -/
def decShape (fuel : Nat) (shape : Shape) (sty : STy) (blocks : List (Block GBlock)) : Option FVal :=
  match shape with
  | .one =>
    (match blocks with
     | [b] => (decodeBlock fuel sty b.body).map FVal.one
     | _ => none)
  | .ptr =>
    (match blocks with
     | [] => some (.ptr none)
     | [b] => (decodeBlock fuel sty b.body).map fun s => FVal.ptr (some s)
     | _ => none)
  | .slice =>
    (match blocks with
     | [] => some (.slice none)
     | _ => (decodeBlocks fuel sty (blocks.map (·.body))).map fun xs => FVal.slice (some xs))
  | .slicePtr =>
    (match blocks with
     | [] => some (.slicePtr none)
     | _ => (decodeBlocks fuel sty (blocks.map (·.body))).map fun xs => FVal.slicePtr (some xs))

def decField (fuel : Nat) (f : Field) (c : Content Val GBlock) (labels : List String) : Option FVal :=
  match f with
  | .attr name _ ty =>
    (match findAttr name c.attrs with
     | none => some (.attr (zeroOf ty))
     | some v => (decodeExpr ty (reparse v)).map FVal.attr)
  | .label _ => some (.label (labels.headD ""))
  | .block type shape sty => decShape fuel shape sty (c.blocks.filter (·.type == type))

/-- the labels left for the remaining fields -/
def restLabels (f : Field) (labels : List String) : List String :=
  match f with
  | .label _ => labels.tail
  | _ => labels

theorem decodeFields_cons (fuel : Nat) (f : Field) (fs : List Field) (c : Content Val GBlock)
    (labels : List String) :
    decodeFields fuel (f :: fs) c labels =
      match decField fuel f c labels, decodeFields fuel fs c (restLabels f labels) with
      | some h, some rest => some (h :: rest)
      | _, _ => none := by
  cases f with
  | attr name o ty => rw [decodeFields.eq_def]; rfl
  | label n =>
    rw [decodeFields.eq_def]; simp only [decField, restLabels]
    cases decodeFields fuel fs c labels.tail <;> rfl
  | block type shape sty => rw [decodeFields.eq_def]; cases shape <;> rfl

theorem decodeFields_nil (fuel : Nat) (c : Content Val GBlock) (labels : List String) :
    decodeFields fuel [] c labels = some [] := by rw [decodeFields.eq_def]

/-! ### well-formedness predicates and labels -/

def fieldOk : Field → FVal → Bool
  | .attr _ _ t, .attr v => hasTy t v
  | .label _, .label _ => true
  | .block _ .one sty, .one s => s.ok sty
  | .block _ .ptr _, .ptr none => true
  | .block _ .ptr sty, .ptr (some s) => s.ok sty
  | .block _ .slice _, .slice none => true
  | .block _ .slice sty, .slice (some xs) => !xs.isEmpty && allOk sty xs
  | .block _ .slicePtr _, .slicePtr none => true
  | .block _ .slicePtr sty, .slicePtr (some xs) => !xs.isEmpty && allOk sty xs
  | _, _ => false

theorem fieldsOk_cons (f : Field) (fs : List Field) (v : FVal) (vs : List FVal) :
    fieldsOk (f :: fs) (v :: vs) = (fieldOk f v && fieldsOk fs vs) := by
  rcases f with _ | _ | ⟨_, _ | _ | _ | _, _⟩ <;> rcases v with _ | _ | _ | (_ | _) | (_ | _) | (_ | _) <;>
    simp [fieldsOk, fieldOk]

theorem fieldsOk_nil_left (vs : List FVal) : fieldsOk [] vs = true → vs = [] := by
  cases vs <;> simp [fieldsOk]

theorem fieldsOk_nil_right (f : Field) (fs : List Field) : fieldsOk (f :: fs) [] = false := by
  cases f <;> simp [fieldsOk]

def fieldWf : Field → Bool
  | .attr _ _ t => noInnerPtr t
  | .label _ => true
  | .block _ _ sty => sty.wf

theorem fieldsWf_cons (f : Field) (fs : List Field) : fieldsWf (f :: fs) = (fieldWf f && fieldsWf fs) := by
  cases f <;> simp [fieldsWf, fieldWf]

def labelOf : Field → FVal → List String
  | .label _, .label s => [s]
  | _, _ => []

theorem labelVals_cons (f : Field) (fs : List Field) (v : FVal) (vs : List FVal) :
    labelVals (f :: fs) (v :: vs) = labelOf f v ++ labelVals fs vs := by
  cases f <;> cases v <;> simp [labelVals, labelOf]

theorem labelVals_nil : labelVals [] [] = [] := by simp [labelVals]

theorem labelNames_cons (f : Field) (fs : List Field) :
    labelNames (f :: fs) = (match f with | .label n => [n] | _ => []) ++ labelNames fs := by
  cases f <;> simp [labelNames]

theorem labelVals_length : ∀ (fs : List Field) (vs : List FVal), fieldsOk fs vs = true →
    (labelVals fs vs).length = (labelNames fs).length
  | [], vs, h => by rw [fieldsOk_nil_left vs h, labelVals_nil]; rfl
  | f :: fs, [], h => by rw [fieldsOk_nil_right] at h; exact absurd h (by decide)
  | f :: fs, v :: vs, h => by
    rw [fieldsOk_cons, Bool.and_eq_true] at h
    rw [labelVals_cons, labelNames_cons, List.length_append, List.length_append, labelVals_length fs vs h.2]
    have h1 := h.1
    cases f <;> cases v <;> simp_all [fieldOk, labelOf]

def fieldDepth : Field → Nat
  | .block _ _ sty => sty.depth
  | _ => 0

theorem fieldsDepth_cons (f : Field) (fs : List Field) :
    fieldsDepth (f :: fs) = max (fieldDepth f) (fieldsDepth fs) := by
  cases f <;> simp [fieldsDepth, fieldDepth]

theorem depth_mk (fields : List Field) : (STy.mk fields).depth = 1 + fieldsDepth fields := by
  simp [STy.depth]

theorem allOk_cons (sty : STy) (s : SVal) (rest : List SVal) :
    allOk sty (s :: rest) = (s.ok sty && allOk sty rest) := by
  simp [allOk]

theorem ok_mk (fields : List Field) (vals : List FVal) : SVal.ok (.mk fields) (.mk vals) = fieldsOk fields vals := by
  simp [SVal.ok]

end HclModel.Gohcl.Proofs
