import Proofs.JBodyAgree
/-!
C03, schema violations at one level: when processing the JSON rendering of an admissible layout reports an
error, compared with processing the native body of the configuration denoted.
-/
namespace HclModel.JBody.Proofs
open HclModel HclModel.Body HclModel.Body.Proofs

/-! ### the two conditions under which the error behaviours coincide -/

/-- no block-type property unknown to the schema holds no block (`"t": null`, `"t": []`) -/
def noEmptyUnknown (st : STree) : BodyL → Bool
  | .obj props => props.all fun p => match p with
      | .blocks t u => st.schema.blocks.any (·.type == t) || !(denoteUnder t [] u).isEmpty
      | _ => true
  | .arr parts => parts.all fun ps => ps.all fun p => match p with
      | .blocks t u => st.schema.blocks.any (·.type == t) || !(denoteUnder t [] u).isEmpty
      | _ => true

mutual
/-- every label level (the first `k` levels under a block type name) has at least one property:
    no `null`, `{}`, `[]`, `[{}]` where a label is expected -/
def fullLabels : Nat → UnderL → Bool
  | 0, _ => true
  | k+1, .labelsObj part => !part.isEmpty && fullLabelProps k part
  | k+1, .labelsArr parts => !parts.flatten.isEmpty && fullLabelParts k parts
  | _+1, _ => false
def fullLabelParts (k : Nat) : List (List (String × UnderL)) → Bool
  | [] => true
  | p :: rest => fullLabelProps k p && fullLabelParts k rest
def fullLabelProps (k : Nat) : List (String × UnderL) → Bool
  | [] => true
  | (_, u) :: rest => fullLabels k u && fullLabelProps k rest
end

/-- no label level of a block type the schema knows is empty -/
def noEmptyLabels (st : STree) : BodyL → Bool
  | .obj props => props.all fun p => match p with
      | .blocks t u => match st.schema.blocks.find? (·.type == t) with
        | some bs => fullLabels bs.labelCount u
        | none => true
      | _ => true
  | .arr parts => parts.all fun ps => ps.all fun p => match p with
      | .blocks t u => match st.schema.blocks.find? (·.type == t) with
        | some bs => fullLabels bs.labelCount u
        | none => true
      | _ => true

theorem all_parts {α : Type} (f : α → Bool) (parts : List (List α)) :
    (parts.all fun ps => ps.all f) = parts.flatten.all f := by
  induction parts with
  | nil => rfl
  | cons p rest ih => simp only [List.all_cons, List.flatten_cons, List.all_append, ih]

theorem noEmptyUnknown_iff (st : STree) (L : BodyL) :
    noEmptyUnknown st L = true ↔
      ∀ t u, PropL.blocks t u ∈ bodyProps L →
        st.schema.blocks.any (·.type == t) = true ∨ denoteUnder t [] u ≠ [] := by
  have key : ∀ ps : List PropL,
      (ps.all fun p => match p with
        | .blocks t u => st.schema.blocks.any (·.type == t) || !(denoteUnder t [] u).isEmpty
        | _ => true) = true ↔
      ∀ t u, PropL.blocks t u ∈ ps → st.schema.blocks.any (·.type == t) = true ∨ denoteUnder t [] u ≠ [] := by
    intro ps
    rw [List.all_eq_true]
    constructor
    · intro h t u hm
      have := h _ hm
      simpa [List.isEmpty_iff] using this
    · intro h p hp
      cases p with
      | blocks t u => simpa [List.isEmpty_iff] using h t u hp
      | comment v => rfl
      | attr n v => rfl
  cases L with
  | obj props => exact key props
  | arr parts =>
    simp only [noEmptyUnknown, all_parts]
    exact key parts.flatten

theorem noEmptyLabels_iff (st : STree) (L : BodyL) :
    noEmptyLabels st L = true ↔
      ∀ t u, PropL.blocks t u ∈ bodyProps L → ∀ bs, st.schema.blocks.find? (·.type == t) = some bs →
        fullLabels bs.labelCount u = true := by
  have key : ∀ ps : List PropL,
      (ps.all fun p => match p with
        | .blocks t u => match st.schema.blocks.find? (·.type == t) with
          | some bs => fullLabels bs.labelCount u
          | none => true
        | _ => true) = true ↔
      ∀ t u, PropL.blocks t u ∈ ps → ∀ bs, st.schema.blocks.find? (·.type == t) = some bs →
        fullLabels bs.labelCount u = true := by
    intro ps
    rw [List.all_eq_true]
    constructor
    · intro h t u hm bs hbs
      have := h _ hm
      simpa [hbs] using this
    · intro h p hp
      cases p with
      | blocks t u =>
        cases hf : st.schema.blocks.find? (·.type == t) with
        | none => simp [hf]
        | some bs => simpa [hf] using h t u hp bs hf
      | comment v => rfl
      | attr n v => rfl
  cases L with
  | obj props => exact key props
  | arr parts =>
    simp only [noEmptyLabels, all_parts]
    exact key parts.flatten

/-! ### errors of `unpackBlock` on rendered layouts: exactly the empty label levels -/

theorem renderLabelProps_isEmpty (part : List (String × UnderL)) :
    (renderLabelProps part).isEmpty = part.isEmpty := by
  cases part with
  | nil => rfl
  | cons p rest => obtain ⟨k, u⟩ := p; rfl

theorem fullLabelProps_append (k : Nat) (a b : List (String × UnderL)) :
    fullLabelProps k (a ++ b) = (fullLabelProps k a && fullLabelProps k b) := by
  induction a with
  | nil => simp [fullLabelProps]
  | cons p rest ih => obtain ⟨k', u⟩ := p; simp [fullLabelProps, ih, Bool.and_assoc]

theorem fullLabelParts_eq (k : Nat) (parts : List (List (String × UnderL))) :
    fullLabelParts k parts = fullLabelProps k parts.flatten := by
  induction parts with
  | nil => simp [fullLabelParts, fullLabelProps]
  | cons p rest ih => simp [fullLabelParts, fullLabelProps_append, ih]

mutual
theorem unpack_errs : ∀ (cst : STree) (t : String) (k : Nat) (labels : List String) (u : UnderL),
    admUnder cst k u = true →
    ((unpackBlock t k labels (renderUnder u)).2 = [] ↔ fullLabels k u = true)
  | cst, t, 0, labels, .none, _ => by simp [renderUnder, unpackBlock, fullLabels]
  | cst, t, k+1, labels, .none, _ => by
    simp [renderUnder, unpack_succ_snd, collectDeepAttrs, fullLabels]
  | cst, t, 0, labels, .one props, _ => by simp [renderUnder, unpackBlock, fullLabels]
  | cst, t, 0, labels, .many bodies, _ => by simp [renderUnder, unpackBlock, fullLabels]
  | cst, t, k+1, labels, .labelsObj part, h => by
    simp only [admUnder] at h
    rw [unpack_succ_snd, collect_renderUnder_labels _ (by simp) (by simp)]
    simp only [labelLevel, fullLabels, renderLabelProps_isEmpty, Bool.false_eq_true, if_false,
      List.nil_append, Bool.and_eq_true, Bool.not_eq_true']
    cases hp : part.isEmpty with
    | true => simp
    | false =>
      simp only [Bool.false_eq_true, if_false, true_and]
      exact go_errs cst t k labels part h
  | cst, t, k+1, labels, .labelsArr parts, h => by
    simp only [admUnder, admLabelParts_eq] at h
    rw [unpack_succ_snd, collect_renderUnder_labels _ (by simp) (by simp)]
    simp only [labelLevel, fullLabels, renderLabelProps_isEmpty, Bool.false_eq_true, if_false,
      List.nil_append, Bool.and_eq_true, Bool.not_eq_true', fullLabelParts_eq]
    cases hp : parts.flatten.isEmpty with
    | true => simp
    | false =>
      simp only [Bool.false_eq_true, if_false, true_and]
      exact go_errs cst t k labels parts.flatten h
  | cst, t, 0, labels, .labelsObj _, h => by simp [admUnder] at h
  | cst, t, 0, labels, .labelsArr _, h => by simp [admUnder] at h
  | cst, t, k+1, labels, .one _, h => by simp [admUnder] at h
  | cst, t, k+1, labels, .many _, h => by simp [admUnder] at h
theorem go_errs : ∀ (cst : STree) (t : String) (k : Nat) (labels : List String) (part : List (String × UnderL)),
    admLabelProps cst k part = true →
    ((unpackBlock.go t k labels (renderLabelProps part)).2 = [] ↔ fullLabelProps k part = true)
  | cst, t, k, labels, [], _ => by simp [renderLabelProps, unpackBlock.go, fullLabelProps]
  | cst, t, k, labels, (k', u) :: rest, h => by
    simp only [admLabelProps, Bool.and_eq_true] at h
    simp only [renderLabelProps, unpackBlock.go, fullLabelProps, List.append_eq_nil_iff, Bool.and_eq_true,
      unpack_errs cst t k (labels ++ [k']) u h.1, go_errs cst t k labels rest h.2]
end

/-! ### the three groups of errors of `content` -/

theorem unpackErrs_nil_iff (s : Schema) (ps : List PropL) :
    unpackErrs s ps = [] ↔
      ∀ t u, PropL.blocks t u ∈ ps → ∀ bs, wanted s t = some bs →
        (unpackBlock t bs.labelCount [] (renderUnder u)).2 = [] := by
  induction ps with
  | nil => simp [unpackErrs]
  | cons p rest ih =>
    cases p with
    | blocks t u =>
      simp only [unpackErrs, List.append_eq_nil_iff, ih, List.mem_cons]
      constructor
      · rintro ⟨h1, h2⟩ t' u' (e | hm) bs hbs
        · cases e; simpa [hbs] using h1
        · exact h2 t' u' hm bs hbs
      · intro h
        refine ⟨?_, fun t' u' hm bs hbs => h t' u' (Or.inr hm) bs hbs⟩
        cases hw : wanted s t with
        | none => rfl
        | some bs => exact h t u (Or.inl rfl) bs hw
    | comment v => simp [unpackErrs, ih]
    | attr n v => simp [unpackErrs, ih]

theorem mem_used (s : Schema) (ps : List PropL) {p : PropL} (hp : p ∈ ps) :
    propName p ∈ (((ps.filter (usedP s)).map propName).reverse) ↔ usedP s p = true := by
  simp only [List.mem_reverse, List.mem_map, List.mem_filter]
  constructor
  · rintro ⟨q, ⟨_, hq⟩, e⟩
    simpa [usedP, e] using hq
  · intro h; exact ⟨p, ⟨hp, h⟩, rfl⟩

theorem extra_nil_iff (s : Schema) (ps : List PropL) :
    ((renderProps ps).filter fun p => p.1 != "//" &&
        !((((ps.filter (usedP s)).map propName).reverse.contains p.1))).map
          (fun p => JErr.extraneous p.1) = [] ↔
      ∀ p ∈ ps, propName p = "//" ∨ usedP s p = true := by
  have hnames := renderProps_names ps
  simp only [List.map_eq_nil_iff, List.filter_eq_nil_iff, Bool.and_eq_true, bne_iff_ne, ne_eq,
    Bool.not_eq_true', not_and, Bool.not_eq_false, List.contains_iff_mem]
  constructor
  · intro h p hp
    have hm : propName p ∈ (renderProps ps).map (·.1) := by rw [hnames]; exact List.mem_map_of_mem hp
    obtain ⟨q, hq, e⟩ := List.mem_map.1 hm
    by_cases hc : propName p = "//"
    · exact Or.inl hc
    · right
      have := h q hq (by rw [e]; exact hc)
      rw [e] at this
      exact (mem_used s ps hp).1 this
  · intro h q hq hne
    have hm : q.1 ∈ ps.map propName := by rw [← hnames]; exact List.mem_map_of_mem hq
    obtain ⟨p, hp, e⟩ := List.mem_map.1 hm
    rcases h p hp with hc | hu
    · exact absurd (e ▸ hc) hne
    · rw [← e]; exact (mem_used s ps hp).2 hu

theorem missing_nil_iff (s : Schema) (D : List (String × JV)) :
    (s.attrs.filter fun as => as.required &&
        !((D.filter (fun p => s.attrs.any (·.name == p.1))).any (·.1 == as.name))).map
          (fun as => JErr.missingRequired as.name) = [] ↔
      ∀ as ∈ s.attrs, as.required = true → (findAttr as.name D).isSome = true := by
  simp only [List.map_eq_nil_iff, List.filter_eq_nil_iff, Bool.and_eq_true, Bool.not_eq_true', not_and,
    Bool.not_eq_false]
  apply forall_congr'; intro as
  apply imp_congr_right; intro has
  apply imp_congr_right; intro _
  rw [findAttr_isSome_iff]
  simp only [List.any_eq_true, List.mem_filter, beq_iff_eq]
  constructor
  · rintro ⟨p, ⟨hp, _⟩, e⟩; exact ⟨p, hp, e⟩
  · rintro ⟨p, hp, e⟩; exact ⟨p, ⟨hp, ⟨as, has, e.symm⟩⟩, e⟩

/-! ### JSON errors against native errors -/

theorem wanted_isSome_of_any {s : Schema} {t : String} (h : s.blocks.any (·.type == t) = true) :
    ∃ bs, wanted s t = some bs := by
  simp only [List.any_eq_true, beq_iff_eq] at h
  exact (wanted_isSome_iff s t).2 h

theorem any_of_wanted {s : Schema} {t : String} {bs : BlockSchema} (h : wanted s t = some bs) :
    s.blocks.any (·.type == t) = true := by
  simp only [List.any_eq_true, beq_iff_eq]
  exact ⟨bs, wanted_some h⟩

/-- **Exact comparison of the error behaviours.**  For an admissible layout, processing the JSON value is
    error-free exactly when processing the native body of the configuration denoted is error-free and the
    layout has neither an empty property of an unknown block type nor an empty label level. -/
theorem json_errs_nil_iff (st : STree) (L : BodyL) (hst : st.wf = true) (hL : admBody st L = true) :
    ((⟨renderBody L, []⟩ : JBodyV).content st.schema).2 = [] ↔
      (((denoteBody L).native.content st.schema).2 = [] ∧ noEmptyUnknown st L = true ∧
        noEmptyLabels st L = true) := by
  have hadm := adm_props st L hL
  have hP := (admProps_iff st _).1 hadm
  rw [content_errs st L hst hL, Body.Proofs.content_error_iff _ _ (native_fresh st L hL) (wf_nodup hst),
    native_attrs, native_blocks, noEmptyUnknown_iff, noEmptyLabels_iff]
  simp only [List.append_eq_nil_iff, unpackErrs_nil_iff, missing_nil_iff, extra_nil_iff, and_assoc]
  -- a used block-type property is one the schema wants
  have hblk : ∀ t u, PropL.blocks t u ∈ bodyProps L →
      (propName (.blocks t u) = "//" ∨ usedP st.schema (.blocks t u) = true) →
      ∃ bs, wanted st.schema t = some bs := by
    intro t u hm h
    obtain ⟨hne, hna, _⟩ := (hP _ hm).blocks t u rfl
    rcases h with h | h
    · exact absurd h hne
    · simp only [usedP, propName, hna, Bool.false_or, Option.isSome_iff_exists] at h
      exact h
  constructor
  · rintro ⟨hE1, hE2, hE3⟩
    refine ⟨hE2, ?_, ?_, ?_, ?_⟩
    · -- every block denoted is wanted, with the right number of labels
      intro blk hblk'
      obtain ⟨fb, hfb, rfl⟩ := List.mem_map.1 hblk'
      obtain ⟨t, u, hm, hf⟩ := mem_flatBlocks.1 hfb
      obtain ⟨bs, hw⟩ := hblk t u hm (hE3 _ hm)
      have ht : fb.1 = t := flatUnder_type t [] u fb hf
      have hw' : wanted st.schema fb.1 = some bs := by rw [ht]; exact hw
      obtain ⟨_, _, _, hlen, _⟩ := adm_flatBlocks hst hadm hfb hw'
      exact ⟨bs, hw', hlen⟩
    · -- every argument denoted is in the schema
      intro p hp
      have hm := mem_denoteAttrs.1 hp
      obtain ⟨hne, hnb, _⟩ := (hP _ hm).attr p.1 p.2 rfl
      rcases hE3 _ hm with h | h
      · exact absurd h hne
      · simp only [usedP, propName, Bool.or_eq_true, List.any_eq_true, beq_iff_eq,
          Option.isSome_iff_exists] at h
        rcases h with h | ⟨bs, hw⟩
        · exact h
        · rw [any_of_wanted hw] at hnb; cases hnb
    · -- no empty property of an unknown block type
      intro t u hm
      obtain ⟨bs, hw⟩ := hblk t u hm (hE3 _ hm)
      exact Or.inl (any_of_wanted hw)
    · -- no empty label level
      intro t u hm bs hbs
      rw [← wanted_eq_find? (wf_nodup hst)] at hbs
      obtain ⟨cst, _, _, hu⟩ := adm_block hst hbs ((hP _ hm).blocks t u rfl).2.2
      exact (unpack_errs cst t bs.labelCount [] u hu).1 (hE1 t u hm bs hbs)
  · rintro ⟨hN1, hN2, hN3, hU, hLb⟩
    refine ⟨?_, hN1, ?_⟩
    · intro t u hm bs hbs
      obtain ⟨cst, _, _, hu⟩ := adm_block hst hbs ((hP _ hm).blocks t u rfl).2.2
      rw [wanted_eq_find? (wf_nodup hst)] at hbs
      exact (unpack_errs cst t bs.labelCount [] u hu).2 (hLb t u hm bs hbs)
    · intro p hp
      cases p with
      | comment v => exact Or.inl rfl
      | attr n v =>
        right
        obtain ⟨as, has, e⟩ := hN3 (n, v) (mem_denoteAttrs.2 hp)
        simp only [usedP, propName, Bool.or_eq_true, List.any_eq_true, beq_iff_eq]
        exact Or.inl ⟨as, has, e⟩
      | blocks t u =>
        right
        have hwt : ∃ bs, wanted st.schema t = some bs := by
          rcases hU t u hp with h | h
          · exact wanted_isSome_of_any h
          · rw [denoteUnder_eq] at h
            cases hfu : flatUnder t [] u with
            | nil => simp [hfu] at h
            | cons fb rest =>
              have hf : fb ∈ flatUnder t [] u := by simp [hfu]
              have hfb : fb ∈ flatBlocks (bodyProps L) := mem_flatBlocks.2 ⟨t, u, hp, hf⟩
              obtain ⟨bs, hw, _⟩ := hN2 (toN fb) (List.mem_map_of_mem hfb)
              have ht : fb.1 = t := flatUnder_type t [] u fb hf
              exact ⟨bs, by simpa [toN, ht] using hw⟩
        obtain ⟨bs, hw⟩ := hwt
        simp [usedP, propName, hw]

/-- a schema violation in the native body is a schema violation in the JSON body -/
theorem violation_native_json (st : STree) (L : BodyL) (hst : st.wf = true) (hL : admBody st L = true)
    (h : ((denoteBody L).native.content st.schema).2 ≠ []) :
    ((⟨renderBody L, []⟩ : JBodyV).content st.schema).2 ≠ [] :=
  fun hj => h ((json_errs_nil_iff st L hst hL).1 hj).1

/-- … and conversely, unless the layout has an empty unknown block-type property or an empty label level -/
theorem violation_json_native (st : STree) (L : BodyL) (hst : st.wf = true) (hL : admBody st L = true)
    (hne : noEmptyUnknown st L = true) (hlb : noEmptyLabels st L = true)
    (h : ((⟨renderBody L, []⟩ : JBodyV).content st.schema).2 ≠ []) :
    ((denoteBody L).native.content st.schema).2 ≠ [] :=
  fun hn => h ((json_errs_nil_iff st L hst hL).2 ⟨hn, hne, hlb⟩)

end HclModel.JBody.Proofs
