import Proofs.UnknownsKnown
/-!
Static types (`staticTy`) and preservation of well-typedness (`wfVal`) by evaluation.
-/
set_option linter.unusedSimpArgs false
set_option linter.unusedSectionVars false
namespace HclModel.Proofs.Unk
open Val

/-! ### static types -/

theorem tjoinLoop_type (tm : Fl) : ∀ (xs : List Val) (ds : List Diag) (ms : Fl) (buf : String),
    typeOf (tjoinLoop tm xs ds ms buf).1 = .str ∧ isFlat (tjoinLoop tm xs ds ms buf).1 = true
  | [], ds, ms, buf => by simp [tjoinLoop, typeOf, isFlat]
  | x :: xs, ds, ms, buf => by
    unfold tjoinLoop
    split
    · exact tjoinLoop_type tm xs _ _ _
    · split
      · exact ⟨rfl, rfl⟩
      · split
        · exact tjoinLoop_type tm xs _ _ _
        · split
          · exact ⟨rfl, rfl⟩
          · split
            · exact tjoinLoop_type tm xs _ _ _
            · exact tjoinLoop_type tm xs _ _ _

theorem resultTy_prim (op : BinOp) : op.resultTy.isPrim = true := by cases op <;> rfl
theorem unResultTy_prim (op : UnOp) : op.resultTy.isPrim = true := by cases op <;> rfl

theorem isNullLit_eval (F : Cx) (ρ : Env) {e : Expr} (h : isNullLit e = true) :
    ∃ fl, eval F ρ e = (.null fl .dyn, []) ∧ fl.m = false := by
  cases e with
  | lit v =>
    cases v with
    | null fl t =>
      cases t <;> simp [isNullLit] at h
      exact ⟨fl, by rw [eval_lit], h⟩
    | _ => simp [isNullLit] at h
  | _ => simp [isNullLit] at h

theorem template_type (F : Cx) (ρ : Env) (parts : List Expr) :
    typeOf (eval F ρ (.template parts)).1 = .str ∧ isFlat (eval F ρ (.template parts)).1 = true := by
  rw [eval_template]
  simp only
  split <;> exact ⟨rfl, rfl⟩

theorem tjoin_type (F : Cx) (ρ : Env) (t : Expr) (h : (eval F ρ (.tjoin t)).2 = []) :
    typeOf (eval F ρ (.tjoin t)).1 = .str ∧ isFlat (eval F ρ (.tjoin t)).1 = true := by
  rw [eval_tjoin] at h ⊢
  generalize eval F ρ t = to at *
  obtain ⟨tv, ds⟩ := to
  simp only at h ⊢
  by_cases h1 : (tv.typeOf == .dyn) = true
  · simp only [h1, if_true]; exact ⟨rfl, rfl⟩
  · simp only [h1, Bool.false_eq_true, if_false] at h ⊢
    by_cases h2 : tv.isKnown = true
    · simp only [h2, Bool.not_true, Bool.false_eq_true, if_false] at h ⊢
      cases htv : tv.unmark.1 <;> simp only [htv] at h ⊢ <;> (try (simp [unsupportedOut] at h; done))
      exact tjoinLoop_type _ _ _ _ _
    · simp only [Bool.not_eq_true] at h2
      simp only [h2, Bool.not_false, if_true]; exact ⟨rfl, rfl⟩

section
variable (F : Funcs)

theorem staticTy_prim : ∀ (e : Expr) (T : Ty), staticTy e = some T → T.isPrim = true
  | .lit v, T, h => by
    simp only [staticTy] at h
    split at h
    · cases h; assumption
    · cases h
  | .bin op _ _, T, h => by simp only [staticTy] at h; cases h; exact resultTy_prim op
  | .un op _, T, h => by simp only [staticTy] at h; cases h; exact unResultTy_prim op
  | .template _, T, h => by simp only [staticTy] at h; cases h; rfl
  | .tjoin _, T, h => by simp only [staticTy] at h; cases h; rfl
  | .cond c t f, T, h => by
    simp only [staticTy] at h
    split at h
    · rename_i a b ha hb
      split at h
      · cases h; exact staticTy_prim t _ ha
      · cases h
    · rename_i a ha _
      split at h
      · cases h; exact staticTy_prim t _ ha
      · cases h
    · rename_i b _ hb
      split at h
      · cases h; exact staticTy_prim f _ hb
      · cases h
    · cases h
  | .var _, _, h | .getAttr _ _, _, h | .index _ _, _, h | .tuple _, _, h | .object _, _, h
  | .forTuple _ _ _ _ _, _, h | .forObject _ _ _ _ _ _ _, _, h | .splat _ _ _, _, h | .call _ _ _, _, h => by
    simp [staticTy] at h

/-- the static type is the type of the value of a diagnostic-free evaluation, in every scope -/
theorem sty_eval : ∀ (e : Expr) (T : Ty) (ρ : Env), staticTy e = some T → (eval (strictCx F) ρ e).2 = [] →
    typeOf (eval (strictCx F) ρ e).1 = T
  | .lit v, T, ρ, h, _ => by
    simp only [staticTy] at h
    rw [eval_lit]
    split at h
    · cases h; rfl
    · cases h
  | .bin op l r, T, ρ, h, hd => by
    simp only [staticTy] at h; cases h
    rw [eval_bin] at hd ⊢
    exact (evalBin_type hd).1
  | .un op e, T, ρ, h, hd => by
    simp only [staticTy] at h; cases h
    rw [eval_un] at hd ⊢
    exact (evalUn_type hd).1
  | .template parts, T, ρ, h, _ => by
    simp only [staticTy] at h; cases h
    exact (template_type _ ρ parts).1
  | .tjoin t, T, ρ, h, hd => by
    simp only [staticTy] at h; cases h
    exact (tjoin_type _ ρ t hd).1
  | .cond c t f, T, ρ, h, hd => by
    rw [eval_cond] at hd ⊢
    simp only [strict_kd] at hd ⊢
    obtain ⟨h1, h2, h3, h4⟩ := evalCond_diag hd
    rw [h4]
    refine (evalCondCore_type ?_ h1).1
    simp only [staticTy] at h
    split at h
    · rename_i a b ha hb
      split at h
      · rename_i hab
        cases h
        simp only [beq_iff_eq] at hab; subst hab
        exact ⟨staticTy_prim t _ ha, Or.inl ⟨sty_eval t _ ρ ha h2, sty_eval f _ ρ hb h3⟩⟩
      · cases h
    · rename_i a ha _
      split at h
      · rename_i hnl
        cases h
        obtain ⟨fl, he, hm⟩ := isNullLit_eval (strictCx F) ρ hnl
        exact ⟨staticTy_prim t _ ha, Or.inr (Or.inr ⟨sty_eval t _ ρ ha h2, fl, by rw [he], hm⟩)⟩
      · cases h
    · rename_i b _ hb
      split at h
      · rename_i hnl
        cases h
        obtain ⟨fl, he, hm⟩ := isNullLit_eval (strictCx F) ρ hnl
        exact ⟨staticTy_prim f _ hb, Or.inr (Or.inl ⟨⟨fl, by rw [he], hm⟩, sty_eval f _ ρ hb h3⟩)⟩
      · cases h
    · cases h
  | .var _, _, _, h, _ | .getAttr _ _, _, _, h, _ | .index _ _, _, _, h, _ | .tuple _, _, _, h, _
  | .object _, _, _, h, _ | .forTuple _ _ _ _ _, _, _, h, _ | .forObject _ _ _ _ _ _ _, _, _, h, _
  | .splat _ _ _, _, _, h, _ | .call _ _ _, _, _, h, _ => by
    simp [staticTy] at h

/-- the two results of a statically typed conditional -/
theorem cond_condTy (c t f : Expr) (T : Ty) (ρ : Env) (h : staticTy (.cond c t f) = some T)
    (h2 : (eval (strictCx F) ρ t).2 = []) (h3 : (eval (strictCx F) ρ f).2 = []) :
    CondTy T (eval (strictCx F) ρ t).1 (eval (strictCx F) ρ f).1 := by
  simp only [staticTy] at h
  split at h
  · rename_i a b ha hb
    split at h
    · rename_i hab
      cases h
      simp only [beq_iff_eq] at hab; subst hab
      exact ⟨staticTy_prim t _ ha, Or.inl ⟨sty_eval F t _ ρ ha h2, sty_eval F f _ ρ hb h3⟩⟩
    · cases h
  · rename_i a ha _
    split at h
    · rename_i hnl
      cases h
      obtain ⟨fl, he, hm⟩ := isNullLit_eval (strictCx F) ρ hnl
      exact ⟨staticTy_prim t _ ha, Or.inr (Or.inr ⟨sty_eval F t _ ρ ha h2, fl, by rw [he], hm⟩)⟩
    · cases h
  · rename_i b _ hb
    split at h
    · rename_i hnl
      cases h
      obtain ⟨fl, he, hm⟩ := isNullLit_eval (strictCx F) ρ hnl
      exact ⟨staticTy_prim f _ hb, Or.inr (Or.inl ⟨⟨fl, by rw [he], hm⟩, sty_eval F f _ ρ hb h3⟩)⟩
    · cases h
  · cases h
end


/-! ### well-typedness of values is preserved -/

theorem wfEnv_lookup {ρ : Env} (hρ : wfEnv ρ) {x : String} {v : Val} (h : ρ.lookup x = some v) :
    wfVal v = true := hρ (x, v) (lookupKey_mem h)

theorem wfEnv_cons {ρ : Env} (hρ : wfEnv ρ) {x : String} {v : Val} (hv : wfVal v = true) :
    wfEnv ((x, v) :: ρ) := by
  intro p hp
  rcases List.mem_cons.mp hp with rfl | hp
  · exact hv
  · exact hρ p hp

theorem wfEnv_bindIter {ρ : Env} (hρ : wfEnv ρ) {kv vv : String} {k v : Val}
    (hk : wfVal k = true) (hv : wfVal v = true) : wfEnv (bindIter ρ kv vv k v) := by
  unfold bindIter
  split
  · exact wfEnv_cons hρ hv
  · exact wfEnv_cons (wfEnv_cons hρ hk) hv

theorem elements_wf {cv : Val} (hk : wfVal cv = true) {els : List (Val × Val)} (he : elements cv = some els) :
    ∀ kv ∈ els, wfVal kv.1 = true ∧ wfVal kv.2 = true := by
  cases cv <;> simp [elements] at he
  case list f t xs =>
    subst he
    intro kv hkv
    simp only [List.mem_map] at hkv
    obtain ⟨⟨i, x⟩, hix, rfl⟩ := hkv
    exact ⟨rfl, (wfElems_mem hk x (List.of_mem_zip hix).2).2⟩
  case tuple f xs =>
    subst he
    intro kv hkv
    simp only [List.mem_map] at hkv
    obtain ⟨⟨i, x⟩, hix, rfl⟩ := hkv
    exact ⟨rfl, wfList_mem hk x (List.of_mem_zip hix).2⟩
  case map f t kvs =>
    subst he
    intro kv hkv
    simp only [List.mem_map] at hkv
    obtain ⟨⟨k, x⟩, hix, rfl⟩ := hkv
    exact ⟨rfl, (wfElemsF_mem hk _ hix).2⟩
  case object f kvs =>
    subst he
    intro kv hkv
    simp only [List.mem_map] at hkv
    obtain ⟨⟨k, x⟩, hix, rfl⟩ := hkv
    exact ⟨rfl, wfFields_mem hk _ hix⟩

theorem wfVal_dynVal_withFl (f : Fl) : wfVal (Val.dynVal.withFl f) = true := rfl

section
variable (F : Funcs)

theorem shell_wf (ρ : Env) (kv vv : String) (co : Out) (cond : Option Expr)
    (step : ForSt → Val × Val → ForSt) (fin : ForSt → Val) (P : ForSt → Prop)
    (hext : ∀ st x, ∃ l, (step st x).diags = st.diags ++ l)
    (ihc : co.2 = [] → wfVal co.1 = true)
    (hstep : ∀ st x, wfVal x.1 = true ∧ wfVal x.2 = true → P st → (step st x).diags = [] → P (step st x))
    (hinit : ∀ ds ms, P ({ diags := ds, marks := ms } : ForSt))
    (hfin : ∀ st, P st → wfVal (fin st) = true)
    (h : (forShell (strictCx F) ρ kv vv co cond step fin).2 = []) :
    wfVal (forShell (strictCx F) ρ kv vv co cond step fin).1 = true := by
  unfold forShell at h ⊢
  obtain ⟨cv, cd⟩ := co
  simp only at h ihc ⊢
  split
  · rfl
  · split
    · rfl
    · split
      · rfl
      · split
        · rfl
        · rename_i hn hd hci hs
          simp only [hn, hd, hci, hs, Bool.false_eq_true, if_false] at h
          cases hel : elements cv.unmark.1 with
          | none => rfl
          | some els =>
            simp only [hel] at h ⊢
            have hfd : (els.foldl step
                  ({ diags := cd ++ ((forProbe (strictCx F) ρ kv vv cond).map (·.1)).getD [],
                     marks := cv.unmark.2 } : ForSt)).diags = [] := by
              split at h <;> exact h
            have hcd : cd = [] := by
              have := foldl_diags_nil _ hext _ _ hfd
              exact (List.append_eq_nil_iff.mp this).1
            have hk := ihc hcd
            have hels := elements_wf (cv := cv.unmark.1) (by simpa using hk) hel
            have hinv := foldl_inv step hext P els
              (fun st x hx hp hd => hstep st x (hels x hx) hp hd) _ (hinit _ _) hfd
            split
            · rfl
            · exact hfin _ hinv
end


section
variable (F : Funcs)

theorem wf_ftVal (ρ' : Env) (val : Expr) (st : ForSt)
    (ihv : (eval (strictCx F) ρ' val).2 = [] → wfVal (eval (strictCx F) ρ' val).1 = true)
    (hp : wfList st.vals = true) (h : (ftVal (strictCx F) ρ' val st).diags = []) :
    wfList (ftVal (strictCx F) ρ' val st).vals = true := by
  simp only [ftVal] at h ⊢
  simp only [List.append_eq_nil_iff] at h
  apply wfList_of_mem
  intro x hx
  rcases List.mem_append.mp hx with hx | hx
  · exact wfList_mem hp x hx
  · simp at hx; subst hx; exact ihv h.2

theorem wf_ftStep (ρ : Env) (kv vv : String) (val : Expr) (cond : Option Expr)
    (ihv : ∀ ρ', wfEnv ρ' → (eval (strictCx F) ρ' val).2 = [] → wfVal (eval (strictCx F) ρ' val).1 = true)
    (hρ : wfEnv ρ) (st : ForSt) (x : Val × Val) (hx : wfVal x.1 = true ∧ wfVal x.2 = true)
    (hp : wfList st.vals = true)
    (h : (ftStep (strictCx F) ρ kv vv val cond st x).diags = []) :
    wfList (ftStep (strictCx F) ρ kv vv val cond st x).vals = true := by
  have hρ' := wfEnv_bindIter (kv := kv) (vv := vv) hρ hx.1 hx.2
  unfold ftStep at h ⊢
  cases cond with
  | none => exact wf_ftVal F _ val st (ihv _ hρ') hp h
  | some ce =>
    simp only at h ⊢
    generalize eval (strictCx F) (bindIter ρ kv vv x.1 x.2) ce = co at *
    obtain ⟨inc, id⟩ := co
    simp only at h ⊢
    by_cases hn : inc.isNull = true
    · simp only [hn, if_true]; exact hp
    · simp only [hn, Bool.false_eq_true, if_false] at h ⊢
      by_cases hk : inc.isKnown = true
      · simp only [hk, Bool.not_true, Bool.false_eq_true, if_false] at h ⊢
        rcases tryConvert_cases inc .bool with ⟨b, hb, -⟩ | ⟨d, hb⟩
        · rw [hb] at h ⊢
          cases b
          case bool f bb =>
            cases bb
            · exact hp
            · exact wf_ftVal F _ val _ (ihv _ hρ') hp h
          all_goals exact wf_ftVal F _ val _ (ihv _ hρ') hp h
        · rw [hb]; exact hp
      · simp only [Bool.not_eq_true] at hk
        simp only [hk, Bool.not_false, if_true]; exact hp

theorem wf_forTuple (ρ : Env) (kv vv : String) (coll val : Expr) (cond : Option Expr)
    (ihc : (eval (strictCx F) ρ coll).2 = [] → wfVal (eval (strictCx F) ρ coll).1 = true)
    (ihv : ∀ ρ', wfEnv ρ' → (eval (strictCx F) ρ' val).2 = [] → wfVal (eval (strictCx F) ρ' val).1 = true)
    (hρ : wfEnv ρ) (h : (eval (strictCx F) ρ (.forTuple kv vv coll val cond)).2 = []) :
    wfVal (eval (strictCx F) ρ (.forTuple kv vv coll val cond)).1 = true := by
  rw [eval_forTuple'] at h ⊢
  exact shell_wf F ρ kv vv _ cond _ _ (fun st => wfList st.vals = true)
    (ftStep_ext _ ρ kv vv val cond) ihc
    (fun st x hx hp hd => wf_ftStep F ρ kv vv val cond ihv hρ st x hx hp hd)
    (fun _ _ => rfl) (fun st hp => by simpa [wfVal] using hp) h

theorem wf_foVal (ρ' : Env) (key val : Expr) (group : Bool) (st : ForSt)
    (ihv : (eval (strictCx F) ρ' val).2 = [] → wfVal (eval (strictCx F) ρ' val).1 = true)
    (hp : GInv (fun v => wfVal v = true) st.kvs)
    (h : (foVal (strictCx F) ρ' key val group st).diags = []) :
    GInv (fun v => wfVal v = true) (foVal (strictCx F) ρ' key val group st).kvs := by
  unfold foVal at h ⊢
  generalize eval (strictCx F) ρ' key = ko at *
  generalize eval (strictCx F) ρ' val = vo at *
  obtain ⟨kr, kd⟩ := ko; obtain ⟨v, vd⟩ := vo
  simp only at h ihv ⊢
  by_cases hn : kr.isNull = true
  · simp only [hn, if_true]; exact hp
  · simp only [hn, Bool.false_eq_true, if_false] at h ⊢
    by_cases hk : kr.isKnown = true
    · simp only [hk, Bool.not_true, Bool.false_eq_true, if_false] at h ⊢
      rcases tryConvert_cases kr .str with ⟨ks, hb, -⟩ | ⟨d, hb⟩
      · rw [hb] at h ⊢
        simp only at h ⊢
        cases hks : ks.unmark.1 <;> simp only [hks] at h ⊢ <;> (try exact hp)
        rename_i kf k
        cases group
        · simp only [Bool.false_eq_true, if_false] at h ⊢
          split
          · exact hp
          · rename_i hl
            simp only [hl, Bool.false_eq_true, if_false, List.append_eq_nil_iff] at h
            exact GInv_groupInsert hp (ihv h.2)
        · simp only [if_true, List.append_eq_nil_iff] at h ⊢
          exact GInv_groupInsert hp (ihv h.2)
      · rw [hb]; exact hp
    · simp only [Bool.not_eq_true] at hk
      simp only [hk, Bool.not_false, if_true]; exact hp

theorem wf_foStep (ρ : Env) (kv vv : String) (key val : Expr) (cond : Option Expr) (group : Bool)
    (ihv : ∀ ρ', wfEnv ρ' → (eval (strictCx F) ρ' val).2 = [] → wfVal (eval (strictCx F) ρ' val).1 = true)
    (hρ : wfEnv ρ) (st : ForSt) (x : Val × Val) (hx : wfVal x.1 = true ∧ wfVal x.2 = true)
    (hp : GInv (fun v => wfVal v = true) st.kvs)
    (h : (foStep (strictCx F) ρ kv vv key val cond group st x).diags = []) :
    GInv (fun v => wfVal v = true) (foStep (strictCx F) ρ kv vv key val cond group st x).kvs := by
  have hρ' := wfEnv_bindIter (kv := kv) (vv := vv) hρ hx.1 hx.2
  unfold foStep at h ⊢
  cases cond with
  | none => exact wf_foVal F _ key val group st (ihv _ hρ') hp h
  | some ce =>
    simp only at h ⊢
    generalize eval (strictCx F) (bindIter ρ kv vv x.1 x.2) ce = co at *
    obtain ⟨inc, id⟩ := co
    simp only at h ⊢
    by_cases hn : inc.isNull = true
    · simp only [hn, if_true]; exact hp
    · simp only [hn, Bool.false_eq_true, if_false] at h ⊢
      rcases tryConvert_cases inc .bool with ⟨b, hb, -⟩ | ⟨d, hb⟩
      · rw [hb] at h ⊢
        simp only at h ⊢
        by_cases hk : b.isKnown = true
        · simp only [hk, Bool.not_true, Bool.false_eq_true, if_false] at h ⊢
          cases b
          case bool f bb =>
            cases bb
            · exact hp
            · exact wf_foVal F _ key val group _ (ihv _ hρ') hp h
          all_goals exact wf_foVal F _ key val group _ (ihv _ hρ') hp h
        · simp only [Bool.not_eq_true] at hk
          simp only [hk, Bool.not_false, if_true]; exact hp
      · rw [hb]; exact hp

theorem wfFields_headD {kvs : List (String × List Val)} (h : GInv (fun v => wfVal v = true) kvs) :
    wfFields (kvs.map fun (k, vs) => (k, vs.headD Val.dynVal)) = true := by
  apply wfFields_of_mem
  intro p hp
  obtain ⟨q, hq, rfl⟩ := List.mem_map.mp hp
  obtain ⟨k, vs⟩ := q
  obtain ⟨hne, hall⟩ := h _ hq
  cases vs with
  | nil => exact absurd rfl hne
  | cons v vs => exact hall v (by simp)

theorem wfFields_tuple {kvs : List (String × List Val)} (h : GInv (fun v => wfVal v = true) kvs) :
    wfFields (kvs.map fun (k, vs) => (k, Val.tuple Fl.none vs)) = true := by
  apply wfFields_of_mem
  intro p hp
  obtain ⟨q, hq, rfl⟩ := List.mem_map.mp hp
  obtain ⟨k, vs⟩ := q
  simp only [wfVal]
  exact wfList_of_mem (h _ hq).2

theorem wf_forObject (ρ : Env) (kv vv : String) (coll key val : Expr) (cond : Option Expr) (group : Bool)
    (ihc : (eval (strictCx F) ρ coll).2 = [] → wfVal (eval (strictCx F) ρ coll).1 = true)
    (ihv : ∀ ρ', wfEnv ρ' → (eval (strictCx F) ρ' val).2 = [] → wfVal (eval (strictCx F) ρ' val).1 = true)
    (hρ : wfEnv ρ) (h : (eval (strictCx F) ρ (.forObject kv vv coll key val cond group)).2 = []) :
    wfVal (eval (strictCx F) ρ (.forObject kv vv coll key val cond group)).1 = true := by
  rw [eval_forObject'] at h ⊢
  refine shell_wf F ρ kv vv _ cond _ _ (fun st => GInv (fun v => wfVal v = true) st.kvs)
    (foStep_ext _ ρ kv vv key val cond group) ihc
    (fun st x hx hp hd => wf_foStep F ρ kv vv key val cond group ihv hρ st x hx hp hd)
    (fun _ _ => GInv_nil _) (fun st hp => ?_) h
  cases group
  · simpa [wfVal] using wfFields_headD hp
  · simpa [wfVal] using wfFields_tuple hp

theorem wf_items_step (ρ : Env) (ke ve : Expr) (rest : List (Expr × Expr))
    (ihv : (eval (strictCx F) ρ ve).2 = [] → wfVal (eval (strictCx F) ρ ve).1 = true)
    (ihr : (evalItems (strictCx F) ρ rest).1.diags = [] →
      GInv (fun v => wfVal v = true) (evalItems (strictCx F) ρ rest).1.kvs)
    (h : (evalItems (strictCx F) ρ ((ke, ve) :: rest)).1.diags = []) :
      GInv (fun v => wfVal v = true) (evalItems (strictCx F) ρ ((ke, ve) :: rest)).1.kvs := by
  simp only [evalItems] at h ⊢
  generalize eval (strictCx F) ρ ke = ko at *
  generalize eval (strictCx F) ρ ve = vo at *
  generalize evalItems (strictCx F) ρ rest = ro at *
  obtain ⟨k, kd⟩ := ko; obtain ⟨v, vd⟩ := vo; obtain ⟨st, known⟩ := ro
  simp only at h ihv ihr ⊢
  split at h
  · rename_i he
    simp only [List.append_eq_nil_iff] at h
    rw [h.1.1] at he; cases he
  · rename_i he
    simp only [he, if_false]
    split at h
    · simp at h
    · rename_i hn
      simp only [hn, if_false]
      rcases tryConvert_cases k.unmark.1 .str with ⟨ks, h1, -⟩ | ⟨d, h1⟩
      · rw [h1] at h ⊢
        simp only at h ⊢
        cases ks <;> simp only [List.append_eq_nil_iff] at h ⊢ <;> (try exact ihr h.2)
        rename_i f s
        by_cases hl : (lookupKey s st.kvs).isSome = true
        · simp only [hl, if_true]; exact ihr h.2
        · simp only [hl, if_false]; exact GInv_groupInsert (ihr h.2) (ihv h.1.2)
      · rw [h1] at h; simp at h

theorem items_wf {sv : Val} (hk : wfVal sv = true) : ∀ it ∈ splatItems sv, wfVal it = true := by
  cases sv <;> simp [wfVal, splatItems] at hk ⊢
  · exact fun it hit => (wfElems_mem hk it hit).2
  · exact wfList_mem hk

theorem wf_splat (ρ : Env) (anon : String) (src each : Expr)
    (ihs : (eval (strictCx F) ρ src).2 = [] → wfVal (eval (strictCx F) ρ src).1 = true)
    (ihe : ∀ ρ', wfEnv ρ' → (eval (strictCx F) ρ' each).2 = [] → wfVal (eval (strictCx F) ρ' each).1 = true)
    (hρ : wfEnv ρ) :
    wfVal (eval (strictCx F) ρ (.splat anon src each)).1 = true := by
  rw [eval_splat]
  generalize eval (strictCx F) ρ src = so at *
  obtain ⟨sv, sd⟩ := so
  simp only at ihs ⊢
  by_cases he : hasErrors sd = true
  · simp only [he, if_true]; rfl
  · have hsd := hasErrors_false (by simpa using he)
    subst hsd
    have ksv := ihs rfl
    simp only [he, Bool.false_eq_true, if_false]
    by_cases hn : sv.isNull = true
    · simp only [hn, if_true]
      split <;> rfl
    · simp only [hn, Bool.false_eq_true, if_false]
      by_cases hd : (sv.typeOf == Ty.dyn) = true
      · simp only [hd, if_true]; rfl
      · simp only [hd, Bool.false_eq_true, if_false]
        have ksv' : wfVal (if splatAutoUp sv.typeOf = true then (Val.tuple Fl.none [sv]).withFl sv.fl else sv) = true := by
          split
          · simp [wfVal, wfList, ksv]
          · exact ksv
        generalize (if splatAutoUp sv.typeOf = true then (Val.tuple Fl.none [sv]).withFl sv.fl else sv) = sv' at *
        by_cases kk : sv'.isKnown = true
        · simp only [kk, Bool.not_true, Bool.false_eq_true, if_false]
          have kit := items_wf (sv := sv'.unmark.1) (by simpa using ksv')
          generalize hrs : (splatItems sv'.unmark.1).map (fun it => eval (strictCx F) ((anon, it) :: ρ) each) = rs at *
          by_cases hu : (splatAutoUp sv.typeOf && !sv.isKnown) = true
          · simp only [hu, if_true]; rfl
          · simp only [hu, Bool.false_eq_true, if_false]
            by_cases hok : (rs.all fun r => !hasErrors r.2) = true
            · simp only [hok, Bool.not_true, Bool.false_eq_true, if_false]
              have hall : ∀ r ∈ rs, r.2 = [] := by
                intro r hr
                have := List.all_eq_true.mp hok r hr
                exact hasErrors_false (by simpa using this)
              have hvals : ∀ v ∈ rs.map (·.1), wfVal v = true := by
                intro v hv
                obtain ⟨r, hr, rfl⟩ := List.mem_map.mp hv
                have hr' := hr
                rw [← hrs] at hr'
                obtain ⟨it, hit, rfl⟩ := List.mem_map.mp hr'
                exact ihe _ (wfEnv_cons hρ (kit it hit)) (hall _ hr)
              cases hsv'' : sv'.unmark.1
              case list f t xs =>
                simp only
                cases hvs : rs.map (·.1) with
                | nil =>
                  simp only
                  cases (splatResultTy (strictCx F) ρ anon each sv').1 <;> rfl
                | cons v vs =>
                  rw [hvs] at hvals
                  simp only
                  by_cases hall2 : (vs.all fun w => w.typeOf == v.typeOf) = true
                  · simp only [hall2, if_true, wfVal_withFl, wfVal]
                    apply wfElems_of_mem
                    intro w hw
                    refine ⟨?_, hvals w hw⟩
                    rcases List.mem_cons.mp hw with rfl | hw
                    · rfl
                    · simpa using List.all_eq_true.mp hall2 w hw
                  · simp only [hall2, Bool.false_eq_true, if_false]; rfl
              all_goals
                simp only [wfVal_withFl, wfVal]
                exact wfList_of_mem hvals
            · simp only [hok, Bool.not_false, if_true]; rfl
        · simp only [Bool.not_eq_true] at kk
          simp only [kk, Bool.not_false, if_true]; rfl

theorem convert_wf {v v' : Val} {t : Ty} (hw : wfVal v = true) (ht : t.paramOk = true)
    (h : convert v t = .ok v') : wfVal v' = true := by
  simp only [Ty.paramOk, Bool.or_eq_true, beq_iff_eq] at ht
  rcases ht with rfl | ht
  · rw [convert_dyn] at h; cases h; exact hw
  · exact ((convert_props v t v' h).2.2.2 ht).2 hw

theorem argTy_ok (spec : FuncSpec) (ps : List Ty) (hp : ∀ t ∈ ps, t.paramOk = true)
    (hv : ∀ t, spec.varParam = some t → t.paramOk = true) : ∀ t, argTy spec ps = some t → t.paramOk = true := by
  intro t ht
  cases ps with
  | nil => exact hv t ht
  | cons p ps => simp only [argTy, Option.some.injEq] at ht; subst ht; exact hp _ (by simp)

theorem convertArgs_wf (spec : FuncSpec) (hv : ∀ t, spec.varParam = some t → t.paramOk = true) :
    ∀ (vs : List Val) (ps : List Ty), (∀ t ∈ ps, t.paramOk = true) → (∀ v ∈ vs, wfVal v = true) →
      ∀ v ∈ (convertArgs spec vs ps).1, wfVal v = true
  | [], _, _, _ => by simp [convertArgs]
  | v :: vs, ps, hp, hk => by
    rw [convertArgs_cons]
    have ih := convertArgs_wf spec hv vs ps.tail (fun t ht => hp t (List.mem_of_mem_tail ht))
      (fun v hv => hk v (by simp [hv]))
    have hat := argTy_ok spec ps hp hv
    cases hpt : argTy spec ps with
    | none =>
      simp only
      intro w hw
      rcases List.mem_cons.mp hw with rfl | hw
      · exact hk _ (by simp)
      · exact ih w hw
    | some t =>
      simp only
      rcases tryConvert_cases v t with ⟨v', hb, hb'⟩ | ⟨d, hb⟩
      · rw [hb]
        intro w hw
        rcases List.mem_cons.mp hw with rfl | hw
        · exact convert_wf (hk _ (by simp)) (hat t hpt) hb'
        · exact ih w hw
      · rw [hb]
        intro w hw
        rcases List.mem_cons.mp hw with rfl | hw
        · exact hk _ (by simp)
        · exact ih w hw

theorem callFunc_wf (spec : FuncSpec)
    (hF : ∀ args r, (∀ a ∈ args, wfVal a = true) → spec.impl args = .ok r → wfVal r = true)
    (vals : List Val) (r : Val) (hk : ∀ v ∈ vals, wfVal v = true) (h : callFunc spec vals = .ok r) :
    wfVal r = true := by
  unfold callFunc at h
  split at h
  · simp [throw, throwThe, MonadExceptOf.throw] at h
  · split at h
    · simp [pure, Except.pure] at h; subst h; rfl
    · split at h
      · simp [pure, Except.pure] at h; subst h; rfl
      · obtain ⟨r', hr', h⟩ := bind_ok.mp h
        simp [pure, Except.pure] at h
        subst h
        rw [wfVal_withFl]
        refine hF _ _ ?_ hr'
        intro a ha
        obtain ⟨v, hv, rfl⟩ := List.mem_map.mp ha
        rw [wfVal_unmarkDeep]; exact hk v hv

theorem callExpand_wf (ρ : Env) (expand : Option Expr)
    (ih : ∀ le, expand = some le → (eval (strictCx F) ρ le).2 = [] → wfVal (eval (strictCx F) ρ le).1 = true) :
    (∀ o, callExpand (strictCx F) ρ expand = .error o → wfVal o.1 = true) ∧
    (∀ extra ed, callExpand (strictCx F) ρ expand = .ok (extra, ed) → ed = [] →
      ∀ v ∈ extra, wfVal v = true) := by
  cases expand with
  | none =>
    constructor
    · intro o h; simp [callExpand] at h
    · intro extra ed h _
      simp only [callExpand, Except.ok.injEq, Prod.mk.injEq] at h
      rw [← h.1]; simp
  | some le =>
    have ih := ih le rfl
    simp only [callExpand]
    generalize eval (strictCx F) ρ le = eo at *
    obtain ⟨ev, ed⟩ := eo
    try simp only at ih ⊢
    constructor
    · intro o h
      repeat' split at h
      all_goals (cases h <;> rfl)
    · intro extra ed' h hed
      repeat' split at h
      all_goals first
        | (cases h; done)
        | skip
      all_goals
        simp only [Except.ok.injEq, Prod.mk.injEq] at h
        obtain ⟨h1, h2⟩ := h
        subst h2
        have kit := items_wf (sv := ev.unmark.1) (by simpa using ih hed)
        rw [← h1]
        intro v hv
        obtain ⟨x, hx, rfl⟩ := List.mem_map.mp hv
        rw [wfVal_withFl]
        first
          | exact kit x (by simp_all [splatItems])
          | (simp at hx; done)

theorem wf_call (hS : SoundFuncsS F) (ρ : Env) (fn : String) (args : List Expr) (expand : Option Expr)
    (iha : ∀ o ∈ evalEach (strictCx F) ρ args, o.2 = [] → wfVal o.1 = true)
    (ihe : ∀ le, expand = some le → (eval (strictCx F) ρ le).2 = [] → wfVal (eval (strictCx F) ρ le).1 = true)
    (h : (eval (strictCx F) ρ (.call fn args expand)).2 = []) :
    wfVal (eval (strictCx F) ρ (.call fn args expand)).1 = true := by
  rw [eval_call] at h ⊢
  simp only [strict_funcs] at h ⊢
  cases hf : F fn with
  | none => rfl
  | some spec =>
    simp only [hf] at h ⊢
    obtain ⟨hx1, hx2⟩ := callExpand_wf F ρ expand ihe
    cases hce : callExpand (strictCx F) ρ expand with
    | error o => exact hx1 o hce
    | ok p =>
      obtain ⟨extra, ed⟩ := p
      simp only [hce] at h ⊢
      unfold callBody at h ⊢
      simp only at h ⊢
      split
      · rfl
      · split
        · rfl
        · rename_i h1 h2
          simp only [h1, h2, if_false] at h
          generalize hca : convertArgs spec ((evalEach (strictCx F) ρ args).map (·.1) ++ extra) spec.params = ca at h ⊢
          obtain ⟨vals, cds⟩ := ca
          simp only at h ⊢
          split
          · rfl
          · rename_i he
            simp only [he, if_false] at h
            have hds := hasErrors_false (by simpa using he)
            simp only [List.append_eq_nil_iff] at hds
            obtain ⟨hed, hfm, hcds⟩ := hds
            have hargs : ∀ v ∈ (evalEach (strictCx F) ρ args).map (·.1) ++ extra, wfVal v = true := by
              intro v hv
              rcases List.mem_append.mp hv with hv | hv
              · obtain ⟨o, ho, rfl⟩ := List.mem_map.mp hv
                exact iha o ho (List.flatMap_eq_nil_iff.mp hfm o ho)
              · exact hx2 extra ed hce hed v hv
            have hvals : ∀ v ∈ vals, wfVal v = true := by
              have := convertArgs_wf spec (hS.params_ok fn spec hf).2 _ spec.params (hS.params_ok fn spec hf).1 hargs
              rw [hca] at this; exact this
            cases hcf : callFunc spec vals with
            | ok v =>
              simp only
              exact callFunc_wf spec (hS.wf fn spec hf) vals v hvals hcf
            | error e => cases e <;> rfl
end


section
variable (F : Funcs) (hS : SoundFuncsS F)
include hS

mutual
theorem wf_eval : ∀ (e : Expr) (ρ : Env), okExpr e = true → wfEnv ρ → (eval (strictCx F) ρ e).2 = [] →
    wfVal (eval (strictCx F) ρ e).1 = true
  | .lit v, ρ, ho, _, _ => by rw [eval_lit]; simpa [okExpr] using ho
  | .var x, ρ, _, hρ, h => by
    rw [eval_var] at h ⊢
    cases hl : ρ.lookup x with
    | none => rfl
    | some v => simpa [hl] using wfEnv_lookup hρ hl
  | .getAttr e n, ρ, ho, hρ, h => by
    simp only [okExpr] at ho
    rw [eval_getAttr] at h ⊢
    split
    · rfl
    · rename_i he
      have he' : hasErrors (eval (strictCx F) ρ e).2 = false := by simpa using he
      simp only [he', Bool.false_eq_true, if_false, List.append_eq_nil_iff] at h
      exact getAttr_wf (wf_eval e ρ ho hρ h.1)
  | .index e k, ρ, ho, hρ, h => by
    simp only [okExpr, Bool.and_eq_true] at ho
    rw [eval_index] at h ⊢
    simp only [List.append_eq_nil_iff] at h
    exact index_wf h.2 (wf_eval e ρ ho.1 hρ h.1.1)
  | .bin op l r, ρ, _, _, h => by
    rw [eval_bin] at h ⊢
    exact (evalBin_type h).2
  | .un op e, ρ, _, _, h => by
    rw [eval_un] at h ⊢
    exact (evalUn_type h).2
  | .cond c t f, ρ, ho, _, h => by
    simp only [okExpr, Bool.and_eq_true] at ho
    obtain ⟨T, hT⟩ := Option.isSome_iff_exists.mp ho.2
    rw [eval_cond] at h ⊢
    simp only [strict_kd] at h ⊢
    obtain ⟨h1, h2, h3, h4⟩ := evalCond_diag h
    rw [h4]
    exact wfVal_flat (evalCondCore_type (cond_condTy F c t f T ρ hT h2 h3) h1).2
  | .tuple es, ρ, ho, hρ, h => by
    simp only [okExpr] at ho
    rw [eval_tuple] at h ⊢
    simpa [wfVal] using wf_list es ρ ho hρ h
  | .object items, ρ, ho, hρ, h => by
    simp only [okExpr] at ho
    rw [eval_object] at h ⊢
    split
    · rfl
    · rename_i hk
      simp only [hk, if_false] at h
      simp only [wfVal]
      exact wfFields_headD (wf_items items ρ ho hρ h)
  | .forTuple kv vv coll val none, ρ, ho, hρ, h => by
    simp only [okExpr, Bool.and_eq_true] at ho
    exact wf_forTuple F ρ kv vv coll val none (wf_eval coll ρ ho.1.1 hρ) (fun ρ' => wf_eval val ρ' ho.1.2) hρ h
  | .forTuple kv vv coll val (some ce), ρ, ho, hρ, h => by
    simp only [okExpr, Bool.and_eq_true] at ho
    exact wf_forTuple F ρ kv vv coll val (some ce) (wf_eval coll ρ ho.1.1 hρ) (fun ρ' => wf_eval val ρ' ho.1.2) hρ h
  | .forObject kv vv coll key val none g, ρ, ho, hρ, h => by
    simp only [okExpr, Bool.and_eq_true] at ho
    exact wf_forObject F ρ kv vv coll key val none g (wf_eval coll ρ ho.1.1.1 hρ)
      (fun ρ' => wf_eval val ρ' ho.1.2) hρ h
  | .forObject kv vv coll key val (some ce) g, ρ, ho, hρ, h => by
    simp only [okExpr, Bool.and_eq_true] at ho
    exact wf_forObject F ρ kv vv coll key val (some ce) g (wf_eval coll ρ ho.1.1.1 hρ)
      (fun ρ' => wf_eval val ρ' ho.1.2) hρ h
  | .splat anon src each, ρ, ho, hρ, _ => by
    simp only [okExpr, Bool.and_eq_true] at ho
    exact wf_splat F ρ anon src each (wf_eval src ρ ho.1.1 hρ) (fun ρ' => wf_eval each ρ' ho.1.2) hρ
  | .template parts, ρ, _, _, _ => wfVal_flat (template_type _ ρ parts).2
  | .tjoin t, ρ, _, _, h => wfVal_flat (tjoin_type _ ρ t h).2
  | .call fn args none, ρ, ho, hρ, h => by
    simp only [okExpr, Bool.and_eq_true] at ho
    exact wf_call F hS ρ fn args none (wf_each args ρ ho.1 hρ) (fun le hle => by cases hle) h
  | .call fn args (some le), ρ, ho, hρ, h => by
    simp only [okExpr, Bool.and_eq_true] at ho
    exact wf_call F hS ρ fn args (some le) (wf_each args ρ ho.1 hρ)
      (fun le' hle => by cases hle; exact wf_eval le ρ ho.2 hρ) h
theorem wf_list : ∀ (es : List Expr) (ρ : Env), okList es = true → wfEnv ρ →
    (evalList (strictCx F) ρ es).2 = [] → wfList (evalList (strictCx F) ρ es).1 = true
  | [], _, _, _, _ => by simp [evalList, wfList]
  | e :: es, ρ, ho, hρ, h => by
    simp only [okList, Bool.and_eq_true] at ho
    simp only [evalList, List.append_eq_nil_iff] at h ⊢
    simp only [wfList, Bool.and_eq_true]
    exact ⟨wf_eval e ρ ho.1 hρ h.1, wf_list es ρ ho.2 hρ h.2⟩
theorem wf_each : ∀ (es : List Expr) (ρ : Env), okList es = true → wfEnv ρ →
    ∀ o ∈ evalEach (strictCx F) ρ es, o.2 = [] → wfVal o.1 = true
  | [], _, _, _ => by simp [evalEach]
  | e :: es, ρ, ho, hρ => by
    simp only [okList, Bool.and_eq_true] at ho
    intro o hmem
    simp only [evalEach, List.mem_cons] at hmem
    rcases hmem with rfl | hmem
    · exact wf_eval e ρ ho.1 hρ
    · exact wf_each es ρ ho.2 hρ o hmem
theorem wf_items : ∀ (items : List (Expr × Expr)) (ρ : Env), okItems items = true → wfEnv ρ →
    (evalItems (strictCx F) ρ items).1.diags = [] →
      GInv (fun v => wfVal v = true) (evalItems (strictCx F) ρ items).1.kvs
  | [], _, _, _, _ => by simp [evalItems]; exact GInv_nil _
  | (ke, ve) :: rest, ρ, ho, hρ, h => by
    simp only [okItems, Bool.and_eq_true] at ho
    exact wf_items_step F ρ ke ve rest (wf_eval ve ρ ho.1.2 hρ) (wf_items rest ρ ho.2 hρ) h
end
end

end HclModel.Proofs.Unk
