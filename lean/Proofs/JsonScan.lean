import HclModel.Json.Grammar
import Proofs.JsonString
/-!
Scanner lemmas for C13: the scanner with canonical fuel (`S`), its one-step equation, what it produces for
each kind of token (completeness direction; for strings this rests on `clampAdv`) and what a produced token tells about
the input (soundness direction).
-/
namespace HclModel.Json.Proofs
open HclModel.Json

theorem drop_length_takeWhile (p : Byte → Bool) (l : List Byte) :
    l.drop (l.takeWhile p).length = l.dropWhile p := by
  induction l with
  | nil => rfl
  | cons a l ih => by_cases h : p a <;> simp [h, ih]

theorem takeWhile_length_pos {p : Byte → Bool} {b : Byte} (rest : List Byte) (h : p b = true) :
    1 ≤ ((b :: rest).takeWhile p).length := by
  simp [h]

theorem canStartNumber_isNumberByte {b : Byte} (h : canStartNumber b = true) : isNumberByte b = true := by
  simp only [canStartNumber, isNumberByte, isDigit, Bool.or_eq_true, Bool.and_eq_true, decide_eq_true_eq] at *
  simp only [Byte] at *
  omega

theorem isAlpha_isKeywordByte {b : Byte} (h : isAlpha b = true) : isKeywordByte b = true := by
  simp [isKeywordByte, h]

theorem scanFrom_fuel (adv : List Byte → Nat) : ∀ f1 f2 buf pos, buf.length < f1 → buf.length < f2 →
    scanFrom adv f1 buf pos = scanFrom adv f2 buf pos := by
  intro f1
  induction f1 with
  | zero => intro f2 buf pos h; omega
  | succ f1 ih =>
    intro f2 buf pos h1 h2
    cases f2 with
    | zero => omega
    | succ f2 =>
      simp only [scanFrom]
      have hl : (buf.drop (buf.takeWhile isWs).length).length ≤ buf.length := by simp
      split
      · rfl
      · rename_i b rest heq
        rw [heq] at hl
        simp only [List.length_cons] at hl
        split
        · rw [ih f2] <;> omega
        · split
          · rw [ih f2] <;> simp only [List.length_drop, List.length_cons, scanStringLen] <;> omega
          · split
            · rename_i hc
              have := takeWhile_length_pos rest (canStartNumber_isNumberByte hc)
              rw [ih f2] <;> simp only [List.length_drop, List.length_cons] <;> omega
            · split
              · rename_i hc
                have := takeWhile_length_pos rest (isAlpha_isKeywordByte hc)
                rw [ih f2] <;> simp only [List.length_drop, List.length_cons] <;> omega
              · rfl

/-- the scanner with canonical fuel -/
def S (adv : List Byte → Nat) (buf : List Byte) (pos : Nat) : List Token :=
  scanFrom adv (buf.length + 1) buf pos

theorem scan_eq_S (adv : List Byte → Nat) (buf : List Byte) : scan adv buf = S adv buf 0 := rfl

/-- one token of the scanner, on input that does not start with whitespace -/
def S1 (adv : List Byte → Nat) (b : Byte) (rest : List Byte) (pos : Nat) : List Token :=
  match punct b with
  | some ty => ⟨ty, [b], pos⟩ :: S adv rest (pos + 1)
  | none =>
    if b = 34 then
      let n := min (scanStringLen adv (b :: rest)) (rest.length + 1)
      ⟨.string, (b :: rest).take n, pos⟩ :: S adv ((b :: rest).drop n) (pos + n)
    else if canStartNumber b then
      let n := ((b :: rest).takeWhile isNumberByte).length
      ⟨.number, (b :: rest).take n, pos⟩ :: S adv ((b :: rest).drop n) (pos + n)
    else if isAlpha b then
      let n := ((b :: rest).takeWhile isKeywordByte).length
      ⟨.keyword, (b :: rest).take n, pos⟩ :: S adv ((b :: rest).drop n) (pos + n)
    else
      [⟨.invalid, [b], pos⟩, ⟨.eof, [], pos + 1⟩]

theorem S_eq (adv : List Byte → Nat) (buf : List Byte) (pos : Nat) :
    S adv buf pos =
      match buf.dropWhile isWs with
      | [] => [⟨.eof, [], pos + (buf.takeWhile isWs).length⟩]
      | b :: rest => S1 adv b rest (pos + (buf.takeWhile isWs).length) := by
  unfold S
  simp only [scanFrom]
  have hl : (buf.dropWhile isWs).length ≤ buf.length := by
    rw [← drop_length_takeWhile]; simp
  rw [drop_length_takeWhile]
  generalize buf.dropWhile isWs = d at hl
  cases d with
  | nil => rfl
  | cons b rest =>
    simp only [List.length_cons] at hl
    dsimp only
    unfold S1 S
    have key : ∀ (X : List Byte) (p : Nat), X.length < buf.length →
        scanFrom adv buf.length X p = scanFrom adv (X.length + 1) X p :=
      fun X p hX => scanFrom_fuel adv _ _ X p hX (by omega)
    cases hp : punct b with
    | some ty => dsimp only; rw [key]; omega
    | none =>
      dsimp only
      by_cases h34 : b = 34
      · rw [if_pos h34, if_pos h34, key]
        simp only [List.length_drop, List.length_cons, scanStringLen]; omega
      · rw [if_neg h34, if_neg h34]
        by_cases hc : canStartNumber b = true
        · have := takeWhile_length_pos rest (canStartNumber_isNumberByte hc)
          rw [if_pos hc, if_pos hc, key]
          simp only [List.length_drop, List.length_cons]; omega
        · rw [if_neg hc, if_neg hc]
          by_cases ha : isAlpha b = true
          · have := takeWhile_length_pos rest (isAlpha_isKeywordByte ha)
            rw [if_pos ha, if_pos ha, key]
            simp only [List.length_drop, List.length_cons]; omega
          · rw [if_neg ha, if_neg ha]

theorem S_nil (adv : List Byte → Nat) (pos : Nat) : S adv [] pos = [⟨.eof, [], pos⟩] := by
  rw [S_eq]; rfl

theorem S_cons (adv : List Byte → Nat) {b : Byte} (rest : List Byte) (pos : Nat) (h : isWs b = false) :
    S adv (b :: rest) pos = S1 adv b rest pos := by
  rw [S_eq]; simp [h]

theorem takeWhile_allWs {w : List Byte} (h : AllWs w) (x : List Byte) :
    (w ++ x).takeWhile isWs = w ++ x.takeWhile isWs := by
  induction w with
  | nil => rfl
  | cons a w ih =>
    have ha : isWs a = true := h a (by simp)
    have hw : AllWs w := fun b hb => h b (by simp [hb])
    simp [ha, ih hw]

theorem dropWhile_allWs {w : List Byte} (h : AllWs w) (x : List Byte) :
    (w ++ x).dropWhile isWs = x.dropWhile isWs := by
  induction w with
  | nil => rfl
  | cons a w ih =>
    have ha : isWs a = true := h a (by simp)
    have hw : AllWs w := fun b hb => h b (by simp [hb])
    simp [ha, ih hw]

theorem S_ws (adv : List Byte → Nat) {w : List Byte} (h : AllWs w) (x : List Byte) (pos : Nat) :
    S adv (w ++ x) pos = S adv x (pos + w.length) := by
  rw [S_eq, S_eq adv x, dropWhile_allWs h, takeWhile_allWs h]
  simp only [List.length_append, Nat.add_assoc]

theorem allWs_takeWhile (buf : List Byte) : AllWs (buf.takeWhile isWs) := fun _ hb => mem_takeWhile_imp hb


/-- the defining property of `clampAdv`: the result is between 1 and `a`, and the bytes a clamped step
    skips (all but the first byte of the cluster) are neither `"`, `\` nor control bytes -/
theorem clampAdv_spec (a : Nat) (rest : List Byte) (ha : 1 ≤ a) :
    1 ≤ clampAdv a rest ∧ clampAdv a rest ≤ a ∧
    ∀ i, i < clampAdv a rest - 1 → ∀ x, rest[i]? = some x → x ≠ 34 ∧ x ≠ 92 ∧ 32 ≤ x := by
  unfold clampAdv
  split
  · rename_i j hj
    obtain ⟨hlt, _, hall⟩ := List.findIdx?_eq_some_iff_getElem.mp hj
    have hlt' := hlt
    simp only [List.length_take] at hlt'
    refine ⟨by omega, by omega, ?_⟩
    intro i hi x hx
    have hij : i < j := by omega
    have hnp := hall i hij
    have hget : (rest.take (a - 1))[i]'(Nat.lt_trans hij hlt) = x := by
      have h1 : (rest.take (a - 1))[i]? = some x := by
        rw [List.getElem?_take_of_lt (by omega)]; exact hx
      exact (List.getElem?_eq_some_iff.mp h1).2
    rw [hget] at hnp
    simp only [Bool.or_eq_true, decide_eq_true_eq, not_or] at hnp
    simp only [Byte] at *
    omega
  · rename_i hj
    have hall := List.findIdx?_eq_none_iff.mp hj
    refine ⟨ha, Nat.le_refl _, ?_⟩
    intro i hi x hx
    have hmem : x ∈ rest.take (a - 1) := by
      apply List.mem_of_getElem? (i := i)
      rw [List.getElem?_take_of_lt hi]; exact hx
    have hnp := hall x hmem
    simp only [Bool.or_eq_false_iff, decide_eq_false_iff_not] at hnp
    simp only [Byte] at *
    omega

theorem okBody_drop : ∀ (k : Nat) (s : List Byte), okBody s false → k ≤ s.length →
    (∀ i, i < k → ∀ x, s[i]? = some x → x ≠ 34 ∧ x ≠ 92 ∧ 32 ≤ x) → okBody (s.drop k) false := by
  intro k
  induction k with
  | zero => intro s h _ _; simpa using h
  | succ k ih =>
    intro s h hk hx
    cases s with
    | nil => simp at hk
    | cons x s =>
      obtain ⟨h34, h92, _⟩ := hx 0 (by omega) x (by simp)
      simp only [okBody, h92, h34, if_false] at h
      simp only [List.drop_succ_cons]
      apply ih s h.2 (by simpa using hk)
      intro i hi y hy
      exact hx (i+1) (by omega) y (by simpa using hy)

theorem scanStringBody_ok (adv : List Byte → Nat) :
    ∀ (n : Nat) (s : List Byte) (esc : Bool) (fuel : Nat) (rest : List Byte), s.length ≤ n → okBody s esc →
      s.length < fuel → scanStringBody adv fuel (s ++ 34 :: rest) esc = s.length + 1 := by
  intro n
  induction n with
  | zero =>
    intro s esc fuel rest hn hok hf
    have : s = [] := by cases s <;> simp_all
    subst this
    cases fuel with
    | zero => omega
    | succ f =>
      simp only [okBody] at hok
      subst hok
      simp [scanStringBody]
  | succ n ih =>
    intro s esc fuel rest hn hok hf
    cases s with
    | nil =>
      cases fuel with
      | zero => omega
      | succ f =>
        simp only [okBody] at hok
        subst hok
        simp [scanStringBody]
    | cons b s =>
      cases fuel with
      | zero => omega
      | succ f =>
        simp only [List.length_cons] at hn hf
        simp only [List.cons_append, scanStringBody]
        by_cases h92 : b = 92
        · simp only [okBody, h92, if_true] at hok
          simp only [h92, if_true]
          rw [ih s _ f rest (by omega) hok (by omega)]
          simp; omega
        · by_cases h34 : b = 34
          · simp only [okBody, h34, if_true] at hok
            simp only [h34, hok.1]
            simp
            rw [ih s _ f rest (by omega) hok.2 (by omega)]
            omega
          · simp only [okBody, h92, h34, if_false] at hok
            simp only [h92, h34, if_false]
            have hlt : ¬ b < 32 := by simp only [Byte] at *; omega
            simp only [hlt, if_false]
            -- the cluster, clamped
            generalize ha0 : min (max 1 (adv (b :: (s ++ 34 :: rest)))) ((s ++ 34 :: rest).length + 1) = a0
            have ha01 : 1 ≤ a0 := by rw [← ha0]; simp; omega
            obtain ⟨ha1, _, hskip⟩ := clampAdv_spec a0 (s ++ 34 :: rest) ha01
            generalize clampAdv a0 (s ++ 34 :: rest) = a at ha1 hskip ⊢
            have ha2 : a ≤ s.length + 1 := by
              apply Nat.le_of_not_lt
              intro hgt
              have := (hskip s.length (by omega) 34 (by simp)).1
              exact this rfl
            have hdrop : (s ++ 34 :: rest).drop (a - 1) = s.drop (a - 1) ++ 34 :: rest := by
              rw [List.drop_append_of_le_length (by omega)]
            rw [hdrop]
            have hok' : okBody (s.drop (a - 1)) false := by
              apply okBody_drop _ _ hok.2 (by omega)
              intro i hi x hx
              apply hskip i hi x
              rw [List.getElem?_append_left]
              · exact hx
              · exact (List.getElem?_eq_some_iff.mp hx).1
            rw [ih _ _ f rest (by simp; omega) hok' (by simp; omega)]
            simp; omega


/-! ### what the scanner produces for each kind of token -/

theorem punct_cases {b : Byte} {ty : TT} (h : punct b = some ty) :
    (b = 123 ∧ ty = .braceO) ∨ (b = 125 ∧ ty = .braceC) ∨ (b = 91 ∧ ty = .brackO) ∨ (b = 93 ∧ ty = .brackC) ∨
    (b = 44 ∧ ty = .comma) ∨ (b = 58 ∧ ty = .colon) ∨ (b = 61 ∧ ty = .equals) := by
  unfold punct at h
  repeat' split at h
  all_goals simp_all

theorem punct_eq_none {b : Byte}
    (h : b ≠ 123 ∧ b ≠ 125 ∧ b ≠ 91 ∧ b ≠ 93 ∧ b ≠ 44 ∧ b ≠ 58 ∧ b ≠ 61) : punct b = none := by
  unfold punct
  simp [h]

theorem punct_not_ws {b : Byte} {ty : TT} (h : punct b = some ty) : isWs b = false := by
  rcases punct_cases h with h | h | h | h | h | h | h <;> (rw [h.1]; decide)

theorem S_punct (adv : List Byte → Nat) {b : Byte} {ty : TT} (h : punct b = some ty) (r : List Byte) (pos : Nat) :
    S adv (b :: r) pos = ⟨ty, [b], pos⟩ :: S adv r (pos + 1) := by
  rw [S_cons adv r pos (punct_not_ws h)]
  unfold S1
  rw [h]

theorem takeWhile_run {p : Byte → Bool} {v : List Byte} (hv : ∀ x ∈ v, p x = true) {r : List Byte}
    (hr : ∀ b r', r = b :: r' → p b = false) : (v ++ r).takeWhile p = v := by
  induction v with
  | nil =>
    cases r with
    | nil => rfl
    | cons b r' => simp [hr b r' rfl]
  | cons a v ih =>
    have ha : p a = true := hv a (by simp)
    simp only [List.cons_append, List.takeWhile_cons, ha, if_true]
    rw [ih (fun x hx => hv x (by simp [hx]))]

/-- what may follow a value inside a JSON text: nothing that would extend a number or keyword token -/
def Follow (r : List Byte) : Prop := ∀ b r', r = b :: r' → isNumberByte b = false ∧ isKeywordByte b = false

theorem Follow.nil : Follow [] := by intro b r' h; cases h

theorem Follow.cons {b : Byte} (r : List Byte) (h1 : isNumberByte b = false) (h2 : isKeywordByte b = false) :
    Follow (b :: r) := by
  intro b' r' h; cases h; exact ⟨h1, h2⟩

theorem Follow.ws {w : List Byte} (hw : AllWs w) {r : List Byte} (hr : Follow r) : Follow (w ++ r) := by
  cases w with
  | nil => exact hr
  | cons a w =>
    have ha : isWs a = true := hw a (by simp)
    apply Follow.cons
    · simp only [isWs, isNumberByte, isDigit, Bool.or_eq_true, decide_eq_true_eq] at *
      simp only [Byte] at *
      simp; omega
    · simp only [isWs, isKeywordByte, isAlpha, Bool.or_eq_true, decide_eq_true_eq] at *
      simp only [Byte] at *
      simp; omega

theorem S_number (adv : List Byte → Nat) {b : Byte} {v' : List Byte} (hb : canStartNumber b = true)
    (hv : ∀ x ∈ b :: v', isNumberByte x = true) {r : List Byte} (hr : Follow r) (pos : Nat) :
    S adv (b :: v' ++ r) pos = ⟨.number, b :: v', pos⟩ :: S adv r (pos + (b :: v').length) := by
  have hws : isWs b = false := by
    simp only [isWs, canStartNumber, isDigit, Bool.or_eq_true, Bool.and_eq_true, decide_eq_true_eq] at *
    simp only [Byte] at *
    simp; omega
  have hp : punct b = none := by
    simp only [canStartNumber, isDigit, Bool.or_eq_true, Bool.and_eq_true, decide_eq_true_eq] at hb
    apply punct_eq_none
    simp only [Byte] at *
    omega
  have h34 : b ≠ 34 := by
    simp only [canStartNumber, isDigit, Bool.or_eq_true, Bool.and_eq_true, decide_eq_true_eq] at hb
    simp only [Byte] at *
    omega
  rw [List.cons_append, S_cons adv _ pos hws]
  unfold S1
  rw [hp]
  dsimp only
  rw [if_neg h34, if_pos hb]
  have htw : (b :: (v' ++ r)).takeWhile isNumberByte = b :: v' := by
    rw [← List.cons_append]; exact takeWhile_run hv (fun x r' h => (hr x r' h).1)
  rw [htw]
  have h1 : (b :: (v' ++ r)).take (b :: v').length = b :: v' := by
    rw [← List.cons_append, List.take_left']; rfl
  have h2 : (b :: (v' ++ r)).drop (b :: v').length = r := by
    rw [← List.cons_append, List.drop_left']; rfl
  rw [h1, h2]

theorem S_keyword (adv : List Byte → Nat) {b : Byte} {v' : List Byte} (hb : isAlpha b = true)
    (hv : ∀ x ∈ b :: v', isKeywordByte x = true) {r : List Byte} (hr : Follow r) (pos : Nat) :
    S adv (b :: v' ++ r) pos = ⟨.keyword, b :: v', pos⟩ :: S adv r (pos + (b :: v').length) := by
  have hws : isWs b = false := by
    simp only [isWs, isAlpha, Bool.or_eq_true, Bool.and_eq_true, decide_eq_true_eq] at *
    simp only [Byte] at *
    simp; omega
  have hp : punct b = none := by
    simp only [isAlpha, Bool.or_eq_true, Bool.and_eq_true, decide_eq_true_eq] at hb
    apply punct_eq_none
    simp only [Byte] at *
    omega
  have h34 : b ≠ 34 := by
    simp only [isAlpha, Bool.or_eq_true, Bool.and_eq_true, decide_eq_true_eq] at hb
    simp only [Byte] at *
    omega
  have hn : ¬ canStartNumber b = true := by
    simp only [isAlpha, canStartNumber, isDigit, Bool.or_eq_true, Bool.and_eq_true, decide_eq_true_eq] at *
    simp only [Byte] at *
    omega
  rw [List.cons_append, S_cons adv _ pos hws]
  unfold S1
  rw [hp]
  dsimp only
  rw [if_neg h34, if_neg hn, if_pos hb]
  have htw : (b :: (v' ++ r)).takeWhile isKeywordByte = b :: v' := by
    rw [← List.cons_append]; exact takeWhile_run hv (fun x r' h => (hr x r' h).2)
  rw [htw]
  have h1 : (b :: (v' ++ r)).take (b :: v').length = b :: v' := by
    rw [← List.cons_append, List.take_left']; rfl
  have h2 : (b :: (v' ++ r)).drop (b :: v').length = r := by
    rw [← List.cons_append, List.drop_left']; rfl
  rw [h1, h2]

theorem S_string (adv : List Byte → Nat) {s : List Byte} (hok : okBody s false)
    (r : List Byte) (pos : Nat) :
    S adv (34 :: s ++ 34 :: r) pos = ⟨.string, 34 :: s ++ [34], pos⟩ :: S adv r (pos + (s.length + 2)) := by
  rw [List.cons_append, S_cons adv _ pos (by decide)]
  unfold S1
  have hp : punct 34 = none := by decide
  rw [hp]
  dsimp only
  rw [if_pos rfl]
  have hlen : scanStringLen adv (34 :: (s ++ 34 :: r)) = s.length + 2 := by
    unfold scanStringLen
    rw [List.tail_cons, scanStringBody_ok adv s.length s false _ r (Nat.le_refl _) hok (by simp; omega)]
    omega
  rw [hlen]
  have hmin : min (s.length + 2) ((s ++ 34 :: r).length + 1) = s.length + 2 := by
    simp
  rw [hmin]
  have h1 : (34 :: (s ++ 34 :: r)).take (s.length + 2) = 34 :: s ++ [34] := by
    have : (34 :: (s ++ 34 :: r)) = (34 :: s ++ [34]) ++ r := by simp
    rw [this, List.take_left']; simp
  have h2 : (34 :: (s ++ 34 :: r)).drop (s.length + 2) = r := by
    have : (34 :: (s ++ 34 :: r)) = (34 :: s ++ [34]) ++ r := by simp
    rw [this, List.drop_left']; simp
  rw [h1, h2]

/-! ### inversion: what a token tells about the input -/

theorem S_inv {adv : List Byte → Nat} {buf : List Byte} {pos : Nat} {t : Token} {ts : List Token}
    (h : S adv buf pos = t :: ts) :
    ∃ w buf1, buf = w ++ buf1 ∧ AllWs w ∧
      ((buf1 = [] ∧ t.ty = .eof ∧ ts = []) ∨
       (∃ b r pos', buf1 = b :: r ∧ punct b = some t.ty ∧ ts = S adv r pos') ∨
       (∃ buf2 pos', buf1 = t.bytes ++ buf2 ∧ ts = S adv buf2 pos' ∧
          (t.ty = .string ∨ t.ty = .number ∨ t.ty = .keyword)) ∨
       t.ty = .invalid) := by
  refine ⟨buf.takeWhile isWs, buf.dropWhile isWs, List.takeWhile_append_dropWhile.symm, allWs_takeWhile buf, ?_⟩
  rw [S_eq] at h
  generalize buf.dropWhile isWs = d at h
  generalize pos + (buf.takeWhile isWs).length = p at h
  cases d with
  | nil =>
    dsimp only at h
    injection h with h1 h2
    subst h1 h2
    exact Or.inl ⟨rfl, rfl, rfl⟩
  | cons b rest =>
    dsimp only at h
    unfold S1 at h
    cases hp : punct b with
    | some ty =>
      rw [hp] at h
      dsimp only at h
      injection h with h1 h2
      subst h1 h2
      exact Or.inr (Or.inl ⟨b, rest, _, rfl, hp, rfl⟩)
    | none =>
      rw [hp] at h
      dsimp only at h
      split at h
      · injection h with h1 h2
        subst h1 h2
        exact Or.inr (Or.inr (Or.inl ⟨_, _, (List.take_append_drop _ _).symm, rfl, Or.inl rfl⟩))
      · split at h
        · injection h with h1 h2
          subst h1 h2
          exact Or.inr (Or.inr (Or.inl ⟨_, _, (List.take_append_drop _ _).symm, rfl, Or.inr (Or.inl rfl)⟩))
        · split at h
          · injection h with h1 h2
            subst h1 h2
            exact Or.inr (Or.inr (Or.inl ⟨_, _, (List.take_append_drop _ _).symm, rfl, Or.inr (Or.inr rfl)⟩))
          · injection h with h1 h2
            subst h1
            exact Or.inr (Or.inr (Or.inr rfl))

end HclModel.Json.Proofs
