import Proofs.TaintOps
import Proofs.MarksSplat
/-!
C19: object constructors, `for` expressions and splats.
-/
set_option linter.unusedSimpArgs false
set_option linter.unusedVariables false
set_option linter.unusedTactic false
namespace HclModel.Proofs
open Val

theorem flOK_of_m {f : Fl} (h : f.m = true) : flOK f := fun _ => h

theorem flOK_join_left {a b : Fl} (h : a.m = true) : flOK (a.join b) := flOK_of_m (by simp [h])

theorem groupInsert_mem {k : String} {v : Val} : ∀ {kvs : List (String × List Val)} {p : String × List Val} {w : Val},
    p ∈ groupInsert k v kvs → w ∈ p.2 → w = v ∨ ∃ p' ∈ kvs, w ∈ p'.2
  | [], p, w, hp, hw => by
    simp only [groupInsert, List.mem_singleton] at hp
    subst hp
    simp only [List.mem_singleton] at hw
    exact Or.inl hw
  | (k', vs) :: rest, p, w, hp, hw => by
    simp only [groupInsert] at hp
    split at hp
    · rcases List.mem_cons.mp hp with rfl | hp
      · simp only [List.mem_singleton] at hw; exact Or.inl hw
      · exact Or.inr ⟨p, hp, hw⟩
    · split at hp
      · rcases List.mem_cons.mp hp with rfl | hp
        · rcases List.mem_append.mp hw with hw | hw
          · exact Or.inr ⟨(k', vs), by simp, hw⟩
          · simp only [List.mem_singleton] at hw; exact Or.inl hw
        · exact Or.inr ⟨p, by simp [hp], hw⟩
      · rcases List.mem_cons.mp hp with rfl | hp
        · exact Or.inr ⟨(k', vs), by simp, hw⟩
        · rcases groupInsert_mem hp hw with h | ⟨p', hp', hw'⟩
          · exact Or.inl h
          · exact Or.inr ⟨p', by simp [hp'], hw'⟩

/-- all accumulated values expose nothing -/
def kvsTw (kvs : List (String × List Val)) : Prop := ∀ p ∈ kvs, ∀ v ∈ p.2, tw false v = true

theorem kvsTw_insert {k : String} {v : Val} {kvs : List (String × List Val)} (h : kvsTw kvs)
    (hv : tw false v = true) : kvsTw (groupInsert k v kvs) := by
  intro p hp w hw
  rcases groupInsert_mem hp hw with rfl | ⟨p', hp', hw'⟩
  · exact hv
  · exact h p' hp' w hw'

theorem tw_headD {vs : List Val} (h : ∀ v ∈ vs, tw false v = true) : tw false (vs.headD Val.dynVal) = true := by
  cases vs with
  | nil => exact tw_dynVal _
  | cons v vs => exact h v (by simp)

theorem tw_tuple_none {i : Bool} {vals : List Val} (h : i = true ∨ ∀ v ∈ vals, tw false v = true) :
    tw i (Val.tuple Fl.none vals) = true := by
  rcases h with rfl | h
  · exact tw_true _
  · rw [tw_tuple_iff]
    simp only [none_g, Bool.not_false, Bool.true_or, Bool.true_and]
    exact twL_of_mem fun x hx => tw_mono (by intro h; cases h) (h x hx)

theorem tw_list_none {i : Bool} {t : Ty} {vals : List Val} (h : i = true ∨ ∀ v ∈ vals, tw false v = true) :
    tw i (Val.list Fl.none t vals) = true := by
  rcases h with rfl | h
  · exact tw_true _
  · rw [tw_list_iff]
    simp only [none_g, Bool.not_false, Bool.true_or, Bool.true_and]
    exact twL_of_mem fun x hx => tw_mono (by intro h; cases h) (h x hx)

theorem tw_object_of {f : Fl} {kvs : List (String × Val)} (hf : flOK f)
    (h : f.m = true ∨ ∀ p ∈ kvs, tw false p.2 = true) : tw false (Val.object f kvs) = true := by
  rw [tw_object_iff, Bool.and_eq_true]
  constructor
  · cases hg : f.g
    · rfl
    · simp [hf hg]
  · rcases h with h | h
    · rw [h]; exact twF_true _
    · exact twF_of_mem fun p hp => tw_mono (by intro h; cases h) (h p hp)

theorem tw_tuple_of {f : Fl} {vals : List Val} (hf : flOK f)
    (h : f.m = true ∨ ∀ v ∈ vals, tw false v = true) : tw false (Val.tuple f vals) = true := by
  rw [tw_tuple_iff, Bool.and_eq_true]
  constructor
  · cases hg : f.g
    · rfl
    · simp [hf hg]
  · rcases h with h | h
    · rw [h]; exact twL_true _
    · exact twL_of_mem fun p hp => tw_mono (by intro h; cases h) (h p hp)

/-! ### object constructor -/

def OInv (r : ForSt × Bool) : Prop := flOK r.1.marks ∧ kvsTw r.1.kvs

theorem OInv_init : OInv (({} : ForSt), true) := ⟨flOK_none, fun _ hp => by cases hp⟩

theorem itemStep_OInv {ko vo : Out} {r : ForSt × Bool} (hk : tw false ko.1 = true) (hv : tw false vo.1 = true)
    (h : OInv r) : OInv (itemStep ko vo r) := by
  obtain ⟨k, kd⟩ := ko
  obtain ⟨v, vd⟩ := vo
  obtain ⟨st, known⟩ := r
  have hkf := tw_flOK hk
  unfold itemStep
  dsimp only
  split
  · exact h
  · split
    · exact h
    · dsimp only [unmark]
      split
      · exact ⟨flOK_join h.1 hkf, h.2⟩
      · split
        · refine ⟨flOK_join h.1 hkf, ?_⟩
          dsimp only
          split
          · exact h.2
          · exact kvsTw_insert h.2 hv
        · exact ⟨flOK_join h.1 hkf, h.2⟩

theorem itemStep_NoNew (ko vo : Out) (r : ForSt × Bool) :
    NoNew (itemStep ko vo r).1.diags (ko.2 ++ vo.2 ++ r.1.diags) := by
  obtain ⟨k, kd⟩ := ko
  obtain ⟨v, vd⟩ := vo
  obtain ⟨st, known⟩ := r
  unfold itemStep
  dsimp only
  repeat' (first | split | dsimp only [unmark])
  all_goals nonew

theorem objectOut_tw {r : ForSt × Bool} (h : OInv r) : tw false (objectOut r).1 = true := by
  obtain ⟨st, known⟩ := r
  unfold objectOut
  dsimp only
  split
  · exact tw_dynVal _
  · refine tw_object_of h.1 (Or.inr ?_)
    intro p hp
    obtain ⟨⟨k, vs⟩, hq, rfl⟩ := List.mem_map.mp hp
    exact tw_headD (h.2 _ hq)

theorem objectOut_snd (r : ForSt × Bool) : (objectOut r).2 = r.1.diags := by
  obtain ⟨st, known⟩ := r
  unfold objectOut
  dsimp only
  split <;> rfl

/-! ### `for`: values -/

/-- loop invariant for the values: `cm` = flags of the collection -/
def VInv (cm : Fl) (st : ForSt) : Prop :=
  (cm.m = true → st.marks.m = true) ∧ flOK st.marks ∧
    (st.marks.m = true ∨ ((∀ v ∈ st.vals, tw false v = true) ∧ kvsTw st.kvs))

theorem VInv_init {cm : Fl} (ds : List Diag) (h : flOK cm) : VInv cm ({ diags := ds, marks := cm } : ForSt) := by
  refine ⟨fun h => h, h, Or.inr ⟨?_, ?_⟩⟩
  · intro v hv; simp at hv
  · intro p hp; simp at hp

theorem VInv_join {cm : Fl} {st : ForSt} (f : Fl) (h : VInv cm st) (hf : st.marks.m = true ∨ flOK f) :
    VInv cm { st with marks := st.marks.join f } := by
  refine ⟨fun hc => by simp [h.1 hc], ?_, ?_⟩
  · rcases hf with hf | hf
    · exact flOK_join_left hf
    · exact flOK_join h.2.1 hf
  · rcases h.2.2 with h1 | h1
    · exact Or.inl (by simp [h1])
    · exact Or.inr h1

theorem tupStep_VInv {cm : Fl} {st : ForSt} (ev : Val → Val → Out) (kv : Val × Val) (h : VInv cm st)
    (hv : st.marks.m = true ∨ tw false (ev kv.1 kv.2).1 = true) : VInv cm (tupStep ev st kv) := by
  refine ⟨h.1, h.2.1, ?_⟩
  rcases h.2.2 with h1 | h1
  · exact Or.inl h1
  · rcases hv with hv | hv
    · exact Or.inl hv
    · refine Or.inr ⟨?_, h1.2⟩
      intro v hv'
      simp only [tupStep, List.mem_append, List.mem_singleton] at hv'
      rcases hv' with hv' | rfl
      · exact h1.1 v hv'
      · exact hv

theorem forTupleStep_VInv {cm : Fl} {st : ForSt} (ev : Val → Val → Out) (ec : Option (Val → Val → Out))
    (kv : Val × Val) (h : VInv cm st)
    (hb : cm.m = true ∨ (tw false (ev kv.1 kv.2).1 = true ∧ ∀ c, ec = some c → tw false (c kv.1 kv.2).1 = true)) :
    VInv cm (forTupleStep ev ec st kv) := by
  have hv : ∀ st' : ForSt, VInv cm st' → st'.marks.m = true ∨ tw false (ev kv.1 kv.2).1 = true := by
    intro st' h'
    rcases hb with hb | hb
    · exact Or.inl (h'.1 hb)
    · exact Or.inr hb.1
  cases ec with
  | none => rw [forTupleStep_none]; exact tupStep_VInv ev kv h (hv st h)
  | some c =>
    have hc : st.marks.m = true ∨ flOK (c kv.1 kv.2).1.fl := by
      rcases hb with hb | hb
      · exact Or.inl (h.1 hb)
      · exact Or.inr (tw_flOK (hb.2 c rfl))
    rw [forTupleStep_some]
    dsimp only
    have h2 := VInv_join (c kv.1 kv.2).1.fl h hc
    split
    · exact h
    · split
      · exact h2
      · split
        · exact h2
        · exact h2
        · exact tupStep_VInv ev kv h2 (hv _ h2)

theorem objStep_VInv {cm : Fl} {st : ForSt} (g : Bool) (ek ev : Val → Val → Out) (kv : Val × Val) (h : VInv cm st)
    (hb : cm.m = true ∨ (tw false (ek kv.1 kv.2).1 = true ∧ tw false (ev kv.1 kv.2).1 = true)) :
    VInv cm (objStep g ek ev st kv) := by
  have hk : st.marks.m = true ∨ flOK (ek kv.1 kv.2).1.fl := by
    rcases hb with hb | hb
    · exact Or.inl (h.1 hb)
    · exact Or.inr (tw_flOK hb.1)
  have h2 := VInv_join (ek kv.1 kv.2).1.fl h hk
  have hins : ∀ (st' : ForSt) (k : String), VInv cm st' →
      VInv cm { st' with kvs := groupInsert k (ev kv.1 kv.2).1 st'.kvs } := by
    intro st' k h'
    refine ⟨h'.1, h'.2.1, ?_⟩
    rcases h'.2.2 with h3 | h3
    · exact Or.inl h3
    · rcases hb with hb | hb
      · exact Or.inl (h'.1 hb)
      · exact Or.inr ⟨h3.1, kvsTw_insert h3.2 hb.2⟩
  unfold objStep
  dsimp only
  split
  · exact h
  · split
    · exact h2
    · split
      · exact h2
      · split
        · split
          · exact hins _ _ h2
          · split
            · exact h2
            · exact hins _ _ h2
        · exact h2

theorem forObjectStep_VInv {cm : Fl} {st : ForSt} (g : Bool) (ek ev : Val → Val → Out)
    (ec : Option (Val → Val → Out)) (kv : Val × Val) (h : VInv cm st)
    (hb : cm.m = true ∨ (tw false (ek kv.1 kv.2).1 = true ∧ tw false (ev kv.1 kv.2).1 = true ∧
      ∀ c, ec = some c → tw false (c kv.1 kv.2).1 = true)) :
    VInv cm (forObjectStep g ek ev ec st kv) := by
  have hb' : cm.m = true ∨ (tw false (ek kv.1 kv.2).1 = true ∧ tw false (ev kv.1 kv.2).1 = true) :=
    hb.imp id fun h => ⟨h.1, h.2.1⟩
  cases ec with
  | none => rw [forObjectStep_none]; exact objStep_VInv g ek ev kv h hb'
  | some c =>
    have hc : st.marks.m = true ∨ flOK (c kv.1 kv.2).1.fl := by
      rcases hb with hb | hb
      · exact Or.inl (h.1 hb)
      · exact Or.inr (tw_flOK (hb.2.2 c rfl))
    rw [forObjectStep_some]
    dsimp only
    have h2 := VInv_join (c kv.1 kv.2).1.fl h hc
    split
    · exact h
    · split
      · exact h2
      · split
        · exact h2
        · split
          · exact h2
          · exact objStep_VInv g ek ev kv h2 hb'

theorem forTupleFin_tw {cm : Fl} {st : ForSt} (h : VInv cm st) : tw false (forTupleFin st).1 = true := by
  unfold forTupleFin
  split
  · exact tw_dyn_withFl h.2.1
  · exact tw_tuple_of h.2.1 (h.2.2.imp id fun h => h.1)

theorem forObjectFin_tw {cm : Fl} {st : ForSt} (g : Bool) (h : VInv cm st) :
    tw false (forObjectFin g st).1 = true := by
  unfold forObjectFin
  split
  · exact tw_dyn_withFl h.2.1
  · split
    · refine tw_object_of h.2.1 (h.2.2.imp id fun h1 => ?_)
      intro p hp
      obtain ⟨⟨k, vs⟩, hq, rfl⟩ := List.mem_map.mp hp
      exact tw_tuple_none (Or.inr (h1.2 _ hq))
    · refine tw_object_of h.2.1 (h.2.2.imp id fun h1 => ?_)
      intro p hp
      obtain ⟨⟨k, vs⟩, hq, rfl⟩ := List.mem_map.mp hp
      exact tw_headD (h1.2 _ hq)

theorem fold_inv {α : Type} (P : ForSt → Prop) (stepf : ForSt → α → ForSt) :
    ∀ (els : List α) (st : ForSt), P st → (∀ st kv, kv ∈ els → P st → P (stepf st kv)) → P (els.foldl stepf st)
  | [], st, h, _ => h
  | kv :: els, st, h, hs => by
    simp only [List.foldl_cons]
    exact fold_inv P stepf els _ (hs st kv (by simp) h) (fun st kv' hk => hs st kv' (by simp [hk]))

theorem probeCond_fl {o : Out} (h : tw false o.1 = true) : flOK (probeCond o).2.1 := by
  obtain ⟨r, pd⟩ := o
  unfold probeCond
  dsimp only
  split
  · exact flOK_none
  · split
    · exact tw_flOK h
    · exact tw_flOK h

theorem probeCond_NoNew (o : Out) : NoNew (probeCond o).1 o.2 := by
  obtain ⟨r, pd⟩ := o
  unfold probeCond
  dsimp only
  repeat' split
  all_goals nonew

theorem forOut_tw (co : Out) (probe : Option Out) (stepf : ForSt → Val × Val → ForSt) (fin : ForSt → Out)
    (hc : tw false co.1 = true) (hp : ∀ po, probe = some po → tw false po.1 = true)
    (hstep : ∀ els, elements co.1.unmark.1 = some els → ∀ st kv, kv ∈ els → VInv co.1.fl st →
      VInv co.1.fl (stepf st kv))
    (hfin : ∀ st, VInv co.1.fl st → tw false (fin st).1 = true) :
    tw false (forOut co probe stepf fin).1 = true := by
  obtain ⟨cv, cd⟩ := co
  have hcf := tw_flOK hc
  unfold forOut
  dsimp only
  split
  · exact tw_dynVal _
  · split
    · exact tw_dynVal _
    · split
      · exact tw_dynVal _
      · split
        · exact tw_dynVal _
        · split
          · refine tw_dyn_withFl (flOK_join hcf ?_)
            cases probe with
            | none => exact flOK_none
            | some po => exact probeCond_fl (hp po rfl)
          · rename_i els hels
            exact hfin _ (fold_inv (VInv cv.fl) stepf els _ (VInv_init _ hcf) (hstep els hels))


/-! ### `for`: diagnostics -/

def DInv (cm : Fl) (st : ForSt) : Prop := (cm.m = true → st.marks.m = true) ∧ fragsClean st.diags

theorem DInv_join {cm : Fl} {st : ForSt} (f : Fl) (h : DInv cm st) : DInv cm { st with marks := st.marks.join f } :=
  ⟨fun hc => by simp [h.1 hc], h.2⟩

theorem DInv_diags {cm : Fl} {st : ForSt} (ds : List Diag) (h : DInv cm st) (hd : NoNew ds st.diags) :
    DInv cm { st with diags := ds } := ⟨h.1, fragsClean_of_NoNew hd h.2⟩

theorem DInv_add {cm : Fl} {st : ForSt} (ds : List Diag) (h : DInv cm st) (hd : fragsClean ds) :
    DInv cm { st with diags := st.diags ++ ds } := ⟨h.1, fragsClean_append h.2 hd⟩

theorem DInv_known {cm : Fl} {st : ForSt} (b : Bool) (h : DInv cm st) : DInv cm { st with known := b } := h

theorem fragsClean_single_free {x : Diag} (h : x.frags = []) : fragsClean [x] :=
  fragsClean_free (frags_single_free h)

theorem tupStep_DInv {cm : Fl} {st : ForSt} (ev : Val → Val → Out) (kv : Val × Val) (h : DInv cm st)
    (hv : fragsClean (ev kv.1 kv.2).2) : DInv cm (tupStep ev st kv) :=
  ⟨h.1, fragsClean_append h.2 hv⟩

theorem forTupleStep_DInv {cm : Fl} {st : ForSt} (ev : Val → Val → Out) (ec : Option (Val → Val → Out))
    (kv : Val × Val) (h : DInv cm st) (hv : fragsClean (ev kv.1 kv.2).2)
    (hc : ∀ c, ec = some c → fragsClean (c kv.1 kv.2).2) : DInv cm (forTupleStep ev ec st kv) := by
  cases ec with
  | none => rw [forTupleStep_none]; exact tupStep_DInv ev kv h hv
  | some c =>
    rw [forTupleStep_some]
    dsimp only
    have h1 := DInv_add (c kv.1 kv.2).2 h (hc c rfl)
    have h2 := DInv_join (c kv.1 kv.2).1.fl h1
    split
    · refine ⟨h1.1, ?_⟩
      dsimp only
      split
      · exact fragsClean_append h1.2 (fragsClean_single_free rfl)
      · exact h1.2
    · split
      · exact h2
      · split
        · refine ⟨h2.1, ?_⟩
          dsimp only
          split
          · exact fragsClean_append h2.2 (fragsClean_single_free (frags_ite_free (tryConvert_err_frags ‹_›) rfl))
          · exact h2.2
        · exact h2
        · exact tupStep_DInv ev kv h2 hv

theorem untainted_str {kf : Fl} {k : String} (h : kf.g = false) : untainted (.str kf k) = true := by
  simp [untainted, flagsDeep, h]

theorem objStep_DInv {cm : Fl} {st : ForSt} (g : Bool) (ek ev : Val → Val → Out) (kv : Val × Val) (h : DInv cm st)
    (hk : fragsClean (ek kv.1 kv.2).2) (hv : fragsClean (ev kv.1 kv.2).2)
    (hkey : g = true ∨ ((ek kv.1 kv.2).1.fl.g = true → cm.m = true ∨ (ek kv.1 kv.2).1.fl.m = true)) :
    DInv cm (objStep g ek ev st kv) := by
  have h1 := DInv_add (ek kv.1 kv.2).2 h hk
  have h2 := DInv_join (ek kv.1 kv.2).1.fl h1
  have h3 := DInv_add (ev kv.1 kv.2).2 h2 hv
  unfold objStep
  dsimp only
  split
  · refine ⟨h1.1, ?_⟩
    dsimp only
    split
    · exact fragsClean_append h1.2 (fragsClean_single_free rfl)
    · exact h1.2
  · split
    · exact h2
    · split
      · refine ⟨h2.1, ?_⟩
        dsimp only
        split
        · exact fragsClean_append h2.2 (fragsClean_single_free (frags_ite_free (tryConvert_err_frags ‹_›) rfl))
        · exact h2.2
      · rename_i ks hks
        split
        · rename_i kf k hkf
          split
          · exact h3
          · rename_i hg
            split
            · refine ⟨h3.1, fragsClean_append h3.2 ?_⟩
              intro d hd f hf
              simp only [List.mem_singleton] at hd
              subst hd
              dsimp only at hf
              split at hf
              · cases hf
              · rename_i hm
                simp only [List.mem_singleton] at hf
                subst hf
                apply untainted_str
                -- the flags of the echoed key are those of the key value without the mark
                have e1 : kf = ks.fl.unmark := by
                  have := congrArg Val.fl hkf
                  simpa using this.symm
                have e2 : ks.fl = (ek kv.1 kv.2).1.fl := tryConvert_fl hks
                simp only [join_m, Bool.or_eq_true, not_or, Bool.not_eq_true] at hm
                cases hgk : (ek kv.1 kv.2).1.fl.g
                · rw [e1, unmark_g, e2, hgk]
                · rcases hkey with hkey | hkey
                  · exact absurd hkey hg
                  · rcases hkey hgk with hc | hc
                    · rw [h.1 hc] at hm; exact absurd hm.1 (by simp)
                    · rw [hc] at hm; exact absurd hm.2 (by simp)
            · exact h3
        · exact h2

theorem forObjectStep_DInv {cm : Fl} {st : ForSt} (g : Bool) (ek ev : Val → Val → Out)
    (ec : Option (Val → Val → Out)) (kv : Val × Val) (h : DInv cm st)
    (hk : fragsClean (ek kv.1 kv.2).2) (hv : fragsClean (ev kv.1 kv.2).2)
    (hc : ∀ c, ec = some c → fragsClean (c kv.1 kv.2).2)
    (hkey : g = true ∨ ((ek kv.1 kv.2).1.fl.g = true → cm.m = true ∨ (ek kv.1 kv.2).1.fl.m = true)) :
    DInv cm (forObjectStep g ek ev ec st kv) := by
  cases ec with
  | none => rw [forObjectStep_none]; exact objStep_DInv g ek ev kv h hk hv hkey
  | some c =>
    rw [forObjectStep_some]
    dsimp only
    have h1 := DInv_add (c kv.1 kv.2).2 h (hc c rfl)
    have h2 := DInv_join (c kv.1 kv.2).1.fl h1
    split
    · refine ⟨h1.1, ?_⟩
      dsimp only
      split
      · exact fragsClean_append h1.2 (fragsClean_single_free rfl)
      · exact h1.2
    · split
      · refine ⟨h2.1, ?_⟩
        dsimp only
        split
        · exact fragsClean_append h2.2 (fragsClean_single_free (frags_ite_free (tryConvert_err_frags ‹_›) rfl))
        · exact h2.2
      · split
        · exact h2
        · split
          · exact h2
          · exact objStep_DInv g ek ev kv h2 hk hv hkey

theorem forTupleFin_snd (st : ForSt) : (forTupleFin st).2 = st.diags := by
  unfold forTupleFin; split <;> rfl

theorem forObjectFin_snd (g : Bool) (st : ForSt) : (forObjectFin g st).2 = st.diags := by
  unfold forObjectFin; split <;> (try split) <;> rfl

theorem forOut_frags (co : Out) (probe : Option Out) (stepf : ForSt → Val × Val → ForSt) (fin : ForSt → Out)
    (hc : fragsClean co.2) (hp : ∀ po, probe = some po → fragsClean po.2)
    (hstep : ∀ els, elements co.1.unmark.1 = some els → ∀ st kv, kv ∈ els → DInv co.1.fl st →
      DInv co.1.fl (stepf st kv))
    (hfin : ∀ st, (fin st).2 = st.diags) :
    fragsClean (forOut co probe stepf fin).2 := by
  obtain ⟨cv, cd⟩ := co
  have hpd : fragsClean ((Option.map (fun x => x.1) (Option.map probeCond probe)).getD []) := by
    cases probe with
    | none => exact fragsClean_nil
    | some po => exact fragsClean_of_NoNew (probeCond_NoNew po) (hp po rfl)
  unfold forOut
  dsimp only
  split
  · exact fragsClean_append hc (fragsClean_single_free rfl)
  · split
    · exact hc
    · split
      · exact fragsClean_append hc (fragsClean_single_free rfl)
      · split
        · exact fragsClean_append hc hpd
        · split
          · exact fragsClean_append hc hpd
          · rename_i els hels
            rw [hfin]
            exact (fold_inv (DInv cv.fl) stepf els _ ⟨fun h => h, fragsClean_append hc hpd⟩ (hstep els hels)).2


/-! ### splat -/

theorem splatSrc_tw {sv : Val} (h : tw false sv = true) : tw false (splatSrc sv) = true := by
  unfold splatSrc
  split
  · unfold withFl
    rw [tw_setFl_iff]
    simp only [fl_tuple, none_join, Bool.false_or, twKids, twL, Bool.and_true, Bool.and_eq_true, Bool.or_eq_true,
      Bool.not_eq_true']
    constructor
    · cases hg : sv.fl.g
      · exact Or.inl rfl
      · exact Or.inr (tw_flOK h hg)
    · exact tw_mono (by intro h; cases h) h
  · exact h

theorem splatItems_tw {v : Val} {i : Bool} (h : tw i v = true) : ∀ it ∈ splatItems v, tw (i || v.fl.m) it = true := by
  intro it hit
  unfold splatItems at hit
  split at hit
  · rw [tw_list_iff, Bool.and_eq_true] at h
    exact twL_mem h.2 it hit
  · rw [tw_tuple_iff, Bool.and_eq_true] at h
    exact twL_mem h.2 it hit
  · cases hit

theorem splatFinish_tw (sv : Val) (sm : Fl) (rt : Ty × List Diag) (vals : List Val) (ds : List Diag) (hsm : flOK sm)
    (hv : sm.m = true ∨ ∀ v ∈ vals, tw false v = true) : tw false (splatFinish sv sm rt vals ds).1 = true := by
  unfold splatFinish
  repeat' (first | split | dsimp only)
  all_goals first
    | exact tw_dynVal _
    | exact tw_withFl_cover (i := sm.m) (tw_list_none hv) (fun h => h) hsm
    | exact tw_withFl_cover (i := sm.m) (tw_tuple_none hv) (fun h => h) hsm
    | exact tw_withFl_cover (i := sm.m) (tw_list_none (Or.inr (fun _ h => by cases h))) (fun h => h) hsm

theorem splatOut_tw (keep : Bool) (so : Out) (each : Val → Out) (hs : tw false so.1 = true)
    (heach : so.1.fl.m = true ∨ ∀ it ∈ splatItems (splatSrc so.1).unmark.1, tw false (each it).1 = true) :
    tw false (splatOut keep so each).1 = true := by
  obtain ⟨sv, sd⟩ := so
  have hsf := tw_flOK hs
  rw [splatOut_eq]
  repeat' (first | split | dsimp only)
  all_goals first
    | exact tw_dynVal _
    | exact tw_dyn_withFl hsf
    | exact tw_dyn_withFl (by rw [splatSrc_fl]; exact hsf)
    | exact tw_withFl (tw_unk_of flOK_none _) (by rw [splatSrc_fl]; exact hsf)
    | exact tw_withFl (tw_tuple_none (Or.inr (fun _ h => by cases h))) hsf
    | skip
  all_goals
    refine splatFinish_tw _ _ _ _ _ (by rw [splatSrc_fl]; exact hsf) ?_
    rw [splatSrc_fl]
    rcases heach with h | h
    · exact Or.inl h
    · refine Or.inr ?_
      intro v hv
      simp only [List.map_map, List.mem_map, Function.comp] at hv
      obtain ⟨it, hit, rfl⟩ := hv
      exact h it hit

theorem fragsClean_flatMap {α : Type} (xs : List α) (f : α → List Diag) (h : ∀ x ∈ xs, fragsClean (f x)) :
    fragsClean (xs.flatMap f) := by
  intro d hd
  obtain ⟨x, hx, hdx⟩ := List.mem_flatMap.mp hd
  exact h x hx d hdx

theorem splatResultTy_frags (each : Val → Out) (sv : Val) (heach : ∀ it, fragsClean (each it).2) :
    fragsClean (splatResultTy each sv).2 := by
  unfold splatResultTy
  dsimp only
  split
  · exact heach _
  · apply fragsClean_flatMap
    intro x hx
    obtain ⟨t, _, rfl⟩ := List.mem_map.mp hx
    exact heach _
  · exact fragsClean_nil

theorem splatFinish_frags (sv : Val) (sm : Fl) (rt : Ty × List Diag) (vals : List Val) (ds : List Diag)
    (hds : fragsClean ds) (hrt : fragsClean rt.2) : fragsClean (splatFinish sv sm rt vals ds).2 := by
  unfold splatFinish
  repeat' (first | split | dsimp only)
  all_goals first
    | exact hds
    | exact fragsClean_append hds hrt
    | exact fragsClean_free (frags_unsupportedOut _)

theorem splatOut_frags (keep : Bool) (so : Out) (each : Val → Out) (hs : fragsClean so.2)
    (heach : ∀ it, fragsClean (each it).2) : fragsClean (splatOut keep so each).2 := by
  obtain ⟨sv, sd⟩ := so
  have hrt := splatResultTy_frags each (splatSrc sv) heach
  have hrs : fragsClean (sd ++ ((splatItems (splatSrc sv).unmark.1).map each).flatMap (·.2)) := by
    refine fragsClean_append hs (fragsClean_flatMap _ _ ?_)
    intro x hx
    obtain ⟨it, _, rfl⟩ := List.mem_map.mp hx
    exact heach it
  rw [splatOut_eq]
  repeat' (first | split | dsimp only)
  all_goals first
    | exact hs
    | exact fragsClean_append hs (fragsClean_single_free rfl)
    | exact fragsClean_append hs hrt
    | exact hrs
    | exact fragsClean_append hrs hrt
    | exact splatFinish_frags _ _ _ _ _ hrs hrt


end HclModel.Proofs
