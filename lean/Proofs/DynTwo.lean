import Proofs.DynVars
/-!
Two steps = one step for expanded bodies (`XBody.partialContent` with `s₁`, then `XBody.content` of the
remaining body with a disjoint `s₂`, against one `XBody.content` with the union).
-/
namespace HclModel.Dyn.Proofs
open HclModel HclModel.Body HclModel.Dyn HclModel.Body.Proofs

/-! ## attributes of a level, with the `unknownBody` wrapper -/

/-- `unknownBody.fixupAttrs` on one attribute -/
def fixA : Option Fl → String × XAttr → String × XAttr
  | none, p => p
  | some um, p => (p.1, { p.2 with unknown := true, marks := um })

theorem fixA_none : fixA none = id := by funext p; rfl

theorem contentCore_attrs_gen (ev : Env → Expr → Out) (ρf : Env) (b : XBody) (s : Schema) (pm : Bool)
    (hnd : ((s.attrs.map (·.name)) ++ b.hiddenAttrs).Nodup) :
    (b.contentCore ev ρf s pm).1.attrs =
      (s.attrs.filterMap (fun as => (findAttr as.name b.src.attrs).map fun e =>
        (as.name, ({ expr := e, its := b.its, marks := b.marks } : XAttr)))).map (fixA b.unknown) := by
  cases hu : b.unknown with
  | none =>
    rw [contentCore_attrs ev ρf b s pm hu hnd, fixA_none, List.map_id]
  | some um =>
    rw [contentCore_unknown' ev ρf b um s pm hu]
    simp only [fixupUnknown]
    rw [contentCore_attrs ev ρf { b with unknown := none } s pm rfl hnd]
    rfl

/-! ## one source block under `s₁`, under `s₂` with `s₁` hidden, and under the union -/

/-- the type of the blocks a source block stands for -/
def SBlock.ty : SBlock → String
  | .static t _ _ => t
  | .dyn t _ _ _ _ => t

theorem xSeg_type (ev : Env → Expr → Out) (ρf : Env) (its : Iters) (hB : List BlockSchema) (s : Schema)
    (blk : SBlock) (xb : XBlock) (h : xb ∈ xSeg ev ρf its hB s blk) : xb.type = SBlock.ty blk := by
  cases blk with
  | static t ls body =>
    simp only [xSeg] at h
    split at h
    · simp at h
    · split at h
      · split at h
        · simp only [List.mem_singleton] at h
          subst h; rfl
        · simp at h
      · simp at h
  | dyn t fe itn labels content =>
    simp only [xSeg] at h
    split at h
    · simp at h
    · split at h
      · simp at h
      · exact (expandDyn_mem _ _ _ _ _ _ _ _ _ _ h).1

theorem any_type_iff (l : List BlockSchema) (t : String) :
    l.any (·.type == t) = true ↔ ∃ bs ∈ l, bs.type = t := by
  simp [List.any_eq_true]

theorem find?_none_of_not_mem (l : List BlockSchema) (t : String) (h : ¬ ∃ bs ∈ l, bs.type = t) :
    l.find? (·.type == t) = none := by
  rw [List.find?_eq_none]
  intro x hx
  simp only [beq_iff_eq]
  intro e
  exact h ⟨x, hx, e⟩

theorem find?_isSome_of_mem (l : List BlockSchema) (t : String) (h : ∃ bs ∈ l, bs.type = t) :
    ∃ bs, l.find? (·.type == t) = some bs := by
  cases hf : l.find? (·.type == t) with
  | some bs => exact ⟨bs, rfl⟩
  | none =>
    rw [List.find?_eq_none] at hf
    obtain ⟨bs, hbs, e⟩ := h
    exact absurd (by simpa using e) (hf bs hbs)

section seg
variable (ev : Env → Expr → Out) (ρf : Env) (its : Iters) (s₁ s₂ : Schema) (hd : s₁.disjoint s₂)
include hd

/-- a block of a type that `s₁` names is handled by the first step -/
theorem xSeg_left (blk : SBlock) (h : ∃ bs ∈ s₁.blocks, bs.type = SBlock.ty blk) :
    xSeg ev ρf its [] (s₁.union s₂) blk = xSeg ev ρf its [] s₁ blk ∧
    xSeg ev ρf its s₁.blocks s₂ blk = [] := by
  have hany := (any_type_iff s₁.blocks (SBlock.ty blk)).2 h
  cases blk with
  | static t ls body =>
    simp only [SBlock.ty] at h hany
    constructor
    · simp only [xSeg, wanted_union_left hd h]
    · simp only [xSeg, hany, if_true]
  | dyn t fe itn labels content =>
    simp only [SBlock.ty] at h hany
    constructor
    · obtain ⟨bs, hbs⟩ := find?_isSome_of_mem s₁.blocks t h
      simp only [xSeg, Schema.union, List.find?_append, hbs, Option.some_or]
    · simp only [xSeg, hany, if_true]

omit hd in
/-- a block of a type that `s₁` does not name is handled by the second step -/
theorem xSeg_right (blk : SBlock) (h : ¬ ∃ bs ∈ s₁.blocks, bs.type = SBlock.ty blk) :
    xSeg ev ρf its [] (s₁.union s₂) blk = xSeg ev ρf its s₁.blocks s₂ blk ∧
    xSeg ev ρf its [] s₁ blk = [] := by
  have hany : ¬ (s₁.blocks.any (·.type == SBlock.ty blk) = true) := fun e => h ((any_type_iff _ _).1 e)
  cases blk with
  | static t ls body =>
    simp only [SBlock.ty] at h hany
    have hw : wanted s₁ t = none := by
      rw [wanted_eq_none_iff]; intro bs hbs e; exact h ⟨bs, hbs, e⟩
    constructor
    · simp only [xSeg, wanted_union_right h, hany, if_false, List.any_nil, Bool.false_eq_true]
    · simp only [xSeg, hw, List.any_nil, Bool.false_eq_true, if_false]
  | dyn t fe itn labels content =>
    simp only [SBlock.ty] at h hany
    have hf := find?_none_of_not_mem s₁.blocks t h
    constructor
    · simp only [xSeg, Schema.union, List.find?_append, hf, Option.none_or, hany, if_false, List.any_nil,
        Bool.false_eq_true]
    · simp only [xSeg, hf, List.any_nil, Bool.false_eq_true, if_false]

/-- per block type, the blocks of all source blocks -/
theorem segs_two_step (blocks : List SBlock) (ty : String) :
    (blocks.flatMap (xSeg ev ρf its [] (s₁.union s₂))).filter (·.type == ty) =
      (blocks.flatMap (xSeg ev ρf its [] s₁)).filter (·.type == ty) ++
      (blocks.flatMap (xSeg ev ρf its s₁.blocks s₂)).filter (·.type == ty) := by
  have hnil : ∀ (hB : List BlockSchema) (s : Schema) (blk : SBlock), SBlock.ty blk ≠ ty →
      (xSeg ev ρf its hB s blk).filter (·.type == ty) = [] := by
    intro hB s blk hne
    rw [List.filter_eq_nil_iff]
    intro xb hxb
    rw [xSeg_type ev ρf its hB s blk xb hxb]
    simpa using hne
  simp only [List.filter_flatMap]
  by_cases hty : ∃ bs ∈ s₁.blocks, bs.type = ty
  · have e2 : blocks.flatMap (fun a => (xSeg ev ρf its s₁.blocks s₂ a).filter (·.type == ty)) = [] := by
      rw [List.flatMap_eq_nil_iff]
      intro blk _
      by_cases hb : SBlock.ty blk = ty
      · rw [(xSeg_left ev ρf its s₁ s₂ hd blk (hb ▸ hty)).2]; rfl
      · exact hnil _ _ blk hb
    rw [e2, List.append_nil]
    apply flatMap_congr'
    intro blk _
    by_cases hb : SBlock.ty blk = ty
    · rw [(xSeg_left ev ρf its s₁ s₂ hd blk (hb ▸ hty)).1]
    · rw [hnil _ _ blk hb, hnil _ _ blk hb]
  · have e1 : blocks.flatMap (fun a => (xSeg ev ρf its [] s₁ a).filter (·.type == ty)) = [] := by
      rw [List.flatMap_eq_nil_iff]
      intro blk _
      by_cases hb : SBlock.ty blk = ty
      · rw [(xSeg_right ev ρf its s₁ s₂ blk (hb ▸ hty)).2]; rfl
      · exact hnil _ _ blk hb
    rw [e1, List.nil_append]
    apply flatMap_congr'
    intro blk _
    by_cases hb : SBlock.ty blk = ty
    · rw [(xSeg_right ev ρf its s₁ s₂ blk (hb ▸ hty)).1]
    · rw [hnil _ _ blk hb, hnil _ _ blk hb]

end seg

theorem filter_type_map_fixB (u : Option Fl) (ty : String) (l : List XBlock) :
    (l.map (fixB u)).filter (·.type == ty) = (l.filter (·.type == ty)).map (fixB u) := by
  rw [List.filter_map]
  congr 1
  apply List.filter_congr
  intro xb _
  cases u <;> rfl

/-! ## the theorem -/

/-- the exact form: the same attributes, and per block type the same blocks -/
theorem expand_two_step_exact (ev : Env → Expr → Out) (ρf : Env) (b : XBody) (s₁ s₂ : Schema)
    (hb : b.src.ok = true) (hh : b.hiddenAttrs = [] ∧ b.hiddenBlocks = [])
    (h₁ : s₁.nodup) (h₂ : s₂.nodup) (hd : s₁.disjoint s₂)
    (hdyn : ∀ bs ∈ s₁.blocks ++ s₂.blocks, bs.type ≠ "dynamic") :
    (b.content ev ρf (s₁.union s₂)).1.attrs =
      (b.partialContent ev ρf s₁).1.attrs ++ ((b.partialContent ev ρf s₁).2.1.content ev ρf s₂).1.attrs ∧
    ∀ ty, (b.content ev ρf (s₁.union s₂)).1.blocks.filter (·.type == ty) =
      ((b.partialContent ev ρf s₁).1.blocks ++ ((b.partialContent ev ρf s₁).2.1.content ev ρf s₂).1.blocks).filter
        (·.type == ty) := by
  obtain ⟨src, its, marks, unknown, hA, hB⟩ := b
  simp only at hh hb
  obtain ⟨rfl, rfl⟩ := hh
  have hsok := staticOk_of_okAll (SBody.ok_blocks hb)
  -- the union schema names each attribute once
  have hU : ((s₁.union s₂).attrs.map (·.name)).Nodup := by
    simp only [Schema.union, List.map_append]
    rw [List.nodup_append]
    refine ⟨h₁.1, h₂.1, ?_⟩
    intro x hx y hy
    simp only [List.mem_map] at hx hy
    obtain ⟨a, ha, rfl⟩ := hx
    obtain ⟨a', ha', rfl⟩ := hy
    exact hd.1 a ha a' ha'
  have h21 : (s₂.attrs.map (fun a => a.name) ++ (([] : List String) ++ s₁.attrs.map (fun a => a.name))).Nodup := by
    rw [List.nil_append, List.nodup_append]
    refine ⟨h₂.1, h₁.1, ?_⟩
    intro x hx y hy
    simp only [List.mem_map] at hx hy
    obtain ⟨a, ha, rfl⟩ := hx
    obtain ⟨a', ha', rfl⟩ := hy
    exact fun e => hd.1 a' ha' a ha e.symm
  simp only [XBody.content, XBody.partialContent]
  constructor
  · rw [contentCore_attrs_gen ev ρf _ (s₁.union s₂) false (by simpa using hU),
      contentCore_attrs_gen ev ρf _ s₁ true (by simpa using h₁.1),
      contentCore_attrs_gen ev ρf _ s₂ false h21]
    simp only [Schema.union, List.filterMap_append, List.map_append]
  · intro ty
    rw [contentCore_blocks_gen ev ρf _ (s₁.union s₂) false (by simp) hsok,
      contentCore_blocks_gen ev ρf _ s₁ true (by simp) hsok,
      contentCore_blocks_gen ev ρf _ s₂ false
        (by intro bs hbs; exact hdyn bs (by simpa using Or.inl hbs)) hsok]
    simp only [List.nil_append, List.filter_append, filter_type_map_fixB]
    rw [segs_two_step ev ρf its s₁ s₂ hd, List.map_append]

/-- the form stated in `Props/C18.lean`: what a consumer can observe of the attributes and blocks -/
theorem expand_two_step (ev : Env → Expr → Out) (ρf : Env) (b : XBody) (s₁ s₂ : Schema)
    (hb : b.src.ok = true) (hh : b.hiddenAttrs = [] ∧ b.hiddenBlocks = [])
    (h₁ : s₁.nodup) (h₂ : s₂.nodup) (hd : s₁.disjoint s₂)
    (hdyn : ∀ bs ∈ s₁.blocks ++ s₂.blocks, bs.type ≠ "dynamic") :
    let p := b.partialContent ev ρf s₁
    let c₂ := (p.2.1.content ev ρf s₂).1
    let c := (b.content ev ρf (s₁.union s₂)).1
    c.attrs.map (fun a => (a.1, a.2.expr, a.2.its, a.2.marks, a.2.unknown)) =
      (p.1.attrs ++ c₂.attrs).map (fun a => (a.1, a.2.expr, a.2.its, a.2.marks, a.2.unknown)) ∧
    (∀ ty, (c.blocks.filter (·.type == ty)).map (fun x => (x.labels, x.body.its, x.body.marks, x.body.unknown)) =
      ((p.1.blocks ++ c₂.blocks).filter (·.type == ty)).map (fun x => (x.labels, x.body.its, x.body.marks, x.body.unknown))) := by
  intro p c₂ c
  obtain ⟨ha, hbk⟩ := expand_two_step_exact ev ρf b s₁ s₂ hb hh h₁ h₂ hd hdyn
  exact ⟨congrArg _ ha, fun ty => congrArg _ (hbk ty)⟩

end HclModel.Dyn.Proofs
