import HclModel.Expr.Static
import Proofs.FreeVars
/-!
C20 (static analysis): an expression that is statically a traversal evaluates to what the traversal yields
when applied to the scope — up to one extra diagnostic for a null literal key applied after a failed step.
-/
namespace HclModel

/-- no index step of the traversal has a null literal key -/
def Trav.noNullKeys (t : Trav) : Bool :=
  t.steps.all fun s => match s with | .index k => !k.isNull | .attr _ => true

namespace Proofs

theorem hasErrors_false_iff (ds : List Diag) : hasErrors ds = false ↔ ds = [] := by
  cases ds <;> simp [hasErrors]

theorem hasErrors_append_left (ds ds' : List Diag) (h : hasErrors ds = true) : hasErrors (ds ++ ds') = true := by
  cases ds <;> simp_all [hasErrors]

/-- one traversal step -/
def stepOut (kk : Bool) (v : Val) : Step → Out
  | .attr n => getAttr v n
  | .index k => index kk v k

/-- a failing step yields `cty.DynamicVal` -/
def Good (o : Out) : Prop := hasErrors o.2 = true → o.1 = Val.dynVal

theorem good_errOut (s : String) (fr : List Val) : Good (errOut s fr) := fun _ => rfl
theorem good_nil (v : Val) : Good (v, []) := fun h => by simp [hasErrors] at h
theorem good_dyn (ds : List Diag) : Good (Val.dynVal, ds) := fun _ => rfl

theorem getAttr_good (v : Val) (n : String) : Good (getAttr v n) := by
  unfold getAttr
  repeat (first | apply good_errOut | apply good_nil | apply good_dyn | split | dsimp only)

theorem index_good (kk : Bool) (c k : Val) : Good (index kk c k) := by
  unfold index
  repeat (first | apply good_errOut | apply good_nil | apply good_dyn | split | dsimp only)

theorem getAttr_err (v : Val) (n : String) (h : hasErrors (getAttr v n).2 = true) :
    (getAttr v n).1 = Val.dynVal := getAttr_good v n h

theorem index_err (kk : Bool) (c k : Val) (h : hasErrors (index kk c k).2 = true) :
    (index kk c k).1 = Val.dynVal := index_good kk c k h

theorem stepOut_err (kk : Bool) (v : Val) (s : Step) (h : hasErrors (stepOut kk v s).2 = true) :
    (stepOut kk v s).1 = Val.dynVal := by
  cases s with
  | attr n => exact getAttr_err v n h
  | index k => exact index_err kk v k h

theorem dynVal_isNull : Val.dynVal.isNull = false := rfl
theorem dynVal_typeOf_dyn : (Val.dynVal.typeOf == Ty.dyn) = true := rfl
theorem dynVal_withFl : Val.dynVal.withFl Val.dynVal.fl = Val.dynVal := rfl

theorem index_dyn (kk : Bool) (k : Val) (hk : k.isNull = false) : index kk Val.dynVal k = (Val.dynVal, []) := by
  unfold index
  simp [dynVal_isNull, dynVal_typeOf_dyn, dynVal_withFl, hk]

theorem index_dyn_val (kk : Bool) (k : Val) : (index kk Val.dynVal k).1 = Val.dynVal := by
  cases hk : k.isNull
  · rw [index_dyn kk k hk]
  · unfold index
    simp [dynVal_isNull, hk, errOut]

/-! ### `traverseRel` one step at a time -/

theorem traverseRel_cons_aux (kk : Bool) (steps : List Step) (X : Out) (hg : Good X) :
    (if hasErrors X.2 = true then (Val.dynVal, X.2) else traverseRel kk X.1 X.2 steps) =
      if hasErrors X.2 = true then X else traverseRel kk X.1 [] steps := by
  by_cases h : hasErrors X.2 = true
  · simp only [h, if_true]
    exact Prod.ext (hg h).symm rfl
  · have : X.2 = [] := (hasErrors_false_iff _).1 (by simpa using h)
    simp [this, hasErrors]

theorem traverseRel_cons (kk : Bool) (v : Val) (s : Step) (steps : List Step) :
    traverseRel kk v [] (s :: steps) =
      if hasErrors (stepOut kk v s).2 then stepOut kk v s else traverseRel kk (stepOut kk v s).1 [] steps := by
  cases s with
  | attr n =>
    simp only [traverseRel, stepOut, List.nil_append]
    exact traverseRel_cons_aux kk steps _ (getAttr_good v n)
  | index k =>
    simp only [traverseRel, stepOut, List.nil_append]
    exact traverseRel_cons_aux kk steps _ (index_good kk v k)

theorem traverseRel_good (kk : Bool) : ∀ (steps : List Step) (v : Val),
    hasErrors (traverseRel kk v [] steps).2 = true → (traverseRel kk v [] steps).1 = Val.dynVal
  | [], v, h => by simp [traverseRel, hasErrors] at h
  | s :: steps, v, h => by
    rw [traverseRel_cons] at h ⊢
    by_cases hs : hasErrors (stepOut kk v s).2 = true
    · simp only [hs, if_true] at h ⊢
      exact stepOut_err kk v s hs
    · simp only [hs] at h ⊢
      exact traverseRel_good kk steps _ h

theorem traverseRel_snoc (kk : Bool) (s : Step) : ∀ (steps : List Step) (v : Val),
    traverseRel kk v [] (steps ++ [s]) =
      if hasErrors (traverseRel kk v [] steps).2 then traverseRel kk v [] steps
      else stepOut kk (traverseRel kk v [] steps).1 s
  | [], v => by
    rw [List.nil_append, traverseRel_cons]
    have h0 : traverseRel kk v [] [] = (v, []) := by simp [traverseRel]
    have h1 : hasErrors ([] : List Diag) = false := rfl
    rw [h0]
    simp only [h1, Bool.false_eq_true, if_false]
    by_cases hs : hasErrors (stepOut kk v s).2 = true
    · simp only [hs, if_true]
    · have : (stepOut kk v s).2 = [] := (hasErrors_false_iff _).1 (by simpa using hs)
      simp only [hs, Bool.false_eq_true, if_false]
      exact Prod.ext rfl this.symm
  | s0 :: steps, v => by
    rw [List.cons_append, traverseRel_cons, traverseRel_cons]
    by_cases hs : hasErrors (stepOut kk v s0).2 = true
    · simp [hs]
    · simp only [hs]
      exact traverseRel_snoc kk s steps _

/-- `traverseAbs` with the traversal taken apart -/
def travOut (F : Cx) (ρ : Env) (root : String) (steps : List Step) : Out :=
  match ρ.lookup root with
  | none => errOut "Unknown variable"
  | some v => traverseRel F.keepKeyMarks v [] steps

theorem travOut_good (F : Cx) (ρ : Env) (root : String) (steps : List Step)
    (h : hasErrors (travOut F ρ root steps).2 = true) : (travOut F ρ root steps).1 = Val.dynVal := by
  unfold travOut at h ⊢
  cases hl : ρ.lookup root with
  | none => simp [errOut]
  | some v => simp only [hl] at h ⊢; exact traverseRel_good _ steps v h

theorem travOut_snoc (F : Cx) (ρ : Env) (root : String) (steps : List Step) (s : Step) :
    travOut F ρ root (steps ++ [s]) =
      if hasErrors (travOut F ρ root steps).2 then travOut F ρ root steps
      else stepOut F.keepKeyMarks (travOut F ρ root steps).1 s := by
  unfold travOut
  cases hl : ρ.lookup root with
  | none => simp [errOut, hasErrors]
  | some v => simp only []; exact traverseRel_snoc _ s steps v

/-! ### one step of `eval` on the traversal shapes -/

private theorem eval_var (F : Cx) (ρ : Env) (x : String) :
    eval F ρ (.var x) = travOut F ρ x [] := by
  rw [eval_unfold]; unfold eval._sunfold travOut
  simp only []
  cases hl : ρ.lookup x <;> simp [traverseRel]

private theorem eval_getAttr (F : Cx) (ρ : Env) (e : Expr) (n : String) :
    eval F ρ (.getAttr e n) =
      if hasErrors (eval F ρ e).2 then (Val.dynVal, (eval F ρ e).2)
      else ((getAttr (eval F ρ e).1 n).1, (eval F ρ e).2 ++ (getAttr (eval F ρ e).1 n).2) := by
  rw [eval_unfold]; unfold eval._sunfold; rfl

private theorem eval_index_lit (F : Cx) (ρ : Env) (e : Expr) (k : Val) :
    eval F ρ (.index e (.lit k)) =
      ((index F.keepKeyMarks (eval F ρ e).1 k).1, (eval F ρ e).2 ++ (index F.keepKeyMarks (eval F ρ e).1 k).2) := by
  rw [eval_unfold]; unfold eval._sunfold
  have : eval F ρ (.lit k) = (k, []) := rfl
  simp [this]

/-! ### the correspondence -/

def nnSteps (steps : List Step) : Bool :=
  steps.all fun s => match s with | .index k => !k.isNull | .attr _ => true

/-- what holds between evaluation (`A`) and traversal (`T`): same value, same error presence, and the same
    diagnostics when no null literal key occurs (`nn`) -/
structure Agree (A T : Out) (nn : Bool) : Prop where
  val : A.1 = T.1
  err : hasErrors A.2 = hasErrors T.2
  exact : nn = true → A.2 = T.2

theorem agree_ok {A T : Out} {b : Bool} (ih : Agree A T b) (hT : ¬ hasErrors T.2 = true) :
    A = T ∧ T.2 = [] := by
  have hT' : T.2 = [] := (hasErrors_false_iff _).1 (by simpa using hT)
  have hA' : A.2 = [] := (hasErrors_false_iff _).1 (by rw [ih.err]; simpa using hT)
  exact ⟨Prod.ext ih.val (hA'.trans hT'.symm), hT'⟩

theorem step_attr (A T : Out) (b b' : Bool) (hb : b' = true → b = true) (hg : Good T) (ih : Agree A T b)
    (n : String) :
    Agree (if hasErrors A.2 then (Val.dynVal, A.2) else ((getAttr A.1 n).1, A.2 ++ (getAttr A.1 n).2))
      (if hasErrors T.2 then T else getAttr T.1 n) b' := by
  by_cases hT : hasErrors T.2 = true
  · have hA : hasErrors A.2 = true := by rw [ih.err]; exact hT
    simp only [hA, hT, if_true]
    exact ⟨(hg hT).symm, ih.err, fun h => ih.exact (hb h)⟩
  · obtain ⟨hAT, hT2⟩ := agree_ok ih hT
    subst hAT
    simp only [hT2, List.nil_append]
    exact ⟨rfl, rfl, fun _ => rfl⟩

theorem step_index (kk : Bool) (A T : Out) (b b' : Bool) (k : Val)
    (hb : b' = true → b = true ∧ k.isNull = false) (hg : Good T) (ih : Agree A T b) :
    Agree ((index kk A.1 k).1, A.2 ++ (index kk A.1 k).2)
      (if hasErrors T.2 then T else index kk T.1 k) b' := by
  by_cases hT : hasErrors T.2 = true
  · have hA : hasErrors A.2 = true := by rw [ih.err]; exact hT
    have hv : A.1 = Val.dynVal := ih.val.trans (hg hT)
    simp only [hT, if_true, hv]
    refine ⟨(index_dyn_val kk k).trans (hg hT).symm, ?_, ?_⟩
    · rw [hasErrors_append_left _ _ hA, hT]
    · intro h
      obtain ⟨h1, h2⟩ := hb h
      rw [index_dyn kk k h2, List.append_nil]
      exact ih.exact h1
  · obtain ⟨hAT, hT2⟩ := agree_ok ih hT
    subst hAT
    simp only [hT2, List.nil_append]
    exact ⟨rfl, rfl, fun _ => rfl⟩

theorem nnSteps_snoc (steps : List Step) (s : Step) :
    nnSteps (steps ++ [s]) = (nnSteps steps && match s with | .index k => !k.isNull | .attr _ => true) := by
  simp [nnSteps, List.all_append]

theorem trav_core (F : Cx) (ρ : Env) : ∀ (e : Expr) (root : String) (steps : List Step),
    asTraversal e = some ⟨root, steps⟩ → Agree (eval F ρ e) (travOut F ρ root steps) (nnSteps steps)
  | .var x, root, steps, h => by
    simp only [asTraversal, Option.some.injEq, Trav.mk.injEq] at h
    obtain ⟨rfl, rfl⟩ := h
    rw [eval_var]
    exact ⟨rfl, rfl, fun _ => rfl⟩
  | .getAttr e n, root, steps, h => by
    simp only [asTraversal, Option.map_eq_some_iff, Trav.mk.injEq] at h
    obtain ⟨⟨r0, st0⟩, h0, rfl, rfl⟩ := h
    have ih := trav_core F ρ e r0 st0 h0
    rw [eval_getAttr, travOut_snoc]
    exact step_attr _ _ _ _ (by rw [nnSteps_snoc]; simp) (travOut_good F ρ r0 st0) ih n
  | .index e (.lit k), root, steps, h => by
    simp only [asTraversal, Option.map_eq_some_iff, Trav.mk.injEq] at h
    obtain ⟨⟨r0, st0⟩, h0, rfl, rfl⟩ := h
    have ih := trav_core F ρ e r0 st0 h0
    rw [eval_index_lit, travOut_snoc]
    exact step_index _ _ _ _ _ k (by rw [nnSteps_snoc]; simp) (travOut_good F ρ r0 st0) ih
  | .lit _, _, _, h => by simp [asTraversal] at h
  | .index _ (.var _), _, _, h => by simp [asTraversal] at h
  | .index _ (.getAttr _ _), _, _, h => by simp [asTraversal] at h
  | .index _ (.index _ _), _, _, h => by simp [asTraversal] at h
  | .index _ (.bin _ _ _), _, _, h => by simp [asTraversal] at h
  | .index _ (.un _ _), _, _, h => by simp [asTraversal] at h
  | .index _ (.cond _ _ _), _, _, h => by simp [asTraversal] at h
  | .index _ (.tuple _), _, _, h => by simp [asTraversal] at h
  | .index _ (.object _), _, _, h => by simp [asTraversal] at h
  | .index _ (.forTuple _ _ _ _ _), _, _, h => by simp [asTraversal] at h
  | .index _ (.forObject _ _ _ _ _ _ _), _, _, h => by simp [asTraversal] at h
  | .index _ (.splat _ _ _), _, _, h => by simp [asTraversal] at h
  | .index _ (.template _), _, _, h => by simp [asTraversal] at h
  | .index _ (.tjoin _), _, _, h => by simp [asTraversal] at h
  | .index _ (.call _ _ _), _, _, h => by simp [asTraversal] at h
  | .bin _ _ _, _, _, h => by simp [asTraversal] at h
  | .un _ _, _, _, h => by simp [asTraversal] at h
  | .cond _ _ _, _, _, h => by simp [asTraversal] at h
  | .tuple _, _, _, h => by simp [asTraversal] at h
  | .object _, _, _, h => by simp [asTraversal] at h
  | .forTuple _ _ _ _ _, _, _, h => by simp [asTraversal] at h
  | .forObject _ _ _ _ _ _ _, _, _, h => by simp [asTraversal] at h
  | .splat _ _ _, _, _, h => by simp [asTraversal] at h
  | .template _, _, _, h => by simp [asTraversal] at h
  | .tjoin _, _, _, h => by simp [asTraversal] at h
  | .call _ _ _, _, _, h => by simp [asTraversal] at h

theorem traverseAbs_eq (F : Cx) (ρ : Env) (t : Trav) : traverseAbs F ρ t = travOut F ρ t.root t.steps := rfl

/-- value and error presence always agree -/
theorem traversal_agrees (F : Cx) (e : Expr) (t : Trav) (h : asTraversal e = some t) (ρ : Env) :
    (eval F ρ e).1 = (traverseAbs F ρ t).1 ∧
      hasErrors (eval F ρ e).2 = hasErrors (traverseAbs F ρ t).2 := by
  have := trav_core F ρ e t.root t.steps h
  exact ⟨this.val, this.err⟩

/-- without null literal keys, the diagnostics agree as well -/
theorem traversal_agrees_exact (F : Cx) (e : Expr) (t : Trav) (h : asTraversal e = some t)
    (hn : t.noNullKeys = true) (ρ : Env) : eval F ρ e = traverseAbs F ρ t := by
  have := trav_core F ρ e t.root t.steps h
  exact Prod.ext this.val (this.exact hn)

/-- without errors, they agree as well -/
theorem traversal_agrees_ok (F : Cx) (e : Expr) (t : Trav) (h : asTraversal e = some t) (ρ : Env)
    (hok : hasErrors (traverseAbs F ρ t).2 = false) : eval F ρ e = traverseAbs F ρ t := by
  have := trav_core F ρ e t.root t.steps h
  exact (agree_ok this (by rw [← traverseAbs_eq]; simp [hok])).1

/-- The diagnostics can differ: `x.missing[null]` where `x` is an object without `missing`.  The traversal
    stops at the failing attribute step; evaluation goes on to `hcl.Index` with the null key, which reports
    a second error. -/
theorem traversal_diags_differ :
    let F : Cx := { funcs := fun _ => none }
    let ρ : Env := [("x", .object Fl.none [])]
    let e : Expr := .index (.getAttr (.var "x") "missing") (.lit (.null Fl.none .dyn))
    let t : Trav := ⟨"x", [.attr "missing", .index (.null Fl.none .dyn)]⟩
    asTraversal e = some t ∧ (eval F ρ e).2.length = 2 ∧ (traverseAbs F ρ t).2.length = 1 := by
  refine ⟨rfl, ?_, ?_⟩ <;> decide

theorem static_list_parts (F : Cx) (e : Expr) (es : List Expr) (h : exprList e = some es) (ρ : Env) :
    eval F ρ e = (.tuple Fl.none (evalList F ρ es).1, (evalList F ρ es).2) := by
  cases e <;> simp [exprList] at h
  subst h
  rw [eval_unfold]; unfold eval._sunfold; rfl

end Proofs
end HclModel
