import HclModel.Body.Merged
import Proofs.BodyNative
/-!
Proofs about `HclModel/Body/Merged.lean` (`mergedContent`), used by `Props/C04.lean`.
-/
namespace HclModel.Body.Proofs
open HclModel.Body
variable {α β : Type}

/-! ## `findAttr` -/

theorem findAttr_append (n : String) (l₁ l₂ : List (String × α)) :
    findAttr n (l₁ ++ l₂) = (findAttr n l₁).or (findAttr n l₂) := by
  induction l₁ with
  | nil => simp [findAttr]
  | cons p l ih =>
    obtain ⟨m, a⟩ := p
    by_cases h : m = n
    · simp [findAttr, h]
    · simp [findAttr, h, ih]

theorem findAttr_eq_none_iff (n : String) (l : List (String × α)) :
    findAttr n l = none ↔ ∀ p ∈ l, p.1 ≠ n := by
  induction l with
  | nil => simp [findAttr]
  | cons p l ih =>
    obtain ⟨m, a⟩ := p
    by_cases h : m = n
    · simp [findAttr, h]
    · simp [findAttr, h, ih]

theorem findAttr_mem {n : String} {l : List (String × α)} {a : α} (h : findAttr n l = some a) : (n, a) ∈ l := by
  induction l with
  | nil => simp [findAttr] at h
  | cons p l ih =>
    obtain ⟨m, a'⟩ := p
    by_cases hm : m = n
    · simp [findAttr, hm] at h; simp [hm, h]
    · simp [findAttr, hm] at h; simp [ih h]

theorem findAttr_flatMap_none {γ : Type} (n : String) (f : γ → List (String × α)) (l : List γ) :
    findAttr n (l.flatMap f) = none ↔ ∀ x ∈ l, findAttr n (f x) = none := by
  induction l with
  | nil => simp [findAttr]
  | cons x l ih => simp [List.flatMap_cons, findAttr_append, ih]

/-- pointwise restriction carries over to concatenations -/
theorem findAttr_flatMap_congr {γ : Type} (n : String) (f g : γ → List (String × α)) (l : List γ)
    (h : ∀ x ∈ l, findAttr n (f x) = findAttr n (g x)) :
    findAttr n (l.flatMap f) = findAttr n (l.flatMap g) := by
  induction l with
  | nil => rfl
  | cons x l ih =>
    simp only [List.flatMap_cons, findAttr_append]
    rw [h x (by simp), ih (fun y hy => h y (by simp [hy]))]

/-! ## the relaxed schema -/

theorem relax_blocks (s : Schema) : s.relax.blocks = s.blocks := rfl

theorem relax_names (s : Schema) : s.relax.attrs.map (·.name) = s.attrs.map (·.name) := by
  simp [Schema.relax, Function.comp_def]

theorem relax_nodup {s : Schema} (h : s.nodup) : s.relax.nodup := by
  unfold Schema.nodup at *
  rw [relax_names, relax_blocks]; exact h

theorem mem_relax_attrs (s : Schema) (as : AttrSchema) :
    as ∈ s.relax.attrs ↔ as.required = false ∧ ∃ as' ∈ s.attrs, as'.name = as.name := by
  simp only [Schema.relax, List.mem_map]
  constructor
  · rintro ⟨as', h, rfl⟩; exact ⟨rfl, as', h, rfl⟩
  · rintro ⟨hr, as', h, hn⟩
    refine ⟨as', h, ?_⟩
    cases as; cases as'; simp_all

theorem relax_named (s : Schema) (n : String) :
    (∃ as ∈ s.relax.attrs, as.name = n) ↔ ∃ as ∈ s.attrs, as.name = n := by
  constructor
  · rintro ⟨as, h, rfl⟩
    exact ((mem_relax_attrs s as).1 h).2
  · rintro ⟨as, h, rfl⟩
    exact ⟨{ as with required := false }, (mem_relax_attrs s _).2 ⟨rfl, as, h, rfl⟩, rfl⟩

theorem relax_disjoint {s₁ s₂ : Schema} (h : s₁.disjoint s₂) : s₁.relax.disjoint s₂.relax := by
  refine ⟨?_, h.2⟩
  intro a ha a' ha'
  obtain ⟨_, b, hb, e⟩ := (mem_relax_attrs _ _).1 ha
  obtain ⟨_, b', hb', e'⟩ := (mem_relax_attrs _ _).1 ha'
  rw [← e, ← e']; exact h.1 b hb b' hb'

theorem relax_union (s₁ s₂ : Schema) : (s₁.union s₂).relax = s₁.relax.union s₂.relax := by
  simp [Schema.relax, Schema.union]

theorem wanted_relax (s : Schema) (ty : String) : wanted s.relax ty = wanted s ty := rfl

/-! ## the attribute fold of `partialContent`, for arbitrary schemas and hidden state -/

/-- invariant of the attribute fold: what was returned so far has distinct names, all hidden by now, each with
    the body's own value -/
def ainv (attrs : List (String × α)) (acc : List (String × α) × List String × List ErrKind) : Prop :=
  (acc.1.map (·.1)).Nodup ∧ ∀ p ∈ acc.1, p.1 ∈ acc.2.1 ∧ findAttr p.1 attrs = some p.2

theorem astep_ainv (attrs : List (String × α)) (acc : List (String × α) × List String × List ErrKind)
    (as : AttrSchema) (h : ainv attrs acc) : ainv attrs (astep attrs acc as) := by
  obtain ⟨h1, h2⟩ := h
  unfold astep
  cases hf : findAttr as.name attrs with
  | none => exact ⟨h1, h2⟩
  | some a =>
    by_cases hh : as.name ∈ acc.2.1
    · simp only [List.contains_iff_mem, hh, if_true]; exact ⟨h1, h2⟩
    · simp only [List.contains_iff_mem, hh, if_false]
      refine ⟨?_, ?_⟩
      · simp only [List.map_append, List.map_cons, List.map_nil]
        rw [List.nodup_append]
        refine ⟨h1, by simp, ?_⟩
        intro x hx y hy
        simp only [List.mem_map] at hx
        obtain ⟨p, hp, rfl⟩ := hx
        simp only [List.mem_singleton] at hy
        subst hy
        intro e
        exact hh (e ▸ (h2 p hp).1)
      · intro p hp
        simp only [List.mem_append, List.mem_singleton] at hp
        rcases hp with hp | rfl
        · exact ⟨List.mem_cons_of_mem _ (h2 p hp).1, (h2 p hp).2⟩
        · exact ⟨by simp, hf⟩

theorem afold_ainv (attrs : List (String × α)) (l : List AttrSchema)
    (acc : List (String × α) × List String × List ErrKind) (h : ainv attrs acc) :
    ainv attrs (l.foldl (astep attrs) acc) := by
  induction l generalizing acc with
  | nil => exact h
  | cons as l ih => exact ih _ (astep_ainv attrs acc as h)

/-- which value the fold returns for a name -/
theorem afold_find (attrs : List (String × α)) (l : List AttrSchema)
    (acc : List (String × α) × List String × List ErrKind) (h : ainv attrs acc) (n : String) :
    findAttr n (l.foldl (astep attrs) acc).1 =
      (findAttr n acc.1).or (if n ∉ acc.2.1 ∧ (∃ as ∈ l, as.name = n) then findAttr n attrs else none) := by
  induction l generalizing acc with
  | nil => simp
  | cons as l ih =>
    simp only [List.foldl_cons]
    rw [ih _ (astep_ainv attrs acc as h)]
    have hnone : n ∉ acc.2.1 → findAttr n acc.1 = none := by
      intro hn
      rw [findAttr_eq_none_iff]
      intro p hp e
      exact hn (e ▸ (h.2 p hp).1)
    unfold astep
    cases hf : findAttr as.name attrs with
    | none =>
      by_cases e : as.name = n
      · subst e; simp [hf]
      · simp [e]
    | some a =>
      by_cases hh : as.name ∈ acc.2.1
      · simp only [List.contains_iff_mem, hh, if_true]
        by_cases e : as.name = n
        · subst e; simp [hh]
        · simp [e]
      · simp only [List.contains_iff_mem, hh, if_false]
        by_cases e : as.name = n
        · subst e
          simp [findAttr_append, hnone hh, findAttr, hf, hh]
        · have e' : ¬ n = as.name := fun x => e x.symm
          simp [findAttr_append, findAttr, e, e']

/-- with no attribute required, the fold reports nothing -/
theorem afold_relax_errs (attrs : List (String × α)) (l : List AttrSchema)
    (acc : List (String × α) × List String × List ErrKind) (hl : ∀ as ∈ l, as.required = false) :
    (l.foldl (astep attrs) acc).2.2 = acc.2.2 := by
  induction l generalizing acc with
  | nil => rfl
  | cons as l ih =>
    simp only [List.foldl_cons]
    rw [ih _ (fun as' h' => hl as' (by simp [h']))]
    have := hl as (by simp)
    unfold astep
    split
    · split <;> simp [this]
    · simp [this]

/-! ## what a child returns -/

section child
variable (b : NBody α β) (s : Schema)

theorem ainv_init : ainv b.attrs (([] : List (String × α)), b.hiddenAttrs, ([] : List ErrKind)) := by
  simp [ainv]

/-- the value returned for a name: the body's, if the schema names it and it is not hidden -/
theorem partial_find (n : String) :
    findAttr n (b.partialContent s).1.attrs =
      if n ∉ b.hiddenAttrs ∧ (∃ as ∈ s.attrs, as.name = n) then findAttr n b.attrs else none := by
  rw [partialContent_eq]
  simpa [findAttr] using afold_find b.attrs s.attrs _ (ainv_init b) n

theorem partial_attrs_nodup : ((b.partialContent s).1.attrs.map (·.1)).Nodup := by
  rw [partialContent_eq]; exact (afold_ainv b.attrs s.attrs _ (ainv_init b)).1

theorem partial_attrs_sub : ∀ p ∈ (b.partialContent s).1.attrs, p ∈ b.attrs := by
  rw [partialContent_eq]
  intro p hp
  exact findAttr_mem ((afold_ainv b.attrs s.attrs _ (ainv_init b)).2 p hp).2

theorem partial_relax_no_mr (n : String) : ErrKind.missingRequired n ∉ (b.partialContent s.relax).2.2 := by
  rw [partialContent_eq, afold_relax_errs _ _ _ (fun as h => ((mem_relax_attrs s as).1 h).1), bstep_fold]
  simp only [List.nil_append, List.mem_filterMap, not_exists, not_and]
  intro blk _
  unfold berr
  split
  · simp
  · split
    · simp
    · split
      · simp
      · split <;> simp

theorem content_relax_no_mr (n : String) : ErrKind.missingRequired n ∉ (b.content s.relax).2 := by
  rw [content_eq]
  have := partial_relax_no_mr b s n
  simp [this]

end child

/-! ## merging attributes: the `addAttr` fold -/

theorem addAttr_some {A : List (String × α)} {D : List MErrKind} {p : String × α} {a : α}
    (h : findAttr p.1 A = some a) : addAttr (A, D) p = (A, D ++ [.duplicateArgument p.1]) := by
  simp [addAttr, h]

theorem addAttr_none {A : List (String × α)} {D : List MErrKind} {p : String × α}
    (h : findAttr p.1 A = none) : addAttr (A, D) p = (A ++ [p], D) := by
  simp [addAttr, h]

/-- the reports never influence what is kept -/
theorem addfold_split (l : List (String × α)) (A : List (String × α)) (D : List MErrKind) :
    l.foldl addAttr (A, D) = ((l.foldl addAttr (A, [])).1, D ++ (l.foldl addAttr (A, [])).2) := by
  induction l generalizing A D with
  | nil => simp
  | cons p l ih =>
    simp only [List.foldl_cons]
    cases hf : findAttr p.1 A with
    | none => rw [addAttr_none hf, addAttr_none hf]; exact ih _ _
    | some a =>
      rw [addAttr_some hf, addAttr_some hf, ih A (D ++ [_]), ih A ([] ++ [_])]
      simp

/-- first definition wins -/
theorem addfold_find (l : List (String × α)) (acc : List (String × α) × List MErrKind) (n : String) :
    findAttr n (l.foldl addAttr acc).1 = (findAttr n acc.1).or (findAttr n l) := by
  induction l generalizing acc with
  | nil => simp [findAttr]
  | cons p l ih =>
    obtain ⟨m, a⟩ := p
    simp only [List.foldl_cons]
    rw [ih]
    obtain ⟨A, D⟩ := acc
    cases hf : findAttr m A with
    | some a' =>
      rw [addAttr_some (p := (m, a)) hf]
      by_cases e : m = n
      · subst e; simp [hf]
      · simp [findAttr, e]
    | none =>
      rw [addAttr_none (p := (m, a)) hf]
      by_cases e : m = n
      · subst e; simp [findAttr_append, findAttr, hf]
      · simp [findAttr_append, findAttr, e]

/-- distinct new names: everything is kept, nothing reported -/
theorem addfold_nodup (l : List (String × α)) (A : List (String × α)) (D : List MErrKind)
    (h1 : ∀ p ∈ l, findAttr p.1 A = none) (h2 : (l.map (·.1)).Nodup) :
    l.foldl addAttr (A, D) = (A ++ l, D) := by
  induction l generalizing A with
  | nil => simp
  | cons p l ih =>
    simp only [List.foldl_cons]
    simp only [List.map_cons, List.nodup_cons, List.mem_map, not_exists, not_and] at h2
    have hp := h1 p (by simp)
    rw [addAttr_none hp, ih (A ++ [p]) ?_ h2.2]
    · simp
    · intro q hq
      rw [findAttr_append, h1 q (by simp [hq])]
      have : ¬ p.1 = q.1 := fun e => h2.1 q hq e.symm
      obtain ⟨m, a⟩ := p
      simp only at this
      simp [findAttr, this]

/-- only duplicates are reported -/
theorem addfold_only_dups (l : List (String × α)) (acc : List (String × α) × List MErrKind) (e : MErrKind)
    (h : e ∈ (l.foldl addAttr acc).2) : e ∈ acc.2 ∨ ∃ p ∈ l, e = .duplicateArgument p.1 := by
  induction l generalizing acc with
  | nil => exact Or.inl h
  | cons p l ih =>
    simp only [List.foldl_cons] at h
    rcases ih _ h with h' | ⟨q, hq, rfl⟩
    · obtain ⟨A, D⟩ := acc
      cases hf : findAttr p.1 A with
      | none => rw [addAttr_none hf] at h'; exact Or.inl h'
      | some a =>
        rw [addAttr_some hf] at h'
        simp only [List.mem_append, List.mem_singleton] at h'
        rcases h' with h' | rfl
        · exact Or.inl h'
        · exact Or.inr ⟨p, by simp, rfl⟩
    · exact Or.inr ⟨q, by simp [hq], rfl⟩

/-- a second definition of a name is reported -/
theorem addfold_dup (l₁ l₂ : List (String × α)) (q : String × α) (acc : List (String × α) × List MErrKind)
    (h : (findAttr q.1 acc.1).isSome ∨ (findAttr q.1 l₁).isSome) :
    MErrKind.duplicateArgument q.1 ∈ ((l₁ ++ q :: l₂).foldl addAttr acc).2 := by
  rw [List.foldl_append, List.foldl_cons]
  have h1 : (findAttr q.1 (l₁.foldl addAttr acc).1).isSome := by
    rw [addfold_find]
    rcases h with h | h
    · cases hh : findAttr q.1 acc.1 <;> simp_all
    · cases hh : findAttr q.1 acc.1 <;> simp_all
  generalize l₁.foldl addAttr acc = X at h1 ⊢
  obtain ⟨A, D⟩ := X
  obtain ⟨a, ha⟩ := Option.isSome_iff_exists.1 h1
  rw [addAttr_some ha, addfold_split]
  simp

/-! ## the loop over the children -/

/-- what one child hands to the merging loop -/
def childRes (s' : Schema) (pm : Bool) (b : NBody α β) : Content α β × List (NBody α β) × List ErrKind :=
  if pm then ((b.partialContent s').1, [(b.partialContent s').2.1], (b.partialContent s').2.2)
  else ((b.content s').1, [], (b.content s').2)

theorem mergedStep_eq (s' : Schema) (pm : Bool) (acc : MAcc α β) (b : NBody α β) :
    mergedStep s' pm acc b =
      { attrs := ((childRes s' pm b).1.attrs.foldl addAttr (acc.attrs, [])).1,
        blocks := acc.blocks ++ (childRes s' pm b).1.blocks,
        leftovers := acc.leftovers ++ (childRes s' pm b).2.1,
        errs := acc.errs ++ (childRes s' pm b).2.2.map .native ++
          ((childRes s' pm b).1.attrs.foldl addAttr (acc.attrs, [])).2 } := by
  cases pm <;> rfl

theorem mfold (s' : Schema) (pm : Bool) (mb : List (NBody α β)) (acc : MAcc α β) :
    let R := mb.foldl (mergedStep s' pm) acc
    let D := (mb.flatMap fun b => (childRes s' pm b).1.attrs).foldl addAttr (acc.attrs, [])
    R.attrs = D.1 ∧
    R.blocks = acc.blocks ++ mb.flatMap (fun b => (childRes s' pm b).1.blocks) ∧
    R.leftovers = acc.leftovers ++ mb.flatMap (fun b => (childRes s' pm b).2.1) ∧
    ∀ e, e ∈ R.errs ↔
      (e ∈ acc.errs ∨ (∃ b ∈ mb, ∃ e' ∈ (childRes s' pm b).2.2, e = .native e') ∨ e ∈ D.2) := by
  induction mb generalizing acc with
  | nil => simp
  | cons b mb ih =>
    simp only [List.foldl_cons, List.flatMap_cons, List.foldl_append]
    obtain ⟨i1, i2, i3, i4⟩ := ih (mergedStep s' pm acc b)
    simp only [mergedStep_eq] at i1 i2 i3 i4 ⊢
    generalize hx : (childRes s' pm b).1.attrs.foldl addAttr (acc.attrs, []) = X at i1 i2 i3 i4 ⊢
    obtain ⟨A1, D1⟩ := X
    simp only at i1 i2 i3 i4 ⊢
    rw [addfold_split _ A1 D1]
    refine ⟨i1, ?_, ?_, ?_⟩
    · rw [i2]; simp
    · rw [i3]; simp
    · intro e
      rw [i4]
      simp only [List.mem_append, List.mem_map, List.mem_cons, exists_eq_or_imp]
      grind

/-! ## `mergedContent`, componentwise -/

theorem childRes_fst (s' : Schema) (pm : Bool) (b : NBody α β) : (childRes s' pm b).1 = (b.partialContent s').1 := by
  cases pm <;> rfl

/-- the attributes the children return, concatenated in child order -/
def cat (s : Schema) (mb : List (NBody α β)) : List (String × α) :=
  mb.flatMap fun b => (b.partialContent s.relax).1.attrs

section merged
variable (mb : List (NBody α β)) (s : Schema) (pm : Bool)

theorem mergedContent_eq :
    mergedContent mb s pm =
      (⟨(mb.foldl (mergedStep s.relax pm) ⟨[], [], [], []⟩).attrs,
        (mb.foldl (mergedStep s.relax pm) ⟨[], [], [], []⟩).blocks⟩,
       (mb.foldl (mergedStep s.relax pm) ⟨[], [], [], []⟩).leftovers,
       (mb.foldl (mergedStep s.relax pm) ⟨[], [], [], []⟩).errs ++
        s.attrs.filterMap fun as =>
          if as.required && (findAttr as.name (mb.foldl (mergedStep s.relax pm) ⟨[], [], [], []⟩).attrs).isNone
          then some (MErrKind.missingRequired as.name) else none) := rfl

theorem merged_attrs : (mergedContent mb s pm).1.attrs = ((cat s mb).foldl addAttr ([], [])).1 := by
  rw [mergedContent_eq]
  have := (mfold s.relax pm mb ⟨[], [], [], []⟩).1
  simp only [childRes_fst] at this
  exact this

theorem merged_find (n : String) : findAttr n (mergedContent mb s pm).1.attrs = findAttr n (cat s mb) := by
  rw [merged_attrs, addfold_find]; simp [findAttr]

theorem merged_blocks :
    (mergedContent mb s pm).1.blocks = mb.flatMap fun b => (b.partialContent s.relax).1.blocks := by
  rw [mergedContent_eq]
  have := (mfold s.relax pm mb ⟨[], [], [], []⟩).2.1
  simp only [childRes_fst] at this
  simpa using this

theorem merged_leftovers :
    (mergedContent mb s pm).2.1 = mb.flatMap fun b => (childRes s.relax pm b).2.1 := by
  rw [mergedContent_eq]
  simpa using (mfold s.relax pm mb ⟨[], [], [], []⟩).2.2.1

theorem mem_merged_errs (e : MErrKind) :
    e ∈ (mergedContent mb s pm).2.2 ↔
      ((∃ b ∈ mb, ∃ e' ∈ (childRes s.relax pm b).2.2, e = .native e') ∨
       e ∈ ((cat s mb).foldl addAttr ([], [])).2 ∨
       ∃ as ∈ s.attrs, as.required = true ∧ findAttr as.name (cat s mb) = none ∧
         e = MErrKind.missingRequired as.name) := by
  have hfind := merged_find mb s pm
  rw [mergedContent_eq] at hfind ⊢
  simp only at hfind
  simp only [List.mem_append, List.mem_filterMap]
  have h4 := (mfold s.relax pm mb ⟨[], [], [], []⟩).2.2.2 e
  simp only [childRes_fst] at h4
  rw [h4]
  simp only [List.not_mem_nil, false_or, or_assoc]
  apply or_congr Iff.rfl
  apply or_congr Iff.rfl
  constructor
  · rintro ⟨as, has, h⟩
    rw [hfind] at h
    by_cases hr : as.required = true
    · cases hf : findAttr as.name (cat s mb) with
      | none => simp [hr, hf] at h; exact ⟨as, has, hr, hf, h.symm⟩
      | some a => simp [hr, hf] at h
    · simp [hr] at h
  · rintro ⟨as, has, hr, hf, rfl⟩
    refine ⟨as, has, ?_⟩
    rw [hfind]
    simp [hr, hf]

/-- which value the children's contents hold for a name no child hides -/
theorem cat_find (n : String) (hh : ∀ b ∈ mb, n ∉ b.hiddenAttrs) :
    findAttr n (cat s mb) =
      if (∃ as ∈ s.attrs, as.name = n) then findAttr n (mb.flatMap (·.attrs)) else none := by
  unfold cat
  by_cases hn : ∃ as ∈ s.attrs, as.name = n
  · rw [if_pos hn]
    apply findAttr_flatMap_congr
    intro b hb
    rw [partial_find, if_pos ⟨hh b hb, (relax_named s n).2 hn⟩]
  · rw [if_neg hn, findAttr_flatMap_none]
    intro b _
    rw [partial_find, if_neg]
    rintro ⟨_, h⟩
    exact hn ((relax_named s n).1 h)

theorem cat_find_unnamed (n : String) (hn : ¬ ∃ as ∈ s.attrs, as.name = n) : findAttr n (cat s mb) = none := by
  unfold cat
  rw [findAttr_flatMap_none]
  intro b _
  rw [partial_find, if_neg]
  rintro ⟨_, h⟩
  exact hn ((relax_named s n).1 h)

end merged

/-! ## children with pairwise disjoint attribute names -/

theorem cat_nodup (s : Schema) (mb : List (NBody α β)) (hd : MBody.attrsDisjoint mb) :
    ((cat s mb).map (·.1)).Nodup := by
  unfold cat
  induction mb with
  | nil => simp
  | cons b mb ih =>
    unfold MBody.attrsDisjoint at hd
    rw [List.pairwise_cons] at hd
    simp only [List.flatMap_cons, List.map_append]
    rw [List.nodup_append]
    refine ⟨partial_attrs_nodup b _, ih hd.2, ?_⟩
    intro x hx y hy e
    simp only [List.mem_map, List.mem_flatMap] at hx hy
    obtain ⟨p, hp, rfl⟩ := hx
    obtain ⟨p', ⟨b', hb', hp'⟩, rfl⟩ := hy
    exact hd.1 b' hb' p (partial_attrs_sub b _ p hp) p' (partial_attrs_sub b' _ p' hp') e

theorem no_dups (s : Schema) (mb : List (NBody α β)) (hd : MBody.attrsDisjoint mb) :
    (cat s mb).foldl addAttr ([], []) = (cat s mb, []) := by
  rw [addfold_nodup _ _ _ (by simp [findAttr]) (cat_nodup s mb hd)]; simp

theorem concat_fresh (mb : List (NBody α β))
    (hf : ∀ b ∈ mb, b.hiddenAttrs = [] ∧ b.hiddenBlocks = [] ∧ (b.attrs.map (·.1)).Nodup)
    (hd : MBody.attrsDisjoint mb) :
    (MBody.concat mb).hiddenAttrs = [] ∧ (MBody.concat mb).hiddenBlocks = [] ∧
      ((MBody.concat mb).attrs.map (·.1)).Nodup := by
  refine ⟨rfl, rfl, ?_⟩
  simp only [MBody.concat]
  induction mb with
  | nil => simp
  | cons b mb ih =>
    unfold MBody.attrsDisjoint at hd
    rw [List.pairwise_cons] at hd
    simp only [List.flatMap_cons, List.map_append]
    rw [List.nodup_append]
    refine ⟨(hf b (by simp)).2.2, ih (fun b' h' => hf b' (by simp [h'])) hd.2, ?_⟩
    intro x hx y hy e
    simp only [List.mem_map, List.mem_flatMap] at hx hy
    obtain ⟨p, hp, rfl⟩ := hx
    obtain ⟨p', ⟨b', hb', hp'⟩, rfl⟩ := hy
    exact hd.1 b' hb' p hp p' hp' e

/-- error-freeness, when no name is defined twice -/
theorem merged_errs_nil_iff (mb : List (NBody α β)) (s : Schema) (pm : Bool) (hd : MBody.attrsDisjoint mb) :
    (mergedContent mb s pm).2.2 = [] ↔
      (∀ b ∈ mb, (childRes s.relax pm b).2.2 = []) ∧
      (∀ as ∈ s.attrs, as.required = true → (findAttr as.name (cat s mb)).isSome) := by
  rw [List.eq_nil_iff_forall_not_mem]
  simp only [mem_merged_errs, no_dups s mb hd, List.not_mem_nil, false_or]
  constructor
  · intro h
    constructor
    · intro b hb
      rw [List.eq_nil_iff_forall_not_mem]
      intro e' he'
      exact h (.native e') (Or.inl ⟨b, hb, e', he', rfl⟩)
    · intro as has hr
      cases hf : findAttr as.name (cat s mb) with
      | some a => rfl
      | none => exact absurd (Or.inr ⟨as, has, hr, hf, rfl⟩) (h _)
  · rintro ⟨h1, h2⟩ e (⟨b, hb, e', he', _⟩ | ⟨as, has, hr, hf, _⟩)
    · rw [h1 b hb] at he'; simp at he'
    · have := h2 as has hr
      rw [hf] at this; simp at this

/-! ## the results used by `Props/C04.lean` -/

theorem bgood_relax (h : List String) (s : Schema) : (bgood h s.relax : Block β → Bool) = bgood h s := rfl

theorem filter_flatMap' {γ δ : Type} (f : γ → List δ) (p : δ → Bool) (l : List γ) :
    (l.flatMap f).filter p = l.flatMap fun x => (f x).filter p := by
  induction l with
  | nil => rfl
  | cons x l ih => simp [List.flatMap_cons, ih]

theorem flatMap_congr' {γ δ : Type} (f g : γ → List δ) (l : List γ) (h : ∀ x ∈ l, f x = g x) :
    l.flatMap f = l.flatMap g := by
  induction l with
  | nil => rfl
  | cons x l ih => simp [List.flatMap_cons, h x (by simp), ih (fun y hy => h y (by simp [hy]))]

/-- the merged blocks are the wanted blocks of the concatenation -/
theorem merged_blocks_concat (mb : List (NBody α β)) (s : Schema) (pm : Bool)
    (hf : ∀ b ∈ mb, b.hiddenBlocks = []) :
    (mergedContent mb s pm).1.blocks = (mb.flatMap (·.blocks)).filter (bgood [] s) := by
  rw [merged_blocks, filter_flatMap']
  apply flatMap_congr'
  intro b hb
  rw [partial_blocks, hf b hb, bgood_relax]

theorem merged_eq_concat (mb : List (NBody α β)) (s : Schema)
    (hf : ∀ b ∈ mb, b.hiddenAttrs = [] ∧ b.hiddenBlocks = [] ∧ (b.attrs.map (·.1)).Nodup)
    (hd : MBody.attrsDisjoint mb) (hs : s.nodup) :
    (∀ n, findAttr n (MBody.content mb s).1.attrs = findAttr n ((MBody.concat mb).content s).1.attrs) ∧
    (MBody.content mb s).1.blocks = ((MBody.concat mb).content s).1.blocks ∧
    ((MBody.content mb s).2 = [] ↔ ((MBody.concat mb).content s).2 = []) := by
  have hK := concat_fresh mb hf hd
  refine ⟨?_, ?_, ?_⟩
  · intro n
    show findAttr n (mergedContent mb s false).1.attrs = _
    rw [merged_find, cat_find mb s n (fun b hb => by simp [(hf b hb).1]), content_fst, partial_find, hK.1]
    simp [MBody.concat]
  · show (mergedContent mb s false).1.blocks = _
    rw [merged_blocks_concat mb s false (fun b hb => (hf b hb).2.1), content_fst, partial_blocks, hK.2.1]
    rfl
  · show (mergedContent mb s false).2.2 = [] ↔ _
    rw [merged_errs_nil_iff mb s false hd, content_error_iff _ s hK hs]
    have hc : ∀ b ∈ mb, (childRes s.relax false b).2.2 = [] ↔
        ((∀ blk ∈ b.blocks, ∃ bs, wanted s blk.type = some bs ∧ blk.labels.length = bs.labelCount) ∧
         (∀ p ∈ b.attrs, ∃ as ∈ s.attrs, as.name = p.1)) := by
      intro b hb
      show (b.content s.relax).2 = [] ↔ _
      rw [content_error_iff b s.relax (hf b hb) (relax_nodup hs)]
      simp only [relax_named, wanted_relax]
      constructor
      · rintro ⟨_, h2, h3⟩; exact ⟨h2, h3⟩
      · rintro ⟨h2, h3⟩
        refine ⟨?_, h2, h3⟩
        intro as has hr
        rw [((mem_relax_attrs s as).1 has).1] at hr
        cases hr
    have hreq : ∀ as ∈ s.attrs, (findAttr as.name (cat s mb)).isSome = (findAttr as.name (mb.flatMap (·.attrs))).isSome := by
      intro as has
      rw [cat_find mb s as.name (fun b hb => by simp [(hf b hb).1]), if_pos ⟨as, has, rfl⟩]
    simp only [MBody.concat, List.mem_flatMap]
    constructor
    · rintro ⟨h1, h2⟩
      refine ⟨fun as has hr => ?_, ?_, ?_⟩
      · rw [← hreq as has]; exact h2 as has hr
      · rintro blk ⟨b, hb, hblk⟩; exact ((hc b hb).1 (h1 b hb)).1 blk hblk
      · rintro p ⟨b, hb, hp⟩; exact ((hc b hb).1 (h1 b hb)).2 p hp
    · rintro ⟨h1, h2, h3⟩
      refine ⟨fun b hb => (hc b hb).2 ⟨fun blk hblk => h2 blk ⟨b, hb, hblk⟩, fun p hp => h3 p ⟨b, hb, hp⟩⟩, ?_⟩
      intro as has hr
      rw [hreq as has]; exact h1 as has hr

theorem merged_duplicate_reported (pre rest : List (NBody α β)) (b₁ b₂ : NBody α β) (s : Schema) (pm : Bool)
    (n : String) (a₁ : α)
    (hf : ∀ b ∈ pre ++ b₁ :: rest, b.hiddenAttrs = [])
    (hn : ∃ as ∈ s.attrs, as.name = n)
    (hpre : ∀ b ∈ pre, findAttr n b.attrs = none)
    (h₁ : findAttr n b₁.attrs = some a₁)
    (hb₂ : b₂ ∈ rest) (h₂ : (findAttr n b₂.attrs).isSome) :
    MErrKind.duplicateArgument n ∈ (mergedContent (pre ++ b₁ :: rest) s pm).2.2 ∧
    findAttr n (mergedContent (pre ++ b₁ :: rest) s pm).1.attrs = some a₁ := by
  have hnh : ∀ b ∈ pre ++ b₁ :: rest, n ∉ b.hiddenAttrs := fun b hb => by simp [hf b hb]
  have hchild : ∀ b ∈ pre ++ b₁ :: rest, findAttr n (b.partialContent s.relax).1.attrs = findAttr n b.attrs := by
    intro b hb
    rw [partial_find, if_pos ⟨hnh b hb, (relax_named s n).2 hn⟩]
  constructor
  · rw [mem_merged_errs]
    refine Or.inr (Or.inl ?_)
    obtain ⟨r₁, r₂, rfl⟩ := List.append_of_mem hb₂
    obtain ⟨a₂, ha₂⟩ := Option.isSome_iff_exists.1 h₂
    have hc₂ := hchild b₂ (by simp)
    rw [ha₂] at hc₂
    obtain ⟨u, v, huv⟩ := List.append_of_mem (findAttr_mem hc₂)
    have hcat : cat s (pre ++ b₁ :: (r₁ ++ b₂ :: r₂)) =
        (cat s pre ++ (b₁.partialContent s.relax).1.attrs ++ cat s r₁ ++ u) ++ (n, a₂) :: (v ++ cat s r₂) := by
      simp [cat, huv]
    rw [hcat]
    apply addfold_dup _ _ (n, a₂)
    right
    have := hchild b₁ (by simp)
    rw [h₁] at this
    simp only [findAttr_append, this]
    cases findAttr n (cat s pre) <;> simp
  · rw [merged_find, cat_find _ s n hnh, if_pos hn]
    simp only [List.flatMap_append, List.flatMap_cons, findAttr_append]
    rw [(findAttr_flatMap_none n (·.attrs) pre).2 hpre, h₁]
    simp

theorem merged_required_iff (mb : List (NBody α β)) (s : Schema) (pm : Bool) (as : AttrSchema)
    (hf : ∀ b ∈ mb, b.hiddenAttrs = []) (has : as ∈ s.attrs) (hr : as.required = true) :
    MErrKind.missingRequired as.name ∈ (mergedContent mb s pm).2.2 ↔ ∀ b ∈ mb, findAttr as.name b.attrs = none := by
  have hfind : findAttr as.name (cat s mb) = none ↔ ∀ b ∈ mb, findAttr as.name b.attrs = none := by
    rw [cat_find mb s as.name (fun b hb => by simp [hf b hb]), if_pos ⟨as, has, rfl⟩]
    exact findAttr_flatMap_none _ _ _
  rw [mem_merged_errs]
  constructor
  · rintro (⟨b, hb, e', he', h⟩ | h | ⟨as', has', hr', hf', h⟩)
    · simp only [MErrKind.missingRequired, MErrKind.native.injEq] at h
      subst h
      cases pm
      · exact absurd he' (content_relax_no_mr b s _)
      · exact absurd he' (partial_relax_no_mr b s _)
    · rcases addfold_only_dups _ _ _ h with h' | ⟨p, _, h'⟩
      · simp at h'
      · simp [MErrKind.missingRequired] at h'
    · simp only [MErrKind.missingRequired, MErrKind.native.injEq, ErrKind.missingRequired.injEq] at h
      rw [← h] at hf'
      exact hfind.1 hf'
  · intro h
    exact Or.inr (Or.inr ⟨as, has, hr, hfind.2 h, rfl⟩)

/-! ### two steps = one step -/

theorem leftovers_partial (mb : List (NBody α β)) (s : Schema) :
    (mergedContent mb s true).2.1 = mb.map fun b => (b.partialContent s.relax).2.1 := by
  rw [merged_leftovers]
  show mb.flatMap (fun b => [(b.partialContent s.relax).2.1]) = _
  induction mb with
  | nil => rfl
  | cons b mb ih => simp [List.flatMap_cons, ih]

/-- the blocks found in the leftover body -/
theorem leftover_blocks (mb : List (NBody α β)) (s₁ s₂ : Schema) (h0 : ∀ b ∈ mb, b.hiddenBlocks = []) :
    (mb.map fun b => (b.partialContent s₁.relax).2.1).flatMap (fun b' => (b'.partialContent s₂.relax).1.blocks) =
      mb.flatMap fun b => b.blocks.filter (bgood (hideBlocks [] s₁.blocks) s₂) := by
  induction mb with
  | nil => rfl
  | cons b mb ih =>
    simp only [List.map_cons, List.flatMap_cons]
    rw [ih (fun b' h' => h0 b' (by simp [h']))]
    congr 1
    rw [partial_blocks]
    show List.filter (bgood (hideBlocks b.hiddenBlocks s₁.blocks) s₂) b.blocks = _
    rw [h0 b (by simp)]

theorem merged_two_step (mb : List (NBody α β)) (s₁ s₂ : Schema)
    (hf : ∀ b ∈ mb, b.hiddenAttrs = [] ∧ b.hiddenBlocks = [] ∧ (b.attrs.map (·.1)).Nodup)
    (hd : MBody.attrsDisjoint mb) (h₁ : s₁.nodup) (h₂ : s₂.nodup) (hdj : s₁.disjoint s₂) :
    let p := MBody.partialContent mb s₁
    let c₂ := MBody.content p.2.1 s₂
    let c := MBody.content mb (s₁.union s₂)
    (∀ n, findAttr n c.1.attrs = findAttr n (p.1.attrs ++ c₂.1.attrs)) ∧
    (∀ ty, c.1.blocks.filter (·.type == ty) = (p.1.blocks ++ c₂.1.blocks).filter (·.type == ty)) ∧
    (c.2 = [] ↔ (p.2.2 = [] ∧ c₂.2 = [])) := by
  -- the leftover body `L` of step one
  obtain ⟨L, hL⟩ : ∃ L, L = mb.map fun b => (b.partialContent s₁.relax).2.1 := ⟨_, rfl⟩
  show (∀ n, findAttr n (mergedContent mb (s₁.union s₂) false).1.attrs =
      findAttr n ((mergedContent mb s₁ true).1.attrs ++ (mergedContent (mergedContent mb s₁ true).2.1 s₂ false).1.attrs)) ∧
    (∀ ty, (mergedContent mb (s₁.union s₂) false).1.blocks.filter (·.type == ty) =
      ((mergedContent mb s₁ true).1.blocks ++
        (mergedContent (mergedContent mb s₁ true).2.1 s₂ false).1.blocks).filter (·.type == ty)) ∧
    ((mergedContent mb (s₁.union s₂) false).2.2 = [] ↔
      ((mergedContent mb s₁ true).2.2 = [] ∧ (mergedContent (mergedContent mb s₁ true).2.1 s₂ false).2.2 = []))
  rw [leftovers_partial, ← hL]
  have hLattrs : L.flatMap (·.attrs) = mb.flatMap (·.attrs) := by
    rw [hL]; clear hL hf hd
    induction mb with
    | nil => rfl
    | cons b mb ih => simp only [List.map_cons, List.flatMap_cons, ih]; rfl
  have hLhid : ∀ b' ∈ L, ∀ n, n ∈ b'.hiddenAttrs → ∃ as ∈ s₁.attrs, as.name = n := by
    intro b' hb' n hn
    rw [hL] at hb'
    obtain ⟨b, hb, rfl⟩ := List.mem_map.1 hb'
    rw [mem_remain_hiddenAttrs, (hf b hb).1] at hn
    simp only [List.not_mem_nil, false_or] at hn
    obtain ⟨as, has, e, _⟩ := hn
    exact (relax_named s₁ n).1 ⟨as, has, e⟩
  have hLd : MBody.attrsDisjoint L := by
    rw [hL]; unfold MBody.attrsDisjoint; rw [List.pairwise_map]; exact hd
  have hh0 : ∀ n, ∀ b ∈ mb, n ∉ b.hiddenAttrs := fun n b hb => by simp [(hf b hb).1]
  -- the value found for a name, in each of the three runs
  have hFu := fun n => cat_find mb (s₁.union s₂) n (hh0 n)
  have hF1 := fun n => cat_find mb s₁ n (hh0 n)
  have hF2 : ∀ n, findAttr n (cat s₂ L) =
      if (∃ as ∈ s₂.attrs, as.name = n) then findAttr n (mb.flatMap (·.attrs)) else none := by
    intro n
    by_cases hn : ∃ as ∈ s₂.attrs, as.name = n
    · rw [cat_find L s₂ n, hLattrs]
      intro b' hb' hmem
      obtain ⟨as, has, e⟩ := hLhid b' hb' n hmem
      obtain ⟨as', has', e'⟩ := hn
      exact hdj.1 as has as' has' (e.trans e'.symm)
    · rw [if_neg hn]; exact cat_find_unnamed L s₂ n hn
  have hnamed : ∀ n, (∃ as ∈ (s₁.union s₂).attrs, as.name = n) ↔
      ((∃ as ∈ s₁.attrs, as.name = n) ∨ (∃ as ∈ s₂.attrs, as.name = n)) := by
    intro n
    simp only [Schema.union, List.mem_append]
    constructor
    · rintro ⟨as, h | h, e⟩
      · exact Or.inl ⟨as, h, e⟩
      · exact Or.inr ⟨as, h, e⟩
    · rintro (⟨as, h, e⟩ | ⟨as, h, e⟩)
      · exact ⟨as, Or.inl h, e⟩
      · exact ⟨as, Or.inr h, e⟩
  refine ⟨?_, ?_, ?_⟩
  · -- attributes
    intro n
    rw [findAttr_append, merged_find, merged_find, merged_find, hFu, hF1, hF2]
    by_cases a1 : ∃ as ∈ s₁.attrs, as.name = n <;> by_cases a2 : ∃ as ∈ s₂.attrs, as.name = n
    · rw [if_pos ((hnamed n).2 (Or.inl a1)), if_pos a1, if_pos a2]
      cases findAttr n (mb.flatMap (·.attrs)) <;> rfl
    · rw [if_pos ((hnamed n).2 (Or.inl a1)), if_pos a1, if_neg a2]
      cases findAttr n (mb.flatMap (·.attrs)) <;> rfl
    · rw [if_pos ((hnamed n).2 (Or.inr a2)), if_neg a1, if_pos a2]; rfl
    · rw [if_neg (fun h => ((hnamed n).1 h).elim a1 a2), if_neg a1, if_neg a2]; rfl
  · -- blocks: those of the concatenated body
    intro ty
    have hK := concat_fresh mb hf hd
    have h0 := fun b hb => (hf b hb).2.1
    have e1 : (mergedContent mb (s₁.union s₂) false).1.blocks = ((MBody.concat mb).content (s₁.union s₂)).1.blocks := by
      rw [merged_blocks_concat mb _ false h0, content_fst, partial_blocks, hK.2.1]; rfl
    have e2 : (mergedContent mb s₁ true).1.blocks = ((MBody.concat mb).partialContent s₁).1.blocks := by
      rw [merged_blocks_concat mb _ true h0, partial_blocks, hK.2.1]; rfl
    have e3 : (mergedContent L s₂ false).1.blocks =
        (((MBody.concat mb).partialContent s₁).2.1.content s₂).1.blocks := by
      rw [merged_blocks, hL, leftover_blocks mb s₁ s₂ h0, content_fst, partial_blocks]
      show _ = List.filter (bgood (hideBlocks [] s₁.blocks) s₂) (mb.flatMap (·.blocks))
      rw [filter_flatMap']
    rw [e1, e2, e3]
    exact (two_step (MBody.concat mb) s₁ s₂ hK h₁ h₂ hdj).2.1 ty
  · -- errors: child by child
    rw [merged_errs_nil_iff mb _ false hd, merged_errs_nil_iff mb s₁ true hd, merged_errs_nil_iff L s₂ false hLd]
    have hchild : ∀ b ∈ mb, (childRes (s₁.union s₂).relax false b).2.2 = [] ↔
        ((childRes s₁.relax true b).2.2 = [] ∧
          (childRes s₂.relax false (b.partialContent s₁.relax).2.1).2.2 = []) := by
      intro b hb
      rw [relax_union]
      exact (two_step b s₁.relax s₂.relax (hf b hb) (relax_nodup h₁) (relax_nodup h₂) (relax_disjoint hdj)).2.2
    have hL' : (∀ b' ∈ L, (childRes s₂.relax false b').2.2 = []) ↔
        ∀ b ∈ mb, (childRes s₂.relax false (b.partialContent s₁.relax).2.1).2.2 = [] := by
      rw [hL]; simp
    rw [hL']
    simp only [hFu, hF1, hF2]
    constructor
    · rintro ⟨c1, c2⟩
      refine ⟨⟨fun b hb => ((hchild b hb).1 (c1 b hb)).1, ?_⟩, fun b hb => ((hchild b hb).1 (c1 b hb)).2, ?_⟩
      · intro as has hr
        have := c2 as (by simp [Schema.union, has]) hr
        rw [if_pos ((hnamed _).2 (Or.inl ⟨as, has, rfl⟩))] at this
        rw [if_pos ⟨as, has, rfl⟩]; exact this
      · intro as has hr
        have := c2 as (by simp [Schema.union, has]) hr
        rw [if_pos ((hnamed _).2 (Or.inr ⟨as, has, rfl⟩))] at this
        rw [if_pos ⟨as, has, rfl⟩]; exact this
    · rintro ⟨⟨p1, p2⟩, q1, q2⟩
      refine ⟨fun b hb => (hchild b hb).2 ⟨p1 b hb, q1 b hb⟩, ?_⟩
      intro as has hr
      rw [if_pos ⟨as, has, rfl⟩]
      simp only [Schema.union, List.mem_append] at has
      rcases has with has | has
      · have := p2 as has hr
        rwa [if_pos ⟨as, has, rfl⟩] at this
      · have := q2 as has hr
        rwa [if_pos ⟨as, has, rfl⟩] at this

/-! ### a single child -/

/-- relaxing the schema changes neither what the attribute fold returns nor what it hides -/
theorem afold_core (attrs : List (String × α)) (l : List AttrSchema)
    (acc acc' : List (String × α) × List String × List ErrKind) (h1 : acc.1 = acc'.1) (h2 : acc.2.1 = acc'.2.1) :
    ((l.map fun as => { as with required := false }).foldl (astep attrs) acc).1 = (l.foldl (astep attrs) acc').1 ∧
    ((l.map fun as => { as with required := false }).foldl (astep attrs) acc).2.1 = (l.foldl (astep attrs) acc').2.1 := by
  induction l generalizing acc acc' with
  | nil => exact ⟨h1, h2⟩
  | cons as l ih =>
    simp only [List.map_cons, List.foldl_cons]
    apply ih
    · unfold astep; simp only [h1, h2]; split
      · split <;> rfl
      · rfl
    · unfold astep; simp only [h1, h2]; split
      · split <;> rfl
      · rfl

theorem filterMap_congr' {γ δ : Type} (f g : γ → Option δ) (l : List γ) (h : ∀ x ∈ l, f x = g x) :
    l.filterMap f = l.filterMap g := by
  induction l with
  | nil => rfl
  | cons x l ih =>
    simp only [List.filterMap_cons, h x (by simp), ih (fun y hy => h y (by simp [hy]))]

/-- the missing-required error of one schema attribute, with hidden names -/
def areqH (attrs : List (String × α)) (hidden : List String) (as : AttrSchema) : Option ErrKind :=
  if as.required = true ∧ ((findAttr as.name attrs).isSome = false ∨ as.name ∈ hidden) then
    some (.missingRequired as.name) else none

theorem afold_errs (attrs : List (String × α)) (l : List AttrSchema)
    (acc : List (String × α) × List String × List ErrKind) (hnd : (l.map (·.name)).Nodup) :
    (l.foldl (astep attrs) acc).2.2 = acc.2.2 ++ l.filterMap (areqH attrs acc.2.1) := by
  induction l generalizing acc with
  | nil => simp
  | cons as l ih =>
    simp only [List.foldl_cons, List.map_cons, List.nodup_cons, List.mem_map, not_exists, not_and] at hnd ⊢
    rw [ih _ hnd.2]
    have hcongr : l.filterMap (areqH attrs (astep attrs acc as).2.1) = l.filterMap (areqH attrs acc.2.1) := by
      apply filterMap_congr'
      intro as' h'
      have hne : ¬ as'.name = as.name := hnd.1 as' h'
      unfold areqH astep
      split
      · split
        · rfl
        · simp [hne]
      · rfl
    rw [hcongr, List.filterMap_cons]
    unfold astep areqH
    cases hf : findAttr as.name attrs with
    | none =>
      by_cases hr : as.required = true <;> simp [hr]
    | some a =>
      by_cases hh : as.name ∈ acc.2.1
      · by_cases hr : as.required = true <;> simp [hh, hr]
      · simp [hh]

section single
variable (b : NBody α β) (s : Schema)

theorem partial_relax_fst : (b.partialContent s.relax).1 = (b.partialContent s).1 := by
  rw [partialContent_eq, partialContent_eq]
  have := (afold_core b.attrs s.attrs ([], b.hiddenAttrs, []) ([], b.hiddenAttrs, []) rfl rfl).1
  simp only [Schema.relax]
  rw [this]
  rfl

theorem partial_relax_remain : (b.partialContent s.relax).2.1 = (b.partialContent s).2.1 := by
  rw [partialContent_eq, partialContent_eq]
  have := (afold_core b.attrs s.attrs ([], b.hiddenAttrs, []) ([], b.hiddenAttrs, []) rfl rfl).2
  simp only [Schema.relax]
  rw [this]

/-- the child's own missing-required errors -/
def ownMissing : List ErrKind := s.attrs.filterMap (areqH b.attrs b.hiddenAttrs)

theorem partial_errs_relax (hs : (s.attrs.map (·.name)).Nodup) :
    (b.partialContent s).2.2 = ownMissing b s ++ (b.partialContent s.relax).2.2 := by
  rw [partialContent_eq, partialContent_eq,
    afold_relax_errs _ s.relax.attrs _ (fun as h => ((mem_relax_attrs s as).1 h).1), afold_errs _ _ _ hs]
  rfl

theorem content_errs_relax (hs : (s.attrs.map (·.name)).Nodup) :
    (b.content s).2 = ownMissing b s ++ (b.content s.relax).2 := by
  rw [content_eq, content_eq, partial_errs_relax b s hs, partial_relax_remain]
  simp

theorem childRes_errs_relax (pm : Bool) (hs : (s.attrs.map (·.name)).Nodup) :
    (childRes s pm b).2.2 = ownMissing b s ++ (childRes s.relax pm b).2.2 := by
  cases pm
  · exact content_errs_relax b s hs
  · exact partial_errs_relax b s hs

theorem merged_singleton (pm : Bool) (hs : (s.attrs.map (·.name)).Nodup) :
    (mergedContent [b] s pm).1 = (childRes s pm b).1 ∧
    (mergedContent [b] s pm).2.1 = (childRes s pm b).2.1 ∧
    (mergedContent [b] s pm).2.2.Perm ((childRes s pm b).2.2.map .native) := by
  have hD : (b.partialContent s.relax).1.attrs.foldl addAttr ([], []) = ((b.partialContent s.relax).1.attrs, []) := by
    rw [addfold_nodup _ _ _ (by simp [findAttr]) (partial_attrs_nodup b _)]; simp
  have hmiss : (s.attrs.filterMap fun as =>
      if as.required && (findAttr as.name (b.partialContent s.relax).1.attrs).isNone
      then some (MErrKind.missingRequired as.name) else none) = (ownMissing b s).map .native := by
    unfold ownMissing
    rw [List.map_filterMap]
    apply filterMap_congr'
    intro as has
    have hnamed : ∃ as' ∈ s.relax.attrs, as'.name = as.name := (relax_named s _).2 ⟨as, has, rfl⟩
    rw [partial_find]
    unfold areqH
    by_cases hr : as.required = true
    · by_cases hh : as.name ∈ b.hiddenAttrs
      · simp [hr, hh, MErrKind.missingRequired]
      · cases findAttr as.name b.attrs <;> simp [hr, hh, hnamed, MErrKind.missingRequired]
    · simp [hr]
  have hc : (childRes s.relax pm b).1 = (childRes s pm b).1 := by
    rw [childRes_fst, childRes_fst, partial_relax_fst]
  have hl : (childRes s.relax pm b).2.1 = (childRes s pm b).2.1 := by
    cases pm
    · rfl
    · show [(b.partialContent s.relax).2.1] = [(b.partialContent s).2.1]
      rw [partial_relax_remain]
  rw [mergedContent_eq]
  simp only [List.foldl_cons, List.foldl_nil, mergedStep_eq, List.nil_append]
  rw [childRes_fst] at hc ⊢
  rw [hD, hmiss, childRes_errs_relax b s pm hs, ← hl]
  refine ⟨?_, rfl, ?_⟩
  · rw [← hc]
  · simp only [List.append_nil, List.map_append]
    exact List.perm_append_comm

end single

end HclModel.Body.Proofs
