import Proofs.TaintCall
import Proofs.MarksFor
/-!
C19: scopes (`envOK`) and the elements of a collection.
-/
set_option linter.unusedSimpArgs false
set_option linter.unusedVariables false
set_option linter.unusedTactic false
namespace HclModel.Proofs
open Val

/-- the variables outside `L` expose no taint -/
def envOK (L : List String) (ρ : Env) : Prop :=
  ∀ x v, ρ.lookup x = some v → L.contains x = false → tw false v = true

theorem envOK_of_twEnv {ρ : Env} (h : twEnv ρ) (L : List String) : envOK L ρ := by
  intro x v hl _
  obtain ⟨k, hk⟩ := lookupKey_mem (show lookupKey x ρ = some v from hl)
  exact h _ hk

theorem envOK_cons_clean {L : List String} {ρ : Env} (x : String) {v : Val} (h : envOK L ρ)
    (hv : tw false v = true) : envOK (L.filter (· != x)) ((x, v) :: ρ) := by
  intro y w hl hy
  rw [lookup_cons] at hl
  split at hl
  · cases hl; exact hv
  · rename_i hne
    apply h y w hl
    cases hc : L.contains y
    · rfl
    · have : (L.filter (· != x)).contains y = true := by
        simp only [List.contains_iff_mem, List.mem_filter, bne_iff_ne, ne_eq] at hc ⊢
        exact ⟨hc, hne⟩
      rw [this] at hy; cases hy

theorem envOK_cons_any {L : List String} {ρ : Env} (x : String) (v : Val) (h : envOK L ρ) :
    envOK (x :: L) ((x, v) :: ρ) := by
  intro y w hl hy
  simp only [List.contains_cons, Bool.or_eq_false_iff, beq_eq_false_iff_ne, ne_eq] at hy
  rw [lookup_cons] at hl
  split at hl
  · rename_i he; exact absurd he hy.1
  · exact h y w hl hy.2

theorem envOK_mono {L L' : List String} {ρ : Env} (h : envOK L ρ) (hs : ∀ x, x ∈ L → x ∈ L') : envOK L' ρ := by
  intro y w hl hy
  apply h y w hl
  cases hc : L.contains y
  · rfl
  · have : L'.contains y = true := by
      simp only [List.contains_iff_mem] at hc ⊢
      exact hs y hc
    rw [this] at hy; cases hy

theorem envOK_bindIter_clean {L : List String} {ρ : Env} (kv vv : String) {k v : Val} (h : envOK L ρ)
    (hk : tw false k = true) (hv : tw false v = true) : envOK (dropIter kv vv L) (bindIter ρ kv vv k v) := by
  unfold bindIter dropIter iterNames
  by_cases hkv : kv = ""
  · simp only [hkv, if_true]
    refine envOK_mono (envOK_cons_clean vv h hv) ?_
    intro x hx
    simp only [List.mem_filter, bne_iff_ne, ne_eq, List.contains_cons, List.contains_nil, Bool.or_false,
      Bool.not_eq_true', beq_eq_false_iff_ne] at hx ⊢
    exact hx
  · simp only [hkv, if_false]
    refine envOK_mono (envOK_cons_clean vv (envOK_cons_clean kv h hk) hv) ?_
    intro x hx
    obtain ⟨hxL, hc⟩ := List.mem_filter.mp hx
    obtain ⟨hxL', hc'⟩ := List.mem_filter.mp hxL
    refine List.mem_filter.mpr ⟨hxL', ?_⟩
    simp only [bne_iff_ne, ne_eq] at hc hc'
    simp [hc, hc']

theorem envOK_bindIter_any {L : List String} {ρ : Env} (kv vv : String) (k v : Val) (h : envOK L ρ) :
    envOK (iterNames kv vv ++ L) (bindIter ρ kv vv k v) := by
  unfold bindIter iterNames
  by_cases hkv : kv = ""
  · simp only [hkv, if_true]
    exact envOK_cons_any vv v h
  · simp only [hkv, if_false]
    exact envOK_cons_any vv v (envOK_cons_any kv k h)

/-! ### the elements of an unmarked collection that exposes nothing -/

theorem idxFrom_mem (kf : Fl) : ∀ (xs : List Val) (n : Nat) (p : Val × Val), p ∈ idxFrom kf n xs →
    (∃ m : Nat, p.1 = Val.num kf (m : Rat)) ∧ p.2 ∈ xs
  | [], _, _, h => by simp [idxFrom] at h
  | x :: xs, n, p, h => by
    simp only [idxFrom, List.mem_cons] at h
    rcases h with rfl | h
    · exact ⟨⟨n, rfl⟩, by simp⟩
    · obtain ⟨h1, h2⟩ := idxFrom_mem kf xs (n + 1) p h
      exact ⟨h1, by simp [h2]⟩

theorem keyed_mem (kf : Fl) (kvs : List (String × Val)) (p : Val × Val) (h : p ∈ keyed kf kvs) :
    ∃ k, p.1 = Val.str kf k ∧ (k, p.2) ∈ kvs := by
  unfold keyed at h
  obtain ⟨⟨k, x⟩, hq, rfl⟩ := List.mem_map.mp h
  exact ⟨k, rfl, hq⟩

theorem elements_tw {cv : Val} {els : List (Val × Val)} (h : tw false cv = true) (hm : cv.fl.m = false)
    (he : elements cv.unmark.1 = some els) : ∀ p ∈ els, tw false p.1 = true ∧ tw false p.2 = true := by
  have hg : cv.fl.g = false := by
    cases hg : cv.fl.g
    · rfl
    · have := tw_flOK h hg; rw [hm] at this; cases this
  rw [elements_eq] at he
  intro p hp
  cases cv <;> simp only [unmark_fst, setFl, Option.some.injEq] at he <;> (try (cases he; done)) <;> subst he
  all_goals simp only [Val.fl] at hm hg
  · obtain ⟨⟨m, hk⟩, hx⟩ := idxFrom_mem _ _ _ _ hp
    rw [tw_list_iff, Bool.and_eq_true] at h
    refine ⟨by rw [hk]; simp [tw, hg], ?_⟩
    have := twL_mem h.2 _ hx
    simpa [hm] using this
  · obtain ⟨k, hk, hx⟩ := keyed_mem _ _ _ hp
    rw [tw_map_iff, Bool.and_eq_true] at h
    refine ⟨by rw [hk]; simp [tw, hg], ?_⟩
    have := twF_mem h.2 _ hx
    simpa [hm] using this
  · obtain ⟨⟨m, hk⟩, hx⟩ := idxFrom_mem _ _ _ _ hp
    rw [tw_tuple_iff, Bool.and_eq_true] at h
    refine ⟨by rw [hk]; simp [tw, hg], ?_⟩
    have := twL_mem h.2 _ hx
    simpa [hm] using this
  · obtain ⟨k, hk, hx⟩ := keyed_mem _ _ _ hp
    rw [tw_object_iff, Bool.and_eq_true] at h
    refine ⟨by rw [hk]; simp [tw, hg], ?_⟩
    have := twF_mem h.2 _ hx
    simpa [hm] using this

end HclModel.Proofs
