import HclModel.Json.Body
import Proofs.MarksEval
/-!
`literal_agree` (C03): a JSON value without repeated object keys, read as a JSON expression (`jsonValue`),
is the value of the same literal written in the native syntax (`litExpr`) under the evaluator model.
-/
namespace HclModel.JBody.Proofs
open HclModel HclModel.Body HclModel.Proofs

/-! ### `eraseDups` -/

theorem eraseDups_length_le {α : Type} [BEq α] (l : List α) : l.eraseDups.length ≤ l.length := by
  suffices h : ∀ n (l : List α), l.length ≤ n → l.eraseDups.length ≤ l.length from h _ l (Nat.le_refl _)
  intro n
  induction n with
  | zero => intro l hl; cases l <;> simp_all
  | succ n ih =>
    intro l hl
    cases l with
    | nil => simp
    | cons a as =>
      rw [List.eraseDups_cons]
      have h1 : (as.filter fun b => !b == a).length ≤ as.length := List.length_filter_le _ _
      have h2 := ih (as.filter fun b => !b == a) (by simp at hl; omega)
      simp only [List.length_cons]
      omega

theorem nodup_of_eraseDups {α : Type} [BEq α] [LawfulBEq α] :
    ∀ (n : Nat) (l : List α), l.length ≤ n → l.eraseDups.length = l.length → l.Nodup := by
  intro n
  induction n with
  | zero => intro l hl _; cases l <;> simp_all
  | succ n ih =>
    intro l hl h
    cases l with
    | nil => simp
    | cons a as =>
      rw [List.eraseDups_cons] at h
      simp only [List.length_cons, Nat.add_right_cancel_iff] at h
      have h1 : (as.filter fun b => !b == a).length ≤ as.length := List.length_filter_le _ _
      have h2 := eraseDups_length_le (as.filter fun b => !b == a)
      have h3 : (as.filter fun b => !b == a).length = as.length := by omega
      have h4 : as.filter (fun b => !b == a) = as := List.filter_eq_self.2 (by
        rw [List.length_filter_eq_length_iff] at h3; exact h3)
      rw [h4] at h
      rw [List.nodup_cons]
      refine ⟨?_, ih as (by simp at hl; omega) h⟩
      intro hm
      have := (List.filter_eq_self.1 h4) a hm
      simp at this

/-- the way `uniqueKeys`, `admBody` and `STree.wf` say "no repetition" -/
theorem nodup_of_eraseDups_length {α : Type} [BEq α] [LawfulBEq α] (l : List α)
    (h : (l.eraseDups.length == l.length) = true) : l.Nodup :=
  nodup_of_eraseDups _ l (Nat.le_refl _) (by simpa using h)

theorem nodup_map_of_eraseDups_length {α β : Type} [BEq β] [LawfulBEq β] (f : α → β) (l : List α)
    (h : ((l.map f).eraseDups.length == l.length) = true) : (l.map f).Nodup :=
  nodup_of_eraseDups_length _ (by simpa using h)

/-! ### sorted insertion -/

theorem mem_keys_insertSorted {α : Type} (k : String) (v : α) (l : List (String × α)) (x : String) :
    x ∈ (insertSorted k v l).map (·.1) → x = k ∨ x ∈ l.map (·.1) := by
  induction l with
  | nil => simp [insertSorted]
  | cons p rest ih =>
    obtain ⟨k', v'⟩ := p
    simp only [insertSorted]
    split
    · simp
    · split
      · simp; grind
      · simp only [List.map_cons, List.mem_cons]
        grind

/-- inserting a fresh key into the grouped association list, seen through the "first value" projection -/
theorem map_groupInsert_fresh (k : String) (v : Val) (K : List (String × List Val))
    (h : k ∉ K.map (·.1)) :
    (groupInsert k v K).map (fun (p : String × List Val) => (p.1, p.2.headD Val.dynVal)) =
      insertSorted k v (K.map fun (p : String × List Val) => (p.1, p.2.headD Val.dynVal)) := by
  induction K with
  | nil => simp [groupInsert, insertSorted]
  | cons p rest ih =>
    obtain ⟨k', vs⟩ := p
    simp only [List.map_cons, List.mem_cons, not_or] at h
    simp only [groupInsert, List.map_cons, insertSorted]
    split
    · simp
    · have : (k == k') = false := by simpa using h.1
      simp only [this, Bool.false_eq_true, if_false, List.map_cons, ih h.2]

theorem lookupKey_eq_none {α : Type} (k : String) (K : List (String × α)) (h : k ∉ K.map (·.1)) :
    lookupKey k K = none := by
  induction K with
  | nil => rfl
  | cons p rest ih =>
    obtain ⟨k', v⟩ := p
    simp only [List.map_cons, List.mem_cons, not_or] at h
    have : (k == k') = false := by simpa using h.1
    simp only [lookupKey, this, Bool.false_eq_true, if_false, ih h.2]

/-! ### the evaluator on literals -/

theorem tryConvert_str (f : Fl) (s : String) : tryConvert (.str f s) .str = .ok (.str f s) := by
  unfold tryConvert
  rw [convert.eq_def]
  simp [Val.typeOf]
  rfl

/-- one item `"k": v` of an object constructor whose key is new -/
theorem itemStep_lit (k : String) (vo : Out) (st : ForSt) (hv : vo.2 = []) (hd : st.diags = [])
    (hm : st.marks = Fl.none) (hk : k ∉ st.kvs.map (·.1)) :
    itemStep (.str Fl.none k, []) vo (st, true) =
      ({ st with kvs := groupInsert k vo.1 st.kvs }, true) := by
  obtain ⟨v, vd⟩ := vo
  simp only at hv
  subst hv
  have e1 : (Val.str Fl.none k).unmark = (Val.str Fl.none k, Fl.none) := rfl
  simp only [itemStep, hasErrors, List.isEmpty_nil, Bool.not_true, Bool.false_eq_true, if_false, Val.isNull,
    e1, tryConvert_str, lookupKey_eq_none k st.kvs hk, Option.isSome_none, List.append_nil, List.nil_append, hd, hm]
  rfl

/-- keys of the JSON object value are among the keys written -/
theorem keys_jsonFields (props : List (String × JV)) (x : String) :
    x ∈ (jsonFields props).1.map (·.1) → x ∈ props.map (·.1) := by
  induction props with
  | nil => simp [jsonFields]
  | cons p rest ih =>
    obtain ⟨k, v⟩ := p
    simp only [jsonFields, List.map_cons, List.mem_cons]
    intro h
    rcases mem_keys_insertSorted _ _ _ _ h with h | h
    · exact Or.inl h
    · right
      apply ih
      simp only [List.mem_map, List.mem_filter] at h ⊢
      obtain ⟨a, ⟨ha, _⟩, e⟩ := h
      exact ⟨a, ha, e⟩

mutual
theorem lit_value : ∀ (cx : Cx) (v : JV), uniqueKeys v = true →
    eval cx [] (litExpr v) = ((jsonValue v).1, []) ∧ (jsonValue v).2 = false
  | cx, .null, _ => ⟨rfl, rfl⟩
  | cx, .str s, _ => ⟨rfl, rfl⟩
  | cx, .num n, _ => ⟨rfl, rfl⟩
  | cx, .bool b, _ => ⟨rfl, rfl⟩
  | cx, .arr xs, h => by
    simp only [uniqueKeys] at h
    obtain ⟨h1, h2⟩ := lit_values cx xs h
    simp only [litExpr, jsonValue, eval_tuple, h1, h2, and_self]
  | cx, .obj props, h => by
    simp only [uniqueKeys, Bool.and_eq_true] at h
    have hnd := nodup_map_of_eraseDups_length _ _ h.1
    obtain ⟨h1, h2, h3, h4, h5⟩ := lit_fields cx props hnd h.2
    simp only [litExpr, jsonValue, eval_object, objectOut]
    rw [show evalItems cx [] (litItems props) = ((evalItems cx [] (litItems props)).1, true) from by rw [← h1]]
    simp only [Bool.not_true, Bool.false_eq_true, if_false, h2, h3, h5, and_true]
    rw [← h4]
theorem lit_values : ∀ (cx : Cx) (xs : List JV), uniqueKeysAll xs = true →
    evalList cx [] (litExprs xs) = ((jsonValues xs).1, []) ∧ (jsonValues xs).2 = false
  | cx, [], _ => ⟨rfl, rfl⟩
  | cx, x :: rest, h => by
    simp only [uniqueKeysAll, Bool.and_eq_true] at h
    obtain ⟨a1, a2⟩ := lit_value cx x h.1
    obtain ⟨b1, b2⟩ := lit_values cx rest h.2
    simp only [litExprs, jsonValues, evalList_cons, a1, a2, b1, b2, List.append_nil, Bool.or_self, and_self]
theorem lit_fields : ∀ (cx : Cx) (props : List (String × JV)), (props.map (·.1)).Nodup → uniqueKeysProps props = true →
    (evalItems cx [] (litItems props)).2 = true ∧
    (evalItems cx [] (litItems props)).1.diags = [] ∧
    (evalItems cx [] (litItems props)).1.marks = Fl.none ∧
    (evalItems cx [] (litItems props)).1.kvs.map (fun (p : String × List Val) => (p.1, p.2.headD Val.dynVal)) =
      (jsonFields props).1 ∧
    (jsonFields props).2 = false
  | cx, [], _, _ => ⟨rfl, rfl, rfl, rfl, rfl⟩
  | cx, (k, x) :: rest, hnd, h => by
    simp only [uniqueKeysProps, Bool.and_eq_true] at h
    simp only [List.map_cons, List.nodup_cons] at hnd
    obtain ⟨a1, a2⟩ := lit_value cx x h.1
    obtain ⟨b1, b2, b3, b4, b5⟩ := lit_fields cx rest hnd.2 h.2
    have hk : k ∉ (jsonFields rest).1.map (·.1) := fun hm => hnd.1 (keys_jsonFields rest k hm)
    have hk' : k ∉ (evalItems cx [] (litItems rest)).1.kvs.map (·.1) := by
      intro hm
      apply hk
      rw [← b4]
      simpa using hm
    have hstep : evalItems cx [] (litItems ((k, x) :: rest)) =
        ({ (evalItems cx [] (litItems rest)).1 with
            kvs := groupInsert k (jsonValue x).1 (evalItems cx [] (litItems rest)).1.kvs }, true) := by
      simp only [litItems, evalItems_cons, eval_lit, a1]
      rw [show evalItems cx [] (litItems rest) = ((evalItems cx [] (litItems rest)).1, true) from by rw [← b1]]
      exact itemStep_lit k _ _ rfl b2 b3 hk'
    rw [hstep]
    refine ⟨rfl, b2, b3, ?_, ?_⟩
    · simp only [jsonFields]
      rw [map_groupInsert_fresh k _ _ hk', b4]
      congr 1
      symm
      rw [List.filter_eq_self]
      intro p hp
      have : p.1 ≠ k := fun e => hk (e ▸ List.mem_map_of_mem hp)
      simpa using this
    · simp only [jsonFields, a2, b5, Bool.or_self, Bool.false_or]
      simp only [List.any_eq_false, beq_iff_eq]
      intro p hp e
      exact hk (e ▸ List.mem_map_of_mem hp)
end

/-- evaluation of a literal written in the native syntax: value, and whether there were diagnostics -/
theorem literal_agree (cx : Cx) (v : JV) (h : uniqueKeys v = true) :
    ((eval cx [] (litExpr v)).1, !(eval cx [] (litExpr v)).2.isEmpty) = jsonValue v := by
  obtain ⟨h1, h2⟩ := lit_value cx v h
  rw [h1]
  simp only [List.isEmpty_nil, Bool.not_true]
  rw [← h2]

end HclModel.JBody.Proofs
