import Proofs.TaintDefs
import Proofs.MarksOps
/-!
C19: value-level lemmas about `tw` ("nothing tainted is exposed").
-/
set_option linter.unusedSimpArgs false
set_option linter.unusedVariables false
namespace HclModel.Proofs
open Val

/-! ### flags -/

/-- a flag pair that exposes no taint -/
def flOK (f : Fl) : Prop := f.g = true → f.m = true

theorem flOK_none : flOK Fl.none := by intro h; cases h
theorem flOK_join {a b : Fl} (ha : flOK a) (hb : flOK b) : flOK (a.join b) := by
  intro h
  simp only [join_g, join_m, Bool.or_eq_true] at h ⊢
  rcases h with h | h
  · exact Or.inl (ha h)
  · exact Or.inr (hb h)

@[simp] theorem unmark_g (a : Fl) : a.unmark.g = a.g := rfl
@[simp] theorem none_g : Fl.none.g = false := rfl

/-! ### `tw`: shape -/

def twKids (i : Bool) : Val → Bool
  | .list _ _ xs => twL i xs
  | .tuple _ xs => twL i xs
  | .map _ _ kvs => twF i kvs
  | .object _ kvs => twF i kvs
  | _ => true

theorem tw_eq (i : Bool) (v : Val) :
    tw i v = ((!v.fl.g || (i || v.fl.m)) && twKids (i || v.fl.m) v) := by
  cases v <;> simp [tw, twKids]

theorem twKids_setFl (i : Bool) (v : Val) (f : Fl) : twKids i (v.setFl f) = twKids i v := by
  cases v <;> rfl

mutual
theorem tw_true : ∀ v : Val, tw true v = true
  | .unk _ _ | .null _ _ | .str _ _ | .num _ _ | .bool _ _ => by simp [tw]
  | .list _ _ xs => by simp [tw, twL_true xs]
  | .tuple _ xs => by simp [tw, twL_true xs]
  | .map _ _ xs => by simp [tw, twF_true xs]
  | .object _ xs => by simp [tw, twF_true xs]
theorem twL_true : ∀ xs : List Val, twL true xs = true
  | [] => by simp [twL]
  | x :: xs => by simp [twL, tw_true x, twL_true xs]
theorem twF_true : ∀ xs : List (String × Val), twF true xs = true
  | [] => by simp [twF]
  | (_, x) :: xs => by simp [twF, tw_true x, twF_true xs]
end

theorem twKids_true (v : Val) : twKids true v = true := by
  cases v <;> simp [twKids, twL_true, twF_true]

theorem tw_mono {v : Val} {i j : Bool} (hij : i = true → j = true) (h : tw i v = true) : tw j v = true := by
  cases i <;> cases j
  · exact h
  · exact tw_true v
  · simp at hij
  · exact h

theorem twKids_mono {v : Val} {i j : Bool} (hij : i = true → j = true) (h : twKids i v = true) :
    twKids j v = true := by
  cases i <;> cases j
  · exact h
  · exact twKids_true v
  · simp at hij
  · exact h

/-- a value that is marked at the top (or below a mark) exposes nothing -/
theorem tw_of_top {v : Val} {i : Bool} (h : (i || v.fl.m) = true) : tw i v = true := by
  rw [tw_eq, h]; simp [twKids_true]

theorem tw_top {v : Val} {i : Bool} (h : tw i v = true) (hg : v.fl.g = true) : i = true ∨ v.fl.m = true := by
  rw [tw_eq] at h
  simp only [Bool.and_eq_true, Bool.or_eq_true, Bool.not_eq_true'] at h
  rcases h.1 with h | h
  · rw [hg] at h; cases h
  · exact h

theorem tw_flOK {v : Val} (h : tw false v = true) : flOK v.fl := by
  intro hg
  rcases tw_top h hg with h | h
  · cases h
  · exact h

theorem tw_kids {v : Val} {i : Bool} (h : tw i v = true) : twKids (i || v.fl.m) v = true := by
  rw [tw_eq] at h
  simp only [Bool.and_eq_true] at h
  exact h.2

theorem tw_setFl_iff (i : Bool) (v : Val) (f : Fl) :
    tw i (v.setFl f) = ((!f.g || (i || f.m)) && twKids (i || f.m) v) := by
  rw [tw_eq, fl_setFl, twKids_setFl]

/-- re-marking: `v` may expose taint only if the flags that are added carry the mark -/
theorem tw_withFl_cover {v : Val} {f : Fl} {i : Bool} (h : tw i v = true) (hi : i = true → f.m = true)
    (hf : flOK f) : tw false (v.withFl f) = true := by
  unfold withFl
  rw [tw_setFl_iff]
  simp only [join_g, join_m, Bool.false_or, Bool.and_eq_true, Bool.or_eq_true, Bool.not_eq_true']
  constructor
  · cases hvg : v.fl.g
    · cases hfg : f.g
      · simp
      · simp [hf hfg]
    · rcases tw_top h hvg with h1 | h1
      · exact Or.inr (Or.inr (hi h1))
      · exact Or.inr (Or.inl h1)
  · refine twKids_mono ?_ (tw_kids h)
    intro h1
    simp only [Bool.or_eq_true] at h1 ⊢
    rcases h1 with h1 | h1
    · exact Or.inr (hi h1)
    · exact Or.inl h1

theorem tw_withFl {v : Val} {f : Fl} (h : tw false v = true) (hf : flOK f) : tw false (v.withFl f) = true :=
  tw_withFl_cover h (by intro h; cases h) hf

theorem tw_withFl_marked (v : Val) {f : Fl} (hm : f.m = true) : tw false (v.withFl f) = true :=
  tw_of_top (by simp [hm])

/-- `Unmark`: the value without its mark exposes taint only if the mark was there -/
theorem tw_unmark {v : Val} {i : Bool} (h : tw i v = true) : tw (i || v.fl.m) v.unmark.1 = true := by
  rw [unmark_fst, tw_setFl_iff]
  simp only [unmark_g, unmark_m, Bool.or_false, Bool.and_eq_true, Bool.or_eq_true, Bool.not_eq_true']
  refine ⟨?_, tw_kids h⟩
  cases hg : v.fl.g
  · exact Or.inl rfl
  · exact Or.inr (tw_top h hg)

theorem tw_dynVal (i : Bool) : tw i Val.dynVal = true := by simp [Val.dynVal, tw, Fl.none]

/-! ### children -/

theorem twL_mem {i : Bool} : ∀ {xs : List Val}, twL i xs = true → ∀ x ∈ xs, tw i x = true
  | [], _, _, hx => by cases hx
  | y :: ys, h, x, hx => by
    simp only [twL, Bool.and_eq_true] at h
    rcases List.mem_cons.mp hx with rfl | hx
    · exact h.1
    · exact twL_mem h.2 x hx

theorem twL_of_mem {i : Bool} : ∀ {xs : List Val}, (∀ x ∈ xs, tw i x = true) → twL i xs = true
  | [], _ => by simp [twL]
  | y :: ys, h => by
    simp only [twL, Bool.and_eq_true]
    exact ⟨h y (by simp), twL_of_mem fun x hx => h x (by simp [hx])⟩

theorem twF_mem {i : Bool} : ∀ {xs : List (String × Val)}, twF i xs = true → ∀ p ∈ xs, tw i p.2 = true
  | [], _, _, hx => by cases hx
  | (k, y) :: ys, h, p, hp => by
    simp only [twF, Bool.and_eq_true] at h
    rcases List.mem_cons.mp hp with rfl | hp
    · exact h.1
    · exact twF_mem h.2 p hp

theorem twF_of_mem {i : Bool} : ∀ {xs : List (String × Val)}, (∀ p ∈ xs, tw i p.2 = true) → twF i xs = true
  | [], _ => by simp [twF]
  | (k, y) :: ys, h => by
    simp only [twF, Bool.and_eq_true]
    exact ⟨h (k, y) (by simp), twF_of_mem fun p hp => h p (by simp [hp])⟩

theorem lookupKey_mem {α : Type} {k : String} : ∀ {xs : List (String × α)} {x : α},
    lookupKey k xs = some x → ∃ k', (k', x) ∈ xs
  | [], _, h => by simp [lookupKey] at h
  | (k', y) :: ys, x, h => by
    simp only [lookupKey] at h
    split at h
    · cases h; exact ⟨k', by simp⟩
    · obtain ⟨k2, hk⟩ := lookupKey_mem h
      exact ⟨k2, by simp [hk]⟩

theorem twF_lookup {i : Bool} {xs : List (String × Val)} {k : String} {x : Val} (h : twF i xs = true)
    (hl : lookupKey k xs = some x) : tw i x = true := by
  obtain ⟨k', hk⟩ := lookupKey_mem hl
  exact twF_mem h _ hk

theorem twL_getElem? {i : Bool} {xs : List Val} {n : Nat} {x : Val} (h : twL i xs = true)
    (hl : xs[n]? = some x) : tw i x = true :=
  twL_mem h x (List.mem_of_getElem? hl)

/-! ### deep flags -/

mutual
theorem flagsDeep_tw : ∀ (v : Val) (i : Bool), tw i v = true → (flagsDeep v).g = true →
    i = true ∨ (flagsDeep v).m = true
  | .unk f _, i, h, hg | .null f _, i, h, hg | .str f _, i, h, hg | .num f _, i, h, hg | .bool f _, i, h, hg => by
    simp only [tw, Bool.or_eq_true, Bool.not_eq_true'] at h
    simp only [flagsDeep, Val.fl] at hg ⊢
    rcases h with h1 | h1 | h1
    · rw [hg] at h1; cases h1
    · exact Or.inl h1
    · exact Or.inr h1
  | .list f _ xs, i, h, hg | .tuple f xs, i, h, hg => by
    simp only [tw, Bool.and_eq_true, Bool.or_eq_true, Bool.not_eq_true'] at h
    simp only [flagsDeep, join_g, join_m, Bool.or_eq_true] at hg ⊢
    rcases hg with hg | hg
    · rcases h.1 with h1 | h1 | h1
      · rw [hg] at h1; cases h1
      · exact Or.inl h1
      · exact Or.inr (Or.inl h1)
    · rcases flagsDeepList_tw xs _ h.2 hg with h1 | h1
      · simp only [Bool.or_eq_true] at h1
        rcases h1 with h1 | h1
        · exact Or.inl h1
        · exact Or.inr (Or.inl h1)
      · exact Or.inr (Or.inr h1)
  | .map f _ xs, i, h, hg | .object f xs, i, h, hg => by
    simp only [tw, Bool.and_eq_true, Bool.or_eq_true, Bool.not_eq_true'] at h
    simp only [flagsDeep, join_g, join_m, Bool.or_eq_true] at hg ⊢
    rcases hg with hg | hg
    · rcases h.1 with h1 | h1 | h1
      · rw [hg] at h1; cases h1
      · exact Or.inl h1
      · exact Or.inr (Or.inl h1)
    · rcases flagsDeepFields_tw xs _ h.2 hg with h1 | h1
      · simp only [Bool.or_eq_true] at h1
        rcases h1 with h1 | h1
        · exact Or.inl h1
        · exact Or.inr (Or.inl h1)
      · exact Or.inr (Or.inr h1)
theorem flagsDeepList_tw : ∀ (xs : List Val) (i : Bool), twL i xs = true → (flagsDeepList xs).g = true →
    i = true ∨ (flagsDeepList xs).m = true
  | [], _, _, hg => by simp [flagsDeepList] at hg
  | x :: xs, i, h, hg => by
    simp only [twL, Bool.and_eq_true] at h
    simp only [flagsDeepList, join_g, join_m, Bool.or_eq_true] at hg ⊢
    rcases hg with hg | hg
    · rcases flagsDeep_tw x i h.1 hg with h1 | h1
      · exact Or.inl h1
      · exact Or.inr (Or.inl h1)
    · rcases flagsDeepList_tw xs i h.2 hg with h1 | h1
      · exact Or.inl h1
      · exact Or.inr (Or.inr h1)
theorem flagsDeepFields_tw : ∀ (xs : List (String × Val)) (i : Bool), twF i xs = true →
    (flagsDeepFields xs).g = true → i = true ∨ (flagsDeepFields xs).m = true
  | [], _, _, hg => by simp [flagsDeepFields] at hg
  | (_, x) :: xs, i, h, hg => by
    simp only [twF, Bool.and_eq_true] at h
    simp only [flagsDeepFields, join_g, join_m, Bool.or_eq_true] at hg ⊢
    rcases hg with hg | hg
    · rcases flagsDeep_tw x i h.1 hg with h1 | h1
      · exact Or.inl h1
      · exact Or.inr (Or.inl h1)
    · rcases flagsDeepFields_tw xs i h.2 hg with h1 | h1
      · exact Or.inl h1
      · exact Or.inr (Or.inr h1)
end

theorem flagsDeep_flOK {v : Val} (h : tw false v = true) : flOK (flagsDeep v) := by
  intro hg
  rcases flagsDeep_tw v false h hg with h1 | h1
  · cases h1
  · exact h1

mutual
theorem tw_of_untainted : ∀ (v : Val) (i : Bool), (flagsDeep v).g = false → tw i v = true
  | .unk f _, i, h | .null f _, i, h | .str f _, i, h | .num f _, i, h | .bool f _, i, h => by
    simp only [flagsDeep, Val.fl] at h
    simp [tw, h]
  | .list f _ xs, i, h | .tuple f xs, i, h => by
    simp only [flagsDeep, join_g, Bool.or_eq_false_iff] at h
    simp [tw, h.1, twL_of_untainted xs _ h.2]
  | .map f _ xs, i, h | .object f xs, i, h => by
    simp only [flagsDeep, join_g, Bool.or_eq_false_iff] at h
    simp [tw, h.1, twF_of_untainted xs _ h.2]
theorem twL_of_untainted : ∀ (xs : List Val) (i : Bool), (flagsDeepList xs).g = false → twL i xs = true
  | [], _, _ => by simp [twL]
  | x :: xs, i, h => by
    simp only [flagsDeepList, join_g, Bool.or_eq_false_iff] at h
    simp [twL, tw_of_untainted x i h.1, twL_of_untainted xs i h.2]
theorem twF_of_untainted : ∀ (xs : List (String × Val)) (i : Bool), (flagsDeepFields xs).g = false →
    twF i xs = true
  | [], _, _ => by simp [twF]
  | (_, x) :: xs, i, h => by
    simp only [flagsDeepFields, join_g, Bool.or_eq_false_iff] at h
    simp [twF, tw_of_untainted x i h.1, twF_of_untainted xs i h.2]
end

mutual
theorem flagsDeep_unmarkDeep_g : ∀ v : Val, (flagsDeep (unmarkDeep v)).g = (flagsDeep v).g
  | .unk _ _ | .null _ _ | .str _ _ | .num _ _ | .bool _ _ => by simp [unmarkDeep, flagsDeep, setFl]
  | .list _ _ xs => by simp [unmarkDeep, flagsDeep, flagsDeepList_unmarkDeep_g xs]
  | .tuple _ xs => by simp [unmarkDeep, flagsDeep, flagsDeepList_unmarkDeep_g xs]
  | .map _ _ xs => by simp [unmarkDeep, flagsDeep, flagsDeepFields_unmarkDeep_g xs]
  | .object _ xs => by simp [unmarkDeep, flagsDeep, flagsDeepFields_unmarkDeep_g xs]
theorem flagsDeepList_unmarkDeep_g : ∀ xs : List Val, (flagsDeepList (unmarkDeepList xs)).g = (flagsDeepList xs).g
  | [] => by simp [unmarkDeepList, flagsDeepList]
  | x :: xs => by simp [unmarkDeepList, flagsDeepList, flagsDeep_unmarkDeep_g x, flagsDeepList_unmarkDeep_g xs]
theorem flagsDeepFields_unmarkDeep_g : ∀ xs : List (String × Val),
    (flagsDeepFields (unmarkDeepFields xs)).g = (flagsDeepFields xs).g
  | [] => by simp [unmarkDeepFields, flagsDeepFields]
  | (_, x) :: xs => by
    simp [unmarkDeepFields, flagsDeepFields, flagsDeep_unmarkDeep_g x, flagsDeepFields_unmarkDeep_g xs]
end

/-- a value without any mark that exposes no taint has no taint -/
theorem untainted_of_tw {v : Val} (h : tw false v = true) (hm : (flagsDeep v).m = false) :
    untainted v = true := by
  unfold untainted
  cases hg : (flagsDeep v).g
  · rfl
  · rcases flagsDeep_tw v false h hg with h1 | h1
    · cases h1
    · rw [hm] at h1; cases h1

/-! ### `convert` keeps the flags of every node -/

theorem tw_leaf_of_fl {a x : Val} {i : Bool} (h : tw i a = true) (hf : x.fl = a.fl)
    (hx : twKids (i || x.fl.m) x = true) : tw i x = true := by
  rw [tw_eq] at h ⊢
  simp only [Bool.and_eq_true] at h ⊢
  exact ⟨by rw [hf]; exact h.1, hx⟩

def isLeaf : Val → Bool
  | .unk _ _ | .null _ _ | .str _ _ | .num _ _ | .bool _ _ => true
  | _ => false

theorem twKids_leaf {x : Val} (h : isLeaf x = true) (i : Bool) : twKids i x = true := by
  cases x <;> simp [isLeaf] at h <;> rfl

theorem convert_leaf (a : Val) (t : Ty) (x : Val) (hl : isLeaf a = true) (h : convert a t = .ok x) :
    isLeaf x = true := by
  by_cases h1 : a.typeOf = t
  · rw [convert_same _ _ h1] at h; cases h; exact hl
  · by_cases hd : t = .dyn
    · subst hd; rw [convert_dyn] at h; cases h; exact hl
    · cases a <;> (try (simp [isLeaf] at hl; done)) <;>
        (rw [convert.eq_def] at h; simp only [typeOf] at h1; simp only [typeOf, beq_iff_eq, h1, if_false] at h)
      all_goals (split at h <;> try exc)
      all_goals (try (split at h <;> try exc))
      all_goals (try (split at h <;> try exc))
      all_goals (try (subst h; simp [isLeaf]))

theorem tw_list_iff (i : Bool) (f : Fl) (t : Ty) (xs : List Val) :
    tw i (.list f t xs) = ((!f.g || (i || f.m)) && twL (i || f.m) xs) := by simp [tw]
theorem tw_tuple_iff (i : Bool) (f : Fl) (xs : List Val) :
    tw i (.tuple f xs) = ((!f.g || (i || f.m)) && twL (i || f.m) xs) := by simp [tw]
theorem tw_map_iff (i : Bool) (f : Fl) (t : Ty) (xs : List (String × Val)) :
    tw i (.map f t xs) = ((!f.g || (i || f.m)) && twF (i || f.m) xs) := by simp [tw]
theorem tw_object_iff (i : Bool) (f : Fl) (xs : List (String × Val)) :
    tw i (.object f xs) = ((!f.g || (i || f.m)) && twF (i || f.m) xs) := by simp [tw]

mutual
theorem convert_tw : ∀ (a : Val) (t : Ty) (x : Val) (i : Bool), tw i a = true → convert a t = .ok x →
    tw i x = true
  | .unk f s, t, x, i, h, hx | .null f s, t, x, i, h, hx | .str f s, t, x, i, h, hx
  | .num f s, t, x, i, h, hx | .bool f s, t, x, i, h, hx =>
    tw_leaf_of_fl h (convert_fl hx) (twKids_leaf (convert_leaf _ t x rfl hx) _)
  | .list f s xs, t, x, i, h, hx => by
    by_cases h1 : Ty.list s = t
    · rw [convert_same _ _ (by simpa [typeOf] using h1)] at hx
      cases hx; exact h
    · cases t <;> (rw [convert.eq_def] at hx; simp [typeOf, h1] at hx <;> try (exc; done))
      rename_i b
      · rw [map_eq_ok] at hx
        obtain ⟨xs', hxs, rfl⟩ := hx
        rw [tw_list_iff, Bool.and_eq_true] at h ⊢
        exact ⟨h.1, convertList_tw xs b xs' _ h.2 hxs⟩
  | .map f s xs, t, x, i, h, hx => by
    by_cases h1 : Ty.map s = t
    · rw [convert_same _ _ (by simpa [typeOf] using h1)] at hx
      cases hx; exact h
    · cases t <;> (rw [convert.eq_def] at hx; simp [typeOf, h1] at hx <;> try (exc; done))
      rename_i b
      · rw [map_eq_ok] at hx
        obtain ⟨xs', hxs, rfl⟩ := hx
        rw [tw_map_iff, Bool.and_eq_true] at h ⊢
        exact ⟨h.1, convertFields_tw xs b xs' _ h.2 hxs⟩
  | .tuple f xs, t, x, i, h, hx => by
    cases t with
    | tuple bs =>
      rw [convert_tuple_tuple] at hx
      split at hx <;> try (exc; done)
      rw [emap_eq_ok] at hx
      obtain ⟨xs', hxs, rfl⟩ := hx
      rw [tw_tuple_iff, Bool.and_eq_true] at h ⊢
      exact ⟨h.1, convertPair_tw xs bs xs' _ h.2 hxs⟩
    | list b =>
      rw [convert.eq_def] at hx; simp [typeOf] at hx
      rw [map_eq_ok] at hx
      obtain ⟨xs', hxs, rfl⟩ := hx
      rw [tw_tuple_iff, Bool.and_eq_true] at h
      rw [tw_list_iff, Bool.and_eq_true]
      exact ⟨h.1, convertList_tw xs b xs' _ h.2 hxs⟩
    | dyn => rw [convert_dyn] at hx; cases hx; exact h
    | _ => rw [convert.eq_def] at hx; simp [typeOf] at hx <;> exc
  | .object f xs, t, x, i, h, hx => by
    cases t with
    | object gs =>
      rw [convert_object_object] at hx
      split at hx <;> try (exc; done)
      rw [emap_eq_ok] at hx
      obtain ⟨xs', hxs, rfl⟩ := hx
      rw [tw_object_iff, Bool.and_eq_true] at h ⊢
      exact ⟨h.1, convertFieldsTo_tw xs gs xs' _ h.2 hxs⟩
    | map b =>
      rw [convert.eq_def] at hx; simp [typeOf] at hx
      rw [map_eq_ok] at hx
      obtain ⟨xs', hxs, rfl⟩ := hx
      rw [tw_object_iff, Bool.and_eq_true] at h
      rw [tw_map_iff, Bool.and_eq_true]
      exact ⟨h.1, convertFields_tw xs b xs' _ h.2 hxs⟩
    | dyn => rw [convert_dyn] at hx; cases hx; exact h
    | _ => rw [convert.eq_def] at hx; simp [typeOf] at hx <;> exc
theorem convertList_tw : ∀ (xs : List Val) (t : Ty) (xs' : List Val) (i : Bool), twL i xs = true →
    convertList xs t = .ok xs' → twL i xs' = true
  | [], t, xs', i, h, hx => by
    simp [convertList, pure, Except.pure] at hx; subst hx; simp [twL]
  | x :: xs, t, xs', i, h, hx => by
    simp only [twL, Bool.and_eq_true] at h
    by_cases hd : t = .dyn
    · simp [convertList, hd, bind, Except.bind, throw, throwThe, MonadExceptOf.throw] at hx
    simp only [convertList, beq_iff_eq, hd, if_false, bind, Except.bind, pure, Except.pure] at hx
    cases hx1 : convert x t with
    | error e => simp [hx1] at hx
    | ok x' =>
    cases hx2 : convertList xs t with
    | error e => simp [hx1, hx2] at hx
    | ok xs1 =>
    simp [hx1, hx2] at hx
    subst hx
    simp [twL, convert_tw x t x' i h.1 hx1, convertList_tw xs t xs1 i h.2 hx2]
theorem convertFields_tw : ∀ (xs : List (String × Val)) (t : Ty) (xs' : List (String × Val)) (i : Bool),
    twF i xs = true → convertFields xs t = .ok xs' → twF i xs' = true
  | [], t, xs', i, h, hx => by
    simp [convertFields, pure, Except.pure] at hx; subst hx; simp [twF]
  | (k, x) :: xs, t, xs', i, h, hx => by
    simp only [twF, Bool.and_eq_true] at h
    by_cases hd : t = .dyn
    · simp [convertFields, hd, bind, Except.bind, throw, throwThe, MonadExceptOf.throw] at hx
    simp only [convertFields, beq_iff_eq, hd, if_false, bind, Except.bind, pure, Except.pure] at hx
    cases hx1 : convert x t with
    | error e => simp [hx1] at hx
    | ok x' =>
    cases hx2 : convertFields xs t with
    | error e => simp [hx1, hx2] at hx
    | ok xs1 =>
    simp [hx1, hx2] at hx
    subst hx
    simp [twF, convert_tw x t x' i h.1 hx1, convertFields_tw xs t xs1 i h.2 hx2]
theorem convertPair_tw : ∀ (xs : List Val) (ts : List Ty) (xs' : List Val) (i : Bool), twL i xs = true →
    convertPair xs ts = .ok xs' → twL i xs' = true
  | [], ts, xs', i, h, hx => by
    simp [convertPair, pure, Except.pure] at hx; subst hx; simp [twL]
  | x :: xs, ts, xs', i, h, hx => by
    simp only [twL, Bool.and_eq_true] at h
    cases ts with
    | nil => simp [convertPair, pure, Except.pure] at hx; subst hx; simp [twL]
    | cons t ts =>
      simp only [convertPair, bind_eq_ok, pure, Except.pure] at hx
      obtain ⟨x', hx1, xs1, hx2, hx3⟩ := hx
      cases hx3
      simp [twL, convert_tw x t x' i h.1 hx1, convertPair_tw xs ts xs1 i h.2 hx2]
theorem convertFieldsTo_tw : ∀ (xs : List (String × Val)) (ts : List (String × Ty)) (xs' : List (String × Val))
    (i : Bool), twF i xs = true → convertFieldsTo xs ts = .ok xs' → twF i xs' = true
  | [], ts, xs', i, h, hx => by
    simp [convertFieldsTo, pure, Except.pure] at hx; subst hx; simp [twF]
  | (k, x) :: xs, ts, xs', i, h, hx => by
    simp only [twF, Bool.and_eq_true] at h
    cases ts with
    | nil => simp [convertFieldsTo, pure, Except.pure] at hx; subst hx; simp [twF]
    | cons t ts =>
      obtain ⟨kt, t⟩ := t
      simp only [convertFieldsTo, bind_eq_ok, pure, Except.pure] at hx
      obtain ⟨x', hx1, xs1, hx2, hx3⟩ := hx
      cases hx3
      simp [twF, convert_tw x t x' i h.1 hx1, convertFieldsTo_tw xs ts xs1 i h.2 hx2]
end

theorem tryConvert_tw {a : Val} {t : Ty} {x : Val} {i : Bool} (h : tw i a = true)
    (hx : tryConvert a t = .ok x) : tw i x = true :=
  convert_tw a t x i h (tryConvert_ok hx)

theorem tryConvert_err_frags {a : Val} {t : Ty} {d : Diag} (h : tryConvert a t = .error d) : d.frags = [] := by
  unfold tryConvert at h
  split at h
  · cases h
  · cases h; rfl
  · cases h; rfl

end HclModel.Proofs
