import HclModel.Write.GenValue
import Proofs.StringLit
/-!
`TokensForValue` round trip: the tokens written for a value, scanned again, are parsed by the expression
parser (in either newline mode) to a constant expression whose value is the original.
-/
namespace HclModel.GenValue.Proofs
open HclModel.GenValue HclModel.StringLit

/-! ## the generator after re-scanning -/

mutual
def genR (c : Cfg) : GV → List Tok
  | .null => [.ident kwNull]
  | .bool b => [.ident (if b then kwTrue else kwFalse)]
  | .num true m => [.minus, .num false m]
  | .num false m => [.num false m]
  | .str s => strToks c s
  | .seq xs => .obrack :: (genSeqR c true xs ++ [.cbrack])
  | .obj kvs => .obrace :: ((match kvs with | [] => [] | _ :: _ => [.newline]) ++ (genObjR c kvs ++ [.cbrace]))
def genSeqR (c : Cfg) (first : Bool) : List GV → List Tok
  | [] => []
  | x :: xs => (if first then [] else [.comma]) ++ (genR c x ++ genSeqR c false xs)
def genObjR (c : Cfg) : List (List Char × GV) → List Tok
  | [] => []
  | (k, v) :: rest => keyToks c k ++ (.equal :: (genR c v ++ (.newline :: genObjR c rest)))
end

theorem relex_append (a b : List Tok) : relex (a ++ b) = relex a ++ relex b := by
  simp [relex, List.flatMap_append]

theorem relex_cons (t : Tok) (r : List Tok) : relex (t :: r) = relexTok t ++ relex r := by
  simp [relex, List.flatMap_cons]

theorem relex_nil : relex [] = [] := rfl

theorem relex_strToks (c : Cfg) (s : List Char) : relex (strToks c s) = strToks c s := by
  unfold strToks
  split <;> simp [relex, relexTok]

theorem relex_keyToks (c : Cfg) (k : List Char) : relex (keyToks c k) = keyToks c k := by
  unfold keyToks
  split
  · simp [relex, relexTok]
  · exact relex_strToks c k

mutual
theorem relex_gen (c : Cfg) : ∀ v : GV, relex (gen c v) = genR c v
  | .null => by simp [gen, genR, relex, relexTok]
  | .bool b => by simp [gen, genR, relex, relexTok]
  | .num true m => by simp [gen, genR, relex, relexTok]
  | .num false m => by simp [gen, genR, relex, relexTok]
  | .str s => by simp [gen, genR, relex_strToks]
  | .seq xs => by
    simp only [gen, genR, relex_cons, relex_append, relex_genSeq c true xs, relexTok, relex_nil]
    simp
  | .obj kvs => by
    simp only [gen, genR, relex_cons, relex_append, relex_genObj c kvs, relexTok, relex_nil]
    cases kvs <;> simp [relex, relexTok]
theorem relex_genSeq (c : Cfg) (first : Bool) : ∀ xs : List GV, relex (genSeq c first xs) = genSeqR c first xs
  | [] => by simp [genSeq, genSeqR, relex]
  | x :: xs => by
    simp only [genSeq, genSeqR, relex_append, relex_gen c x, relex_genSeq c false xs]
    cases first <;> simp [relex, relexTok]
theorem relex_genObj (c : Cfg) : ∀ kvs : List (List Char × GV), relex (genObj c kvs) = genObjR c kvs
  | [] => by simp [genObj, genObjR, relex]
  | (k, v) :: rest => by
    simp only [genObj, genObjR, relex_append, relex_cons, relex_keyToks, relex_gen c v, relex_genObj c rest, relexTok]
    simp
end

/-! ## what the parser is expected to build -/

def identLE (s : List Char) : LE :=
  if s = kwTrue then .bool true else if s = kwFalse then .bool false else if s = kwNull then .null else .var s

def keyLE (c : Cfg) (k : List Char) : LE :=
  if c.validIdent k && k != kwFor then identLE k else .str k

mutual
def toLE (c : Cfg) : GV → LE
  | .null => .null
  | .bool b => .bool b
  | .num true m => .neg (.num m)
  | .num false m => .num m
  | .str s => .str s
  | .seq xs => .tuple (toLEs c xs)
  | .obj kvs => .object (toLEkvs c kvs)
def toLEs (c : Cfg) : List GV → List LE
  | [] => []
  | x :: xs => toLE c x :: toLEs c xs
def toLEkvs (c : Cfg) : List (List Char × GV) → List (LE × LE)
  | [] => []
  | (k, v) :: rest => (keyLE c k, toLE c v) :: toLEkvs c rest
end

/-! ## fuel -/

mutual
def need : GV → Nat
  | .null => 3
  | .bool _ => 3
  | .num _ _ => 5
  | .str _ => 3
  | .seq xs => 4 + needSeq xs
  | .obj kvs => 5 + needObj kvs
def needSeq : List GV → Nat
  | [] => 0
  | x :: xs => 1 + need x + needSeq xs
def needObj : List (List Char × GV) → Nat
  | [] => 0
  | (_, v) :: rest => 4 + need v + needObj rest
end

theorem need_pos (v : GV) : 3 ≤ need v := by
  cases v <;> simp [need] <;> omega

/-! ## first tokens -/

/-- the tokens a written value can start with -/
def startTok : Tok → Bool
  | .ident s => s == kwNull || s == kwTrue || s == kwFalse
  | .num false _ => true
  | .minus | .oquote | .obrack | .obrace => true
  | _ => false

theorem strToks_start (c : Cfg) (s : List Char) : ∃ r, strToks c s = .oquote :: r := by
  unfold strToks; split <;> exact ⟨_, rfl⟩

theorem genR_start (c : Cfg) (v : GV) : ∃ t r, genR c v = t :: r ∧ startTok t = true := by
  cases v with
  | null => exact ⟨.ident kwNull, [], by simp [genR], by decide⟩
  | bool b =>
    cases b
    · exact ⟨.ident kwFalse, [], by simp [genR], by decide⟩
    · exact ⟨.ident kwTrue, [], by simp [genR], by decide⟩
  | num n m =>
    cases n
    · exact ⟨.num false m, [], by simp [genR], rfl⟩
    · exact ⟨.minus, [.num false m], by simp [genR], rfl⟩
  | str s => obtain ⟨r, hr⟩ := strToks_start c s; exact ⟨.oquote, r, by simp [genR, hr], rfl⟩
  | seq xs => exact ⟨.obrack, genSeqR c true xs ++ [.cbrack], by simp [genR], rfl⟩
  | obj kvs => exact ⟨.obrace, (match kvs with | [] => [] | _ :: _ => [.newline]) ++ (genObjR c kvs ++ [.cbrace]), by simp [genR], rfl⟩

theorem peekSkip_start (nl : Bool) (t : Tok) (r : List Tok) (h : startTok t = true) :
    peekSkip nl (t :: r) = t :: r := by
  cases t <;> simp_all [peekSkip, startTok]

theorem peekSkip_of_ne (nl : Bool) (t : Tok) (r : List Tok) (h : t ≠ .newline) :
    peekSkip nl (t :: r) = t :: r := by
  cases t <;> simp_all [peekSkip]

/-! ## keys -/

theorem identLE_keyName (k : List Char) : keyName (identLE k) = some k := by
  unfold identLE
  split
  · subst_vars; rfl
  · split
    · subst_vars; rfl
    · split
      · subst_vars; rfl
      · rfl

theorem keyLE_keyName (c : Cfg) (k : List Char) : keyName (keyLE c k) = some k := by
  unfold keyLE; split
  · exact identLE_keyName k
  · rfl

/-- a quoted string is read back as itself, in either newline mode -/
theorem parseTerm_str (c : Cfg) (hb : c.isPrint '{' = true) (s : List Char) (f : Nat) (nl : Bool) (rest : List Tok) :
    parseTerm (f+1) nl (strToks c s ++ rest) = some (.str s, rest) := by
  have hrt := HclModel.StringLit.Proofs.parseQuoted_escape c.isPrint hb s
  unfold strToks
  split
  · rename_i he
    rw [he] at hrt
    have : s = [] := by
      have : parseQuoted [] = some [] := by decide
      rw [this] at hrt; exact (Option.some.inj hrt).symm
    subst this
    simp [parseTerm, peekSkip]
  · rename_i e hne
    simp only [List.cons_append, List.nil_append, parseTerm, peekSkip]
    rw [hrt]

/-- `parseExpr` from `parseTerm`: two more units of fuel and no continuation -/
theorem parseExpr_of_term (f : Nat) (nl : Bool) (ts rest : List Tok) (e : LE)
    (h : parseTerm f nl ts = some (e, rest)) (hi : contIdx nl rest = false) (hb : contBin nl rest = false) :
    parseExpr (f+2) nl ts = some (e, rest) := by
  simp [parseExpr, parseWT, h, hi, hb]

theorem cont_of_head (nl : Bool) (t : Tok) (r : List Tok) (h1 : t ≠ .obrack) (h2 : t ≠ .minus)
    (h3 : nl = true ∨ t ≠ .newline) : contIdx nl (t :: r) = false ∧ contBin nl (t :: r) = false := by
  cases t <;> simp_all [contIdx, contBin, peekSkip]

/-- a key: a bare identifier or a quoted string, followed by the equals sign -/
theorem parseExpr_key (c : Cfg) (hb : c.isPrint '{' = true) (k : List Char) (f : Nat) (rest : List Tok) :
    parseExpr (f+3) true (keyToks c k ++ .equal :: rest) = some (keyLE c k, .equal :: rest) := by
  have hc := cont_of_head true .equal rest (by simp) (by simp) (Or.inl rfl)
  apply parseExpr_of_term _ _ _ _ _ _ hc.1 hc.2
  unfold keyToks keyLE
  split
  · simp [parseTerm, peekSkip, identLE]
  · exact parseTerm_str c hb k f true _

/-! ## the round trip through the parser -/

theorem startsFor_start (t : Tok) (r : List Tok) (h : startTok t = true) : startsFor (t :: r) = false := by
  unfold startsFor
  rw [peekSkip_start false t r h]
  cases t <;> simp_all [startTok]
  rename_i s
  rcases h with (h | h) | h <;> subst h <;> decide

theorem startsFor_key (c : Cfg) (k : List Char) (r : List Tok) : startsFor (.newline :: (keyToks c k ++ r)) = false := by
  unfold startsFor
  by_cases h : (c.validIdent k && k != kwFor) = true
  · have h2 : k ≠ kwFor := by
      simp only [Bool.and_eq_true, bne_iff_ne, ne_eq] at h; exact h.2
    simp [keyToks, h, peekSkip, h2]
  · obtain ⟨r', hr'⟩ := strToks_start c k
    simp [keyToks, h, peekSkip, hr']

mutual
theorem parseTerm_gen (c : Cfg) (hb : c.isPrint '{' = true) :
    ∀ (v : GV) (f : Nat) (nl : Bool) (rest : List Tok), need v ≤ f + 2 → contIdx nl rest = false →
      parseTerm f nl (genR c v ++ rest) = some (toLE c v, rest)
  | .null, f, nl, rest, hf, _ => by
    obtain ⟨f, rfl⟩ : ∃ g, f = g + 1 := ⟨f - 1, by simp [need] at hf; omega⟩
    simp [genR, toLE, parseTerm, peekSkip, kwNull, kwTrue, kwFalse]
  | .bool b, f, nl, rest, hf, _ => by
    obtain ⟨f, rfl⟩ : ∃ g, f = g + 1 := ⟨f - 1, by simp [need] at hf; omega⟩
    cases b <;> simp [genR, toLE, parseTerm, peekSkip, kwNull, kwTrue, kwFalse]
  | .num false m, f, nl, rest, hf, _ => by
    obtain ⟨f, rfl⟩ : ∃ g, f = g + 1 := ⟨f - 1, by simp [need] at hf; omega⟩
    simp [genR, toLE, parseTerm, peekSkip]
  | .num true m, f, nl, rest, hf, hi => by
    obtain ⟨f, rfl⟩ : ∃ g, f = g + 3 := ⟨f - 3, by simp [need] at hf; omega⟩
    simp [genR, toLE, parseTerm, parseWT, peekSkip, hi]
  | .str s, f, nl, rest, hf, _ => by
    obtain ⟨f, rfl⟩ : ∃ g, f = g + 1 := ⟨f - 1, by simp [need] at hf; omega⟩
    simp only [genR, toLE]
    exact parseTerm_str c hb s f nl rest
  | .seq xs, f, nl, rest, hf, _ => by
    obtain ⟨f, rfl⟩ : ∃ g, f = g + 1 := ⟨f - 1, by simp [need] at hf; omega⟩
    have hI := parseItems_gen c hb xs f rest (by simp [need] at hf; omega)
    have hsf : startsFor (genSeqR c true xs ++ .cbrack :: rest) = false := by
      cases xs with
      | nil => simp [genSeqR, startsFor, peekSkip]
      | cons x xs' =>
        obtain ⟨t, r, hr, hs⟩ := genR_start c x
        simp only [genSeqR, hr, if_true, List.nil_append, List.cons_append]
        exact startsFor_start t _ hs
    simp only [genR, toLE, List.cons_append, List.append_assoc, List.nil_append, parseTerm, peekSkip, hsf,
      Bool.false_eq_true, if_false, hI]
  | .obj kvs, f, nl, rest, hf, _ => by
    cases kvs with
    | nil =>
      obtain ⟨f, rfl⟩ : ∃ g, f = g + 2 := ⟨f - 2, by simp [need] at hf; omega⟩
      simp [genR, toLE, toLEkvs, genObjR, parseTerm, peekSkip, startsFor, parseAttrs]
    | cons kv kvs' =>
      obtain ⟨f, rfl⟩ : ∃ g, f = g + 2 := ⟨f - 2, by simp [need] at hf; omega⟩
      have hA := parseAttrs_gen c hb (kv :: kvs') f rest (by simp [need] at hf; omega)
      obtain ⟨k, v⟩ := kv
      have hsf : startsFor (.newline :: (genObjR c ((k, v) :: kvs') ++ .cbrace :: rest)) = false := by
        simp only [genObjR, List.append_assoc]
        exact startsFor_key c k _
      simp only [genR, toLE, List.cons_append, List.append_assoc, List.nil_append, parseTerm, peekSkip, hsf,
        Bool.false_eq_true, if_false, parseAttrs, hA]
theorem parseItems_gen (c : Cfg) (hb : c.isPrint '{' = true) :
    ∀ (xs : List GV) (f : Nat) (rest : List Tok), needSeq xs + 1 ≤ f →
      parseItems f (genSeqR c true xs ++ .cbrack :: rest) = some (toLEs c xs, rest)
  | [], f, rest, hf => by
    obtain ⟨f, rfl⟩ : ∃ g, f = g + 1 := ⟨f - 1, by omega⟩
    simp [genSeqR, toLEs, parseItems, peekSkip]
  | x :: xs', f, rest, hf => by
    have hx3 := need_pos x
    obtain ⟨f, rfl⟩ : ∃ g, f = g + 3 := ⟨f - 3, by simp [needSeq] at hf; omega⟩
    obtain ⟨t, r, hr, hs⟩ := genR_start c x
    -- what follows the first item: the closing bracket, or a comma and the remaining items
    have hnext : ∃ t' r', genSeqR c false xs' ++ .cbrack :: rest = t' :: r' ∧ (t' = .cbrack ∨ t' = .comma) := by
      cases xs' with
      | nil => exact ⟨.cbrack, rest, by simp [genSeqR], Or.inl rfl⟩
      | cons y ys => exact ⟨.comma, genR c y ++ (genSeqR c false ys ++ .cbrack :: rest), by simp [genSeqR], Or.inr rfl⟩
    obtain ⟨t', r', hr', ht'⟩ := hnext
    have hc : contIdx false (t' :: r') = false ∧ contBin false (t' :: r') = false := by
      rcases ht' with h | h <;> subst h <;> exact cont_of_head false _ r' (by simp) (by simp) (Or.inr (by simp))
    have hT := parseTerm_gen c hb x f false (t' :: r') (by simp [needSeq] at hf; omega) hc.1
    have hE := parseExpr_of_term f false _ _ _ hT hc.1 hc.2
    have hne : t ≠ .cbrack := by intro h; subst h; simp [startTok] at hs
    have hps : peekSkip false (t :: (r ++ (t' :: r'))) = t :: (r ++ (t' :: r')) := peekSkip_start false t _ hs
    have hmain : parseItems (f+3) (genR c x ++ (t' :: r')) = some (toLEs c (x :: xs'), rest) := by
      rcases ht' with h | h
      · -- last item
        subst h
        cases xs' with
        | cons y ys => simp [genSeqR] at hr'
        | nil =>
          simp only [genSeqR, List.nil_append, List.cons.injEq, true_and] at hr'
          subst hr'
          unfold parseItems
          rw [hr] at hE ⊢
          simp only [List.cons_append] at hE ⊢
          rw [hps]
          cases t <;> simp_all [toLEs, peekSkip, startTok]
      · subst h
        cases xs' with
        | nil => simp [genSeqR] at hr'
        | cons y ys =>
          have hI := parseItems_gen c hb (y :: ys) (f+2) rest (by simp [needSeq] at hf ⊢; omega)
          simp only [genSeqR, Bool.false_eq_true, if_false, List.cons_append, List.nil_append, List.append_assoc,
            List.cons.injEq, true_and] at hr'
          simp only [genSeqR, if_true, List.nil_append, List.append_assoc] at hI
          rw [← hr'] at hE
          unfold parseItems
          rw [hr] at hE ⊢
          simp only [List.cons_append] at hE ⊢
          rw [← hr']
          rw [hps] at *
          cases t <;> simp_all [toLEs, peekSkip, startTok]
    simpa [genSeqR, hr'] using hmain
theorem parseAttrs_gen (c : Cfg) (hb : c.isPrint '{' = true) :
    ∀ (kvs : List (List Char × GV)) (f : Nat) (rest : List Tok), needObj kvs + 1 ≤ f →
      parseAttrs f (genObjR c kvs ++ .cbrace :: rest) = some (toLEkvs c kvs, rest)
  | [], f, rest, hf => by
    obtain ⟨f, rfl⟩ : ∃ g, f = g + 1 := ⟨f - 1, by omega⟩
    simp [genObjR, toLEkvs, parseAttrs]
  | (k, v) :: rest', f, rest, hf => by
    obtain ⟨f, rfl⟩ : ∃ g, f = g + 4 := ⟨f - 4, by simp [needObj] at hf; omega⟩
    have hK := parseExpr_key c hb k f (genR c v ++ (.newline :: (genObjR c rest' ++ .cbrace :: rest)))
    have hc := cont_of_head true .newline (genObjR c rest' ++ .cbrace :: rest) (by simp) (by simp) (Or.inl rfl)
    have hT := parseTerm_gen c hb v (f+1) true (.newline :: (genObjR c rest' ++ .cbrace :: rest))
      (by simp [needObj] at hf; omega) hc.1
    have hE := parseExpr_of_term (f+1) true _ _ _ hT hc.1 hc.2
    have hA := parseAttrs_gen c hb rest' (f+3) rest (by simp [needObj] at hf; omega)
    have hhead : ∃ t r, keyToks c k = t :: r ∧ t ≠ .newline ∧ t ≠ .cbrace := by
      unfold keyToks; split
      · exact ⟨_, _, rfl, by simp, by simp⟩
      · obtain ⟨r, hr⟩ := strToks_start c k; exact ⟨_, r, hr, by simp, by simp⟩
    obtain ⟨t, r, hr, hn1, hn2⟩ := hhead
    simp only [genObjR, toLEkvs, List.append_assoc, List.cons_append]
    unfold parseAttrs
    rw [hr] at hK ⊢
    simp only [List.cons_append] at hK ⊢
    cases t <;> simp_all
end

/-! ## fuel is bounded by the number of tokens -/

mutual
theorem need_le (c : Cfg) : ∀ v : GV, need v + 1 ≤ 6 * (genR c v).length
  | .null => by simp [need, genR]
  | .bool _ => by simp [need, genR]
  | .num true _ => by simp [need, genR]
  | .num false _ => by simp [need, genR]
  | .str s => by
    obtain ⟨r, hr⟩ := strToks_start c s
    simp [need, genR, hr]; omega
  | .seq xs => by
    have := needSeq_le c true xs
    simp [need, genR]; omega
  | .obj kvs => by
    have := needObj_le c kvs
    simp [need, genR]; omega
theorem needSeq_le (c : Cfg) (first : Bool) : ∀ xs : List GV, needSeq xs ≤ 6 * (genSeqR c first xs).length
  | [] => by simp [needSeq]
  | x :: xs => by
    have h1 := need_le c x
    have h2 := needSeq_le c false xs
    simp [needSeq, genSeqR]; omega
theorem needObj_le (c : Cfg) : ∀ kvs : List (List Char × GV), needObj kvs ≤ 6 * (genObjR c kvs).length
  | [] => by simp [needObj]
  | (k, v) :: rest => by
    have h1 := need_le c v
    have h2 := needObj_le c rest
    simp [needObj, genObjR]; omega
end

/-! ## evaluation of what was parsed -/

mutual
theorem evalLE_toLE (c : Cfg) : ∀ v : GV, evalLE (toLE c v) = some (norm v)
  | .null => by simp [toLE, evalLE, norm]
  | .bool _ => by simp [toLE, evalLE, norm]
  | .num true _ => by simp [toLE, evalLE, norm]
  | .num false _ => by simp [toLE, evalLE, norm]
  | .str _ => by simp [toLE, evalLE, norm]
  | .seq xs => by simp [toLE, evalLE, norm, evalList_toLEs c xs]
  | .obj kvs => by simp [toLE, evalLE, norm, evalItems_toLEkvs c kvs]
theorem evalList_toLEs (c : Cfg) : ∀ xs : List GV, evalList (toLEs c xs) = some (normList xs)
  | [] => by simp [toLEs, evalList, normList]
  | x :: xs => by simp [toLEs, evalList, normList, evalLE_toLE c x, evalList_toLEs c xs]
theorem evalItems_toLEkvs (c : Cfg) : ∀ kvs : List (List Char × GV), evalItems (toLEkvs c kvs) = some (normKvs kvs)
  | [] => by simp [toLEkvs, evalItems, normKvs]
  | (k, v) :: rest => by
    simp [toLEkvs, evalItems, normKvs, keyLE_keyName, evalLE_toLE c v, evalItems_toLEkvs c rest]
end

/-! ## distinct keys: nothing is replaced -/

theorem insertKV_fresh (acc : List (List Char × GV)) (k : List Char) (v : GV)
    (h : k ∉ acc.map (·.1)) : insertKV acc k v = acc ++ [(k, v)] := by
  induction acc with
  | nil => rfl
  | cons p acc ih =>
    obtain ⟨k', v'⟩ := p
    simp only [List.map_cons, List.mem_cons, not_or] at h
    have hne : ¬ k' = k := fun e => h.1 e.symm
    simp [insertKV, hne, ih h.2]

theorem foldl_insertKV_distinct (l acc : List (List Char × GV))
    (hd : distinct (l.map (·.1)) = true) (hdisj : ∀ k ∈ l.map (·.1), k ∉ acc.map (·.1)) :
    l.foldl (fun a p => insertKV a p.1 p.2) acc = acc ++ l := by
  induction l generalizing acc with
  | nil => simp
  | cons p l ih =>
    obtain ⟨k, v⟩ := p
    simp only [List.map_cons, distinct, Bool.and_eq_true, Bool.not_eq_true', List.contains_eq_mem,
      decide_eq_false_iff_not] at hd
    have hk : k ∉ acc.map (·.1) := hdisj k (by simp)
    simp only [List.foldl_cons, insertKV_fresh acc k v hk]
    rw [ih (acc ++ [(k, v)]) hd.2]
    · simp
    · intro k' hk'
      have h1 := hdisj k' (by simp [hk'])
      have h2 : k' ≠ k := by
        intro e; subst e; exact hd.1 (by simpa using hk')
      simp only [List.map_append, List.map_cons, List.map_nil, List.mem_append, List.mem_cons,
        List.not_mem_nil, or_false, not_or]
      exact ⟨h1, h2⟩

theorem normKvs_keys : ∀ kvs : List (List Char × GV), (normKvs kvs).map (·.1) = kvs.map (·.1)
  | [] => rfl
  | (k, v) :: rest => by simp [normKvs, normKvs_keys rest]

mutual
theorem norm_id : ∀ v : GV, keysDistinct v = true → norm v = v
  | .null, _ => rfl
  | .bool _, _ => rfl
  | .num _ _, _ => rfl
  | .str _, _ => rfl
  | .seq xs, h => by
    simp only [keysDistinct] at h
    simp [norm, normList_id xs h]
  | .obj kvs, h => by
    simp only [keysDistinct, Bool.and_eq_true] at h
    have hk := normKvs_id kvs h.2
    simp only [norm]
    rw [foldl_insertKV_distinct _ [] (by rw [normKvs_keys]; exact h.1) (by simp), hk]
    simp
theorem normList_id : ∀ xs : List GV, keysDistinctList xs = true → normList xs = xs
  | [], _ => rfl
  | x :: xs, h => by
    simp only [keysDistinctList, Bool.and_eq_true] at h
    simp [normList, norm_id x h.1, normList_id xs h.2]
theorem normKvs_id : ∀ kvs : List (List Char × GV), keysDistinctKvs kvs = true → normKvs kvs = kvs
  | [], _ => rfl
  | (k, v) :: rest, h => by
    simp only [keysDistinctKvs, Bool.and_eq_true] at h
    simp [normKvs, norm_id v h.1, normKvs_id rest h.2]
end

/-! ## the two entry points -/

theorem cont_nil (nl : Bool) : contIdx nl [] = false ∧ contBin nl [] = false := by
  simp [contIdx, contBin, peekSkip]

theorem parseTop_gen (c : Cfg) (hb : c.isPrint '{' = true) (v : GV) :
    parseTop (relex (gen c v)) = some (toLE c v) := by
  have hn := need_le c v
  have hT := parseTerm_gen c hb v (fuelFor (genR c v) - 2) false [] (by unfold fuelFor; omega) (cont_nil false).1
  have hE := parseExpr_of_term _ false _ _ _ hT (cont_nil false).1 (cont_nil false).2
  have hfu : fuelFor (genR c v) - 2 + 2 = fuelFor (genR c v) := by unfold fuelFor; omega
  rw [hfu, List.append_nil] at hE
  simp [parseTop, relex_gen, hE, peekSkip]

theorem parseAttrValue_gen (c : Cfg) (hb : c.isPrint '{' = true) (v : GV) (after : List Tok) :
    parseAttrValue (relex (gen c v) ++ .newline :: after) = some (toLE c v) := by
  have hn := need_le c v
  have hc := cont_of_head true .newline after (by simp) (by simp) (Or.inl rfl)
  have hlen : (genR c v ++ .newline :: after).length = (genR c v).length + (after.length + 1) := by simp
  have hT := parseTerm_gen c hb v (fuelFor (genR c v ++ .newline :: after) - 2) true (.newline :: after)
    (by unfold fuelFor; omega) hc.1
  have hE := parseExpr_of_term _ true _ _ _ hT hc.1 hc.2
  have hfu : fuelFor (genR c v ++ .newline :: after) - 2 + 2 = fuelFor (genR c v ++ .newline :: after) := by
    unfold fuelFor; omega
  rw [hfu] at hE
  simp [parseAttrValue, relex_gen, hE]

end HclModel.GenValue.Proofs
