import HclModel.Expr.Rel
/-!
Value-level lemmas for C05 (unknown values): `Ty` equality, flags, `whollyKnown`, `conc`,
well-typed collection values (`wf`).
All helper lemmas live in `HclModel.Proofs.Unk`.
-/
namespace HclModel.Proofs.Unk
open Val

/-! ### `Ty.beq` is equality -/

mutual
theorem tyBeq_refl : ∀ a : Ty, Ty.beq a a = true
  | .str | .num | .bool | .dyn => by simp [Ty.beq]
  | .list a => by simp [Ty.beq, tyBeq_refl a]
  | .map a => by simp [Ty.beq, tyBeq_refl a]
  | .tuple as => by simp [Ty.beq, tyBeqList_refl as]
  | .object fs => by simp [Ty.beq, tyBeqFields_refl fs]
theorem tyBeqList_refl : ∀ as : List Ty, Ty.beqList as as = true
  | [] => by simp [Ty.beqList]
  | a :: as => by simp [Ty.beqList, tyBeq_refl a, tyBeqList_refl as]
theorem tyBeqFields_refl : ∀ as : List (String × Ty), Ty.beqFields as as = true
  | [] => by simp [Ty.beqFields]
  | (k, a) :: as => by simp [Ty.beqFields, tyBeq_refl a, tyBeqFields_refl as]
end

mutual
theorem tyBeq_eq : ∀ a b : Ty, Ty.beq a b = true → a = b
  | .str, b => by cases b <;> simp [Ty.beq]
  | .num, b => by cases b <;> simp [Ty.beq]
  | .bool, b => by cases b <;> simp [Ty.beq]
  | .dyn, b => by cases b <;> simp [Ty.beq]
  | .list a, b => by
    cases b <;> simp [Ty.beq]
    exact tyBeq_eq a _
  | .map a, b => by
    cases b <;> simp [Ty.beq]
    exact tyBeq_eq a _
  | .tuple as, b => by
    cases b <;> simp [Ty.beq]
    exact tyBeqList_eq as _
  | .object fs, b => by
    cases b <;> simp [Ty.beq]
    exact tyBeqFields_eq fs _
theorem tyBeqList_eq : ∀ as bs : List Ty, Ty.beqList as bs = true → as = bs
  | [], bs => by cases bs <;> simp [Ty.beqList]
  | a :: as, bs => by
    cases bs with
    | nil => simp [Ty.beqList]
    | cons b bs =>
      simp only [Ty.beqList, Bool.and_eq_true, List.cons.injEq]
      exact fun h => ⟨tyBeq_eq a b h.1, tyBeqList_eq as bs h.2⟩
theorem tyBeqFields_eq : ∀ as bs : List (String × Ty), Ty.beqFields as bs = true → as = bs
  | [], bs => by cases bs <;> simp [Ty.beqFields]
  | (k, a) :: as, bs => by
    cases bs with
    | nil => simp [Ty.beqFields]
    | cons b bs =>
      obtain ⟨l, b⟩ := b
      simp only [Ty.beqFields, Bool.and_eq_true, List.cons.injEq, Prod.mk.injEq, beq_iff_eq]
      exact fun h => ⟨⟨h.1.1, tyBeq_eq a b h.1.2⟩, tyBeqFields_eq as bs h.2⟩
end

instance instLawfulBEqTy : LawfulBEq Ty where
  rfl := tyBeq_refl _
  eq_of_beq := tyBeq_eq _ _

/-! ### flags do not matter -/

@[simp] theorem typeOf_setFl (v : Val) (f : Fl) : (v.setFl f).typeOf = v.typeOf := by
  cases v <;> simp [setFl, typeOf]
@[simp] theorem typeOf_withFl (v : Val) (f : Fl) : (v.withFl f).typeOf = v.typeOf := by simp [withFl]
@[simp] theorem isNull_setFl (v : Val) (f : Fl) : (v.setFl f).isNull = v.isNull := by cases v <;> rfl
@[simp] theorem isNull_withFl (v : Val) (f : Fl) : (v.withFl f).isNull = v.isNull := by simp [withFl]
@[simp] theorem isKnown_setFl (v : Val) (f : Fl) : (v.setFl f).isKnown = v.isKnown := by cases v <;> rfl
@[simp] theorem isKnown_withFl (v : Val) (f : Fl) : (v.withFl f).isKnown = v.isKnown := by simp [withFl]
@[simp] theorem unmark_fst (v : Val) : v.unmark.1 = v.setFl v.fl.unmark := rfl
@[simp] theorem unmark_snd (v : Val) : v.unmark.2 = v.fl := rfl
@[simp] theorem whollyKnown_setFl (v : Val) (f : Fl) : (v.setFl f).whollyKnown = v.whollyKnown := by
  cases v <;> simp [setFl, whollyKnown]
@[simp] theorem whollyKnown_withFl (v : Val) (f : Fl) : (v.withFl f).whollyKnown = v.whollyKnown := by
  simp [withFl]

theorem conc_setFl_right (v a : Val) (f : Fl) : conc v (a.setFl f) = conc v a := by
  cases a <;> cases v <;> simp [setFl, conc]
theorem conc_setFl_left (v a : Val) (f : Fl) : conc (v.setFl f) a = conc v a := by
  cases a <;> cases v <;> simp [setFl, conc, typeOf]
@[simp] theorem conc_setFl (v a : Val) (f g : Fl) : conc (v.setFl f) (a.setFl g) = conc v a := by
  rw [conc_setFl_right, conc_setFl_left]
@[simp] theorem conc_withFl (v a : Val) (f g : Fl) : conc (v.withFl f) (a.withFl g) = conc v a := by
  simp [withFl]
@[simp] theorem conc_withFl_left (v a : Val) (f : Fl) : conc (v.withFl f) a = conc v a := by
  simp [withFl, conc_setFl_left]
@[simp] theorem conc_withFl_right (v a : Val) (f : Fl) : conc v (a.withFl f) = conc v a := by
  simp [withFl, conc_setFl_right]

/-! ### `whollyKnown` -/

theorem isKnown_of_whollyKnown {v : Val} (h : v.whollyKnown = true) : v.isKnown = true := by
  cases v <;> simp [whollyKnown, isKnown] at h ⊢

theorem whollyKnownList_mem : ∀ {xs : List Val}, whollyKnownList xs = true → ∀ x ∈ xs, whollyKnown x = true
  | [], _, x, hx => by simp at hx
  | y :: ys, h, x, hx => by
    simp only [whollyKnownList, Bool.and_eq_true] at h
    rcases List.mem_cons.mp hx with rfl | hx
    · exact h.1
    · exact whollyKnownList_mem h.2 x hx

theorem whollyKnownList_of_mem : ∀ {xs : List Val}, (∀ x ∈ xs, whollyKnown x = true) → whollyKnownList xs = true
  | [], _ => rfl
  | y :: ys, h => by
    simp only [whollyKnownList, Bool.and_eq_true]
    exact ⟨h y (by simp), whollyKnownList_of_mem fun x hx => h x (by simp [hx])⟩

theorem whollyKnownList_append {xs ys : List Val} (h1 : whollyKnownList xs = true) (h2 : whollyKnownList ys = true) :
    whollyKnownList (xs ++ ys) = true := by
  apply whollyKnownList_of_mem
  intro x hx
  rcases List.mem_append.mp hx with hx | hx
  · exact whollyKnownList_mem h1 x hx
  · exact whollyKnownList_mem h2 x hx

theorem whollyKnownFields_lookup : ∀ {kvs : List (String × Val)}, whollyKnownFields kvs = true →
    ∀ {k x}, lookupKey k kvs = some x → whollyKnown x = true
  | [], _, k, x, hx => by simp [lookupKey] at hx
  | (k', y) :: ys, h, k, x, hx => by
    simp only [whollyKnownFields, Bool.and_eq_true] at h
    simp only [lookupKey] at hx
    split at hx
    · cases hx; exact h.1
    · exact whollyKnownFields_lookup h.2 hx

theorem whollyKnownFields_of_mem : ∀ {kvs : List (String × Val)}, (∀ p ∈ kvs, whollyKnown p.2 = true) →
    whollyKnownFields kvs = true
  | [], _ => rfl
  | (k, y) :: ys, h => by
    simp only [whollyKnownFields, Bool.and_eq_true]
    exact ⟨h (k, y) (by simp), whollyKnownFields_of_mem fun x hx => h x (by simp [hx])⟩

theorem whollyKnownFields_mem : ∀ {kvs : List (String × Val)}, whollyKnownFields kvs = true →
    ∀ p ∈ kvs, whollyKnown p.2 = true
  | [], _, x, hx => by simp at hx
  | (k, y) :: ys, h, x, hx => by
    simp only [whollyKnownFields, Bool.and_eq_true] at h
    rcases List.mem_cons.mp hx with rfl | hx
    · exact h.1
    · exact whollyKnownFields_mem h.2 x hx

mutual
theorem whollyKnown_unmarkDeep : ∀ v : Val, whollyKnown (unmarkDeep v) = whollyKnown v
  | .unk _ _ | .null _ _ | .str _ _ | .num _ _ | .bool _ _ => by simp [unmarkDeep, whollyKnown, setFl]
  | .list _ _ xs => by simp [unmarkDeep, whollyKnown, whollyKnownList_unmarkDeep xs]
  | .tuple _ xs => by simp [unmarkDeep, whollyKnown, whollyKnownList_unmarkDeep xs]
  | .map _ _ xs => by simp [unmarkDeep, whollyKnown, whollyKnownFields_unmarkDeep xs]
  | .object _ xs => by simp [unmarkDeep, whollyKnown, whollyKnownFields_unmarkDeep xs]
theorem whollyKnownList_unmarkDeep : ∀ xs : List Val, whollyKnownList (unmarkDeepList xs) = whollyKnownList xs
  | [] => rfl
  | x :: xs => by simp [unmarkDeepList, whollyKnownList, whollyKnown_unmarkDeep x, whollyKnownList_unmarkDeep xs]
theorem whollyKnownFields_unmarkDeep : ∀ xs : List (String × Val),
    whollyKnownFields (unmarkDeepFields xs) = whollyKnownFields xs
  | [] => rfl
  | (k, x) :: xs => by
    simp [unmarkDeepFields, whollyKnownFields, whollyKnown_unmarkDeep x, whollyKnownFields_unmarkDeep xs]
end

mutual
theorem typeOf_unmarkDeep : ∀ v : Val, typeOf (unmarkDeep v) = typeOf v
  | .unk _ _ | .null _ _ | .str _ _ | .num _ _ | .bool _ _ => by simp [unmarkDeep]
  | .list _ _ xs => by simp [unmarkDeep, typeOf]
  | .tuple _ xs => by simp [unmarkDeep, typeOf, typeOfList_unmarkDeep xs]
  | .map _ _ xs => by simp [unmarkDeep, typeOf]
  | .object _ xs => by simp [unmarkDeep, typeOf, typeOfFields_unmarkDeep xs]
theorem typeOfList_unmarkDeep : ∀ xs : List Val, typeOfList (unmarkDeepList xs) = typeOfList xs
  | [] => rfl
  | x :: xs => by simp [unmarkDeepList, typeOfList, typeOf_unmarkDeep x, typeOfList_unmarkDeep xs]
theorem typeOfFields_unmarkDeep : ∀ xs : List (String × Val),
    typeOfFields (unmarkDeepFields xs) = typeOfFields xs
  | [] => rfl
  | (k, x) :: xs => by
    simp [unmarkDeepFields, typeOfFields, typeOf_unmarkDeep x, typeOfFields_unmarkDeep xs]
end

@[simp] theorem isNull_unmarkDeep (v : Val) : (unmarkDeep v).isNull = v.isNull := by
  cases v <;> simp [unmarkDeep, isNull, setFl]
@[simp] theorem isKnown_unmarkDeep (v : Val) : (unmarkDeep v).isKnown = v.isKnown := by
  cases v <;> simp [unmarkDeep, isKnown, setFl]

end HclModel.Proofs.Unk
