import HclModel.Syntax.TypeExpr
/-!
C20 (type expressions): `parseType (typeString ty) = some ty`, unless an object type has `for` as its first
attribute name.
-/
namespace HclModel.TypeExpr.Proofs
open HclModel.TypeExpr

/-- the continuation does not start with a comma (so a list of items ends here) -/
def NoComma (rest : List Tok) : Prop := ∀ r, rest ≠ .comma :: r

theorem typeString_head (ty : CTy) : ∃ s r, typeString ty = .ident s :: r := by
  cases ty <;> simp [typeString]

theorem typeString_pos (ty : CTy) : 1 ≤ (typeString ty).length := by
  obtain ⟨s, r, h⟩ := typeString_head ty
  simp [h]

theorem typeStrings_head : ∀ (ts : List CTy), ts ≠ [] → ∃ s r, typeStrings ts = .ident s :: r
  | [], h => absurd rfl h
  | [t], _ => by
    obtain ⟨s, r, h⟩ := typeString_head t
    exact ⟨s, r, by simp [typeStrings, h]⟩
  | t :: t2 :: ts, _ => by
    obtain ⟨s, r, h⟩ := typeString_head t
    exact ⟨s, _, by simp [typeStrings, h]; rfl⟩
theorem fieldStrings_head : ∀ (k : String) (t : CTy) (fs : List (String × CTy)),
    ∃ r, fieldStrings ((k, t) :: fs) = .ident k :: r
  | k, t, [] => ⟨_, by simp [fieldStrings]; rfl⟩
  | k, t, f2 :: fs => ⟨_, by simp [fieldStrings]; rfl⟩

mutual
theorem getType_print : ∀ (ty : CTy) (fuel : Nat) (rest : List Tok), noLeadingFor ty = true →
    (typeString ty).length ≤ fuel → getType fuel (typeString ty ++ rest) = some (ty, rest)
  | .str, fuel, rest, _, hf => by
    cases fuel with
    | zero => simp [typeString] at hf
    | succ f => simp [typeString, getType]
  | .num, fuel, rest, _, hf => by
    cases fuel with
    | zero => simp [typeString] at hf
    | succ f => simp [typeString, getType]
  | .bool, fuel, rest, _, hf => by
    cases fuel with
    | zero => simp [typeString] at hf
    | succ f => simp [typeString, getType]
  | .any, fuel, rest, _, hf => by
    cases fuel with
    | zero => simp [typeString] at hf
    | succ f => simp [typeString, getType]
  | .list t, fuel, rest, h, hf => by
    cases fuel with
    | zero => simp [typeString] at hf
    | succ f =>
      have ih := getType_print t f (.rparen :: rest) (by simpa [noLeadingFor] using h)
        (by simp [typeString] at hf; omega)
      simp [typeString, getType, ih]
  | .set t, fuel, rest, h, hf => by
    cases fuel with
    | zero => simp [typeString] at hf
    | succ f =>
      have ih := getType_print t f (.rparen :: rest) (by simpa [noLeadingFor] using h)
        (by simp [typeString] at hf; omega)
      simp [typeString, getType, ih]
  | .map t, fuel, rest, h, hf => by
    cases fuel with
    | zero => simp [typeString] at hf
    | succ f =>
      have ih := getType_print t f (.rparen :: rest) (by simpa [noLeadingFor] using h)
        (by simp [typeString] at hf; omega)
      simp [typeString, getType, ih]
  | .tuple [], fuel, rest, _, hf => by
    cases fuel with
    | zero => simp [typeString] at hf
    | succ f => simp [typeString, typeStrings, getType]
  | .tuple (t :: ts), fuel, rest, h, hf => by
    cases fuel with
    | zero => simp [typeString] at hf
    | succ f =>
      have ih := getTypes_print (t :: ts) f (.rbrack :: .rparen :: rest) (by simp)
        (by intro r hr; cases hr) (by simpa [noLeadingFor] using h)
        (by simp [typeString] at hf; omega)
      obtain ⟨s, r, hs⟩ := typeStrings_head (t :: ts) (by simp)
      rw [hs, List.cons_append] at ih
      simp [typeString, getType, hs, ih]
  | .object [], fuel, rest, _, hf => by
    cases fuel with
    | zero => simp [typeString] at hf
    | succ f => simp [typeString, fieldStrings, getType]
  | .object ((k, t) :: fs), fuel, rest, h, hf => by
    cases fuel with
    | zero => simp [typeString] at hf
    | succ f =>
      have hk : k ≠ "for" := by
        intro hk; subst hk; simp [noLeadingFor] at h
      have ih := getFields_print ((k, t) :: fs) f (.rbrace :: .rparen :: rest) (by simp)
        (by intro r hr; cases hr) (by simp [noLeadingFor] at h; exact h.2)
        (by simp [typeString] at hf; omega)
      obtain ⟨r, hs⟩ := fieldStrings_head k t fs
      rw [hs, List.cons_append] at ih
      simp [typeString, getType, hs, ih, hk]
theorem getTypes_print : ∀ (ts : List CTy) (fuel : Nat) (rest : List Tok), ts ≠ [] → NoComma rest →
    noLeadingForAll ts = true → (typeStrings ts).length + 1 ≤ fuel →
    getTypes fuel (typeStrings ts ++ rest) = some (ts, rest)
  | [], _, _, hne, _, _, _ => absurd rfl hne
  | [t], fuel, rest, _, hnc, h, hf => by
    cases fuel with
    | zero => omega
    | succ f =>
      have ih := getType_print t f rest (by simpa [noLeadingForAll] using h)
        (by simp [typeStrings] at hf; omega)
      simp only [typeStrings, getTypes, ih]
      cases rest with
      | nil => rfl
      | cons a r => cases a <;> first | rfl | exact absurd rfl (hnc r)
  | t :: t2 :: ts, fuel, rest, _, hnc, h, hf => by
    cases fuel with
    | zero => omega
    | succ f =>
      have h' : noLeadingFor t = true ∧ noLeadingForAll (t2 :: ts) = true := by
        simpa [noLeadingForAll] using h
      have hl : (typeStrings (t :: t2 :: ts)).length =
          (typeString t).length + 1 + (typeStrings (t2 :: ts)).length := by
        simp [typeStrings]; omega
      have ih1 := getType_print t f (.comma :: (typeStrings (t2 :: ts) ++ rest)) h'.1 (by omega)
      have ih2 := getTypes_print (t2 :: ts) f rest (by simp) hnc h'.2 (by omega)
      simp [typeStrings, getTypes, ih1, ih2]
theorem getFields_print : ∀ (fs : List (String × CTy)) (fuel : Nat) (rest : List Tok), fs ≠ [] →
    NoComma rest → noLeadingForFields fs = true → (fieldStrings fs).length + 1 ≤ fuel →
    getFields fuel (fieldStrings fs ++ rest) = some (fs, rest)
  | [], _, _, hne, _, _, _ => absurd rfl hne
  | [(k, t)], fuel, rest, _, hnc, h, hf => by
    cases fuel with
    | zero => omega
    | succ f =>
      have ih := getType_print t f rest (by simpa [noLeadingForFields] using h)
        (by simp [fieldStrings] at hf; omega)
      simp only [fieldStrings, getFields, List.cons_append, List.nil_append, ih]
      cases rest with
      | nil => rfl
      | cons a r => cases a <;> first | rfl | exact absurd rfl (hnc r)
  | (k, t) :: f2 :: fs, fuel, rest, _, hnc, h, hf => by
    cases fuel with
    | zero => omega
    | succ f =>
      have h' : noLeadingFor t = true ∧ noLeadingForFields (f2 :: fs) = true := by
        simpa [noLeadingForFields] using h
      have hl : (fieldStrings ((k, t) :: f2 :: fs)).length =
          2 + (typeString t).length + 1 + (fieldStrings (f2 :: fs)).length := by
        simp [fieldStrings]; omega
      have ih1 := getType_print t f (.comma :: (fieldStrings (f2 :: fs) ++ rest)) h'.1 (by omega)
      have ih2 := getFields_print (f2 :: fs) f rest (by simp) hnc h'.2 (by omega)
      simp [fieldStrings, getFields, ih1, ih2]
end

theorem type_roundtrip (ty : CTy) (h : noLeadingFor ty = true) : parseType (typeString ty) = some ty := by
  have := getType_print ty ((typeString ty).length + 1) [] h (by omega)
  simp only [List.append_nil] at this
  simp [parseType, this]

end HclModel.TypeExpr.Proofs
