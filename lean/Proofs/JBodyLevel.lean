import Proofs.JBodyFlat
/-!
C03, one level: what `JBodyV.partialContent` / `content` return for the rendering of an admissible layout
(attributes, blocks, names used, errors), in terms of the layout's properties.
-/
namespace HclModel.JBody.Proofs
open HclModel HclModel.Body HclModel.Body.Proofs

/-! ### well-formed schema trees -/

theorem stWfAll_mem {blocks : List (BlockSchema × STree)} (h : stWfAll blocks = true)
    {p : BlockSchema × STree} (hp : p ∈ blocks) : p.1.type ≠ "//" ∧ p.2.wf = true := by
  induction blocks with
  | nil => cases hp
  | cons q rest ih =>
    obtain ⟨bs, c⟩ := q
    simp only [stWfAll, Bool.and_eq_true, bne_iff_ne, ne_eq] at h
    rcases List.mem_cons.1 hp with e | hm
    · subst e; exact ⟨h.1.1, h.1.2⟩
    · exact ih h.2 hm

theorem wf_nodup {st : STree} (h : st.wf = true) : st.schema.nodup := by
  cases st with
  | mk attrs blocks =>
    simp only [STree.wf, Bool.and_eq_true] at h
    refine ⟨nodup_map_of_eraseDups_length _ _ h.1.1.1, ?_⟩
    have := nodup_map_of_eraseDups_length (fun (p : BlockSchema × STree) => p.1.type) blocks h.1.1.2
    show (List.map (·.type) (blocks.map (·.1))).Nodup
    rw [List.map_map]
    exact this

theorem wf_comment_attr {st : STree} (h : st.wf = true) : st.schema.attrs.any (·.name == "//") = false := by
  cases st with
  | mk attrs blocks =>
    simp only [STree.wf, Bool.and_eq_true, Bool.not_eq_true'] at h
    exact h.1.2

theorem wf_comment_block {st : STree} (h : st.wf = true) : wanted st.schema "//" = none := by
  cases st with
  | mk attrs blocks =>
    simp only [STree.wf, Bool.and_eq_true] at h
    rw [wanted_eq_none_iff]
    intro bs hbs
    simp only [STree.schema, List.mem_map] at hbs
    obtain ⟨p, hp, rfl⟩ := hbs
    exact (stWfAll_mem h.2 hp).1

theorem find?_reverse_of_nodup {α : Type} (key : α → String) (t : String) (l : List α)
    (h : (l.map key).Nodup) :
    l.reverse.find? (fun a => key a == t) = l.find? (fun a => key a == t) := by
  induction l with
  | nil => rfl
  | cons a l ih =>
    simp only [List.map_cons, List.nodup_cons] at h
    simp only [List.reverse_cons, List.find?_append, List.find?_cons, List.find?_nil]
    by_cases ha : key a = t
    · have : l.reverse.find? (fun a => key a == t) = none := by
        simp only [List.find?_eq_none, List.mem_reverse, beq_iff_eq]
        intro x hx e
        exact h.1 (by rw [ha, ← e]; exact List.mem_map_of_mem hx)
      simp [this, ha]
    · have : (key a == t) = false := by simpa using ha
      simp [this, ih h.2]

theorem wanted_eq_find? {s : Schema} (h : s.nodup) (t : String) :
    wanted s t = s.blocks.find? (·.type == t) :=
  find?_reverse_of_nodup (fun b : BlockSchema => b.type) t s.blocks h.2

/-- the child tree of a block type the schema wants -/
theorem wf_child {st : STree} (h : st.wf = true) {t : String} {bs : BlockSchema}
    (hw : wanted st.schema t = some bs) :
    ∃ cst, st.child t = some cst ∧ cst.wf = true ∧ st.schema.blocks.find? (·.type == t) = some bs := by
  have hf := wanted_eq_find? (wf_nodup h) t
  rw [hw] at hf
  cases st with
  | mk attrs blocks =>
    simp only [STree.wf, Bool.and_eq_true] at h
    simp only [STree.schema, List.find?_map] at hf
    cases hb : blocks.find? (fun p => p.1.type == t) with
    | none =>
      have : List.find? ((fun x => x.type == t) ∘ fun x => x.1) blocks = none := hb
      rw [this] at hf; cases hf
    | some p =>
      have hm := List.mem_of_find?_eq_some hb
      refine ⟨p.2, ?_, (stWfAll_mem h.2 hm).2, ?_⟩
      · simp [STree.child, hb]
      · simp only [STree.schema, List.find?_map]
        exact hf.symm

theorem child_none {st : STree} {t : String} (hw : wanted st.schema t = none) : st.child t = none := by
  rw [wanted_eq_none_iff] at hw
  cases st with
  | mk attrs blocks =>
    simp only [STree.child, Option.map_eq_none_iff, List.find?_eq_none, beq_iff_eq]
    intro p hp e
    exact hw p.1 (by simp only [STree.schema, List.mem_map]; exact ⟨p, hp, rfl⟩) e

/-! ### what admissibility says about each property -/

/-- a block-type property the schema wants is written with the label levels the schema says -/
theorem adm_block {st : STree} (h : st.wf = true) {t : String} {u : UnderL} {bs : BlockSchema}
    (hw : wanted st.schema t = some bs)
    (ha : (match st.schema.blocks.find? (·.type == t), st.child t with
           | some bs, some cst => admUnder cst bs.labelCount u
           | _, _ => true) = true) :
    ∃ cst, st.child t = some cst ∧ cst.wf = true ∧ admUnder cst bs.labelCount u = true := by
  obtain ⟨cst, hc, hwf, hf⟩ := wf_child h hw
  rw [hf, hc] at ha
  exact ⟨cst, hc, hwf, ha⟩

theorem admBodies_mem {cst : STree} {bodies : List BodyL} (h : admBodies cst bodies = true)
    {b : BodyL} (hb : b ∈ bodies) : admBody cst b = true := by
  induction bodies with
  | nil => cases hb
  | cons x rest ih =>
    simp only [admBodies, Bool.and_eq_true] at h
    rcases List.mem_cons.1 hb with e | hm
    · subst e; exact h.1
    · exact ih h.2 hm

mutual
theorem adm_flatUnder : ∀ (cst : STree) (t : String) (k : Nat) (labels : List String) (u : UnderL),
    admUnder cst k u = true → ∀ fb ∈ flatUnder t labels u,
      fb.1 = t ∧ fb.2.1.length = labels.length + k ∧ admBody cst fb.2.2 = true
  | cst, t, _, labels, .none, _ => by simp [flatUnder]
  | cst, t, 0, labels, .one props, h => by
    simp only [admUnder] at h
    simp [flatUnder, admBody, h]
  | cst, t, 0, labels, .many bodies, h => by
    simp only [admUnder] at h
    simp only [flatUnder, List.mem_map]
    rintro fb ⟨b, hb, rfl⟩
    exact ⟨rfl, rfl, admBodies_mem h hb⟩
  | cst, t, k+1, labels, .labelsObj part, h => by
    simp only [admUnder] at h
    simp only [flatUnder]
    intro fb hfb
    obtain ⟨h1, h2, h3⟩ := adm_flatLabelProps cst t k labels part h fb hfb
    exact ⟨h1, by omega, h3⟩
  | cst, t, k+1, labels, .labelsArr parts, h => by
    simp only [admUnder, admLabelParts_eq] at h
    simp only [flatUnder, flatLabelParts_eq]
    intro fb hfb
    obtain ⟨h1, h2, h3⟩ := adm_flatLabelProps cst t k labels parts.flatten h fb hfb
    exact ⟨h1, by omega, h3⟩
  | cst, t, 0, labels, .labelsObj _, h => by simp [admUnder] at h
  | cst, t, 0, labels, .labelsArr _, h => by simp [admUnder] at h
  | cst, t, k+1, labels, .one _, h => by simp [admUnder] at h
  | cst, t, k+1, labels, .many _, h => by simp [admUnder] at h
theorem adm_flatLabelProps : ∀ (cst : STree) (t : String) (k : Nat) (labels : List String)
    (part : List (String × UnderL)),
    admLabelProps cst k part = true → ∀ fb ∈ flatLabelProps t labels part,
      fb.1 = t ∧ fb.2.1.length = labels.length + 1 + k ∧ admBody cst fb.2.2 = true
  | cst, t, k, labels, [], _ => by simp [flatLabelProps]
  | cst, t, k, labels, (k', u) :: rest, h => by
    simp only [admLabelProps, Bool.and_eq_true] at h
    simp only [flatLabelProps, List.mem_append]
    rintro fb (hfb | hfb)
    · have := adm_flatUnder cst t k (labels ++ [k']) u h.1 fb hfb
      simpa using this
    · exact adm_flatLabelProps cst t k labels rest h.2 fb hfb
end

/-- membership in the flat block list -/
theorem mem_flatBlocks {ps : List PropL} {fb : FBlock} :
    fb ∈ flatBlocks ps ↔ ∃ t u, PropL.blocks t u ∈ ps ∧ fb ∈ flatUnder t [] u := by
  induction ps with
  | nil => simp [flatBlocks]
  | cons p rest ih =>
    cases p with
    | blocks t u =>
      simp only [flatBlocks, List.mem_append, ih, List.mem_cons]
      constructor
      · rintro (h | ⟨t', u', hm, hf⟩)
        · exact ⟨t, u, Or.inl rfl, h⟩
        · exact ⟨t', u', Or.inr hm, hf⟩
      · rintro ⟨t', u', (e | hm), hf⟩
        · cases e; exact Or.inl hf
        · exact Or.inr ⟨t', u', hm, hf⟩
    | comment v => simp [flatBlocks, ih]
    | attr n v => simp [flatBlocks, ih]

theorem mem_denoteAttrs {ps : List PropL} {p : String × JV} :
    p ∈ denoteAttrs ps ↔ PropL.attr p.1 p.2 ∈ ps := by
  induction ps with
  | nil => simp [denoteAttrs]
  | cons q rest ih =>
    cases q with
    | attr n v =>
      simp only [denoteAttrs, List.mem_cons, ih, PropL.attr.injEq]
      constructor
      · rintro (e | h)
        · left; cases e; exact ⟨rfl, rfl⟩
        · exact Or.inr h
      · rintro (⟨e1, e2⟩ | h)
        · left; exact Prod.ext e1 e2
        · exact Or.inr h
    | comment v => simp [denoteAttrs, ih]
    | blocks t u => simp [denoteAttrs, ih]

/-- admissibility, property by property -/
structure PropAdm (st : STree) (p : PropL) : Prop where
  attr : ∀ n v, p = .attr n v →
    n ≠ "//" ∧ st.schema.blocks.any (·.type == n) = false ∧ uniqueKeys v = true
  blocks : ∀ t u, p = .blocks t u →
    t ≠ "//" ∧ st.schema.attrs.any (·.name == t) = false ∧
      (match st.schema.blocks.find? (·.type == t), st.child t with
       | some bs, some cst => admUnder cst bs.labelCount u
       | _, _ => true) = true

theorem admProps_iff (st : STree) (ps : List PropL) :
    admProps st ps = true ↔ ∀ p ∈ ps, PropAdm st p := by
  induction ps with
  | nil => simp [admProps]
  | cons p rest ih =>
    simp only [List.forall_mem_cons, ← ih]
    cases p with
    | comment v =>
      simp only [admProps, iff_and_self]
      intro _
      exact ⟨fun _ _ e => (by cases e), fun _ _ e => (by cases e)⟩
    | attr n v =>
      simp only [admProps, Bool.and_eq_true, bne_iff_ne, ne_eq, Bool.not_eq_true']
      constructor
      · rintro ⟨⟨⟨h1, h2⟩, h3⟩, h4⟩
        exact ⟨⟨fun _ _ e => (by cases e; exact ⟨h1, h2, h3⟩), fun _ _ e => (by cases e)⟩, h4⟩
      · rintro ⟨⟨h, _⟩, h4⟩
        obtain ⟨h1, h2, h3⟩ := h n v rfl
        exact ⟨⟨⟨h1, h2⟩, h3⟩, h4⟩
    | blocks t u =>
      simp only [admProps, Bool.and_eq_true, bne_iff_ne, ne_eq, Bool.not_eq_true']
      constructor
      · rintro ⟨⟨⟨h1, h2⟩, h3⟩, h4⟩
        exact ⟨⟨fun _ _ e => (by cases e), fun _ _ e => (by cases e; exact ⟨h1, h2, h3⟩)⟩, h4⟩
      · rintro ⟨⟨_, h⟩, h4⟩
        obtain ⟨h1, h2, h3⟩ := h t u rfl
        exact ⟨⟨⟨h1, h2⟩, h3⟩, h4⟩

/-- every block written under a type the schema wants has the right number of labels and an admissible body -/
theorem adm_flatBlocks {st : STree} (hst : st.wf = true) {ps : List PropL} (hadm : admProps st ps = true)
    {fb : FBlock} (hfb : fb ∈ flatBlocks ps) {bs : BlockSchema} (hw : wanted st.schema fb.1 = some bs) :
    ∃ cst, st.child fb.1 = some cst ∧ cst.wf = true ∧ fb.2.1.length = bs.labelCount ∧
      admBody cst fb.2.2 = true := by
  obtain ⟨t, u, hm, hf⟩ := mem_flatBlocks.1 hfb
  have hp := ((admProps_iff st ps).1 hadm _ hm).blocks t u rfl
  have ht : fb.1 = t := flatUnder_type t [] u fb hf
  rw [ht] at hw ⊢
  obtain ⟨cst, hc, hwf, hu⟩ := adm_block hst hw hp.2.2
  have := adm_flatUnder cst t bs.labelCount [] u hu fb hf
  exact ⟨cst, hc, hwf, by simpa using this.2.1, this.2.2⟩

end HclModel.JBody.Proofs
