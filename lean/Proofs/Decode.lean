import HclModel.Dec.Decode
/-!
C08: decoding against a specification yields a value of the specification's implied type.

* `Ty.beq` is equality; `conforms` is reflexive, and conformance to a type without the dynamic pseudo-type is
  equality
* typing of `convert`: a successful conversion to `t` yields a value whose type conforms to `t`
* `decode_conforms` by structural recursion over the specification (`decode` itself is defined by
  well-founded recursion, so the loops `decodeBlocks` / `decodeMap` are handled by list induction under the
  induction hypothesis for the nested specification)
-/
namespace HclModel.Dec.Proofs
open HclModel HclModel.Val

/-! ### `Ty.beq` is equality -/

mutual
theorem tyBeq_refl : ∀ a : Ty, Ty.beq a a = true
  | .str | .num | .bool | .dyn => by simp [Ty.beq]
  | .list a => by simp [Ty.beq, tyBeq_refl a]
  | .map a => by simp [Ty.beq, tyBeq_refl a]
  | .tuple as => by simp [Ty.beq, tyBeqList_refl as]
  | .object fs => by simp [Ty.beq, tyBeqFields_refl fs]
theorem tyBeqList_refl : ∀ as : List Ty, Ty.beqList as as = true
  | [] => by simp [Ty.beqList]
  | a :: as => by simp [Ty.beqList, tyBeq_refl a, tyBeqList_refl as]
theorem tyBeqFields_refl : ∀ as : List (String × Ty), Ty.beqFields as as = true
  | [] => by simp [Ty.beqFields]
  | (k, a) :: as => by simp [Ty.beqFields, tyBeq_refl a, tyBeqFields_refl as]
end

mutual
theorem tyBeq_eq : ∀ a b : Ty, Ty.beq a b = true → a = b
  | .str, b => by cases b <;> simp [Ty.beq]
  | .num, b => by cases b <;> simp [Ty.beq]
  | .bool, b => by cases b <;> simp [Ty.beq]
  | .dyn, b => by cases b <;> simp [Ty.beq]
  | .list a, b => by
    cases b <;> simp [Ty.beq]
    exact tyBeq_eq a _
  | .map a, b => by
    cases b <;> simp [Ty.beq]
    exact tyBeq_eq a _
  | .tuple as, b => by
    cases b <;> simp [Ty.beq]
    exact tyBeqList_eq as _
  | .object fs, b => by
    cases b <;> simp [Ty.beq]
    exact tyBeqFields_eq fs _
theorem tyBeqList_eq : ∀ as bs : List Ty, Ty.beqList as bs = true → as = bs
  | [], bs => by cases bs <;> simp [Ty.beqList]
  | a :: as, bs => by
    cases bs with
    | nil => simp [Ty.beqList]
    | cons b bs =>
      simp only [Ty.beqList, Bool.and_eq_true, List.cons.injEq]
      exact fun h => ⟨tyBeq_eq a b h.1, tyBeqList_eq as bs h.2⟩
theorem tyBeqFields_eq : ∀ as bs : List (String × Ty), Ty.beqFields as bs = true → as = bs
  | [], bs => by cases bs <;> simp [Ty.beqFields]
  | (k, a) :: as, bs => by
    cases bs with
    | nil => simp [Ty.beqFields]
    | cons b bs =>
      obtain ⟨l, b⟩ := b
      simp only [Ty.beqFields, Bool.and_eq_true, List.cons.injEq, Prod.mk.injEq, beq_iff_eq]
      exact fun h => ⟨⟨h.1.1, tyBeq_eq a b h.1.2⟩, tyBeqFields_eq as bs h.2⟩
end

theorem ty_beq_refl (a : Ty) : (a == a) = true := tyBeq_refl a
theorem ty_beq_eq {a b : Ty} (h : (a == b) = true) : a = b := tyBeq_eq a b h

/-! ### `conforms` -/

mutual
theorem conforms_refl : ∀ a : Ty, conforms a a = true
  | .str | .num | .bool | .dyn => by simp [conforms]
  | .list a => by simp [conforms, conforms_refl a]
  | .map a => by simp [conforms, conforms_refl a]
  | .tuple as => by simp [conforms, conformsAll_refl as]
  | .object fs => by simp [conforms, conformsFields_refl fs]
theorem conformsAll_refl : ∀ as : List Ty, conformsAll as as = true
  | [] => by simp [conformsAll]
  | a :: as => by simp [conformsAll, conforms_refl a, conformsAll_refl as]
theorem conformsFields_refl : ∀ as : List (String × Ty), conformsFields as as = true
  | [] => by simp [conformsFields]
  | (k, a) :: as => by simp [conformsFields, conforms_refl a, conformsFields_refl as]
end

theorem conforms_dyn (a : Ty) : conforms a .dyn = true := by cases a <;> simp [conforms]

mutual
/-- conformance to a type without the dynamic pseudo-type is equality -/
theorem conforms_eq : ∀ a b : Ty, conforms a b = true → hasDyn b = false → a = b
  | a, .dyn => by simp [hasDyn]
  | a, .str => by cases a <;> simp [conforms]
  | a, .num => by cases a <;> simp [conforms]
  | a, .bool => by cases a <;> simp [conforms]
  | a, .list b => by
    cases a <;> simp [conforms, hasDyn]
    exact conforms_eq _ b
  | a, .map b => by
    cases a <;> simp [conforms, hasDyn]
    exact conforms_eq _ b
  | a, .tuple bs => by
    cases a <;> simp [conforms, hasDyn]
    exact conformsAll_eq _ bs
  | a, .object bs => by
    cases a <;> simp [conforms, hasDyn]
    exact conformsFields_eq _ bs
theorem conformsAll_eq : ∀ as bs : List Ty, conformsAll as bs = true → hasDynAll bs = false → as = bs
  | as, [] => by cases as <;> simp [conformsAll]
  | as, b :: bs => by
    cases as with
    | nil => simp [conformsAll]
    | cons a as =>
      simp only [conformsAll, hasDynAll, Bool.and_eq_true, Bool.or_eq_false_iff, List.cons.injEq]
      exact fun h g => ⟨conforms_eq a b h.1 g.1, conformsAll_eq as bs h.2 g.2⟩
theorem conformsFields_eq : ∀ as bs : List (String × Ty), conformsFields as bs = true → hasDynFields bs = false → as = bs
  | as, [] => by cases as <;> simp [conformsFields]
  | as, (l, b) :: bs => by
    cases as with
    | nil => simp [conformsFields]
    | cons a as =>
      obtain ⟨k, a⟩ := a
      simp only [conformsFields, hasDynFields, Bool.and_eq_true, Bool.or_eq_false_iff, List.cons.injEq,
        Prod.mk.injEq, beq_iff_eq]
      exact fun h g => ⟨⟨h.1.1, conforms_eq a b h.1.2 g.1⟩, conformsFields_eq as bs h.2 g.2⟩
end

/-! ### typing of `convert` -/

theorem bind_ok {α β : Type} {x : R α} {f : α → R β} {r : β} :
    (x >>= f) = .ok r ↔ ∃ a, x = .ok a ∧ f a = .ok r := by
  cases x <;> simp [bind, Except.bind]

theorem pure_ok {α : Type} {a r : α} : (pure a : R α) = .ok r ↔ a = r := by
  simp [pure, Except.pure]

theorem throw_ok {α : Type} {e : Err} {r : α} : (throw e : R α) = .ok r ↔ False := by
  simp [throw, throwThe, MonadExceptOf.throw]

theorem convert_dyn (v : Val) : convert v .dyn = .ok v := by
  rw [convert.eq_def]; split <;> rfl

theorem convert_self (v : Val) (t : Ty) (h : v.typeOf = t) : convert v t = .ok v := by
  rw [convert.eq_def, if_pos (by rw [h]; exact ty_beq_refl t)]; rfl

mutual
theorem convert_conforms : ∀ (v : Val) (t : Ty) (v' : Val), convert v t = .ok v' → conforms v'.typeOf t = true
  | v, t, v', h => by
    rw [convert.eq_def] at h
    split at h
    · rename_i hty
      rw [pure_ok] at h; subst h
      rw [← ty_beq_eq hty]; exact conforms_refl _
    · split at h
      · exact conforms_dyn _
      · cases v with
        | unk f s =>
          simp only at h
          split at h <;> simp only [pure_ok, throw_ok] at h
          subst h; exact conforms_refl _
        | null f s =>
          simp only at h
          split at h <;> simp only [pure_ok, throw_ok] at h
          subst h; exact conforms_refl _
        | str f s =>
          simp only at h
          repeat' split at h
          all_goals simp only [pure_ok, throw_ok] at h
          all_goals subst h; simp [typeOf, conforms]
        | num f q =>
          simp only at h
          repeat' split at h
          all_goals simp only [pure_ok, throw_ok] at h
          all_goals subst h; simp [typeOf, conforms]
        | bool f b =>
          simp only at h
          repeat' split at h
          all_goals simp only [pure_ok, throw_ok] at h
          all_goals subst h; simp [typeOf, conforms]
        | list f u xs =>
          simp only at h
          repeat' split at h
          all_goals simp only [pure_ok, throw_ok, bind_ok] at h
          obtain ⟨ys, -, rfl⟩ := h
          simp only [typeOf]; exact conforms_refl _
        | map f u xs =>
          simp only at h
          repeat' split at h
          all_goals simp only [pure_ok, throw_ok, bind_ok] at h
          obtain ⟨ys, -, rfl⟩ := h
          simp only [typeOf]; exact conforms_refl _
        | tuple f xs =>
          simp only at h
          repeat' split at h
          all_goals simp only [pure_ok, throw_ok, bind_ok] at h
          · obtain ⟨ys, -, rfl⟩ := h
            simp only [typeOf]; exact conforms_refl _
          · obtain ⟨ys, hys, rfl⟩ := h
            simp only [typeOf, conforms]
            exact convertPair_conforms xs _ ys hys ‹_›
        | object f kvs =>
          simp only at h
          repeat' split at h
          all_goals simp only [pure_ok, throw_ok, bind_ok] at h
          · obtain ⟨ys, -, rfl⟩ := h
            simp only [typeOf]; exact conforms_refl _
          · obtain ⟨ys, hys, rfl⟩ := h
            simp only [typeOf, conforms]
            exact convertFieldsTo_conforms kvs _ ys hys ‹_›
theorem convertPair_conforms : ∀ (xs : List Val) (ts : List Ty) (ys : List Val), convertPair xs ts = .ok ys →
    xs.length = ts.length → conformsAll (typeOfList ys) ts = true
  | [], ts, ys, h, hl => by
    cases ts with
    | nil => 
      rw [convertPair.eq_def] at h; simp only [pure_ok] at h; subst h; simp [typeOfList, conformsAll]
    | cons => simp at hl
  | x :: xs, [], ys, h, hl => by simp at hl
  | x :: xs, t :: ts, ys, h, hl => by
    rw [convertPair.eq_def] at h
    simp only [pure_ok, bind_ok] at h
    obtain ⟨y, hy, ys', hys, rfl⟩ := h
    simp only [typeOfList, conformsAll, Bool.and_eq_true]
    exact ⟨convert_conforms x t y hy, convertPair_conforms xs ts ys' hys (by simpa using hl)⟩
theorem convertFieldsTo_conforms : ∀ (xs : List (String × Val)) (ts : List (String × Ty)) (ys : List (String × Val)),
    convertFieldsTo xs ts = .ok ys → sameKeys xs ts = true → conformsFields (typeOfFields ys) ts = true
  | [], ts, ys, h, hl => by
    cases ts with
    | nil => 
      rw [convertFieldsTo.eq_def] at h; simp only [pure_ok] at h; subst h; simp [typeOfFields, conformsFields]
    | cons => simp [sameKeys] at hl
  | x :: xs, [], ys, h, hl => by simp [sameKeys] at hl
  | (k, x) :: xs, (l, t) :: ts, ys, h, hl => by
    rw [convertFieldsTo.eq_def] at h
    simp only [pure_ok, bind_ok] at h
    obtain ⟨y, hy, ys', hys, rfl⟩ := h
    simp only [sameKeys, Bool.and_eq_true] at hl
    simp only [typeOfFields, conformsFields, Bool.and_eq_true]
    exact ⟨⟨hl.1, convert_conforms x t y hy⟩, convertFieldsTo_conforms xs ts ys' hys hl.2⟩
end

/-! ### the loops of the block specifications -/

/-- the statement for one specification (the induction hypothesis for nested specifications) -/
def Good (s : Spec) : Prop :=
  ∀ attrs blocks labels v err, decode s attrs blocks labels = .ok v err → conforms v.typeOf (impliedType s) = true

theorem decodeBlocks_conf (nested : Spec) (H : Good nested) :
    ∀ (bs : List DBlock) (skip : Nat) (vs : List Val) (err : Bool), decodeBlocks nested bs skip = some (vs, err) →
      ∀ w ∈ vs, conforms w.typeOf (impliedType nested) = true
  | [], skip, vs, err, h => by
    rw [decodeBlocks.eq_def] at h
    simp only [Option.some.injEq, Prod.mk.injEq] at h
    obtain ⟨rfl, -⟩ := h
    simp
  | b :: rest, skip, vs, err, h => by
    rw [decodeBlocks.eq_def] at h
    simp only at h
    split at h
    · rename_i v e vs' e' hv hvs
      simp only [Option.some.injEq, Prod.mk.injEq] at h
      obtain ⟨rfl, -⟩ := h
      intro w hw
      rcases List.mem_cons.mp hw with rfl | hw
      · exact H _ _ _ _ _ hv
      · exact decodeBlocks_conf nested H rest skip vs' e' hvs w hw
    · simp at h

/-- trees built by a BlockMap with one label: one level of leaves, all of type `T` -/
def Flat (T : Ty) (t : MTree) : Prop :=
  ∃ kids, t = .node kids ∧ ∀ p ∈ kids, ∃ v, p.2 = .leaf v ∧ v.typeOf = T

theorem mem_insertSorted {α : Type} (k : String) (x : α) :
    ∀ (l : List (String × α)) (p : String × α), p ∈ insertSorted k x l → p = (k, x) ∨ p ∈ l
  | [], p, h => by simp [insertSorted] at h; exact Or.inl h
  | (k', v') :: rest, p, h => by
    simp only [insertSorted] at h
    split at h
    · simp only [List.mem_cons] at h ⊢; exact h
    · split at h
      · simp only [List.mem_cons] at h ⊢
        rcases h with h | h
        · exact Or.inl h
        · exact Or.inr (Or.inr h)
      · simp only [List.mem_cons] at h ⊢
        rcases h with h | h
        · exact Or.inr (Or.inl h)
        · rcases mem_insertSorted k x rest p h with h | h
          · exact Or.inl h
          · exact Or.inr (Or.inr h)

theorem mtInsert_flat {T : Ty} {t t' : MTree} {k : String} {v : Val} (ht : Flat T t) (hv : v.typeOf = T)
    (h : mtInsert [k] v t = some t') : Flat T t' := by
  obtain ⟨kids, rfl, hk⟩ := ht
  simp only [mtInsert] at h
  split at h
  · simp at h
  · simp only [Option.some.injEq] at h
    subst h
    refine ⟨_, rfl, ?_⟩
    intro p hp
    rcases mem_insertSorted _ _ _ _ hp with rfl | hp
    · exact ⟨v, rfl, hv⟩
    · exact hk p hp

theorem decodeMap_flat (nested : Spec) (H : Good nested) (hd : hasDyn (impliedType nested) = false) :
    ∀ (bs : List DBlock) (t : MTree) (err : Bool) (t' : MTree) (err' : Bool), Flat (impliedType nested) t →
      decodeMap nested 1 bs t err = some (t', err') → Flat (impliedType nested) t'
  | [], t, err, t', err', ht, h => by
    rw [decodeMap.eq_def] at h
    simp only [Option.some.injEq, Prod.mk.injEq] at h
    obtain ⟨rfl, -⟩ := h
    exact ht
  | b :: rest, t, err, t', err', ht, h => by
    rw [decodeMap.eq_def] at h
    simp only at h
    split at h
    · simp at h
    · rename_i hlen
      split at h
      · simp at h
      · rename_i v e hv
        have hty : v.typeOf = impliedType nested := conforms_eq _ _ (H _ _ _ _ _ hv) hd
        split at h
        · rename_i t1 hins
          have : ∃ l, List.take 1 b.labels = [l] := by
            cases hl : b.labels with
            | nil => simp [hl] at hlen
            | cons l ls => exact ⟨l, by simp⟩
          obtain ⟨l, hl⟩ := this
          rw [hl] at hins
          exact decodeMap_flat nested H hd rest t1 _ t' err' (mtInsert_flat ht hty hins) h
        · exact decodeMap_flat nested H hd rest t _ t' err' ht h

/-! ### `cty.MapVal` -/

theorem mapVal_typeOf {kvs : List (String × Val)} {v : Val} (h : mapVal kvs = some v) :
    v.typeOf = .map (mapElemTy kvs) ∧ kvs ≠ [] := by
  simp only [mapVal] at h
  split at h
  · cases h
  · rename_i hne
    split at h
    · cases h
      refine ⟨rfl, ?_⟩
      intro he; subst he; simp at hne
    · cases h

/-- the element type is the type of one of the values -/
theorem mapElemTy_mem : ∀ (kvs : List (String × Val)), kvs ≠ [] → ∃ q ∈ kvs, q.2.typeOf = mapElemTy kvs
  | [], h => absurd rfl h
  | (k, v) :: rest, _ => by
    simp only [mapElemTy]
    split
    · rename_i hd
      cases rest with
      | nil => exact ⟨(k, v), by simp, by simpa [mapElemTy] using ty_beq_eq hd⟩
      | cons q rest =>
        obtain ⟨q', hq', ht⟩ := mapElemTy_mem (q :: rest) (by simp)
        exact ⟨q', List.mem_cons_of_mem _ hq', ht⟩
    · exact ⟨(k, v), by simp, rfl⟩

/-- a map built by `cty.MapVal` from values that all conform to `T` conforms to `map(T)` -/
theorem mapVal_conforms {T : Ty} {kvs : List (String × Val)} {v : Val} (h : mapVal kvs = some v)
    (hall : ∀ q ∈ kvs, conforms q.2.typeOf T = true) : conforms v.typeOf (.map T) = true := by
  obtain ⟨hty, hne⟩ := mapVal_typeOf h
  obtain ⟨q, hq, ht⟩ := mapElemTy_mem kvs hne
  rw [hty, ← ht]
  simp only [conforms]
  exact hall q hq

theorem mem_foldl_insertSorted {α β : Type} (f : β → String × α) :
    ∀ (l : List β) (acc : List (String × α)) (q : String × α),
      q ∈ l.foldl (fun acc p => insertSorted (f p).1 (f p).2 acc) acc → q ∈ acc ∨ ∃ p ∈ l, q = f p
  | [], acc, q, h => Or.inl h
  | p :: l, acc, q, h => by
    simp only [List.foldl_cons] at h
    rcases mem_foldl_insertSorted f l _ q h with h | ⟨p', hp', rfl⟩
    · rcases mem_insertSorted _ _ _ _ h with rfl | h
      · exact Or.inr ⟨p, by simp, rfl⟩
      · exact Or.inl h
    · exact Or.inr ⟨p', List.mem_cons_of_mem _ hp', rfl⟩

theorem mtVals_flat {T : Ty} : ∀ (kids : List (String × MTree)) (vs : List (String × Val)),
    (∀ p ∈ kids, ∃ v, p.2 = .leaf v ∧ v.typeOf = T) → mtVals kids = some vs → ∀ q ∈ vs, q.2.typeOf = T
  | [], vs, _, h => by
    simp only [mtVals, Option.some.injEq] at h
    subst h; simp
  | (k, t) :: kids, vs, hk, h => by
    obtain ⟨v, hv, hty⟩ := hk (k, t) (by simp)
    simp only at hv; subst hv
    simp only [mtVals, mtVal] at h
    split at h
    · rename_i v' vs' hv' hvs'
      cases hv'
      cases h
      intro q hq
      rcases List.mem_cons.mp hq with rfl | hq
      · exact hty
      · exact mtVals_flat kids vs' (fun p hp => hk p (List.mem_cons_of_mem _ hp)) hvs' q hq
    · cases h

theorem mtVal_flat {T : Ty} {t : MTree} {v : Val} (h : Flat T t) (hv : mtVal t = some v) :
    v.typeOf = .map T := by
  obtain ⟨kids, rfl, hk⟩ := h
  simp only [mtVal] at hv
  split at hv
  · rename_i vs hvs
    have hall := mtVals_flat kids vs hk hvs
    obtain ⟨hty, hne⟩ := mapVal_typeOf hv
    obtain ⟨q, hq, ht⟩ := mapElemTy_mem vs hne
    rw [hty, ← ht, hall q hq]
  · cases hv

/-! ### the main theorem -/

mutual
theorem decode_good : ∀ (s : Spec), wf s = true → okSpec s = true → Good s
  | .object fields, hw, hok => by
    intro attrs blocks labels v err h
    rw [decode.eq_1] at h
    simp only [wf] at hw; simp only [okSpec] at hok
    split at h
    · rename_i kvs e hf
      cases h
      simp only [typeOf, impliedType, conforms]
      exact decodeFields_good fields hw hok attrs blocks labels kvs _ hf
    · cases h
  | .tuple elems, hw, hok => by
    intro attrs blocks labels v err h
    rw [decode.eq_2] at h
    simp only [wf] at hw; simp only [okSpec] at hok
    split at h
    · rename_i vs e hf
      cases h
      simp only [typeOf, impliedType, conforms]
      exact decodeAll_good elems hw hok attrs blocks labels vs _ hf
    · cases h
  | .attr name ty req, hw, hok => by
    intro attrs blocks labels v err h
    rw [decode.eq_3] at h
    simp only [impliedType]
    split at h
    · cases h; exact conforms_refl _
    · split at h
      · rename_i hc
        cases h; exact convert_conforms _ _ _ hc
      · cases h; exact conforms_refl _
  | .literal v0, hw, hok => by
    intro attrs blocks labels v err h
    rw [decode.eq_4] at h
    cases h; exact conforms_refl _
  | .block type nested req, hw, hok => by
    intro attrs blocks labels v err h
    rw [decode.eq_5] at h
    simp only [wf] at hw; simp only [okSpec] at hok
    simp only [impliedType]
    split at h
    · cases h; exact conforms_refl _
    · split at h
      · rename_i hv
        cases h; exact decode_good nested hw hok _ _ _ _ _ hv
      · cases h
  | .blockList type nested min max, hw, hok => by
    intro attrs blocks labels v err h
    rw [decode.eq_6] at h
    simp only [wf] at hw
    simp only [okSpec, Bool.and_eq_true, Bool.not_eq_true'] at hok
    simp only [impliedType]
    split at h
    · cases h
    · rename_i elems e hb
      have hall := decodeBlocks_conf nested (decode_good nested hw hok.2) _ _ _ _ hb
      have hty : ∀ w ∈ elems, w.typeOf = impliedType nested := fun w hw' => conforms_eq _ _ (hall w hw') hok.1
      simp only at h
      split at h
      · cases h; exact conforms_refl _
      · rename_i v1 vs
        have h1 := hty v1 (by simp)
        have : (vs.all fun w => w.typeOf == v1.typeOf) = true := by
          rw [List.all_eq_true]
          intro w hw'
          rw [hty w (by simp [hw']), h1]; exact ty_beq_refl _
        rw [if_pos this] at h
        cases h
        simp only [typeOf, h1]; exact conforms_refl _
  | .blockTuple type nested min max, hw, hok => by
    intro attrs blocks labels v err h
    simp only [impliedType]; exact conforms_dyn _
  | .blockMap type n nested, hw, hok => by
    intro attrs blocks labels v err h
    rw [decode.eq_8] at h
    simp only [wf, Bool.and_eq_true, Bool.not_eq_true', decide_eq_true_eq] at hw
    simp only [okSpec, Bool.and_eq_true, beq_iff_eq] at hok
    obtain ⟨rfl, hok⟩ := hok
    obtain ⟨⟨-, hd⟩, hw⟩ := hw
    simp only [impliedType, nestMap]
    rw [if_neg (by simp [hd]), if_neg (by simp)] at h
    split at h
    · cases h
    · cases h; exact conforms_refl _
    · rename_i t e hne hm
      have hflat := decodeMap_flat nested (decode_good nested hw hok) hd _ _ _ _ _ ⟨[], rfl, by simp⟩ hm
      split at h
      · rename_i v' hv'
        cases h
        rw [mtVal_flat hflat hv']; exact conforms_refl _
      · cases h
  | .blockObject type n nested, hw, hok => by
    intro attrs blocks labels v err h
    simp only [impliedType]; exact conforms_dyn _
  | .blockAttrs type ety req, hw, hok => by
    intro attrs blocks labels v err h
    rw [decode.eq_10] at h
    simp only [impliedType]
    split at h
    · cases h; exact conforms_refl _
    · split at h
      · cases h; exact conforms_refl _
      · simp only at h
        split at h
        · split at h
          · rename_i v' hv'
            cases h
            refine mapVal_conforms hv' ?_
            intro q hq
            rcases mem_foldl_insertSorted (fun p : String × Val × Bool => (p.1, p.2.1)) _ _ q hq with hq | ⟨p, hp, rfl⟩
            · simp at hq
            · obtain ⟨a, -, rfl⟩ := List.mem_map.mp hp
              simp only
              split
              · rename_i hc
                exact convert_conforms _ _ _ hc
              · exact conforms_refl _
          · cases h
        · cases h; exact conforms_refl _
  | .blockLabel i, hw, hok => by
    intro attrs blocks labels v err h
    rw [decode.eq_11] at h
    simp only [impliedType]
    split at h
    · cases h; rfl
    · cases h
  | .default p f, hw, hok => by
    intro attrs blocks labels v err h
    rw [decode.eq_12] at h
    simp only [wf, Bool.and_eq_true] at hw
    simp only [okSpec, Bool.and_eq_true] at hok
    simp only [impliedType]
    split at h
    · rename_i v1 e1 h1
      split at h
      · split at h
        · rename_i v2 e2 h2
          cases h
          rw [ty_beq_eq hw.2]
          exact decode_good f hw.1.2 hok.2 _ _ _ _ _ h2
        · cases h
      · cases h
        exact decode_good p hw.1.1 hok.1 _ _ _ _ _ h1
    · cases h
theorem decodeFields_good : ∀ (fields : List (String × Spec)), wfFields fields = true → okFields fields = true →
    ∀ attrs blocks labels kvs err, decodeFields fields attrs blocks labels = some (kvs, err) →
      conformsFields (typeOfFields kvs) (impliedFields fields) = true
  | [], hw, hok => by
    intro attrs blocks labels kvs err h
    rw [decodeFields.eq_def] at h
    simp only [Option.some.injEq, Prod.mk.injEq] at h
    obtain ⟨rfl, -⟩ := h
    simp [typeOfFields, impliedFields, conformsFields]
  | (k, s) :: rest, hw, hok => by
    intro attrs blocks labels kvs err h
    rw [decodeFields.eq_def] at h
    simp only [wfFields, Bool.and_eq_true] at hw
    simp only [okFields, Bool.and_eq_true] at hok
    simp only at h
    split at h
    · rename_i v e kvs' e' hv hr
      simp only [Option.some.injEq, Prod.mk.injEq] at h
      obtain ⟨rfl, -⟩ := h
      simp only [typeOfFields, impliedFields, conformsFields, Bool.and_eq_true, beq_self_eq_true, true_and]
      exact ⟨decode_good s hw.1 hok.1 _ _ _ _ _ hv, decodeFields_good rest hw.2 hok.2 _ _ _ _ _ hr⟩
    · simp at h
theorem decodeAll_good : ∀ (elems : List Spec), wfAll elems = true → okAll elems = true →
    ∀ attrs blocks labels vs err, decodeAll elems attrs blocks labels = some (vs, err) →
      conformsAll (typeOfList vs) (impliedAll elems) = true
  | [], hw, hok => by
    intro attrs blocks labels vs err h
    rw [decodeAll.eq_def] at h
    simp only [Option.some.injEq, Prod.mk.injEq] at h
    obtain ⟨rfl, -⟩ := h
    simp [typeOfList, impliedAll, conformsAll]
  | s :: rest, hw, hok => by
    intro attrs blocks labels vs err h
    rw [decodeAll.eq_def] at h
    simp only [wfAll, Bool.and_eq_true] at hw
    simp only [okAll, Bool.and_eq_true] at hok
    simp only at h
    split at h
    · rename_i v e vs' e' hv hr
      simp only [Option.some.injEq, Prod.mk.injEq] at h
      obtain ⟨rfl, -⟩ := h
      simp only [typeOfList, impliedAll, conformsAll, Bool.and_eq_true]
      exact ⟨decode_good s hw.1 hok.1 _ _ _ _ _ hv, decodeAll_good rest hw.2 hok.2 _ _ _ _ _ hr⟩
    · simp at h
end

theorem decode_conforms (s : Spec) (hw : wf s = true) (hok : okSpec s = true)
    (attrs : List DAttr) (blocks : List DBlock) (labels : List String) (v : Val) (err : Bool)
    (h : decode s attrs blocks labels = .ok v err) : conforms v.typeOf (impliedType s) = true :=
  decode_good s hw hok attrs blocks labels v err h

end HclModel.Dec.Proofs
