/-! S-expressions: the wire format of the line protocol between the Go harness and the model. -/
namespace HclModel

inductive Sexp where
  | atom (s : String)
  | list (xs : List Sexp)
deriving Repr, Inhabited, BEq

namespace Sexp

partial def toStr : Sexp → String
  | .atom s => s
  | .list xs => "(" ++ " ".intercalate (xs.map toStr) ++ ")"

instance : ToString Sexp := ⟨toStr⟩

/-- tokenizer: parens are their own tokens, everything else splits on whitespace -/
def tokenize (s : String) : List String := Id.run do
  let mut out : Array String := #[]
  let mut cur : String := ""
  for c in s.toList do
    if c == '(' || c == ')' then
      if cur != "" then out := out.push cur; cur := ""
      out := out.push (String.singleton c)
    else if c == ' ' || c == '\t' || c == '\n' || c == '\r' then
      if cur != "" then out := out.push cur; cur := ""
    else
      cur := cur.push c
  if cur != "" then out := out.push cur
  return out.toList

/-- parse a token list into a sequence of s-expressions (stack machine, total) -/
def parseToks (toks : List String) : Option (List Sexp) :=
  let rec go (toks : List String) (stack : List (List Sexp)) (cur : List Sexp) : Option (List Sexp) :=
    match toks with
    | [] => match stack with
      | [] => some cur.reverse
      | _ => none
    | "(" :: rest => go rest (cur :: stack) []
    | ")" :: rest => match stack with
      | [] => none
      | top :: stack' => go rest stack' (Sexp.list cur.reverse :: top)
    | t :: rest => go rest stack (Sexp.atom t :: cur)
  go toks [] []

def parseMany (s : String) : Option (List Sexp) := parseToks (tokenize s)

def parse (s : String) : Option Sexp :=
  match parseMany s with
  | some [x] => some x
  | _ => none

def nat? : Sexp → Option Nat
  | .atom s => s.toNat?
  | _ => none

def int? : Sexp → Option Int
  | .atom s => s.toInt?
  | _ => none

def hexVal (c : Char) : Option Nat :=
  if '0' ≤ c ∧ c ≤ '9' then some (c.toNat - '0'.toNat)
  else if 'a' ≤ c ∧ c ≤ 'f' then some (c.toNat - 'a'.toNat + 10)
  else if 'A' ≤ c ∧ c ≤ 'F' then some (c.toNat - 'A'.toNat + 10)
  else none

/-- decode a hex string ("-" or "" = empty) into bytes -/
def hexBytes (s : String) : Option (List Nat) :=
  let rec go : List Char → Option (List Nat)
    | [] => some []
    | [_] => none
    | a :: b :: rest => do
      let x ← hexVal a; let y ← hexVal b
      let r ← go rest
      pure ((x * 16 + y) :: r)
  if s == "-" then some [] else go s.toList

def hexDigit (n : Nat) : Char :=
  if n < 10 then Char.ofNat ('0'.toNat + n) else Char.ofNat ('a'.toNat + n - 10)

def bytesHex (bs : List Nat) : String :=
  if bs.isEmpty then "-" else
  String.ofList (bs.flatMap fun b => [hexDigit (b / 16 % 16), hexDigit (b % 16)])

end Sexp
end HclModel
