import HclModel.Expr.Eval
import HclModel.Expr.FreeVars
import HclModel.Body.Native
/-!
Model of `ext/dynblock`: `expandBody.Content` / `PartialContent` (expand_body.go), `decodeSpec` / `newBlock`
(expand_spec.go), iterations (iteration.go), wrapped expressions (expr_wrap.go), `unknownBody`
(unknown_body.go) and the variable walk (variables.go).

* The wrapped body is a native body; its own schema processing is `HclModel.Body` (property C04).
* Expression evaluation is the parameter `ev` (instantiated with the evaluator model, property C01).
* A `dynamic` block is taken to be well-formed as a block: a `for_each`, at most one `iterator` that is a
  single name, an optional `labels` list, exactly one `content` block (the other cases are reported as errors
  by `decodeSpec` and produce no block; they are exercised by the direct oracle only).
* Diagnostics are kept as a list of kinds; only values are the subject of the theorems.
-/
namespace HclModel.Dyn
open HclModel.Body

mutual
/-- source bodies -/
inductive SBody where
  | mk (attrs : List (String × Expr)) (blocks : List SBlock)
inductive SBlock where
  | static (type : String) (labels : List String) (body : SBody)
  /-- `dynamic "type" { for_each = …  iterator = …  labels = […]  content { … } }` -/
  | dyn (type : String) (forEach : Expr) (iterator : Option String) (labels : Option (List Expr)) (content : SBody)
end

instance : Inhabited SBody := ⟨.mk [] []⟩
instance : Inhabited SBlock := ⟨.static "" [] default⟩

def SBody.attrs : SBody → List (String × Expr) | .mk a _ => a
def SBody.blocks : SBody → List SBlock | .mk _ b => b

/-- active iterations, innermost first: iterator name, key, value (`iteration` with its `Inherited` map) -/
abbrev Iters := List (String × Val × Val)

/-- `iteration.Object` -/
def iterObj (k v : Val) : Val := .object Fl.none [("key", k), ("value", v)]

/-- `iteration.EvalContext`: the iterator symbols, innermost first (a later definition of a name shadows) -/
def iterEnv (its : Iters) : Env := its.map fun (n, k, v) => (n, iterObj k v)

/-- an attribute as handed out by an expanded body: `exprWrap` (expression, iteration, result marks), or the
    static unknown value that `unknownBody` substitutes -/
structure XAttr where
  expr : Expr
  its : Iters
  marks : Fl
  unknown : Bool := false
deriving Inhabited

/-- `exprWrap.Value(ctx)` -/
def XAttr.value (ev : Env → Expr → Out) (ρ : Env) (a : XAttr) : Out :=
  if a.unknown then (Val.dynVal.withFl a.marks, [])
  else
    let o := ev (iterEnv a.its ++ ρ) a.expr
    (o.1.withFl a.marks, o.2)

/-- `expandBody` (possibly inside an `unknownBody`) -/
structure XBody where
  src : SBody
  its : Iters := []
  marks : Fl := Fl.none                    -- valueMarks
  unknown : Option Fl := none              -- wrapped in `unknownBody` with these marks
  hiddenAttrs : List String := []
  hiddenBlocks : List BlockSchema := []
deriving Inhabited

structure XBlock where
  type : String
  labels : List String
  body : XBody
deriving Inhabited

structure XContent where
  attrs : List (String × XAttr)
  blocks : List XBlock
deriving Inhabited

/-- the wrapped native body: a dynamic block is a block of type `dynamic` labelled with the real type -/
def SBlock.native : SBlock → Body.Block SBlock
  | b@(.static t ls _) => ⟨t, ls, b⟩
  | b@(.dyn t _ _ _ _) => ⟨"dynamic", [t], b⟩

def SBody.native (b : SBody) : NBody Expr SBlock :=
  { attrs := b.attrs, blocks := b.blocks.map SBlock.native }

/-- `extendSchema` -/
def extendSchema (s : Schema) (hiddenAttrs : List String) (hiddenBlocks : List BlockSchema) : Schema :=
  ⟨s.attrs ++ hiddenAttrs.map (fun n => ⟨n, false⟩), s.blocks ++ [⟨"dynamic", 1⟩] ++ hiddenBlocks⟩

/-- the label loop of `newBlock`: `none` when a label is unusable (the block is then dropped) -/
def evalLabels (ev : Env → Expr → Out) (ρ : Env) : List Expr → Option (List String) × List String
  | [] => (some [], [])
  | e :: rest =>
    let o := ev ρ e
    if !o.2.isEmpty then (none, ["label-eval"]) else
    match convert o.1 .str with
    | .error _ => (none, ["label-conversion"])
    | .ok s =>
      if s.isNull then (none, ["label-null"])
      else if !s.isKnown then (none, ["label-unknown"])
      else if s.isMarked then (none, ["label-marked"])
      else match s with
        | .str _ txt =>
          let r := evalLabels ev ρ rest
          (r.1.map (txt :: ·), r.2)
        | _ => (none, ["label-conversion"])

/-- one generated block per element (the loop over `ElementIterator` in `expandBlocks`) -/
def genBlocks (ev : Env → Expr → Out) (ρf : Env) (its : Iters) (name : String) (m : Fl) (labelExprs : List Expr)
    (type : String) (content : SBody) (unknown : Option Fl) : List (Val × Val) → List XBlock × List String
  | [] => ([], [])
  | (k, v) :: rest =>
    let its' := (name, k, v) :: its
    let ls := evalLabels ev (iterEnv its' ++ ρf) labelExprs
    let r := genBlocks ev ρf its name m labelExprs type content unknown rest
    match ls.1 with
    | some l => (⟨type, l, { src := content, its := its', marks := m, unknown := unknown }⟩ :: r.1, ls.2 ++ r.2)
    | none => (r.1, ls.2 ++ r.2)

/-- what `decodeSpec` extracts, or the kind of error that makes the dynamic block produce nothing -/
inductive SpecRes where
  | err (kind : String)
  | known (name : String) (marks : Fl) (labelExprs : List Expr) (elems : List (Val × Val))
  | unknown (name : String) (marks : Fl) (labelExprs : List Expr)

/-- `decodeSpec` for a block type with `labelCount` labels, in the iteration context `its` -/
def decodeSpec (ev : Env → Expr → Out) (ρf : Env) (its : Iters) (labelCount : Nat) (type : String)
    (forEach : Expr) (iterator : Option String) (labels : Option (List Expr)) : SpecRes :=
  -- the schema of the dynamic block's own body: `labels` is required iff the block type has labels
  if labelCount = 0 && labels.isSome then .err "unsupported-argument-labels"
  else if labelCount ≠ 0 && labels.isNone then .err "missing-argument-labels"
  else
  let name := iterator.getD type
  let o := ev (iterEnv its ++ ρf) forEach
  if !o.2.isEmpty then .err "for_each-eval" else
  let (u, m) := o.1.unmark
  if !canIterate u.typeOf && !(u.typeOf == .dyn) then .err "for_each-not-iterable"
  else if u.isNull then .err "for_each-null"
  else
  let lexprs := labels.getD []
  if lexprs.length > labelCount then .err "labels-extraneous"
  else if lexprs.length < labelCount then .err "labels-insufficient"
  else if u.isKnown then
    match elements u with
    | some kvs => .known name m lexprs kvs
    | none => .err "for_each-not-iterable"
  else .unknown name m lexprs

/-- the blocks one dynamic block stands for -/
def expandDyn (ev : Env → Expr → Out) (ρf : Env) (its : Iters) (labelCount : Nat) (type : String)
    (forEach : Expr) (iterator : Option String) (labels : Option (List Expr)) (content : SBody) :
    List XBlock × List String :=
  match decodeSpec ev ρf its labelCount type forEach iterator labels with
  | .err k => ([], [k])
  | .known name m lexprs kvs => genBlocks ev ρf its name m lexprs type content none kvs
  | .unknown name m lexprs =>
    -- one block standing for all of them, its body an `unknownBody`
    genBlocks ev ρf its name m lexprs type content (some m) [(Val.dynVal, Val.dynVal)]

/-- `expandBlocks` over the blocks the wrapped body returned -/
def expandBlocks (ev : Env → Expr → Out) (ρf : Env) (its : Iters) (hiddenBlocks : List BlockSchema) (s : Schema)
    (partialMode : Bool) : List (Body.Block SBlock) → List XBlock × List String
  | [] => ([], [])
  | raw :: rest =>
    let r := expandBlocks ev ρf its hiddenBlocks s partialMode rest
    let here : List XBlock × List String :=
      match raw.body with
      | .dyn type fe itn labels content =>
        if hiddenBlocks.any (·.type == type) then ([], [])
        else match s.blocks.find? (·.type == type) with
          | none => ([], if partialMode then [] else ["unsupported-block-type"])
          | some bs => expandDyn ev ρf its bs.labelCount type fe itn labels content
      | .static _ _ body =>
        if hiddenBlocks.any (·.type == raw.type) then ([], [])
        else ([⟨raw.type, raw.labels, { src := body, its := its, marks := Fl.none }⟩], [])
    (here.1 ++ r.1, here.2 ++ r.2)

def errKind : ErrKind → String
  | .missingRequired n => "missing-required:" ++ n
  | .extraneousLabel t => "extraneous-label:" ++ t
  | .missingLabel t => "missing-label:" ++ t
  | .unsupportedArgument n => "unsupported-argument:" ++ n
  | .unsupportedBlock t => "unsupported-block:" ++ t

/-- `unknownBody.fixupContent` -/
def fixupUnknown (um : Fl) (c : XContent) : XContent :=
  { attrs := c.attrs.map fun (n, a) => (n, { a with unknown := true, marks := um }),
    blocks := c.blocks.map fun b => { b with body := { b.body with unknown := some um } } }

/-- `expandBody.Content` (`partialMode = false`) / the content part of `PartialContent` (`true`), seen through
    `unknownBody` when the body is one -/
def XBody.contentCore (ev : Env → Expr → Out) (ρf : Env) (b : XBody) (s : Schema) (partialMode : Bool) :
    XContent × List String :=
  let ext := extendSchema s b.hiddenAttrs b.hiddenBlocks
  let nb := b.src.native
  let raw : Content Expr SBlock × List ErrKind :=
    if partialMode then ((nb.partialContent ext).1, (nb.partialContent ext).2.2) else nb.content ext
  let xb := expandBlocks ev ρf b.its b.hiddenBlocks s partialMode raw.1.blocks
  let attrs := (raw.1.attrs.filter fun p => !b.hiddenAttrs.contains p.1).map fun (n, e) =>
    (n, ({ expr := e, its := b.its, marks := b.marks } : XAttr))
  let c : XContent := { attrs := attrs, blocks := xb.1 }
  let c := match b.unknown with
    | some um => fixupUnknown um c
    | none => c
  (c, raw.2.map errKind ++ xb.2)

def XBody.content (ev : Env → Expr → Out) (ρf : Env) (b : XBody) (s : Schema) : XContent × List String :=
  b.contentCore ev ρf s false

/-- `PartialContent`: the content, the remaining body (the same wrapped body with more names hidden) and the
    error kinds -/
def XBody.partialContent (ev : Env → Expr → Out) (ρf : Env) (b : XBody) (s : Schema) :
    XContent × XBody × List String :=
  let r := b.contentCore ev ρf s true
  (r.1,
   { b with hiddenAttrs := b.hiddenAttrs ++ s.attrs.map (·.name), hiddenBlocks := b.hiddenBlocks ++ s.blocks },
   r.2)

/-- `BodyValueMarks` -/
def XBody.bodyMarks (b : XBody) : Fl := b.marks

/-! ### the specification: writing the blocks out -/

mutual
/-- a body without dynamic blocks whose attributes are closures -/
inductive WBody where
  | mk (attrs : List (String × XAttr)) (blocks : List WBlock)
inductive WBlock where
  | mk (type : String) (labels : List String) (marks : Fl) (body : WBody)
end

instance : Inhabited WBody := ⟨.mk [] []⟩
instance : Inhabited WBlock := ⟨.mk "" [] Fl.none default⟩

def WBody.attrs : WBody → List (String × XAttr) | .mk a _ => a
def WBody.blocks : WBody → List WBlock | .mk _ b => b
def WBlock.type : WBlock → String | .mk t _ _ _ => t
def WBlock.labels : WBlock → List String | .mk _ l _ _ => l
def WBlock.marks : WBlock → Fl | .mk _ _ m _ => m
def WBlock.body : WBlock → WBody | .mk _ _ _ b => b

/-- all-or-nothing traversal -/
def allSome {α : Type} : List (Option α) → Option (List α)
  | [] => some []
  | none :: _ => none
  | some a :: rest => (allSome rest).map (a :: ·)

/-- One block per element of each `for_each` collection, in iteration order, the iterator bound in everything
    inside (attributes keep their expression together with the bindings: the substitution is performed when the
    attribute is evaluated); static blocks stay where they are.  `none` when some `for_each` is not a known
    collection or some label is not a known unmarked string: then there is nothing to write out.
    The label count of a generated block is the number of label expressions given (whether it fits is the
    schema's business, exactly as for a block written by hand).  `fuel` bounds the nesting depth. -/
def writeOut (ev : Env → Expr → Out) (ρf : Env) : Nat → Iters → Fl → SBody → Option WBody
  | 0, _, _, _ => none
  | fuel+1, its, marks, .mk attrs blocks =>
    let per (blk : SBlock) : Option (List WBlock) :=
      match blk with
      | .static t ls body => (writeOut ev ρf fuel its Fl.none body).map fun w => [WBlock.mk t ls Fl.none w]
      | .dyn t fe itn labels content =>
        let name := itn.getD t
        let o := ev (iterEnv its ++ ρf) fe
        if !o.2.isEmpty then none else
        let (u, m) := o.1.unmark
        if u.isNull || !u.isKnown then none else
        match elements u with
        | none => none
        | some kvs =>
          allSome (kvs.map fun (k, v) =>
            let its' := (name, k, v) :: its
            match (evalLabels ev (iterEnv its' ++ ρf) (labels.getD [])).1, writeOut ev ρf fuel its' m content with
            | some ls, some w => some (WBlock.mk t ls m w)
            | _, _ => none)
    (allSome (blocks.map per)).map fun bss => WBody.mk (attrs.map fun (n, e) => (n, ⟨e, its, marks, false⟩)) bss.flatten

mutual
/-- nesting depth of a source body -/
def SBody.depth : SBody → Nat
  | .mk _ blocks => 1 + depthAll blocks
def depthAll : List SBlock → Nat
  | [] => 0
  | .static _ _ b :: rest => max b.depth (depthAll rest)
  | .dyn _ _ _ _ c :: rest => max c.depth (depthAll rest)
end

/-- the written-out body as a native body (nothing hidden yet) -/
def WBody.native (w : WBody) : NBody XAttr WBlock :=
  { attrs := w.attrs, blocks := w.blocks.map fun b => ⟨b.type, b.labels, b⟩ }

/-! ### consuming a body level by level, as a decoder does -/

/-- the schema a consumer applies at each level, and per block type the one for the blocks' bodies
    (`hcldec.ImpliedSchema` / `ChildBlockTypes`) -/
inductive STree where
  | mk (attrs : List AttrSchema) (blocks : List (BlockSchema × STree))

def STree.schema : STree → Schema
  | .mk attrs blocks => ⟨attrs, blocks.map (·.1)⟩

def STree.child : STree → String → Option STree
  | .mk _ blocks, ty => (blocks.find? (·.1.type == ty)).map (·.2)

/-- everything a consumer can see: attribute values, blocks with type, labels, body marks and content -/
inductive RTree where
  | mk (attrs : List (String × Out)) (blocks : List (String × List String × Fl × RTree))
deriving Inhabited

/-- through the expanded body -/
def resolveX (ev : Env → Expr → Out) (ρf ρ : Env) : Nat → STree → XBody → RTree
  | 0, _, _ => .mk [] []
  | fuel+1, st, b =>
    let c := (b.content ev ρf st.schema).1
    .mk (c.attrs.map fun (n, a) => (n, a.value ev ρ))
      (c.blocks.filterMap fun blk =>
        (st.child blk.type).map fun cst => (blk.type, blk.labels, blk.body.bodyMarks, resolveX ev ρf ρ fuel cst blk.body))

/-- through the written-out body -/
def resolveW (ev : Env → Expr → Out) (ρ : Env) : Nat → STree → WBody → RTree
  | 0, _, _ => .mk [] []
  | fuel+1, st, w =>
    let c := (w.native.content st.schema).1
    .mk (c.attrs.map fun (n, a) => (n, a.value ev ρ))
      (c.blocks.filterMap fun blk =>
        (st.child blk.type).map fun cst => (blk.type, blk.labels, blk.body.marks, resolveW ev ρ fuel cst blk.body.body))

/-! ### the variables needed for expansion (`WalkExpandVariables` + `Visit` driven by a schema tree) -/

/-- root names of the traversals `Visit` reports at one level, and recursively below, for expansion only
    (`includeContent = false`): per dynamic block, the variables of `for_each` minus
    the inherited iterators, and of `labels` minus the inherited iterators and the block's own -/
def expandVars : Nat → STree → List String → SBody → List String
  | 0, _, _, _ => []
  | fuel+1, st, inherited, .mk _ blocks =>
    (blocks.map fun blk =>
      match blk with
      | .static t ls body =>
        -- the walk sees what `PartialContent` returns: blocks of a known type with the right number of labels
        if (st.schema.blocks.any fun bs => bs.type == t && bs.labelCount == ls.length) then
          match st.child t with
          | some cst => expandVars fuel cst inherited body
          | none => []
        else []
      | .dyn t fe itn labels content =>
        -- reported for every dynamic block, whether or not the schema knows its type; only the descent into
        -- the content needs the caller to know the type
        let name := itn.getD t
        let own := (fv fe).filter (fun x => !inherited.contains x)
        let lv := ((labels.getD []).map fv).flatten.filter (fun x => x != name && !inherited.contains x)
        own ++ lv ++ (match st.child t with
          | some cst => expandVars fuel cst (name :: inherited) content
          | none => [])).flatten

/-- the shape of an expansion: block types, labels and unknown-ness, all the way down -/
inductive Shape where
  | mk (blocks : List (String × List String × Bool × Shape))
deriving Inhabited

def shapeX (ev : Env → Expr → Out) (ρf : Env) : Nat → STree → XBody → Shape
  | 0, _, _ => .mk []
  | fuel+1, st, b =>
    let c := (b.content ev ρf st.schema).1
    .mk (c.blocks.filterMap fun blk =>
      (st.child blk.type).map fun cst => (blk.type, blk.labels, blk.body.unknown.isSome, shapeX ev ρf fuel cst blk.body))

end HclModel.Dyn
