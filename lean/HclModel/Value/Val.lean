/-!
Values of the expression evaluator model: a fragment of go-cty's value algebra.

* types: string, number, bool, the dynamic pseudo-type, list, map, tuple, object (sets are not modelled)
* every value node carries flags: `m` = "carries the mark under consideration" (cty value marks; the
  properties quantify over one mark at a time, and all marks propagate alike), `g` = ghost taint used
  only by the proofs of C19 (set on everything that entered the evaluation inside a marked value;
  unlike `m` it survives `Unmark`)
* unknown values carry only their type (cty refinements are not modelled)
* numbers are exact rationals (big-float rounding is not modelled)
-/
namespace HclModel

inductive Ty where
  | str | num | bool | dyn
  | list (t : Ty) | map (t : Ty)
  | tuple (ts : List Ty)
  | object (fs : List (String × Ty))     -- sorted by attribute name
deriving Repr, Inhabited

mutual
def Ty.beq : Ty → Ty → Bool
  | .str, .str => true
  | .num, .num => true
  | .bool, .bool => true
  | .dyn, .dyn => true
  | .list a, .list b => Ty.beq a b
  | .map a, .map b => Ty.beq a b
  | .tuple as, .tuple bs => Ty.beqList as bs
  | .object as, .object bs => Ty.beqFields as bs
  | _, _ => false
def Ty.beqList : List Ty → List Ty → Bool
  | [], [] => true
  | a :: as, b :: bs => Ty.beq a b && Ty.beqList as bs
  | _, _ => false
def Ty.beqFields : List (String × Ty) → List (String × Ty) → Bool
  | [], [] => true
  | (k, a) :: as, (l, b) :: bs => k == l && Ty.beq a b && Ty.beqFields as bs
  | _, _ => false
end

instance : BEq Ty := ⟨Ty.beq⟩

structure Fl where
  m : Bool := false
  g : Bool := false
deriving Repr, DecidableEq, Inhabited

def Fl.join (a b : Fl) : Fl := ⟨a.m || b.m, a.g || b.g⟩
def Fl.none : Fl := ⟨false, false⟩
/-- `Unmark`: the mark goes, the ghost stays -/
def Fl.unmark (a : Fl) : Fl := ⟨false, a.g⟩

inductive Val where
  | unk (f : Fl) (t : Ty)
  | null (f : Fl) (t : Ty)
  | str (f : Fl) (s : String)
  | num (f : Fl) (q : Rat)
  | bool (f : Fl) (b : Bool)
  | list (f : Fl) (t : Ty) (xs : List Val)
  | map (f : Fl) (t : Ty) (kvs : List (String × Val))      -- sorted by key
  | tuple (f : Fl) (xs : List Val)
  | object (f : Fl) (kvs : List (String × Val))            -- sorted by key
deriving Repr, Inhabited

namespace Val

def fl : Val → Fl
  | unk f _ | null f _ | str f _ | num f _ | bool f _ | list f _ _ | map f _ _ | tuple f _ | object f _ => f

def setFl (v : Val) (f : Fl) : Val :=
  match v with
  | unk _ t => unk f t
  | null _ t => null f t
  | str _ s => str f s
  | num _ q => num f q
  | bool _ b => bool f b
  | list _ t xs => list f t xs
  | map _ t kvs => map f t kvs
  | tuple _ xs => tuple f xs
  | object _ kvs => object f kvs

/-- `WithMarks` / `WithSameMarks`: add flags at the top node -/
def withFl (v : Val) (f : Fl) : Val := v.setFl (v.fl.join f)

/-- `Unmark` (shallow): value without its top-level mark, and the flags it had -/
def unmark (v : Val) : Val × Fl := (v.setFl v.fl.unmark, v.fl)

def isMarked (v : Val) : Bool := v.fl.m

mutual
def typeOf : Val → Ty
  | unk _ t => t
  | null _ t => t
  | str _ _ => .str
  | num _ _ => .num
  | bool _ _ => .bool
  | list _ t _ => .list t
  | map _ t _ => .map t
  | tuple _ xs => .tuple (typeOfList xs)
  | object _ kvs => .object (typeOfFields kvs)
def typeOfList : List Val → List Ty
  | [] => []
  | x :: xs => typeOf x :: typeOfList xs
def typeOfFields : List (String × Val) → List (String × Ty)
  | [] => []
  | (k, x) :: xs => (k, typeOf x) :: typeOfFields xs
end

def isNull : Val → Bool
  | null _ _ => true
  | _ => false

def isKnown : Val → Bool
  | unk _ _ => false
  | _ => true

/-- `cty.DynamicVal` -/
def dynVal : Val := unk Fl.none .dyn

mutual
/-- some node carries the mark -/
def hasMarkDeep : Val → Bool
  | list f _ xs => f.m || hasMarkDeepList xs
  | tuple f xs => f.m || hasMarkDeepList xs
  | map f _ kvs => f.m || hasMarkDeepFields kvs
  | object f kvs => f.m || hasMarkDeepFields kvs
  | v => v.fl.m
def hasMarkDeepList : List Val → Bool
  | [] => false
  | x :: xs => hasMarkDeep x || hasMarkDeepList xs
def hasMarkDeepFields : List (String × Val) → Bool
  | [] => false
  | (_, x) :: xs => hasMarkDeep x || hasMarkDeepFields xs
end

mutual
/-- `IsWhollyKnown` -/
def whollyKnown : Val → Bool
  | unk _ _ => false
  | list _ _ xs => whollyKnownList xs
  | tuple _ xs => whollyKnownList xs
  | map _ _ kvs => whollyKnownFields kvs
  | object _ kvs => whollyKnownFields kvs
  | _ => true
def whollyKnownList : List Val → Bool
  | [] => true
  | x :: xs => whollyKnown x && whollyKnownList xs
def whollyKnownFields : List (String × Val) → Bool
  | [] => true
  | (_, x) :: xs => whollyKnown x && whollyKnownFields xs
end

mutual
/-- `UnmarkDeep`: remove the mark everywhere (ghost stays); also returns whether any mark / ghost was seen -/
def unmarkDeep : Val → Val
  | list f t xs => list f.unmark t (unmarkDeepList xs)
  | tuple f xs => tuple f.unmark (unmarkDeepList xs)
  | map f t kvs => map f.unmark t (unmarkDeepFields kvs)
  | object f kvs => object f.unmark (unmarkDeepFields kvs)
  | v => v.setFl v.fl.unmark
def unmarkDeepList : List Val → List Val
  | [] => []
  | x :: xs => unmarkDeep x :: unmarkDeepList xs
def unmarkDeepFields : List (String × Val) → List (String × Val)
  | [] => []
  | (k, x) :: xs => (k, unmarkDeep x) :: unmarkDeepFields xs
end

mutual
/-- the join of all flags in the value -/
def flagsDeep : Val → Fl
  | list f _ xs => f.join (flagsDeepList xs)
  | tuple f xs => f.join (flagsDeepList xs)
  | map f _ kvs => f.join (flagsDeepFields kvs)
  | object f kvs => f.join (flagsDeepFields kvs)
  | v => v.fl
def flagsDeepList : List Val → Fl
  | [] => Fl.none
  | x :: xs => (flagsDeep x).join (flagsDeepList xs)
def flagsDeepFields : List (String × Val) → Fl
  | [] => Fl.none
  | (_, x) :: xs => (flagsDeep x).join (flagsDeepFields xs)
end

mutual
/-- structural equality ignoring all flags (`RawEquals` after `UnmarkDeep`) -/
def eqErased : Val → Val → Bool
  | unk _ a, unk _ b => a == b
  | null _ a, null _ b => a == b
  | str _ a, str _ b => a == b
  | num _ a, num _ b => a == b
  | bool _ a, bool _ b => a == b
  | list _ t xs, list _ u ys => t == u && eqErasedList xs ys
  | tuple _ xs, tuple _ ys => eqErasedList xs ys
  | map _ t xs, map _ u ys => t == u && eqErasedFields xs ys
  | object _ xs, object _ ys => eqErasedFields xs ys
  | _, _ => false
def eqErasedList : List Val → List Val → Bool
  | [], [] => true
  | x :: xs, y :: ys => eqErased x y && eqErasedList xs ys
  | _, _ => false
def eqErasedFields : List (String × Val) → List (String × Val) → Bool
  | [], [] => true
  | (k, x) :: xs, (l, y) :: ys => k == l && eqErased x y && eqErasedFields xs ys
  | _, _ => false
end

end Val

/-- insertion into a key-sorted association list (later binding replaces an equal key) -/
def insertSorted {α : Type} (k : String) (v : α) : List (String × α) → List (String × α)
  | [] => [(k, v)]
  | (k', v') :: rest =>
    if k < k' then (k, v) :: (k', v') :: rest
    else if k == k' then (k, v) :: rest
    else (k', v') :: insertSorted k v rest

def lookupKey {α : Type} (k : String) : List (String × α) → Option α
  | [] => none
  | (k', v) :: rest => if k == k' then some v else lookupKey k rest

end HclModel
