import HclModel.Value.Ops
/-!
`hcl.Index` and `hcl.GetAttr` (`ops.go`), which every index / attribute / traversal step goes through.
-/
namespace HclModel

/-- a diagnostic: where it was constructed, and the values whose content is echoed in its message -/
structure Diag where
  site : String
  frags : List Val := []
deriving Repr, Inhabited

def Diag.isUnsupported (d : Diag) : Bool := d.site.startsWith "UNSUPPORTED"

abbrev Out := Val × List Diag

def errOut (site : String) (frags : List Val := []) : Out := (Val.dynVal, [⟨site, frags⟩])

def unsupportedOut (what : String) : Out := (Val.dynVal, [⟨"UNSUPPORTED " ++ what, []⟩])

/-- `convert` wrapped for callers that turn a failure into a diagnostic -/
def tryConvert (v : Val) (t : Ty) : Except Diag Val :=
  match convert v t with
  | .ok x => .ok x
  | .error (.fail _) => .error ⟨"conversion", []⟩
  | .error (.unsupported w) => .error ⟨"UNSUPPORTED " ++ w, []⟩

def natIndex? (q : Rat) : Option Nat :=
  if q.den = 1 ∧ q.num ≥ 0 then some q.num.toNat else none

/-- `hcl.Index(collection, key)`.  `keepKeyMarks` selects the repaired behaviour in which indexing an object
    carries the key's marks to the result, as list / tuple / map indexing does; the Go code does not
    (`keepKeyMarks = false`; pinned by `TestIndex/marked_object_key`). -/
def index (keepKeyMarks : Bool) (coll key : Val) : Out :=
  if coll.isNull then errOut "Attempt to index null value"
  else if key.isNull then errOut "Invalid index: null key"
  else if key.typeOf == .dyn ∨ coll.typeOf == .dyn then (Val.dynVal.withFl coll.fl, [])
  else
    let cm : Fl := coll.fl
    match coll.typeOf with
    | .list _ | .tuple _ | .map _ =>
      let want : Ty := match coll.typeOf with | .map _ => .str | _ => .num
      match tryConvert key want with
      | .error d => if d.isUnsupported then (Val.dynVal, [d]) else errOut "Invalid index: key conversion"
      | .ok key =>
        let km := key.fl
        match coll, key with
        | .list _ _ xs, .num _ q =>
          (match natIndex? q with
           | some i => match xs[i]? with
             | some x => (x.withFl (cm.join km), [])
             | none => errOut "Invalid index: out of range"
           | none => errOut "Invalid index: not a whole non-negative number")
        | .tuple _ xs, .num _ q =>
          (match natIndex? q with
           | some i => match xs[i]? with
             | some x => (x.withFl (cm.join km), [])
             | none => errOut "Invalid index: out of range"
           | none => errOut "Invalid index: not a whole non-negative number")
        | .unk _ (.tuple ts), .num _ q =>
          -- the length of a tuple is part of its type: HasIndex is known even for an unknown tuple
          (match natIndex? q with
           | some i => match ts[i]? with
             | some t => (Val.unk (cm.join km) t, [])
             | none => errOut "Invalid index: out of range"
           | none => errOut "Invalid index: not a whole non-negative number")
        | .map _ _ kvs, .str _ s =>
          (match lookupKey s kvs with
           | some x => (x.withFl (cm.join km), [])
           | none => errOut "Invalid index: no such key")
        | _, _ =>
          -- unknown collection or unknown key: HasIndex is unknown
          match coll.typeOf with
          | .tuple _ => (Val.dynVal.withFl cm, [])
          | .list t => (Val.unk cm t, [])
          | .map t => (Val.unk cm t, [])
          | _ => (Val.dynVal, [])
    | .object fs =>
      match tryConvert key .str with
      | .error d => if d.isUnsupported then (Val.dynVal, [d]) else errOut "Invalid index: key conversion"
      | .ok key =>
        match key with
        | .str kf s =>
          -- `key, _ = key.Unmark()`: the key's marks are dropped in the Go code
          let rm : Fl := if keepKeyMarks then cm.join kf else cm
          (match lookupKey s fs with
           | none => errOut "Invalid index: no such attribute"
           | some aty =>
             match coll with
             | .object _ kvs =>
               (match lookupKey s kvs with
                | some x => (x.withFl rm, [])
                | none => errOut "Invalid index: no such attribute")
             | _ => (Val.unk rm aty, []))
        | _ => (Val.dynVal.withFl cm, [])
    | _ => errOut "Invalid index: not indexable"

/-- `hcl.GetAttr(obj, name)` -/
def getAttr (obj : Val) (name : String) : Out :=
  if obj.isNull then errOut "Attempt to get attribute from null value"
  else
    let cm := obj.fl
    match obj.typeOf with
    | .object fs =>
      (match lookupKey name fs with
       | none => errOut "Unsupported attribute: no such attribute"
       | some aty =>
         match obj with
         | .object _ kvs =>
           (match lookupKey name kvs with
            | some x => (x.withFl cm, [])
            | none => errOut "Unsupported attribute: no such attribute")
         | _ => (Val.unk cm aty, []))
    | .map t =>
      (match obj with
       | .map _ _ kvs =>
         (match lookupKey name kvs with
          | some x => (x.withFl cm, [])
          | none => errOut "Missing map element")
       | _ => (Val.unk cm t, []))
    | .dyn => (Val.dynVal.withFl cm, [])
    | _ => errOut "Unsupported attribute"

end HclModel
