import HclModel.Value.Val
/-!
Conversion and the operator functions, following go-cty (`convert`, `function.Call`, `stdlib`) for the
modelled fragment.  Where go-cty's behaviour is outside the fragment (big-float formatting of
non-terminating decimals, division by zero and infinities, exotic numeric strings, element-type
unification) the result is `Err.unsupported`: the harness does not compare such cases and every theorem
that mentions an error-free evaluation excludes them.
-/
namespace HclModel

inductive Err where
  | fail (msg : String)      -- a genuine error of the implementation (becomes an error diagnostic)
  | unsupported (what : String)
deriving Repr, Inhabited

abbrev R := Except Err

/-! ### numbers and strings -/

/-- greatest power of `p` dividing `n` removed (fuel = n) -/
def stripFactor (p : Nat) : Nat → Nat → Nat
  | 0, n => n
  | fuel+1, n => if n % p = 0 ∧ n > 1 ∧ p > 1 then stripFactor p fuel (n / p) else n

def pow10 : Nat → Nat
  | 0 => 1
  | n+1 => 10 * pow10 n

/-- smallest `k ≤ fuel` with `den ∣ 10^k` -/
def decimalPlaces (den : Nat) : Nat → Nat → Option Nat
  | 0, _ => none
  | fuel+1, k => if pow10 k % den = 0 then some k else decimalPlaces den fuel (k + 1)

/-- `big.Float.Text('f', -1)` for numbers with a terminating decimal expansion -/
def numToString (q : Rat) : Option String :=
  let den := q.den
  if stripFactor 5 den (stripFactor 2 den den) ≠ 1 then none else
  match decimalPlaces den (den + 1) 0 with
  | none => none
  | some k =>
    let scaled : Int := q.num * (pow10 k / den : Nat)
    let neg := scaled < 0
    let ds := toString scaled.natAbs
    let body :=
      if k = 0 then ds
      else if ds.length > k then
        String.ofList (ds.toList.take (ds.length - k)) ++ "." ++ String.ofList (ds.toList.drop (ds.length - k))
      else "0." ++ String.ofList (List.replicate (k - ds.length) '0') ++ ds
    some (if neg then "-" ++ body else body)

inductive NumStr where
  | num (q : Rat)
  | notnum
  | unsure

def digitsToNat (cs : List Char) : Nat := cs.foldl (fun a c => a * 10 + (c.toNat - '0'.toNat)) 0

/-- strings `-?digits(.digits)?` are numbers; strings starting with a letter other than i/I/n/N, and the
    empty string, are certainly not; everything else (signs, exponents, "inf", …) is left alone -/
def classifyNumStr (s : String) : NumStr :=
  let cs := s.toList
  let (neg, cs') := match cs with
    | '-' :: r => (true, r)
    | _ => (false, cs)
  let ip := cs'.takeWhile Char.isDigit
  let rest := cs'.dropWhile Char.isDigit
  let mk (m : Nat) (k : Nat) : NumStr :=
    let q : Rat := (m : Rat) / (pow10 k : Rat)
    -- the real parser reads the decimal into a 512-bit binary float: only dyadic values are read exactly
    if stripFactor 2 q.den q.den ≠ 1 then .unsure else
    .num (if neg then -q else q)
  if ip ≠ [] ∧ rest = [] then mk (digitsToNat ip) 0
  else match rest with
    | '.' :: fr =>
      if ip ≠ [] ∧ fr ≠ [] ∧ fr.all Char.isDigit then mk (digitsToNat (ip ++ fr)) fr.length else .unsure
    | _ =>
      match cs with
      | [] => .notnum
      | c :: _ => if c.isAlpha ∧ c ≠ 'i' ∧ c ≠ 'I' ∧ c ≠ 'n' ∧ c ≠ 'N' then .notnum else .unsure

/-! ### conversion (`convert.Convert`) -/

def Ty.isPrim : Ty → Bool
  | .str | .num | .bool => true
  | _ => false

def sameKeys : List (String × Val) → List (String × Ty) → Bool
  | [], [] => true
  | (k, _) :: xs, (l, _) :: ys => k == l && sameKeys xs ys
  | _, _ => false

def sameKeysTy : List (String × Ty) → List (String × Ty) → Bool
  | [], [] => true
  | (k, _) :: xs, (l, _) :: ys => k == l && sameKeysTy xs ys
  | _, _ => false

mutual
/-- does a conversion between the two types exist (within the fragment)? `none` = outside the fragment -/
def convertible : Ty → Ty → Option Bool
  | _, .dyn => some true
  | .dyn, _ => some true
  | .str, .str | .num, .num | .bool, .bool => some true
  | .num, .str | .bool, .str | .str, .num | .str, .bool => some true
  | .num, .bool | .bool, .num => some false
  | .list a, .list b => convertible a b
  | .map a, .map b => convertible a b
  | .tuple as, .list b => convertibleAll as b
  | .object fs, .map b => convertibleAllF fs b
  | .tuple as, .tuple bs => if as.length = bs.length then convertiblePair as bs else some false
  | .object fs, .object gs => if sameKeysTy fs gs then convertibleFields fs gs else none
  | a, b => if a.isPrim || b.isPrim then some false else none
def convertibleAll : List Ty → Ty → Option Bool
  | [], _ => some true
  | a :: as, b => do let x ← convertible a b; let y ← convertibleAll as b; pure (x && y)
def convertibleAllF : List (String × Ty) → Ty → Option Bool
  | [], _ => some true
  | (_, a) :: as, b => do let x ← convertible a b; let y ← convertibleAllF as b; pure (x && y)
def convertiblePair : List Ty → List Ty → Option Bool
  | a :: as, b :: bs => do let x ← convertible a b; let y ← convertiblePair as bs; pure (x && y)
  | _, _ => some true
def convertibleFields : List (String × Ty) → List (String × Ty) → Option Bool
  | (_, a) :: as, (_, b) :: bs => do let x ← convertible a b; let y ← convertibleFields as bs; pure (x && y)
  | _, _ => some true
end

mutual
/-- `convert.Convert v t`; flags of every node are preserved -/
def convert (v : Val) (t : Ty) : R Val :=
  if v.typeOf == t then pure v else
  match t with
  | .dyn => pure v
  | _ =>
    match v with
    | .unk f s =>
      match convertible s t with
      | some true => pure (.unk f t)
      | some false => throw (.fail "no conversion")
      | none => throw (.unsupported "convert unknown")
    | .null f s =>
      match convertible s t with
      | some true => pure (.null f t)
      | some false => throw (.fail "no conversion")
      | none => throw (.unsupported "convert null")
    | .str f s =>
      match t with
      | .num =>
        match classifyNumStr s with
        | .num q => pure (.num f q)
        | .notnum => throw (.fail "a number is required")
        | .unsure => throw (.unsupported "string to number")
      | .bool =>
        if s = "true" ∨ s = "1" then pure (.bool f true)
        else if s = "false" ∨ s = "0" then pure (.bool f false)
        else throw (.fail "a bool is required")
      | _ => throw (.fail "no conversion")
    | .num f q =>
      match t with
      | .str =>
        match numToString q with
        | some s => pure (.str f s)
        | none => throw (.unsupported "number to string")
      | _ => throw (.fail "no conversion")
    | .bool f b =>
      match t with
      | .str => pure (.str f (if b then "true" else "false"))
      | _ => throw (.fail "no conversion")
    | .list f _ xs =>
      match t with
      | .list b => do pure (.list f b (← convertList xs b))
      | _ => if t.isPrim then throw (.fail "no conversion") else throw (.unsupported "convert list")
    | .map f _ kvs =>
      match t with
      | .map b => do pure (.map f b (← convertFields kvs b))
      | _ => if t.isPrim then throw (.fail "no conversion") else throw (.unsupported "convert map")
    | .tuple f xs =>
      match t with
      | .list b => do pure (.list f b (← convertList xs b))
      | .tuple bs => if xs.length = bs.length then do pure (.tuple f (← convertPair xs bs)) else throw (.fail "tuple length")
      | _ => if t.isPrim then throw (.fail "no conversion") else throw (.unsupported "convert tuple")
    | .object f kvs =>
      match t with
      | .map b => do pure (.map f b (← convertFields kvs b))
      | .object gs => if sameKeys kvs gs then do pure (.object f (← convertFieldsTo kvs gs)) else throw (.unsupported "object attribute sets differ")
      | _ => if t.isPrim then throw (.fail "no conversion") else throw (.unsupported "convert object")
def convertList : List Val → Ty → R (List Val)
  | [], _ => pure []
  | x :: xs, t => do
    if t == .dyn then throw (.unsupported "element type any")
    let y ← convert x t; let ys ← convertList xs t; pure (y :: ys)
def convertFields : List (String × Val) → Ty → R (List (String × Val))
  | [], _ => pure []
  | (k, x) :: xs, t => do
    if t == .dyn then throw (.unsupported "element type any")
    let y ← convert x t; let ys ← convertFields xs t; pure ((k, y) :: ys)
def convertPair : List Val → List Ty → R (List Val)
  | x :: xs, t :: ts => do let y ← convert x t; let ys ← convertPair xs ts; pure (y :: ys)
  | _, _ => pure []
def convertFieldsTo : List (String × Val) → List (String × Ty) → R (List (String × Val))
  | (k, x) :: xs, (_, t) :: ts => do let y ← convert x t; let ys ← convertFieldsTo xs ts; pure ((k, y) :: ys)
  | _, _ => pure []
end

/-! ### `function.Call` for the operator functions -/

inductive BinOp where
  | or | and | eq | ne | lt | le | gt | ge | add | sub | mul | div | mod
deriving Repr, DecidableEq, Inhabited

inductive UnOp where
  | neg | not
deriving Repr, DecidableEq, Inhabited

def BinOp.paramTy : BinOp → Ty
  | .or | .and => .bool
  | .eq | .ne => .dyn
  | _ => .num

def BinOp.resultTy : BinOp → Ty
  | .add | .sub | .mul | .div | .mod => .num
  | _ => .bool

def UnOp.paramTy : UnOp → Ty
  | .neg => .num
  | .not => .bool

def UnOp.resultTy : UnOp → Ty
  | .neg => .num
  | .not => .bool

/-- `Value.Equals` on values without marks; `none` = unknown result.  go-cty consults the refinements of
    unknown values here (not-null, numeric range, string prefix, length bounds), which the model does not
    carry: a comparison of an unknown with a null or with a known number / string / collection is left
    outside the fragment. -/
def equalsKnown (a b : Val) : R (Option Bool) :=
  match a.isNull, b.isNull with
  | true, true => pure (some true)
  | true, false => if b.isKnown then pure (some false) else throw (.unsupported "equals: null vs unknown")
  | false, true => if a.isKnown then pure (some false) else throw (.unsupported "equals: null vs unknown")
  | false, false =>
    match a.isKnown, b.isKnown with
    | false, false => pure none
    | true, false | false, true =>
      let (k, u) := if a.isKnown then (a, b) else (b, a)
      if u.typeOf == .dyn then pure none
      else if !(k.typeOf == u.typeOf) then
        (if k.typeOf.isPrim ∧ u.typeOf.isPrim then pure (some false) else throw (.unsupported "equals: collection types"))
      else if u.typeOf == .bool then pure none
      else throw (.unsupported "equals: unknown with possible refinements")
    | true, true =>
      if a.whollyKnown ∧ b.whollyKnown then
        (if a.typeOf == b.typeOf then pure (some (Val.eqErased a b)) else pure (some false))
      else throw (.unsupported "equals: nested unknown")

/-- the implementation functions of the binary operators, as called through `function.Call` with both
    arguments already converted to the parameter type and (shallowly) unmarked by the caller.
    The returned flags are those that `Call` itself collects (deep marks of arguments whose parameter
    does not allow marks). -/
def callBin (op : BinOp) (a b : Val) : R Val :=
  match op with
  | .eq | .ne => do
    -- AllowUnknown, AllowNull, AllowDynamicType; Equals unmarks deeply and re-applies
    let f := (Val.flagsDeep a).join (Val.flagsDeep b)
    match ← equalsKnown a.unmarkDeep b.unmarkDeep with
    | none => pure (.unk f .bool)
    | some r => pure (.bool f (if op = .eq then r else !r))
  | .and | .or =>
    -- AllowMarked, not AllowUnknown, not AllowNull
    if a.isNull ∨ b.isNull then throw (.fail "argument must not be null")
    else
      let f := a.fl.join b.fl
      match a, b with
      | .bool _ x, .bool _ y => pure (.bool f (if op = .and then x && y else x || y))
      | _, _ => pure (.unk f .bool)
  | .lt | .le | .gt | .ge =>
    -- AllowUnknown, AllowMarked, not AllowNull
    if a.isNull ∨ b.isNull then throw (.fail "argument must not be null")
    else
      let f := a.fl.join b.fl
      match a, b with
      | .num _ x, .num _ y =>
        pure (.bool f (match op with
          | .lt => decide (x < y) | .le => decide (x ≤ y) | .gt => decide (x > y) | _ => decide (x ≥ y)))
      | _, _ => pure (.unk f .bool)
  | .add | .sub | .mul | .div | .mod =>
    -- not AllowUnknown, not AllowNull, not AllowMarked (numbers have no nested marks)
    if a.isNull ∨ b.isNull then throw (.fail "argument must not be null")
    else
      let f := a.fl.join b.fl
      match a, b with
      | .num _ x, .num _ y =>
        match op with
        | .add => pure (.num f (x + y))
        | .sub => pure (.num f (x - y))
        | .mul => if x * y = 0 ∧ (x < 0 ∨ y < 0) then throw (.unsupported "negative zero") else pure (.num f (x * y))
        | .div => if y = 0 then throw (.unsupported "division by zero")
                  else if x = 0 ∧ y < 0 then throw (.unsupported "negative zero")
                  else if stripFactor 2 (x / y).den (x / y).den ≠ 1 then throw (.unsupported "inexact quotient")
                  else pure (.num f (x / y))
        | _ =>
          if y = 0 ∨ x.den ≠ 1 ∨ y.den ≠ 1 then throw (.unsupported "modulo outside the integers")
          else pure (.num f ((Int.tmod x.num y.num : Int) : Rat))
      | _, _ => pure (.unk f .num)

def callUn (op : UnOp) (a : Val) : R Val :=
  if a.isNull then throw (.fail "argument must not be null")
  else match op, a with
    | .neg, .num f x => if x = 0 then throw (.unsupported "negative zero") else pure (.num f (-x))
    | .not, .bool f x => pure (.bool f (!x))
    -- AllowMarked but not AllowUnknown: `function.Call` returns a fresh unknown and, having collected no
    -- marks (the parameter allows them), applies none — the operand's marks are dropped here
    | .neg, _ => pure (.unk Fl.none .num)
    | .not, _ => pure (.unk Fl.none .bool)

end HclModel
