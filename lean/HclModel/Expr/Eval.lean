import HclModel.Value.Access
/-!
The expression evaluator model: `hclsyntax/expression*.go`, `ops.go`, `traversal.go`, branch by branch,
for the modelled fragment (no sets, no refinements, no template directives beyond what the parser
desugars to conditionals / for-expressions joined by `tjoin`).

* evaluation never aborts: every node returns a value and a list of diagnostics, as in Go
* variables live in an association list (innermost binding first): the chain of `EvalContext`s
* the anonymous symbol of a splat is the reserved variable `%anon<n>`
* functions: a table of specifications with default parameter flags (no AllowNull / AllowUnknown /
  AllowMarked / AllowDynamicType), called through the model of `function.Call`
-/
namespace HclModel

inductive Expr where
  | lit (v : Val)
  | var (name : String)
  | getAttr (e : Expr) (name : String)
  | index (e : Expr) (k : Expr)
  | bin (op : BinOp) (l r : Expr)
  | un (op : UnOp) (e : Expr)
  | cond (c t f : Expr)
  | tuple (es : List Expr)
  | object (items : List (Expr × Expr))
  /-- `[for k, v in coll : val if cond]`; `keyVar = ""` when absent -/
  | forTuple (keyVar valVar : String) (coll val : Expr) (cond : Option Expr)
  /-- `{for k, v in coll : key => val... if cond}` -/
  | forObject (keyVar valVar : String) (coll key val : Expr) (cond : Option Expr) (group : Bool)
  /-- `src[*].each` where `each` refers to `var anon` -/
  | splat (anon : String) (src each : Expr)
  | template (parts : List Expr)
  | tjoin (tuple : Expr)
  /-- `fn(args..., expand...)`: the final `...`-expanded argument, if any, is kept apart -/
  | call (fn : String) (args : List Expr) (expand : Option Expr)
deriving Repr, Inhabited

abbrev Env := List (String × Val)

def Env.lookup (ρ : Env) (x : String) : Option Val := lookupKey x ρ

structure FuncSpec where
  params : List Ty
  varParam : Option Ty
  retTy : List Val → Ty
  impl : List Val → R Val

abbrev Funcs := String → Option FuncSpec

/-- evaluation configuration: the function table, and two switches that select *repaired* behaviour used
    only in theorem statements (the Go code corresponds to both being `false`):
    * `keepKeyMarks`: indexing an object keeps the key's marks (see `index`)
    * `keepDropped`: diagnostics that Go discards (the branch of a conditional that is not taken, the
      operand cut off by `&&` / `||`, the type probe of a splat) are kept; this never changes a value, it
      only makes "no diagnostics" mean that no sub-evaluation failed -/
structure Cx where
  funcs : Funcs
  keepKeyMarks : Bool := false
  keepDropped : Bool := false

def hasErrors (ds : List Diag) : Bool := !ds.isEmpty

/-! ### helpers mirroring Go code -/

/-- the UNSUPPORTED markers of `all` that are not already in `kept` -/
def unsupOnly (all kept : List Diag) : List Diag :=
  if kept.any Diag.isUnsupported then [] else (all.filter Diag.isUnsupported).take 1


/-- the short-circuit callbacks of `||` and `&&` (`expression_ops.go`); `none` = `cty.NilVal` -/
def shortCircuit (op : BinOp) (l r : Val) (ld rd : List Diag) : Option (Val × List Diag) :=
  let unkBool := Val.unk Fl.none .bool
  let isT (v : Val) : Bool := match v with | .bool _ true => true | _ => false
  -- cty's `False()` is `!Equals(True)`, which is true of a null bool
  let isF (v : Val) : Bool := match v with | .bool _ false => true | .null _ _ => true | _ => false
  match op with
  | .or =>
    if !l.isKnown && !r.isKnown then (if !hasErrors ld then some (unkBool, ld) else none)
    else if isT l then some (.bool Fl.none true, ld)
    else if isT r then some (.bool Fl.none true, rd)
    else if !l.isKnown && isF r then some (unkBool, ld)
    else if !r.isKnown && isF l then some (unkBool, rd)
    else none
  | .and =>
    if !l.isKnown && !r.isKnown then (if !hasErrors ld then some (unkBool, ld) else none)
    else if isF l then some (.bool Fl.none false, ld)
    else if isF r then some (.bool Fl.none false, rd)
    else if !l.isKnown && isT r then some (unkBool, ld)
    else if !r.isKnown && isT l then some (unkBool, rd)
    else none
  | _ => none

def evalBin (keep : Bool) (op : BinOp) (lo ro : Out) : Out :=
  let (gl, ld) := lo
  let (gr, rd) := ro
  match tryConvert gl op.paramTy, tryConvert gr op.paramTy with
  | .ok l, .ok r =>
    let (l, lm) := l.unmark
    let (r, rm) := r.unmark
    match shortCircuit op l r ld rd with
    | some (v, ds) => (v.withFl (lm.join rm), if keep then ld ++ rd else ds ++ unsupOnly (ld ++ rd) ds)
    | none =>
      let ds := ld ++ rd
      if hasErrors ds then ((Val.unk Fl.none op.resultTy).withFl (lm.join rm), ds)
      else match callBin op l r with
        | .ok v => (v.withFl (lm.join rm), ds)
        | .error (.fail _) => (Val.unk Fl.none op.resultTy, ds ++ [⟨"Operation failed", []⟩])
        | .error (.unsupported w) => (Val.dynVal, ds ++ [⟨"UNSUPPORTED " ++ w, []⟩])
  | cl, cr =>
    let e1 := match cl with | .error d => [if d.isUnsupported then d else ⟨"Invalid operand: left", []⟩] | _ => []
    let e2 := match cr with | .error d => [if d.isUnsupported then d else ⟨"Invalid operand: right", []⟩] | _ => []
    (Val.unk Fl.none op.resultTy, e1 ++ e2 ++ ld ++ rd)

def evalUn (op : UnOp) (o : Out) : Out :=
  let (g, ds) := o
  match tryConvert g op.paramTy with
  | .error d => (Val.unk Fl.none op.resultTy, ds ++ [if d.isUnsupported then d else ⟨"Invalid operand: unary", []⟩])
  | .ok v =>
    if hasErrors ds then (Val.unk Fl.none op.resultTy, ds)
    else match callUn op v with
      | .ok r => (r, ds)
      | .error (.fail _) => (Val.unk Fl.none op.resultTy, ds ++ [⟨"Operation failed", []⟩])
      | .error (.unsupported w) => (Val.dynVal, ds ++ [⟨"UNSUPPORTED " ++ w, []⟩])

/-- the type both results of a conditional are converted to; `none` = no common type; outside the fragment
    (go-cty's `UnifyUnsafe` on differing collection types) the answer is `unsupported` -/
def unifyCond (t f : Val) : R (Option Ty) :=
  let isNullDyn (v : Val) : Bool := match v with | .null fl .dyn => !fl.m | _ => false
  if isNullDyn t then pure (some f.typeOf)
  else if isNullDyn f then pure (some t.typeOf)
  else if t.typeOf == .dyn || f.typeOf == .dyn then pure (some .dyn)
  else if t.typeOf == f.typeOf then pure (some t.typeOf)
  else
    match t.typeOf, f.typeOf with
    | .str, .num | .num, .str | .str, .bool | .bool, .str => pure (some .str)
    | .num, .bool | .bool, .num => pure none
    | a, b => if a.isPrim || b.isPrim then pure none else throw (.unsupported "unify collection types")

def evalCondCore (co to fo : Out) : Out :=
  let (tv, td) := to
  let (fv, fd) := fo
  match unifyCond tv fv with
  | .error (.unsupported w) => unsupportedOut w
  | .error (.fail _) => errOut "Inconsistent conditional result types"
  | .ok none => errOut "Inconsistent conditional result types"
  | .ok (some rty) =>
    let (cv, cd) := co
    if cv.isNull then (Val.unk Fl.none rty, cd ++ [⟨"Null condition", []⟩])
    else
      let (cv, cm) := cv.unmark
      let (tv, tm) := tv.unmark
      let (fv, fm) := fv.unmark
      let ms := (cm.join tm).join fm
      if !cv.isKnown then
        if tv.isNull && fv.isNull then ((Val.null Fl.none rty).withFl ms, cd)
        else
          -- go-cty turns "unknown list whose length bounds coincide" into a known list of unknown elements
          match tv, fv with
          | .num _ _, _ | _, .num _ _ =>
            -- numeric branches: go-cty attaches a numeric range to the unknown result
            if tv.typeOf == .num && fv.typeOf == .num then unsupportedOut "conditional: numeric range refinement"
            else ((Val.unk Fl.none rty).withFl ms, cd)
          | .list _ t xs, .list _ u ys =>
            if t == u && xs.length = ys.length then
              ((Val.list Fl.none t (List.replicate xs.length (Val.unk Fl.none t))).withFl ms, cd)
            else ((Val.unk Fl.none rty).withFl ms, cd)
          | .map _ t xs, .map _ u ys =>
            if t == u && xs.length = ys.length && xs.length = 0 then ((Val.map Fl.none t []).withFl ms, cd)
            else ((Val.unk Fl.none rty).withFl ms, cd)
          | _, _ => ((Val.unk Fl.none rty).withFl ms, cd)
      else
        match tryConvert cv .bool with
        | .error d => (Val.unk Fl.none rty, cd ++ [if d.isUnsupported then d else ⟨"Incorrect condition type", []⟩])
        | .ok cb =>
          let pick (v : Val) (ds : List Diag) (site : String) : Out :=
            match tryConvert v rty with
            | .ok v' => (v'.withFl ms, cd ++ ds)
            | .error d => ((Val.unk Fl.none rty).withFl ms, cd ++ ds ++ [if d.isUnsupported then d else ⟨site, []⟩])
          match cb with
          | .bool _ true => pick tv td "Inconsistent conditional result types: true"
          | .bool _ false => pick fv fd "Inconsistent conditional result types: false"
          | _ => ((Val.unk Fl.none rty).withFl ms, cd)

/-- `ConditionalExpr.Value`.  Go drops the diagnostics of the branch not taken; the model's own
    "outside the fragment" markers are kept so that they are never lost. -/
def evalCond (keep : Bool) (co to fo : Out) : Out :=
  let (v, ds) := evalCondCore co to fo
  if keep then (v, ds ++ to.2 ++ fo.2) else (v, ds ++ unsupOnly (co.2 ++ to.2 ++ fo.2) ds)

/-- the elements of an iterable value as `(key, value)` pairs in iteration order -/
def elements (v : Val) : Option (List (Val × Val)) :=
  -- keys are fresh unmarked values; the ghost taint of the collection stays on them (they are content of it)
  let kf : Fl := ⟨false, v.fl.g⟩
  let idx (xs : List Val) : List (Val × Val) :=
    (List.range xs.length).zip xs |>.map fun (i, x) => (Val.num kf (i : Rat), x)
  match v with
  | .list _ _ xs => some (idx xs)
  | .tuple _ xs => some (idx xs)
  | .map _ _ kvs => some (kvs.map fun (k, x) => (Val.str kf k, x))
  | .object _ kvs => some (kvs.map fun (k, x) => (Val.str kf k, x))
  | _ => none

def canIterate (t : Ty) : Bool :=
  match t with
  | .list _ | .tuple _ | .map _ | .object _ => true
  | _ => false

def bindIter (ρ : Env) (keyVar valVar : String) (k v : Val) : Env :=
  let ρ := if keyVar = "" then ρ else (keyVar, k) :: ρ
  (valVar, v) :: ρ

/-- state of the loops in `ForExpr.Value` -/
structure ForSt where
  diags : List Diag := []
  marks : Fl := Fl.none
  known : Bool := true
  vals : List Val := []                       -- tuple form, in order
  kvs : List (String × List Val) := []        -- object form: key ↦ values in order of arrival (sorted by key)

def groupInsert (k : String) (v : Val) : List (String × List Val) → List (String × List Val)
  | [] => [(k, [v])]
  | (k', vs) :: rest =>
    if k < k' then (k, [v]) :: (k', vs) :: rest
    else if k == k' then (k', vs ++ [v]) :: rest
    else (k', vs) :: groupInsert k v rest

/-- `function.Call` with default parameter flags -/
def callFunc (spec : FuncSpec) (args : List Val) : R Val :=
  if args.any Val.isNull then throw (.fail "argument must not be null")
  else
    let fl := args.foldl (fun f a => f.join (Val.flagsDeep a)) Fl.none
    if args.any (fun a => a.typeOf == .dyn) then pure ((Val.unk Fl.none .dyn).withFl ⟨fl.m, fl.g⟩)
    else
      let args' := args.map Val.unmarkDeep
      if args.any (fun a => !a.isKnown) then pure ((Val.unk Fl.none (spec.retTy args')).withFl fl)
      else do
        let r ← spec.impl args'
        pure (r.withFl fl)

/-- convert the argument values to the parameter types (`params`, then `varParam` for the rest) -/
def convertArgs (spec : FuncSpec) : List Val → List Ty → List Val × List Diag
  | [], _ => ([], [])
  | v :: vs, ps =>
    let (pty, ps') : Option Ty × List Ty := match ps with
      | p :: ps' => (some p, ps')
      | [] => (spec.varParam, [])
    let (rest, ds) := convertArgs spec vs ps'
    match pty with
    | none => (v :: rest, ds)
    | some t =>
      match tryConvert v t with
      | .ok v' => (v' :: rest, ds)
      | .error d => (v :: rest, (if d.isUnsupported then d else ⟨"Invalid function argument", []⟩) :: ds)

/-- the loop of `TemplateJoinExpr.Value` over the elements of the (unmarked) tuple; `tm` = the tuple's marks -/
def tjoinLoop (tm : Fl) : List Val → List Diag → Fl → String → Out
  | [], ds, ms, buf => (Val.str ms buf, ds)
  | x :: rest, ds, ms, buf =>
    if x.isNull then tjoinLoop tm rest (ds ++ [⟨"Invalid template interpolation value: null iteration result", []⟩]) ms buf
    else if x.typeOf == .dyn then ((Val.unk Fl.none .str).withFl tm, ds)
    else match tryConvert x .str with
      | .error d => tjoinLoop tm rest (ds ++ [if d.isUnsupported then d else ⟨"Invalid template interpolation value", []⟩]) ms buf
      | .ok sv =>
        if !x.isKnown then ((Val.unk Fl.none .str).withFl tm, ds)
        else match sv with
          | .str f s => tjoinLoop tm rest ds (ms.join f) (buf ++ s)
          | _ => tjoinLoop tm rest ds ms buf

/-- the early evaluation of a `for` condition with unknown iterators: diagnostics, marks, stop? -/
def probeCond (o : Out) : List Diag × Fl × Bool :=
  let (r, pd) := o
  if r.isNull then (pd ++ [⟨"Condition is null", []⟩], Fl.none, true)
  else
    match tryConvert r .bool with
    | .error d => (pd ++ [if d.isUnsupported then d else ⟨"Invalid 'for' condition", []⟩], r.fl, true)
    | .ok _ => (pd, r.fl, hasErrors pd)

/-! ### the evaluator -/

mutual
def eval (F : Cx) (ρ : Env) : Expr → Out
  | .lit v => (v, [])
  | .var x =>
    match ρ.lookup x with
    | some v => (v, [])
    | none => errOut "Unknown variable"
  | .getAttr e name =>
    let (v, ds) := eval F ρ e
    if hasErrors ds then (Val.dynVal, ds)      -- TraverseRel/TraverseAbs stop at the first failing step
    else let (r, ds') := getAttr v name; (r, ds ++ ds')
  | .index e k =>
    let (cv, cd) := eval F ρ e
    let (kv, kd) := eval F ρ k
    let (r, ds') := index F.keepKeyMarks cv kv
    (r, cd ++ kd ++ ds')
  | .bin op l r => evalBin F.keepDropped op (eval F ρ l) (eval F ρ r)
  | .un op e => evalUn op (eval F ρ e)
  | .cond c t f => evalCond F.keepDropped (eval F ρ c) (eval F ρ t) (eval F ρ f)
  | .tuple es =>
    let (vs, ds) := evalList F ρ es
    (.tuple Fl.none vs, ds)
  | .object items =>
    let (st, known) := evalItems F ρ items
    if !known then (Val.dynVal, st.diags)
    else (Val.object st.marks (st.kvs.map fun (k, vs) => (k, vs.headD Val.dynVal)), st.diags)
  | .forTuple keyVar valVar coll val cond =>
    let (cv, cd) := eval F ρ coll
    if cv.isNull then (Val.dynVal, cd ++ [⟨"Iteration over null value", []⟩])
    else if cv.typeOf == .dyn then (Val.dynVal, cd)
    else
      let (cv, cm) := cv.unmark
      if !canIterate cv.typeOf then (Val.dynVal, cd ++ [⟨"Iteration over non-iterable value", []⟩])
      else
        -- probe of the condition with unknown iterators
        let probe : Option (List Diag × Fl × Bool) :=
          match cond with
          | none => none
          | some ce => some (probeCond (eval F (bindIter ρ keyVar valVar Val.dynVal Val.dynVal) ce))
        let pd := (probe.map (·.1)).getD []
        let pm := (probe.map (·.2.1)).getD Fl.none
        let pstop := (probe.map (·.2.2)).getD false
        if pstop then (Val.dynVal, cd ++ pd)
        else
          match elements cv with
          | none => (Val.dynVal.withFl (cm.join ⟨pm.m, pm.g⟩), cd ++ pd)     -- unknown collection
          | some els =>
            let st := els.foldl (fun (st : ForSt) (kv : Val × Val) =>
              let ρ' := bindIter ρ keyVar valVar kv.1 kv.2
              let step (st : ForSt) : ForSt :=
                let (v, vd) := eval F ρ' val
                { st with diags := st.diags ++ vd, vals := st.vals ++ [v] }
              match cond with
              | none => step st
              | some ce =>
                let (inc, id) := eval F ρ' ce
                let st := { st with diags := st.diags ++ id }
                if inc.isNull then
                  { st with diags := if st.known then st.diags ++ [⟨"Invalid 'for' condition: null", []⟩] else st.diags, known := false }
                else
                  let st := { st with marks := st.marks.join inc.fl }
                  if !inc.isKnown then { st with known := false }
                  else match tryConvert inc .bool with
                    | .error d =>
                      { st with diags := if st.known then st.diags ++ [if d.isUnsupported then d else ⟨"Invalid 'for' condition", []⟩] else st.diags, known := false }
                    | .ok (.bool _ false) => st
                    | .ok _ => step st) ({ diags := cd ++ pd, marks := cm } : ForSt)
            if !st.known then (Val.dynVal.withFl st.marks, st.diags)
            else (Val.tuple st.marks st.vals, st.diags)
  | .forObject keyVar valVar coll key val cond group =>
    let (cv, cd) := eval F ρ coll
    if cv.isNull then (Val.dynVal, cd ++ [⟨"Iteration over null value", []⟩])
    else if cv.typeOf == .dyn then (Val.dynVal, cd)
    else
      let (cv, cm) := cv.unmark
      if !canIterate cv.typeOf then (Val.dynVal, cd ++ [⟨"Iteration over non-iterable value", []⟩])
      else
        let probe : Option (List Diag × Fl × Bool) :=
          match cond with
          | none => none
          | some ce => some (probeCond (eval F (bindIter ρ keyVar valVar Val.dynVal Val.dynVal) ce))
        let pd := (probe.map (·.1)).getD []
        let pm := (probe.map (·.2.1)).getD Fl.none
        let pstop := (probe.map (·.2.2)).getD false
        if pstop then (Val.dynVal, cd ++ pd)
        else
          match elements cv with
          | none => (Val.dynVal.withFl (cm.join ⟨pm.m, pm.g⟩), cd ++ pd)
          | some els =>
            let st := els.foldl (fun (st : ForSt) (kv : Val × Val) =>
              let ρ' := bindIter ρ keyVar valVar kv.1 kv.2
              let step (st : ForSt) : ForSt :=
                let (kr, kd) := eval F ρ' key
                let st := { st with diags := st.diags ++ kd }
                if kr.isNull then
                  { st with diags := if st.known then st.diags ++ [⟨"Invalid object key: null", []⟩] else st.diags, known := false }
                else
                  let st := { st with marks := st.marks.join kr.fl }
                  if !kr.isKnown then { st with known := false }
                  else match tryConvert kr .str with
                    | .error d =>
                      { st with diags := if st.known then st.diags ++ [if d.isUnsupported then d else ⟨"Invalid object key", []⟩] else st.diags, known := false }
                    | .ok ks =>
                      match ks.unmark.1 with
                      | .str kf k =>
                        let (v, vd) := eval F ρ' val
                        let st := { st with diags := st.diags ++ vd }
                        if group then { st with kvs := groupInsert k v st.kvs }
                        else if (lookupKey k st.kvs).isSome then
                          { st with diags := st.diags ++ [⟨"Duplicate object key", if st.marks.m then [] else [.str kf k]⟩] }
                        else { st with kvs := groupInsert k v st.kvs }
                      | _ => { st with known := false }
              match cond with
              | none => step st
              | some ce =>
                let (inc, id) := eval F ρ' ce
                let st := { st with diags := st.diags ++ id }
                if inc.isNull then
                  { st with diags := if st.known then st.diags ++ [⟨"Invalid 'for' condition: null", []⟩] else st.diags, known := false }
                else
                  let st := { st with marks := st.marks.join inc.fl }
                  match tryConvert inc .bool with
                  | .error d =>
                    { st with diags := if st.known then st.diags ++ [if d.isUnsupported then d else ⟨"Invalid 'for' condition", []⟩] else st.diags, known := false }
                  | .ok b =>
                    if !b.isKnown then { st with known := false }
                    else match b with
                      | .bool _ false => st
                      | _ => step st) ({ diags := cd ++ pd, marks := cm } : ForSt)
            if !st.known then (Val.dynVal.withFl st.marks, st.diags)
            else if group then
              (Val.object st.marks (st.kvs.map fun (k, vs) => (k, Val.tuple Fl.none vs)), st.diags)
            else (Val.object st.marks (st.kvs.map fun (k, vs) => (k, vs.headD Val.dynVal)), st.diags)
  | .splat anon src each =>
    let (sv, sd) := eval F ρ src
    if hasErrors sd then (Val.dynVal, sd)
    else
      let sty := sv.typeOf
      let autoUp : Bool := match sty with | .tuple _ | .list _ => false | _ => true
      if sv.isNull then
        if autoUp then ((Val.tuple Fl.none []).withFl sv.fl, sd) else (Val.dynVal, sd ++ [⟨"Splat of null value", []⟩])
      else if sty == .dyn then (Val.dynVal.withFl sv.fl, sd)
      else
        let upgradedUnknown := autoUp && !sv.isKnown
        let sv : Val := if autoUp then (Val.tuple Fl.none [sv]).withFl sv.fl else sv
        -- result type for the unknown / failed cases: evaluate `each` on unknowns of the element types
        let eachTy (t : Ty) : Ty × List Diag :=
          let (v, ds) := eval F ((anon, Val.unk Fl.none t) :: ρ) each
          (v.typeOf, ds)
        let resultTy : Ty × List Diag :=
          match sv.typeOf with
          | .list t => let (rt, ds) := eachTy t; (.list rt, ds)
          | .tuple ts =>
            let rs := ts.map eachTy
            (.tuple (rs.map (·.1)), rs.flatMap (·.2))
          | _ => (.dyn, [])
        if !sv.isKnown then
          ((Val.unk Fl.none resultTy.1).withFl sv.fl, sd ++ resultTy.2)
        else
          let (sv, sm) := sv.unmark
          let items : List Val := match sv with | .list _ _ xs => xs | .tuple _ xs => xs | _ => []
          let rs := items.map fun it => eval F ((anon, it) :: ρ) each
          let ds := sd ++ rs.flatMap (·.2)
          let vals := rs.map (·.1)
          let ok := rs.all fun r => !hasErrors r.2
          if upgradedUnknown then (Val.dynVal.withFl sm, ds)
          else if !ok then ((Val.unk Fl.none resultTy.1).withFl sm, if F.keepDropped then ds ++ resultTy.2 else ds)
          else match sv with
            | .list _ _ _ =>
              (match vals with
               | [] => (match resultTy.1 with
                  | .list t => ((Val.list Fl.none t []).withFl sm, ds ++ resultTy.2)
                  | _ => unsupportedOut "splat empty list")
               | v :: vs =>
                 if vs.all (fun w => w.typeOf == v.typeOf) then ((Val.list Fl.none v.typeOf vals).withFl sm, ds)
                 else unsupportedOut "splat: list elements of different types")
            | _ => ((Val.tuple Fl.none vals).withFl sm, ds)
  | .template parts =>
    -- the loop in TemplateExpr.Value over (value, diags) per part
    let outs := evalEach F ρ parts
    let st := outs.foldl (fun (st : List Diag × Bool × Fl × String) (o : Out) =>
      let (ds, known, ms, buf) := st
      let (pv, pd) := o
      let ds := ds ++ pd
      if pv.isNull then (ds ++ [⟨"Invalid template interpolation value: null", []⟩], known, ms, buf)
      else
        let (uv, pm) := pv.unmark
        let ms := ms.join pm
        if !pv.isKnown then (ds, false, ms, buf)
        else match tryConvert uv .str with
          | .error d => (ds ++ [if d.isUnsupported then d else ⟨"Invalid template interpolation value", []⟩], known, ms, buf)
          | .ok (.str _ s) => (ds, known, ms, if known && !hasErrors ds then buf ++ s else buf)
          | .ok _ => (ds, known, ms, buf)) (([] : List Diag), true, Fl.none, "")
    let (ds, known, ms, buf) := st
    if known then (Val.str ms buf, ds) else (Val.unk ms .str, ds)
  | .tjoin t =>
    let (tv, ds) := eval F ρ t
    if tv.typeOf == .dyn then (Val.unk Fl.none .str, ds)
    else if !tv.isKnown then (Val.unk Fl.none .str, ds)
    else
      let (tv, tm) := tv.unmark
      match tv with
      | .tuple _ xs =>
        tjoinLoop tm xs ds tm ""
      | _ => unsupportedOut "tjoin of non-tuple"
  | .call fn args expand =>
    match F.funcs fn with
    | none => errOut "Call to unknown function"
    | some spec =>
      -- expansion of the final argument
      let fixed := args
      let expanded : Except Out (List Val × List Diag) :=
        match expand with
          | none => .ok ([], [])
          | some le =>
            let (ev, ed) := eval F ρ le
            if hasErrors ed then .error (Val.dynVal, ed)
            else if ev.typeOf == .dyn then
              (if ev.isNull then .error (Val.dynVal, ed ++ [⟨"Invalid expanding argument value: null", []⟩]) else .error (Val.dynVal, ed))
            else match ev.typeOf with
              | .tuple _ | .list _ =>
                if ev.isNull then .error (Val.dynVal, ed ++ [⟨"Invalid expanding argument value: null", []⟩])
                else if !ev.isKnown then .error (Val.dynVal, ed)
                else
                  let (uv, em) := ev.unmark
                  let xs : List Val := match uv with | .list _ _ xs => xs | .tuple _ xs => xs | _ => []
                  .ok (xs.map fun x => x.withFl em, ed)
              | _ => .error (Val.dynVal, ed ++ [⟨"Invalid expanding argument value", []⟩])
      match expanded with
      | .error o => o
      | .ok (extra, ed) =>
        let outs := evalEach F ρ fixed
        let argVals := outs.map (·.1) ++ extra
        let n := argVals.length
        if n < spec.params.length then (Val.dynVal, ed ++ [⟨"Not enough function arguments", []⟩])
        else if spec.varParam.isNone && n > spec.params.length then (Val.dynVal, ed ++ [⟨"Too many function arguments", []⟩])
        else
          let (vals, cds) := convertArgs spec argVals spec.params
          -- Go interleaves argument and conversion diagnostics per argument; only presence matters here
          let ds := ed ++ outs.flatMap (·.2) ++ cds
          if hasErrors ds then (Val.dynVal, ds)
          else match callFunc spec vals with
            | .ok v => (v, ds)
            | .error (.fail _) => (Val.dynVal, ds ++ [⟨"Error in function call", []⟩])
            | .error (.unsupported w) => (Val.dynVal, ds ++ [⟨"UNSUPPORTED " ++ w, []⟩])
def evalList (F : Cx) (ρ : Env) : List Expr → List Val × List Diag
  | [] => ([], [])
  | e :: es =>
    let (v, d) := eval F ρ e
    let (vs, ds) := evalList F ρ es
    (v :: vs, d ++ ds)
def evalEach (F : Cx) (ρ : Env) : List Expr → List Out
  | [] => []
  | e :: es => eval F ρ e :: evalEach F ρ es
/-- the loop of `ObjectConsExpr.Value`; returns the accumulated state and `known` -/
def evalItems (F : Cx) (ρ : Env) : List (Expr × Expr) → ForSt × Bool
  | [] => ({}, true)
  | (ke, ve) :: rest =>
    let (k, kd) := eval F ρ ke
    let (v, vd) := eval F ρ ve
    let (st, known) := evalItems F ρ rest
    -- diagnostics of this item come first
    let pre := kd ++ vd
    if hasErrors kd then ({ st with diags := pre ++ st.diags }, false)
    else if k.isNull then ({ st with diags := pre ++ [⟨"Null value as key", []⟩] ++ st.diags }, false)
    else
      let (k, km) := k.unmark
      match tryConvert k .str with
      | .error d => ({ st with diags := pre ++ [if d.isUnsupported then d else ⟨"Incorrect key type", []⟩] ++ st.diags, marks := st.marks.join km }, false)
      | .ok ks =>
        match ks with
        | .str _ s =>
          -- later items overwrite earlier ones: `rest` was processed first here, so only insert when absent
          let kvs := if (lookupKey s st.kvs).isSome then st.kvs else groupInsert s v st.kvs
          ({ st with diags := pre ++ st.diags, marks := st.marks.join km, kvs := kvs }, known)
        | _ => ({ st with diags := pre ++ st.diags, marks := st.marks.join km }, false)
end

end HclModel
