import HclModel.Expr.Eval
/-!
Relations between values used by the statements of C06 (marks), C05 (unknowns) and C19 (ghost taint).
-/
namespace HclModel

/-- the configuration of the repaired evaluator used in the statements of C05 / C06 / C19 -/
def strictCx (F : Funcs) : Cx := { funcs := F, keepKeyMarks := true, keepDropped := true }

/-! ### C06: equality below the mark -/

mutual
/-- `relV a b`: the two values are equal except inside parts that carry the mark in BOTH
    (flags themselves are not compared). -/
def relV : Val → Val → Bool
  | .unk f t, .unk g u => (f.m && g.m) || t == u
  | .null f t, .null g u => (f.m && g.m) || t == u
  | .str f s, .str g s' => (f.m && g.m) || s == s'
  | .num f q, .num g q' => (f.m && g.m) || q == q'
  | .bool f b, .bool g b' => (f.m && g.m) || b == b'
  | .list f t xs, .list g u ys => (f.m && g.m) || (t == u && relL xs ys)
  | .tuple f xs, .tuple g ys => (f.m && g.m) || relL xs ys
  | .map f t xs, .map g u ys => (f.m && g.m) || (t == u && relF xs ys)
  | .object f xs, .object g ys => (f.m && g.m) || relF xs ys
  | a, b => a.fl.m && b.fl.m
def relL : List Val → List Val → Bool
  | [], [] => true
  | x :: xs, y :: ys => relV x y && relL xs ys
  | _, _ => false
def relF : List (String × Val) → List (String × Val) → Bool
  | [], [] => true
  | (k, x) :: xs, (l, y) :: ys => k == l && relV x y && relF xs ys
  | _, _ => false
end

/-- scopes with the same names, related values -/
def relEnv : Env → Env → Prop
  | [], [] => True
  | (x, a) :: ρ, (y, b) :: σ => x = y ∧ relV a b = true ∧ relEnv ρ σ
  | _, _ => False

mutual
/-- erasure-invariance of function implementations is stated with this flag-blind equality on lists -/
def eqErasedAll : List Val → List Val → Bool
  | [], [] => true
  | x :: xs, y :: ys => Val.eqErased x y && eqErasedAll xs ys
  | _, _ => false
end

/-- assumptions on application-supplied functions: the result (value and success) depends only on the
    content of the arguments, not on their flags, and the declared return type likewise -/
structure LawfulFuncs (F : Funcs) : Prop where
  impl_erased : ∀ fn spec, F fn = some spec → ∀ args args', eqErasedAll args args' = true →
    (match spec.impl args, spec.impl args' with
     | .ok r, .ok r' => Val.eqErased r r' = true ∧ r.fl = r'.fl ∧ Val.hasMarkDeep r = false
     | .error _, .error _ => True
     | _, _ => False)
  retTy_erased : ∀ fn spec, F fn = some spec → ∀ args args', eqErasedAll args args' = true →
    spec.retTy args = spec.retTy args'

/-! ### C05: concretisation -/

mutual
/-- `conc v a`: the concrete value `v` is consistent with the abstract value `a`: known parts equal, an unknown
    part of `a` has the type of the corresponding part of `v` (the dynamic pseudo-type admits anything) -/
def conc : Val → Val → Bool
  | v, .unk _ t => t == .dyn || v.typeOf == t
  | .null _ t, .null _ u => t == u
  | .str _ s, .str _ s' => s == s'
  | .num _ q, .num _ q' => q == q'
  | .bool _ b, .bool _ b' => b == b'
  | .list _ t xs, .list _ u ys => t == u && concL xs ys
  | .tuple _ xs, .tuple _ ys => concL xs ys
  | .map _ t xs, .map _ u ys => t == u && concF xs ys
  | .object _ xs, .object _ ys => concF xs ys
  | _, _ => false
def concL : List Val → List Val → Bool
  | [], [] => true
  | x :: xs, y :: ys => conc x y && concL xs ys
  | _, _ => false
def concF : List (String × Val) → List (String × Val) → Bool
  | [], [] => true
  | (k, x) :: xs, (l, y) :: ys => k == l && conc x y && concF xs ys
  | _, _ => false
end

def concEnv : Env → Env → Prop
  | [], [] => True
  | (x, v) :: ρ, (y, a) :: σ => x = y ∧ conc v a = true ∧ concEnv ρ σ
  | _, _ => False

def knownEnv (ρ : Env) : Prop := ∀ p ∈ ρ, Val.whollyKnown p.2 = true

/-- functions map wholly known arguments to wholly known results, and are monotone for `conc` -/
structure SoundFuncs (F : Funcs) : Prop where
  known : ∀ fn spec, F fn = some spec → ∀ args r, (∀ a ∈ args, Val.whollyKnown a = true) →
    spec.impl args = .ok r → Val.whollyKnown r = true
  mono : ∀ fn spec, F fn = some spec → ∀ cargs aargs, concL cargs aargs = true →
    (match spec.impl cargs, spec.impl aargs with
     | .ok rc, .ok ra => conc rc ra = true
     | _, _ => True)
  retTy : ∀ fn spec, F fn = some spec → ∀ cargs aargs r, concL cargs aargs = true →
    spec.impl cargs = .ok r → spec.retTy aargs = .dyn ∨ r.typeOf = spec.retTy aargs

/-! ### C19: ghost taint -/

mutual
/-- below every marked node everything is ghost-tainted: how secret content enters a scope -/
def ghostWF : Bool → Val → Bool
  | inh, .list f _ xs => (!(inh || f.m) || f.g) && ghostWFL (inh || f.m) xs
  | inh, .tuple f xs => (!(inh || f.m) || f.g) && ghostWFL (inh || f.m) xs
  | inh, .map f _ kvs => (!(inh || f.m) || f.g) && ghostWFF (inh || f.m) kvs
  | inh, .object f kvs => (!(inh || f.m) || f.g) && ghostWFF (inh || f.m) kvs
  | inh, v => !(inh || v.fl.m) || v.fl.g
def ghostWFL : Bool → List Val → Bool
  | _, [] => true
  | inh, x :: xs => ghostWF inh x && ghostWFL inh xs
def ghostWFF : Bool → List (String × Val) → Bool
  | _, [] => true
  | inh, (_, x) :: xs => ghostWF inh x && ghostWFF inh xs
end

def ghostEnv (ρ : Env) : Prop := ∀ p ∈ ρ, ghostWF false p.2 = true

end HclModel
