import HclModel.Expr.Eval
import HclModel.Expr.Rel
import HclModel.Expr.Taint
import HclModel.Expr.Gamma
import HclModel.Sexp
/-!
Wire format of values, types, expressions and scopes (s-expressions; strings in hex), and the fixed
function library shared with the harness.
-/
namespace HclModel
open Sexp

def hexString? (s : String) : Option String := do
  let bs ← Sexp.hexBytes s
  String.fromUTF8? (ByteArray.mk (bs.map (·.toUInt8)).toArray)

def stringHex (s : String) : String := Sexp.bytesHex (s.toUTF8.toList.map (·.toNat))

def parseRat (s : String) : Option Rat :=
  match s.splitOn "/" with
  | [n] => (fun (i : Int) => (i : Rat)) <$> n.toInt?
  | [n, d] => do
    let i ← n.toInt?; let j ← d.toNat?
    if j = 0 then none else pure ((i : Rat) / (j : Rat))
  | _ => none

def ratStr (q : Rat) : String := if q.den = 1 then toString q.num else s!"{q.num}/{q.den}"

mutual
partial def tyOfSexp : Sexp → Option Ty
  | .atom "string" => some .str
  | .atom "number" => some .num
  | .atom "bool" => some .bool
  | .atom "dyn" => some .dyn
  | .list [.atom "list", t] => Ty.list <$> tyOfSexp t
  | .list [.atom "map", t] => Ty.map <$> tyOfSexp t
  | .list (.atom "tuple" :: ts) => Ty.tuple <$> ts.mapM tyOfSexp
  | .list (.atom "object" :: fs) => Ty.object <$> fs.mapM fun f =>
      match f with
      | .list [.atom k, t] => do pure (← hexString? k, ← tyOfSexp t)
      | _ => none
  | _ => none
end

partial def tyDump : Ty → String
  | .str => "string" | .num => "number" | .bool => "bool" | .dyn => "dyn"
  | .list t => s!"(list {tyDump t})"
  | .map t => s!"(map {tyDump t})"
  | .tuple ts => "(tuple" ++ String.join (ts.map fun t => " " ++ tyDump t) ++ ")"
  | .object fs => "(object" ++ String.join (fs.map fun (k, t) => s!" ({stringHex k} {tyDump t})") ++ ")"

partial def valOfSexp (fl : Fl) : Sexp → Option Val
  | .atom "true" => some (.bool fl true)
  | .atom "false" => some (.bool fl false)
  | .list [.atom "mark", .list _, v] => valOfSexp ⟨true, true⟩ v
  | .list [.atom "unk", t] => Val.unk fl <$> tyOfSexp t
  | .list (.atom "unk" :: t :: _) => Val.unk fl <$> tyOfSexp t
  | .list [.atom "null", t] => Val.null fl <$> tyOfSexp t
  | .list [.atom "str", .atom h] => Val.str fl <$> hexString? h
  | .list [.atom "num", .atom q] => Val.num fl <$> parseRat q
  | .list (.atom "list" :: t :: xs) => do pure (.list fl (← tyOfSexp t) (← xs.mapM (valOfSexp ⟨false, fl.g⟩)))
  | .list (.atom "tup" :: xs) => do pure (.tuple fl (← xs.mapM (valOfSexp ⟨false, fl.g⟩)))
  | .list (.atom "map" :: t :: kvs) => do
      let t ← tyOfSexp t
      let kvs ← kvs.mapM fun kv => match kv with
        | .list [.atom k, v] => do pure (← hexString? k, ← valOfSexp ⟨false, fl.g⟩ v)
        | _ => none
      pure (.map fl t kvs)
  | .list (.atom "obj" :: kvs) => do
      let kvs ← kvs.mapM fun kv => match kv with
        | .list [.atom k, v] => do pure (← hexString? k, ← valOfSexp ⟨false, fl.g⟩ v)
        | _ => none
      pure (.object fl kvs)
  | _ => none

partial def valDump (v : Val) : String :=
  let body : String := match v with
    | .unk _ t => s!"(unk {tyDump t})"
    | .null _ t => s!"(null {tyDump t})"
    | .str _ s => s!"(str {stringHex s})"
    | .num _ q => s!"(num {ratStr q})"
    | .bool _ true => "true"
    | .bool _ false => "false"
    | .list _ t xs => s!"(list {tyDump t}" ++ String.join (xs.map fun x => " " ++ valDump x) ++ ")"
    | .tuple _ xs => "(tup" ++ String.join (xs.map fun x => " " ++ valDump x) ++ ")"
    | .map _ t kvs => s!"(map {tyDump t}" ++ String.join (kvs.map fun (k, x) => s!" ({stringHex k} {valDump x})") ++ ")"
    | .object _ kvs => "(obj" ++ String.join (kvs.map fun (k, x) => s!" ({stringHex k} {valDump x})") ++ ")"
  if v.fl.m then s!"(mark (6d) {body})" else body

def binOpOfName : String → Option BinOp
  | "OpLogicalOr" => some .or | "OpLogicalAnd" => some .and | "OpEqual" => some .eq | "OpNotEqual" => some .ne
  | "OpLessThan" => some .lt | "OpLessThanOrEqual" => some .le | "OpGreaterThan" => some .gt
  | "OpGreaterThanOrEqual" => some .ge | "OpAdd" => some .add | "OpSubtract" => some .sub
  | "OpMultiply" => some .mul | "OpDivide" => some .div | "OpModulo" => some .mod
  | _ => none

def unOpOfName : String → Option UnOp
  | "OpNegate" => some .neg | "OpLogicalNot" => some .not | _ => none

partial def exprOfSexp : Sexp → Option Expr
  | .list [.atom "lit", v] => Expr.lit <$> valOfSexp Fl.none v
  | .list [.atom "var", .atom n] => Expr.var <$> hexString? n
  | .list [.atom "getattr", e, .atom n] => do pure (.getAttr (← exprOfSexp e) (← hexString? n))
  | .list [.atom "index", e, k] => do pure (.index (← exprOfSexp e) (← exprOfSexp k))
  | .list [.atom "binop", .atom op, l, r] => do pure (.bin (← binOpOfName op) (← exprOfSexp l) (← exprOfSexp r))
  | .list [.atom "unop", .atom op, e] => do pure (.un (← unOpOfName op) (← exprOfSexp e))
  | .list [.atom "cond", c, t, f] => do pure (.cond (← exprOfSexp c) (← exprOfSexp t) (← exprOfSexp f))
  | .list (.atom "tuple" :: es) => Expr.tuple <$> es.mapM exprOfSexp
  | .list (.atom "object" :: items) => Expr.object <$> items.mapM fun it =>
      match it with
      | .list [k, v] => do pure (← exprOfSexp k, ← exprOfSexp v)
      | _ => none
  | .list [.atom "fortuple", .atom kv, .atom vv, coll, val, cond] => do
      pure (.forTuple (← hexString? kv) (← hexString? vv) (← exprOfSexp coll) (← exprOfSexp val) (← optExpr cond))
  | .list [.atom "forobject", .atom kv, .atom vv, .atom grp, coll, key, val, cond] => do
      pure (.forObject (← hexString? kv) (← hexString? vv) (← exprOfSexp coll) (← exprOfSexp key) (← exprOfSexp val)
        (← optExpr cond) (grp == "true"))
  | .list [.atom "splat", .atom a, src, each] => do pure (.splat (← hexString? a) (← exprOfSexp src) (← exprOfSexp each))
  | .list (.atom "template" :: ps) => Expr.template <$> ps.mapM exprOfSexp
  | .list [.atom "tjoin", t] => Expr.tjoin <$> exprOfSexp t
  | .list [.atom "call", .atom n, .list args, ex] => do
      pure (.call (← hexString? n) (← args.mapM exprOfSexp) (← optExpr ex))
  | _ => none
where
  optExpr : Sexp → Option (Option Expr)
    | .atom "nil" => some none
    | s => some <$> exprOfSexp s

def envOfSexp : Sexp → Option Env
  | .list bs => bs.mapM fun b => match b with
    | .list [.atom n, v] => do pure (← hexString? n, ← valOfSexp Fl.none v)
    | _ => none
  | _ => none

/-! ### the function library (identical definitions on the Go side) -/

def numArg : Val → Option Rat
  | .num _ q => some q
  | _ => none

def strArg : Val → Option String
  | .str _ s => some s
  | _ => none

def fnAdd3 : FuncSpec where
  params := [.num, .num, .num]
  varParam := none
  retTy := fun _ => .num
  impl := fun args => match args.mapM numArg with
    | some [a, b, c] => pure (.num Fl.none (a + b + c))
    | _ => throw (.unsupported "add3 arguments")

def fnCat : FuncSpec where
  params := []
  varParam := some .str
  retTy := fun _ => .str
  impl := fun args => match args.mapM strArg with
    | some ss => pure (.str Fl.none (String.join ss))
    | none => throw (.unsupported "cat arguments")

def fnCat2 : FuncSpec where
  params := [.str, .str]
  varParam := none
  retTy := fun _ => .str
  impl := fun args => match args.mapM strArg with
    | some [a, b] => pure (.str Fl.none (a ++ b))
    | _ => throw (.unsupported "cat2 arguments")

def fnSumList : FuncSpec where
  params := [.list .num]
  varParam := none
  retTy := fun _ => .num
  impl := fun args => match args with
    | [.list _ _ xs] => (match xs.mapM numArg with
      | some qs => pure (.num Fl.none (qs.foldl (· + ·) 0))
      | none => throw (.unsupported "sumlist: unknown or null element"))
    | _ => throw (.unsupported "sumlist arguments")

def stdFuncs : Funcs
  | "add3" => some fnAdd3
  | "cat" => some fnCat
  | "ns::cat2" => some fnCat2
  | "sumlist" => some fnSumList
  | _ => none

/-- the configuration that corresponds to the Go code -/
def goCx : Cx := { funcs := stdFuncs }

/-- the text of a diagnostic fragment as the message shows it -/
def fragText : Val → String
  | .str _ s => s
  | .num _ q => ratStr q
  | v => valDump v

/-- the diagnostics with their fragments: `diags=<site>:<frag>,…;…` (site and fragment texts in hex, `-` for
    "no fragment", `*` after a ghost-tainted fragment), and the number of tainted fragments (`tainted=<n>`, C19) -/
def diagsField (ds : List Diag) : String :=
  let one (d : Diag) : String :=
    stringHex d.site ++ ":" ++ (if d.frags.isEmpty then "-" else ",".intercalate (d.frags.map fun f =>
      stringHex (fragText f) ++ (if (Val.flagsDeep f).g then "*" else "")))
  let tainted := (ds.flatMap (·.frags)).filter fun f => (Val.flagsDeep f).g
  "diags=" ++ ";".intercalate (ds.map one) ++ " tainted=" ++ toString tainted.length

/-- `EVAL <expr> <env>` → `<value> ok|err|unsupported …`; after `err`: the sites, then `diagsField`, then
    whether the expression passes the side condition of the C19 theorem (`fclean=true|false`) -/
def evalLine (exprS envS : Sexp) : String :=
  match exprOfSexp exprS, envOfSexp envS with
  | some e, some ρ =>
    let (v, ds) := eval goCx ρ e
    if ds.any Diag.isUnsupported then "- unsupported " ++ ((ds.filter Diag.isUnsupported).map (·.site)).toString
    else if hasErrors ds then
      valDump v ++ " err " ++ (ds.map (·.site)).toString ++ " " ++ diagsField ds ++ " fclean=" ++ toString (fclean [] e)
    else valDump v ++ " ok"
  | none, _ => "- unsupported-input expr"
  | _, none => "- unsupported-input env"

mutual
/-- the fragment on which noninterference holds without a side condition (the same definition as
    `Proofs.plain`, repeated here because the driver does not link the proof modules) -/
def niPlain : Expr → Bool
  | .lit _ => true
  | .var _ => true
  | .getAttr e _ => niPlain e
  | .bin _ l r => niPlain l && niPlain r
  | .tuple es => niPlainList es
  | .template parts => niPlainList parts
  | _ => false
def niPlainList : List Expr → Bool
  | [] => true
  | e :: es => niPlain e && niPlainList es
end

/-- `NI <expr> <env1> <env2>`: executable instance of the noninterference theorem that has no two-run side
    condition (`noninterference_plain`): a model self-test.  Outside that fragment the full statement is false
    (`Props/C06.lean`: witnesses K_*, T_*), so nothing is claimed: `n/a`. -/
def niLine (exprS env1S env2S : Sexp) : String :=
  match exprOfSexp exprS, envOfSexp env1S, envOfSexp env2S with
  | some e, some ρ, some σ =>
    let (v₁, d₁) := eval (strictCx stdFuncs) ρ e
    let (v₂, d₂) := eval (strictCx stdFuncs) σ e
    if !niPlain e then "n/a-side-condition"
    else if !d₁.isEmpty || !d₂.isEmpty then "n/a"
    else if relV v₁ v₂ then (if Val.eqErased v₁ v₂ then "ok-equal" else "ok-marked") else "VIOLATION " ++ valDump v₁ ++ " " ++ valDump v₂
  | _, _, _ => "unsupported-input"

mutual
def exprHasCall : Expr → Bool
  | .call _ _ _ => true
  | .lit _ | .var _ => false
  | .getAttr e _ | .un _ e | .tjoin e => exprHasCall e
  | .index a b | .bin _ a b => exprHasCall a || exprHasCall b
  | .cond a b c => exprHasCall a || exprHasCall b || exprHasCall c
  | .tuple es | .template es => exprHasCallList es
  | .object items => exprHasCallItems items
  | .forTuple _ _ c v o => exprHasCall c || exprHasCall v || (match o with | some x => exprHasCall x | none => false)
  | .forObject _ _ c k v o _ => exprHasCall c || exprHasCall k || exprHasCall v || (match o with | some x => exprHasCall x | none => false)
  | .splat _ s e => exprHasCall s || exprHasCall e
def exprHasCallList : List Expr → Bool
  | [] => false
  | e :: es => exprHasCall e || exprHasCallList es
def exprHasCallItems : List (Expr × Expr) → Bool
  | [] => false
  | (k, v) :: rest => exprHasCall k || exprHasCall v || exprHasCallItems rest
end

/-- `CONC <expr> <concrete env> <abstract env>`: executable instance of the abstraction-soundness statement -/
def concLine (exprS envCS envAS : Sexp) : String :=
  match exprOfSexp exprS, envOfSexp envCS, envOfSexp envAS with
  | some e, some ρc, some ρa =>
    let (vc, dc) := eval (strictCx stdFuncs) ρc e
    let (va, da) := eval (strictCx stdFuncs) ρa e
    -- the side conditions of `abs_sound_partial` (the full statement is false: Props/C05.lean, cex1..cex9);
    -- calls are left out because the function-table law `SoundFuncsS` is proved for the empty table only
    if !(okExpr e && ρc.all (fun p => wfVal p.2) && (fv e).all (fun x => !(x.startsWith "%")) && !(exprHasCall e)) then "n/a-side-condition"
    else if !dc.isEmpty || !da.isEmpty then "n/a"
    else if conc vc va then (if Val.whollyKnown va then "ok-known" else "ok-abstract") else "VIOLATION " ++ valDump vc ++ " " ++ valDump va
  | _, _, _ => "unsupported-input"

end HclModel
