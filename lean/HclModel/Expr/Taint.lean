import HclModel.Expr.Rel
import HclModel.Expr.FreeVars
/-!
C19: the notions used in the statements about ghost taint, and the static analysis that is the side condition
of the partial theorem (executable: the `EVAL` answer reports `fclean [] e`).

The flag `g` of a value node is the ghost taint: "this content entered the evaluation inside a marked value".
It is not part of the Go values; the evaluator model carries it along wherever content is copied or
derived, also where the mark itself is legitimately removed (`Unmark`, iteration over a marked collection).

* `ghostWF false v` (in `HclModel/Expr/Rel.lean`): every node at or below a marked node is tainted
  (how a secret enters a scope: nothing of it is forgotten);
* `tw false v` (here): every tainted node is marked or lies below a marked node
  (nothing tainted is exposed).  A scope satisfying both has `g` = exactly "at or below a mark".
* `untainted v`: no node of `v` is tainted.
* `fragsClean ds`: every fragment of every diagnostic in `ds` is untainted.

The static analysis `vclean` / `fclean`: see `Props/C19.lean`.
-/
namespace HclModel

mutual
/-- `tw inh v`: every ghost-tainted node of `v` carries the mark or lies below a node that does
    (`inh`: some enclosing node is marked) -/
def tw : Bool → Val → Bool
  | inh, .list f _ xs => (!f.g || (inh || f.m)) && twL (inh || f.m) xs
  | inh, .tuple f xs => (!f.g || (inh || f.m)) && twL (inh || f.m) xs
  | inh, .map f _ kvs => (!f.g || (inh || f.m)) && twF (inh || f.m) kvs
  | inh, .object f kvs => (!f.g || (inh || f.m)) && twF (inh || f.m) kvs
  | inh, .unk f _ => !f.g || (inh || f.m)
  | inh, .null f _ => !f.g || (inh || f.m)
  | inh, .str f _ => !f.g || (inh || f.m)
  | inh, .num f _ => !f.g || (inh || f.m)
  | inh, .bool f _ => !f.g || (inh || f.m)
def twL : Bool → List Val → Bool
  | _, [] => true
  | inh, x :: xs => tw inh x && twL inh xs
def twF : Bool → List (String × Val) → Bool
  | _, [] => true
  | inh, (_, x) :: xs => tw inh x && twF inh xs
end

/-- no node of the value is ghost-tainted -/
def untainted (v : Val) : Bool := !(Val.flagsDeep v).g

/-- no node of the value carries any flag (values written in the source text) -/
def flagFree (v : Val) : Bool := !(Val.flagsDeep v).g && !(Val.flagsDeep v).m

/-- every fragment (piece of run-time content echoed in the message) of every diagnostic is untainted -/
def fragsClean (ds : List Diag) : Prop := ∀ d ∈ ds, ∀ f ∈ d.frags, untainted f = true

/-- a scope in which nothing tainted is exposed -/
def twEnv (ρ : Env) : Prop := ∀ p ∈ ρ, tw false p.2 = true

/-- a scope in which the ghost taint is exactly "at or below a marked node" -/
def exactEnv (ρ : Env) : Prop := ∀ p ∈ ρ, ghostWF false p.2 = true ∧ tw false p.2 = true

/-- assumption on application-supplied functions: called with arguments that carry no taint at all,
    an implementation does not return exposed taint (in particular: any implementation whose results carry
    no flags, which is what `function.Call` hands back before it re-applies the marks of the arguments).
    What the implementations put into their own error messages is outside the guarantee. -/
def TaintFuncs (F : Funcs) : Prop :=
  ∀ fn spec, F fn = some spec → ∀ args r, (∀ a ∈ args, untainted a = true) →
    spec.impl args = .ok r → tw false r = true

/-- the names in `L` except the iteration variables -/
def dropIter (kv vv : String) (L : List String) : List String :=
  L.filter fun x => !(iterNames kv vv).contains x

mutual
/-- `vclean L e`: the value of `e` exposes no taint, provided that the variables outside `L` do not
    (`L`: the variables that may hold tainted, unmarked content).  The iteration variables of a `for` or splat
    are not in `L` inside its body: if the collection is marked the whole result is marked, and if it is not,
    its elements expose nothing. -/
def vclean (L : List String) : Expr → Bool
  | .lit v => tw false v
  | .var x => !L.contains x
  | .getAttr e _ => vclean L e
  | .index e k => vclean L e && vclean L k
  | .bin _ l r => vclean L l && vclean L r
  | .un _ e => vclean L e
  | .cond c t f => vclean L c && vclean L t && vclean L f
  | .tuple es => vcleanList L es
  | .object items => vcleanItems L items
  | .forTuple kv vv coll val cond =>
    vclean L coll && vclean (dropIter kv vv L) val &&
      (match cond with | some c => vclean (dropIter kv vv L) c | none => true)
  | .forObject kv vv coll key val cond _ =>
    vclean L coll && vclean (dropIter kv vv L) key && vclean (dropIter kv vv L) val &&
      (match cond with | some c => vclean (dropIter kv vv L) c | none => true)
  | .splat anon src each => vclean L src && vclean (L.filter (· != anon)) each
  | .template parts => vcleanList L parts
  | .tjoin t => vclean L t
  | .call _ args ex => vcleanList L args && (match ex with | some e => vclean L e | none => true)
def vcleanList (L : List String) : List Expr → Bool
  | [] => true
  | e :: es => vclean L e && vcleanList L es
def vcleanItems (L : List String) : List (Expr × Expr) → Bool
  | [] => true
  | (k, v) :: rest => vclean L k && vclean L v && vcleanItems L rest
end

/-- the value is certainly not marked at the top: a tuple constructor, an unmarked literal -/
def staticUnmarked : Expr → Bool
  | .tuple _ => true
  | .lit v => !v.fl.m
  | _ => false

/-- the variables that may expose taint inside the body of a `for` over `coll`: the iteration variables join `L`,
    unless the collection is certainly unmarked at the top and exposes nothing itself (then neither do its
    elements and keys) -/
def bodyVars (L : List String) (kv vv : String) (coll : Expr) : List String :=
  if staticUnmarked coll && vclean L coll then dropIter kv vv L else iterNames kv vv ++ L

mutual
/-- `fclean L e`: no diagnostic of `e` echoes tainted content, provided that the variables outside `L` expose
    no taint.  Inside the body of a `for` or splat the iteration variables are in `L` (the collection may be
    marked at the top only, and then its elements are tainted and unmarked).  The only diagnostic with a
    fragment is "Duplicate object key" of a non-grouping object `for`; it is harmless when
    * the key expression is clean even if the iteration variables are not (`vclean (iter ++ L) key`), or
    * the collection is clean and the key expression is clean given clean iteration variables: then either
      the collection is marked (and the key is not echoed) or its elements expose nothing. -/
def fclean (L : List String) : Expr → Bool
  | .lit _ => true
  | .var _ => true
  | .getAttr e _ => fclean L e
  | .index e k => fclean L e && fclean L k
  | .bin _ l r => fclean L l && fclean L r
  | .un _ e => fclean L e
  | .cond c t f => fclean L c && fclean L t && fclean L f
  | .tuple es => fcleanList L es
  | .object items => fcleanItems L items
  | .forTuple kv vv coll val cond =>
    fclean L coll && fclean (bodyVars L kv vv coll) val &&
      (match cond with | some c => fclean (bodyVars L kv vv coll) c | none => true)
  | .forObject kv vv coll key val cond group =>
    fclean L coll && fclean (bodyVars L kv vv coll) key && fclean (bodyVars L kv vv coll) val &&
      (match cond with | some c => fclean (bodyVars L kv vv coll) c | none => true) &&
      (group || vclean (iterNames kv vv ++ L) key || (vclean L coll && vclean (dropIter kv vv L) key))
  | .splat anon src each => fclean L src && fclean (anon :: L) each
  | .template parts => fcleanList L parts
  | .tjoin t => fclean L t
  | .call _ args ex => fcleanList L args && (match ex with | some e => fclean L e | none => true)
def fcleanList (L : List String) : List Expr → Bool
  | [] => true
  | e :: es => fclean L e && fcleanList L es
def fcleanItems (L : List String) : List (Expr × Expr) → Bool
  | [] => true
  | (k, v) :: rest => fclean L k && fclean L v && fcleanItems L rest
end

mutual
/-- the simple syntactic condition: every literal is free of flags and no non-grouping object `for` occurs
    (`inBody = true`) inside the body of a `for` or splat -/
def simple (inBody : Bool) : Expr → Bool
  | .lit v => flagFree v
  | .var _ => true
  | .getAttr e _ => simple inBody e
  | .index e k => simple inBody e && simple inBody k
  | .bin _ l r => simple inBody l && simple inBody r
  | .un _ e => simple inBody e
  | .cond c t f => simple inBody c && simple inBody t && simple inBody f
  | .tuple es => simpleList inBody es
  | .object items => simpleItems inBody items
  | .forTuple _ _ coll val cond =>
    simple inBody coll && simple true val && (match cond with | some c => simple true c | none => true)
  | .forObject _ _ coll key val cond group =>
    (group || !inBody) && simple inBody coll && simple true key && simple true val &&
      (match cond with | some c => simple true c | none => true)
  | .splat _ src each => simple inBody src && simple true each
  | .template parts => simpleList inBody parts
  | .tjoin t => simple inBody t
  | .call _ args ex => simpleList inBody args && (match ex with | some e => simple inBody e | none => true)
def simpleList (inBody : Bool) : List Expr → Bool
  | [] => true
  | e :: es => simple inBody e && simpleList inBody es
def simpleItems (inBody : Bool) : List (Expr × Expr) → Bool
  | [] => true
  | (k, v) :: rest => simple inBody k && simple inBody v && simpleItems inBody rest
end

mutual
/-- every literal of the expression is free of flags (as in every parsed expression) -/
def litsFree : Expr → Bool
  | .lit v => flagFree v
  | .var _ => true
  | .getAttr e _ => litsFree e
  | .index e k => litsFree e && litsFree k
  | .bin _ l r => litsFree l && litsFree r
  | .un _ e => litsFree e
  | .cond c t f => litsFree c && litsFree t && litsFree f
  | .tuple es => litsFreeList es
  | .object items => litsFreeItems items
  | .forTuple _ _ coll val cond =>
    litsFree coll && litsFree val && (match cond with | some c => litsFree c | none => true)
  | .forObject _ _ coll key val cond _ =>
    litsFree coll && litsFree key && litsFree val && (match cond with | some c => litsFree c | none => true)
  | .splat _ src each => litsFree src && litsFree each
  | .template parts => litsFreeList parts
  | .tjoin t => litsFree t
  | .call _ args ex => litsFreeList args && (match ex with | some e => litsFree e | none => true)
def litsFreeList : List Expr → Bool
  | [] => true
  | e :: es => litsFree e && litsFreeList es
def litsFreeItems : List (Expr × Expr) → Bool
  | [] => true
  | (k, v) :: rest => litsFree k && litsFree v && litsFreeItems rest
end

end HclModel
