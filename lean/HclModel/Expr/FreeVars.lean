import HclModel.Expr.Eval
/-!
The variables an expression refers to (`Variables()` / `hclsyntax.Variables` in Go: root names of the
reported traversals), with the scoping of for-expressions and splat symbols.
-/
namespace HclModel

def iterNames (keyVar valVar : String) : List String :=
  if keyVar = "" then [valVar] else [valVar, keyVar]

mutual
def fv : Expr → List String
  | .lit _ => []
  | .var x => [x]
  | .getAttr e _ => fv e
  | .index e k => fv e ++ fv k
  | .bin _ l r => fv l ++ fv r
  | .un _ e => fv e
  | .cond c t f => fv c ++ fv t ++ fv f
  | .tuple es => fvList es
  | .object items => fvItems items
  | .forTuple kv vv coll val cond =>
    fv coll ++ ((fv val ++ (match cond with | some c => fv c | none => [])).filter fun x => !(iterNames kv vv).contains x)
  | .forObject kv vv coll key val cond _ =>
    fv coll ++ ((fv key ++ fv val ++ (match cond with | some c => fv c | none => [])).filter fun x => !(iterNames kv vv).contains x)
  | .splat anon src each => fv src ++ (fv each).filter (· != anon)
  | .template parts => fvList parts
  | .tjoin t => fv t
  | .call _ args ex => fvList args ++ (match ex with | some e => fv e | none => [])
def fvList : List Expr → List String
  | [] => []
  | e :: es => fv e ++ fvList es
def fvItems : List (Expr × Expr) → List String
  | [] => []
  | (k, v) :: rest => fv k ++ fv v ++ fvItems rest
end

/-- two scopes agree on a set of names -/
def AgreeOn (S : List String) (ρ σ : Env) : Prop := ∀ x, x ∈ S → ρ.lookup x = σ.lookup x

end HclModel
