import HclModel.Expr.Rel
/-!
Side conditions of the corrected statement of C05 (`abs_sound_partial`, see `Props/C05.lean`):

* `wfVal`: collection values are well typed (the elements of a list / map have the declared element type)
* `staticTy`: the primitive type an expression certainly has, whatever the scope (when it evaluates without
  diagnostics)
* `okExpr`: the decidable fragment of expressions for which abstraction soundness is proved
* `SoundFuncsS`: the strengthened assumptions on the function table
-/
namespace HclModel

/-! ### well-typed values -/

mutual
/-- the elements of every list / map inside the value have the declared element type -/
def wfVal : Val → Bool
  | .list _ t xs => wfElems t xs
  | .map _ t kvs => wfElemsF t kvs
  | .tuple _ xs => wfList xs
  | .object _ kvs => wfFields kvs
  | _ => true
def wfElems (t : Ty) : List Val → Bool
  | [] => true
  | x :: xs => x.typeOf == t && wfVal x && wfElems t xs
def wfElemsF (t : Ty) : List (String × Val) → Bool
  | [] => true
  | (_, x) :: xs => x.typeOf == t && wfVal x && wfElemsF t xs
def wfList : List Val → Bool
  | [] => true
  | x :: xs => wfVal x && wfList xs
def wfFields : List (String × Val) → Bool
  | [] => true
  | (_, x) :: xs => wfVal x && wfFields xs
end

def wfEnv (ρ : Env) : Prop := ∀ p ∈ ρ, wfVal p.2 = true

/-! ### types without the dynamic pseudo-type -/

mutual
def Ty.noDyn : Ty → Bool
  | .dyn => false
  | .str | .num | .bool => true
  | .list a => Ty.noDyn a
  | .map a => Ty.noDyn a
  | .tuple as => Ty.noDynList as
  | .object fs => Ty.noDynFields fs
def Ty.noDynList : List Ty → Bool
  | [] => true
  | a :: as => Ty.noDyn a && Ty.noDynList as
def Ty.noDynFields : List (String × Ty) → Bool
  | [] => true
  | (_, a) :: as => Ty.noDyn a && Ty.noDynFields as
end

/-- a parameter type is either `any` or does not mention `any` at all -/
def Ty.paramOk (t : Ty) : Bool := t == .dyn || t.noDyn

/-! ### static primitive types -/

/-- the literal `null` (of the dynamic pseudo-type, without a mark) -/
def isNullLit : Expr → Bool
  | .lit (.null fl .dyn) => !fl.m
  | _ => false

/-- The primitive type that the value of the expression has in every scope, provided its evaluation is free
    of diagnostics: literals of primitive type, operators, templates, and conditionals whose two results
    have the same static type (one of them may be the literal `null`). -/
def staticTy : Expr → Option Ty
  | .lit v => if v.typeOf.isPrim then some v.typeOf else none
  | .bin op _ _ => some op.resultTy
  | .un op _ => some op.resultTy
  | .template _ => some .str
  | .tjoin _ => some .str
  | .cond _ t f =>
    match staticTy t, staticTy f with
    | some a, some b => if a == b then some a else none
    | some a, none => if isNullLit f then some a else none
    | none, some b => if isNullLit t then some b else none
    | none, none => none
  | _ => none

mutual
/-- The fragment of expressions covered by `abs_sound_partial`:
    * every literal is well typed (`wfVal`)
    * the two results of every conditional have the same static primitive type (`staticTy`; one of them may
      be the literal `null`)
    * the body of every splat has a static primitive type -/
def okExpr : Expr → Bool
  | .lit v => wfVal v
  | .var _ => true
  | .getAttr e _ => okExpr e
  | .index e k => okExpr e && okExpr k
  | .bin _ l r => okExpr l && okExpr r
  | .un _ e => okExpr e
  | .cond c t f => okExpr c && okExpr t && okExpr f && (staticTy (.cond c t f)).isSome
  | .tuple es => okList es
  | .object items => okItems items
  | .forTuple _ _ coll val cond =>
    okExpr coll && okExpr val && (match cond with | none => true | some ce => okExpr ce)
  | .forObject _ _ coll key val cond _ =>
    okExpr coll && okExpr key && okExpr val && (match cond with | none => true | some ce => okExpr ce)
  | .splat _ src each => okExpr src && okExpr each && (staticTy each).isSome
  | .template parts => okList parts
  | .tjoin t => okExpr t
  | .call _ args expand => okList args && (match expand with | none => true | some le => okExpr le)
def okList : List Expr → Bool
  | [] => true
  | e :: es => okExpr e && okList es
def okItems : List (Expr × Expr) → Bool
  | [] => true
  | (k, v) :: rest => okExpr k && okExpr v && okItems rest
end

/-! ### literals and `tjoin` operands (for `known_in_known_out_partial`) -/

/-- expressions whose value is never null: what the parser puts below a `tjoin` -/
def isTupleForm : Expr → Bool
  | .forTuple .. => true
  | .tuple _ => true
  | _ => false

mutual
/-- The fragment of expressions covered by `known_in_known_out_partial`:
    * every literal is wholly known (the parser produces no unknown literals)
    * the operand of every `tjoin` is a `for` expression in tuple form or a tuple constructor (the template
      parser builds nothing else); such an operand is never null -/
def knownOk : Expr → Bool
  | .lit v => v.whollyKnown
  | .var _ => true
  | .getAttr e _ => knownOk e
  | .index e k => knownOk e && knownOk k
  | .bin _ l r => knownOk l && knownOk r
  | .un _ e => knownOk e
  | .cond c t f => knownOk c && knownOk t && knownOk f
  | .tuple es => knownOkList es
  | .object items => knownOkItems items
  | .forTuple _ _ coll val cond =>
    knownOk coll && knownOk val && (match cond with | none => true | some ce => knownOk ce)
  | .forObject _ _ coll key val cond _ =>
    knownOk coll && knownOk key && knownOk val && (match cond with | none => true | some ce => knownOk ce)
  | .splat _ src each => knownOk src && knownOk each
  | .template parts => knownOkList parts
  | .tjoin t => isTupleForm t && knownOk t
  | .call _ args expand => knownOkList args && (match expand with | none => true | some le => knownOk le)
def knownOkList : List Expr → Bool
  | [] => true
  | e :: es => knownOk e && knownOkList es
def knownOkItems : List (Expr × Expr) → Bool
  | [] => true
  | (k, v) :: rest => knownOk k && knownOk v && knownOkItems rest
end

/-! ### assumptions on the function table -/

/-- `SoundFuncs` plus: the declared return type is monotone for `conc`, parameter types are `any` or free of
    `any`, results are well typed. -/
structure SoundFuncsS (F : Funcs) : Prop where
  sound : SoundFuncs F
  retTy_mono : ∀ fn spec, F fn = some spec → ∀ cargs aargs, concL cargs aargs = true →
    spec.retTy aargs = .dyn ∨ spec.retTy cargs = spec.retTy aargs
  params_ok : ∀ fn spec, F fn = some spec →
    (∀ t ∈ spec.params, t.paramOk = true) ∧ (∀ t, spec.varParam = some t → t.paramOk = true)
  wf : ∀ fn spec, F fn = some spec → ∀ args r, (∀ a ∈ args, wfVal a = true) →
    spec.impl args = .ok r → wfVal r = true

end HclModel
