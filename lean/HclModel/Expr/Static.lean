import HclModel.Expr.Eval
/-!
Static analysis of expressions (C20): the traversal an expression denotes (`hcl.AbsTraversalForExpr`, via
`AsTraversal` of the native node types) and the application of a traversal to a scope
(`Traversal.TraverseAbs` / `TraverseRel`, traversal.go), against evaluation.
-/
namespace HclModel

inductive Step where
  | attr (name : String)          -- hcl.TraverseAttr
  | index (key : Val)             -- hcl.TraverseIndex
deriving Repr, Inhabited

structure Trav where
  root : String
  steps : List Step
deriving Repr, Inhabited

/-- `AbsTraversalForExpr`: only variable references followed by attribute steps and index steps with
    literal keys are traversals -/
def asTraversal : Expr → Option Trav
  | .var x => some ⟨x, []⟩
  | .getAttr e n => (asTraversal e).map fun t => ⟨t.root, t.steps ++ [.attr n]⟩
  | .index e (.lit k) => (asTraversal e).map fun t => ⟨t.root, t.steps ++ [.index k]⟩
  | _ => none

/-- `TraverseRel`: apply the steps one by one, stopping with `cty.DynamicVal` at the first failing step -/
def traverseRel (keepKeyMarks : Bool) : Val → List Diag → List Step → Out
  | v, ds, [] => (v, ds)
  | v, ds, s :: rest =>
    let (r, ds') := match s with
      | .attr n => getAttr v n
      | .index k => index keepKeyMarks v k
    if hasErrors ds' then (Val.dynVal, ds ++ ds') else traverseRel keepKeyMarks r (ds ++ ds') rest

/-- `TraverseAbs`: look the root up through the chain of scopes, then apply the steps -/
def traverseAbs (F : Cx) (ρ : Env) (t : Trav) : Out :=
  match ρ.lookup t.root with
  | none => errOut "Unknown variable"
  | some v => traverseRel F.keepKeyMarks v [] t.steps

/-- static parts of a tuple constructor (`hcl.ExprList`) -/
def exprList : Expr → Option (List Expr)
  | .tuple es => some es
  | _ => none

/-- static parts of a call (`hcl.ExprCall`): name and arguments (the expanded final argument apart) -/
def exprCall : Expr → Option (String × List Expr × Option Expr)
  | .call fn args ex => some (fn, args, ex)
  | _ => none

end HclModel
