import HclModel.Value.Ops
/-!
Model of hcldec (hcldec/spec.go, decode.go): specification trees, their implied type, and decoding of a body's
content into a value.

The body is given as its content already extracted for the specification (`hcl.BodyContent`: schema processing
is C04's business): attributes with their evaluated value (expression evaluation is C01's business) and child
blocks with labels and their own content.  Modelled spec kinds: Object, Tuple, Attr, Literal, Block, BlockList,
BlockTuple, BlockMap, BlockObject, BlockAttrs, BlockLabel, Default.  Not modelled: BlockSet (no sets in the
value model), ExprSpec, Transform*, Refine, Validate (application-supplied closures), optional object
attributes, custom decoders, unknown bodies.  Only error *presence* is kept of the diagnostics.

Panics of the code are `crash`es of the model, including those outside the documented preconditions: a
BlockLabelSpec outside of a block, a dynamic type under BlockMap, BlockMap / BlockObject without label names meeting
a block, and `cty.MapVal` receiving values of different types (BlockAttrs over a dynamic element type, BlockMap
elements of different types).  Known deviation: BlockList over elements of different types (see there).
-/
namespace HclModel.Dec

structure DAttr where
  name : String
  val : Val              -- value of the attribute's expression
  evalErr : Bool         -- its evaluation reported an error
deriving Inhabited

inductive DBlock where
  | mk (type : String) (labels : List String) (attrs : List DAttr) (blocks : List DBlock)
deriving Inhabited

def DBlock.type : DBlock → String | .mk t _ _ _ => t
def DBlock.labels : DBlock → List String | .mk _ l _ _ => l
def DBlock.attrs : DBlock → List DAttr | .mk _ _ a _ => a
def DBlock.blocks : DBlock → List DBlock | .mk _ _ _ b => b

inductive Spec where
  | object (fields : List (String × Spec))            -- sorted by name
  | tuple (elems : List Spec)
  | attr (name : String) (ty : Ty) (required : Bool)
  | literal (v : Val)
  | block (type : String) (nested : Spec) (required : Bool)
  | blockList (type : String) (nested : Spec) (min max : Nat)
  | blockTuple (type : String) (nested : Spec) (min max : Nat)
  | blockMap (type : String) (labelCount : Nat) (nested : Spec)
  | blockObject (type : String) (labelCount : Nat) (nested : Spec)
  | blockAttrs (type : String) (elemTy : Ty) (required : Bool)
  | blockLabel (index : Nat)
  | default (primary fallback : Spec)
deriving Inhabited

mutual
/-- `ImpliedType` -/
def impliedType : Spec → Ty
  | .object fields => .object (impliedFields fields)
  | .tuple elems => .tuple (impliedAll elems)
  | .attr _ ty _ => ty
  | .literal v => v.typeOf
  | .block _ nested _ => impliedType nested
  | .blockList _ nested _ _ => .list (impliedType nested)
  | .blockTuple _ _ _ _ => .dyn
  | .blockMap _ n nested => nestMap n (impliedType nested)
  | .blockObject _ _ _ => .dyn
  | .blockAttrs _ ety _ => .map ety
  | .blockLabel _ => .str
  | .default primary _ => impliedType primary
def impliedFields : List (String × Spec) → List (String × Ty)
  | [] => []
  | (k, s) :: rest => (k, impliedType s) :: impliedFields rest
def impliedAll : List Spec → List Ty
  | [] => []
  | s :: rest => impliedType s :: impliedAll rest
/-- `for range s.LabelNames { ret = cty.Map(ret) }` -/
def nestMap : Nat → Ty → Ty
  | 0, t => t
  | n+1, t => .map (nestMap n t)
end

mutual
/-- the dynamic pseudo-type occurs somewhere in the type -/
def hasDyn : Ty → Bool
  | .dyn => true
  | .list t | .map t => hasDyn t
  | .tuple ts => hasDynAll ts
  | .object fs => hasDynFields fs
  | _ => false
def hasDynAll : List Ty → Bool
  | [] => false
  | t :: ts => hasDyn t || hasDynAll ts
def hasDynFields : List (String × Ty) → Bool
  | [] => false
  | (_, t) :: fs => hasDyn t || hasDynFields fs
end

/-- result of decoding: the value, and whether any error diagnostic was produced; `crash` = a Go panic -/
inductive DRes where
  | ok (v : Val) (err : Bool)
  | crash (why : String)
deriving Inhabited

def findAttr (name : String) : List DAttr → Option DAttr
  | [] => none
  | a :: rest => if a.name == name then some a else findAttr name rest

def blocksOf (type : String) (blocks : List DBlock) : List DBlock := blocks.filter fun b => b.type == type

/-- nested insertion for BlockMapSpec: labels path → value; `none` when the path already holds a value -/
inductive MTree where
  | leaf (v : Val)
  | node (kids : List (String × MTree))
deriving Inhabited

def mtInsert : List String → Val → MTree → Option MTree
  | [], v, _ => some (.leaf v)
  | k :: ks, v, .node kids =>
    match lookupKey k kids with
    | some sub =>
      if ks.isEmpty then none           -- duplicate labels
      else (match mtInsert ks v sub with
            | some sub' => some (.node (insertSorted k sub' kids))
            | none => none)
    | none =>
      (match mtInsert ks v (.node []) with
       | some sub' => some (.node (insertSorted k sub' kids))
       | none => none)
  | _ :: _, _, .leaf _ => none

/-- the element type `cty.MapVal` settles on: the type of the first value that is not of (exactly) the dynamic
    pseudo-type; `dyn` when there is none -/
def mapElemTy : List (String × Val) → Ty
  | [] => .dyn
  | (_, v) :: rest => if v.typeOf == .dyn then mapElemTy rest else v.typeOf

/-- a value of exactly the dynamic pseudo-type (`cty.DynamicVal`, a null of that type) stored in a collection of
    element type `t`: the collection keeps only its raw content -/
def retype (t : Ty) : Val → Val
  | .unk f .dyn => .unk f t
  | .null f .dyn => .null f t
  | v => v

/-- `cty.MapVal`: the element type is the type of the values; values of the dynamic pseudo-type itself are exempt
    from the consistency check.  `none` = panic ("inconsistent map element types", or "must not call MapVal with
    empty map") -/
def mapVal (kvs : List (String × Val)) : Option Val :=
  let t := mapElemTy kvs
  if kvs.isEmpty then none
  else if kvs.all (fun kv => kv.2.typeOf == .dyn || kv.2.typeOf == t) then
    some (.map Fl.none t (kvs.map fun kv => (kv.1, retype t kv.2)))
  else none

mutual
/-- `ctyMap`: nested `cty.MapVal`s; `none` = `cty.MapVal` panics (the elements of some level differ in type) -/
def mtVal : MTree → Option Val
  | .leaf v => some v
  | .node kids =>
    match mtVals kids with
    | some vs => mapVal vs
    | none => none
def mtVals : List (String × MTree) → Option (List (String × Val))
  | [] => some []
  | (k, t) :: rest =>
    match mtVal t, mtVals rest with
    | some v, some vs => some ((k, v) :: vs)
    | _, _ => none
end

mutual
/-- `Spec.decode` on a body content with the labels of the enclosing block -/
def decode : Spec → List DAttr → List DBlock → List String → DRes
  | .object fields, attrs, blocks, labels =>
    match decodeFields fields attrs blocks labels with
    | some (kvs, err) => .ok (.object Fl.none kvs) err
    | none => .crash "object"
  | .tuple elems, attrs, blocks, labels =>
    match decodeAll elems attrs blocks labels with
    | some (vs, err) => .ok (.tuple Fl.none vs) err
    | none => .crash "tuple"
  | .attr name ty _, attrs, _, _ =>
    match findAttr name attrs with
    | none => .ok (.null Fl.none ty) false
    | some a =>
      match convert a.val ty with
      | .ok v => .ok v a.evalErr
      | .error _ => .ok (.unk Fl.none ty) true
  | .literal v, _, _, _ => .ok v false
  | .block type nested required, _, blocks, _ =>
    match blocksOf type blocks with
    | [] => .ok (.null Fl.none (impliedType nested)) required
    | b :: more =>
      match decode nested b.attrs b.blocks b.labels with
      | .ok v err => .ok v (err || !more.isEmpty)
      | .crash w => .crash w
  | .blockList type nested min max, _, blocks, _ =>
    match decodeBlocks nested (blocksOf type blocks) 0 with
    | none => .crash "blocklist"
    | some (elems, err) =>
      let err := err || elems.length < min || (max > 0 && elems.length > max)
      match elems with
      | [] => .ok (.list Fl.none (impliedType nested) []) err
      | v :: vs =>
        -- `convert.UnifyUnsafe` of the element types: identical types unify to themselves; anything else
        -- is either converted or reported as "Unconsistent argument types" with cty.DynamicVal
        if vs.all (fun w => w.typeOf == v.typeOf) then .ok (.list Fl.none v.typeOf (v :: vs)) err
        else .ok Val.dynVal true
  | .blockTuple type nested min max, _, blocks, _ =>
    match decodeBlocks nested (blocksOf type blocks) 0 with
    | none => .crash "blocktuple"
    | some (elems, err) =>
      .ok (.tuple Fl.none elems) (err || elems.length < min || (max > 0 && elems.length > max))
  | .blockMap type n nested, _, blocks, _ =>
    if hasDyn (impliedType nested) then .crash "cty.DynamicPseudoType attributes may not be used inside a BlockMapSpec"
    -- without label names `childBlock.Labels[:len(s.LabelNames)-1]` panics: only when there is a block to look at
    else if n = 0 ∧ !(blocksOf type blocks).isEmpty then .crash "BlockMapSpec without labels"
    else
      match decodeMap nested n (blocksOf type blocks) (.node []) false with
      | none => .crash "blockmap"
      | some (.node [], err) => .ok (.map Fl.none (impliedType nested) []) err     -- `cty.MapValEmpty(s.Nested.impliedType())`
      | some (t, err) =>
        match mtVal t with
        | some v => .ok v err
        | none => .crash "inconsistent map element types"
  | .blockObject type n nested, _, blocks, _ =>
    if n = 0 ∧ !(blocksOf type blocks).isEmpty then .crash "BlockObjectSpec without labels"
    else
      match decodeMap nested n (blocksOf type blocks) (.node []) false with
      | none => .crash "blockobject"
      | some (t, err) => .ok (mtObj t) err             -- `cty.EmptyObjectVal` when there is no block
  | .blockAttrs type ety required, _, blocks, _ =>
    match blocksOf type blocks with
    | [] => .ok (.null Fl.none (.map ety)) required
    | b :: more =>
      match b.attrs with
      | [] => .ok (.map Fl.none ety []) (!more.isEmpty)
      | as =>
        let conv := as.map fun a => (a.name, match convert a.val ety with | .ok v => (v, a.evalErr) | .error _ => (Val.unk Fl.none ety, true))
        let kvs := conv.foldl (fun acc p => insertSorted p.1 p.2.1 acc) []
        let err := conv.any (·.2.2) || !more.isEmpty
        -- `cty.MapVal(vals)`: without a dynamic part in the element type every value has exactly that type
        if hasDyn ety then
          match mapVal kvs with
          | some v => .ok v err
          | none => .crash "inconsistent map element types"
        else .ok (.map Fl.none ety kvs) err
  | .blockLabel i, _, _, labels =>
    match labels[i]? with
    | some l => .ok (.str Fl.none l) false
    | none => .crash "BlockLabelSpec used in non-block context"
  | .default primary fallback, attrs, blocks, labels =>
    match decode primary attrs blocks labels with
    | .ok v err =>
      if v.isNull then
        (match decode fallback attrs blocks labels with
         | .ok v' err' => .ok v' (err || err')
         | .crash w => .crash w)
      else .ok v err
    | .crash w => .crash w
def decodeFields : List (String × Spec) → List DAttr → List DBlock → List String → Option (List (String × Val) × Bool)
  | [], _, _, _ => some ([], false)
  | (k, s) :: rest, attrs, blocks, labels =>
    match decode s attrs blocks labels, decodeFields rest attrs blocks labels with
    | .ok v e, some (kvs, e') => some ((k, v) :: kvs, e || e')
    | _, _ => none
def decodeAll : List Spec → List DAttr → List DBlock → List String → Option (List Val × Bool)
  | [], _, _, _ => some ([], false)
  | s :: rest, attrs, blocks, labels =>
    match decode s attrs blocks labels, decodeAll rest attrs blocks labels with
    | .ok v e, some (vs, e') => some (v :: vs, e || e')
    | _, _ => none
/-- decode every block of a list with the nested spec; blocks with fewer labels than `skip` cannot occur here -/
def decodeBlocks : Spec → List DBlock → Nat → Option (List Val × Bool)
  | _, [], _ => some ([], false)
  | nested, b :: rest, skip =>
    match decode nested b.attrs b.blocks (b.labels.drop skip), decodeBlocks nested rest skip with
    | .ok v e, some (vs, e') => some (v :: vs, e || e')
    | _, _ => none
/-- the loop of BlockMapSpec / BlockObjectSpec: the first `n` labels are the path; `none` = crash -/
def decodeMap : Spec → Nat → List DBlock → MTree → Bool → Option (MTree × Bool)
  | _, _, [], t, err => some (t, err)
  | nested, n, b :: rest, t, err =>
    if b.labels.length < n then none        -- `childBlock.Labels[:len(s.LabelNames)-1]` out of range
    else
      match decode nested b.attrs b.blocks (b.labels.drop n) with
      | .crash _ => none
      | .ok v e =>
        match mtInsert (b.labels.take n) v t with
        | some t' => decodeMap nested n rest t' (err || e)
        | none => decodeMap nested n rest t true        -- duplicate: diagnostic, block skipped
/-- BlockObjectSpec builds objects instead of maps -/
def mtObj : MTree → Val
  | .leaf v => v
  | .node kids => .object Fl.none (mtObjs kids)
def mtObjs : List (String × MTree) → List (String × Val)
  | [] => []
  | (k, t) :: rest => (k, mtObj t) :: mtObjs rest
end

mutual
/-- `conforms t implied`: equal wherever the implied type is not dynamic (`TestConformance`) -/
def conforms : Ty → Ty → Bool
  | _, .dyn => true
  | .str, .str | .num, .num | .bool, .bool => true
  | .list a, .list b => conforms a b
  | .map a, .map b => conforms a b
  | .tuple as, .tuple bs => conformsAll as bs
  | .object as, .object bs => conformsFields as bs
  | _, _ => false
def conformsAll : List Ty → List Ty → Bool
  | [], [] => true
  | a :: as, b :: bs => conforms a b && conformsAll as bs
  | _, _ => false
def conformsFields : List (String × Ty) → List (String × Ty) → Bool
  | [], [] => true
  | (k, a) :: as, (l, b) :: bs => k == l && conforms a b && conformsFields as bs
  | _, _ => false
end

mutual
/-- documented preconditions of the spec kinds, as far as they matter for typing: label counts positive, no
    dynamic types under BlockMap, DefaultSpec sides of the same implied type -/
def wf : Spec → Bool
  | .object fields => wfFields fields
  | .tuple elems => wfAll elems
  | .block _ nested _ => wf nested
  | .blockList _ nested _ _ => wf nested
  | .blockTuple _ nested _ _ => wf nested
  | .blockMap _ k nested => k > 0 && !hasDyn (impliedType nested) && wf nested
  | .blockObject _ k nested => k > 0 && wf nested
  | .default p f => wf p && wf f && impliedType p == impliedType f
  | _ => true
def wfFields : List (String × Spec) → Bool
  | [] => true
  | (_, s) :: rest => wf s && wfFields rest
def wfAll : List Spec → Bool
  | [] => true
  | s :: rest => wf s && wfAll rest
end

mutual
/-- the two places where the current code returns a value outside the implied type (recorded findings) are
    excluded: a BlockList whose element type contains the dynamic pseudo-type (inconsistent element types give
    `cty.DynamicVal`), and a BlockMap with more than one label (an empty one is `map(T)`, not `map(map(T))`) -/
def okSpec : Spec → Bool
  | .object fields => okFields fields
  | .tuple elems => okAll elems
  | .block _ nested _ => okSpec nested
  | .blockList _ nested _ _ => !hasDyn (impliedType nested) && okSpec nested
  | .blockTuple _ nested _ _ => okSpec nested
  | .blockMap _ k nested => k == 1 && okSpec nested
  | .blockObject _ _ nested => okSpec nested
  | .default p f => okSpec p && okSpec f
  | _ => true
def okFields : List (String × Spec) → Bool
  | [] => true
  | (_, s) :: rest => okSpec s && okFields rest
def okAll : List Spec → Bool
  | [] => true
  | s :: rest => okSpec s && okAll rest
end

end HclModel.Dec
