import HclModel.Expr.Eval
/-!
The variable summary of the text diagnostic writer (`diagnostic_text.go`, `WriteDiagnostic`, the block
`if diag.Expression != nil && diag.EvalContext != nil { … }` with its helpers `traversalStr` and `valueStr`):
for every traversal in `diag.Expression.Variables()` the writer looks the traversal up in `diag.EvalContext`
and prints `with <traversal> as <value>` / `<traversal> set to null`.

What is modelled

* a traversal: a root name and attribute / index steps (`TraverseSplat.TraversalStep` panics in Go: no model);
* the scope: the chain of `hcl.EvalContext`s, innermost first.  `Traversal.TraverseAbs` (`traversal.go`) walks
  from the given context through `parent` and takes the **first** context whose `Variables` has the name.  A
  context with `Variables == nil` and a context that lacks the name are both passed over; the only difference
  is which error is reported when no context has the name ("Variables not allowed" if every context is nil,
  "Unknown variable" otherwise) — either way the writer skips the traversal.  So a nil context is the empty
  `Env` here;
* the steps go through `hcl.GetAttr` / `hcl.Index` (`Access.getAttr`, `Access.index` in the Go configuration
  `keepKeyMarks = false`); any diagnostic makes the writer skip the traversal (`traverseAbs = none`);
* the `switch`: unknown → skipped; null → `set to null` (tested **before** the mark: the nullness of a marked
  value is shown); marked at the top (`val.IsMarked()`, nothing deeper is looked at) → skipped; else `valueStr`;
* what is printed is represented by its *fragments*: the values whose run-time content the text contains
  (as `Diag.frags` of the evaluator model).  Text that depends only on types and lengths ("list of string with
  3 elements", "object with 2 attributes") has no fragment.

What is not modelled: the layout of the lines; the sorting of the statements (`sort.Strings`); the suppression
of a traversal whose rendered string was already shown (`seen`) — both only permute / remove statements, so
`stmts` (which keeps every statement, in the order of the traversals) shows a superset; number formatting
(`big.Float.Text('g', 10)`): a number is its own fragment.  A primitive index key that is *marked* makes the Go
writer panic (`valueStr(tStep.Key)` calls `AsString` / `AsBigFloat` / `True` on a marked value) when the
traversal resolves without error; the model is total and treats such a key as a fragment.
-/
namespace HclModel.TextW

inductive Step where
  | attr (name : String)
  | index (key : Val)
deriving Repr, Inhabited

structure Trav where
  root : String
  steps : List Step
deriving Repr, Inhabited

/-- the first context, from the innermost outwards, whose `Variables` has the name -/
def lookupRoot : List Env → String → Option Val
  | [], _ => none
  | ρ :: rest, x =>
    match ρ.lookup x with
    | some v => some v
    | none => lookupRoot rest x

/-- one `TraversalStep`: `hcl.GetAttr` / `hcl.Index` -/
def stepOut (v : Val) : Step → Out
  | .attr n => getAttr v n
  | .index k => index false v k

/-- `Traversal.TraverseRel`, with "any diagnostic" as `none` -/
def traverseRel : Val → List Step → Option Val
  | v, [] => some v
  | v, s :: rest =>
    match stepOut v s with
    | (x, []) => traverseRel x rest
    | _ => none

/-- `Traversal.TraverseAbs` as the writer uses it: the value, or `none` when there are diagnostics -/
def traverseAbs (ctxs : List Env) (t : Trav) : Option Val :=
  match lookupRoot ctxs t.root with
  | some v => traverseRel v t.steps
  | none => none

/-- what a statement shows -/
inductive Shown where
  /-- no statement -/
  | skip
  /-- `<traversal> set to null`: only the traversal string carries content (its index keys) -/
  | null (keys : List Val)
  /-- `<traversal> as <valueStr>`: the index keys of the traversal string, then the content of the value -/
  | text (frags : List Val)
deriving Repr, Inhabited

def Shown.frags : Shown → List Val
  | .skip => []
  | .null ks => ks
  | .text fs => fs

/-- the content that `valueStr` prints.  Strings (`%q` of the content), numbers (digits), bools (`true` /
    `false`) print themselves.  Lists, maps and tuples print their type name and their length; objects with
    no or with several attributes print the number of attributes.  An object with exactly one attribute prints
    that attribute's *name*: attribute names have no flags of their own (in cty they are part of the object's
    type and cannot be marked apart from the object), so the fragment is the name with the flags of the object
    node. -/
def valueFrags : Val → List Val
  | .str f s => [.str f s]
  | .num f q => [.num f q]
  | .bool f b => [.bool f b]
  | .object f [(k, _)] => [.str f k]
  | _ => []

/-- `traversalStr`: the key of an index step is printed with `valueStr` when its type is primitive (a known
    key: its content; an unknown one: "(not yet known)"), as `...` otherwise -/
def keyFrags : Val → List Val
  | .str f s => [.str f s]
  | .num f q => [.num f q]
  | .bool f b => [.bool f b]
  | _ => []

def stepFrags : Step → List Val
  | .attr _ => []
  | .index k => keyFrags k

def travFrags (t : Trav) : List Val := t.steps.flatMap stepFrags

/-- the index keys of a traversal -/
def Trav.keys (t : Trav) : List Val :=
  t.steps.filterMap fun s => match s with | .index k => some k | .attr _ => none

/-- the `switch` of the writer -/
def shownOf (t : Trav) (v : Val) : Shown :=
  if !v.isKnown then .skip
  else if v.isNull then .null (travFrags t)
  else if v.isMarked then .skip
  else .text (travFrags t ++ valueFrags v)

def stmtOf (ctxs : List Env) (t : Trav) : Shown :=
  match traverseAbs ctxs t with
  | none => .skip
  | some v => shownOf t v

/-- every traversal with its statement, in the order of `Variables()`; the Go writer sorts the rendered
    statements and shows only the first of several traversals that render alike (not modelled) -/
def stmts (ctxs : List Env) (ts : List Trav) : List (Trav × Shown) :=
  ts.map fun t => (t, stmtOf ctxs t)

/-- some step of the traversal meets a construct the value model does not cover (an `UNSUPPORTED` marker of
    `convert`): the driver answers `unsupported` instead of a verdict -/
def travUnsupported (ctxs : List Env) (t : Trav) : Bool :=
  match lookupRoot ctxs t.root with
  | none => false
  | some v => go v t.steps
where
  go : Val → List Step → Bool
    | _, [] => false
    | v, s :: rest =>
      match stepOut v s with
      | (x, []) => go x rest
      | (_, ds) => ds.any Diag.isUnsupported

end HclModel.TextW
