/-!
C15: the places where the library builds a diagnostic.  One record per composite literal of type
`hcl.Diagnostic` in the non-test source of the library packages, regenerated from the Go AST on every
check (`HclModel/Gen/DiagSites.lean`, translator `harness/lib/gendiag.go`).
-/
namespace HclModel.DiagSites

structure Site where
  file : String
  /-- 0 = the root package, 1 = hclsyntax, 2 = json, 3 = hclwrite, 4 = hcldec, 5 = gohcl, … (the translator's list) -/
  pkg : Nat
  line : Nat
  /-- 0 = no `Severity`, 1 = `DiagError`, 2 = `DiagWarning`, 3 = another expression -/
  sev : Nat
  /-- 0 = no `Summary`, 1 = non-empty string literal, 2 = empty string literal, 3 = another expression -/
  summary : Nat
  detail : Bool
  subject : Bool
  context : Bool
  deriving Repr, DecidableEq

/-- the literal names one of the two severities: the zero value `DiagInvalid` cannot come out of it -/
def Site.sevOk (s : Site) : Bool := s.sev == 1 || s.sev == 2

/-- the literal sets a summary that is not the empty string literal -/
def Site.summaryOk (s : Site) : Bool := s.summary == 1 || s.summary == 3

/-- the front ends whose diagnostics must point into the input -/
def Site.frontEnd (s : Site) : Bool :=
  s.pkg == 1 || s.pkg == 2

def Site.wellFormed (s : Site) : Bool := s.sevOk && s.summaryOk

def allWellFormed (l : List Site) : Bool := l.all Site.wellFormed

/-- sites of the front ends that set no `Subject` -/
def noSubject (l : List Site) : List (String × Nat) :=
  (l.filter fun s => s.frontEnd && !s.subject).map fun s => (s.file, s.line)

theorem allWellFormed_iff (l : List Site) :
    allWellFormed l = true ↔ ∀ s ∈ l, (s.sev = 1 ∨ s.sev = 2) ∧ (s.summary = 1 ∨ s.summary = 3) := by
  simp [allWellFormed, Site.wellFormed, Site.sevOk, Site.summaryOk, List.all_eq_true]

end HclModel.DiagSites
