/-!
Quoted string literals: `hclwrite.escapeQuotedStringLit` (generate.go) and the reading side
(`scan_tokens.rl` stringTemplate literal rules + `scan_string_lit.rl` + `ParseStringLiteralToken`),
over Unicode scalar values (`Char`); UTF-8 encoding and NFC normalisation are not modelled.
`isPrint` stands for Go's `unicode.IsPrint` and is a parameter: the round trip must hold whatever it says.
-/
namespace HclModel.StringLit

def hexDigit (n : Nat) : Char :=
  if n < 10 then Char.ofNat (48 + n) else Char.ofNat (87 + n)      -- '0'.. / 'a'..

/-- `k` lower-case hex digits of `n`, most significant first (`%0kx`) -/
def hexN : Nat → Nat → List Char
  | 0, _ => []
  | k+1, n => hexN k (n / 16) ++ [hexDigit (n % 16)]

/-- `escapeQuotedStringLit` -/
def escape (isPrint : Char → Bool) : List Char → List Char
  | [] => []
  | c :: rest =>
    (if c = '\n' then ['\\', 'n']
     else if c = '\r' then ['\\', 'r']
     else if c = '\t' then ['\\', 't']
     else if c = '"' then ['\\', '"']
     else if c = '\\' then ['\\', '\\']
     else if c = '$' ∨ c = '%' then
       (match rest with
        | '{' :: _ => [c, c]       -- double the introducer to escape it
        | _ => [c])
     else if !isPrint c then
       (if c.toNat < 65536 then '\\' :: 'u' :: hexN 4 c.toNat else '\\' :: 'U' :: hexN 8 c.toNat)
     else [c]) ++ escape isPrint rest

def hexVal? (c : Char) : Option Nat :=
  if '0' ≤ c ∧ c ≤ '9' then some (c.toNat - 48)
  else if 'a' ≤ c ∧ c ≤ 'f' then some (c.toNat - 87)
  else if 'A' ≤ c ∧ c ≤ 'F' then some (c.toNat - 55)
  else none

/-- exactly `k` hex digits -/
def hexNum? : Nat → List Char → Option (Nat × List Char)
  | 0, cs => some (0, cs)
  | k+1, c :: cs => do
    let d ← hexVal? c
    let (n, rest) ← hexNum? k cs
    pure (d * 16 ^ k + n, rest)
  | _+1, [] => none

/-- a valid Unicode scalar value (what `utf8.RuneLen` accepts) -/
def scalar? (n : Nat) : Option Char :=
  if n.isValidChar then some (Char.ofNat n) else none

/-- what the characters between the quotes of a quoted template denote, provided they form a single
    literal (no interpolation / directive, no bare quote or newline): `none` otherwise.
    `fuel` ≥ length. -/
def unescape : Nat → List Char → Option (List Char)
  | 0, _ => none
  | _, [] => some []
  | fuel+1, c :: rest =>
    if c = '\\' then
      match rest with
      | 'n' :: r => ('\n' :: ·) <$> unescape fuel r
      | 'r' :: r => ('\r' :: ·) <$> unescape fuel r
      | 't' :: r => ('\t' :: ·) <$> unescape fuel r
      | '"' :: r => ('"' :: ·) <$> unescape fuel r
      | '\\' :: r => ('\\' :: ·) <$> unescape fuel r
      | 'u' :: r =>
        (match hexNum? 4 r with
         | some (n, r') => (match scalar? n with
            | some ch => (ch :: ·) <$> unescape fuel r'
            | none => none)
         | none => none)
      | 'U' :: r =>
        (match hexNum? 8 r with
         | some (n, r') => (match scalar? n with
            | some ch => (ch :: ·) <$> unescape fuel r'
            | none => none)
         | none => none)
      | _ => none
    else if c = '$' ∨ c = '%' then
      match rest with
      | '{' :: _ => none                          -- an interpolation / directive would start here
      | c' :: '{' :: r => if c' = c then (fun t => c :: '{' :: t) <$> unescape fuel r
                          else (c :: ·) <$> unescape fuel rest
      | _ => (c :: ·) <$> unescape fuel rest
    else if c = '"' ∨ c = '\n' ∨ c = '\r' then none
    else (c :: ·) <$> unescape fuel rest

def parseQuoted (cs : List Char) : Option (List Char) := unescape (cs.length + 1) cs

end HclModel.StringLit
