/-!
Pointer-level model of the writer's syntax-tree bookkeeping for one body (hclwrite/node.go, ast_body.go):
the doubly linked list of child nodes (`nodes.first/last`, `node.before/after/list`), the `items` node set,
and the body operations built on `AppendNode` / `Detach`.  Against it: the simple list model a user has in mind.

Node contents: an attribute (name + an opaque expression payload), a block (type + labels; its own body is a
separate instance of this model), or unstructured tokens (newlines, comments).  Replacing an attribute's
expression (`attr.expr.ReplaceWith`) happens inside the attribute's own child list, never at its ends (the
expression sits between the `=` and the end-of-line tokens), and is modelled as a content update.
-/
namespace HclModel.Nodes

inductive Content where
  | attr (name : String) (expr : Nat)
  | block (type : String) (labels : List String) (id : Nat)
  | tokens (t : Nat)
deriving Repr, DecidableEq, Inhabited

structure Node where
  content : Content
  attached : Bool := false          -- `list != nil`
  before : Option Nat := none
  after : Option Nat := none
deriving Repr, DecidableEq, Inhabited

/-- the heap of nodes (by address), the list header and the item set of one body -/
structure St where
  node : Nat → Node
  next : Nat := 0                   -- next free address
  first : Option Nat := none
  last : Option Nat := none
  items : List Nat := []            -- nodeSet (a Go map: no order)

def St.init : St := { node := fun _ => ⟨.tokens 0, false, none, none⟩ }

def upd (f : Nat → Node) (a : Nat) (n : Node) : Nat → Node := fun x => if x = a then n else f x

/-- `nodes.AppendNode` on a fresh node with the given content; returns the address -/
def appendNode (s : St) (c : Content) : St × Nat :=
  let a := s.next
  let n : Node := { content := c, attached := true, before := s.last, after := none }
  let node := upd s.node a n
  let node := match s.last with
    | some l => upd node l { node l with after := some a }
    | none => node
  ({ s with node := node, next := a + 1, last := some a, first := (match s.first with | none => some a | some f => some f) }, a)

/-- `node.Detach` -/
def detach (s : St) (a : Nat) : St :=
  let n := s.node a
  if !n.attached then s else
  let node := s.node
  let node := match n.before with
    | some b => upd node b { node b with after := n.after }
    | none => node
  let node := match n.after with
    | some c => upd node c { node c with before := n.before }
    | none => node
  let first := if s.first = some a then n.after else s.first
  let last := if s.last = some a then n.before else s.last
  let node := upd node a { node a with attached := false, before := none, after := none }
  { s with node := node, first := first, last := last }

/-- walk the list from a node along `after` (fuel bounds the walk) -/
def walk (s : St) : Nat → Option Nat → List Nat
  | 0, _ => []
  | _, none => []
  | fuel+1, some a => a :: walk s fuel (s.node a).after

/-- the children in list order -/
def St.children (s : St) : List Nat := walk s s.next s.first

/-- `nodeSet.List()`: the items in list order -/
def St.itemList (s : St) : List Nat := s.children.filter fun a => s.items.contains a

/-! ### body operations (ast_body.go) -/

inductive Op where
  | setAttr (name : String) (expr : Nat)       -- SetAttributeValue / Traversal / Raw
  | removeAttr (name : String)
  | renameAttr (src dst : String)
  | appendBlock (type : String) (labels : List String) (id : Nat)   -- AppendNewBlock / AppendBlock
  | removeBlock (id : Nat)
  | appendNewline
deriving Repr, DecidableEq, Inhabited

def isAttrNamed (s : St) (name : String) (a : Nat) : Bool :=
  match (s.node a).content with
  | .attr n _ => n == name
  | _ => false

/-- `getAttributeNode`: some item that is an attribute with that name (Go iterates a map: any one) -/
def findAttr (s : St) (name : String) : Option Nat := s.items.find? (isAttrNamed s name)

def findBlock (s : St) (id : Nat) : Option Nat :=
  s.items.find? fun a => match (s.node a).content with | .block _ _ i => i == id | _ => false

def setContent (s : St) (a : Nat) (c : Content) : St :=
  { s with node := upd s.node a { s.node a with content := c } }

def step (s : St) : Op → St
  | .setAttr name expr =>
    match findAttr s name with
    | some a => setContent s a (.attr name expr)
    | none =>
      let (s', a) := appendNode s (.attr name expr)
      { s' with items := a :: s'.items }
  | .removeAttr name =>
    match findAttr s name with
    | some a => let s' := detach s a; { s' with items := s'.items.filter (· ≠ a) }
    | none => s
  | .renameAttr src dst =>
    match findAttr s src, findAttr s dst with
    | some a, none =>
      (match (s.node a).content with
       | .attr _ e => setContent s a (.attr dst e)
       | _ => s)
    | _, _ => s
  | .appendBlock type labels id =>
    let (s', a) := appendNode s (.block type labels id)
    { s' with items := a :: s'.items }
  | .removeBlock id =>
    match findBlock s id with
    | some a => let s' := detach s a; { s' with items := s'.items.filter (· ≠ a) }
    | none => s
  | .appendNewline => (appendNode s (.tokens 10)).1

def runOps (s : St) (ops : List Op) : St := ops.foldl step s

/-! ### the abstract view -/

inductive Item where
  | attr (name : String) (expr : Nat)
  | block (type : String) (labels : List String) (id : Nat)
deriving Repr, DecidableEq, Inhabited

/-- what the serialised body contains: the structured items among the children, in order -/
def abs (s : St) : List Item :=
  s.itemList.filterMap fun a => match (s.node a).content with
    | .attr n e => some (.attr n e)
    | .block t l i => some (.block t l i)
    | .tokens _ => none

/-- the simple model: a list of items with map-like attribute updates -/
def specStep (l : List Item) : Op → List Item
  | .setAttr name expr =>
    if l.any (fun i => match i with | .attr n _ => n == name | _ => false)
    then l.map fun i => match i with | .attr n e => if n == name then .attr n expr else .attr n e | b => b
    else l ++ [.attr name expr]
  | .removeAttr name => l.filter fun i => match i with | .attr n _ => n != name | _ => true
  | .renameAttr src dst =>
    if l.any (fun i => match i with | .attr n _ => n == src | _ => false) &&
       !l.any (fun i => match i with | .attr n _ => n == dst | _ => false)
    then l.map fun i => match i with | .attr n e => if n == src then .attr dst e else .attr n e | b => b
    else l
  | .appendBlock type labels id => l ++ [.block type labels id]
  | .removeBlock id => l.filter fun i => match i with | .block _ _ i' => i' != id | _ => true
  | .appendNewline => l

def specRun (l : List Item) (ops : List Op) : List Item := ops.foldl specStep l

/-- block ids supplied by the caller are fresh (AppendNewBlock creates a new block each time) -/
def freshIds : List Item → List Op → Prop
  | _, [] => True
  | l, .appendBlock t ls id :: rest =>
    (∀ i ∈ l, match i with | .block _ _ i' => i' ≠ id | _ => True) ∧ freshIds (specStep l (.appendBlock t ls id)) rest
  | l, op :: rest => freshIds (specStep l op) rest

/-- the structural invariant of the pointer structure -/
def WellFormed (s : St) : Prop :=
  let cs := s.children
  cs.Nodup ∧
  s.first = cs.head? ∧ s.last = cs.getLast? ∧
  (∀ a ∈ cs, (s.node a).attached = true ∧ a < s.next) ∧
  (∀ a, a < s.next → a ∉ cs → (s.node a).attached = false) ∧
  (∀ (i : Nat) (a : Nat), cs[i]? = some a →
      (s.node a).before = (if i = 0 then none else cs[i - 1]?) ∧ (s.node a).after = cs[i + 1]?) ∧
  (∀ a ∈ s.items, a ∈ cs) ∧ s.items.Nodup ∧
  (∀ a ∈ s.items, ∀ b ∈ s.items, ∀ n e e', (s.node a).content = .attr n e → (s.node b).content = .attr n e' → a = b)

/-- `Body.GetAttribute(name)`: the expression of the attribute of that name, if any -/
def getAttribute (s : St) (name : String) : Option Nat :=
  match findAttr s name with
  | some a => (match (s.node a).content with | .attr _ e => some e | _ => none)
  | none => none

def specGetAttribute (l : List Item) (name : String) : Option Nat :=
  l.findSome? fun i => match i with | .attr n e => if n == name then some e else none | _ => none

end HclModel.Nodes
