/-!
Model of `hclwrite/format.go`: `linesForFormat`, `formatIndent`, `formatSpaces`,
`formatCells`, generic in the rule tables `spaceAfterToken` / `tokenBracketChange`
(parameter `Rules`, dumped from the compiled Go code at check time).

Go mutates `SpacesBefore` in place through pointers shared by the line cells; here every pass
returns the new lines.  Token type codes are the Go rune values.
-/
namespace HclModel.Format

/-- what the formatter can see of a token -/
structure Tok where
  ty : Nat          -- hclsyntax.TokenType rune value
  isIn : Bool       -- an identifier token whose bytes are `in`
  nl : Bool         -- tokenIsNewline: TokenNewline, or a comment ending in "\n"
  width : Nat       -- grapheme clusters of the token's bytes
  sp : Nat          -- SpacesBefore
deriving Repr, DecidableEq, Inhabited

def tyNil : Nat := 0
def tyNewline : Nat := 10
def tyEOF : Nat := 9220        -- '␄'
def tyEqual : Nat := 61        -- '='
def tyComment : Nat := 67      -- 'C'
def tyOHeredoc : Nat := 72     -- 'H'

/-- the two decision functions of the formatter, as parameters -/
structure Rules where
  /-- `spaceAfterToken subject before after`: subject type, subject is keyword `in`, before type, after type -/
  spaceAfter : Nat → Bool → Nat → Nat → Bool
  bracket : Nat → Int

structure Line where
  lead : List Tok
  assign : List Tok     -- `[]` is Go's nil
  comment : List Tok    -- `[]` is Go's nil
deriving Repr, DecidableEq, Inhabited

def setSp (t : Tok) (n : Nat) : Tok := { t with sp := n }

def erase (t : Tok) : Tok := { t with sp := 0 }

/-! ### linesForFormat -/

/-- split at newline tokens; stop at the first EOF, after which everything left is the last line.
    Returns the raw lines (each including its terminating newline token). -/
def splitRaw : List Tok → List Tok → List (List Tok)
  | [], cur => [cur.reverse]
  | t :: rest, cur =>
    if t.ty = tyEOF then [cur.reverse ++ t :: rest]
    else if t.nl then (t :: cur).reverse :: splitRaw rest []
    else splitRaw rest (t :: cur)

/-- the trailing EOF (dropped from the last line when it is the very last token) -/
def stripEOF (l : List Tok) : List Tok × List Tok :=
  match l.getLast? with
  | some t => if t.ty = tyEOF then (l.dropLast, [t]) else (l, [])
  | none => (l, [])

def netBrackets (R : Rules) (ts : List Tok) : Int :=
  ts.foldl (fun acc t => acc + R.bracket t.ty) 0

/-- position of the first `=` at index > 0 (index counted from 0 of the lead cell) -/
def findEqual : List Tok → Nat → Option Nat
  | [], _ => none
  | t :: rest, i => if i > 0 ∧ t.ty = tyEqual then some i else findEqual rest (i+1)

def cells (R : Rules) (raw : List Tok) : Line :=
  let (lead, comment) :=
    match raw.getLast? with
    | some t => if raw.length > 1 ∧ t.ty = tyComment then (raw.dropLast, [t]) else (raw, [])
    | none => (raw, [])
  match findEqual lead 0 with
  | some i =>
    if netBrackets R (lead.drop i) = 0 then
      { lead := lead.take i, assign := lead.drop i, comment := comment }
    else { lead := lead, assign := [], comment := comment }
  | none => { lead := lead, assign := [], comment := comment }

/-- lines plus the stripped trailing EOF token (if any) -/
def linesFor (R : Rules) (toks : List Tok) : List Line × List Tok :=
  if toks.isEmpty then ([], []) else
  let (body, eof) := stripEOF toks
  ((splitRaw body []).map (cells R), eof)

/-! ### formatIndent -/

/-- pop the indent stack (top first) for `closed` closing brackets -/
def popIndents : Nat → List Nat → List Nat
  | _, [] => []
  | closed, top :: st =>
    if closed = 0 then top :: st
    else if closed > top then popIndents (closed - top) st
    else if closed < top then (top - closed) :: st
    else st

/-- brackets counted on the lead cell stop after a heredoc opener -/
def leadBrackets (R : Rules) : List Tok → Int
  | [] => 0
  | t :: rest => if t.ty = tyOHeredoc then R.bracket t.ty else R.bracket t.ty + leadBrackets R rest

def setHead (n : Nat) : List Tok → List Tok
  | [] => []
  | t :: rest => setSp t n :: rest

/-- `indents` is kept top-first -/
def indentLines (R : Rules) : List Line → List Nat → List Line
  | [], _ => []
  | l :: ls, st =>
    match l.lead with
    | [] => l :: indentLines R ls st
    | t :: _ =>
      if t.ty = tyNewline then { l with lead := setHead 0 l.lead } :: indentLines R ls st
      else
        let net := leadBrackets R l.lead + netBrackets R l.assign
        if net > 0 then
          { l with lead := setHead (2 * st.length) l.lead } :: indentLines R ls (net.toNat :: st)
        else if net < 0 then
          let st' := popIndents (-net).toNat st
          { l with lead := setHead (2 * st'.length) l.lead } :: indentLines R ls st'
        else
          { l with lead := setHead (2 * st.length) l.lead } :: indentLines R ls st

/-! ### formatSpaces -/

/-- the tokens after `subject` in a cell: each gets 1 or 0 spaces depending on the token before it
    (`subject`), the type of the one before that (`before`, Nil at the start) and its own type -/
def spaceRest (R : Rules) : Tok → Nat → List Tok → List Tok
  | _, _, [] => []
  | subject, before, a :: rest =>
    setSp a (if R.spaceAfter subject.ty subject.isIn before a.ty then 1 else 0)
      :: spaceRest R a subject.ty rest

/-- walk a cell: the first token is left alone -/
def spaceCell (R : Rules) : List Tok → List Tok
  | [] => []
  | t :: rest => t :: spaceRest R t tyNil rest

def spaceLine (R : Rules) (l : Line) : Line :=
  { l with lead := spaceCell R l.lead, assign := spaceCell R (setHead 1 l.assign) }

/-! ### formatCells -/

def columns (ts : List Tok) : Nat := ts.foldl (fun acc t => acc + t.sp + t.width) 0

/-- generic chain alignment: `has l` says whether the line takes part, `cols l` is its width before the
    aligned cell, `set l n` writes the spaces.  Consecutive participating lines form a chain. -/
def alignChains (has : Line → Bool) (cols : Line → Nat) (set : Line → Nat → Line) :
    List Line → List Line → List Line
  | [], chain =>
    let m := chain.foldl (fun m l => max m (cols l)) 0
    chain.reverse.map fun l => set l (m - cols l + 1)
  | l :: ls, chain =>
    if has l then alignChains has cols set ls (l :: chain)
    else
      let m := chain.foldl (fun m l => max m (cols l)) 0
      (chain.reverse.map fun l => set l (m - cols l + 1)) ++ l :: alignChains has cols set ls []

def alignAssign (ls : List Line) : List Line :=
  alignChains (fun l => !l.assign.isEmpty) (fun l => columns l.lead)
    (fun l n => { l with assign := setHead n l.assign }) ls []

def alignComment (ls : List Line) : List Line :=
  alignChains (fun l => !l.comment.isEmpty) (fun l => columns l.lead + columns l.assign)
    (fun l n => { l with comment := setHead n l.comment }) ls []

/-! ### format -/

def flatten (ls : List Line) : List Tok := ls.flatMap fun l => l.lead ++ l.assign ++ l.comment

def formatLines (R : Rules) (ls : List Line) : List Line :=
  alignComment (alignAssign ((indentLines R ls []).map (spaceLine R)))

def format (R : Rules) (toks : List Tok) : List Tok :=
  let (ls, eof) := linesFor R toks
  flatten (formatLines R ls) ++ eof

/-- the spacing of the trailing end-of-file token, the only token the formatter never assigns -/
def eofSp (ts : List Tok) : Nat :=
  match ts.getLast? with
  | some t => if t.ty = tyEOF then t.sp else 0
  | none => 0

end HclModel.Format
