/-!
Model of the writer's loader (hclwrite/parser.go): how `ParseConfig` distributes the source tokens over the
writer syntax tree, guided by the source ranges of the native AST — `parseBody`, `parseBodyItem`,
`parseAttribute`, `parseBlock`, `parseBlockLabels`, `parseExpression`, `parseTraversal`, `parseTraversalStep`
and the partition helpers (`partitionTokens`, `partitionLeadCommentTokens`, `partitionLineEndTokens`,
`PartitionType…`).  A Go `panic` is `none`.
-/
namespace HclModel.Loader

/-- token classes the loader distinguishes -/
inductive TT where
  | comment (endsLine : Bool)      -- a comment; `#`/`//` comments include their newline
  | newline | eof
  | ident | number | dot | obrack | cbrack
  | other
deriving Repr, DecidableEq, Inhabited

structure Tok where
  start : Nat          -- byte offset of the token
  ty : TT
  id : Nat             -- identity (stands for bytes and spacing)
deriving Repr, DecidableEq, Inhabited

structure Rng where
  lo : Nat
  hi : Nat
deriving Repr, DecidableEq, Inhabited

/-- `partitionTokens`: index of the first token starting at or after `rng.lo`, and of the first token from
    there on starting at or after `rng.hi` -/
def partIdx (toks : List Tok) (rng : Rng) : Nat × Nat :=
  match toks.findIdx? (fun t => t.start ≥ rng.lo) with
  | none => (toks.length, toks.length)
  | some s =>
    match (toks.drop s).findIdx? (fun t => t.start ≥ rng.hi) with
    | none => (s, toks.length)
    | some k => (s, s + k)

def slice3 (toks : List Tok) (s e : Nat) : List Tok × List Tok × List Tok :=
  (toks.take s, (toks.drop s).take (e - s), toks.drop e)

/-- `inputTokens.Partition` -/
def partition (toks : List Tok) (rng : Rng) : List Tok × List Tok × List Tok :=
  let (s, e) := partIdx toks rng
  slice3 toks s e

def isComment (t : Tok) : Bool := match t.ty with | .comment _ => true | _ => false

/-- `partitionLeadCommentTokens`: start of the trailing run of comment tokens -/
def leadCommentStart (toks : List Tok) : Nat :=
  toks.length - (toks.reverse.takeWhile isComment).length

/-- `partitionLineEndTokens`: (afterComment, afterNewline); `none` = panic -/
def lineEnd : List Tok → Nat → Option (Nat × Nat)
  | [], i => some (i, i)
  | t :: rest, i =>
    match t.ty with
    | .comment true => some (i + 1, i + 1)
    | .comment false => lineEnd rest (i + 1)
    | .newline => some (i, i + 1)
    | .eof => some (i, i)
    | _ => none

/-- `PartitionType` -/
def partitionType (toks : List Tok) (ty : TT) : Option (List Tok × List Tok × List Tok) :=
  match toks.findIdx? (fun t => t.ty = ty) with
  | some i => some (slice3 toks i (i + 1))
  | none => none

/-- `PartitionIncludingComments` -/
def partitionIncludingComments (toks : List Tok) (rng : Rng) : Option (List Tok × List Tok × List Tok) :=
  let (s, e) := partIdx toks rng
  let s' := leadCommentStart (toks.take s)
  match lineEnd (toks.drop e) 0 with
  | none => none
  | some (_, afterNl) => some (slice3 toks s' (e + afterNl))

/-! ### native AST: ranges only -/

inductive KeyKind where
  | str | num | other
deriving Repr, DecidableEq, Inhabited

inductive StepAst where
  | name (rng : Rng)                              -- TraverseRoot / TraverseAttr
  | index (rng : Rng) (key : KeyKind)             -- TraverseIndex (legacy `.0` or `[key]`)
deriving Repr, Inhabited

structure TravAst where
  rng : Rng
  steps : List StepAst
deriving Repr, Inhabited

structure ExprAst where
  rng : Rng
  travs : List TravAst
deriving Repr, Inhabited

inductive ItemAst where
  | attr (rng nameRng eqRng : Rng) (expr : ExprAst)
  | block (rng typeRng : Rng) (labelRngs : List Rng) (oBrace cBrace : Rng) (bodyRng : Rng) (items : List ItemAst)
deriving Repr, Inhabited

/-! ### the writer tree -/

inductive Tree where
  | toks (l : List Tok)
  | node (tag : String) (kids : List Tree)
deriving Repr, Inhabited

mutual
def flatten : Tree → List Tok
  | .toks l => l
  | .node _ kids => flattenAll kids
def flattenAll : List Tree → List Tok
  | [] => []
  | t :: rest => flatten t ++ flattenAll rest
end

/-! ### the loader -/

/-- `parseTraversalStep` -/
def buildStep (s : StepAst) (from_ : List Tok) : Option (List Tok × Tree × List Tok) :=
  match s with
  | .name rng => do
    let (before, within, after) := partition from_ rng
    let (inBefore, tok, inAfter) ← partitionType within .ident
    pure (before, .node "name" [.toks inBefore, .toks tok, .toks inAfter], after)
  | .index rng key => do
    let (before, within, after) := partition from_ rng
    match partitionType within .dot with
    | some (inBefore, dot, rest) => do
      let (vb, vt, va) ← partitionType rest .number
      pure (before, .node "index" [.toks inBefore, .toks dot, .toks vb, .toks vt, .toks va], after)
    | none => do
      let (inBefore, ob, rest) ← partitionType within .obrack
      let (keyToks, cb, rest') ← partitionType rest .cbrack
      let keyTrees ← match key with
        | .str => pure [Tree.toks keyToks]
        | .num => do
          let (vb, vt, va) ← partitionType keyToks .number
          pure [Tree.toks vb, .toks vt, .toks va]
        | .other => pure [Tree.toks keyToks]
      pure (before, .node "index" ([.toks inBefore, .toks ob] ++ keyTrees ++ [.toks cb, .toks rest']), after)

/-- the loop of `parseTraversal` over the steps -/
def buildSteps : List StepAst → List Tok → Option (List Tree × List Tok)
  | [], rest => some ([], rest)
  | s :: ss, from_ => do
    let (before, step, after) ← buildStep s from_
    let (trees, rest) ← buildSteps ss after
    pure (.toks before :: step :: trees, rest)

/-- `parseTraversal`.  NB: the tokens left after the last step are dropped by the Go code
    (`stepAfter` is not appended); they are empty when the traversal's range is the union of its steps' ranges. -/
def buildTrav (t : TravAst) (from_ : List Tok) : Option (List Tok × Tree × List Tok × List Tok) := do
  let (before, within, after) := partition from_ t.rng
  let (trees, rest) ← buildSteps t.steps within
  pure (before, .node "traversal" trees, after, rest)

/-- the loop of `parseExpression` over the traversals -/
def buildTravs : List TravAst → List Tok → Option (List Tree × List Tok × Bool)
  | [], rest => some ([], rest, true)
  | t :: ts, from_ => do
    let (before, trav, after, dropped) ← buildTrav t from_
    let (trees, rest, ok) ← buildTravs ts after
    pure (.toks before :: trav :: trees, rest, ok && dropped.isEmpty)

/-- `parseExpression`; the Bool says that no traversal dropped trailing tokens -/
def buildExpr (e : ExprAst) (from_ : List Tok) : Option (Tree × Bool) := do
  let (trees, rest, ok) ← buildTravs e.travs from_
  pure (.node "expr" (trees ++ [.toks rest]), ok)

/-- `parseBlockLabels` -/
def buildLabels : List Rng → List Tok → Bool → Option (List Tok × List Tree × List Tok)
  | [], from_, _ => some ([], [], from_)
  | r :: rs, from_, first => do
    let (before, label, after) := partition from_ r
    let (_, trees, rest) ← buildLabels rs after false
    if first then pure (before, .toks label :: trees, rest)
    else pure ([], .toks before :: .toks label :: trees, rest)

mutual
/-- `parseBodyItem` + `parseAttribute` / `parseBlock` -/
def buildItem : Nat → ItemAst → List Tok → Option (List Tok × Tree × List Tok × Bool)
  | 0, _, _ => none
  | fuel+1, item, from_ =>
    let rng := match item with | .attr r _ _ _ => r | .block r _ _ _ _ _ _ => r
    -- PartitionBlockItem
    let (before0, within, after0) := partition from_ rng
    let lc := leadCommentStart before0
    let before := before0.take lc
    let leadComments := before0.drop lc
    match lineEnd after0 0 with
    | none => none
    | some (ac, an) =>
      let lineComments := after0.take ac
      let newline := (after0.drop ac).take (an - ac)
      let after := after0.drop an
      match item with
      | .attr _ nameRng eqRng expr => do
        let (b1, nameToks, r1) := partition within nameRng
        if nameToks.length ≠ 1 then none else
        let (b2, eqToks, r2) := partition r1 eqRng
        let (b3, exprToks, r3) := partition r2 expr.rng
        let (exprTree, ok) ← buildExpr expr exprToks
        pure (before, .node "attr" [.toks leadComments, .toks b1, .toks nameToks, .toks b2, .toks eqToks,
          .toks b3, exprTree, .toks lineComments, .toks newline, .toks r3], after, ok)
      | .block _ typeRng labelRngs oBrace cBrace bodyRng items => do
        let (b1, typeToks, r1) := partition within typeRng
        if typeToks.length ≠ 1 then none else
        let (beforeLabels, labelTrees, r2) ← buildLabels labelRngs r1 true
        let (b2, ob, r3) := partition r2 oBrace
        let (bodyToks, cb, r4) := partition r3 cBrace
        let (bb, bodyTree, ba, ok) ← buildBody fuel bodyRng items bodyToks
        pure (before, .node "block" ([.toks leadComments, .toks b1, .toks typeToks, .toks beforeLabels,
          .node "labels" labelTrees, .toks b2, .toks ob, .toks bb, bodyTree, .toks ba, .toks cb, .toks r4,
          .toks lineComments, .toks newline]), after, ok)
/-- `parseBody` (items already sorted by source position) -/
def buildBody : Nat → Rng → List ItemAst → List Tok → Option (List Tok × Tree × List Tok × Bool)
  | 0, _, _, _ => none
  | fuel+1, rng, items, from_ => do
    let (before, within, after) ← partitionIncludingComments from_ rng
    let (trees, ok) ← buildItems fuel items within
    pure (before, .node "body" trees, after, ok)
def buildItems : Nat → List ItemAst → List Tok → Option (List Tree × Bool)
  | 0, _, _ => none
  | _, [], remain => some ([.toks remain], true)
  | fuel+1, it :: rest, remain => do
    let (beforeItem, item, afterItem, ok1) ← buildItem fuel it remain
    let (trees, ok2) ← buildItems fuel rest afterItem
    pure (.toks beforeItem :: item :: trees, ok1 && ok2)
end

/-- `hclwrite.parse`: the root body, then whatever surrounds it -/
def buildFile (fuel : Nat) (rng : Rng) (items : List ItemAst) (toks : List Tok) : Option (Tree × Bool) := do
  let (before, body, after, ok) ← buildBody fuel rng items toks
  pure (.node "file" [.toks before, body, .toks after], ok)

end HclModel.Loader
