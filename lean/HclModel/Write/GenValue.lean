import HclModel.Write.StringLit
/-!
`hclwrite.TokensForValue` (`appendTokensForValue`, generate.go) and the reading side for the tokens it can
produce: the native expression parser restricted to that token alphabet (`parseExpressionTerm` for number
literals, unary minus, the keywords, quoted literals; `parseTupleCons`; `parseObjectCons` with its `for`
look-ahead) behind the peeker's newline-sensitivity stack, and the evaluation of the resulting constant
expression (`TupleConsExpr`, `ObjectConsExpr` with `ObjectConsKeyExpr`'s literal-name rule, `UnaryOpExpr`).

Numbers: a number is a sign and an opaque magnitude `m` (the decimal text `big.Float.Text('f', -1)` writes
and the value `ParseNumberVal` reads back for it are go-cty / math/big; tied by the `GENV` correspondence).
The generator writes a negative number as ONE `NumberLit` token `-m`; scanning the written bytes again gives
`Minus`, `NumberLit`: `relex`.  The characters of a quoted literal are read by `StringLit.parseQuoted`.
-/
namespace HclModel.GenValue
open HclModel.StringLit

/-- a wholly known value as `appendTokensForValue` sees it: lists, sets and tuples are sequences, maps and
    objects are key/value sequences in iteration order -/
inductive GV where
  | null
  | bool (b : Bool)
  | num (neg : Bool) (m : Nat)
  | str (s : List Char)
  | seq (xs : List GV)
  | obj (kvs : List (List Char × GV))
  deriving Repr, Inhabited

inductive Tok where
  | ident (s : List Char)
  | num (neg : Bool) (m : Nat)      -- `neg = true` only straight out of the generator
  | minus
  | oquote | qlit (cs : List Char) | cquote
  | obrack | cbrack | obrace | cbrace | comma | equal | newline
  deriving DecidableEq, Repr, Inhabited

structure Cfg where
  /-- `unicode.IsPrint` -/
  isPrint : Char → Bool
  /-- `hclsyntax.ValidIdentifier` -/
  validIdent : List Char → Bool

def kwFor : List Char := ['f', 'o', 'r']
def kwTrue : List Char := ['t', 'r', 'u', 'e']
def kwFalse : List Char := ['f', 'a', 'l', 's', 'e']
def kwNull : List Char := ['n', 'u', 'l', 'l']

/-- the `cty.String` case: the `QuotedLit` token is left out when there is nothing to write -/
def strToks (c : Cfg) (s : List Char) : List Tok :=
  match escape c.isPrint s with
  | [] => [.oquote, .cquote]
  | e => [.oquote, .qlit e, .cquote]

/-- an object key: bare when it is a valid identifier other than `for`, else as a string value -/
def keyToks (c : Cfg) (k : List Char) : List Tok :=
  if c.validIdent k && k != kwFor then [.ident k] else strToks c k

mutual
/-- `appendTokensForValue` -/
def gen (c : Cfg) : GV → List Tok
  | .null => [.ident kwNull]
  | .bool b => [.ident (if b then kwTrue else kwFalse)]
  | .num n m => [.num n m]
  | .str s => strToks c s
  | .seq xs => .obrack :: (genSeq c true xs ++ [.cbrack])
  | .obj kvs => .obrace :: ((match kvs with | [] => [] | _ :: _ => [.newline]) ++ (genObj c kvs ++ [.cbrace]))
def genSeq (c : Cfg) (first : Bool) : List GV → List Tok
  | [] => []
  | x :: xs => (if first then [] else [.comma]) ++ (gen c x ++ genSeq c false xs)
def genObj (c : Cfg) : List (List Char × GV) → List Tok
  | [] => []
  | (k, v) :: rest => keyToks c k ++ (.equal :: (gen c v ++ (.newline :: genObj c rest)))
end

/-- scanning the written bytes again: `-m` is a `Minus` and a `NumberLit` -/
def relexTok : Tok → List Tok
  | .num true m => [.minus, .num false m]
  | t => [t]

def relex (ts : List Tok) : List Tok := ts.flatMap relexTok

/-! ## the reading side -/

/-- constant expressions over the generated alphabet -/
inductive LE where
  | null
  | bool (b : Bool)
  | num (m : Nat)
  | neg (e : LE)
  | str (s : List Char)
  | var (name : List Char)
  | tuple (es : List LE)
  | object (items : List (LE × LE))
  deriving Repr, Inhabited

/-- the peeker: with newlines excluded every `Newline` token is skipped by `Peek` and `Read` -/
def peekSkip (nl : Bool) : List Tok → List Tok
  | .newline :: r => if nl then .newline :: r else peekSkip nl r
  | ts => ts

/-- after a term: would `parseExpressionTraversals` go on (an index bracket)? -/
def contIdx (nl : Bool) (ts : List Tok) : Bool :=
  match peekSkip nl ts with
  | .obrack :: _ => true
  | _ => false

/-- after an operand: would `parseBinaryOps` go on (a binary minus)? -/
def contBin (nl : Bool) (ts : List Tok) : Bool :=
  match peekSkip nl ts with
  | .minus :: _ => true
  | _ => false

/-- `forKeyword.TokenMatches(p.Peek())` with newlines excluded -/
def startsFor (ts : List Tok) : Bool :=
  match peekSkip false ts with
  | .ident s :: _ => s == kwFor
  | _ => false

abbrev PRes (α : Type) := Option (α × List Tok)

/- `none` = a parse error, or a construct outside this fragment (index, binary minus, `for` expression,
   template interpolation). Every function spends one unit of fuel on entry. -/
mutual
/-- `ParseExpression` (→ `parseTernaryConditional` → `parseBinaryOps`) -/
def parseExpr : Nat → Bool → List Tok → PRes LE
  | 0, _, _ => none
  | f+1, nl, ts =>
    match parseWT f nl ts with
    | none => none
    | some (e, r) => if contBin nl r then none else some (e, r)
/-- `parseExpressionWithTraversals` -/
def parseWT : Nat → Bool → List Tok → PRes LE
  | 0, _, _ => none
  | f+1, nl, ts =>
    match parseTerm f nl ts with
    | none => none
    | some (e, r) => if contIdx nl r then none else some (e, r)
/-- `parseExpressionTerm` -/
def parseTerm : Nat → Bool → List Tok → PRes LE
  | 0, _, _ => none
  | f+1, nl, ts =>
    match peekSkip nl ts with
    | .num false m :: r => some (.num m, r)
    | .ident s :: r =>
      some (if s = kwTrue then .bool true else if s = kwFalse then .bool false
            else if s = kwNull then .null else .var s, r)
    | .minus :: r =>
      (match parseWT f nl r with
       | none => none
       | some (e, r') => some (.neg e, r'))
    | .oquote :: r =>
      -- `parseTemplateInner` up to the closing quote; inside a template newlines are not skipped
      (match r with
       | .cquote :: r' => some (.str [], r')
       | .qlit cs :: .cquote :: r' =>
         (match parseQuoted cs with
          | some s => some (.str s, r')
          | none => none)
       | _ => none)
    | .obrack :: r =>
      -- `parseTupleCons`: newlines excluded; `[for …` is a for expression
      if startsFor r then none else
      (match parseItems f r with
       | none => none
       | some (es, r') => some (.tuple es, r'))
    | .obrace :: r =>
      -- `parseObjectCons`: the `for` look-ahead ignores newlines, the items do not
      if startsFor r then none else
      (match parseAttrs f r with
       | none => none
       | some (kvs, r') => some (.object kvs, r'))
    | _ => none
/-- the item loop of `parseTupleCons` (a trailing comma is allowed) -/
def parseItems : Nat → List Tok → PRes (List LE)
  | 0, _ => none
  | f+1, ts =>
    match peekSkip false ts with
    | .cbrack :: r => some ([], r)
    | _ =>
      match parseExpr f false ts with
      | none => none
      | some (e, r) =>
        match peekSkip false r with
        | .cbrack :: r' => some ([e], r')
        | .comma :: r' =>
          (match parseItems f r' with
           | none => none
           | some (es, r'') => some (e :: es, r''))
        | _ => none
/-- the item loop of `parseObjectCons` (newlines included: they separate items) -/
def parseAttrs : Nat → List Tok → PRes (List (LE × LE))
  | 0, _ => none
  | f+1, ts =>
    match ts with
    | .newline :: r => parseAttrs f r
    | .cbrace :: r => some ([], r)
    | _ =>
      match parseExpr f true ts with
      | none => none
      | some (k, r) =>
        match r with
        | .equal :: r1 =>
          (match parseExpr f true r1 with
           | none => none
           | some (v, r2) =>
             match r2 with
             | .cbrace :: r3 => some ([(k, v)], r3)
             | .comma :: r3 =>
               (match parseAttrs f r3 with
                | none => none
                | some (kvs, r4) => some ((k, v) :: kvs, r4))
             | .newline :: r3 =>
               (match parseAttrs f r3 with
                | none => none
                | some (kvs, r4) => some ((k, v) :: kvs, r4))
             | _ => none)
        | _ => none
end

/-- fuel that always suffices for a token list of this length (`Proofs/GenValue.lean`: `need_le`) -/
def fuelFor (ts : List Tok) : Nat := 6 * ts.length + 6

/-- `hclsyntax.ParseExpression`: newlines excluded at the top, nothing may follow -/
def parseTop (ts : List Tok) : Option LE :=
  match parseExpr (fuelFor ts) false ts with
  | some (e, r) => (match peekSkip false r with | [] => some e | _ => none)
  | none => none

/-- the expression of an attribute `name = <tokens>` in a body: newlines included, a newline must follow -/
def parseAttrValue (ts : List Tok) : Option LE :=
  match parseExpr (fuelFor ts) true ts with
  | some (e, .newline :: _) => some e
  | _ => none

/-! ## evaluation of the constant expression -/

/-- `ObjectConsKeyExpr`: a bare name (a root-only traversal or one of the keywords) is a literal key -/
def keyName : LE → Option (List Char)
  | .var s => some s
  | .bool true => some kwTrue
  | .bool false => some kwFalse
  | .null => some kwNull
  | .str s => some s
  | _ => none

/-- `ObjectConsExpr.Value` collects into a Go map: a later definition of a key replaces the earlier one -/
def insertKV (acc : List (List Char × GV)) (k : List Char) (v : GV) : List (List Char × GV) :=
  match acc with
  | [] => [(k, v)]
  | (k', v') :: rest => if k' = k then (k, v) :: rest else (k', v') :: insertKV rest k v

mutual
/-- the value of a constant expression (`none`: an error, or a variable) -/
def evalLE : LE → Option GV
  | .null => some .null
  | .bool b => some (.bool b)
  | .num m => some (.num false m)
  | .neg e =>
    (match evalLE e with
     | some (.num n m) => some (.num (!n) m)
     | _ => none)
  | .str s => some (.str s)
  | .var _ => none
  | .tuple es => (evalList es).map GV.seq
  | .object items => (evalItems items).map fun kvs => GV.obj (kvs.foldl (fun acc p => insertKV acc p.1 p.2) [])
def evalList : List LE → Option (List GV)
  | [] => some []
  | e :: es =>
    match evalLE e, evalList es with
    | some v, some vs => some (v :: vs)
    | _, _ => none
def evalItems : List (LE × LE) → Option (List (List Char × GV))
  | [] => some []
  | (k, v) :: rest =>
    match keyName k, evalLE v, evalItems rest with
    | some k', some v', some kvs => some ((k', v') :: kvs)
    | _, _, _ => none
end

/-! ## what reading back is compared with -/

/-- pairwise distinct keys -/
def distinct : List (List Char) → Bool
  | [] => true
  | k :: ks => !ks.contains k && distinct ks

mutual
/-- every map / object in the value has pairwise distinct keys (always true of a cty value) -/
def keysDistinct : GV → Bool
  | .seq xs => keysDistinctList xs
  | .obj kvs => distinct (kvs.map (·.1)) && keysDistinctKvs kvs
  | _ => true
def keysDistinctList : List GV → Bool
  | [] => true
  | x :: xs => keysDistinct x && keysDistinctList xs
def keysDistinctKvs : List (List Char × GV) → Bool
  | [] => true
  | (_, v) :: rest => keysDistinct v && keysDistinctKvs rest
end

mutual
/-- the value with later definitions of a key replacing earlier ones, at every level -/
def norm : GV → GV
  | .seq xs => .seq (normList xs)
  | .obj kvs => .obj ((normKvs kvs).foldl (fun acc p => insertKV acc p.1 p.2) [])
  | .null => .null
  | .bool b => .bool b
  | .num n m => .num n m
  | .str s => .str s
def normList : List GV → List GV
  | [] => []
  | x :: xs => norm x :: normList xs
def normKvs : List (List Char × GV) → List (List Char × GV)
  | [] => []
  | (k, v) :: rest => (k, norm v) :: normKvs rest
end

/-- write, scan again, parse, evaluate -/
def readBack (c : Cfg) (v : GV) : Option GV :=
  match parseTop (relex (gen c v)) with
  | some e => evalLE e
  | none => none

/-- the same as the value of an attribute in a body (`Body.SetAttributeValue`) -/
def readBackAttr (c : Cfg) (v : GV) (after : List Tok) : Option GV :=
  match parseAttrValue (relex (gen c v) ++ .newline :: after) with
  | some e => evalLE e
  | none => none

end HclModel.GenValue
