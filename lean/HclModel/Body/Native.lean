/-!
Schema-driven processing of a native-syntax body: `hclsyntax.Body.Content` / `PartialContent` /
`JustAttributes` (hclsyntax/structure.go), with the hidden-name state carried by the remaining body.

A body is its list of items in source order.  Attribute values and nested bodies are opaque payloads
(`α`, `β`): schema processing never looks inside them.  Only error *presence* per kind is modelled.
-/
namespace HclModel.Body

structure Block (β : Type) where
  type : String
  labels : List String
  body : β
deriving Repr

structure AttrSchema where
  name : String
  required : Bool
deriving Repr, DecidableEq

structure BlockSchema where
  type : String
  labelCount : Nat        -- len(LabelNames)
deriving Repr, DecidableEq

structure Schema where
  attrs : List AttrSchema
  blocks : List BlockSchema
deriving Repr

inductive ErrKind where
  | missingRequired (name : String)
  | extraneousLabel (type : String)
  | missingLabel (type : String)
  | unsupportedArgument (name : String)
  | unsupportedBlock (type : String)
deriving Repr, DecidableEq

/-- `hclsyntax.Body`: attributes by name (unique: the parser rejects duplicates), blocks in source order,
    plus the names hidden by earlier partial processing -/
structure NBody (α β : Type) where
  attrs : List (String × α)
  blocks : List (Block β)
  hiddenAttrs : List String := []
  hiddenBlocks : List String := []

structure Content (α β : Type) where
  attrs : List (String × α)
  blocks : List (Block β)

variable {α β : Type}

def findAttr (name : String) : List (String × α) → Option α
  | [] => none
  | (n, a) :: rest => if n == name then some a else findAttr name rest

/-- the blockS used for a block type: Go builds a map, so the LAST schema entry of a type wins -/
def wanted (s : Schema) (ty : String) : Option BlockSchema :=
  (s.blocks.reverse.find? fun b => b.type == ty)

/-- `PartialContent` -/
def NBody.partialContent (b : NBody α β) (s : Schema) : Content α β × NBody α β × List ErrKind :=
  -- attributes, in schema order
  let step (acc : List (String × α) × List String × List ErrKind) (as : AttrSchema) :=
    let (got, hidden, errs) := acc
    match findAttr as.name b.attrs with
    | some a =>
      if hidden.contains as.name then
        (got, hidden, if as.required then errs ++ [.missingRequired as.name] else errs)
      else (got ++ [(as.name, a)], as.name :: hidden, errs)
    | none => (got, hidden, if as.required then errs ++ [.missingRequired as.name] else errs)
  let (gotAttrs, hiddenAttrs, errs1) := s.attrs.foldl step ([], b.hiddenAttrs, [])
  -- blocks, in source order
  let bstep (acc : List (Block β) × List ErrKind) (blk : Block β) :=
    let (got, errs) := acc
    if b.hiddenBlocks.contains blk.type then (got, errs)
    else match wanted s blk.type with
      | none => (got, errs)
      | some bs =>
        if blk.labels.length > bs.labelCount then (got, errs ++ [.extraneousLabel blk.type])
        else if blk.labels.length < bs.labelCount then (got, errs ++ [.missingLabel blk.type])
        else (got ++ [blk], errs)
  let (gotBlocks, errs2) := b.blocks.foldl bstep ([], [])
  let hiddenBlocks := s.blocks.foldl (fun h bs => bs.type :: h) b.hiddenBlocks
  (⟨gotAttrs, gotBlocks⟩,
   { b with hiddenAttrs := hiddenAttrs, hiddenBlocks := hiddenBlocks },
   errs1 ++ errs2)

/-- `Content`: partial processing, then an error for every item still visible in the remainder -/
def NBody.content (b : NBody α β) (s : Schema) : Content α β × List ErrKind :=
  let (c, remain, errs) := b.partialContent s
  let e1 := (b.attrs.filter fun p => !remain.hiddenAttrs.contains p.1).map fun p => ErrKind.unsupportedArgument p.1
  let e2 := (b.blocks.filter fun blk => !remain.hiddenBlocks.contains blk.type).map fun blk => ErrKind.unsupportedBlock blk.type
  (c, errs ++ e1 ++ e2)

/-- the items a body still exposes -/
def NBody.visibleAttrs (b : NBody α β) : List (String × α) := b.attrs.filter fun p => !b.hiddenAttrs.contains p.1
def NBody.visibleBlocks (b : NBody α β) : List (Block β) := b.blocks.filter fun blk => !b.hiddenBlocks.contains blk.type

/-- union of two schemas (first's entries first) -/
def Schema.union (s1 s2 : Schema) : Schema := ⟨s1.attrs ++ s2.attrs, s1.blocks ++ s2.blocks⟩

/-- no attribute name / block type is named by both schemas, and none twice within one -/
def Schema.disjoint (s1 s2 : Schema) : Prop :=
  (∀ a ∈ s1.attrs, ∀ a' ∈ s2.attrs, a.name ≠ a'.name) ∧
  (∀ b ∈ s1.blocks, ∀ b' ∈ s2.blocks, b.type ≠ b'.type)

def Schema.nodup (s : Schema) : Prop :=
  (s.attrs.map (·.name)).Nodup ∧ (s.blocks.map (·.type)).Nodup

end HclModel.Body
