import HclModel.Body.Native
/-!
Merged bodies: `hcl.MergeBodies` and `mergedBodies.Content` / `PartialContent` (merged.go, `mergedContent`).

`MergeBodies` flattens merged bodies found among its arguments, so a merged body is always a flat list of
non-merged children; here the children are native bodies (`NBody`).  The empty list is `hcl.EmptyBody()`.

`mergedBodies.JustAttributes` is not modelled: `Native.lean` has no child-level `JustAttributes`.
-/
namespace HclModel.Body

/-- kinds of error a merged body reports: the children's own, the merged layer's "Missing required argument"
    (the same kind as a child's, `native (.missingRequired n)`), and "Duplicate argument" -/
inductive MErrKind where
  | native (e : ErrKind)
  | duplicateArgument (name : String)
deriving Repr, DecidableEq

/-- the "Missing required argument" diagnostic of the merged layer -/
abbrev MErrKind.missingRequired (name : String) : MErrKind := .native (.missingRequired name)

/-- a merged body: its children in the order given to `MergeBodies` (after flattening) -/
abbrev MBody (α β : Type) := List (NBody α β)

variable {α β : Type}

/-- `mergedSchema`: the same schema with no attribute marked as required -/
def Schema.relax (s : Schema) : Schema :=
  ⟨s.attrs.map fun as => { as with required := false }, s.blocks⟩

/-- one round of the loop over `thisContent.Attributes`: the first definition of a name wins, a later one is
    reported and dropped.  (Go iterates over a map, so the order of the reports within one child is unspecified;
    which attribute survives does not depend on it, a child's content having each name at most once.) -/
def addAttr (acc : List (String × α) × List MErrKind) (p : String × α) : List (String × α) × List MErrKind :=
  match findAttr p.1 acc.1 with
  | some _ => (acc.1, acc.2 ++ [.duplicateArgument p.1])
  | none => (acc.1 ++ [p], acc.2)

/-- the variables of `mergedContent`'s loop over the children -/
structure MAcc (α β : Type) where
  attrs : List (String × α)        -- content.Attributes
  blocks : List (Block β)          -- content.Blocks
  leftovers : List (NBody α β)     -- mergedLeftovers
  errs : List MErrKind             -- diags

/-- one child: process it with the relaxed schema `s'`, then merge what it returned -/
def mergedStep (s' : Schema) (partialMode : Bool) (acc : MAcc α β) (b : NBody α β) : MAcc α β :=
  let (c, left, errs) : Content α β × List (NBody α β) × List ErrKind :=
    if partialMode then
      let r := b.partialContent s'
      (r.1, [r.2.1], r.2.2)
    else
      let r := b.content s'
      (r.1, [], r.2)
  let (attrs, dups) := c.attrs.foldl addAttr (acc.attrs, [])
  { attrs := attrs,
    blocks := acc.blocks ++ c.blocks,
    leftovers := acc.leftovers ++ left,
    errs := acc.errs ++ errs.map .native ++ dups }

/-- `mergedContent schema partial`: content, leftover body (a merged body again; empty in exhaustive mode),
    errors -/
def mergedContent (mb : MBody α β) (s : Schema) (partialMode : Bool) :
    Content α β × MBody α β × List MErrKind :=
  let acc := mb.foldl (mergedStep s.relax partialMode) ⟨[], [], [], []⟩
  -- "Finally, we check for required attributes."
  let missing := s.attrs.filterMap fun as =>
    if as.required && (findAttr as.name acc.attrs).isNone then some (MErrKind.missingRequired as.name) else none
  (⟨acc.attrs, acc.blocks⟩, acc.leftovers, acc.errs ++ missing)

/-- `mergedBodies.PartialContent` -/
def MBody.partialContent (mb : MBody α β) (s : Schema) : Content α β × MBody α β × List MErrKind :=
  mergedContent mb s true

/-- `mergedBodies.Content` -/
def MBody.content (mb : MBody α β) (s : Schema) : Content α β × List MErrKind :=
  let r := mergedContent mb s false
  (r.1, r.2.2)

/-- the single body with all the children's items, in child order -/
def MBody.concat (mb : MBody α β) : NBody α β :=
  { attrs := mb.flatMap (·.attrs), blocks := mb.flatMap (·.blocks) }

/-- no attribute name is defined by two different children -/
def MBody.attrsDisjoint (mb : MBody α β) : Prop :=
  mb.Pairwise fun b b' => ∀ p ∈ b.attrs, ∀ p' ∈ b'.attrs, p.1 ≠ p'.1

end HclModel.Body
