/-!
C15: the push/pop skeleton language of the recursive-descent parser (`PushIncludeNewlines` /
`PopIncludeNewlines` on the peeker's newline-sensitivity stack), an abstract checker `balanced`, and a
nondeterministic big-step semantics.  The skeleton of the real parser is regenerated from the Go AST
(`HclModel/Gen/ParserSkel.lean`).
-/
namespace HclModel.Skel


inductive Stmt where
  | push | pop | skip | abort
  | call (f : Nat)
  | seq (a b : Stmt)
  | choice (a b : Stmt)
  | loop (body : Stmt)          -- `for { body }`; exits by brk 0 or when its condition fails
  | blk (body : Stmt)           -- switch/select-like: runs body once; `brk 0` leaves it
  | brk (n : Nat) | cont (n : Nat)
  | ret
deriving Repr, DecidableEq

inductive Kind where
  | norm | brk (n : Nat) | cont (n : Nat) | ret
deriving Repr, DecidableEq

abbrev Out := Kind × Int

/-- abstract outcomes of a statement: (how it ends, net stack delta); `none` = check failed -/
def ae : Stmt → Option (List Out)
  | .push => some [(.norm, 1)]
  | .pop => some [(.norm, -1)]
  | .skip => some [(.norm, 0)]
  | .abort => some []
  | .call _ => some [(.norm, 0)]           -- assumption: callees are balanced
  | .brk n => some [(.brk n, 0)]
  | .cont n => some [(.cont n, 0)]
  | .ret => some [(.ret, 0)]
  | .choice a b => do let x ← ae a; let y ← ae b; pure (x ++ y).eraseDups
  | .seq a b => do
      let x ← ae a; let y ← ae b
      pure (x.flatMap fun (k, d) => match k with
        | .norm => y.map fun (k', d') => (k', d + d')
        | _ => [(k, d)]).eraseDups
  | .blk body => do
      let x ← ae body
      pure (x.map fun (k, d) => match k with
        | .brk 0 => (.norm, d)
        | .brk (n+1) => (.brk n, d)
        | .cont (n+1) => (.cont n, d)
        | .cont 0 => (.cont 0, d)      -- rejected by fnOk / enclosing loop bookkeeping: translator never emits it
        | .norm => (.norm, d)
        | .ret => (.ret, d))
  | .loop body => do
      let x ← ae body
      -- every path that starts another iteration must restore the depth
      if x.all (fun (k, d) => match k with | .norm => d == 0 | .cont 0 => d == 0 | _ => true) then
        pure ((.norm, 0) :: x.filterMap fun (k, d) => match k with
          | .norm => none
          | .cont 0 => none
          | .brk 0 => some (.norm, d)
          | .brk (n+1) => some (.brk n, d)
          | .cont (n+1) => some (.cont n, d)
          | .ret => some (.ret, d))
      else none

def fnOk (body : Stmt) : Bool :=
  match ae body with
  | none => false
  | some outs => outs.all fun (k, d) => (k == .norm || k == .ret) && d == 0

def balanced (prog : List Stmt) : Bool := prog.all fnOk

/-! concrete (nondeterministic, big-step) semantics over the stack depth -/
inductive Exec (prog : List Stmt) : Stmt → Int → Kind → Int → Prop
  | push d : Exec prog .push d .norm (d+1)
  | pop d : Exec prog .pop d .norm (d-1)
  | skip d : Exec prog .skip d .norm d
  | brk n d : Exec prog (.brk n) d (.brk n) d
  | cont n d : Exec prog (.cont n) d (.cont n) d
  | ret d : Exec prog .ret d .ret d
  | callN f body d d' : prog[f]? = some body → Exec prog body d .norm d' → Exec prog (.call f) d .norm d'
  | callR f body d d' : prog[f]? = some body → Exec prog body d .ret d' → Exec prog (.call f) d .norm d'
  | choiceL a b d k d' : Exec prog a d k d' → Exec prog (.choice a b) d k d'
  | choiceR a b d k d' : Exec prog b d k d' → Exec prog (.choice a b) d k d'
  | seqN a b d d1 k d2 : Exec prog a d .norm d1 → Exec prog b d1 k d2 → Exec prog (.seq a b) d k d2
  | seqX a b d k d1 : k ≠ .norm → Exec prog a d k d1 → Exec prog (.seq a b) d k d1
  | blkN body d d' : Exec prog body d .norm d' → Exec prog (.blk body) d .norm d'
  | blkB0 body d d' : Exec prog body d (.brk 0) d' → Exec prog (.blk body) d .norm d'
  | blkB body n d d' : Exec prog body d (.brk (n+1)) d' → Exec prog (.blk body) d (.brk n) d'
  | blkC0 body d d' : Exec prog body d (.cont 0) d' → Exec prog (.blk body) d (.cont 0) d'
  | blkC body n d d' : Exec prog body d (.cont (n+1)) d' → Exec prog (.blk body) d (.cont n) d'
  | blkR body d d' : Exec prog body d .ret d' → Exec prog (.blk body) d .ret d'
  | loopExit body d : Exec prog (.loop body) d .norm d
  | loopN body d d1 k d2 : Exec prog body d .norm d1 → Exec prog (.loop body) d1 k d2 → Exec prog (.loop body) d k d2
  | loopC body d d1 k d2 : Exec prog body d (.cont 0) d1 → Exec prog (.loop body) d1 k d2 → Exec prog (.loop body) d k d2
  | loopB0 body d d' : Exec prog body d (.brk 0) d' → Exec prog (.loop body) d .norm d'
  | loopB body n d d' : Exec prog body d (.brk (n+1)) d' → Exec prog (.loop body) d (.brk n) d'
  | loopCn body n d d' : Exec prog body d (.cont (n+1)) d' → Exec prog (.loop body) d (.cont n) d'
  | loopR body d d' : Exec prog body d .ret d' → Exec prog (.loop body) d .ret d'



end HclModel.Skel
