/-!
The white-space processing of the template sub-language (`hclsyntax/parser_template.go`):

* `parseTemplateParts`: strip markers — `${~` / `%{~` trims the white space at the end of the literal token
  immediately before the sequence, `~}` trims the white space at the start of the literal token immediately
  after it (state `ltrimNext`, `nextCanTrimPrev`); an empty template is one empty literal;
* `flushHeredocTemplateParts` (`<<-`): the smallest indentation over the tokens that start a line — blank lines
  do not count, a line that starts with a sequence has indentation 0 — is removed from every counted literal;
* `meldConsecutiveStringLiterals`.

Input: the scanner's template tokens after escape processing, one `Raw` per literal token / per `${ … }` or
`%{ … }` sequence (what is inside a sequence is irrelevant here and stays an opaque identifier).  Characters
stand for grapheme clusters; `sp` is `unicode.IsSpace`.  The end token is left out.
-/
namespace HclModel.Template

inductive Kind where
  | interp | ctrl
  deriving DecidableEq, Repr

/-- what the scanner delivers -/
inductive Raw where
  | lit (s : List Char)
  /-- `lstrip`: the opener is `${~` / `%{~`; `rstrip`: the closer is `~}` -/
  | seq (k : Kind) (id : Nat) (lstrip rstrip : Bool)
  deriving DecidableEq, Repr

/-- `templateToken` -/
inductive Part where
  | lit (s : List Char)
  | seq (k : Kind) (id : Nat)
  deriving DecidableEq, Repr

def trimLeft (sp : Char → Bool) (s : List Char) : List Char := s.dropWhile sp

def trimRight (sp : Char → Bool) (s : List Char) : List Char := (s.reverse.dropWhile sp).reverse

/-- trim the last part when it is a literal -/
def trimLast (sp : Char → Bool) : List Part → List Part
  | [] => []
  | [.lit s] => [.lit (trimRight sp s)]
  | [p] => [p]
  | p :: q :: rest => p :: trimLast sp (q :: rest)

structure StripSt where
  acc : List Part := []
  ltrimNext : Bool := false
  canTrimPrev : Bool := false

/-- one iteration of the loop of `parseTemplateParts` -/
def stripStep (sp : Char → Bool) (st : StripSt) : Raw → StripSt
  | .lit s =>
    { acc := st.acc ++ [.lit (if st.ltrimNext then trimLeft sp s else s)], ltrimNext := false, canTrimPrev := true }
  | .seq k id l r =>
    { acc := (if st.canTrimPrev && l then trimLast sp st.acc else st.acc) ++ [.seq k id], ltrimNext := r,
      canTrimPrev := false }

/-- `parseTemplateParts` -/
def parts (sp : Char → Bool) (raws : List Raw) : List Part :=
  match (raws.foldl (stripStep sp) {}).acc with
  | [] => [.lit []]
  | ps => ps

/-! ## flush heredocs -/

def endsNl (s : List Char) : Bool := s.getLast? == some '\n'

/-- entirely white space and ending in a newline: a blank line -/
def isBlankLine (sp : Char → Bool) (s : List Char) : Bool := s.all sp && endsNl s

def indentOf (sp : Char → Bool) (s : List Char) : Nat := (s.takeWhile sp).length

def omin : Option Nat → Option Nat → Option Nat
  | none, b => b
  | a, none => a
  | some a, some b => some (min a b)

/-- does the token after this one start a line? -/
def nextNl : Part → Bool
  | .lit s => endsNl s
  | .seq .. => false

/-- the indentation a token contributes when it starts a line (`none`: not counted) -/
def lineIndent (sp : Char → Bool) : Part → Option Nat
  | .lit s => if isBlankLine sp s then none else some (indentOf sp s)
  | .seq .. => some 0

/-- first pass: `minSpaces` (`none` = nothing counted) -/
def minIndent (sp : Char → Bool) : Bool → List Part → Option Nat
  | _, [] => none
  | nl, p :: rest => omin (if nl then lineIndent sp p else none) (minIndent sp (nextNl p) rest)

/-- second pass: drop `m` characters from every counted literal -/
def adjust (sp : Char → Bool) (m : Nat) : Bool → List Part → List Part
  | _, [] => []
  | nl, p :: rest =>
    (match p with
     | .lit s => if nl && !isBlankLine sp s then .lit (s.drop m) else p
     | _ => p) :: adjust sp m (nextNl p) rest

/-- `flushHeredocTemplateParts` -/
def flush (sp : Char → Bool) (ps : List Part) : List Part :=
  match minIndent sp true ps with
  | none => ps
  | some m => adjust sp m true ps

/-! ## melding -/

/-- `meldConsecutiveStringLiterals` -/
def meld : List Part → List Part
  | [] => []
  | [p] => [p]
  | .lit a :: .lit b :: rest => meld (.lit (a ++ b) :: rest)
  | p :: q :: rest => p :: meld (q :: rest)
termination_by ps => ps.length

/-- `parseTemplateInner` up to `templateParser.parseRoot` -/
def process (sp : Char → Bool) (flushHeredoc : Bool) (raws : List Raw) : List Part :=
  let ps := parts sp raws
  meld (if flushHeredoc then flush sp ps else ps)

/-! ## what processing must preserve -/

/-- the tokens as written, strip markers ignored -/
def naive : List Raw → List Part
  | [] => []
  | .lit s :: rest => .lit s :: naive rest
  | .seq k id _ _ :: rest => .seq k id :: naive rest

/-- everything but white space: the non-space characters and the sequences, in order -/
def skel (sp : Char → Bool) : List Part → List (Char ⊕ (Kind × Nat))
  | [] => []
  | .lit s :: rest => (s.filter (fun c => !sp c)).map Sum.inl ++ skel sp rest
  | .seq k id :: rest => Sum.inr (k, id) :: skel sp rest

/-- all the text, with the sequences as separators -/
def text : List Part → List (Char ⊕ (Kind × Nat))
  | [] => []
  | .lit s :: rest => s.map Sum.inl ++ text rest
  | .seq k id :: rest => Sum.inr (k, id) :: text rest

end HclModel.Template
