import HclModel.Syntax.OpParser
/-!
The binary operator table: the specification's levels (hclsyntax/spec.md, "Binary Operators") and the
conversion of a dumped `binaryOps` table into the parser model's level table.
An entry is `(level, token type, operation)`; level 0 binds loosest, as in `hclsyntax.binaryOps`.
-/
namespace HclModel.OpParser

abbrev OpEntry := Nat × Nat × String

/-- spec.md: `||` < `&&` < `== !=` < `< > <= >=` < `+ -` < `* / %`, all left-associative.
    Token types are the rune values of `hclsyntax.TokenType`. -/
def specOps : List OpEntry :=
  [ (0, 8744, "OpLogicalOr"),
    (1, 8743, "OpLogicalAnd"),
    (2, 8788, "OpEqual"), (2, 8800, "OpNotEqual"),
    (3, 60, "OpLessThan"), (3, 62, "OpGreaterThan"), (3, 8804, "OpLessThanOrEqual"), (3, 8805, "OpGreaterThanOrEqual"),
    (4, 43, "OpAdd"), (4, 45, "OpSubtract"),
    (5, 37, "OpModulo"), (5, 42, "OpMultiply"), (5, 47, "OpDivide") ]

def numLevels (ops : List OpEntry) : Nat := ops.foldl (fun m e => max m (e.1 + 1)) 0

def levelOf (ops : List OpEntry) (tok : Nat) : Option Nat :=
  (ops.find? fun e => e.2.1 == tok).map (·.1)

def opNameOf (ops : List OpEntry) (tok : Nat) : Option String :=
  (ops.find? fun e => e.2.1 == tok).map (·.2.2)

/-- depth at which the parser's loop handles the operator: the loosest level is handled outermost -/
def tblOf (ops : List OpEntry) : Tbl where
  L := numLevels ops
  lv := fun k => match levelOf ops k with
    | some l => if l < numLevels ops then some (numLevels ops - l) else none
    | none => none
  ok := by
    intro k j h
    cases hl : levelOf ops k with
    | none => simp [hl] at h
    | some l =>
      simp only [hl] at h
      split at h
      · have := Option.some.inj h; omega
      · simp at h

/-- remove every pair of parentheses -/
def eraseParens : E → E
  | .atom n => .atom n
  | .bin k l r => .bin k (eraseParens l) (eraseParens r)
  | .paren e => eraseParens e

/-- insert the parentheses needed to print `e` where the loop of depth `d` is expected
    (left operand at the operator's own depth, right operand one tighter: left associativity) -/
def parenthesize (T : Tbl) : Nat → E → E
  | _, .atom n => .atom n
  | _, .paren e => .paren (parenthesize T T.L e)
  | d, .bin k l r =>
    match T.lv k with
    | some j =>
      let body := E.bin k (parenthesize T j l) (parenthesize T (j - 1) r)
      if j ≤ d then body else .paren (E.bin k (parenthesize T j l) (parenthesize T (j - 1) r))
    | none => .bin k l r

/-- every operator of the tree is in the table -/
def opsKnown (T : Tbl) : E → Prop
  | .atom _ => True
  | .paren e => opsKnown T e
  | .bin k l r => (T.lv k).isSome ∧ opsKnown T l ∧ opsKnown T r

end HclModel.OpParser
