/-!
Model of the structural (body) grammar of the native syntax: `parser.ParseBody`, `ParseBodyItem`,
`finishParsingBodyAttribute`, `finishParsingBodyBlock`, `parseSingleAttrBody` (hclsyntax/parser.go) and the
peeker's treatment of comments at body level (hclsyntax/peeker.go), on the success path (an error is `none`;
recovery is modelled only as the control skeleton of C15).

Abstractions: an attribute's expression is one opaque token `expr n` (the extent of an expression is the
business of the expression grammar, C01); a quoted label is one token carrying the string it denotes
(`parseQuotedStringLiteral`, whose escape processing is C11).
-/
namespace HclModel.Structure

/-- tokens as the parser sees them through the peeker at body level -/
inductive Tok where
  | ident (s : String)
  | eq
  | qlabel (s : String)     -- OQuote QuotedLit* CQuote, already unescaped
  | obrace | cbrace
  | nl
  | eof
  | expr (n : Nat)          -- a whole expression
  | other                   -- anything else
deriving Repr, DecidableEq, Inhabited

/-- tokens before the peeker: comments are still there -/
inductive Raw where
  | tok (t : Tok)
  | lineComment             -- `# …\n` or `// …\n`: ends with a newline
  | inlineComment           -- `/* … */`
deriving Repr, DecidableEq, Inhabited

/-- the peeker with newlines included and comments excluded: a comment that ends in a newline stands
    for that newline, any other comment is skipped -/
def peek : List Raw → List Tok
  | [] => []
  | .tok t :: rest => t :: peek rest
  | .lineComment :: rest => .nl :: peek rest
  | .inlineComment :: rest => peek rest

structure Label where
  text : String
  quoted : Bool            -- written as a quoted string (else as a bare identifier)
deriving Repr, DecidableEq, Inhabited

/-- body items in source order -/
inductive Item where
  | attr (name : String) (e : Nat)
  | block (type : String) (labels : List String) (body : List Item)
deriving Repr, Inhabited

def attrNames : List Item → List String
  | [] => []
  | .attr n _ :: rest => n :: attrNames rest
  | .block _ _ _ :: rest => attrNames rest

/-- `Peek()` at the end of the token list keeps returning the last token (EOF) -/
def headTok (ts : List Tok) : Tok := ts.headD .eof

mutual
/-- `ParseBody(end)`: items until the `end` token (which is consumed); `none` on any error, including a
    redefined attribute.  `fuel` ≥ number of tokens. -/
def parseBody (stop : Tok) : Nat → List Tok → List Item → Option (List Item × List Tok)
  | 0, _, _ => none
  | fuel+1, ts, acc =>
    let t := headTok ts
    if t = stop then some (acc.reverse, ts.tail)
    else match t with
      | .nl => parseBody stop fuel ts.tail acc
      | .ident name =>
        match parseItem fuel name ts.tail with
        | none => none
        | some (item, rest) =>
          match item with
          | .attr n _ => if (attrNames acc).contains n then none else parseBody stop fuel rest (item :: acc)
          | .block _ _ _ => parseBody stop fuel rest (item :: acc)
      | _ => none
/-- `ParseBodyItem` after the leading identifier has been read -/
def parseItem : Nat → String → List Tok → Option (Item × List Tok)
  | 0, _, _ => none
  | fuel+1, name, ts =>
    match headTok ts with
    | .eq =>
      -- finishParsingBodyAttribute (not single-line): `=` expression, then a newline or the end of file
      match ts.tail with
      | .expr n :: rest =>
        (match headTok rest with
         | .nl => some (.attr name n, rest.tail)
         | .eof => some (.attr name n, rest.tail)
         | _ => none)
      | _ => none
    | .qlabel _ | .obrace | .ident _ => parseBlock fuel name [] ts
    | _ => none
/-- `finishParsingBodyBlock`: labels, `{`, body, `}`, end of line -/
def parseBlock : Nat → String → List String → List Tok → Option (Item × List Tok)
  | 0, _, _, _ => none
  | fuel+1, type, labels, ts =>
    match headTok ts with
    | .qlabel s => parseBlock fuel type (labels ++ [s]) ts.tail
    | .ident s => parseBlock fuel type (labels ++ [s]) ts.tail
    | .obrace =>
      let ts := ts.tail
      let bodyRes : Option (List Item × List Tok) :=
        match headTok ts with
        | .nl | .eof | .cbrace => parseBody .cbrace fuel ts []
        | .ident name =>
          -- parseSingleAttrBody: `name = expression` and the closing brace on the same line
          (match ts.tail with
           | .eq :: .expr n :: .cbrace :: rest => some ([.attr name n], rest)
           | _ => none)
        | _ => none
      match bodyRes with
      | none => none
      | some (body, rest) =>
        (match headTok rest with
         | .nl => some (.block type labels body, rest.tail)
         | .eof => some (.block type labels body, rest.tail)
         | _ => none)
    | _ => none
end

/-- `ParseConfig`: the whole token stream (ending in EOF) as a body -/
def parseConfig (raw : List Raw) : Option (List Item) :=
  let ts := peek raw
  match parseBody .eof (ts.length + 1) ts [] with
  | some (items, _) => some items
  | none => none

/-! ### rendering with layout -/

/-- layout noise that may precede an item or a closing brace: blank lines, line comments, inline comments -/
inductive Noise where
  | blank | lineComment | inlineComment
deriving Repr, DecidableEq, Inhabited

def noiseRaw : List Noise → List Raw
  | [] => []
  | .blank :: r => .tok .nl :: noiseRaw r
  | .lineComment :: r => .lineComment :: noiseRaw r
  | .inlineComment :: r => .inlineComment :: noiseRaw r

/-- how one line ends: a newline token or a line comment (which carries the newline) -/
inductive Eol where
  | nl | comment
deriving Repr, DecidableEq, Inhabited

def eolRaw : Eol → Raw
  | .nl => .tok .nl
  | .comment => .lineComment

/-- a rendering of a body tree: every item with its layout choices -/
inductive RItem where
  | attr (pre : List Noise) (name : String) (e : Nat) (mid : List Unit) (eol : Eol)
  | block (pre : List Noise) (type : String) (labels : List Label) (afterBrace : Eol)
      (body : List RItem) (preClose : List Noise) (eol : Eol)
  /-- `type labels { name = e }` on one line -/
  | oneLine (pre : List Noise) (type : String) (labels : List Label) (name : String) (e : Nat) (eol : Eol)
  /-- `type labels {}` on one line -/
  | emptyBlock (pre : List Noise) (type : String) (labels : List Label) (eol : Eol)
deriving Repr, Inhabited

def labelTok (l : Label) : Raw := if l.quoted then .tok (.qlabel l.text) else .tok (.ident l.text)

/-- inline comments may sit between any two tokens of a line -/
def sp (n : List Unit) : List Raw := n.map fun _ => Raw.inlineComment

mutual
def renderItem : RItem → List Raw
  | .attr pre name e mid eol =>
    noiseRaw pre ++ [.tok (.ident name)] ++ sp mid ++ [.tok .eq] ++ sp mid ++ [.tok (.expr e)] ++ sp mid ++ [eolRaw eol]
  | .block pre type labels ab body preClose eol =>
    noiseRaw pre ++ [.tok (.ident type)] ++ labels.map labelTok ++ [.tok .obrace, eolRaw ab] ++
      renderItems body ++ noiseRaw preClose ++ [.tok .cbrace, eolRaw eol]
  | .oneLine pre type labels name e eol =>
    noiseRaw pre ++ [.tok (.ident type)] ++ labels.map labelTok ++
      [.tok .obrace, .tok (.ident name), .tok .eq, .tok (.expr e), .tok .cbrace, eolRaw eol]
  | .emptyBlock pre type labels eol =>
    noiseRaw pre ++ [.tok (.ident type)] ++ labels.map labelTok ++ [.tok .obrace, .tok .cbrace, eolRaw eol]
def renderItems : List RItem → List Raw
  | [] => []
  | i :: rest => renderItem i ++ renderItems rest
end

/-- the whole file: items, trailing noise, EOF -/
def renderFile (items : List RItem) (trailing : List Noise) : List Raw :=
  renderItems items ++ noiseRaw trailing ++ [.tok .eof]

mutual
/-- what was written -/
def denote : RItem → Item
  | .attr _ name e _ _ => .attr name e
  | .block _ type labels _ body _ _ => .block type (labels.map (·.text)) (denoteAll body)
  | .oneLine _ type labels name e _ => .block type (labels.map (·.text)) [.attr name e]
  | .emptyBlock _ type labels _ => .block type (labels.map (·.text)) []
def denoteAll : List RItem → List Item
  | [] => []
  | i :: rest => denote i :: denoteAll rest
end

mutual
/-- no attribute name is defined twice in one body, at every nesting level -/
def uniqueAttrs : List Item → Bool
  | items => (attrNames items).eraseDups.length == (attrNames items).length && uniqueAttrsIn items
def uniqueAttrsIn : List Item → Bool
  | [] => true
  | .attr _ _ :: rest => uniqueAttrsIn rest
  | .block _ _ body :: rest => uniqueAttrs body && uniqueAttrsIn rest
end

end HclModel.Structure
