/-!
Type-constraint expressions (ext/typeexpr): `TypeString` and the reading of a type expression
(`getType` over what the expression parser makes of the text), at token level.

Tokens: identifiers and punctuation; the scanner is not modelled.  The one piece of the expression grammar
that matters is reproduced: an object constructor whose first item starts with the identifier `for` is a
`for` expression, so `getType` never sees an object there.
-/
namespace HclModel.TypeExpr

inductive CTy where
  | str | num | bool | any
  | list (t : CTy) | set (t : CTy) | map (t : CTy)
  | tuple (ts : List CTy)
  | object (fs : List (String × CTy))     -- sorted by attribute name (cty keeps a map)
deriving Repr, Inhabited

inductive Tok where
  | ident (s : String)
  | lparen | rparen | lbrack | rbrack | lbrace | rbrace | comma | eq
deriving Repr, DecidableEq, Inhabited

mutual
/-- `TypeString`, tokenised -/
def typeString : CTy → List Tok
  | .str => [.ident "string"]
  | .num => [.ident "number"]
  | .bool => [.ident "bool"]
  | .any => [.ident "any"]
  | .list t => [.ident "list", .lparen] ++ typeString t ++ [.rparen]
  | .set t => [.ident "set", .lparen] ++ typeString t ++ [.rparen]
  | .map t => [.ident "map", .lparen] ++ typeString t ++ [.rparen]
  | .tuple ts => [.ident "tuple", .lparen, .lbrack] ++ typeStrings ts ++ [.rbrack, .rparen]
  | .object fs => [.ident "object", .lparen, .lbrace] ++ fieldStrings fs ++ [.rbrace, .rparen]
def typeStrings : List CTy → List Tok
  | [] => []
  | [t] => typeString t
  | t :: rest => typeString t ++ [.comma] ++ typeStrings rest
def fieldStrings : List (String × CTy) → List Tok
  | [] => []
  | [(k, t)] => [.ident k, .eq] ++ typeString t
  | (k, t) :: rest => [.ident k, .eq] ++ typeString t ++ [.comma] ++ fieldStrings rest
end

mutual
/-- reading a type expression: keyword, or `list(T)` / `set(T)` / `map(T)` / `tuple([T,…])` / `object({k=T,…})`.
    `fuel` ≥ number of tokens. -/
def getType : Nat → List Tok → Option (CTy × List Tok)
  | 0, _ => none
  | fuel+1, toks =>
    match toks with
    | .ident "list" :: .lparen :: rest =>
      (match getType fuel rest with
       | some (t, .rparen :: rest') => some (.list t, rest')
       | _ => none)
    | .ident "set" :: .lparen :: rest =>
      (match getType fuel rest with
       | some (t, .rparen :: rest') => some (.set t, rest')
       | _ => none)
    | .ident "map" :: .lparen :: rest =>
      (match getType fuel rest with
       | some (t, .rparen :: rest') => some (.map t, rest')
       | _ => none)
    | .ident "tuple" :: .lparen :: .lbrack :: rest =>
      (match rest with
       | .rbrack :: .rparen :: rest' => some (.tuple [], rest')
       | _ =>
         match getTypes fuel rest with
         | some (ts, .rbrack :: .rparen :: rest') => some (.tuple ts, rest')
         | _ => none)
    | .ident "object" :: .lparen :: .lbrace :: rest =>
      (match rest with
       | .rbrace :: .rparen :: rest' => some (.object [], rest')
       | .ident "for" :: _ => none           -- `{ for …` is parsed as a for expression
       | _ =>
         match getFields fuel rest with
         | some (fs, .rbrace :: .rparen :: rest') => some (.object fs, rest')
         | _ => none)
    | .ident "string" :: rest => some (.str, rest)
    | .ident "number" :: rest => some (.num, rest)
    | .ident "bool" :: rest => some (.bool, rest)
    | .ident "any" :: rest => some (.any, rest)
    | _ => none
/-- one or more types separated by commas -/
def getTypes : Nat → List Tok → Option (List CTy × List Tok)
  | 0, _ => none
  | fuel+1, toks =>
    match getType fuel toks with
    | some (t, .comma :: rest) =>
      (match getTypes fuel rest with
       | some (ts, rest') => some (t :: ts, rest')
       | none => none)
    | some (t, rest) => some ([t], rest)
    | none => none
/-- one or more `name = type` items separated by commas -/
def getFields : Nat → List Tok → Option (List (String × CTy) × List Tok)
  | 0, _ => none
  | fuel+1, toks =>
    match toks with
    | .ident k :: .eq :: rest =>
      (match getType fuel rest with
       | some (t, .comma :: rest') =>
         (match getFields fuel rest' with
          | some (fs, rest'') => some ((k, t) :: fs, rest'')
          | none => none)
       | some (t, rest') => some ([(k, t)], rest')
       | none => none)
    | _ => none
end

def parseType (toks : List Tok) : Option CTy :=
  match getType (toks.length + 1) toks with
  | some (t, []) => some t
  | _ => none

mutual
/-- no object type (at any depth) has `for` as its first attribute name -/
def noLeadingFor : CTy → Bool
  | .list t | .set t | .map t => noLeadingFor t
  | .tuple ts => noLeadingForAll ts
  | .object fs => (match fs with | ("for", _) :: _ => false | _ => true) && noLeadingForFields fs
  | _ => true
def noLeadingForAll : List CTy → Bool
  | [] => true
  | t :: ts => noLeadingFor t && noLeadingForAll ts
def noLeadingForFields : List (String × CTy) → Bool
  | [] => true
  | (_, t) :: fs => noLeadingFor t && noLeadingForFields fs
end

end HclModel.TypeExpr
