/-!
Precedence-climbing parser with the loop structure of `hclsyntax` `parseBinaryOps` /
`parseExpressionTerm` (parenthesised sub-expressions included) over abstract tokens, and a printer.
Generic in the operator level table (`Tbl`), which is regenerated from the compiled `binaryOps`.
-/
namespace HclModel.OpParser

inductive Tok where
  | atom (n : Nat) | op (k : Nat) | lp | rp
deriving DecidableEq, Repr

inductive E where
  | atom (n : Nat) | bin (k : Nat) (l r : E) | paren (e : E)
deriving DecidableEq, Repr

/-- level table: `lv k = some j` with 1 ≤ j ≤ L means operator k is handled by the loop at depth j
    (j = L loosest, j = 1 tightest).  -/
structure Tbl where
  L  : Nat
  lv : Nat → Option Nat
  ok : ∀ k j, lv k = some j → 1 ≤ j ∧ j ≤ L

abbrev Res := Option (E × List Tok)

mutual
def parseLevel (T : Tbl) (fuel d : Nat) (toks : List Tok) : Res :=
  match d with
  | 0 => parseTerm T fuel toks
  | d'+1 =>
    match parseLevel T fuel d' toks with
    | none => none
    | some (lhs, r) => loopLevel T fuel (d'+1) lhs r
termination_by (fuel, d, 1)
def loopLevel (T : Tbl) (fuel d : Nat) (lhs : E) (toks : List Tok) : Res :=
  match toks with
  | Tok.op k :: rest =>
    if T.lv k = some d then
      match fuel, d with
      | f+1, d'+1 =>
        match parseLevel T f d' rest with
        | none => none
        | some (rhs, r) => loopLevel T f (d'+1) (E.bin k lhs rhs) r
      | _, _ => none
    else some (lhs, toks)
  | _ => some (lhs, toks)
termination_by (fuel, d, 0)
def parseTerm (T : Tbl) (fuel : Nat) (toks : List Tok) : Res :=
  match toks with
  | Tok.atom n :: rest => some (E.atom n, rest)
  | Tok.lp :: rest =>
    match fuel with
    | f+1 =>
      match parseLevel T f T.L rest with
      | some (e, Tok.rp :: r) => some (E.paren e, r)
      | _ => none
    | 0 => none
  | _ => none
termination_by (fuel, 0, 0)
end

def render : E → List Tok
  | .atom n => [Tok.atom n]
  | .bin k l r => render l ++ Tok.op k :: render r
  | .paren e => Tok.lp :: render e ++ [Tok.rp]

/-- number of fuel units consumed while parsing `e` -/
def cost : E → Nat
  | .atom _ => 0
  | .bin _ l r => cost l + 1 + cost r
  | .paren e => cost e + 1

/-- root depth: the loop depth at which `e` is completed -/
def rho (T : Tbl) : E → Nat
  | .bin k _ _ => (T.lv k).getD 0
  | _ => 0

/-- `WP T d e`: `e` is printable without extra parentheses where `parseLevel d` is expected -/
inductive WP (T : Tbl) : Nat → E → Prop
  | atom (d n) : WP T d (.atom n)
  | paren (d e) : WP T T.L e → WP T d (.paren e)
  | bin (d k j l r) : T.lv k = some j → j ≤ d → WP T j l → WP T (j-1) r → WP T d (.bin k l r)

/-- `Below T m toks`: the next token is not an operator handled at a depth < m -/
def Below (T : Tbl) (m : Nat) : List Tok → Prop
  | Tok.op k :: _ => ∀ i, T.lv k = some i → m ≤ i
  | _ => True

/-- run the loops at depths a, a+1, …, a+n-1 (all with the same fuel) -/
def loops (T : Tbl) (fuel : Nat) : Nat → Nat → E → List Tok → Res
  | _, 0, lhs, toks => some (lhs, toks)
  | a, n+1, lhs, toks =>
    match loopLevel T fuel a lhs toks with
    | none => none
    | some (l', r) => loops T fuel (a+1) n l' r

/-- the parser entry point: fuel = number of tokens -/
def parse (T : Tbl) (toks : List Tok) : Option E :=
  match parseLevel T toks.length T.L toks with
  | some (e, []) => some e
  | _ => none


end HclModel.OpParser
