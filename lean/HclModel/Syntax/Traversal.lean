import HclModel.Write.StringLit
/-!
Static traversals, read twice: by the stand-alone traversal parser (`hclsyntax.ParseTraversalAbs` →
`parser.parseTraversal(false)`, parser_traversal.go) and by the expression parser (`ParseExpression` →
`parseExpressionTerm` for the root name, `parseExpressionTraversals` with `makeRelativeTraversal` for the steps,
then `hcl.AbsTraversalForExpr`), and written by `hclwrite.TokensForTraversal` (`appendTokensForTraversalStep`).

Tokens: what the scanner delivers, with a quoted string as one unit holding the characters between its quotes
(read by `StringLit.parseQuoted`: `none` when it is not a single literal) and a number literal as an opaque
non-negative magnitude.  Both entry points run with newlines excluded.  `none` = an error, or (expression
parser) something that is not a static absolute traversal: a splat, a key that is not a literal.
-/
namespace HclModel.Trav
open HclModel.StringLit

inductive Tok where
  | ident (s : List Char)
  | dot | obrack | cbrack
  /-- `dotted`: the literal's text contains a `.` (matters only for the legacy index form) -/
  | num (m : Nat) (dotted : Bool)
  | str (cs : List Char)
  | star | newline | junk
  deriving DecidableEq, Repr

inductive Key where
  | num (m : Nat)
  | str (s : List Char)
  deriving DecidableEq, Repr

inductive Step where
  | attr (name : List Char)
  | index (k : Key)
  deriving DecidableEq, Repr

structure T where
  root : List Char
  steps : List Step
  deriving DecidableEq, Repr

/-- the peeker with newlines excluded -/
def skip : List Tok → List Tok
  | .newline :: r => skip r
  | ts => ts

/-- the closing bracket after an index key -/
def closeBrack (ts : List Tok) : Option (List Tok) :=
  match skip ts with
  | .cbrack :: r => some r
  | _ => none

/-- the loop of `parseTraversal(allowSplats = false)` -/
def standaloneSteps : Nat → List Tok → Option (List Step)
  | 0, _ => none
  | f+1, ts =>
    match skip ts with
    | [] => some []                                   -- TokenEOF
    | .dot :: r =>
      (match skip r with
       | .ident n :: r' => (standaloneSteps f r').map (Step.attr n :: ·)
       | _ => none)                                   -- "Attribute name required" (also for `.*` and `.0`)
    | .obrack :: r =>
      (match skip r with
       | .num m _ :: r' =>
         (match closeBrack r' with
          | some r'' => (standaloneSteps f r'').map (Step.index (.num m) :: ·)
          | none => none)
       | .str cs :: r' =>
         (match parseQuoted cs, closeBrack r' with    -- `parseQuotedStringLiteral`
          | some s, some r'' => (standaloneSteps f r'').map (Step.index (.str s) :: ·)
          | _, _ => none)
       | _ => none)                                   -- "Index value required" / splat not allowed
    | _ => none                                       -- "Invalid character"

/-- `hclsyntax.ParseTraversalAbs` -/
def standalone (ts : List Tok) : Option T :=
  match skip ts with
  | .ident root :: r => (standaloneSteps (r.length + 1) r).map (T.mk root)
  | _ => none

/-- the loop of `parseExpressionTraversals` over a `ScopeTraversalExpr`, as far as it stays a static traversal -/
def exprSteps : Nat → List Tok → Option (List Step)
  | 0, _ => none
  | f+1, ts =>
    match skip ts with
    | [] => some []
    | .dot :: r =>
      (match skip r with
       | .ident n :: r' => (exprSteps f r').map (Step.attr n :: ·)
       | .num m dotted :: r' =>                        -- legacy index `a.0`; `a.0.1` is rejected
         if dotted then none else (exprSteps f r').map (Step.index (.num m) :: ·)
       | _ => none)                                   -- attribute-only splat, or "Invalid attribute name"
    | .obrack :: r =>
      -- the key is a full expression; the step is static when it is a literal number or a template that is a
      -- single string literal
      (match skip r with
       | .num m _ :: r' =>
         (match closeBrack r' with
          | some r'' => (exprSteps f r'').map (Step.index (.num m) :: ·)
          | none => none)
       | .str cs :: r' =>
         (match parseQuoted cs, closeBrack r' with
          | some s, some r'' => (exprSteps f r'').map (Step.index (.str s) :: ·)
          | _, _ => none)
       | _ => none)
    | _ => none                                       -- an operator, a call … : not a traversal

/-- `hclsyntax.ParseExpression` followed by `hcl.AbsTraversalForExpr` -/
def viaExpression (ts : List Tok) : Option T :=
  match skip ts with
  | .ident root :: r => (exprSteps (r.length + 1) r).map (T.mk root)
  | _ => none

/-! ## writing -/

/-- `appendTokensForTraversalStep` (string keys through `escapeQuotedStringLit`, number keys non-negative) -/
def genStep (isPrint : Char → Bool) : Step → List Tok
  | .attr n => [.dot, .ident n]
  | .index (.num m) => [.obrack, .num m false, .cbrack]
  | .index (.str s) => [.obrack, .str (escape isPrint s), .cbrack]

/-- `TokensForTraversal` -/
def gen (isPrint : Char → Bool) (t : T) : List Tok :=
  .ident t.root :: t.steps.flatMap (genStep isPrint)

end HclModel.Trav
