/-!
Model of source positions: `tokenAccum.emitToken` (hclsyntax/token.go) — how the scanner derives each
token's start and end `hcl.Pos` (byte, line, column) from the running position — against an independent
recount from the beginning of the input.

The input is abstracted to its grapheme clusters (`textseg`): a cluster has a byte length and may be a
newline cluster ("\n" or "\r\n").  A token is a run of clusters; a gap is a run of single-byte
non-newline clusters (the scanner only skips spaces and tabs between tokens: "only ASCII spaces can be in
the offset").  The Ragel automaton itself (which bytes form which token) is not modelled.
-/
namespace HclModel.Pos

structure Cl where
  len : Nat          -- bytes in the cluster
  nl : Bool          -- "\n" or "\r\n"
deriving Repr, DecidableEq, Inhabited

structure P where
  byte : Nat
  line : Nat
  col : Nat
deriving Repr, DecidableEq, Inhabited

/-- a piece of input: bytes skipped between tokens, or a token -/
inductive Seg where
  | gap (n : Nat)
  | tok (ty : Nat) (cls : List Cl)
deriving Repr, Inhabited

def clBytes (cls : List Cl) : Nat := cls.foldl (fun a c => a + c.len) 0

/-- advance a position over one cluster, as the loop in `emitToken` does (the byte offset is set
    separately there; it is folded in here) -/
def stepCl (p : P) (c : Cl) : P :=
  if c.nl then ⟨p.byte + c.len, p.line + 1, 1⟩ else ⟨p.byte + c.len, p.line, p.col + 1⟩

def walk (p : P) (cls : List Cl) : P := cls.foldl stepCl p

structure TokRange where
  ty : Nat
  start : P
  stop : P
deriving Repr, DecidableEq, Inhabited

/-- `emitToken` for one token that begins `gap` bytes after the running position `pos`:
    `start.Column += startOfs + StartByte - Pos.Byte`, `start.Byte = startOfs + StartByte`, then the cluster
    walk; the running position becomes the token's end. -/
def emit (pos : P) (gap : Nat) (ty : Nat) (cls : List Cl) : TokRange × P :=
  let start : P := ⟨pos.byte + gap, pos.line, pos.col + gap⟩
  let stop := walk start cls
  (⟨ty, start, stop⟩, stop)

/-- the scanner's emissions over a segmented input: gaps accumulate until the next token -/
def emitAll : P → Nat → List Seg → List TokRange
  | _, _, [] => []
  | pos, g, .gap n :: rest => emitAll pos (g + n) rest
  | pos, g, .tok ty cls :: rest =>
    let (r, pos') := emit pos g ty cls
    r :: emitAll pos' 0 rest

/-- the independent recount: every gap byte is a one-column cluster -/
def gapCls (n : Nat) : List Cl := List.replicate n ⟨1, false⟩

def flatten : List Seg → List Cl
  | [] => []
  | .gap n :: rest => gapCls n ++ flatten rest
  | .tok _ cls :: rest => cls ++ flatten rest

/-- position after the clusters `cls` counted from `start`: newlines and grapheme clusters -/
def posAt (start : P) (cls : List Cl) : P := walk start cls

/-- reference ranges: recount from the start for every token -/
def refRanges : P → List Cl → List Seg → List TokRange
  | _, _, [] => []
  | start, before, .gap n :: rest => refRanges start (before ++ gapCls n) rest
  | start, before, .tok ty cls :: rest =>
    ⟨ty, posAt start before, posAt start (before ++ cls)⟩ :: refRanges start (before ++ cls) rest

end HclModel.Pos
