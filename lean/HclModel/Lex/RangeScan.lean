import HclModel.Lex.Pos
/-!
Model of `hcl.RangeScanner.Scan` (pos_scanner.go): a `bufio.SplitFunc` cuts the buffer into *windows* (the
bytes one call advances over); the token it returns is taken to be the first `tokLen` bytes of the window
(the scanner never looks at where the returned slice really lies).  For every window the scanner walks
the window's grapheme clusters — it re-runs `textseg` on the window alone — moving a running position
`new`, and copies it into `end` after every cluster that begins before the token's last byte.

A cluster is a newline cluster when its first byte is `\r` or `\n` (so a lone `\r` counts: recorded
finding, the lexer disagrees).  What is *not* modelled: the split function and `textseg` themselves —
the windows and their clusters are the correspondence's (`RSCAN`) input.
-/
namespace HclModel.Pos

/-- one call of the split function: the clusters of the window it advances over, the length in bytes
    of the token it returns, and (ghost: the scanner ignores it) how many bytes of the window precede
    the token -/
structure Win where
  cls : List Cl
  tokLen : Nat
  tokOfs : Nat := 0
deriving Repr, Inhabited

/-- the loop over the clusters of one window: `new`, `end`, `advanced` -/
def scanLoop (tokLen : Nat) : P → P → Nat → List Cl → P × P
  | new, stop, _, [] => (stop, new)
  | new, stop, advanced, c :: cs =>
    let new' := stepCl new c
    let stop' := if advanced < tokLen then new' else stop
    scanLoop tokLen new' stop' (advanced + c.len) cs

/-- `Scan` on one window: the reported range and the new running position -/
def scanWin (pos : P) (w : Win) : TokRange × P :=
  let (stop, new) := scanLoop w.tokLen pos pos 0 w.cls
  (⟨0, pos, stop⟩, new)

def scanAll : P → List Win → List TokRange
  | _, [] => []
  | pos, w :: ws =>
    let (r, pos') := scanWin pos w
    r :: scanAll pos' ws

/-- the clusters that begin before the token's last byte -/
def tokPrefix (tokLen : Nat) : Nat → List Cl → List Cl
  | _, [] => []
  | advanced, c :: cs => if advanced < tokLen then c :: tokPrefix tokLen (advanced + c.len) cs else []

/-- the recount: each window's range starts at the position obtained by counting newlines and clusters
    from the very start over all earlier windows, and ends after the token's clusters -/
def refScan : P → List Cl → List Win → List TokRange
  | _, _, [] => []
  | start, before, w :: ws =>
    ⟨0, posAt start before, posAt start (before ++ tokPrefix w.tokLen 0 w.cls)⟩ :: refScan start (before ++ w.cls) ws

/-- the token ends on a cluster boundary of its window -/
def Win.aligned (w : Win) : Prop := clBytes (tokPrefix w.tokLen 0 w.cls) = w.tokLen

instance (w : Win) : Decidable w.aligned := by unfold Win.aligned; exact inferInstance

end HclModel.Pos
