import HclModel.Body.Native
import HclModel.Expr.Eval
/-!
Model of the JSON syntax's body semantics (`json/structure.go`): a JSON value used as a body is interpreted
*by the schema* — `collectDeepAttrs`, `PartialContent`, `Content`, `unpackBlock`, `JustAttributes` — and of
the evaluation of a JSON value used as an attribute expression without template sequences
(`expression.Value`).

Also here: the *layouts* in which the JSON specification (json/spec.md) allows a configuration to be written,
as a syntax of choices (`BodyL`, `PropL`, `UnderL`) with the JSON value they render to and the configuration
they denote — the analogue of `Structure.RItem` for the native syntax.
-/
namespace HclModel.JBody
open HclModel.Body

/-- JSON values after parsing (`json/ast.go`): objects keep their properties in order, duplicates included -/
inductive JV where
  | null
  | str (s : String)
  | num (n : Int)
  | bool (b : Bool)
  | arr (xs : List JV)
  | obj (props : List (String × JV))
deriving Repr, Inhabited

/-- `collectDeepAttrs`: the properties of an object, or of all objects of an array; the flag reports an
    "Incorrect JSON value type" error -/
def collectDeepAttrs : JV → List (String × JV) × Bool
  | .null => ([], false)
  | .obj props => (props, false)
  | .arr xs =>
    xs.foldl (fun acc x =>
      match x with
      | .obj props => (acc.1 ++ props, acc.2)
      | _ => (acc.1, true)) ([], false)
  | _ => ([], true)

/-- a JSON body: the value and the names already consumed -/
structure JBodyV where
  val : JV
  hidden : List String := []
deriving Repr, Inhabited

inductive JErr where
  | incorrectType                     -- "Incorrect JSON value type"
  | missingLabel (type : String)      -- "Missing block label"
  | duplicateArgument (name : String)
  | missingRequired (name : String)
  | extraneous (name : String)        -- "Extraneous JSON object property"
deriving Repr, DecidableEq

/-- `unpackBlock`: peel `labelsLeft` levels of label objects, then read the block bodies -/
def unpackBlock (type : String) : Nat → List String → JV → List (Block JBodyV) × List JErr
  | 0, labelsUsed, v =>
    match v with
    | .null => ([], [])
    | .obj _ => ([⟨type, labelsUsed, ⟨v, []⟩⟩], [])
    | .arr xs => (xs.map fun av => ⟨type, labelsUsed, ⟨av, []⟩⟩, [])
    | _ => ([], [.incorrectType])
  | labelsLeft+1, labelsUsed, v =>
    let (props, bad) := collectDeepAttrs v
    let errs := if bad then [JErr.incorrectType] else []
    if props.isEmpty then ([], errs ++ [.missingLabel type])
    else
      -- structural recursion needs the sub-values to be visibly smaller: recurse through the value itself
      let rec go : List (String × JV) → List (Block JBodyV) × List JErr
        | [] => ([], [])
        | (k, sub) :: rest =>
          let r := unpackBlock type labelsLeft (labelsUsed ++ [k]) sub
          let r' := go rest
          (r.1 ++ r'.1, r.2 ++ r'.2)
      let r := go props
      (r.1, errs ++ r.2)

/-- `PartialContent`: content, the names used (the remaining body hides them), errors -/
def JBodyV.partialContent (b : JBodyV) (s : Schema) : Content JV JBodyV × JBodyV × List JErr :=
  let (props, bad) := collectDeepAttrs b.val
  let errs0 := if bad then [JErr.incorrectType] else []
  let step (acc : List (String × JV) × List (Block JBodyV) × List String × List JErr) (p : String × JV) :=
    let (attrs, blocks, used, errs) := acc
    if b.hidden.contains p.1 then acc
    else if s.attrs.any (·.name == p.1) then
      if attrs.any (·.1 == p.1) then (attrs, blocks, used, errs ++ [.duplicateArgument p.1])
      else (attrs ++ [p], blocks, p.1 :: used, errs)
    else match wanted s p.1 with
      | some bs =>
        let r := unpackBlock bs.type bs.labelCount [] p.2
        (attrs, blocks ++ r.1, p.1 :: used, errs ++ r.2)
      | none => acc
  let (attrs, blocks, used, errs) := props.foldl step ([], [], b.hidden, errs0)
  let missing := (s.attrs.filter fun as => as.required && !(attrs.any (·.1 == as.name))).map fun as => JErr.missingRequired as.name
  (⟨attrs, blocks⟩, ⟨b.val, used⟩, errs ++ missing)

/-- `Content`: partial processing, then an error for every property that is neither used nor a comment -/
def JBodyV.content (b : JBodyV) (s : Schema) : Content JV JBodyV × List JErr :=
  let (c, remain, errs) := b.partialContent s
  let (props, bad) := collectDeepAttrs b.val
  let errs1 := if bad then [JErr.incorrectType] else []
  let extra := (props.filter fun p => p.1 != "//" && !remain.hidden.contains p.1).map fun p => JErr.extraneous p.1
  (c, errs ++ errs1 ++ extra)

/-- `JustAttributes`: every property of the object is an attribute (first definition wins, "//" ignored) -/
def JBodyV.justAttributes (b : JBodyV) : List (String × JV) × Bool :=
  match b.val with
  | .obj props =>
    props.foldl (fun acc p =>
      if p.1 == "//" || b.hidden.contains p.1 then acc
      else if acc.1.any (·.1 == p.1) then (acc.1, true)
      else (acc.1 ++ [p], acc.2)) ([], false)
  | _ => ([], true)

/-! ### JSON values as attribute expressions (no template sequences) -/

mutual
/-- `expression.Value`: strings are taken verbatim (no `${` / `%{` sequences), arrays are tuples, objects are
    objects (first definition of a key wins, later ones are errors), `null` is the null of unknown type -/
def jsonValue : JV → Val × Bool
  | .null => (.null Fl.none .dyn, false)
  | .str s => (.str Fl.none s, false)
  | .num n => (.num Fl.none n, false)
  | .bool b => (.bool Fl.none b, false)
  | .arr xs => let r := jsonValues xs; (.tuple Fl.none r.1, r.2)
  | .obj props => let r := jsonFields props; (.object Fl.none r.1, r.2)
def jsonValues : List JV → List Val × Bool
  | [] => ([], false)
  | x :: rest => let a := jsonValue x; let r := jsonValues rest; (a.1 :: r.1, a.2 || r.2)
/-- fields sorted by name; a key seen before is an error and is skipped -/
def jsonFields : List (String × JV) → List (String × Val) × Bool
  | [] => ([], false)
  | (k, x) :: rest =>
    let a := jsonValue x
    let r := jsonFields rest
    -- the loop runs front to back and keeps the first; processing the rest first, a later duplicate is dropped
    (insertSorted k a.1 (r.1.filter (·.1 != k)), a.2 || r.2 || r.1.any (·.1 == k))
end

mutual
/-- the same literal written in the native syntax -/
def litExpr : JV → Expr
  | .null => .lit (.null Fl.none .dyn)
  | .str s => .lit (.str Fl.none s)
  | .num n => .lit (.num Fl.none n)
  | .bool b => .lit (.bool Fl.none b)
  | .arr xs => .tuple (litExprs xs)
  | .obj props => .object (litItems props)
def litExprs : List JV → List Expr
  | [] => []
  | x :: rest => litExpr x :: litExprs rest
def litItems : List (String × JV) → List (Expr × Expr)
  | [] => []
  | (k, x) :: rest => (.lit (.str Fl.none k), litExpr x) :: litItems rest
end

mutual
/-- no object inside the value defines a key twice -/
def uniqueKeys : JV → Bool
  | .arr xs => uniqueKeysAll xs
  | .obj props => (props.map (·.1)).eraseDups.length == props.length && uniqueKeysProps props
  | _ => true
def uniqueKeysAll : List JV → Bool
  | [] => true
  | x :: rest => uniqueKeys x && uniqueKeysAll rest
def uniqueKeysProps : List (String × JV) → Bool
  | [] => true
  | (_, x) :: rest => uniqueKeys x && uniqueKeysProps rest
end

/-! ### configurations and the ways to write them in JSON -/

mutual
/-- an abstract configuration body: attributes (unique names) and blocks in order -/
inductive Cfg where
  | mk (attrs : List (String × JV)) (blocks : List CBlock)
inductive CBlock where
  | mk (type : String) (labels : List String) (body : Cfg)
end

instance : Inhabited Cfg := ⟨.mk [] []⟩
instance : Inhabited CBlock := ⟨.mk "" [] default⟩
def Cfg.attrs : Cfg → List (String × JV) | .mk a _ => a
def Cfg.blocks : Cfg → List CBlock | .mk _ b => b
def CBlock.type : CBlock → String | .mk t _ _ => t
def CBlock.labels : CBlock → List String | .mk _ l _ => l
def CBlock.body : CBlock → Cfg | .mk _ _ b => b

/-- the configuration as a native body -/
def Cfg.native (c : Cfg) : NBody JV CBlock :=
  { attrs := c.attrs, blocks := c.blocks.map fun b => ⟨b.type, b.labels, b⟩ }

mutual
/-- how a body is written: one object, or an array of objects whose properties are read in sequence -/
inductive BodyL where
  | obj (props : List PropL)
  | arr (parts : List (List PropL))
/-- one property of a body object -/
inductive PropL where
  /-- `"//": anything` -/
  | comment (v : JV)
  /-- `"name": value` -/
  | attr (name : String) (v : JV)
  /-- `"type": …` — any number of blocks of one type -/
  | blocks (type : String) (u : UnderL)
/-- what is written under a block type name or under a label -/
inductive UnderL where
  /-- no labels left: `null` — no block at all -/
  | none
  /-- no labels left: one block, its body written as an object -/
  | one (props : List PropL)
  /-- no labels left: an array, one block per element, each body written either way -/
  | many (bodies : List BodyL)
  /-- a label level: one object mapping label values to what is under them -/
  | labelsObj (part : List (String × UnderL))
  /-- a label level: an array of such objects, read in sequence -/
  | labelsArr (parts : List (List (String × UnderL)))
end

instance : Inhabited BodyL := ⟨.obj []⟩

mutual
def renderBody : BodyL → JV
  | .obj props => .obj (renderProps props)
  | .arr parts => .arr (renderParts parts)
def renderParts : List (List PropL) → List JV
  | [] => []
  | p :: rest => .obj (renderProps p) :: renderParts rest
def renderProps : List PropL → List (String × JV)
  | [] => []
  | .comment v :: rest => ("//", v) :: renderProps rest
  | .attr n v :: rest => (n, v) :: renderProps rest
  | .blocks t u :: rest => (t, renderUnder u) :: renderProps rest
def renderUnder : UnderL → JV
  | .none => .null
  | .one props => .obj (renderProps props)
  | .many bodies => .arr (renderBodies bodies)
  | .labelsObj part => .obj (renderLabelProps part)
  | .labelsArr parts => .arr (renderLabelParts parts)
def renderBodies : List BodyL → List JV
  | [] => []
  | b :: rest => renderBody b :: renderBodies rest
def renderLabelParts : List (List (String × UnderL)) → List JV
  | [] => []
  | p :: rest => .obj (renderLabelProps p) :: renderLabelParts rest
def renderLabelProps : List (String × UnderL) → List (String × JV)
  | [] => []
  | (k, u) :: rest => (k, renderUnder u) :: renderLabelProps rest
end

mutual
/-- what was written: the attributes and, in order of appearance, the blocks -/
def denoteBody : BodyL → Cfg
  | .obj props => .mk (denoteAttrs props) (denoteBlocks props)
  | .arr parts => .mk (denoteAttrsParts parts) (denoteBlocksParts parts)
def denoteAttrs : List PropL → List (String × JV)
  | [] => []
  | .attr n v :: rest => (n, v) :: denoteAttrs rest
  | _ :: rest => denoteAttrs rest
def denoteAttrsParts : List (List PropL) → List (String × JV)
  | [] => []
  | p :: rest => denoteAttrs p ++ denoteAttrsParts rest
def denoteBlocks : List PropL → List CBlock
  | [] => []
  | .blocks t u :: rest => denoteUnder t [] u ++ denoteBlocks rest
  | _ :: rest => denoteBlocks rest
def denoteBlocksParts : List (List PropL) → List CBlock
  | [] => []
  | p :: rest => denoteBlocks p ++ denoteBlocksParts rest
def denoteUnder (t : String) (labels : List String) : UnderL → List CBlock
  | .none => []
  | .one props => [.mk t labels (.mk (denoteAttrs props) (denoteBlocks props))]
  | .many bodies => denoteMany t labels bodies
  | .labelsObj part => denoteLabelProps t labels part
  | .labelsArr parts => denoteLabelParts t labels parts
def denoteMany (t : String) (labels : List String) : List BodyL → List CBlock
  | [] => []
  | b :: rest => .mk t labels (denoteBody b) :: denoteMany t labels rest
def denoteLabelParts (t : String) (labels : List String) : List (List (String × UnderL)) → List CBlock
  | [] => []
  | p :: rest => denoteLabelProps t labels p ++ denoteLabelParts t labels rest
def denoteLabelProps (t : String) (labels : List String) : List (String × UnderL) → List CBlock
  | [] => []
  | (k, u) :: rest => denoteUnder t (labels ++ [k]) u ++ denoteLabelProps t labels rest
end

/-! ### consuming level by level -/

inductive STree where
  | mk (attrs : List AttrSchema) (blocks : List (BlockSchema × STree))

def STree.schema : STree → Schema
  | .mk attrs blocks => ⟨attrs, blocks.map (·.1)⟩

def STree.child : STree → String → Option STree
  | .mk _ blocks, ty => (blocks.find? (·.1.type == ty)).map (·.2)

/-- what a consumer sees: per schema attribute its value if present (with the error flag of its evaluation),
    and per schema block type the blocks in order with their labels and content -/
inductive RTree where
  | mk (attrs : List (String × Option (Val × Bool))) (blocks : List (String × List (List String × RTree)))
deriving Inhabited

def lookupAttr {α : Type} (n : String) : List (String × α) → Option α
  | [] => none
  | (k, v) :: rest => if k == n then some v else lookupAttr n rest

/-- through the JSON body -/
def resolveJ : Nat → STree → JBodyV → RTree
  | 0, _, _ => .mk [] []
  | fuel+1, st, b =>
    let r := b.content st.schema
    .mk (st.schema.attrs.map fun as => (as.name, (lookupAttr as.name r.1.attrs).map jsonValue))
      (st.schema.blocks.map fun bs =>
        (bs.type, (r.1.blocks.filter (·.type == bs.type)).filterMap fun blk =>
          (st.child blk.type).map fun cst => (blk.labels, resolveJ fuel cst blk.body)))

/-- through the native body, attribute literals evaluated by `ev` -/
def resolveN (ev : Expr → Val × Bool) : Nat → STree → Cfg → RTree
  | 0, _, _ => .mk [] []
  | fuel+1, st, c =>
    let r := c.native.content st.schema
    .mk (st.schema.attrs.map fun as => (as.name, (lookupAttr as.name r.1.attrs).map fun v => ev (litExpr v)))
      (st.schema.blocks.map fun bs =>
        (bs.type, (r.1.blocks.filter (·.type == bs.type)).filterMap fun blk =>
          (st.child blk.type).map fun cst => (blk.labels, resolveN ev fuel cst blk.body.body)))

/-! ### which layouts are readable back under a schema tree -/

mutual
/-- The JSON syntax has no marker telling an argument from a block or a label from a body: the schema decides.
    A layout is *admissible for a schema tree* when it agrees with it about that: no argument is named like a
    block type of the schema at its level, no block type like an argument, nothing is named `//`, blocks of a
    type the schema knows have as many label levels as the schema says, argument names are unique in a body,
    and no object used as an argument value defines a key twice. -/
def admBody (st : STree) : BodyL → Bool
  | .obj props => admProps st props && ((denoteAttrs props).map (·.1)).eraseDups.length == (denoteAttrs props).length
  | .arr parts => admParts st parts && ((denoteAttrsParts parts).map (·.1)).eraseDups.length == (denoteAttrsParts parts).length
def admParts (st : STree) : List (List PropL) → Bool
  | [] => true
  | p :: rest => admProps st p && admParts st rest
def admProps (st : STree) : List PropL → Bool
  | [] => true
  | .comment _ :: rest => admProps st rest
  | .attr n v :: rest => n != "//" && !(st.schema.blocks.any (·.type == n)) && uniqueKeys v && admProps st rest
  | .blocks t u :: rest =>
    t != "//" && !(st.schema.attrs.any (·.name == t)) &&
    (match st.schema.blocks.find? (·.type == t), st.child t with
     | some bs, some cst => admUnder cst bs.labelCount u
     | _, _ => true) &&
    admProps st rest
def admUnder (cst : STree) : Nat → UnderL → Bool
  | _, .none => true
  | 0, .one props => admProps cst props && ((denoteAttrs props).map (·.1)).eraseDups.length == (denoteAttrs props).length
  | 0, .many bodies => admBodies cst bodies
  | 0, .labelsObj _ => false
  | 0, .labelsArr _ => false
  | k+1, .labelsObj part => admLabelProps cst k part
  | k+1, .labelsArr parts => admLabelParts cst k parts
  | _+1, .one _ => false
  | _+1, .many _ => false
def admBodies (cst : STree) : List BodyL → Bool
  | [] => true
  | b :: rest => admBody cst b && admBodies cst rest
def admLabelParts (cst : STree) (k : Nat) : List (List (String × UnderL)) → Bool
  | [] => true
  | p :: rest => admLabelProps cst k p && admLabelParts cst k rest
def admLabelProps (cst : STree) (k : Nat) : List (String × UnderL) → Bool
  | [] => true
  | (_, u) :: rest => admUnder cst k u && admLabelProps cst k rest
end

mutual
/-- schemas name each argument and block type once, and nothing `//` -/
def STree.wf : STree → Bool
  | .mk attrs blocks =>
    (attrs.map (·.name)).eraseDups.length == attrs.length &&
    (blocks.map (·.1.type)).eraseDups.length == blocks.length &&
    !(attrs.any (·.name == "//")) && stWfAll blocks
def stWfAll : List (BlockSchema × STree) → Bool
  | [] => true
  | (bs, st) :: rest => bs.type != "//" && st.wf && stWfAll rest
end

end HclModel.JBody
