import HclModel.Json.Parse
/-!
Reference grammar of JSON texts (RFC 8259) over bytes, carrying the denoted syntax tree, written
independently of the scanner/parser structure: it is the specification side of C13.
`JsonText bs n` : the byte string `bs` is a single JSON text denoting `n`.
UTF-8 validity of the raw bytes is a separate predicate (`ValidUtf8`), because the implementation does not
enforce it inside strings (recorded finding).
-/
namespace HclModel.Json

def AllWs (bs : List Byte) : Prop := ∀ b ∈ bs, isWs b = true

def AllDigits (bs : List Byte) : Prop := ∀ b ∈ bs, isDigit b = true

/-- `int = "0" / digit1-9 *DIGIT` -/
def IsInt (bs : List Byte) : Prop :=
  bs ≠ [] ∧ AllDigits bs ∧ (bs.length > 1 → bs.head? ≠ some 48)

/-- RFC 8259 number with its exact decimal value `m × 10^e` -/
inductive IsNumber : List Byte → Int → Int → Prop
  | mk (neg : Bool) (ip fp : List Byte) (hasExp : Bool) (eneg : Bool) (esign : List Byte) (ep : List Byte) (emark : Byte) :
      IsInt ip → AllDigits fp →
      (hasExp = true → ep ≠ [] ∧ AllDigits ep ∧ (emark = 101 ∨ emark = 69) ∧
        ((eneg = true ∧ esign = [45]) ∨ (eneg = false ∧ (esign = [43] ∨ esign = [])))) →
      IsNumber
        ((if neg then [45] else []) ++ ip ++ (if fp = [] then [] else 46 :: fp) ++
          (if hasExp then emark :: esign ++ ep else []))
        (if neg then -(digitsVal (ip ++ fp) : Int) else (digitsVal (ip ++ fp) : Int))
        ((if hasExp then (if eneg then -(digitsVal ep : Int) else (digitsVal ep : Int)) else 0) - fp.length)

def IsHex4 (hs : List Byte) (cp : Nat) : Prop := hex4? hs = some (cp, [])

def isHighSurr (cp : Nat) : Prop := 0xD800 ≤ cp ∧ cp < 0xDC00
def isLowSurr (cp : Nat) : Prop := 0xDC00 ≤ cp ∧ cp < 0xE000

/-- `s` starts with a `\uXXXX` escape of a low surrogate -/
def StartsWithLowEscape (s : List Byte) : Prop :=
  ∃ hs rest lo, s = 92 :: 117 :: hs ++ rest ∧ hs.length = 4 ∧ IsHex4 hs lo ∧ isLowSurr lo

/-- string content (between the quotes) and the bytes it denotes -/
inductive Chars : List Byte → List Byte → Prop
  | nil : Chars [] []
  | raw (b : Byte) (s d : List Byte) : 32 ≤ b → b ≠ 34 → b ≠ 92 → Chars s d → Chars (b :: s) (b :: d)
  | esc (e c : Byte) (s d : List Byte) : simpleEscape e = some c → Chars s d → Chars (92 :: e :: s) (c :: d)
  | uni (hs : List Byte) (cp : Nat) (s d : List Byte) : hs.length = 4 → IsHex4 hs cp →
      ¬ isHighSurr cp → ¬ isLowSurr cp → Chars s d → Chars (92 :: 117 :: hs ++ s) (utf8Encode cp ++ d)
  | pair (hs ls : List Byte) (hi lo : Nat) (s d : List Byte) : hs.length = 4 → ls.length = 4 →
      IsHex4 hs hi → IsHex4 ls lo → isHighSurr hi → isLowSurr lo → Chars s d →
      Chars (92 :: 117 :: hs ++ 92 :: 117 :: ls ++ s) (utf8Encode (0x10000 + (hi - 0xD800) * 1024 + (lo - 0xDC00)) ++ d)
  | loneHigh (hs : List Byte) (cp : Nat) (s d : List Byte) : hs.length = 4 → IsHex4 hs cp → isHighSurr cp →
      ¬ StartsWithLowEscape s → Chars s d → Chars (92 :: 117 :: hs ++ s) (replacementChar ++ d)
  | loneLow (hs : List Byte) (cp : Nat) (s d : List Byte) : hs.length = 4 → IsHex4 hs cp → isLowSurr cp →
      Chars s d → Chars (92 :: 117 :: hs ++ s) (replacementChar ++ d)

inductive IsString : List Byte → List Byte → Prop
  | mk (s d : List Byte) : Chars s d → IsString (34 :: s ++ [34]) d

mutual
/-- a JSON value without surrounding whitespace -/
inductive Value : List Byte → Node → Prop
  | vtrue : Value kwTrue (.bool true)
  | vfalse : Value kwFalse (.bool false)
  | vnull : Value kwNull .null
  | vnum (bs : List Byte) (m e : Int) : IsNumber bs m e → Value bs (.num m e)
  | vstr (bs d : List Byte) : IsString bs d → Value bs (.str d)
  | emptyArr (w : List Byte) : AllWs w → Value (91 :: w ++ [93]) (.arr [])
  | arr (body : List Byte) (vs : List Node) : Elems body vs → Value (91 :: body ++ [93]) (.arr vs)
  | emptyObj (w : List Byte) : AllWs w → Value (123 :: w ++ [125]) (.obj [])
  | obj (body : List Byte) (ms : List (List Byte × Node)) : Members body ms → Value (123 :: body ++ [125]) (.obj ms)
/-- `ws value ws *( "," ws value ws )` -/
inductive Elems : List Byte → List Node → Prop
  | one (w1 v w2 : List Byte) (n : Node) : AllWs w1 → AllWs w2 → Value v n → Elems (w1 ++ v ++ w2) [n]
  | cons (w1 v w2 rest : List Byte) (n : Node) (ns : List Node) : AllWs w1 → AllWs w2 → Value v n →
      Elems rest ns → Elems (w1 ++ v ++ w2 ++ 44 :: rest) (n :: ns)
/-- `ws string ws ":" ws value ws *( "," …)` -/
inductive Members : List Byte → List (List Byte × Node) → Prop
  | one (w1 k w2 w3 v w4 : List Byte) (name : List Byte) (n : Node) : AllWs w1 → AllWs w2 → AllWs w3 → AllWs w4 →
      IsString k name → Value v n → Members (w1 ++ k ++ w2 ++ 58 :: w3 ++ v ++ w4) [(name, n)]
  | cons (w1 k w2 w3 v w4 rest : List Byte) (name : List Byte) (n : Node) (ms : List (List Byte × Node)) :
      AllWs w1 → AllWs w2 → AllWs w3 → AllWs w4 → IsString k name → Value v n → Members rest ms →
      Members (w1 ++ k ++ w2 ++ 58 :: w3 ++ v ++ w4 ++ 44 :: rest) ((name, n) :: ms)
end

/-- a single JSON text -/
def JsonText (bs : List Byte) (n : Node) : Prop :=
  ∃ w1 v w2, bs = w1 ++ v ++ w2 ∧ AllWs w1 ∧ AllWs w2 ∧ Value v n

/-! ### UTF-8 well-formedness (RFC 3629), as a decidable check -/

def isCont (b : Byte) : Bool := 0x80 ≤ b && b < 0xC0

def validUtf8 : Nat → List Byte → Bool
  | 0, _ => false
  | _, [] => true
  | fuel+1, b :: rest =>
    if b < 0x80 then validUtf8 fuel rest
    else if 0xC2 ≤ b ∧ b < 0xE0 then
      match rest with
      | c1 :: r => isCont c1 && validUtf8 fuel r
      | _ => false
    else if 0xE0 ≤ b ∧ b < 0xF0 then
      match rest with
      | c1 :: c2 :: r =>
        isCont c1 && isCont c2 && (b ≠ 0xE0 || 0xA0 ≤ c1) && (b ≠ 0xED || c1 < 0xA0) && validUtf8 fuel r
      | _ => false
    else if 0xF0 ≤ b ∧ b < 0xF5 then
      match rest with
      | c1 :: c2 :: c3 :: r =>
        isCont c1 && isCont c2 && isCont c3 && (b ≠ 0xF0 || 0x90 ≤ c1) && (b ≠ 0xF4 || c1 < 0x90) && validUtf8 fuel r
      | _ => false
    else false

def ValidUtf8 (bs : List Byte) : Prop := validUtf8 (bs.length + 1) bs = true

/-- grapheme segmentation never swallows an ASCII byte after the first byte of a cluster (in particular
    not the closing quote, a backslash or a control character).  This is what the scanner silently
    assumes of `textseg`; it is false for Unicode "Prepend" characters such as U+0600 (recorded finding). -/
def SafeAdv (adv : List Byte → Nat) : Prop :=
  ∀ (bs : List Byte), ∀ i, 1 ≤ i → i < adv bs → ∀ b, bs[i]? = some b → 0x80 ≤ b

end HclModel.Json
