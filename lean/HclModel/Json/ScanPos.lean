import HclModel.Json.Scan
import HclModel.Lex.Pos
/-!
Model of `json/scanner.go` WITH source positions: the same scanner as `HclModel.Json.scan` (token types and
bytes), carrying the running position `pos` (byte, line, column) exactly as the Go code updates it.

  * `skipWhitespace`: space byte+1,col+1; `\n` byte+1, col:=1, line+1; `\r` byte+1 only; `\t` byte+1, col+2
  * punctuation, every byte of a number or keyword: byte+1, col+1
  * `scanString`: opening quote, backslash, quote: byte+1, col+1; a control byte (< 32) ends the token;
    anything else: byte + (clamped grapheme-cluster advance), col+1
  * an invalid byte: the token's range is `start.Range(1, 1)` (byte+1, col+1) and the scanner stops with a
    synthetic EOF token at (byte+1, col+1).

`adv` is the grapheme-cluster advance (`textseg`), supplied by the harness; it is clamped exactly like in
`Scan.lean` (`clampAdv`).  Loops over the input are bounded by `fuel` exactly like in `Scan.lean`.
-/
namespace HclModel.Json
open HclModel.Pos (P)

/-- a scanner token with its range -/
structure PTok where
  ty : TT
  bytes : List Byte
  start : P
  stop : P
deriving Repr, DecidableEq, Inhabited

/-- `p.Pos.Byte++; p.Pos.Column++` -/
def step1 (p : P) : P := ⟨p.byte + 1, p.line, p.col + 1⟩

/-- `skipWhitespace`: the remaining buffer and the position reached -/
def skipWhitespaceP : List Byte → P → List Byte × P
  | [], p => ([], p)
  | b :: rest, p =>
    if b = 32 then skipWhitespaceP rest ⟨p.byte + 1, p.line, p.col + 1⟩
    else if b = 10 then skipWhitespaceP rest ⟨p.byte + 1, p.line + 1, 1⟩
    else if b = 13 then skipWhitespaceP rest ⟨p.byte + 1, p.line, p.col⟩
    else if b = 9 then skipWhitespaceP rest ⟨p.byte + 1, p.line, p.col + 2⟩
    else (b :: rest, p)

/-- `scanNumber`: (token bytes, remaining buffer, position reached) -/
def scanNumberP : List Byte → P → List Byte × List Byte × P
  | [], p => ([], [], p)
  | b :: rest, p =>
    if isNumberByte b then
      let r := scanNumberP rest (step1 p)
      (b :: r.1, r.2.1, r.2.2)
    else ([], b :: rest, p)

/-- `scanKeyword`: (token bytes, remaining buffer, position reached) -/
def scanKeywordP : List Byte → P → List Byte × List Byte × P
  | [], p => ([], [], p)
  | b :: rest, p =>
    if isKeywordByte b then
      let r := scanKeywordP rest (step1 p)
      (b :: r.1, r.2.1, r.2.2)
    else ([], b :: rest, p)

/-- the loop of `scanString` (after the opening quote): number of bytes consumed from `buf` and the position
    reached.  `fuel` bounds the loop (one unit per iteration; `buf.length + 1` is always enough). -/
def scanStringBodyP (adv : List Byte → Nat) : Nat → List Byte → Bool → P → Nat × P
  | 0, _, _, p => (0, p)
  | _, [], _, p => (0, p)
  | fuel+1, b :: rest, escaping, p =>
    if b = 92 then
      let r := scanStringBodyP adv fuel rest (!escaping) (step1 p)
      (1 + r.1, r.2)
    else if b = 34 then
      if !escaping then (1, step1 p)
      else
        let r := scanStringBodyP adv fuel rest false (step1 p)
        (1 + r.1, r.2)
    else if b < 32 then (0, p)
    else
      let a := max 1 (adv (b :: rest))
      let a := min a (rest.length + 1)
      let a := clampAdv a rest
      let r := scanStringBodyP adv fuel (rest.drop (a - 1)) false ⟨p.byte + a, p.line, p.col + 1⟩
      (a + r.1, r.2)

/-- `scanString` on a buffer headed by `"`: (token bytes, remaining buffer, position reached) -/
def scanStringP (adv : List Byte → Nat) (buf : List Byte) (p : P) : List Byte × List Byte × P :=
  let r := scanStringBodyP adv (buf.length + 1) buf.tail false (step1 p)
  let n := min (1 + r.1) buf.length
  (buf.take n, buf.drop n, r.2)

/-- the scanner loop: `p` is the position of `buf` in the whole input -/
def scanFromP (adv : List Byte → Nat) : Nat → List Byte → P → List PTok
  | 0, _, p => [⟨.eof, [], p, p⟩]
  | fuel+1, buf, p =>
    let w := skipWhitespaceP buf p
    match w.1 with
    | [] => [⟨.eof, [], w.2, w.2⟩]
    | b :: rest =>
      match punct b with
      | some ty => ⟨ty, [b], w.2, step1 w.2⟩ :: scanFromP adv fuel rest (step1 w.2)
      | none =>
        if b = 34 then
          let r := scanStringP adv (b :: rest) w.2
          ⟨.string, r.1, w.2, r.2.2⟩ :: scanFromP adv fuel r.2.1 r.2.2
        else if canStartNumber b then
          let r := scanNumberP (b :: rest) w.2
          ⟨.number, r.1, w.2, r.2.2⟩ :: scanFromP adv fuel r.2.1 r.2.2
        else if isAlpha b then
          let r := scanKeywordP (b :: rest) w.2
          ⟨.keyword, r.1, w.2, r.2.2⟩ :: scanFromP adv fuel r.2.1 r.2.2
        else
          [⟨.invalid, [b], w.2, step1 w.2⟩, ⟨.eof, [], step1 w.2, step1 w.2⟩]

/-- `scan(buf, start)` -/
def scanP (adv : List Byte → Nat) (buf : List Byte) (start : P) : List PTok :=
  scanFromP adv (buf.length + 1) buf start

/-! ### the independent recount (specification side) -/

/-- number of newline bytes in `pre` -/
def nlCount (pre : List Byte) : Nat := pre.count 10

/-- the column reached after the bytes `pre`, counting one column per byte, from column `startCol`:
    `startCol + |pre|` if `pre` holds no newline, else 1 + the number of bytes after the last newline -/
def colAt (startCol : Nat) (pre : List Byte) : Nat :=
  if 10 ∈ pre then 1 + (pre.reverse.takeWhile (fun b => b != 10)).length else startCol + pre.length

end HclModel.Json
