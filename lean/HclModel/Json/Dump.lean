import HclModel.Json.Parse
import HclModel.Sexp
/-! Canonical text of a JSON syntax tree, matching `json.VerifParseExpression` in the Go hook. -/
namespace HclModel.Json

/-- strip trailing decimal zeros of the mantissa while the exponent is negative -/
def normDec : Nat → Nat → Int → Nat × Int
  | 0, m, e => (m, e)
  | fuel+1, m, e => if e < 0 ∧ m % 10 = 0 ∧ m ≠ 0 then normDec fuel (m / 10) (e + 1) else (m, e)

/-- exact decimal text of `m × 10^e` in plain notation (like Go's big.Float.Text('f', -1) for exactly
    representable values) -/
def fmtDecimal (m e : Int) : String :=
  if m = 0 then "0" else
  let neg := m < 0
  let (a, e) := normDec (m.natAbs + 1) m.natAbs e
  let ds := toString a
  let body :=
    if e ≥ 0 then ds ++ String.ofList (List.replicate e.toNat '0')
    else
      let k := (-e).toNat
      if ds.length > k then
        String.ofList (ds.toList.take (ds.length - k)) ++ "." ++ String.ofList (ds.toList.drop (ds.length - k))
      else "0." ++ String.ofList (List.replicate (k - ds.length) '0') ++ ds
  if neg then "-" ++ body else body

mutual
def dump : Node → String
  | .obj attrs => "(obj" ++ dumpAttrs attrs ++ ")"
  | .arr vals => "(arr" ++ dumpList vals ++ ")"
  | .bool true => "true"
  | .bool false => "false"
  | .num m e => "(num " ++ fmtDecimal m e ++ ")"
  | .str s => "(str " ++ Sexp.bytesHex s ++ ")"
  | .null => "null"
def dumpAttrs : List (List Byte × Node) → String
  | [] => ""
  | (k, v) :: rest => " (" ++ Sexp.bytesHex k ++ " " ++ dump v ++ ")" ++ dumpAttrs rest
def dumpList : List Node → String
  | [] => ""
  | v :: rest => " " ++ dump v ++ dumpList rest
end

end HclModel.Json
