/-!
Model of `json/scanner.go`: the deliberately lax JSON scanner.  Bytes are `Nat` (< 256, guaranteed by the
harness).  The only external ingredient is grapheme-cluster segmentation (`textseg`), used by
`scanString` to advance over non-ASCII content: it is the parameter `adv` (length in bytes of the first
grapheme cluster of the remaining input; the harness supplies the real values).
-/
namespace HclModel.Json

abbrev Byte := Nat

inductive TT where
  | braceO | braceC | brackO | brackC | comma | colon | equals
  | keyword | string | number | eof | invalid
deriving Repr, DecidableEq, Inhabited

structure Token where
  ty : TT
  bytes : List Byte
  start : Nat        -- byte offset of the first byte
deriving Repr, DecidableEq, Inhabited

def Token.stop (t : Token) : Nat := t.start + t.bytes.length

def isWs (b : Byte) : Bool := b = 32 || b = 10 || b = 13 || b = 9

def isAlpha (b : Byte) : Bool := (97 ≤ b && b ≤ 122) || (65 ≤ b && b ≤ 90)

def isDigit (b : Byte) : Bool := 48 ≤ b && b ≤ 57

/-- `byteCanStartNumber` -/
def canStartNumber (b : Byte) : Bool := b = 45 || b = 43 || b = 46 || isDigit b

/-- bytes swallowed by `scanNumber` -/
def isNumberByte (b : Byte) : Bool := b = 45 || b = 43 || b = 46 || b = 101 || b = 69 || isDigit b

/-- bytes swallowed by `scanKeyword` -/
def isKeywordByte (b : Byte) : Bool := isAlpha b || b = 95

def punct (b : Byte) : Option TT :=
  if b = 123 then some .braceO else if b = 125 then some .braceC
  else if b = 91 then some .brackO else if b = 93 then some .brackC
  else if b = 44 then some .comma else if b = 58 then some .colon
  else if b = 61 then some .equals else none

/-- a cluster stops before a quote, a backslash or a control character (the bytes that matter to the
    scanner); `rest` are the bytes after the cluster's first byte -/
def clampAdv (a : Nat) (rest : List Byte) : Nat :=
  match (rest.take (a - 1)).findIdx? (fun c => c = 34 || c = 92 || c < 32) with
  | some j => j + 1
  | none => a

/-- `scanString` after the opening quote: returns the number of bytes consumed from `buf`.
    `fuel` bounds the loop (one unit per iteration; `buf.length + 1` is always enough). -/
def scanStringBody (adv : List Byte → Nat) : Nat → List Byte → Bool → Nat
  | 0, _, _ => 0
  | _, [], _ => 0
  | fuel+1, b :: rest, escaping =>
    if b = 92 then 1 + scanStringBody adv fuel rest (!escaping)
    else if b = 34 then
      if !escaping then 1 else 1 + scanStringBody adv fuel rest false
    else if b < 32 then 0
    else
      let a := max 1 (adv (b :: rest))
      let a := min a (rest.length + 1)
      let a := clampAdv a rest
      a + scanStringBody adv fuel (rest.drop (a - 1)) false

/-- length of the string token that starts at the `"` heading `buf` -/
def scanStringLen (adv : List Byte → Nat) (buf : List Byte) : Nat :=
  1 + scanStringBody adv (buf.length + 1) buf.tail false

/-- the scanner: `pos` is the byte offset of `buf` in the whole input -/
def scanFrom (adv : List Byte → Nat) : Nat → List Byte → Nat → List Token
  | 0, _, pos => [⟨.eof, [], pos⟩]
  | fuel+1, buf, pos =>
    let ws := (buf.takeWhile isWs).length
    let buf := buf.drop ws
    let pos := pos + ws
    match buf with
    | [] => [⟨.eof, [], pos⟩]
    | b :: rest =>
      match punct b with
      | some ty => ⟨ty, [b], pos⟩ :: scanFrom adv fuel rest (pos + 1)
      | none =>
        if b = 34 then
          let n := min (scanStringLen adv (b :: rest)) (rest.length + 1)
          ⟨.string, (b :: rest).take n, pos⟩ :: scanFrom adv fuel ((b :: rest).drop n) (pos + n)
        else if canStartNumber b then
          let n := ((b :: rest).takeWhile isNumberByte).length
          ⟨.number, (b :: rest).take n, pos⟩ :: scanFrom adv fuel ((b :: rest).drop n) (pos + n)
        else if isAlpha b then
          let n := ((b :: rest).takeWhile isKeywordByte).length
          ⟨.keyword, (b :: rest).take n, pos⟩ :: scanFrom adv fuel ((b :: rest).drop n) (pos + n)
        else
          [⟨.invalid, [b], pos⟩, ⟨.eof, [], pos + 1⟩]

def scan (adv : List Byte → Nat) (buf : List Byte) : List Token := scanFrom adv (buf.length + 1) buf 0

end HclModel.Json
