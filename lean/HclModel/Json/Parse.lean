import HclModel.Json.Scan
/-!
Model of `json/parser.go` restricted to what C13 observes: does parsing succeed without error
diagnostics, and which syntax tree results.  Error recovery (what is returned *besides* the errors) is not
modelled: an error is `none`.  The string and number validators that Go borrows from `encoding/json`
(`json.Unmarshal` into `string` / `json.Number`) are modelled by hand (`validString`, `validNumber`).
-/
namespace HclModel.Json

/-- syntax tree: numbers are exact decimals `m × 10^e`; strings are the unescaped UTF-8 bytes -/
inductive Node where
  | obj (attrs : List (List Byte × Node))
  | arr (vals : List Node)
  | bool (b : Bool)
  | num (m : Int) (e : Int)
  | str (s : List Byte)
  | null
deriving Repr, Inhabited

/-! ### number tokens -/

def digitsVal (ds : List Byte) : Nat := ds.foldl (fun acc d => acc * 10 + (d - 48)) 0

/-- split leading digits -/
def spanDigits (bs : List Byte) : List Byte × List Byte := (bs.takeWhile isDigit, bs.dropWhile isDigit)

/-- `-?(0|[1-9][0-9]*)(\.[0-9]+)?([eE][+-]?[0-9]+)?`, the whole token; result `(mantissa, exponent)` -/
def parseNumberBytes (bs : List Byte) : Option (Int × Int) :=
  let (neg, bs) := match bs with
    | 45 :: r => (true, r)
    | _ => (false, bs)
  let (ip, r1) := spanDigits bs
  if ip.isEmpty then none
  else if ip.length > 1 ∧ ip.head? = some 48 then none
  else
    let fracRes : Option (List Byte × List Byte) :=
      match r1 with
      | 46 :: r =>
        let (fp, r2) := spanDigits r
        if fp.isEmpty then none else some (fp, r2)
      | _ => some ([], r1)
    match fracRes with
    | none => none
    | some (fp, r2) =>
      let expRes : Option Int :=
        match r2 with
        | [] => some 0
        | c :: r =>
          if c = 101 ∨ c = 69 then
            let (eneg, r) := match r with
              | 45 :: r' => (true, r')
              | 43 :: r' => (false, r')
              | _ => (false, r)
            let (ep, r3) := spanDigits r
            if ep.isEmpty ∨ !r3.isEmpty then none
            else some (if eneg then - (digitsVal ep : Int) else (digitsVal ep : Int))
          else none
      match expRes with
      | none => none
      | some ex =>
        let m : Int := digitsVal (ip ++ fp)
        some (if neg then -m else m, ex - fp.length)

/-! ### string tokens -/

def hexDigit? (b : Byte) : Option Nat :=
  if isDigit b then some (b - 48)
  else if 97 ≤ b ∧ b ≤ 102 then some (b - 87)
  else if 65 ≤ b ∧ b ≤ 70 then some (b - 55)
  else none

def hex4? : List Byte → Option (Nat × List Byte)
  | a :: b :: c :: d :: rest => do
    let a ← hexDigit? a; let b ← hexDigit? b; let c ← hexDigit? c; let d ← hexDigit? d
    pure (((a * 16 + b) * 16 + c) * 16 + d, rest)
  | _ => none

def utf8Encode (cp : Nat) : List Byte :=
  if cp < 0x80 then [cp]
  else if cp < 0x800 then [0xC0 + cp / 64, 0x80 + cp % 64]
  else if cp < 0x10000 then [0xE0 + cp / 4096, 0x80 + cp / 64 % 64, 0x80 + cp % 64]
  else [0xF0 + cp / 262144, 0x80 + cp / 4096 % 64, 0x80 + cp / 64 % 64, 0x80 + cp % 64]

def replacementChar : List Byte := [0xEF, 0xBF, 0xBD]

def simpleEscape (b : Byte) : Option Byte :=
  if b = 34 then some 34 else if b = 92 then some 92 else if b = 47 then some 47
  else if b = 98 then some 8 else if b = 102 then some 12 else if b = 110 then some 10
  else if b = 114 then some 13 else if b = 116 then some 9 else none

/-- the content between the quotes: every byte ≥ 0x20, no bare quote, valid escapes; result = unescaped
    bytes (`\u` escapes as UTF-8, surrogate pairs combined, lone surrogates replaced by U+FFFD) -/
def unescape : Nat → List Byte → Option (List Byte)
  | 0, _ => none
  | _, [] => some []
  | fuel+1, b :: rest =>
    if b = 92 then
      match rest with
      | [] => none
      | 117 :: r =>
        match hex4? r with
        | none => none
        | some (cp, r') =>
          if 0xD800 ≤ cp ∧ cp < 0xDC00 then
            -- high surrogate: combine with a following `\uDC00..DFFF`
            match r' with
            | 92 :: 117 :: r'' =>
              match hex4? r'' with
              | some (lo, r''') =>
                if 0xDC00 ≤ lo ∧ lo < 0xE000 then
                  (utf8Encode (0x10000 + (cp - 0xD800) * 1024 + (lo - 0xDC00)) ++ ·) <$> unescape fuel r'''
                else (replacementChar ++ ·) <$> unescape fuel r'
              | none => (replacementChar ++ ·) <$> unescape fuel r'
            | _ => (replacementChar ++ ·) <$> unescape fuel r'
          else if 0xDC00 ≤ cp ∧ cp < 0xE000 then (replacementChar ++ ·) <$> unescape fuel r'
          else (utf8Encode cp ++ ·) <$> unescape fuel r'
      | e :: r =>
        match simpleEscape e with
        | some c => (c :: ·) <$> unescape fuel r
        | none => none
    else if b = 34 ∨ b < 32 then none
    else (b :: ·) <$> unescape fuel rest

/-- drop trailing JSON whitespace -/
def dropTrailingWs (bs : List Byte) : List Byte := (bs.reverse.dropWhile isWs).reverse

/-- a whole string token: `"` content `"`, possibly followed by whitespace: `json.Unmarshal` tolerates
    whitespace around the value, and a token can end in spaces when a grapheme cluster swallowed its
    closing quote (see `SafeAdv`) -/
def parseStringBytes (bs : List Byte) : Option (List Byte) :=
  match dropTrailingWs bs with
  | 34 :: rest =>
    match rest.getLast? with
    | some 34 => unescape (rest.length + 1) rest.dropLast
    | _ => none
  | _ => none

def kwTrue : List Byte := [116, 114, 117, 101]
def kwFalse : List Byte := [102, 97, 108, 115, 101]
def kwNull : List Byte := [110, 117, 108, 108]

/-! ### the recursive-descent parser (success path) -/

mutual
/-- `parseValue` -/
def parseValue : Nat → List Token → Option (Node × List Token)
  | 0, _ => none
  | fuel+1, toks =>
    match toks with
    | [] => none
    | t :: rest =>
      match t.ty with
      | .braceO =>
        match rest with
        | c :: rest' => if c.ty = .braceC then some (.obj [], rest') else
            (fun (p : List (List Byte × Node) × List Token) => (Node.obj p.1, p.2)) <$> parseMembers fuel rest
        | [] => none
      | .brackO =>
        match rest with
        | c :: rest' => if c.ty = .brackC then some (.arr [], rest') else
            (fun (p : List Node × List Token) => (Node.arr p.1, p.2)) <$> parseElems fuel rest
        | [] => none
      | .number => (fun (p : Int × Int) => (Node.num p.1 p.2, rest)) <$> parseNumberBytes t.bytes
      | .string => (fun s => (Node.str s, rest)) <$> parseStringBytes t.bytes
      | .keyword =>
        if t.bytes = kwTrue then some (.bool true, rest)
        else if t.bytes = kwFalse then some (.bool false, rest)
        else if t.bytes = kwNull then some (.null, rest)
        else none
      | _ => none
/-- one or more `name : value` members separated by commas, then `}` -/
def parseMembers : Nat → List Token → Option (List (List Byte × Node) × List Token)
  | 0, _ => none
  | fuel+1, toks =>
    match toks with
    | k :: colon :: rest =>
      if k.ty = .string ∧ colon.ty = .colon then
        match parseStringBytes k.bytes with
        | none => none
        | some name =>
          match parseValue fuel rest with
          | none => none
          | some (v, rest') =>
            match rest' with
            | sep :: rest'' =>
              if sep.ty = .braceC then some ([(name, v)], rest'')
              else if sep.ty = .comma then
                (fun (p : List (List Byte × Node) × List Token) => ((name, v) :: p.1, p.2)) <$> parseMembers fuel rest''
              else none
            | [] => none
      else none
    | _ => none
/-- one or more values separated by commas, then `]` -/
def parseElems : Nat → List Token → Option (List Node × List Token)
  | 0, _ => none
  | fuel+1, toks =>
    match parseValue fuel toks with
    | none => none
    | some (v, rest') =>
      match rest' with
      | sep :: rest'' =>
        if sep.ty = .brackC then some ([v], rest'')
        else if sep.ty = .comma then
          (fun (p : List Node × List Token) => (v :: p.1, p.2)) <$> parseElems fuel rest''
        else none
      | [] => none
end

/-- `parseExpression`: scan, parse one value, demand end of input.  `none` = error diagnostics. -/
def parseExpression (adv : List Byte → Nat) (buf : List Byte) : Option Node :=
  let toks := scan adv buf
  match parseValue (toks.length + 1) toks with
  | some (n, [t]) => if t.ty = .eof then some n else none
  | _ => none

/-- `json.Parse`: additionally the root must be an object or an array -/
def parseFile (adv : List Byte → Nat) (buf : List Byte) : Option Node :=
  match parseExpression adv buf with
  | some (.obj a) => some (.obj a)
  | some (.arr a) => some (.arr a)
  | _ => none

end HclModel.Json
