import HclModel.Value.Ops
import HclModel.Body.Native
/-!
Model of gohcl (`gohcl/encode.go`, `decode.go`, `schema.go`): encoding a tagged Go struct value into a body
and decoding a body into a struct value.

* Go types and values are described by `GTy`/`GVal` (attribute fields: what `gocty` maps to cty) and
  `STy`/`SVal` (structs with `attr`, `optional`, `label` and `block` fields; block fields of the four shapes
  `T`, `*T`, `[]T`, `[]*T`).  `remain`/`body` fields and fields of type `hcl.Expression`/`hcl.Attribute` are not
  decoded or encoded by value and are left out.
* A body is abstract here (`GBody`: attributes with their cty value, blocks in order): between `encode` and
  `decode` lie the writer (`hclwrite`, properties C09–C12), the parser (C02, C11) and the evaluation of
  literals (C01), whose combined effect on a value is `reparse` — a list comes back as a tuple, a map as an
  object, a typed null as the untyped null.
* `gocty.ToCtyValue` / `FromCtyValue` are `toCty` / `fromCty`.
-/
namespace HclModel.Gohcl
open HclModel.Body

/-- Go types of attribute fields -/
inductive GTy where
  | str | int | bool
  | slice (t : GTy)
  | map (t : GTy)            -- map[string]T
  | ptr (t : GTy)
deriving Repr, DecidableEq, Inhabited

/-- Go values of those types; `none` is the nil slice / map / pointer -/
inductive GVal where
  | str (s : String)
  | int (n : Int)
  | bool (b : Bool)
  | slice (xs : Option (List GVal))
  | map (kvs : Option (List (String × GVal)))      -- sorted by key, keys unique
  | ptr (v : Option GVal)
deriving Repr, Inhabited

/-- `gocty.ImpliedType` -/
def ctyTy : GTy → Ty
  | .str => .str
  | .int => .num
  | .bool => .bool
  | .slice t => .list (ctyTy t)
  | .map t => .map (ctyTy t)
  | .ptr t => ctyTy t

mutual
/-- `gocty.ToCtyValue v (ctyTy t)`; `none` = the value does not have the type -/
def toCty : GTy → GVal → Option Val
  | .str, .str s => some (.str Fl.none s)
  | .int, .int n => some (.num Fl.none n)
  | .bool, .bool b => some (.bool Fl.none b)
  | .slice t, .slice none => some (.null Fl.none (.list (ctyTy t)))
  | .slice t, .slice (some xs) => (toCtyList t xs).map fun vs => .list Fl.none (ctyTy t) vs
  | .map t, .map none => some (.null Fl.none (.map (ctyTy t)))
  | .map t, .map (some kvs) => (toCtyFields t kvs).map fun vs => .map Fl.none (ctyTy t) vs
  | .ptr t, .ptr none => some (.null Fl.none (ctyTy t))
  | .ptr t, .ptr (some v) => toCty t v
  | _, _ => none
def toCtyList : GTy → List GVal → Option (List Val)
  | _, [] => some []
  | t, x :: rest =>
    match toCty t x, toCtyList t rest with
    | some v, some vs => some (v :: vs)
    | _, _ => none
def toCtyFields : GTy → List (String × GVal) → Option (List (String × Val))
  | _, [] => some []
  | t, (k, x) :: rest =>
    match toCty t x, toCtyFields t rest with
    | some v, some vs => some ((k, v) :: vs)
    | _, _ => none
end

mutual
/-- `gocty.FromCtyValue v &target` for a target of type `t`; `none` = an error (a diagnostic) -/
def fromCty : GTy → Val → Option GVal
  | .str, .str _ s => some (.str s)
  -- `fromCtyNumberInt`: the number must be an integer in the range of the target (`int` = int64)
  | .int, .num _ q =>
    if q.den = 1 ∧ -9223372036854775808 ≤ q.num ∧ q.num ≤ 9223372036854775807 then some (.int q.num) else none
  | .bool, .bool _ b => some (.bool b)
  | .slice _, .null _ _ => some (.slice none)
  | .slice t, .list _ _ xs => (fromCtyList t xs).map fun vs => .slice (some vs)
  | .map _, .null _ _ => some (.map none)
  | .map t, .map _ _ kvs => (fromCtyFields t kvs).map fun vs => .map (some vs)
  -- a null resets only the LAST pointer level, and only when what it points to is not a list / map
  -- (`fromCtyPopulatePtr`): null into `*string` is the nil pointer, into `**string` a pointer to a nil pointer,
  -- into `*[]T` / `*map[string]T` a pointer to the nil collection
  | .ptr .str, .null _ _ => some (.ptr none)
  | .ptr .int, .null _ _ => some (.ptr none)
  | .ptr .bool, .null _ _ => some (.ptr none)
  | .ptr t, v => (fromCty t v).map fun g => .ptr (some g)
  | _, _ => none
def fromCtyList : GTy → List Val → Option (List GVal)
  | _, [] => some []
  | t, x :: rest =>
    match fromCty t x, fromCtyList t rest with
    | some v, some vs => some (v :: vs)
    | _, _ => none
def fromCtyFields : GTy → List (String × Val) → Option (List (String × GVal))
  | _, [] => some []
  | t, (k, x) :: rest =>
    match fromCty t x, fromCtyFields t rest with
    | some v, some vs => some ((k, v) :: vs)
    | _, _ => none
end

mutual
/-- what a literal value becomes when it is written to source text and evaluated again: `[…]` is a tuple,
    `{…}` an object, `null` the null of unknown type (flags: literals carry none) -/
def reparse : Val → Val
  | .null _ _ => .null Fl.none .dyn
  | .list _ _ xs => .tuple Fl.none (reparseList xs)
  | .tuple _ xs => .tuple Fl.none (reparseList xs)
  | .map _ _ kvs => .object Fl.none (reparseFields kvs)
  | .object _ kvs => .object Fl.none (reparseFields kvs)
  | v => v
def reparseList : List Val → List Val
  | [] => []
  | x :: rest => reparse x :: reparseList rest
def reparseFields : List (String × Val) → List (String × Val)
  | [] => []
  | (k, x) :: rest => (k, reparse x) :: reparseFields rest
end

/-- `DecodeExpression`: evaluate, convert to the implied type of the target, load into the target -/
def decodeExpr (t : GTy) (v : Val) : Option GVal :=
  match convert v (ctyTy t) with
  | .ok v' => fromCty t v'
  | .error _ => none

/-! ### structs -/

inductive Shape where
  | one | ptr | slice | slicePtr        -- T, *T, []T, []*T
deriving Repr, DecidableEq, Inhabited

mutual
inductive STy where
  | mk (fields : List Field)
inductive Field where
  | attr (name : String) (optional : Bool) (ty : GTy)
  | label (name : String)
  | block (type : String) (shape : Shape) (ty : STy)
end

instance : Inhabited STy := ⟨.mk []⟩
def STy.fields : STy → List Field | .mk f => f

mutual
inductive SVal where
  | mk (fields : List FVal)           -- one per field of the type, in order
inductive FVal where
  | attr (v : GVal)
  | label (s : String)
  | one (s : SVal)
  | ptr (s : Option SVal)
  | slice (xs : Option (List SVal))
  | slicePtr (xs : Option (List SVal))        -- no nil elements (the encoder skips them)
end

instance : Inhabited SVal := ⟨.mk []⟩
def SVal.fields : SVal → List FVal | .mk f => f

mutual
/-- the body between encoder and decoder -/
inductive GBody where
  | mk (attrs : List (String × Val)) (blocks : List GBlock)
inductive GBlock where
  | mk (type : String) (labels : List String) (body : GBody)
end

instance : Inhabited GBody := ⟨.mk [] []⟩
def GBody.attrs : GBody → List (String × Val) | .mk a _ => a
def GBody.blocks : GBody → List GBlock | .mk _ b => b
def GBlock.type : GBlock → String | .mk t _ _ => t
def GBlock.labels : GBlock → List String | .mk _ l _ => l
def GBlock.body : GBlock → GBody | .mk _ _ b => b

def labelNames : List Field → List String
  | [] => []
  | .label n :: rest => n :: labelNames rest
  | _ :: rest => labelNames rest

mutual
/-- `populateBody`: fields in declaration order; an attribute whose (dereferenced) value is a nil pointer is
    omitted; block fields append one block per struct; `none` = the encoder panics (ill-typed value) -/
def encodeFields : List Field → List FVal → Option (List (String × Val) × List GBlock)
  | [], [] => some ([], [])
  | .attr name _ ty :: fs, .attr v :: vs =>
    match encodeFields fs vs with
    | none => none
    | some (as, bs) =>
      match ty, v with
      | .ptr _, .ptr none => some (as, bs)                 -- nil pointer: no attribute
      | .ptr (.ptr _), .ptr (some (.ptr none)) => some (as, bs)   -- dereferenced once, still a nil pointer: skipped
      | .ptr t, .ptr (some x) => (toCty t x).map fun c => ((name, c) :: as, bs)
      | _, _ => (toCty ty v).map fun c => ((name, c) :: as, bs)
  | .label _ :: fs, .label _ :: vs => encodeFields fs vs
  | .block type shape sty :: fs, v :: vs =>
    match encodeFields fs vs with
    | none => none
    | some (as, bs) =>
      let here : Option (List GBlock) :=
        match shape, v with
        | .one, .one s => (encodeBlock type sty s).map ([·])
        | .ptr, .ptr none => some []
        | .ptr, .ptr (some s) => (encodeBlock type sty s).map ([·])
        | .slice, .slice none => some []
        | .slice, .slice (some xs) => encodeBlocks type sty xs
        | .slicePtr, .slicePtr none => some []
        | .slicePtr, .slicePtr (some xs) => encodeBlocks type sty xs
        | _, _ => none
      here.map fun h => (as, h ++ bs)
  | _, _ => none
/-- `EncodeAsBlock` -/
def encodeBlock (type : String) : STy → SVal → Option GBlock
  | .mk fields, .mk vals =>
    match encodeFields fields vals with
    | some (as, bs) => some (.mk type (labelVals fields vals) (.mk as bs))
    | none => none
def encodeBlocks (type : String) (sty : STy) : List SVal → Option (List GBlock)
  | [] => some []
  | s :: rest =>
    match encodeBlock type sty s, encodeBlocks type sty rest with
    | some b, some bs => some (b :: bs)
    | _, _ => none
/-- the values of the label fields, in order -/
def labelVals : List Field → List FVal → List String
  | .label _ :: fs, .label s :: vs => s :: labelVals fs vs
  | _ :: fs, _ :: vs => labelVals fs vs
  | _, _ => []
end

/-- `EncodeIntoBody` -/
def encodeBody (ty : STy) (v : SVal) : Option GBody :=
  (encodeFields ty.fields v.fields).map fun (as, bs) => .mk as bs

/-- `ImpliedBodySchema`: attributes sorted by name (required unless optional or of pointer type), block types
    sorted by name with the label names of the nested struct -/
def impliedSchema (ty : STy) : Schema :=
  let attrs := ty.fields.filterMap fun f => match f with
    | .attr n opt t => some (⟨n, !opt && !(match t with | .ptr _ => true | _ => false)⟩ : AttrSchema)
    | _ => none
  let blocks := ty.fields.filterMap fun f => match f with
    | .block t _ sty => some (⟨t, (labelNames sty.fields).length⟩ : BlockSchema)
    | _ => none
  ⟨(attrs.toArray.qsort (fun a b => a.name < b.name)).toList, (blocks.toArray.qsort (fun a b => a.type < b.type)).toList⟩

/-- the body as the native body the decoder calls `Content` on (attribute values already evaluated: what was
    written is a literal) -/
def GBody.native (b : GBody) : NBody Val GBlock :=
  { attrs := b.attrs, blocks := b.blocks.map fun blk => ⟨blk.type, blk.labels, blk⟩ }

/-- zero value of an attribute field that stays untouched by the decoder -/
def zeroOf : GTy → GVal
  | .str => .str ""
  | .int => .int 0
  | .bool => .bool false
  | .slice _ => .slice none
  | .map _ => .map none
  | .ptr _ => .ptr none

mutual
/-- `decodeBodyToStruct` into a fresh (zero) value: `Content` with the implied schema, then each attribute
    through `DecodeExpression` and each block field by its shape.  `none` = diagnostics with errors.
    `fuel` bounds the nesting depth. -/
def decodeBody : Nat → STy → GBody → Option SVal
  | 0, _, _ => none
  | fuel+1, ty, body =>
    let r := body.native.content (impliedSchema ty)
    if !r.2.isEmpty then none
    else (decodeFields fuel ty.fields r.1 []).map SVal.mk
/-- one field at a time; label fields are filled in by `decodeBlock` afterwards (here: placeholder) -/
def decodeFields : Nat → List Field → Content Val GBlock → List String → Option (List FVal)
  | _, [], _, _ => some []
  | fuel, .attr name _ ty :: fs, c, labels =>
    let here : Option FVal :=
      match findAttr name c.attrs with
      | none => some (.attr (zeroOf ty))
      | some v => (decodeExpr ty (reparse v)).map FVal.attr
    match here, decodeFields fuel fs c labels with
    | some h, some rest => some (h :: rest)
    | _, _ => none
  | fuel, .label _ :: fs, c, labels =>
    match decodeFields fuel fs c labels.tail with
    | some rest => some (.label (labels.headD "") :: rest)
    | none => none
  | fuel, .block type shape sty :: fs, c, labels =>
    let blocks := c.blocks.filter (·.type == type)
    let here : Option FVal :=
      match shape with
      | .one =>
        (match blocks with
         | [b] => (decodeBlock fuel sty b.body).map FVal.one
         | _ => none)                                     -- "Missing … block" / "Duplicate … block"
      | .ptr =>
        (match blocks with
         | [] => some (.ptr none)
         | [b] => (decodeBlock fuel sty b.body).map fun s => FVal.ptr (some s)
         | _ => none)
      | .slice =>
        (match blocks with
         | [] => some (.slice none)
         | _ => (decodeBlocks fuel sty (blocks.map (·.body))).map fun xs => FVal.slice (some xs))
      | .slicePtr =>
        (match blocks with
         | [] => some (.slicePtr none)
         | _ => (decodeBlocks fuel sty (blocks.map (·.body))).map fun xs => FVal.slicePtr (some xs))
    match here, decodeFields fuel fs c labels with
    | some h, some rest => some (h :: rest)
    | _, _ => none
/-- `decodeBlockToValue`: the body, then the labels into the label fields in order -/
def decodeBlock : Nat → STy → GBlock → Option SVal
  | 0, _, _ => none
  | fuel+1, ty, blk =>
    let r := blk.body.native.content (impliedSchema ty)
    if !r.2.isEmpty then none
    else (decodeFields fuel ty.fields r.1 blk.labels).map SVal.mk
def decodeBlocks : Nat → STy → List GBlock → Option (List SVal)
  | _, _, [] => some []
  | fuel, ty, b :: rest =>
    match decodeBlock fuel ty b, decodeBlocks fuel ty rest with
    | some s, some ss => some (s :: ss)
    | _, _ => none
end

/-! ### which values and types the round trip is about -/

mutual
/-- the value has the type; map keys sorted and unique; no nil inside a slice or map of pointers is required —
    `toCty` handles nil at any depth -/
def hasTy : GTy → GVal → Bool
  | .str, .str _ => true
  | .int, .int n => decide (-9223372036854775808 ≤ n ∧ n ≤ 9223372036854775807)     -- Go `int` (int64)
  | .bool, .bool _ => true
  | .slice _, .slice none => true
  | .slice t, .slice (some xs) => hasTyList t xs
  | .map _, .map none => true
  | .map t, .map (some kvs) => hasTyFields t kvs && sortedKeys (kvs.map (·.1))
  | .ptr _, .ptr none => true
  | .ptr t, .ptr (some v) => hasTy t v
  | _, _ => false
def hasTyList : GTy → List GVal → Bool
  | _, [] => true
  | t, x :: rest => hasTy t x && hasTyList t rest
def hasTyFields : GTy → List (String × GVal) → Bool
  | _, [] => true
  | t, (_, x) :: rest => hasTy t x && hasTyFields t rest
def sortedKeys : List String → Bool
  | [] => true
  | [_] => true
  | a :: b :: rest => a < b && sortedKeys (b :: rest)
end

mutual
/-- No pointer below the top of an attribute type.  gocty maps a nil pointer and a nil collection to the same
    null value, so a pointer to a collection inside a collection does not round-trip (`[]*[]string{nil}` comes
    back as a pointer to a nil slice), and neither does a pointer to a nil pointer at the top (`**T`: the
    encoder skips the attribute, the decoder leaves the outer pointer nil).  Pointers to scalars inside
    collections do round-trip (`[]*int` with a nil element: `[null, 3]` and back); they are left out of the
    theorems only to keep this condition simple. -/
def noInnerPtr : GTy → Bool
  | .slice t => noPtr t
  | .map t => noPtr t
  | .ptr t => noPtr t
  | _ => true
def noPtr : GTy → Bool
  | .slice t => noPtr t
  | .map t => noPtr t
  | .ptr _ => false
  | _ => true
end

mutual
/-- struct types the round trip is stated for: attribute names and block types unique across the fields,
    attribute types without inner pointers -/
def STy.wf : STy → Bool
  | .mk fields =>
    let names := fields.filterMap fun f => match f with
      | .attr n _ _ => some n | .block t _ _ => some t | .label _ => none
    names.eraseDups.length == names.length && fieldsWf fields
def fieldsWf : List Field → Bool
  | [] => true
  | .attr _ _ t :: rest => noInnerPtr t && fieldsWf rest
  | .label _ :: rest => fieldsWf rest
  | .block _ _ sty :: rest => sty.wf && fieldsWf rest
end

mutual
/-- struct values the round trip is stated for: every field has its type; a slice of blocks is nil when it is
    empty (the decoder leaves the field nil when there is no block); a nil slice / map / attribute collection
    is allowed everywhere -/
def SVal.ok : STy → SVal → Bool
  | .mk fields, .mk vals => fieldsOk fields vals
def fieldsOk : List Field → List FVal → Bool
  | [], [] => true
  | .attr _ _ t :: fs, .attr v :: vs => hasTy t v && fieldsOk fs vs
  | .label _ :: fs, .label _ :: vs => fieldsOk fs vs
  | .block _ .one sty :: fs, .one s :: vs => s.ok sty && fieldsOk fs vs
  | .block _ .ptr _ :: fs, .ptr none :: vs => fieldsOk fs vs
  | .block _ .ptr sty :: fs, .ptr (some s) :: vs => s.ok sty && fieldsOk fs vs
  | .block _ .slice _ :: fs, .slice none :: vs => fieldsOk fs vs
  | .block _ .slice sty :: fs, .slice (some xs) :: vs => !xs.isEmpty && allOk sty xs && fieldsOk fs vs
  | .block _ .slicePtr _ :: fs, .slicePtr none :: vs => fieldsOk fs vs
  | .block _ .slicePtr sty :: fs, .slicePtr (some xs) :: vs => !xs.isEmpty && allOk sty xs && fieldsOk fs vs
  | _, _ => false
def allOk : STy → List SVal → Bool
  | _, [] => true
  | sty, s :: rest => s.ok sty && allOk sty rest
end

mutual
def STy.depth : STy → Nat
  | .mk fields => 1 + fieldsDepth fields
def fieldsDepth : List Field → Nat
  | [] => 0
  | .block _ _ sty :: rest => max sty.depth (fieldsDepth rest)
  | _ :: rest => fieldsDepth rest
end

end HclModel.Gohcl
