/-!
C17: writes through the receiver in the methods of the types a parsed configuration is made of (syntax tree
nodes, bodies, traversals, dynblock wrappers, hcldec specs), regenerated from the Go AST on every check
(`HclModel/Gen/RecvWrites.lean`, translator `harness/lib/genwrites.go`).
-/
namespace HclModel.RecvWrites

structure Site where
  file : String
  type : String
  method : String
  field : String
  kind : String
  deriving Repr, DecidableEq

/-- (type, method, field) -/
abbrev Allowed := List (String × String × String)

def Site.key (s : Site) : String × String × String := (s.type, s.method, s.field)

def allAllowed (allowed : Allowed) (l : List Site) : Bool := l.all fun s => allowed.contains s.key

theorem allAllowed_iff (allowed : Allowed) (l : List Site) :
    allAllowed allowed l = true ↔ ∀ s ∈ l, s.key ∈ allowed := by
  simp [allAllowed, List.all_eq_true]

end HclModel.RecvWrites
