/-!
Model of the per-evaluation state that a splat expression keeps inside the shared syntax tree:
`AnonSymbolExpr.values : map[*hcl.EvalContext]cty.Value` with `setValue` / `clearValue` / `Value`
(hclsyntax/expression.go), each executed atomically under `valuesLock`.

Every goroutine evaluates with its own evaluation contexts (the keys); the Go scheduler picks an arbitrary
interleaving of the goroutines' operations.  What the model cannot exhibit: data races below the level of
these atomic operations (they are what the race detector in the direct oracle looks for).
-/
namespace HclModel.Conc

abbrev Key := Nat      -- identity of an EvalContext
abbrev V := Nat        -- a value (opaque)

inductive Op where
  | set (k : Key) (v : V)
  | clear (k : Key)
  | get (k : Key)
deriving Repr, DecidableEq, Inhabited

def Op.key : Op → Key
  | .set k _ | .clear k | .get k => k

abbrev Table := List (Key × V)     -- association list, latest binding first, at most one per key

def Table.lookup (t : Table) (k : Key) : Option V :=
  match t with
  | [] => none
  | (k', v) :: rest => if k' = k then some v else Table.lookup rest k

def Table.erase (t : Table) (k : Key) : Table := t.filter fun p => p.1 ≠ k

/-- one atomic operation: new table and, for `get`, the observed value (`none` = no entry, the Go code then
    returns `cty.DynamicVal`) -/
def step (t : Table) : Op → Table × Option (Option V)
  | .set k v => ((k, v) :: t.erase k, none)
  | .clear k => (t.erase k, none)
  | .get k => (t, some (t.lookup k))

/-- run a sequence of operations, collecting what every `get` observed -/
def run : Table → List Op → Table × List (Option V)
  | t, [] => (t, [])
  | t, op :: rest =>
    let (t', o) := step t op
    let (t'', os) := run t' rest
    (t'', match o with | some x => x :: os | none => os)

/-- what the `get`s on keys selected by `owns` observe while ALL operations of `ops` run on the shared table -/
def readsOf (owns : Key → Bool) : Table → List Op → List (Option V)
  | _, [] => []
  | t, op :: rest =>
    let (t', o) := step t op
    match o with
    | some x => if owns op.key then x :: readsOf owns t' rest else readsOf owns t' rest
    | none => readsOf owns t' rest

/-- the operations of one thread (those on its own keys) -/
def project (owns : Key → Bool) (ops : List Op) : List Op := ops.filter fun op => owns op.key

/-- `tr` is an interleaving of the per-thread programs `ps` (each thread's operations in program order) -/
inductive Interleaving : List (List Op) → List Op → Prop
  | nil (ps : List (List Op)) : (∀ p ∈ ps, p = []) → Interleaving ps []
  | step (ps : List (List Op)) (i : Nat) (op : Op) (rest : List Op) (tr : List Op) :
      ps[i]? = some (op :: rest) → Interleaving (ps.set i rest) tr → Interleaving ps (op :: tr)

/-- thread `i` uses only keys `k` with `owner k = i` -/
def OwnKeys (owner : Key → Nat) (ps : List (List Op)) : Prop :=
  ∀ i p, ps[i]? = some p → ∀ op ∈ p, owner op.key = i

end HclModel.Conc
