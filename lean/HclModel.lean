import HclModel.Sexp
import HclModel.Write.Format
