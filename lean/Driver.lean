import Driver.Main
