import Proofs.Format
