import Proofs.Format
import Proofs.Json
