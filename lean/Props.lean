import Props.C09
import Props.C13
