import Props.C09
