import HclModel.Sexp
import HclModel.Write.Loader
open HclModel

/-!
`BUILD <tokens> <root>` — correspondence of the loader model (HclModel/Write/Loader) with hclwrite/parser.go.

Wire format (S-expressions):

    tokens = ( start class  start class … )          flat list, token `i` (0-based) gets identity `i`
    class  = C  comment whose bytes end with "\n"     c  other comment
             n  newline    e  eof    i  identifier   m  number literal
             d  dot        o  "["    b  "]"          x  anything else
    root   = ( lo hi item… )                          the root body's SrcRange and its items in source order
    item   = ( a lo hi  nlo nhi  elo ehi  ( xlo xhi trav… ) )                              attribute
           | ( b lo hi  tlo thi  ( llo lhi … )  olo ohi  clo chi  ( blo bhi item… ) )     block
    trav   = ( lo hi step… )
    step   = ( n lo hi )   TraverseRoot / TraverseAttr
           | ( s lo hi ) | ( m lo hi ) | ( o lo hi )   TraverseIndex with a string / number / other key

Answer: `panic`, or the tree in the format of `hclwrite.VerifDumpTree` followed by ` | ` and the identities of
`Loader.flatten` separated by spaces.
-/
namespace OpBuild
open HclModel.Loader

def classOf : String → Option TT
  | "C" => some (.comment true)
  | "c" => some (.comment false)
  | "n" => some .newline
  | "e" => some .eof
  | "i" => some .ident
  | "m" => some .number
  | "d" => some .dot
  | "o" => some .obrack
  | "b" => some .cbrack
  | "x" => some .other
  | _ => none

def parseToks : List Sexp → Nat → Option (List Tok)
  | [], _ => some []
  | .atom s :: .atom c :: rest, i => do
    let start ← s.toNat?
    let ty ← classOf c
    let more ← parseToks rest (i + 1)
    pure ({ start := start, ty := ty, id := i } :: more)
  | _, _ => none

def rng? (a b : Sexp) : Option Rng := do pure ⟨← Sexp.nat? a, ← Sexp.nat? b⟩

def parseRngs : List Sexp → Option (List Rng)
  | [] => some []
  | a :: b :: rest => do pure ((← rng? a b) :: (← parseRngs rest))
  | _ => none

def parseStep : Sexp → Option StepAst
  | .list [.atom "n", a, b] => do pure (.name (← rng? a b))
  | .list [.atom "s", a, b] => do pure (.index (← rng? a b) .str)
  | .list [.atom "m", a, b] => do pure (.index (← rng? a b) .num)
  | .list [.atom "o", a, b] => do pure (.index (← rng? a b) .other)
  | _ => none

def parseTrav : Sexp → Option TravAst
  | .list (a :: b :: steps) => do pure ⟨← rng? a b, ← steps.mapM parseStep⟩
  | _ => none

def parseExpr : Sexp → Option ExprAst
  | .list (a :: b :: travs) => do pure ⟨← rng? a b, ← travs.mapM parseTrav⟩
  | _ => none

partial def parseItem : Sexp → Option ItemAst
  | .list [.atom "a", lo, hi, nlo, nhi, elo, ehi, ex] => do
    pure (.attr (← rng? lo hi) (← rng? nlo nhi) (← rng? elo ehi) (← parseExpr ex))
  | .list [.atom "b", lo, hi, tlo, thi, .list labels, olo, ohi, clo, chi, .list (blo :: bhi :: items)] => do
    pure (.block (← rng? lo hi) (← rng? tlo thi) (← parseRngs labels) (← rng? olo ohi) (← rng? clo chi)
      (← rng? blo bhi) (← items.mapM parseItem))
  | _ => none

partial def sexpSize : Sexp → Nat
  | .atom _ => 1
  | .list xs => xs.foldl (fun acc x => acc + sexpSize x) 1

def flush (pending : Nat) : String :=
  if pending > 0 then " " ++ toString pending else ""

/-- the children of a node as `VerifDumpTree` prints them: adjacent leaves are one run, printed as its
    length; empty runs are not printed.  `pending` is the length of the run being accumulated. -/
partial def dumpKids (kids : List Tree) (pending : Nat) : String :=
  match kids with
  | [] => flush pending
  | .toks l :: rest => dumpKids rest (pending + l.length)
  | .node tag ks :: rest => flush pending ++ " (" ++ tag ++ dumpKids ks 0 ++ ")" ++ dumpKids rest 0

def dumpTree : Tree → String
  | .toks l => toString l.length
  | .node tag ks => "(" ++ tag ++ dumpKids ks 0 ++ ")"

end OpBuild

/-- `BUILD <args>`: see the module comment for the wire format -/
def buildLine (args : String) : String :=
  open HclModel.Loader in
  match Sexp.parseMany args with
  | some [.list toks, .list (lo :: hi :: items)] =>
    match OpBuild.parseToks toks 0, OpBuild.rng? lo hi, items.mapM OpBuild.parseItem with
    | some ts, some rng, some its =>
      let fuel := ts.length + 3 * (items.foldl (fun acc x => acc + OpBuild.sexpSize x) 0) + 10
      match buildFile fuel rng its ts with
      | none => "panic"
      | some (tree, _) =>
        OpBuild.dumpTree tree ++ " | " ++ " ".intercalate ((flatten tree).map fun t => toString t.id)
    | _, _, _ => "bad-op"
  | _ => "bad-op"
