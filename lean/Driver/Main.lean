import HclModel
import HclModel.Expr.FreeVars
import HclModel.Conc.SymbolTable
import HclModel.Write.Nodes
import HclModel.Write.StringLit
import HclModel.Lex.Pos
import HclModel.Lex.RangeScan
import HclModel.Json.ScanPos
import HclModel.Syntax.TypeExpr
import Driver.OpDec
import Driver.OpBuild
import Driver.OpBody
import Driver.OpMerged
import Driver.OpTextW
import Driver.OpParseB
import Driver.OpExpand
import Driver.OpJBody
import Driver.OpGohcl
import Driver.OpParseX
import Driver.OpGenV
import Driver.OpTmpl
import Driver.OpTrav
open HclModel

structure St where
  fmtRules : Format.Rules := { spaceAfter := fun _ _ _ _ => true, bracket := fun _ => 0 }

def splitNats (s : String) (sep : Char) : Option (List Nat) :=
  (s.splitOn (String.singleton sep)).mapM (·.toNat?)

def splitInts (s : String) (sep : Char) : Option (List Int) :=
  (s.splitOn (String.singleton sep)).mapM (·.toInt?)

/-- `RULES <type codes ,> <bits> <bracket deltas ,>`: bit index ((s*2+isIn)*n+b)*n+a -/
def parseRules (tys bits brs : String) : Option Format.Rules := do
  let tys ← splitNats tys ','
  let brs ← splitInts brs ','
  let n := tys.length
  let arr := bits.toUTF8
  if arr.size ≠ n * 2 * n * n ∨ brs.length ≠ n then none else
  let tysA := tys.toArray
  let brsA := brs.toArray
  let idx (t : Nat) : Nat := (tysA.findIdx? (· == t)).getD n
  pure {
    spaceAfter := fun s isIn b a =>
      let si := idx s; let bi := idx b; let ai := idx a
      if si < n ∧ bi < n ∧ ai < n then
        arr.get! (((si * 2 + (if isIn then 1 else 0)) * n + bi) * n + ai) == '1'.toNat.toUInt8
      else true
    bracket := fun t => brsA.getD (idx t) 0 }

def parseTok (s : String) : Option Format.Tok :=
  match s.splitOn ":" with
  | [ty, isIn, nl, w, sp] => do
    pure { ty := ← ty.toNat?, isIn := isIn == "1", nl := nl == "1", width := ← w.toNat?, sp := ← sp.toNat? }
  | _ => none

partial def ctyOfSexp : Sexp → Option TypeExpr.CTy
  | .atom "string" => some .str
  | .atom "number" => some .num
  | .atom "bool" => some .bool
  | .atom "dyn" => some .any
  | .list [.atom "list", t] => TypeExpr.CTy.list <$> ctyOfSexp t
  | .list [.atom "set", t] => TypeExpr.CTy.set <$> ctyOfSexp t
  | .list [.atom "map", t] => TypeExpr.CTy.map <$> ctyOfSexp t
  | .list (.atom "tuple" :: ts) => TypeExpr.CTy.tuple <$> ts.mapM ctyOfSexp
  | .list (.atom "object" :: fs) => TypeExpr.CTy.object <$> fs.mapM fun f =>
      match f with
      | .list [.atom k, t] => do pure (← hexString? k, ← ctyOfSexp t)
      | _ => none
  | _ => none

def tokText : TypeExpr.Tok → String
  | .ident s => s | .lparen => "(" | .rparen => ")" | .lbrack => "[" | .rbrack => "]"
  | .lbrace => "{" | .rbrace => "}" | .comma => "," | .eq => "="

/-- stable short names of the JSON scanner's token types (`JSONSCANP`) -/
def ttName : Json.TT → String
  | .braceO => "braceO" | .braceC => "braceC" | .brackO => "brackO" | .brackC => "brackC"
  | .comma => "comma" | .colon => "colon" | .equals => "equals"
  | .keyword => "keyword" | .string => "string" | .number => "number" | .eof => "eof" | .invalid => "invalid"

def handle (st : St) (line : String) : St × String :=
  if line.startsWith "DEC " then (st, decLine (line.drop 4).toString)
  else if line.startsWith "BUILD " then (st, buildLine (line.drop 6).toString)
  else if line.startsWith "BODY " then (st, bodyLine (line.drop 5).toString)
  else if line.startsWith "MERGE " then (st, mergedLine (line.drop 6).toString)
  else if line.startsWith "TEXTW " then (st, textwLine (line.drop 6).toString)
  else if line.startsWith "PARSEB " then (st, parsebLine (line.drop 7).toString)
  else if line.startsWith "EXPAND " then (st, expandLine (line.drop 7).toString)
  else if line.startsWith "JBODY " then (st, jbodyLine (line.drop 6).toString)
  else if line.startsWith "GOHCL " then (st, gohclLine (line.drop 6).toString)
  else if line.startsWith "TRAV " then (st, travLine (line.drop 5).toString)
  else if line.startsWith "TMPL " then (st, tmplLine (line.drop 5).toString)
  else if line.startsWith "GENV " then (st, genvLine (line.drop 5).toString)
  else if line.startsWith "PARSEG " then (st, parsegLine (line.drop 7).toString)
  else if line.startsWith "PARSEX " then (st, parsexLine (line.drop 7).toString)
  else if line.startsWith "EVAL " then
    match Sexp.parseMany (line.drop 5).toString with
    | some [e, env] => (st, evalLine e env)
    | _ => (st, "bad-op")
  else if line.startsWith "NI " then
    match Sexp.parseMany (line.drop 3).toString with
    | some [e, a, b] => (st, niLine e a b)
    | _ => (st, "bad-op")
  else if line.startsWith "CONC " then
    match Sexp.parseMany (line.drop 5).toString with
    | some [e, a, b] => (st, concLine e a b)
    | _ => (st, "bad-op")
  else if line.startsWith "TYPE " then
    -- TYPE <type>  →  the tokens of TypeString, and whether reading them back gives the same type
    match (Sexp.parse (line.drop 5).toString).bind ctyOfSexp with
    | some ty =>
      let toks := TypeExpr.typeString ty
      let back := match TypeExpr.parseType toks with
        | some ty' => if (TypeExpr.typeString ty') == toks then "same" else "different"
        | none => "unparseable"
      (st, " ".intercalate (toks.map tokText) ++ " | " ++ back)
    | none => (st, "unsupported-input")
  else if line.startsWith "VARS " then
    match Sexp.parse (line.drop 5).toString with
    | some e =>
      match exprOfSexp e with
      | some ex =>
        let names := ((fv ex).filter fun n => !n.startsWith "%").eraseDups
        (st, " ".intercalate ((names.toArray.qsort (· < ·)).toList.map stringHex))
      | none => (st, "unsupported-input")
    | none => (st, "bad-op")
  else
  match line.splitOn " " with
  | "ECHO" :: rest => (st, " ".intercalate rest)
  | ["RULES", tys, bits, brs] =>
    match parseRules tys bits brs with
    | some r => ({ st with fmtRules := r }, "ok")
    | none => (st, "bad-rules")
  | "FMT" :: toks =>
    match (toks.filter (· ≠ "")).mapM parseTok with
    | some ts => (st, " ".intercalate ((Format.format st.fmtRules ts).map fun t => toString t.sp))
    | none => (st, "bad-op")
  | ["JSON", hex, advs] =>
    -- JSON <hex bytes> <cluster advance per byte offset, comma separated | ->
    match Sexp.hexBytes hex, (if advs == "-" then some [] else splitNats advs ',') with
    | some bs, some tbl =>
      let arr := tbl.toArray
      let n := bs.length
      let adv : List Nat → Nat := fun rest => arr.getD (n - rest.length) 1
      match Json.parseExpression adv bs with
      | some node => (st, "acc " ++ Json.dump node)
      | none => (st, "rej")
    | _, _ => (st, "bad-op")
  | ["STRESC", cps] =>
    -- STRESC <cp>:<isPrint 0|1>,...  →  escaped code points (hclwrite.escapeQuotedStringLit)
    let items : Option (List (Nat × Bool)) := (if cps == "-" then some [] else (cps.splitOn ",").mapM fun it =>
      match it.splitOn ":" with
      | [c, f] => do pure (← c.toNat?, f == "1")
      | _ => none)
    match items with
    | some l =>
      let chars := l.map fun p => Char.ofNat p.1
      let printable : Char → Bool := fun c => (l.find? fun p => p.1 == c.toNat).map (·.2) |>.getD true
      let out := StringLit.escape printable chars
      (st, if out.isEmpty then "-" else ",".intercalate (out.map fun c => toString c.toNat))
    | none => (st, "bad-op")
  | ["STRPARSE", cps] =>
    -- STRPARSE <cp>,...  →  what the characters between the quotes denote, or "none"
    match (if cps == "-" then some [] else (cps.splitOn ",").mapM (·.toNat?)) with
    | some l =>
      (match StringLit.parseQuoted (l.map Char.ofNat) with
       | some r => (st, if r.isEmpty then "-" else ",".intercalate (r.map fun c => toString c.toNat))
       | none => (st, "none"))
    | none => (st, "bad-op")
  | "POS" :: startB :: startL :: startC :: segs =>
    -- POS <byte> <line> <col> t<ty>:<len>.<nl>,<len>.<nl>... | g<n> ...  →  ty:sb.sl.sc-eb.el.ec ...
    let parseSeg (x : String) : Option Pos.Seg :=
      if x.startsWith "g" then (x.drop 1).toString.toNat?.map Pos.Seg.gap
      else if x.startsWith "t" then
        match ((x.drop 1).toString).splitOn ":" with
        | [ty, cls] => do
          let ty ← ty.toNat?
          let cl ← (if cls == "" then some [] else (cls.splitOn ",").mapM fun c =>
            match c.splitOn "." with
            | [len, nl] => do pure (⟨← len.toNat?, nl == "1"⟩ : Pos.Cl)
            | _ => none)
          pure (Pos.Seg.tok ty cl)
        | _ => none
      else none
    match startB.toNat?, startL.toNat?, startC.toNat?, (segs.filter (· ≠ "")).mapM parseSeg with
    | some b, some l, some c, some sg =>
      let rs := Pos.emitAll ⟨b, l, c⟩ 0 sg
      (st, " ".intercalate (rs.map fun r => s!"{r.ty}:{r.start.byte}.{r.start.line}.{r.start.col}-{r.stop.byte}.{r.stop.line}.{r.stop.col}"))
    | _, _, _, _ => (st, "bad-op")
  | "RSCAN" :: startB :: startL :: startC :: wins =>
    -- RSCAN <byte> <line> <col> w<tokLen>:<len>.<nl>,<len>.<nl>... ...  →  sb.sl.sc-eb.el.ec ... (hcl.RangeScanner)
    let parseWin (x : String) : Option Pos.Win :=
      if x.startsWith "w" then
        match ((x.drop 1).toString).splitOn ":" with
        | [tl, cls] => do
          let tl ← tl.toNat?
          let cl ← (if cls == "" then some [] else (cls.splitOn ",").mapM fun c =>
            match c.splitOn "." with
            | [len, nl] => do pure (⟨← len.toNat?, nl == "1"⟩ : Pos.Cl)
            | _ => none)
          pure ({ cls := cl, tokLen := tl } : Pos.Win)
        | _ => none
      else none
    match startB.toNat?, startL.toNat?, startC.toNat?, (wins.filter (· ≠ "")).mapM parseWin with
    | some b, some l, some c, some ws =>
      let rs := Pos.scanAll ⟨b, l, c⟩ ws
      (st, if rs.isEmpty then "-" else " ".intercalate (rs.map fun r => s!"{r.start.byte}.{r.start.line}.{r.start.col}-{r.stop.byte}.{r.stop.line}.{r.stop.col}"))
    | _, _, _, _ => (st, "bad-op")
  | "WOP" :: ops =>
    -- WOP set:<name>:<expr> | rm:<name> | ren:<src>:<dst> | blk:<type>:<l1,l2|->:<id> | rmb:<id> | nl ...
    let parsed : Option (List Nodes.Op) := (ops.filter (· ≠ "")).mapM fun o =>
      match o.splitOn ":" with
      | ["set", n, e] => do pure (Nodes.Op.setAttr n (← e.toNat?))
      | ["rm", n] => some (Nodes.Op.removeAttr n)
      | ["ren", a, b] => some (Nodes.Op.renameAttr a b)
      | ["blk", t, ls, id] => do pure (Nodes.Op.appendBlock t (if ls == "-" then [] else ls.splitOn ",") (← id.toNat?))
      | ["rmb", id] => do pure (Nodes.Op.removeBlock (← id.toNat?))
      | ["nl"] => some Nodes.Op.appendNewline
      | _ => none
    match parsed with
    | some os =>
      let items := Nodes.abs (Nodes.runOps Nodes.St.init os)
      (st, " ".intercalate (items.map fun i => match i with
        | .attr n e => s!"a.{n}.{e}"
        | .block t ls _ => s!"b.{t}." ++ (if ls.isEmpty then "-" else ",".intercalate ls)))
    | none => (st, "bad-op")
  | "SYMTAB" :: ops =>
    -- SYMTAB s:<key>:<val> | c:<key> | g:<key> ...  →  observed gets ("-" = no entry) and the final table size
    let parsed : Option (List Conc.Op) := (ops.filter (· ≠ "")).mapM fun o =>
      match o.splitOn ":" with
      | ["s", k, v] => do pure (Conc.Op.set (← k.toNat?) (← v.toNat?))
      | ["c", k] => do pure (Conc.Op.clear (← k.toNat?))
      | ["g", k] => do pure (Conc.Op.get (← k.toNat?))
      | _ => none
    match parsed with
    | some os =>
      let (t, reads) := Conc.run [] os
      (st, " ".intercalate (reads.map fun r => match r with | some v => toString v | none => "-") ++ " | " ++ toString t.length)
    | none => (st, "bad-op")
  | ["JSONACC", hex, advs] =>
    -- acceptance only (no tree dump: plain decimal expansion of huge exponents is not printable)
    match Sexp.hexBytes hex, (if advs == "-" then some [] else splitNats advs ',') with
    | some bs, some tbl =>
      let arr := tbl.toArray
      let n := bs.length
      let adv : List Nat → Nat := fun rest => arr.getD (n - rest.length) 1
      match Json.parseExpression adv bs with
      | some _ => (st, "acc")
      | none => (st, "rej")
    | _, _ => (st, "bad-op")
  | ["JSONSCAN", hex, advs] =>
    match Sexp.hexBytes hex, (if advs == "-" then some [] else splitNats advs ',') with
    | some bs, some tbl =>
      let arr := tbl.toArray
      let n := bs.length
      let adv : List Nat → Nat := fun rest => arr.getD (n - rest.length) 1
      (st, " ".intercalate ((Json.scan adv bs).map fun t => s!"{repr t.ty}:{t.start}:{t.bytes.length}"))
    | _, _ => (st, "bad-op")
  | ["JSONSCANP", startB, startL, startC, hex, advs] =>
    -- JSONSCANP <byte> <line> <col> <hex bytes | -> <cluster advance per byte offset , | ->
    --   →  <ty>:<sb>.<sl>.<sc>-<eb>.<el>.<ec> ...   (json/scanner.go with positions, HclModel/Json/ScanPos)
    match startB.toNat?, startL.toNat?, startC.toNat?, Sexp.hexBytes hex,
        (if advs == "-" then some [] else splitNats advs ',') with
    | some sb, some sl, some sc, some bs, some tbl =>
      let arr := tbl.toArray
      let n := bs.length
      let adv : List Nat → Nat := fun rest => arr.getD (n - rest.length) 1
      (st, " ".intercalate ((Json.scanP adv bs ⟨sb, sl, sc⟩).map fun t =>
        s!"{ttName t.ty}:{t.start.byte}.{t.start.line}.{t.start.col}-{t.stop.byte}.{t.stop.line}.{t.stop.col}"))
    | _, _, _, _, _ => (st, "bad-op")
  | _ => (st, "bad-op")

partial def loop (h : IO.FS.Stream) (out : IO.FS.Stream) (st : St) : IO Unit := do
  let line ← h.getLine
  if line.isEmpty then return ()
  let l := line.trimAsciiEnd.toString
  let (st', o) := handle st l
  out.putStrLn o
  out.flush
  loop h out st'

def main : IO Unit := do loop (← IO.getStdin) (← IO.getStdout) {}
