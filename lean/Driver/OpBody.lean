import HclModel.Body.Native
open HclModel

namespace OpBody
open HclModel.Body

def splitList (s : String) (sep : String) : List String :=
  if s == "-" || s == "" then [] else s.splitOn sep

/-- `a!,b` : attribute schemas (`!` = required) -/
def parseAttrSchemas (s : String) : List AttrSchema :=
  (splitList s ",").map fun a =>
    if a.endsWith "!" then ⟨(a.dropEnd 1).toString, true⟩ else ⟨a, false⟩

/-- `blk.1,svc.0` : block schemas with their label count -/
def parseBlockSchemas (s : String) : Option (List BlockSchema) :=
  (splitList s ",").mapM fun b =>
    match b.splitOn "." with
    | [t, n] => do pure ⟨t, ← n.toNat?⟩
    | _ => none

def errStr : ErrKind → String
  | .missingRequired n => "mr." ++ n
  | .extraneousLabel t => "el." ++ t
  | .missingLabel t => "ml." ++ t
  | .unsupportedArgument n => "ua." ++ n
  | .unsupportedBlock t => "ub." ++ t

def sorted (l : List String) : List String := (l.toArray.qsort (· < ·)).toList

def showList (l : List String) : String := if l.isEmpty then "-" else ",".intercalate l

def showRes (c : Content Nat Nat) (errs : List ErrKind) : String :=
  "A=" ++ showList (sorted (c.attrs.map fun p => p.1 ++ ":" ++ toString p.2)) ++
  ";B=" ++ showList (c.blocks.map fun b => toString b.body) ++
  ";E=" ++ showList (sorted (errs.map errStr))

/-- run the operations on the body, each `P/…` on what the previous one left -/
def runOps : NBody Nat Nat → List String → Option (List String)
  | _, [] => some []
  | b, op :: rest =>
    match op.splitOn "/" with
    | [k, as, bs] =>
      match parseBlockSchemas bs with
      | none => none
      | some bss =>
        let s : Schema := ⟨parseAttrSchemas as, bss⟩
        if k == "P" then
          let (c, remain, errs) := b.partialContent s
          (runOps remain rest).map (showRes c errs :: ·)
        else if k == "C" then
          let (c, errs) := b.content s
          (runOps b rest).map (showRes c errs :: ·)
        else none
    | _ => none

end OpBody

/-- `BODY <attr names ,|-> <blocks type:l1:l2 ,|-> <op> …` with op = `P/<attrs>/<blocks>` (PartialContent, the
    next op works on the remaining body) or `C/<attrs>/<blocks>` (Content).  Attribute `i` carries payload `i`,
    block `j` payload `j` (positions in the lists given). -/
def bodyLine (args : String) : String :=
  match (args.splitOn " ").filter (· ≠ "") with
  | attrs :: blocks :: ops =>
    let as := (OpBody.splitList attrs ",").zipIdx
    let bs := (OpBody.splitList blocks ",").zipIdx.map fun (b, i) =>
      match b.splitOn ":" with
      | t :: ls => (⟨t, ls, i⟩ : Body.Block Nat)
      | [] => ⟨"", [], i⟩
    let body : Body.NBody Nat Nat := { attrs := as, blocks := bs }
    match OpBody.runOps body ops with
    | some outs => " | ".intercalate outs
    | none => "bad-op"
  | _ => "bad-op"
