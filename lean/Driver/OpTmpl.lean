import HclModel.Syntax.Template
open HclModel HclModel.Template

namespace OpTmpl

/-- Go's `unicode.IsSpace` -/
def goIsSpace (c : Char) : Bool :=
  let n := c.toNat
  (9 ≤ n && n ≤ 13) || n == 32 || n == 0x85 || n == 0xA0 || n == 0x1680 || (0x2000 ≤ n && n ≤ 0x200A) ||
  n == 0x2028 || n == 0x2029 || n == 0x202F || n == 0x205F || n == 0x3000

def cpsOf (s : String) : Option (List Char) :=
  if s == "" then some [] else (s.splitOn ".").mapM fun x => Char.ofNat <$> x.toNat?

def cpsStr (cs : List Char) : String := ".".intercalate (cs.map fun c => toString c.toNat)

def readRaw (w : String) : Option Raw :=
  if w.startsWith "L" then Raw.lit <$> cpsOf (w.drop 1).toString
  else if w.startsWith "I" || w.startsWith "C" then
    let k := if w.startsWith "I" then Kind.interp else Kind.ctrl
    match ((w.drop 1).toString).splitOn ":" with
    | [id, fl] => do
      let id ← id.toNat?
      pure (Raw.seq k id (fl == "10" || fl == "11") (fl == "01" || fl == "11"))
    | _ => none
  else none

def showPart : Part → String
  | .lit s => "L" ++ cpsStr s
  | .seq .interp id => s!"I{id}"
  | .seq .ctrl id => s!"C{id}"

end OpTmpl

/-- `TMPL <flush 0|1> <raw> …` with raws `L<code points, dot separated>`, `I<id>:<lstrip><rstrip>`, `C<id>:<lstrip><rstrip>`
    →  the template tokens after strip markers, flush processing and melding: `L<cps>` / `I<id>` / `C<id>` -/
def tmplLine (args : String) : String :=
  match (args.splitOn " ").filter (· ≠ "") with
  | fl :: ws =>
    match ws.mapM OpTmpl.readRaw with
    | some raws =>
      let ps := process OpTmpl.goIsSpace (fl == "1") raws
      if ps.isEmpty then "-" else " ".intercalate (ps.map OpTmpl.showPart)
    | none => "bad-op"
  | _ => "bad-op"
