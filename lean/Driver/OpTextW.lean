import HclModel.Diag.TextWriter
import HclModel.Expr.Codec
open HclModel

namespace OpTextW
open HclModel.TextW

def stepOfSexp : Sexp → Option Step
  | .list [.atom "a", .atom n] => Step.attr <$> hexString? n
  | .list [.atom "i", k] => Step.index <$> valOfSexp Fl.none k
  | _ => none

def travOfSexp : Sexp → Option Trav
  | .list (.atom r :: steps) => do pure ⟨← hexString? r, ← steps.mapM stepOfSexp⟩
  | _ => none

/-- a context: a scope as for `EVAL`, or the atom `nil` (`Variables == nil`) -/
def ctxOfSexp : Sexp → Option Env
  | .atom "nil" => some []
  | s => envOfSexp s

/-- the token for a shown value: `<kind>:<content>` -/
def valueTok : Val → String
  | .str _ s => "str:" ++ stringHex s
  | .num _ q => "num:" ++ ratStr q
  | .bool _ b => "bool:" ++ toString b
  | .list .. | .map .. | .tuple .. => "coll:-"
  | .object _ [] => "obj0:-"
  | .object _ [(k, _)] => "obj1:" ++ stringHex k
  | .object .. => "objN:-"
  | .unk .. | .null .. => "none:-"          -- not reached: filtered by the switch

def stmtTok (ctxs : List Env) (t : Trav) : String :=
  if travUnsupported ctxs t then "unsupported"
  else match traverseAbs ctxs t with
    | none => "skip"
    | some v =>
      match shownOf t v with
      | .skip => "skip"
      | .null _ => "null"
      | .text _ => "show:" ++ valueTok v

end OpTextW

/-- `TEXTW (<ctx> …) (<trav> …)`: the context chain, innermost first, each `<ctx>` a scope s-expression as for
    `EVAL` (`((<hex name> <value>) …)`) or the atom `nil` for a context with `Variables == nil`; a traversal is
    `(<hex root name> <step> …)` with steps `(a <hex attribute name>)` and `(i <key value>)` (values in the
    wire format of `valOfSexp`).  Answer: one token per traversal, in order, separated by blanks:
    `skip` | `null` | `unsupported` |
    `show:<kind>:<content>` with kind/content `str:<hex>`, `num:<p>` or `num:<p>/<q>`, `bool:true|false`,
    `coll:-`, `obj0:-`, `obj1:<hex of the single attribute's name>`, `objN:-`;
    then ` | tainted=<n>`: the number of ghost-tainted fragments (index keys included) over all statements
    (`Props/C19.lean`, `textwriter_clean`: 0 for scopes and keys as they come over the wire). -/
def textwLine (args : String) : String :=
  match Sexp.parseMany args with
  | some [.list cs, .list ts] =>
    match cs.mapM OpTextW.ctxOfSexp, ts.mapM OpTextW.travOfSexp with
    | some ctxs, some travs =>
      let toks := travs.map (OpTextW.stmtTok ctxs)
      let frags := (TextW.stmts ctxs travs).flatMap fun p => p.2.frags
      let tainted := frags.filter fun f => (Val.flagsDeep f).g
      " ".intercalate toks ++ " | tainted=" ++ toString tainted.length
    | _, _ => "unsupported-input"
  | _ => "bad-op"
