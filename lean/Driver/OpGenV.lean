import HclModel.Write.GenValue
open HclModel HclModel.GenValue

namespace OpGenV

def cpsOf (s : String) : Option (List Char) :=
  if s == "" then some [] else (s.splitOn ".").mapM fun x => Char.ofNat <$> x.toNat?

def cpsStr (cs : List Char) : String := ".".intercalate (cs.map fun c => toString c.toNat)

/-- prefix coding of a value: `N` `T` `F` `#<0|1>:<m>` `S<cps>` `L<n> v…` `O<n> K<cps> v …` -/
partial def readV : List String → Option (GV × List String)
  | [] => none
  | w :: rest =>
    if w == "N" then some (.null, rest)
    else if w == "T" then some (.bool true, rest)
    else if w == "F" then some (.bool false, rest)
    else if w.startsWith "#" then
      match ((w.drop 1).toString).splitOn ":" with
      | [n, m] => do pure (.num (n == "1") (← m.toNat?), rest)
      | _ => none
    else if w.startsWith "S" then do pure (.str (← cpsOf (w.drop 1).toString), rest)
    else if w.startsWith "L" then do
      let n ← (w.drop 1).toString.toNat?
      let rec items (k : Nat) (ws : List String) (acc : List GV) : Option (List GV × List String) :=
        match k with
        | 0 => some (acc.reverse, ws)
        | k+1 => do let (v, ws') ← readV ws; items k ws' (v :: acc)
      let (xs, rest') ← items n rest []
      pure (.seq xs, rest')
    else if w.startsWith "O" then do
      let n ← (w.drop 1).toString.toNat?
      let rec attrs (k : Nat) (ws : List String) (acc : List (List Char × GV)) : Option (List (List Char × GV) × List String) :=
        match k, ws with
        | 0, _ => some (acc.reverse, ws)
        | k+1, kw :: ws1 =>
          if kw.startsWith "K" then do
            let key ← cpsOf (kw.drop 1).toString
            let (v, ws') ← readV ws1
            attrs k ws' ((key, v) :: acc)
          else none
        | _, _ => none
      let (kvs, rest') ← attrs n rest []
      pure (.obj kvs, rest')
    else none

partial def showV : GV → String
  | .null => "N"
  | .bool true => "T"
  | .bool false => "F"
  | .num n m => s!"#{if n then 1 else 0}:{m}"
  | .str s => "S" ++ cpsStr s
  | .seq xs => " ".intercalate (s!"L{xs.length}" :: xs.map showV)
  | .obj kvs => " ".intercalate (s!"O{kvs.length}" :: kvs.map fun p => "K" ++ cpsStr p.1 ++ " " ++ showV p.2)

def showTok : Tok → String
  | .ident s => "i" ++ cpsStr s
  | .num n m => s!"n{if n then 1 else 0}:{m}"
  | .minus => "m"
  | .oquote => "oq" | .qlit cs => "q" ++ cpsStr cs | .cquote => "cq"
  | .obrack => "[" | .cbrack => "]" | .obrace => "{" | .cbrace => "}"
  | .comma => "," | .equal => "=" | .newline => "nl"

def readTok (w : String) : Option Tok :=
  if w == "m" then some .minus else if w == "oq" then some .oquote else if w == "cq" then some .cquote
  else if w == "[" then some .obrack else if w == "]" then some .cbrack
  else if w == "{" then some .obrace else if w == "}" then some .cbrace
  else if w == "," then some .comma else if w == "=" then some .equal else if w == "nl" then some .newline
  else if w.startsWith "i" then Tok.ident <$> cpsOf (w.drop 1).toString
  else if w.startsWith "q" then Tok.qlit <$> cpsOf (w.drop 1).toString
  else if w.startsWith "n" then
    match ((w.drop 1).toString).splitOn ":" with
    | [n, m] => do pure (.num (n == "1") (← m.toNat?))
    | _ => none
  else none

def showToks (ts : List Tok) : String := if ts.isEmpty then "-" else " ".intercalate (ts.map showTok)

end OpGenV

/-- `GENV <printable table cp:0|1,… | -> <valid identifiers: cps;cps;… | -> <value…>`
    →  `<generated tokens> | <tokens after scanning the written bytes again> | <value read back | none> | <the same as an attribute value>` -/
def genvLine (args : String) : String :=
  match (args.splitOn " ").filter (· ≠ "") with
  | ptab :: idents :: vws =>
    let ptabL : Option (List (Nat × Bool)) := if ptab == "-" then some [] else (ptab.splitOn ",").mapM fun it =>
      match it.splitOn ":" with
      | [c, f] => do pure (← c.toNat?, f == "1")
      | _ => none
    let idL : Option (List (List Char)) := if idents == "-" then some [] else (idents.splitOn ";").mapM OpGenV.cpsOf
    match ptabL, idL, OpGenV.readV vws with
    | some pt, some ids, some (v, []) =>
      let c : Cfg := { isPrint := fun ch => (pt.find? fun p => p.1 == ch.toNat).map (·.2) |>.getD true,
                       validIdent := fun k => ids.contains k }
      let g := gen c v
      let back := match readBack c v with | some v' => OpGenV.showV v' | none => "none"
      let backA := match readBackAttr c v [.ident ['z'], .equal, .num false 0, .newline] with
        | some v' => OpGenV.showV v' | none => "none"
      OpGenV.showToks g ++ " | " ++ OpGenV.showToks (relex g) ++ " | " ++ back ++ " | " ++ backA
    | _, _, _ => "bad-op"
  | _ => "bad-op"

/-- `PARSEG <tokens…>`  →  `ok <value>` when the parser model accepts the tokens as a stand-alone expression
    and the constant expression has a value, else `none` -/
def parsegLine (args : String) : String :=
  match ((args.splitOn " ").filter (· ≠ "")).mapM OpGenV.readTok with
  | some ts =>
    (match parseTop ts with
     | some e => (match evalLE e with | some v => "ok " ++ OpGenV.showV v | none => "none")
     | none => "none")
  | none => "bad-op"
