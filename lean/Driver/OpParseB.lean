import HclModel.Syntax.Structure
open HclModel

namespace OpParseB
open HclModel.Structure

def parseRaw (s : String) : Option Raw :=
  if s == "=" then some (.tok .eq)
  else if s == "{" then some (.tok .obrace)
  else if s == "}" then some (.tok .cbrace)
  else if s == "nl" then some (.tok .nl)
  else if s == "o" then some (.tok .other)
  else if s == "lc" then some .lineComment
  else if s == "ic" then some .inlineComment
  else if s.startsWith "i." then some (.tok (.ident (s.drop 2).toString))
  else if s.startsWith "q." then some (.tok (.qlabel (s.drop 2).toString))
  else if s.startsWith "e." then (s.drop 2).toString.toNat?.map fun n => .tok (.expr n)
  else none

mutual
partial def showItem : Item → String
  | .attr n e => s!"a:{n}:{e}"
  | .block t ls body => s!"b:{t}:[" ++ ",".intercalate ls ++ "]{" ++ showItems body ++ "}"
partial def showItems (l : List Item) : String := " ".intercalate (l.map showItem)
end

end OpParseB

/-- `PARSEB <raw token> …` (the final EOF is implicit): `rej`, or `acc` and the items in source order -/
def parsebLine (args : String) : String :=
  match ((args.splitOn " ").filter (· ≠ "")).mapM OpParseB.parseRaw with
  | some raws =>
    match Structure.parseConfig (raws ++ [.tok .eof]) with
    | some items => "acc " ++ OpParseB.showItems items
    | none => "rej"
  | none => "bad-op"
