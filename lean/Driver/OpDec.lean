import HclModel.Dec.Decode
import HclModel.Expr.Codec
open HclModel HclModel.Dec

/-!
`DEC <spec> <content>`: the DEC correspondence (harness side: props/c08/corr.go).

```
spec    ::= (object (<hexkey> spec)*)            -- fields sorted by key
          | (tuple spec*)
          | (attr <hexname> type <0|1 required>)
          | (literal value)
          | (block <hextype> <0|1 required> spec)
          | (blocklist <hextype> <min> <max> spec)
          | (blocktuple <hextype> <min> <max> spec)
          | (blockmap <hextype> <number of labels> spec)
          | (blockobject <hextype> <number of labels> spec)
          | (blockattrs <hextype> type <0|1 required>)
          | (label <index>)
          | (default spec spec)
content ::= ((attr*) (block*))                   -- what PartialContent(ImpliedSchema(spec of that level)) returns
attr    ::= (<hexname> value <0|1 evaluation reported an error>)
block   ::= (<hextype> (<hexlabel>*) content)
```
types and values as in `tyOfSexp` / `valOfSexp`.  The top-level labels are empty (`hcldec.Decode`).

Answer: `<value> <ok|err> <implied type> <notes>` or `crash <implied type> <notes>`, where the notes are a
comma-separated list (`-` when empty) of the places where the model is knowingly coarser than go-cty:
`unsupported:<what>` (a conversion outside the fragment of `convert`, or a result of `convert` that go-cty cannot
represent: nothing but the implied type is comparable) and `blocklist-mixed*<n>`
(n BlockLists, counted per decoded occurrence, whose elements have different types: the model answers `cty.DynamicVal` + error, which is what the code
does only when `convert.UnifyUnsafe` finds no common type).  `bad-input <what>` when the line does not parse.
-/

namespace DecWire
open Sexp

def flag? : Sexp → Option Bool
  | .atom "1" => some true
  | .atom "0" => some false
  | _ => none

def name? : Sexp → Option String
  | .atom h => hexString? h
  | _ => none

partial def specOfSexp : Sexp → Option Spec
  | .list (.atom "object" :: fs) => Spec.object <$> fs.mapM fun f =>
      match f with
      | .list [k, s] => do pure (← name? k, ← specOfSexp s)
      | _ => none
  | .list (.atom "tuple" :: es) => Spec.tuple <$> es.mapM specOfSexp
  | .list [.atom "attr", n, t, r] => do pure (.attr (← name? n) (← tyOfSexp t) (← flag? r))
  | .list [.atom "literal", v] => Spec.literal <$> valOfSexp Fl.none v
  | .list [.atom "block", n, r, s] => do pure (.block (← name? n) (← specOfSexp s) (← flag? r))
  | .list [.atom "blocklist", n, lo, hi, s] => do pure (.blockList (← name? n) (← specOfSexp s) (← nat? lo) (← nat? hi))
  | .list [.atom "blocktuple", n, lo, hi, s] => do pure (.blockTuple (← name? n) (← specOfSexp s) (← nat? lo) (← nat? hi))
  | .list [.atom "blockmap", n, k, s] => do pure (.blockMap (← name? n) (← nat? k) (← specOfSexp s))
  | .list [.atom "blockobject", n, k, s] => do pure (.blockObject (← name? n) (← nat? k) (← specOfSexp s))
  | .list [.atom "blockattrs", n, t, r] => do pure (.blockAttrs (← name? n) (← tyOfSexp t) (← flag? r))
  | .list [.atom "label", i] => Spec.blockLabel <$> nat? i
  | .list [.atom "default", p, f] => do pure (.default (← specOfSexp p) (← specOfSexp f))
  | _ => none

def attrOfSexp : Sexp → Option DAttr
  | .list [n, v, e] => do pure { name := ← name? n, val := ← valOfSexp Fl.none v, evalErr := ← flag? e }
  | _ => none

partial def contentOfSexp : Sexp → Option (List DAttr × List DBlock)
  | .list [.list as, .list bs] => do
    let attrs ← as.mapM attrOfSexp
    let blocks ← bs.mapM fun b =>
      match b with
      | .list [t, .list ls, c] => do
        let (a, k) ← contentOfSexp c
        pure (DBlock.mk (← name? t) (← ls.mapM name?) a k)
      | _ => none
    pure (attrs, blocks)
  | _ => none

mutual
/-- a non-empty collection whose element type still mentions the dynamic pseudo-type: go-cty has no such values
    (the element type of a collection value is always concrete); `convert` of the value model produces them when the
    target's element type has a nested `dyn` -/
partial def dynColl : Val → Bool
  | .list _ t xs => (!xs.isEmpty && hasDyn t) || xs.any dynColl
  | .map _ t kvs => (!kvs.isEmpty && hasDyn t) || kvs.any fun kv => dynColl kv.2
  | .tuple _ xs => xs.any dynColl
  | .object _ kvs => kvs.any fun kv => dynColl kv.2
  | _ => false
end

def convNote (v : Val) (t : Ty) : List String :=
  match convert v t with
  | .error (.unsupported w) => ["unsupported:" ++ w.replace " " "-"]
  | .ok w => if dynColl w then ["unsupported:dynamic-inside-collection-element-type"] else []
  | _ => []

/-- where the answer of `decode` rests on a part of go-cty the model does not describe (same recursion as `decode`) -/
partial def audit : Spec → List DAttr → List DBlock → List String → List String
  | .object fields, a, b, l => fields.flatMap fun (_, s) => audit s a b l
  | .tuple elems, a, b, l => elems.flatMap fun s => audit s a b l
  | .attr name ty _, a, _, _ =>
    match findAttr name a with
    | some x => convNote x.val ty
    | none => []
  | .literal _, _, _, _ => []
  | .block type nested _, _, blocks, _ =>
    match blocksOf type blocks with
    | [] => []
    | b :: _ => audit nested b.attrs b.blocks b.labels
  | .blockList type nested _ _, _, blocks, _ =>
    let bs := blocksOf type blocks
    let sub := bs.flatMap fun b => audit nested b.attrs b.blocks b.labels
    match decodeBlocks nested bs 0 with
    | some (v :: vs, _) => if vs.all (fun w => w.typeOf == v.typeOf) then sub else sub ++ ["blocklist-mixed"]
    | _ => sub
  | .blockTuple type nested _ _, _, blocks, _ =>
    (blocksOf type blocks).flatMap fun b => audit nested b.attrs b.blocks b.labels
  | .blockMap type n nested, _, blocks, _ =>
    (blocksOf type blocks).flatMap fun b => audit nested b.attrs b.blocks (b.labels.drop n)
  | .blockObject type n nested, _, blocks, _ =>
    (blocksOf type blocks).flatMap fun b => audit nested b.attrs b.blocks (b.labels.drop n)
  | .blockAttrs type ety _, _, blocks, _ =>
    match blocksOf type blocks with
    | [] => []
    | b :: _ => b.attrs.flatMap fun x => convNote x.val ety
  | .blockLabel _, _, _, _ => []
  | .default primary fallback, a, b, l =>
    audit primary a b l ++
      (match decode primary a b l with
       | .ok v _ => if v.isNull then audit fallback a b l else []
       | .crash _ => [])

end DecWire

/-- `DEC <spec> <content>` → `<value> ok|err <implied type> <notes>` | `crash <implied type> <notes>` -/
def decLine (args : String) : String :=
  match Sexp.parseMany args with
  | some [specS, contentS] =>
    match DecWire.specOfSexp specS, DecWire.contentOfSexp contentS with
    | some spec, some (attrs, blocks) =>
      let all := DecWire.audit spec attrs blocks []
      let mixed := (all.filter (· == "blocklist-mixed")).length
      let notes := (all.filter (· != "blocklist-mixed")).eraseDups ++ (if mixed > 0 then [s!"blocklist-mixed*{mixed}"] else [])
      let notesS := if notes.isEmpty then "-" else ",".intercalate notes
      let implied := tyDump (impliedType spec)
      match decode spec attrs blocks [] with
      | .crash _ => s!"crash {implied} {notesS}"
      | .ok v err => s!"{valDump v} {if err then "err" else "ok"} {implied} {notesS}"
    | none, _ => "bad-input spec"
    | _, none => "bad-input content"
  | _ => "bad-input arity"
