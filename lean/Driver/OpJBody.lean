import HclModel.Json.Body
import HclModel.Expr.Codec
open HclModel

/-!
`JBODY` — correspondence operations for the model of JSON bodies (`HclModel/Json/Body.lean`); the harness side
is `harness/props/c03/corr.go`.

Wire format (s-expressions, every string in hex, `-` = empty string):

* JSON value `V`:   `n` | `t` | `f` | `(s <hex>)` | `(i <int>)` | `(a V…)` | `(o (<hex name> V)…)`
* schema `S`:       `(S ((<hex name> 0|1)…) ((<hex type> <label count>)…))`      (1 = required)
* schema tree `T`:  `(T ((<hex name> 0|1)…) ((<hex type> <label count> T)…))`
* layout body `L`:  `(obj P…)` | `(arr (P…)…)`
  property `P`:     `(c V)` | `(at <hex name> V)` | `(b <hex type> U)`
  under `U`:        `none` | `(one P…)` | `(many L…)` | `(lo (<hex label> U)…)` | `(la ((<hex label> U)…)…)`

* `JBODY ops V op…` with op = `(P S)` | `(C S)` | `J`; answer: one group per op joined by ` | `:
    `A=(<hex name> V)…;B=(<hex type> (<hex label>…) V)…;E=<kind>,…`      for `P` and `C`
    `A=(<hex name> V)…;F=ok|err`                                          for `J`
  attributes sorted by name, blocks in order, error kinds sorted: `it` (at most once: the model records presence
  only), `ml.<hex type>`, `da.<hex name>`, `mr.<hex name>`, `ex.<hex name>`; an empty list is `-`.
* `JBODY val V`; answer: `<value as printed by EVAL> ok|err`
* `JBODY layout T L`; answer: `adm=<bool> wf=<bool> | V (the rendering) | R (resolveJ) | R (resolveN)` with
    `R` = `(R ((<hex name> -|(<value> ok|err))…) ((<hex type> ((<hex label>…) R)…)…))`
-/
namespace OpJBody
open HclModel.Body HclModel.JBody

partial def jvOfSexp : Sexp → Option JV
  | .atom "n" => some .null
  | .atom "t" => some (.bool true)
  | .atom "f" => some (.bool false)
  | .list [.atom "s", .atom h] => JV.str <$> hexString? h
  | .list [.atom "i", .atom n] => JV.num <$> n.toInt?
  | .list (.atom "a" :: xs) => JV.arr <$> xs.mapM jvOfSexp
  | .list (.atom "o" :: ps) => JV.obj <$> ps.mapM fun p =>
      match p with
      | .list [.atom k, v] => do pure (← hexString? k, ← jvOfSexp v)
      | _ => none
  | _ => none

partial def jvDump : JV → String
  | .null => "n"
  | .bool true => "t"
  | .bool false => "f"
  | .str s => s!"(s {stringHex s})"
  | .num n => s!"(i {n})"
  | .arr xs => "(a" ++ String.join (xs.map fun x => " " ++ jvDump x) ++ ")"
  | .obj ps => "(o" ++ String.join (ps.map fun (k, x) => s!" ({stringHex k} {jvDump x})") ++ ")"

def attrSchemaOfSexp : Sexp → Option AttrSchema
  | .list [.atom n, .atom r] => do pure ⟨← hexString? n, r == "1"⟩
  | _ => none

def blockSchemaOfSexp : Sexp → Option BlockSchema
  | .list [.atom t, n] => do pure ⟨← hexString? t, ← Sexp.nat? n⟩
  | _ => none

def schemaOfSexp : Sexp → Option Schema
  | .list [.atom "S", .list as, .list bs] => do pure ⟨← as.mapM attrSchemaOfSexp, ← bs.mapM blockSchemaOfSexp⟩
  | _ => none

partial def streeOfSexp : Sexp → Option STree
  | .list [.atom "T", .list as, .list bs] => do
    let as ← as.mapM attrSchemaOfSexp
    let bs ← bs.mapM fun b =>
      match b with
      | .list [.atom t, n, sub] => do
        let bsch : BlockSchema := ⟨← hexString? t, ← Sexp.nat? n⟩
        pure (bsch, ← streeOfSexp sub)
      | _ => none
    pure (.mk as bs)
  | _ => none

mutual
partial def bodyLOfSexp : Sexp → Option BodyL
  | .list (.atom "obj" :: ps) => BodyL.obj <$> ps.mapM propLOfSexp
  | .list (.atom "arr" :: parts) => BodyL.arr <$> parts.mapM fun p =>
      match p with
      | .list ps => ps.mapM propLOfSexp
      | _ => none
  | _ => none
partial def propLOfSexp : Sexp → Option PropL
  | .list [.atom "c", v] => PropL.comment <$> jvOfSexp v
  | .list [.atom "at", .atom n, v] => do pure (.attr (← hexString? n) (← jvOfSexp v))
  | .list [.atom "b", .atom t, u] => do pure (.blocks (← hexString? t) (← underLOfSexp u))
  | _ => none
partial def underLOfSexp : Sexp → Option UnderL
  | .atom "none" => some .none
  | .list (.atom "one" :: ps) => UnderL.one <$> ps.mapM propLOfSexp
  | .list (.atom "many" :: bs) => UnderL.many <$> bs.mapM bodyLOfSexp
  | .list (.atom "lo" :: kvs) => UnderL.labelsObj <$> kvs.mapM labelOfSexp
  | .list (.atom "la" :: parts) => UnderL.labelsArr <$> parts.mapM fun p =>
      match p with
      | .list kvs => kvs.mapM labelOfSexp
      | _ => none
  | _ => none
partial def labelOfSexp : Sexp → Option (String × UnderL)
  | .list [.atom k, u] => do pure (← hexString? k, ← underLOfSexp u)
  | _ => none
end

def sorted (l : List String) : List String := (l.toArray.qsort (· < ·)).toList

def showList (sep : String) (l : List String) : String := if l.isEmpty then "-" else sep.intercalate l

def errStr : JErr → String
  | .incorrectType => "it"
  | .missingLabel t => "ml." ++ stringHex t
  | .duplicateArgument n => "da." ++ stringHex n
  | .missingRequired n => "mr." ++ stringHex n
  | .extraneous n => "ex." ++ stringHex n

/-- sorted kinds; `it` at most once (Go reports one per offending array element, the model a flag per call) -/
def showErrs (errs : List JErr) : String :=
  let es := errs.map errStr
  let its := if es.contains "it" then ["it"] else []
  showList "," (sorted (its ++ es.filter (· != "it")))

/-- attributes sorted by name (names are unique in a result) -/
def showAttrs (attrs : List (String × JV)) : String :=
  let arr := attrs.toArray.qsort (fun a b => a.1 < b.1)
  showList "" (arr.toList.map fun (n, v) => s!"({stringHex n} {jvDump v})")

def showBlocks (blocks : List (Block JBodyV)) : String :=
  showList "" (blocks.map fun b =>
    s!"({stringHex b.type} ({" ".intercalate (b.labels.map stringHex)}) {jvDump b.body.val})")

def showRes (c : Content JV JBodyV) (errs : List JErr) : String :=
  "A=" ++ showAttrs c.attrs ++ ";B=" ++ showBlocks c.blocks ++ ";E=" ++ showErrs errs

def runOps : JBodyV → List Sexp → Option (List String)
  | _, [] => some []
  | b, .atom "J" :: rest =>
    let (attrs, bad) := b.justAttributes
    (runOps b rest).map (("A=" ++ showAttrs attrs ++ ";F=" ++ (if bad then "err" else "ok")) :: ·)
  | b, .list [.atom k, s] :: rest =>
    match schemaOfSexp s with
    | none => none
    | some s =>
      if k == "P" then
        let (c, remain, errs) := b.partialContent s
        (runOps remain rest).map (showRes c errs :: ·)
      else if k == "C" then
        let (c, errs) := b.content s
        (runOps b rest).map (showRes c errs :: ·)
      else none
  | _, _ => none

partial def rtreeDump : RTree → String
  | .mk attrs blocks =>
    let a := attrs.map fun (n, ov) =>
      let vs := match ov with
        | none => "-"
        | some (v, e) => "(" ++ valDump v ++ (if e then " err" else " ok") ++ ")"
      s!"({stringHex n} {vs})"
    let b := blocks.map fun (t, bl) =>
      "(" ++ stringHex t ++ String.join (bl.map fun (ls, r) =>
        " ((" ++ " ".intercalate (ls.map stringHex) ++ ") " ++ rtreeDump r ++ ")") ++ ")"
    "(R (" ++ " ".intercalate a ++ ") (" ++ " ".intercalate b ++ "))"

/-- the evaluator of native literals handed to `resolveN` -/
def evLit (e : Expr) : Val × Bool :=
  let o := eval goCx [] e
  (o.1, hasErrors o.2)

def fuel : Nat := 1000

end OpJBody

open OpJBody in
/-- `JBODY <sub-operation> <s-expressions>`: see the module comment for the wire format -/
def jbodyLine (args : String) : String :=
  match Sexp.parseMany args with
  | some (.atom "ops" :: v :: ops) =>
    match jvOfSexp v with
    | none => "unsupported-input value"
    | some jv =>
      match runOps ⟨jv, []⟩ ops with
      | some outs => " | ".intercalate outs
      | none => "bad-op"
  | some [.atom "val", v] =>
    match jvOfSexp v with
    | none => "unsupported-input value"
    | some jv =>
      let r := JBody.jsonValue jv
      valDump r.1 ++ (if r.2 then " err" else " ok")
  | some [.atom "layout", t, l] =>
    match streeOfSexp t, bodyLOfSexp l with
    | some st, some bl =>
      let jv := JBody.renderBody bl
      let rj := JBody.resolveJ fuel st ⟨jv, []⟩
      let rn := JBody.resolveN evLit fuel st (JBody.denoteBody bl)
      s!"adm={JBody.admBody st bl} wf={st.wf} | {jvDump jv} | {rtreeDump rj} | {rtreeDump rn}"
    | none, _ => "unsupported-input schema-tree"
    | _, none => "unsupported-input layout"
  | _ => "bad-op"
