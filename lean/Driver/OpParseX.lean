import HclModel.Syntax.OpParser
import HclModel.Syntax.OpTable
import HclModel.Gen.BinaryOps
open HclModel

namespace OpParseX
open HclModel.OpParser

def parseTok (s : String) : Option Tok :=
  if s == "(" then some .lp
  else if s == ")" then some .rp
  else if s.startsWith "a" then (s.drop 1).toString.toNat?.map Tok.atom
  else if s.startsWith "o" then (s.drop 1).toString.toNat?.map Tok.op
  else none

partial def showE (ops : List OpParser.OpEntry) : E → String
  | .atom n => s!"a{n}"
  | .paren e => "(p " ++ showE ops e ++ ")"
  | .bin k l r => "(" ++ (OpParser.opNameOf ops k).getD s!"?{k}" ++ " " ++ showE ops l ++ " " ++ showE ops r ++ ")"

end OpParseX

/-- `PARSEX tok …` with tok = `a<n>` (operand), `o<token type>` (binary operator), `(`, `)`: the tree the
    operator parser builds with the regenerated table, or `rej` -/
def parsexLine (args : String) : String :=
  match ((args.splitOn " ").filter (· ≠ "")).mapM OpParseX.parseTok with
  | some toks =>
    let T := OpParser.tblOf Gen.binaryOps
    match OpParser.parseLevel T (toks.length + 1) T.L toks with
    | some (e, []) => OpParseX.showE Gen.binaryOps e
    | _ => "rej"
  | none => "bad-op"
