import HclModel.Gohcl.Codec
import HclModel.Expr.Codec
open HclModel

/-!
`GOHCL` — correspondence operations for the model of gohcl (`HclModel/Gohcl/Codec.lean`); the harness side is
`harness/props/c16/corr.go`.

Wire format (s-expressions, every string in hex, `-` = empty string; cty values `V` and cty types as in `EVAL`):

* Go attribute type `T`:  `str` | `int` | `bool` | `(slice T)` | `(map T)` | `(ptr T)`
* Go attribute value `G`: `(str <hex>)` | `(int <int>)` | `true` | `false`
                          | `nilslice` | `(slice G…)` | `nilmap` | `(map (<hex key> G)…)` | `nilptr` | `(ptr G)`
* struct type `S`:        `(struct F…)` with
      `F` = `(attr <hex name> req|opt T)` | `(label <hex name>)` | `(block <hex type> one|ptr|slice|sliceptr S)`
      (`opt` = the tag says `,optional`)
* struct value `W`:       `(sv X…)`, one `X` per field:
      `(attr G)` | `(label <hex>)` | `(one W)` | `(ptr nil)` | `(ptr W)` | `(slice nil)` | `(slice (W…))`
      | `(sliceptr nil)` | `(sliceptr (W…))`
* body `B`:               `(body ((<hex name> V)…) ((block <hex type> (<hex label>…) B)…))`

Operations:

* `GOHCL enc S W`    → `panic` | `B` (attribute values after `reparse`)
* `GOHCL dec S B`    → `err` | `W` | `unsupported <what>` (a conversion outside the fragment of `convert`)
* `GOHCL schema S`   → `(schema ((<hex name> req|opt)…) ((<hex type> <label count>)…))`
* `GOHCL attr T G`   → `<ctyTy> | <toCty> | <reparse of it> | <decodeExpr of that>`, with `none` when `toCty`
                        fails and `err` / `unsupported <what>` / `G` for the last component
-/
namespace OpGohcl
open HclModel.Gohcl HclModel.Body

/-! ### reading -/

partial def gtyOfSexp : Sexp → Option GTy
  | .atom "str" => some .str
  | .atom "int" => some .int
  | .atom "bool" => some .bool
  | .list [.atom "slice", t] => GTy.slice <$> gtyOfSexp t
  | .list [.atom "map", t] => GTy.map <$> gtyOfSexp t
  | .list [.atom "ptr", t] => GTy.ptr <$> gtyOfSexp t
  | _ => none

partial def gvalOfSexp : Sexp → Option GVal
  | .atom "true" => some (.bool true)
  | .atom "false" => some (.bool false)
  | .atom "nilslice" => some (.slice none)
  | .atom "nilmap" => some (.map none)
  | .atom "nilptr" => some (.ptr none)
  | .list [.atom "str", .atom h] => GVal.str <$> hexString? h
  | .list [.atom "int", n] => GVal.int <$> Sexp.int? n
  | .list (.atom "slice" :: xs) => (fun vs => GVal.slice (some vs)) <$> xs.mapM gvalOfSexp
  | .list (.atom "map" :: kvs) => (fun vs => GVal.map (some vs)) <$> kvs.mapM fun kv =>
      match kv with
      | .list [.atom k, v] => do pure (← hexString? k, ← gvalOfSexp v)
      | _ => none
  | .list [.atom "ptr", v] => (fun g => GVal.ptr (some g)) <$> gvalOfSexp v
  | _ => none

def shapeOfName : String → Option Shape
  | "one" => some .one | "ptr" => some .ptr | "slice" => some .slice | "sliceptr" => some .slicePtr
  | _ => none

mutual
partial def styOfSexp : Sexp → Option STy
  | .list (.atom "struct" :: fs) => STy.mk <$> fs.mapM fieldOfSexp
  | _ => none
partial def fieldOfSexp : Sexp → Option Field
  | .list [.atom "attr", .atom n, .atom o, t] => do
    let opt ← (match o with | "opt" => some true | "req" => some false | _ => none)
    pure (.attr (← hexString? n) opt (← gtyOfSexp t))
  | .list [.atom "label", .atom n] => Field.label <$> hexString? n
  | .list [.atom "block", .atom ty, .atom sh, s] => do
    pure (.block (← hexString? ty) (← shapeOfName sh) (← styOfSexp s))
  | _ => none
end

mutual
partial def svalOfSexp : Sexp → Option SVal
  | .list (.atom "sv" :: xs) => SVal.mk <$> xs.mapM fvalOfSexp
  | _ => none
partial def fvalOfSexp : Sexp → Option FVal
  | .list [.atom "attr", g] => FVal.attr <$> gvalOfSexp g
  | .list [.atom "label", .atom h] => FVal.label <$> hexString? h
  | .list [.atom "one", w] => FVal.one <$> svalOfSexp w
  | .list [.atom "ptr", .atom "nil"] => some (.ptr none)
  | .list [.atom "ptr", w] => (fun s => FVal.ptr (some s)) <$> svalOfSexp w
  | .list [.atom "slice", .atom "nil"] => some (.slice none)
  | .list [.atom "slice", .list ws] => (fun xs => FVal.slice (some xs)) <$> ws.mapM svalOfSexp
  | .list [.atom "sliceptr", .atom "nil"] => some (.slicePtr none)
  | .list [.atom "sliceptr", .list ws] => (fun xs => FVal.slicePtr (some xs)) <$> ws.mapM svalOfSexp
  | _ => none
end

mutual
partial def gbodyOfSexp : Sexp → Option GBody
  | .list [.atom "body", .list as, .list bs] => do
    let as ← as.mapM fun a =>
      match a with
      | .list [.atom n, v] => do pure (← hexString? n, ← valOfSexp Fl.none v)
      | _ => none
    pure (.mk as (← bs.mapM gblockOfSexp))
  | _ => none
partial def gblockOfSexp : Sexp → Option GBlock
  | .list [.atom "block", .atom ty, .list ls, b] => do
    let ls ← ls.mapM fun l => match l with
      | .atom h => hexString? h
      | _ => none
    pure (.mk (← hexString? ty) ls (← gbodyOfSexp b))
  | _ => none
end

/-! ### writing -/

partial def gvalDump : GVal → String
  | .str s => s!"(str {stringHex s})"
  | .int n => s!"(int {n})"
  | .bool true => "true"
  | .bool false => "false"
  | .slice none => "nilslice"
  | .slice (some xs) => "(slice" ++ String.join (xs.map fun x => " " ++ gvalDump x) ++ ")"
  | .map none => "nilmap"
  | .map (some kvs) => "(map" ++ String.join (kvs.map fun (k, x) => s!" ({stringHex k} {gvalDump x})") ++ ")"
  | .ptr none => "nilptr"
  | .ptr (some v) => s!"(ptr {gvalDump v})"

def joinSp (xs : List String) : String := " ".intercalate xs

mutual
partial def svalDump : SVal → String
  | .mk fs => "(sv" ++ String.join (fs.map fun f => " " ++ fvalDump f) ++ ")"
partial def fvalDump : FVal → String
  | .attr g => s!"(attr {gvalDump g})"
  | .label s => s!"(label {stringHex s})"
  | .one w => s!"(one {svalDump w})"
  | .ptr none => "(ptr nil)"
  | .ptr (some w) => s!"(ptr {svalDump w})"
  | .slice none => "(slice nil)"
  | .slice (some ws) => "(slice (" ++ joinSp (ws.map svalDump) ++ "))"
  | .slicePtr none => "(sliceptr nil)"
  | .slicePtr (some ws) => "(sliceptr (" ++ joinSp (ws.map svalDump) ++ "))"
end

mutual
/-- attribute values as they are after the writer, the parser and the evaluation of literals -/
partial def gbodyDump : GBody → String
  | .mk as bs =>
    "(body (" ++ joinSp (as.map fun (n, v) => s!"({stringHex n} {valDump (reparse v)})") ++ ") ("
      ++ joinSp (bs.map gblockDump) ++ "))"
partial def gblockDump : GBlock → String
  | .mk ty ls b => s!"(block {stringHex ty} (" ++ joinSp (ls.map stringHex) ++ s!") {gbodyDump b})"
end

def schemaDump (s : Schema) : String :=
  "(schema (" ++ joinSp (s.attrs.map fun a => s!"({stringHex a.name} {if a.required then "req" else "opt"})") ++ ") ("
    ++ joinSp (s.blocks.map fun b => s!"({stringHex b.type} {b.labelCount})") ++ "))"

/-! ### conversions outside the fragment of `convert` -/

def convUnsupported (t : GTy) (v : Val) : Option String :=
  match convert (reparse v) (ctyTy t) with
  | .error (.unsupported w) => some w
  | _ => none

/-- some attribute of the body that a field of the type takes (at any depth) needs a conversion that the model
    of `convert` leaves outside its fragment -/
partial def bodyUnsupported : STy → GBody → Option String
  | .mk fields, body =>
    fields.firstM fun f =>
      match f with
      | .attr name _ t => (findAttr name body.attrs).bind (convUnsupported t)
      | .label _ => none
      | .block type _ sty =>
        (body.blocks.filter (·.type == type)).firstM fun blk => bodyUnsupported sty blk.body

def decFuel : Nat := 256

end OpGohcl

open OpGohcl HclModel.Gohcl in
/-- `GOHCL <args>`: see the header of this file for the wire format -/
def gohclLine (args : String) : String :=
  match Sexp.parseMany args with
  | some [.atom "enc", s, w] =>
    (match styOfSexp s, svalOfSexp w with
     | some ty, some v =>
       (match encodeBody ty v with
        | some b => gbodyDump b
        | none => "panic")
     | none, _ => "bad-input type"
     | _, none => "bad-input value")
  | some [.atom "dec", s, b] =>
    (match styOfSexp s, gbodyOfSexp b with
     | some ty, some body =>
       (match bodyUnsupported ty body with
        | some w => "unsupported " ++ w
        | none =>
          match decodeBody decFuel ty body with
          | some v => svalDump v
          | none => "err")
     | none, _ => "bad-input type"
     | _, none => "bad-input body")
  | some [.atom "schema", s] =>
    (match styOfSexp s with
     | some ty => schemaDump (impliedSchema ty)
     | none => "bad-input type")
  | some [.atom "attr", t, g] =>
    (match gtyOfSexp t, gvalOfSexp g with
     | some ty, some v =>
       (match toCty ty v with
        | none => tyDump (ctyTy ty) ++ " | none | none | none"
        | some c =>
          let r := reparse c
          let back :=
            match convUnsupported ty r with
            | some w => "unsupported " ++ w
            | none =>
              match decodeExpr ty r with
              | some g' => gvalDump g'
              | none => "err"
          tyDump (ctyTy ty) ++ " | " ++ valDump c ++ " | " ++ valDump r ++ " | " ++ back)
     | none, _ => "bad-input type"
     | _, none => "bad-input value")
  | _ => "bad-op"
