import HclModel
open HclModel

/-- `GOHCL <args>`: see the harness side (props/c16/corr.go) for the wire format -/
def gohclLine (_args : String) : String := "unimplemented"
