import HclModel.Syntax.Traversal
open HclModel HclModel.Trav

namespace OpTrav

def cpsOf (s : String) : Option (List Char) :=
  if s == "" then some [] else (s.splitOn ".").mapM fun x => Char.ofNat <$> x.toNat?

def cpsStr (cs : List Char) : String := ".".intercalate (cs.map fun c => toString c.toNat)

def readTok (w : String) : Option Tok :=
  if w == "." then some .dot else if w == "[" then some .obrack else if w == "]" then some .cbrack
  else if w == "*" then some .star else if w == "nl" then some .newline else if w == "j" then some .junk
  else if w.startsWith "i" then Tok.ident <$> cpsOf (w.drop 1).toString
  else if w.startsWith "s" then Tok.str <$> cpsOf (w.drop 1).toString
  else if w.startsWith "n" then
    match ((w.drop 1).toString).splitOn ":" with
    | [m, d] => do pure (.num (← m.toNat?) (d == "1"))
    | _ => none
  else none

def showStep : Step → String
  | .attr n => "a" ++ cpsStr n
  | .index (.num m) => s!"kn{m}"
  | .index (.str s) => "ks" ++ cpsStr s

def showT : Option T → String
  | none => "none"
  | some t => "/".intercalate (("r" ++ cpsStr t.root) :: t.steps.map showStep)

end OpTrav

/-- `TRAV <token> …` with tokens `i<code points>` `.` `[` `]` `n<magnitude id>:<dotted 0|1>` `s<code points between
    the quotes>` `*` `nl` `j` (anything else)  →  `S=<traversal | none> E=<traversal | none>`: what the stand-alone
    traversal parser and the expression parser (+ `AbsTraversalForExpr`) make of them -/
def travLine (args : String) : String :=
  match ((args.splitOn " ").filter (· ≠ "")).mapM OpTrav.readTok with
  | some ts => "S=" ++ OpTrav.showT (standalone ts) ++ " E=" ++ OpTrav.showT (viaExpression ts)
  | none => "bad-op"
