import HclModel.Dyn.Expand
import HclModel.Expr.Codec
open HclModel

/-!
`EXPAND <env> <stree> <body> <op>…` — the `ext/dynblock` model (HclModel/Dyn/Expand) on the wire.
All four arguments are s-expressions; names are hex strings (as everywhere in the protocol).

* `<env>`    `((name value) …)`: the scope, used both as the context given to `Expand` and as the context the
             returned attributes are evaluated in (`envOfSexp`)
* `<stree>`  `(st ((name 0|1) …) ((type labelCount <stree>) …))`: the schema applied at each level
* `<body>`   `(body ((name <expr>) …) (<block> …))` with `<block>` one of
             `(static type (label …) <body>)` and
             `(dyn type <for_each expr> nil|iteratorName nil|(<label expr> …) <content body>)`
* `<op>`     `(resolve)` — consume the whole expanded body level by level with the schema tree (`resolveX`,
             `shapeX`, plus the error kinds of every `Content` call);
             `(at i)` — replace the current body by the body of the i-th block that `Content` with the tree's
             schema returns (and the tree by that block type's subtree);
             `(partial <sch>)` / `(content <sch>)` with `<sch>` = `(sch ((name 0|1) …) ((type labelCount) …))` —
             `PartialContent` (the next op works on the remaining body) / `Content` on the current body.

Answer: one section per op, then `V=` the sorted, de-duplicated `expandVars`, joined by ` | `:

* `R=<level>` with `<level>` = `((A <attr> …) (E <error kind> …) (B (blk type (label …) m|- u|- <level>) …))`,
  `<attr>` = `(name ok <value>)` (the `EVAL` value printer) or `(name err)`, attributes sorted by name, error
  kinds sorted, blocks in order with the body-marks flag and the unknown-body flag
* `AT=<type>` or `AT=none` (no such block: the remaining ops are dropped)
* `P=<level>` / `C=<level>` without the nested levels
* `V=name …` or `V=-`

An evaluation outside the evaluator model's fragment shows as `UNSUPPORTED…` in place of the attribute's
value; when such an evaluation of a `for_each` or label expression (whose diagnostics the model does not hand
out) changes the picture the whole answer is `UNSUPPORTED_in_expansion`. The harness skips these cases.
-/
namespace OpExpand
open HclModel.Sexp HclModel.Body HclModel.Dyn

def name? : Sexp → Option String
  | .atom h => hexString? h
  | _ => none

def attrSchemas? (as : List Sexp) : Option (List AttrSchema) :=
  as.mapM fun a => match a with
    | .list [n, .atom r] => do pure (⟨← name? n, r == "1"⟩ : AttrSchema)
    | _ => none

partial def streeOfSexp : Sexp → Option STree
  | .list [.atom "st", .list as, .list bs] => do
    let attrs ← attrSchemas? as
    let blocks ← bs.mapM fun b => match b with
      | .list [t, n, sub] => do pure ((⟨← name? t, ← nat? n⟩ : BlockSchema), ← streeOfSexp sub)
      | _ => none
    pure (.mk attrs blocks)
  | _ => none

def schemaOfSexp : Sexp → Option Schema
  | .list [.atom "sch", .list as, .list bs] => do
    let attrs ← attrSchemas? as
    let blocks ← bs.mapM fun b => match b with
      | .list [t, n] => do pure (⟨← name? t, ← nat? n⟩ : BlockSchema)
      | _ => none
    pure ⟨attrs, blocks⟩
  | _ => none

mutual
partial def bodyOfSexp : Sexp → Option SBody
  | .list [.atom "body", .list as, .list bs] => do
    let attrs ← as.mapM fun a => match a with
      | .list [n, e] => do pure (← name? n, ← exprOfSexp e)
      | _ => none
    let blocks ← bs.mapM blockOfSexp
    pure (.mk attrs blocks)
  | _ => none
partial def blockOfSexp : Sexp → Option SBlock
  | .list [.atom "static", t, .list ls, b] => do
    pure (.static (← name? t) (← ls.mapM name?) (← bodyOfSexp b))
  | .list [.atom "dyn", t, fe, it, ls, b] => do
    let itn ← match it with
      | .atom "nil" => some none
      | s => some <$> name? s
    let labels ← match ls with
      | .atom "nil" => some none
      | .list es => some <$> es.mapM exprOfSexp
      | _ => none
    pure (.dyn (← name? t) (← exprOfSexp fe) itn labels (← bodyOfSexp b))
  | _ => none
end

def sorted (l : List String) : List String := (l.toArray.qsort (· < ·)).toList

def sortedBy {α : Type} (key : α → String) (l : List α) : List α :=
  (l.toArray.qsort fun a b => key a < key b).toList

def par (items : List String) : String := "(" ++ " ".intercalate items ++ ")"

def siteTag (s : String) : String := (s.replace " " "_").replace "(" "" |>.replace ")" ""

/-- an evaluated attribute: `(name ok <value>)`, `(name err)`, or the UNSUPPORTED marker -/
def showAttr (n : String) (o : Out) : String :=
  match o.2.find? Diag.isUnsupported with
  | some d => par [stringHex n, siteTag d.site]
  | none => if hasErrors o.2 then par [stringHex n, "err"] else par [stringHex n, "ok", valDump o.1]

def flag (b : Bool) (c : String) : String := if b then c else "-"

section
variable (ev : Env → Expr → Out) (ρ : Env)

/-- one level: attributes evaluated, error kinds (when wanted), blocks with their flags; `sub` prints below -/
def showContent (c : XContent) (errs : Option (List String)) (sub : XBlock → Option String) : String :=
  let as := (sortedBy (·.1) c.attrs).map fun (n, a) => showAttr n (a.value ev ρ)
  let bs := c.blocks.filterMap fun blk =>
    (sub blk).map fun s =>
      par (["blk", stringHex blk.type, par (blk.labels.map stringHex), flag blk.body.bodyMarks.m "m",
        flag blk.body.unknown.isSome "u"] ++ (if s.isEmpty then [] else [s]))
  par ([par ("A" :: as)] ++ (match errs with | some es => [par ("E" :: sorted es)] | none => []) ++ [par ("B" :: bs)])

/-- the driver's own walk (the recursion of `resolveX`, keeping the error kinds of every level) -/
def walk (withErrs : Bool) : Nat → STree → XBody → String
  | 0, _, _ => "(fuel)"
  | fuel+1, st, b =>
    let r := b.content ev ρ st.schema
    showContent ev ρ r.1 (if withErrs then some r.2 else none) fun blk =>
      (st.child blk.type).map fun cst => walk withErrs fuel cst blk.body

/-- the same picture drawn from `resolveX` and `shapeX` (no error kinds there) -/
partial def showRS : RTree → Shape → String
  | .mk attrs blocks, .mk shapes =>
    let as := (sortedBy (·.1) attrs).map fun (n, o) => showAttr n o
    let bs := (blocks.zip shapes).map fun ((ty, ls, m, sub), (_, _, u, ssub)) =>
      par ["blk", stringHex ty, par (ls.map stringHex), flag m.m "m", flag u "u", showRS sub ssub]
    par [par ("A" :: as), par ("B" :: bs)]

def fuel : Nat := 64

def runOps : STree → XBody → List Sexp → List String
  | _, _, [] => []
  | st, b, op :: rest =>
    match op with
    | .list [.atom "resolve"] =>
      let w := walk ev ρ true fuel st b
      -- what the theorems speak about must be what is printed
      let viaModel := showRS (resolveX ev ρ ρ fuel st b) (shapeX ev ρ fuel st b)
      (if viaModel == walk ev ρ false fuel st b then "R=" ++ w else "R=DRIVER-INCONSISTENT " ++ viaModel) ::
        runOps st b rest
    | .list [.atom "at", i] =>
      let c := (b.content ev ρ st.schema).1
      match (nat? i).bind (c.blocks[·]?) with
      | some blk =>
        match st.child blk.type with
        | some cst => ("AT=" ++ stringHex blk.type) :: runOps cst blk.body rest
        | none => ["AT=none"]
      | none => ["AT=none"]
    | .list [.atom "partial", sch] =>
      match schemaOfSexp sch with
      | some s =>
        let (c, remain, errs) := b.partialContent ev ρ s
        ("P=" ++ showContent ev ρ c (some errs) fun _ => some "") :: runOps st remain rest
      | none => ["bad-op"]
    | .list [.atom "content", sch] =>
      match schemaOfSexp sch with
      | some s =>
        let (c, errs) := b.content ev ρ s
        ("C=" ++ showContent ev ρ c (some errs) fun _ => some "") :: runOps st b rest
      | none => ["bad-op"]
    | _ => ["bad-op"]
end

def evGo : Env → Expr → Out := eval goCx

/-- the same evaluator with every answer outside the fragment replaced by a harmless known value: when the
    two pictures differ, an unsupported evaluation of a `for_each` or label expression (whose diagnostics the
    model does not hand out) has influenced the result -/
def evProbe : Env → Expr → Out := fun ρ e =>
  let o := eval goCx ρ e
  if o.2.any Diag.isUnsupported then (Val.str Fl.none "UNSUPPORTED", []) else o

end OpExpand

open OpExpand in
/-- `EXPAND <env> <stree> <body> <op>…`: see the module comment (harness side: props/c18/corr.go) -/
def expandLine (args : String) : String :=
  match Sexp.parseMany args with
  | some (envS :: stS :: bodyS :: ops) =>
    match envOfSexp envS, streeOfSexp stS, bodyOfSexp bodyS with
    | some ρ, some st, some body =>
      let root : Dyn.XBody := { src := body }
      let out := runOps evGo ρ st root ops
      let probe := runOps evProbe ρ st root ops
      let vars := ((Dyn.expandVars fuel st [] body).filter fun n => !n.startsWith "%").eraseDups
      let v := "V=" ++ (if vars.isEmpty then "-" else " ".intercalate ((sorted vars).map stringHex))
      if out.any (fun (s : String) => (s.splitOn "UNSUPPORTED").length > 1) then " | ".intercalate out
      else if out != probe then "UNSUPPORTED_in_expansion"
      else " | ".intercalate (out ++ [v])
    | none, _, _ => "unsupported-input env"
    | _, none, _ => "unsupported-input stree"
    | _, _, none => "unsupported-input body"
  | _ => "bad-op"
