import HclModel.Body.Merged
import Driver.OpBody
open HclModel

namespace OpMerged
open HclModel.Body

def merrStr : MErrKind → String
  | .native e => OpBody.errStr e
  | .duplicateArgument n => "da." ++ n

def showRes (c : Content Nat Nat) (errs : List MErrKind) : String :=
  "A=" ++ OpBody.showList (OpBody.sorted (c.attrs.map fun p => p.1 ++ ":" ++ toString p.2)) ++
  ";B=" ++ OpBody.showList (c.blocks.map fun b => toString b.body) ++
  ";E=" ++ OpBody.showList (OpBody.sorted (errs.map merrStr))

/-- `<attr names ,|->/<blocks type:l1:l2 ,|->` : child number `i`; item `j` of a list carries payload `100*i + j` -/
def parseChild (i : Nat) (s : String) : Option (NBody Nat Nat) :=
  match s.splitOn "/" with
  | [attrs, blocks] =>
    let as := (OpBody.splitList attrs ",").zipIdx.map fun (a, j) => (a, 100 * i + j)
    let bs := (OpBody.splitList blocks ",").zipIdx.map fun (b, j) =>
      match b.splitOn ":" with
      | t :: ls => (⟨t, ls, 100 * i + j⟩ : Block Nat)
      | [] => ⟨"", [], 100 * i + j⟩
    some { attrs := as, blocks := bs }
  | _ => none

/-- run the operations on the merged body, each `P/…` on what the previous one left -/
def runOps : MBody Nat Nat → List String → Option (List String)
  | _, [] => some []
  | mb, op :: rest =>
    match op.splitOn "/" with
    | [k, as, bs] =>
      match OpBody.parseBlockSchemas bs with
      | none => none
      | some bss =>
        let s : Schema := ⟨OpBody.parseAttrSchemas as, bss⟩
        if k == "P" then
          let (c, remain, errs) := MBody.partialContent mb s
          (runOps remain rest).map (showRes c errs :: ·)
        else if k == "C" then
          let (c, errs) := MBody.content mb s
          (runOps mb rest).map (showRes c errs :: ·)
        else none
    | _ => none

end OpMerged

/-- `MERGE <child>;<child>;… <op> …` (`-` for no children, i.e. `hcl.EmptyBody()`), each child
    `<attr names ,|->/<blocks type:l1:l2 ,|->`, op = `P/<attrs>/<blocks>` (PartialContent, the next op works on
    the leftover merged body) or `C/<attrs>/<blocks>` (Content), schemas as for `BODY`.  Item `j` of child `i`
    carries payload `100*i + j`.  Output per op as for `BODY`; "Duplicate argument" is printed `da.<name>`. -/
def mergedLine (args : String) : String :=
  match (args.splitOn " ").filter (· ≠ "") with
  | children :: ops =>
    match (OpBody.splitList children ";").zipIdx.mapM fun (c, i) => OpMerged.parseChild i c with
    | none => "bad-op"
    | some mb =>
      match OpMerged.runOps mb ops with
      | some outs => " | ".intercalate outs
      | none => "bad-op"
  | _ => "bad-op"
