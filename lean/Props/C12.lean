import Proofs.Nodes
/-!
# C12 — any sequence of writer edits leaves a valid file that matches the edits (one body's bookkeeping)

`St` is the pointer-level state of one `hclwrite.Body` (doubly linked child list + item set), `step` the body
operations of ast_body.go built on `AppendNode` / `Detach` (`HclModel/Write/Nodes.lean`, tied to the code by the
`WOP` correspondence on random edit histories).  `specStep` is the simple list/map model of the property.
Token-level well-formedness of the serialised file (newlines between items, single-line blocks …) is covered
by the direct oracle only.
-/
namespace HclModel.Nodes

/-- Every reachable state is structurally sound: the links form one duplicate-free list consistent with
    first/last, every item is an attached child, attribute names are unique. -/
theorem reachable_wellformed (ops : List Op) (h : freshIds [] ops) : WellFormed (runOps St.init ops) :=
  Proofs.reachable_wellformed ops h

/-- Refinement: after any history, the structured content of the body is exactly what the simple list model
    predicts — same items, same order. -/
theorem refines (ops : List Op) (h : freshIds [] ops) : abs (runOps St.init ops) = specRun [] ops :=
  Proofs.refines ops h

/-- The read accessor agrees with the model after any history. -/
theorem accessor_agrees (ops : List Op) (h : freshIds [] ops) (name : String) :
    getAttribute (runOps St.init ops) name = specGetAttribute (specRun [] ops) name :=
  Proofs.accessor_agrees ops h name

/-- Items never touched by an edit keep their content: an edit that names another attribute leaves it alone. -/
theorem untouched (l : List Item) (name other : String) (e e' : Nat) (hne : other ≠ name)
    (h : Item.attr name e ∈ l) :
    Item.attr name e ∈ specStep l (.setAttr other e') ∧ Item.attr name e ∈ specStep l (.removeAttr other) :=
  Proofs.untouched l name other e e' hne h

/-- non-vacuity: a history with removal in the middle, re-setting, renaming and a removed block -/
example : abs (runOps St.init [.setAttr "a" 1, .appendBlock "b" ["x"] 7, .appendNewline, .setAttr "c" 2,
      .removeAttr "a", .setAttr "c" 3, .renameAttr "c" "d", .appendBlock "b" [] 8, .removeBlock 7]) =
    [.attr "d" 3, .block "b" [] 8] := by decide

end HclModel.Nodes
