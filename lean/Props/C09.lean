import Proofs.Format
/-!
# C09 — formatting changes only inter-token spacing and is idempotent

Property theorems only; helper lemmas live in `Proofs/Format.lean`.  All statements are for an
arbitrary rule table `R` (the compiled `spaceAfterToken` / `tokenBracketChange`, dumped at check time
and used as the parameter of the executable model in the correspondence run).
-/
namespace HclModel.Format

/-- Formatting never adds, drops, reorders or alters a token: only `SpacesBefore` may change. -/
theorem format_only_spaces (R : Rules) (ts : List Tok) :
    (format R ts).map erase = ts.map erase :=
  Proofs.format_map_erase R ts

/-- The output spacing is a function of the token sequence alone: the input's own spacing is never
    read before it is overwritten (no stale column counts, no dependence on existing indentation). -/
theorem format_spacing_independent (R : Rules) (ts ts' : List Tok)
    (h : ts.map erase = ts'.map erase) (he : eofSp ts = eofSp ts') :
    format R ts = format R ts' :=
  Proofs.format_indep R ts ts' h he

/-- Token-level idempotence. -/
theorem format_idempotent_tokens (R : Rules) (ts : List Tok) :
    format R (format R ts) = format R ts :=
  Proofs.format_idem R ts

/-- An abstract lexer / serialiser pair (the Ragel scanner is not modelled). -/
structure Lexer (Bytes : Type) where
  lex : Bytes → List Tok
  render : List Tok → Bytes

def Format {B : Type} (L : Lexer B) (R : Rules) (src : B) : B := L.render (format R (L.lex src))

/-- re-lexing the re-spaced text yields the formatted token list (types, bytes and spacing) -/
def LexStable {B : Type} (L : Lexer B) (R : Rules) (src : B) : Prop :=
  L.lex (Format L R src) = format R (L.lex src)

theorem format_preserves_tokens {B : Type} (L : Lexer B) (R : Rules) (src : B)
    (h : LexStable L R src) : (L.lex (Format L R src)).map erase = (L.lex src).map erase := by
  rw [h]; exact format_only_spaces R _

theorem format_bytes_idempotent {B : Type} (L : Lexer B) (R : Rules) (src : B)
    (h : LexStable L R src) : Format L R (Format L R src) = Format L R src := by
  unfold Format at *
  unfold LexStable Format at h
  rw [h, format_idempotent_tokens]

/-- non-vacuity: a concrete rule table and token list on which the formatter does real work -/
def exR : Rules := { spaceAfter := fun s _ _ a => !(s == 46 || a == 46 || a == 10), bracket := fun t => if t = 123 then 1 else if t = 125 then -1 else 0 }
def exToks : List Tok :=
  [⟨73, false, false, 1, 3⟩, ⟨61, false, false, 1, 0⟩, ⟨78, false, false, 1, 5⟩, ⟨10, false, true, 1, 2⟩,
   ⟨73, false, false, 3, 0⟩, ⟨61, false, false, 1, 0⟩, ⟨78, false, false, 1, 0⟩, ⟨10, false, true, 1, 0⟩,
   ⟨9220, false, false, 0, 4⟩]
example : (format exR exToks).map (·.sp) = [0, 3, 1, 0, 0, 1, 1, 0, 4] := by decide

end HclModel.Format
