import Proofs.Loader
/-!
# C10 — loading a file into the writer AST and saving it loses nothing (token distribution)

`buildFile` models how `hclwrite.ParseConfig` hands the source tokens to the nodes of the writer tree, guided
by the native AST's ranges (`HclModel/Write/Loader.lean`).  Serialising an unmodified tree is `flatten`.
-/
namespace HclModel.Loader

/-- Whatever the ranges are, as long as loading does not panic (`some`) and no traversal leaves tokens after
    its last step (the one place where the Go code does not re-attach a remainder; the flag is `true` whenever
    a traversal's range is the span of its steps), saving the tree gives back exactly the source tokens up to
    order: none dropped, none duplicated. -/
theorem flatten_build_perm (fuel : Nat) (rng : Rng) (items : List ItemAst) (toks : List Tok) (tree : Tree)
    (h : buildFile fuel rng items toks = some (tree, true)) : (flatten tree).Perm toks :=
  Proofs.flatten_build_perm fuel rng items toks tree h

/-- ... and none reordered, PROVIDED every `"attr"` node of the tree is *tight* (`tight`, defined in
    `Proofs/Loader.lean`: its last child, the "stragglers" = tokens inside the attribute's range but after its
    expression's range, is empty, or its line-comment and newline children are both empty).

    CORRECTED STATEMENT.  The statement first written here had no `tight` hypothesis and is false
    (`flatten_build_unconditional_false` below): `parseAttribute` (hclwrite/parser.go:278-287) appends
    `lineComments`, then `newline`, and only then the stragglers `from`, although in the source the stragglers
    precede the line comment / newline.  Counterexample: tokens `a`@0 `=`@2 `1`@4 `x`@6 `⏎`@8 `EOF`@9, one
    attribute with range [0,8), name [0,1), equals [2,3), expression [4,5): the saved order is `a = 1 ⏎ x EOF`.
    (`parseBlock` appends its stragglers BEFORE the line comments and newline, so blocks are in order.)  The native
    parser builds an attribute's range to end where its expression's range ends, so the stragglers are empty for
    ASTs produced by `hclsyntax`; the defect is latent ("though there shouldn't be any" in the Go comment). -/
theorem flatten_build (fuel : Nat) (rng : Rng) (items : List ItemAst) (toks : List Tok) (tree : Tree)
    (h : buildFile fuel rng items toks = some (tree, true)) (ht : tight tree = true) : flatten tree = toks :=
  Proofs.flatten_build fuel rng items toks tree h ht

/-- the statement without the tightness hypothesis is refuted by the counterexample above -/
theorem flatten_build_unconditional_false :
    ¬ ∀ (fuel : Nat) (rng : Rng) (items : List ItemAst) (toks : List Tok) (tree : Tree),
      buildFile fuel rng items toks = some (tree, true) → flatten tree = toks :=
  Proofs.flatten_build_unconditional_false

/-- The partition primitive never loses a token, for any range. -/
theorem partition_concat (toks : List Tok) (rng : Rng) :
    (partition toks rng).1 ++ (partition toks rng).2.1 ++ (partition toks rng).2.2 = toks :=
  Proofs.partition_concat toks rng

/-- non-vacuity: `a = x.y[0] # c⏎ b "l" { }⏎ EOF` with comments and a traversal -/
example :
    let toks : List Tok := [⟨0, .ident, 0⟩, ⟨2, .other, 1⟩, ⟨4, .ident, 2⟩, ⟨5, .dot, 3⟩, ⟨6, .ident, 4⟩, ⟨7, .obrack, 5⟩,
      ⟨8, .number, 6⟩, ⟨9, .cbrack, 7⟩, ⟨11, .comment true, 8⟩, ⟨15, .ident, 9⟩, ⟨17, .other, 10⟩, ⟨21, .other, 11⟩,
      ⟨23, .other, 12⟩, ⟨24, .newline, 13⟩, ⟨25, .eof, 14⟩]
    let items : List ItemAst := [
      .attr ⟨0, 10⟩ ⟨0, 1⟩ ⟨2, 3⟩ ⟨⟨4, 10⟩, [⟨⟨4, 10⟩, [.name ⟨4, 5⟩, .name ⟨5, 7⟩, .index ⟨7, 10⟩ .num]⟩]⟩,
      .block ⟨15, 24⟩ ⟨15, 16⟩ [⟨17, 20⟩] ⟨21, 22⟩ ⟨23, 24⟩ ⟨22, 23⟩ []]
    (buildFile 10 ⟨0, 25⟩ items toks).map (fun p => (flatten p.1 == toks, tight p.1, p.2)) = some (true, true, true) := by
  decide

end HclModel.Loader
