import Proofs.BodyNative
import Proofs.BodyMerged
/-!
# C04 — schema-driven body processing accounts for every item exactly once (native bodies)

`NBody.partialContent` / `NBody.content` model `hclsyntax.Body.PartialContent` / `Content`
(`HclModel/Body/Native.lean`; tied to the code by the `BODY` correspondence); `MBody.partialContent` /
`MBody.content` model `hcl.MergeBodies` of native bodies (`HclModel/Body/Merged.lean`, `MERGE` correspondence).
JSON and dynamic-block bodies are covered by the direct oracle only (see DESIGN.md).
-/
namespace HclModel.Body
variable {α β : Type}

/-- a freshly parsed body: nothing hidden, attribute names unique (the parser rejects redefinitions) -/
def NBody.fresh (b : NBody α β) : Prop :=
  b.hiddenAttrs = [] ∧ b.hiddenBlocks = [] ∧ (b.attrs.map (·.1)).Nodup

/-- Exhaustive processing returns exactly the matching items: each schema attribute present in the body
    once, in schema order; the blocks of wanted types with the right number of labels, in source order. -/
theorem content_exact (b : NBody α β) (s : Schema) (hb : b.fresh) (hs : s.nodup) :
    (b.content s).1.attrs = s.attrs.filterMap (fun as => (findAttr as.name b.attrs).map fun a => (as.name, a)) ∧
    (b.content s).1.blocks = b.blocks.filter (fun blk =>
      match wanted s blk.type with
      | some bs => blk.labels.length == bs.labelCount
      | none => false) :=
  Proofs.content_exact b s hb hs

/-- …and reports an error exactly when some item does not match: a required attribute is missing, a wanted
    block has the wrong number of labels, or an attribute / block is not in the schema. -/
theorem content_error_iff (b : NBody α β) (s : Schema) (hb : b.fresh) (hs : s.nodup) :
    (b.content s).2 = [] ↔
      ((∀ as ∈ s.attrs, as.required = true → (findAttr as.name b.attrs).isSome) ∧
       (∀ blk ∈ b.blocks, ∃ bs, wanted s blk.type = some bs ∧ blk.labels.length = bs.labelCount) ∧
       (∀ p ∈ b.attrs, ∃ as ∈ s.attrs, as.name = p.1)) :=
  Proofs.content_error_iff b s hb hs

/-- Partial processing leaves exactly the non-matching items visible in the remainder, unmodified and in order. -/
theorem partial_remain (b : NBody α β) (s : Schema) (hb : b.fresh) :
    (b.partialContent s).2.1.visibleAttrs = b.attrs.filter (fun p => !(s.attrs.any fun as => as.name == p.1)) ∧
    (b.partialContent s).2.1.visibleBlocks = b.blocks.filter (fun blk => !(s.blocks.any fun bs => bs.type == blk.type)) :=
  Proofs.partial_remain b s hb

/-- Two steps = one step: partial processing with `s₁`, then exhaustive processing of the remainder with a
    disjoint `s₂`, finds the same attributes, the same blocks in the same order per block type, and fails
    exactly when one exhaustive step with `s₁ ∪ s₂` fails. -/
theorem two_step (b : NBody α β) (s₁ s₂ : Schema) (hb : b.fresh) (h₁ : s₁.nodup) (h₂ : s₂.nodup) (hd : s₁.disjoint s₂) :
    let p := b.partialContent s₁
    let c₂ := p.2.1.content s₂
    let c := b.content (s₁.union s₂)
    c.1.attrs = p.1.attrs ++ c₂.1.attrs ∧
    (∀ ty, c.1.blocks.filter (·.type == ty) = (p.1.blocks ++ c₂.1.blocks).filter (·.type == ty)) ∧
    (c.2 = [] ↔ (p.2.2 = [] ∧ c₂.2 = [])) :=
  Proofs.two_step b s₁ s₂ hb h₁ h₂ hd

/-- non-vacuity -/
example :
    let b : NBody Nat Nat := { attrs := [("a", 1), ("b", 2)], blocks := [⟨"x", ["l"], 0⟩, ⟨"y", [], 1⟩, ⟨"x", ["m"], 2⟩] }
    let s₁ : Schema := ⟨[⟨"a", true⟩], [⟨"x", 1⟩]⟩
    let s₂ : Schema := ⟨[⟨"b", false⟩], [⟨"y", 0⟩]⟩
    ((b.partialContent s₁).2.1.content s₂).2 = [] ∧ (b.content (s₁.union s₂)).2 = [] ∧
    ((b.content (s₁.union s₂)).1.blocks.map (·.body)) = [0, 1, 2] := by decide

/-! ## merged bodies (merged.go)

A merged body is the list of its children (`MBody`); `mergedContent mb s partialMode` transcribes
`mergedBodies.mergedContent`, `MBody.content` / `MBody.partialContent` are its two entry points.  Go returns the
attributes as a map, so attributes are compared through `findAttr`. -/

/-- Children that do not share attribute names behave like one body holding all their items: exhaustive processing
    of the merged body finds the same attribute for every name, the same blocks in the same order, and fails
    exactly when processing the concatenation fails. -/
theorem merged_eq_concat (mb : MBody α β) (s : Schema) (hf : ∀ b ∈ mb, b.fresh) (hd : MBody.attrsDisjoint mb)
    (hs : s.nodup) :
    (∀ n, findAttr n (MBody.content mb s).1.attrs = findAttr n ((MBody.concat mb).content s).1.attrs) ∧
    (MBody.content mb s).1.blocks = ((MBody.concat mb).content s).1.blocks ∧
    ((MBody.content mb s).2 = [] ↔ ((MBody.concat mb).content s).2 = []) :=
  Proofs.merged_eq_concat mb s hf hd hs

/-- An attribute the schema names that is defined by two children is reported as a duplicate, and the value
    returned is that of the first child defining it (any schema, partial or exhaustive processing). -/
theorem merged_duplicate_reported (pre rest : MBody α β) (b₁ b₂ : NBody α β) (s : Schema) (partialMode : Bool)
    (n : String) (a₁ : α)
    (hf : ∀ b ∈ pre ++ b₁ :: rest, b.fresh)
    (hn : ∃ as ∈ s.attrs, as.name = n)
    (hpre : ∀ b ∈ pre, findAttr n b.attrs = none)
    (h₁ : findAttr n b₁.attrs = some a₁)
    (hb₂ : b₂ ∈ rest) (h₂ : (findAttr n b₂.attrs).isSome) :
    MErrKind.duplicateArgument n ∈ (mergedContent (pre ++ b₁ :: rest) s partialMode).2.2 ∧
    findAttr n (mergedContent (pre ++ b₁ :: rest) s partialMode).1.attrs = some a₁ :=
  Proofs.merged_duplicate_reported pre rest b₁ b₂ s partialMode n a₁ (fun b hb => (hf b hb).1) hn hpre h₁ hb₂ h₂

/-- A required attribute is reported missing exactly when no child defines it (the children see the relaxed
    schema and never report it themselves; any schema, partial or exhaustive processing). -/
theorem merged_required_iff (mb : MBody α β) (s : Schema) (partialMode : Bool) (as : AttrSchema)
    (hf : ∀ b ∈ mb, b.fresh) (has : as ∈ s.attrs) (hr : as.required = true) :
    MErrKind.missingRequired as.name ∈ (mergedContent mb s partialMode).2.2 ↔
      ∀ b ∈ mb, findAttr as.name b.attrs = none :=
  Proofs.merged_required_iff mb s partialMode as (fun b hb => (hf b hb).1) has hr

/-- Two steps = one step, for merged bodies whose children do not share attribute names: partial processing with
    `s₁`, then exhaustive processing of the leftover body (a merged body again) with a disjoint `s₂`, finds the
    same attribute for every name, the same blocks in the same order per block type, and fails exactly when one
    exhaustive step with `s₁ ∪ s₂` fails.  (Required attributes do not disturb the last part: each is checked in
    the step whose schema names it, against the same children.) -/
theorem merged_two_step (mb : MBody α β) (s₁ s₂ : Schema) (hf : ∀ b ∈ mb, b.fresh) (hd : MBody.attrsDisjoint mb)
    (h₁ : s₁.nodup) (h₂ : s₂.nodup) (hdj : s₁.disjoint s₂) :
    let p := MBody.partialContent mb s₁
    let c₂ := MBody.content p.2.1 s₂
    let c := MBody.content mb (s₁.union s₂)
    (∀ n, findAttr n c.1.attrs = findAttr n (p.1.attrs ++ c₂.1.attrs)) ∧
    (∀ ty, c.1.blocks.filter (·.type == ty) = (p.1.blocks ++ c₂.1.blocks).filter (·.type == ty)) ∧
    (c.2 = [] ↔ (p.2.2 = [] ∧ c₂.2 = [])) :=
  Proofs.merged_two_step mb s₁ s₂ hf hd h₁ h₂ hdj

/-- A merged body with a single child (in any hidden-name state) behaves like the child: same content, same
    leftover, the same errors up to order — a missing required attribute is reported by the merged layer instead
    of the child.  The schema must not name an attribute twice (see `merged_singleton_needs_nodup`). -/
theorem merged_singleton (b : NBody α β) (s : Schema) (hs : (s.attrs.map (·.name)).Nodup) :
    (MBody.content [b] s).1 = (b.content s).1 ∧
    (MBody.content [b] s).2.Perm ((b.content s).2.map .native) ∧
    (MBody.partialContent [b] s).1 = (b.partialContent s).1 ∧
    (MBody.partialContent [b] s).2.1 = [(b.partialContent s).2.1] ∧
    (MBody.partialContent [b] s).2.2.Perm ((b.partialContent s).2.2.map .native) :=
  ⟨(Proofs.merged_singleton b s false hs).1, (Proofs.merged_singleton b s false hs).2.2,
   (Proofs.merged_singleton b s true hs).1, (Proofs.merged_singleton b s true hs).2.1,
   (Proofs.merged_singleton b s true hs).2.2⟩

/-- `merged_singleton` for arbitrary schemas (false) -/
def merged_singletonFull : Prop :=
  ∀ (b : NBody Nat Nat) (s : Schema), (MBody.content [b] s).2.Perm ((b.content s).2.map .native)

/-- …refuted: a required attribute named twice by the schema and present in the body is "missing" for the native
    body (its second schema entry finds the name hidden) but not for the merged body, which looks the name up in
    the merged result. -/
theorem merged_singleton_needs_nodup : ¬ merged_singletonFull := by
  intro h
  have := (h { attrs := [("a", 0)], blocks := [] } ⟨[⟨"a", true⟩, ⟨"a", true⟩], []⟩).length_eq
  revert this
  decide

/-- non-vacuity: three children, `a` defined twice, the required `d` by nobody -/
example :
    let mb : MBody Nat Nat := [
      { attrs := [("a", 0), ("b", 1)], blocks := [⟨"x", ["l"], 0⟩] },
      { attrs := [("a", 100), ("c", 101)], blocks := [] },
      { attrs := [], blocks := [⟨"x", ["m"], 200⟩, ⟨"y", [], 201⟩] }]
    let s : Schema := ⟨[⟨"a", false⟩, ⟨"b", false⟩, ⟨"c", true⟩, ⟨"d", true⟩], [⟨"x", 1⟩]⟩
    (MBody.content mb s).2 = [.duplicateArgument "a", .native (.unsupportedBlock "y"), .missingRequired "d"] ∧
    findAttr "a" (MBody.content mb s).1.attrs = some 0 ∧
    findAttr "c" (MBody.content mb s).1.attrs = some 101 ∧
    (MBody.content mb s).1.blocks.map (·.body) = [0, 200] ∧
    (MBody.partialContent mb s).2.2 = [.duplicateArgument "a", .missingRequired "d"] ∧
    ((MBody.partialContent mb s).2.1.map fun b => b.hiddenAttrs) = [["b", "a"], ["c", "a"], []] := by decide

/-- non-vacuity of the hypotheses of `merged_eq_concat` / `merged_two_step`: disjoint children, error-free runs -/
example :
    let mb : MBody Nat Nat := [
      { attrs := [("a", 0)], blocks := [⟨"x", ["l"], 0⟩] },
      { attrs := [("b", 100)], blocks := [⟨"y", [], 100⟩] },
      { attrs := [("c", 200)], blocks := [⟨"x", ["m"], 200⟩] }]
    let s₁ : Schema := ⟨[⟨"a", true⟩, ⟨"c", false⟩], [⟨"x", 1⟩]⟩
    let s₂ : Schema := ⟨[⟨"b", true⟩], [⟨"y", 0⟩]⟩
    (MBody.partialContent mb s₁).2.2 = [] ∧ (MBody.content (MBody.partialContent mb s₁).2.1 s₂).2 = [] ∧
    (MBody.content mb (s₁.union s₂)).2 = [] ∧ ((MBody.concat mb).content (s₁.union s₂)).2 = [] ∧
    (MBody.content mb (s₁.union s₂)).1.blocks.map (·.body) = [0, 100, 200] ∧
    (MBody.content mb (s₁.union s₂)).1.attrs.map (·.2) = [0, 100, 200] := by decide

end HclModel.Body
