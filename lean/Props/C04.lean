import Proofs.BodyNative
/-!
# C04 — schema-driven body processing accounts for every item exactly once (native bodies)

`NBody.partialContent` / `NBody.content` model `hclsyntax.Body.PartialContent` / `Content`
(`HclModel/Body/Native.lean`; tied to the code by the `BODY` correspondence).  JSON, merged and
dynamic-block bodies are covered by the direct oracle only (see DESIGN.md).
-/
namespace HclModel.Body
variable {α β : Type}

/-- a freshly parsed body: nothing hidden, attribute names unique (the parser rejects redefinitions) -/
def NBody.fresh (b : NBody α β) : Prop :=
  b.hiddenAttrs = [] ∧ b.hiddenBlocks = [] ∧ (b.attrs.map (·.1)).Nodup

/-- Exhaustive processing returns exactly the matching items: each schema attribute present in the body
    once, in schema order; the blocks of wanted types with the right number of labels, in source order. -/
theorem content_exact (b : NBody α β) (s : Schema) (hb : b.fresh) (hs : s.nodup) :
    (b.content s).1.attrs = s.attrs.filterMap (fun as => (findAttr as.name b.attrs).map fun a => (as.name, a)) ∧
    (b.content s).1.blocks = b.blocks.filter (fun blk =>
      match wanted s blk.type with
      | some bs => blk.labels.length == bs.labelCount
      | none => false) :=
  Proofs.content_exact b s hb hs

/-- …and reports an error exactly when some item does not match: a required attribute is missing, a wanted
    block has the wrong number of labels, or an attribute / block is not in the schema. -/
theorem content_error_iff (b : NBody α β) (s : Schema) (hb : b.fresh) (hs : s.nodup) :
    (b.content s).2 = [] ↔
      ((∀ as ∈ s.attrs, as.required = true → (findAttr as.name b.attrs).isSome) ∧
       (∀ blk ∈ b.blocks, ∃ bs, wanted s blk.type = some bs ∧ blk.labels.length = bs.labelCount) ∧
       (∀ p ∈ b.attrs, ∃ as ∈ s.attrs, as.name = p.1)) :=
  Proofs.content_error_iff b s hb hs

/-- Partial processing leaves exactly the non-matching items visible in the remainder, unmodified and in order. -/
theorem partial_remain (b : NBody α β) (s : Schema) (hb : b.fresh) :
    (b.partialContent s).2.1.visibleAttrs = b.attrs.filter (fun p => !(s.attrs.any fun as => as.name == p.1)) ∧
    (b.partialContent s).2.1.visibleBlocks = b.blocks.filter (fun blk => !(s.blocks.any fun bs => bs.type == blk.type)) :=
  Proofs.partial_remain b s hb

/-- Two steps = one step: partial processing with `s₁`, then exhaustive processing of the remainder with a
    disjoint `s₂`, finds the same attributes, the same blocks in the same order per block type, and fails
    exactly when one exhaustive step with `s₁ ∪ s₂` fails. -/
theorem two_step (b : NBody α β) (s₁ s₂ : Schema) (hb : b.fresh) (h₁ : s₁.nodup) (h₂ : s₂.nodup) (hd : s₁.disjoint s₂) :
    let p := b.partialContent s₁
    let c₂ := p.2.1.content s₂
    let c := b.content (s₁.union s₂)
    c.1.attrs = p.1.attrs ++ c₂.1.attrs ∧
    (∀ ty, c.1.blocks.filter (·.type == ty) = (p.1.blocks ++ c₂.1.blocks).filter (·.type == ty)) ∧
    (c.2 = [] ↔ (p.2.2 = [] ∧ c₂.2 = [])) :=
  Proofs.two_step b s₁ s₂ hb h₁ h₂ hd

/-- non-vacuity -/
example :
    let b : NBody Nat Nat := { attrs := [("a", 1), ("b", 2)], blocks := [⟨"x", ["l"], 0⟩, ⟨"y", [], 1⟩, ⟨"x", ["m"], 2⟩] }
    let s₁ : Schema := ⟨[⟨"a", true⟩], [⟨"x", 1⟩]⟩
    let s₂ : Schema := ⟨[⟨"b", false⟩], [⟨"y", 0⟩]⟩
    ((b.partialContent s₁).2.1.content s₂).2 = [] ∧ (b.content (s₁.union s₂)).2 = [] ∧
    ((b.content (s₁.union s₂)).1.blocks.map (·.body)) = [0, 1, 2] := by decide

end HclModel.Body
