import HclModel.Dyn.Expand
import Proofs.FreeVars
import Proofs.DynBasic
import Proofs.DynWrite
import Proofs.DynEq
import Proofs.DynVars
import Proofs.DynTwo
/-!
# C18 — dynamic blocks expand to exactly the blocks they describe

`XBody` is the model of `dynblock.Expand(body, ctx)` (lazy, schema-driven, with hidden-name state and the
`unknownBody` wrapper; `HclModel/Dyn/Expand.lean`, tied to `ext/dynblock` by the `EXPAND` correspondence).
`writeOut` is the specification: the body with one block written per element.  A consumer (a decoder) sees a
body only through `Content` with the schema of each level (`STree`), the values of the attributes it gets, and
the body marks: `resolveX` / `resolveW` collect all of that, at every depth.
-/
namespace HclModel.Dyn
open HclModel.Body

mutual
/-- what the parser and `dynblock`'s documentation guarantee about a source body: attribute names unique in
    each body, no static block is called `dynamic`, and no dynamic block gives an empty `labels` list (for a
    block type without labels the real code rejects `labels = []` as an unsupported argument: an error, not a
    different value) -/
def SBody.wf : SBody → Bool
  | .mk attrs blocks => (attrs.map (·.1)).eraseDups.length == attrs.length && wfAll blocks
def wfAll : List SBlock → Bool
  | [] => true
  | .static t _ b :: rest => t != "dynamic" && b.wf && wfAll rest
  | .dyn _ _ _ labels c :: rest => (match labels with | some [] => false | _ => true) && c.wf && wfAll rest
end

mutual
/-- schemas name each attribute and block type once, and never the type `dynamic` -/
def STree.wf : STree → Bool
  | .mk attrs blocks =>
    (attrs.map (·.name)).eraseDups.length == attrs.length &&
    (blocks.map (·.1.type)).eraseDups.length == blocks.length &&
    stWfAll blocks
def stWfAll : List (BlockSchema × STree) → Bool
  | [] => true
  | (bs, st) :: rest => bs.type != "dynamic" && st.wf && stWfAll rest
end


/-! The proofs (`Proofs/Dyn*.lean`) use their own copies `SBody.ok` / `STree.ok` of the two predicates above
    (`Proofs/DynWf.lean`); they are the same functions. -/
mutual
theorem SBody.wf_eq_ok : ∀ b : SBody, b.wf = b.ok
  | .mk attrs blocks => by simp only [SBody.wf, SBody.ok, wfAll_eq_okAll blocks]
theorem wfAll_eq_okAll : ∀ l : List SBlock, wfAll l = okAll l
  | [] => by simp only [wfAll, okAll]
  | .static t ls b :: rest => by simp only [wfAll, okAll, SBody.wf_eq_ok b, wfAll_eq_okAll rest]
  | .dyn t fe itn labels c :: rest => by
    cases labels with
    | none => simp only [wfAll, okAll, SBody.wf_eq_ok c, wfAll_eq_okAll rest]
    | some l => cases l <;> simp only [wfAll, okAll, SBody.wf_eq_ok c, wfAll_eq_okAll rest]
end

mutual
theorem STree.wf_eq_ok : ∀ st : STree, st.wf = st.ok
  | .mk attrs blocks => by simp only [STree.wf, STree.ok, stWfAll_eq_stOkAll blocks]
theorem stWfAll_eq_stOkAll : ∀ l : List (BlockSchema × STree), stWfAll l = stOkAll l
  | [] => by simp only [stWfAll, stOkAll]
  | (bs, st) :: rest => by simp only [stWfAll, stOkAll, STree.wf_eq_ok st, stWfAll_eq_stOkAll rest]
end

/-! ### a concrete input used by the non-vacuity examples

```
a = 1
s "x" { b = 2 }
dynamic "d" {
  for_each = xs                       # ["p", "q"] in `ρ0`
  labels   = [d.value]
  content {
    v = d.key
    dynamic "e" {
      for_each = [d.value]
      iterator = it
      content { w = d.value           # the OUTER iterator
                u = it.key }
    }
  }
}
```
-/

/-- the evaluator model in the Go configuration, no functions -/
def exEv : Env → Expr → Out := fun ρ e => eval ⟨fun _ => none, false, false⟩ ρ e

def exSrc : SBody :=
  .mk [("a", .lit (.num {} 1))]
    [ .static "s" ["x"] (.mk [("b", .lit (.num {} 2))] []),
      .dyn "d" (.var "xs") none (some [.getAttr (.var "d") "value"])
        (.mk [("v", .getAttr (.var "d") "key")]
          [ .dyn "e" (.tuple [.getAttr (.var "d") "value"]) (some "it") none
              (.mk [("w", .getAttr (.var "d") "value"), ("u", .getAttr (.var "it") "key")] []) ]) ]

/-- a two-level schema tree: `a`, `s "…" { b }`, `d "…" { v  e { w u } }` -/
def exSt : STree :=
  .mk [⟨"a", true⟩]
    [ (⟨"s", 1⟩, .mk [⟨"b", false⟩] []),
      (⟨"d", 1⟩, .mk [⟨"v", false⟩] [(⟨"e", 0⟩, .mk [⟨"w", false⟩, ⟨"u", false⟩] [])]) ]

def exRho : Env := [("xs", .tuple {} [.str {} "p", .str {} "q"]), ("other", .num {} 1)]

/-- **Main theorem.**  Whenever the blocks can be written out at all (every `for_each` is a known collection,
    every label a known unmarked string), a consumer applying any schema tree sees through the expanded body
    exactly what it sees through the written-out body: the same attributes with the same values (the iterator
    bound to the element's key and value, marks of the collection applied), the same blocks in the same order
    with the same labels, at every nesting depth, static and generated blocks interleaved in source order. -/
theorem expand_eq_written_out (ev : Env → Expr → Out) (ρf ρ : Env) (st : STree) (src : SBody) (w : WBody)
    (fuel n : Nat) (hst : st.wf = true) (hsrc : src.wf = true)
    (hw : writeOut ev ρf fuel [] Fl.none src = some w) :
    resolveX ev ρf ρ n st { src := src } = resolveW ev ρ n st w :=
  Proofs.expand_eq_written_out ev ρf ρ st src w fuel n (STree.wf_eq_ok st ▸ hst) (SBody.wf_eq_ok src ▸ hsrc) hw

/-- non-vacuity: the input above can be written out (nesting depth 3), the hypotheses hold, and both sides are
    the expected tree: the static block, then one `d` block per element labelled by the element, each with one
    `e` block whose attribute `w` sees the outer iterator -/
example : ∃ w, writeOut exEv exRho 3 [] Fl.none exSrc = some w ∧ exSt.wf = true ∧ exSrc.wf = true ∧
    resolveW exEv [] 3 exSt w = resolveX exEv exRho [] 3 exSt { src := exSrc } ∧
    resolveX exEv exRho [] 3 exSt { src := exSrc } =
      .mk [("a", .num {} 1, [])]
        [("s", ["x"], {}, .mk [("b", .num {} 2, [])] []),
         ("d", ["p"], {}, .mk [("v", .num {} 0, [])]
            [("e", [], {}, .mk [("w", .str {} "p", []), ("u", .num {} 0, [])] [])]),
         ("d", ["q"], {}, .mk [("v", .num {} 1, [])]
            [("e", [], {}, .mk [("w", .str {} "q", []), ("u", .num {} 0, [])] [])])] :=
  ⟨_, rfl, rfl, rfl, rfl, rfl⟩

/-- Writing out is possible whenever every `for_each` and label evaluates as required: `writeOut` with enough
    fuel fails only for a reason visible in the source (non-vacuity of the main theorem's hypothesis is shown
    by the examples below). -/
theorem writeOut_fuel_mono (ev : Env → Expr → Out) (ρf : Env) (fuel : Nat) (its : Iters) (m : Fl) (src : SBody) (w : WBody)
    (h : writeOut ev ρf fuel its m src = some w) : writeOut ev ρf (fuel + 1) its m src = some w :=
  Proofs.writeOut_fuel_mono ev ρf fuel its m src w h

/-- non-vacuity: fuel 2 is not enough for the input above, 3 is, and 4 gives the same -/
example : writeOut exEv exRho 2 [] Fl.none exSrc = none ∧ (writeOut exEv exRho 3 [] Fl.none exSrc).isSome = true ∧
    writeOut exEv exRho 4 [] Fl.none exSrc = writeOut exEv exRho 3 [] Fl.none exSrc := ⟨rfl, rfl, rfl⟩

/-- Two steps = one step, for expanded bodies: partial processing with `s₁` and exhaustive processing of the
    remaining body with a disjoint `s₂` hand out the same attributes and, per block type, the same blocks as
    one exhaustive processing with the union (the remaining body keeps iterations and marks). -/
theorem expand_two_step (ev : Env → Expr → Out) (ρf : Env) (b : XBody) (s₁ s₂ : Schema)
    (hb : b.src.wf = true) (hh : b.hiddenAttrs = [] ∧ b.hiddenBlocks = [])
    (h₁ : s₁.nodup) (h₂ : s₂.nodup) (hd : s₁.disjoint s₂)
    (hdyn : ∀ bs ∈ s₁.blocks ++ s₂.blocks, bs.type ≠ "dynamic") :
    let p := b.partialContent ev ρf s₁
    let c₂ := (p.2.1.content ev ρf s₂).1
    let c := (b.content ev ρf (s₁.union s₂)).1
    c.attrs.map (fun a => (a.1, a.2.expr, a.2.its, a.2.marks, a.2.unknown)) =
      (p.1.attrs ++ c₂.attrs).map (fun a => (a.1, a.2.expr, a.2.its, a.2.marks, a.2.unknown)) ∧
    (∀ ty, (c.blocks.filter (·.type == ty)).map (fun x => (x.labels, x.body.its, x.body.marks, x.body.unknown)) =
      ((p.1.blocks ++ c₂.blocks).filter (·.type == ty)).map (fun x => (x.labels, x.body.its, x.body.marks, x.body.unknown))) :=
  Proofs.expand_two_step ev ρf b s₁ s₂ (SBody.wf_eq_ok b.src ▸ hb) hh h₁ h₂ hd hdyn

/-- non-vacuity: first `a` and the static `s` blocks, then the dynamic `d` blocks from the remaining body -/
example :
    let b : XBody := { src := exSrc }
    let s₁ : Schema := ⟨[⟨"a", true⟩], [⟨"s", 1⟩]⟩
    let s₂ : Schema := ⟨[], [⟨"d", 1⟩]⟩
    b.src.wf = true ∧ s₁.nodup ∧ s₂.nodup ∧ s₁.disjoint s₂ ∧ (∀ bs ∈ s₁.blocks ++ s₂.blocks, bs.type ≠ "dynamic") ∧
    (b.partialContent exEv exRho s₁).1.blocks.map (fun x => (x.type, x.labels)) = [("s", ["x"])] ∧
    ((b.partialContent exEv exRho s₁).2.1.content exEv exRho s₂).1.blocks.map (fun x => (x.type, x.labels)) =
      [("d", ["p"]), ("d", ["q"])] ∧
    ((b.partialContent exEv exRho s₁).2.1.content exEv exRho s₂).2 = [] ∧
    (b.content exEv exRho (s₁.union s₂)).1.blocks.map (fun x => (x.type, x.labels)) =
      [("s", ["x"]), ("d", ["p"]), ("d", ["q"])] := by
  refine ⟨rfl, by unfold Schema.nodup; decide, by unfold Schema.nodup; decide, by unfold Schema.disjoint; decide,
    by decide, rfl, rfl, rfl, rfl⟩

/-- Unknown `for_each`: the dynamic block stands for at most one block, and its body is an unknown body
    carrying the collection's marks. -/
theorem unknown_for_each (ev : Env → Expr → Out) (ρf : Env) (its : Iters) (lc : Nat) (type : String)
    (fe : Expr) (itn : Option String) (labels : Option (List Expr)) (content : SBody) (name : String) (m : Fl) (lexprs : List Expr)
    (h : decodeSpec ev ρf its lc type fe itn labels = .unknown name m lexprs) :
    (expandDyn ev ρf its lc type fe itn labels content).1.length ≤ 1 ∧
    ∀ blk ∈ (expandDyn ev ρf its lc type fe itn labels content).1, blk.body.unknown = some m ∧ blk.body.marks = m :=
  Proofs.unknown_for_each ev ρf its lc type fe itn labels content name m lexprs h

/-- non-vacuity: an unknown, marked `for_each` gives exactly one block, labelled through the iterator -/
example :
    decodeSpec exEv [("xs", .unk ⟨true, false⟩ .dyn)] [] 1 "d" (.var "xs") none (some [.lit (.str {} "l")]) =
      .unknown "d" ⟨true, false⟩ [.lit (.str {} "l")] ∧
    (expandDyn exEv [("xs", .unk ⟨true, false⟩ .dyn)] [] 1 "d" (.var "xs") none (some [.lit (.str {} "l")])
      (.mk [("v", .var "d")] [])).1.map (fun x => (x.type, x.labels, x.body.unknown)) =
      [("d", ["l"], some ⟨true, false⟩)] := ⟨rfl, rfl⟩

/-- Everything inside an unknown body is unknown: each attribute it hands out evaluates, in every scope, to the
    unknown value of unknown type carrying the marks and no diagnostics, and every nested block's body is again
    an unknown body with the same marks (so a decoder returns an unknown value of the implied type for the
    whole part, C08). -/
theorem unknown_part (ev : Env → Expr → Out) (ρf : Env) (b : XBody) (um : Fl) (s : Schema) (partialMode : Bool)
    (h : b.unknown = some um) :
    (∀ a ∈ (b.contentCore ev ρf s partialMode).1.attrs, ∀ ρ, a.2.value ev ρ = (Val.dynVal.withFl um, [])) ∧
    (∀ blk ∈ (b.contentCore ev ρf s partialMode).1.blocks, blk.body.unknown = some um) :=
  Proofs.unknown_part ev ρf b um s partialMode h

/-- non-vacuity: the unknown version of the input above hands out `a` and all three blocks -/
example :
    let c := (({ src := exSrc, unknown := some ⟨true, false⟩ } : XBody).contentCore exEv exRho exSt.schema false).1
    c.attrs.map (fun a => (a.1, a.2.value exEv [])) = [("a", .unk ⟨true, false⟩ .dyn, [])] ∧
    c.blocks.map (fun x => (x.type, x.labels, x.body.unknown)) =
      [("s", ["x"], some ⟨true, false⟩), ("d", ["p"], some ⟨true, false⟩), ("d", ["q"], some ⟨true, false⟩)] :=
  ⟨rfl, rfl⟩

/-- an unknown body has the shape of its template: same attribute names, same blocks -/
theorem unknown_shape (ev : Env → Expr → Out) (ρf : Env) (b : XBody) (um : Fl) (s : Schema) (partialMode : Bool) :
    let c := ({ b with unknown := none }.contentCore ev ρf s partialMode).1
    let cu := ({ b with unknown := some um }.contentCore ev ρf s partialMode).1
    cu.attrs.map (·.1) = c.attrs.map (·.1) ∧
    cu.blocks.map (fun x => (x.type, x.labels)) = c.blocks.map (fun x => (x.type, x.labels)) :=
  Proofs.unknown_shape ev ρf b um s partialMode

/-- **The variables reported for expansion are sufficient to perform it.**  If evaluation depends only on the
    free variables of an expression, two scopes that agree on the names `expandVars` reports give the same
    expansion: the same blocks with the same labels and the same unknown parts, at every depth. -/
theorem expand_vars_sufficient (ev : Env → Expr → Out)
    (hev : ∀ e ρ σ, AgreeOn (fv e) ρ σ → ev ρ e = ev σ e)
    (st : STree) (src : SBody) (ρf σf : Env) (n : Nat) (hst : st.wf = true) (hsrc : src.wf = true)
    (h : AgreeOn (expandVars n st [] src) ρf σf) :
    shapeX ev ρf n st { src := src } = shapeX ev σf n st { src := src } :=
  Proofs.expand_vars_sufficient ev hev st src ρf σf n (STree.wf_eq_ok st ▸ hst) (SBody.wf_eq_ok src ▸ hsrc) h

/-- The instance for the evaluator model: its frame property is C07 (`vars_complete`). -/
theorem expand_vars_sufficient_eval (cx : Cx)
    (st : STree) (src : SBody) (ρf σf : Env) (n : Nat) (hst : st.wf = true) (hsrc : src.wf = true)
    (h : AgreeOn (expandVars n st [] src) ρf σf) :
    shapeX (fun ρ e => eval cx ρ e) ρf n st { src := src } = shapeX (fun ρ e => eval cx ρ e) σf n st { src := src } :=
  expand_vars_sufficient (fun ρ e => eval cx ρ e) (fun e ρ σ ha => HclModel.Proofs.eval_agree cx e ρ σ ha)
    st src ρf σf n hst hsrc h

/-- non-vacuity: for the input above only `xs` is reported (`d` and `it` are iterators), so a scope that
    differs elsewhere gives the same expansion, which is the expected one -/
example : expandVars 3 exSt [] exSrc = ["xs"] ∧
    AgreeOn (expandVars 3 exSt [] exSrc) exRho [("other", .str {} "changed"), ("xs", .tuple {} [.str {} "p", .str {} "q"])] ∧
    shapeX exEv exRho 3 exSt { src := exSrc } =
      .mk [("s", ["x"], false, .mk []),
           ("d", ["p"], false, .mk [("e", [], false, .mk [])]),
           ("d", ["q"], false, .mk [("e", [], false, .mk [])])] := by
  refine ⟨rfl, ?_, rfl⟩
  intro x hx
  have : x = "xs" := by simpa using (show x ∈ ["xs"] from hx)
  subst this
  rfl

end HclModel.Dyn
