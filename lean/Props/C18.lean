import HclModel.Dyn.Expand
/-!
# C18 — dynamic blocks expand to exactly the blocks they describe

`XBody` is the model of `dynblock.Expand(body, ctx)` (lazy, schema-driven, with hidden-name state and the
`unknownBody` wrapper; `HclModel/Dyn/Expand.lean`, tied to `ext/dynblock` by the `EXPAND` correspondence).
`writeOut` is the specification: the body with one block written per element.  A consumer (a decoder) sees a
body only through `Content` with the schema of each level (`STree`), the values of the attributes it gets, and
the body marks: `resolveX` / `resolveW` collect all of that, at every depth.
-/
namespace HclModel.Dyn
open HclModel.Body

mutual
/-- what the parser and `dynblock`'s documentation guarantee about a source body: attribute names unique in
    each body, no static block is called `dynamic`, and no dynamic block gives an empty `labels` list (for a
    block type without labels the real code rejects `labels = []` as an unsupported argument: an error, not a
    different value) -/
def SBody.wf : SBody → Bool
  | .mk attrs blocks => (attrs.map (·.1)).eraseDups.length == attrs.length && wfAll blocks
def wfAll : List SBlock → Bool
  | [] => true
  | .static t _ b :: rest => t != "dynamic" && b.wf && wfAll rest
  | .dyn _ _ _ labels c :: rest => (match labels with | some [] => false | _ => true) && c.wf && wfAll rest
end

mutual
/-- schemas name each attribute and block type once, and never the type `dynamic` -/
def STree.wf : STree → Bool
  | .mk attrs blocks =>
    (attrs.map (·.name)).eraseDups.length == attrs.length &&
    (blocks.map (·.1.type)).eraseDups.length == blocks.length &&
    stWfAll blocks
def stWfAll : List (BlockSchema × STree) → Bool
  | [] => true
  | (bs, st) :: rest => bs.type != "dynamic" && st.wf && stWfAll rest
end

/-- **Main theorem.**  Whenever the blocks can be written out at all (every `for_each` is a known collection,
    every label a known unmarked string), a consumer applying any schema tree sees through the expanded body
    exactly what it sees through the written-out body: the same attributes with the same values (the iterator
    bound to the element's key and value, marks of the collection applied), the same blocks in the same order
    with the same labels, at every nesting depth, static and generated blocks interleaved in source order. -/
theorem expand_eq_written_out (ev : Env → Expr → Out) (ρf ρ : Env) (st : STree) (src : SBody) (w : WBody)
    (fuel n : Nat) (hst : st.wf = true) (hsrc : src.wf = true)
    (hw : writeOut ev ρf fuel [] Fl.none src = some w) :
    resolveX ev ρf ρ n st { src := src } = resolveW ev ρ n st w := by
  sorry

/-- Writing out is possible whenever every `for_each` and label evaluates as required: `writeOut` with enough
    fuel fails only for a reason visible in the source (non-vacuity of the main theorem's hypothesis is shown
    by the examples below). -/
theorem writeOut_fuel_mono (ev : Env → Expr → Out) (ρf : Env) (fuel : Nat) (its : Iters) (m : Fl) (src : SBody) (w : WBody)
    (h : writeOut ev ρf fuel its m src = some w) : writeOut ev ρf (fuel + 1) its m src = some w := by
  sorry

/-- Two steps = one step, for expanded bodies: partial processing with `s₁` and exhaustive processing of the
    remaining body with a disjoint `s₂` hand out the same attributes and, per block type, the same blocks as
    one exhaustive processing with the union (the remaining body keeps iterations and marks). -/
theorem expand_two_step (ev : Env → Expr → Out) (ρf : Env) (b : XBody) (s₁ s₂ : Schema)
    (hb : b.src.wf = true) (hh : b.hiddenAttrs = [] ∧ b.hiddenBlocks = [])
    (h₁ : s₁.nodup) (h₂ : s₂.nodup) (hd : s₁.disjoint s₂)
    (hdyn : ∀ bs ∈ s₁.blocks ++ s₂.blocks, bs.type ≠ "dynamic") :
    let p := b.partialContent ev ρf s₁
    let c₂ := (p.2.1.content ev ρf s₂).1
    let c := (b.content ev ρf (s₁.union s₂)).1
    c.attrs.map (fun a => (a.1, a.2.expr, a.2.its, a.2.marks, a.2.unknown)) =
      (p.1.attrs ++ c₂.attrs).map (fun a => (a.1, a.2.expr, a.2.its, a.2.marks, a.2.unknown)) ∧
    (∀ ty, (c.blocks.filter (·.type == ty)).map (fun x => (x.labels, x.body.its, x.body.marks, x.body.unknown)) =
      ((p.1.blocks ++ c₂.blocks).filter (·.type == ty)).map (fun x => (x.labels, x.body.its, x.body.marks, x.body.unknown))) := by
  sorry

/-- Unknown `for_each`: the dynamic block stands for at most one block, and its body is an unknown body
    carrying the collection's marks. -/
theorem unknown_for_each (ev : Env → Expr → Out) (ρf : Env) (its : Iters) (lc : Nat) (type : String)
    (fe : Expr) (itn : Option String) (labels : Option (List Expr)) (content : SBody) (name : String) (m : Fl) (lexprs : List Expr)
    (h : decodeSpec ev ρf its lc type fe itn labels = .unknown name m lexprs) :
    (expandDyn ev ρf its lc type fe itn labels content).1.length ≤ 1 ∧
    ∀ blk ∈ (expandDyn ev ρf its lc type fe itn labels content).1, blk.body.unknown = some m ∧ blk.body.marks = m := by
  sorry

/-- Everything inside an unknown body is unknown: each attribute it hands out evaluates, in every scope, to the
    unknown value of unknown type carrying the marks and no diagnostics, and every nested block's body is again
    an unknown body with the same marks (so a decoder returns an unknown value of the implied type for the
    whole part, C08). -/
theorem unknown_part (ev : Env → Expr → Out) (ρf : Env) (b : XBody) (um : Fl) (s : Schema) (partialMode : Bool)
    (h : b.unknown = some um) :
    (∀ a ∈ (b.contentCore ev ρf s partialMode).1.attrs, ∀ ρ, a.2.value ev ρ = (Val.dynVal.withFl um, [])) ∧
    (∀ blk ∈ (b.contentCore ev ρf s partialMode).1.blocks, blk.body.unknown = some um) := by
  sorry

/-- an unknown body has the shape of its template: same attribute names, same blocks -/
theorem unknown_shape (ev : Env → Expr → Out) (ρf : Env) (b : XBody) (um : Fl) (s : Schema) (partialMode : Bool) :
    let c := ({ b with unknown := none }.contentCore ev ρf s partialMode).1
    let cu := ({ b with unknown := some um }.contentCore ev ρf s partialMode).1
    cu.attrs.map (·.1) = c.attrs.map (·.1) ∧
    cu.blocks.map (fun x => (x.type, x.labels)) = c.blocks.map (fun x => (x.type, x.labels)) := by
  sorry

/-- **The variables reported for expansion are sufficient to perform it.**  If evaluation depends only on the
    free variables of an expression, two scopes that agree on the names `expandVars` reports give the same
    expansion: the same blocks with the same labels and the same unknown parts, at every depth. -/
theorem expand_vars_sufficient (ev : Env → Expr → Out)
    (hev : ∀ e ρ σ, AgreeOn (fv e) ρ σ → ev ρ e = ev σ e)
    (st : STree) (src : SBody) (ρf σf : Env) (n : Nat) (hst : st.wf = true) (hsrc : src.wf = true)
    (h : AgreeOn (expandVars n st [] src) ρf σf) :
    shapeX ev ρf n st { src := src } = shapeX ev σf n st { src := src } := by
  sorry

end HclModel.Dyn
