import Proofs.Decode
/-!
# C08 — decoding always yields a value of the specification's implied type

`decode` / `impliedType` model hcldec (`HclModel/Dec/Decode.lean`; the direct oracle compares the real
`hcldec.Decode` with `ImpliedType` over generated spec trees and bodies).  A `crash` stands for a Go panic.
-/
namespace HclModel.Dec

/-- Whatever the body contains — missing, extra, mistyped or duplicated items — a decode that returns at all
    returns a value whose type conforms to the implied type (equal wherever the implied type is not dynamic). -/
theorem decode_conforms_partial (s : Spec) (hw : wf s = true) (hok : okSpec s = true)
    (attrs : List DAttr) (blocks : List DBlock) (labels : List String) (v : Val) (err : Bool)
    (h : decode s attrs blocks labels = .ok v err) : conforms v.typeOf (impliedType s) = true :=
  Proofs.decode_conforms s hw hok attrs blocks labels v err h

/-- The full-strength statement (no `okSpec`)… -/
def DecodeConformsFull : Prop :=
  ∀ (s : Spec), wf s = true → ∀ attrs blocks labels v err,
    decode s attrs blocks labels = .ok v err → conforms v.typeOf (impliedType s) = true

/-- …fails for a BlockList over a dynamically typed attribute: `b { a = 1 }` + `b { a = "x" }` under
    `BlockListSpec{b, AttrSpec{a, any}}` returns `cty.DynamicVal`, not a list (pinned by existing tests). -/
theorem blocklist_dynamic_counterexample : ¬ DecodeConformsFull := by
  intro h
  -- `decode` is defined by well-founded recursion (no kernel reduction): unfold it with its equation lemmas
  have hd : decode (.blockList "b" (.attr "a" .dyn false) 0 0) []
      [.mk "b" [] [⟨"a", .num {} 1, false⟩] [], .mk "b" [] [⟨"a", .str {} "x", false⟩] []] [] = .ok Val.dynVal true := by
    simp [decode, blocksOf, decodeBlocks, DBlock.type, DBlock.attrs, DBlock.blocks, DBlock.labels, findAttr,
      Proofs.convert_dyn, Val.typeOf]
    decide
  have := h (.blockList "b" (.attr "a" .dyn false) 0 0) (by decide) []
    [.mk "b" [] [⟨"a", .num {} 1, false⟩] [], .mk "b" [] [⟨"a", .str {} "x", false⟩] []] [] Val.dynVal true hd
  revert this; decide

/-- …and for a BlockMap with two labels on a body without such blocks: `map(string)` instead of the implied
    `map(map(string))`. -/
theorem blockmap_multilabel_empty_counterexample :
    decode (.blockMap "b" 2 (.attr "a" .str false)) [] [] [] = .ok (.map {} .str []) false ∧
    impliedType (.blockMap "b" 2 (.attr "a" .str false)) = .map (.map .str) := by
  constructor
  · simp [decode, blocksOf, decodeMap, hasDyn, impliedType]; rfl
  · rfl

/-- non-vacuity: a spec using most kinds, decoded from a perturbed body (missing attribute, extra block) -/
example :
    (match decode (.object [("l", .blockList "svc" (.object [("n", .attr "name" .str true), ("id", .blockLabel 0)]) 0 0),
                            ("m", .blockMap "kv" 1 (.attr "v" .num false)),
                            ("x", .default (.attr "x" .num false) (.literal (.num {} 5)))])
        [] [.mk "svc" ["a"] [⟨"name", .str {} "n1", false⟩] [], .mk "svc" ["b"] [] [], .mk "kv" ["k"] [⟨"v", .str {} "7", false⟩] []] [] with
     | .ok v _ => some v.typeOf
     | .crash _ => none) =
    some (.object [("l", .list (.object [("n", .str), ("id", .str)])), ("m", .map .num), ("x", .num)]) := by
  have h1 : convert (.str {} "n1") .str = .ok (.str {} "n1") := Proofs.convert_self _ _ rfl
  -- whether or not "7" converts to a number (`classifyNumStr`), the attribute's value has type number
  have hc : ∀ v, convert (.str {} "7") .num = .ok v → v.typeOf = .num := fun v h =>
    Proofs.conforms_eq _ _ (Proofs.convert_conforms _ _ _ h) rfl
  rcases hr : convert (.str {} "7") .num with e | v
  · simp [decode, decodeFields, blocksOf, decodeBlocks, decodeMap, mtInsert, lookupKey, insertSorted, mtVal, mtVals,
      DBlock.type, DBlock.attrs, DBlock.blocks, DBlock.labels, findAttr, h1, hr, Val.typeOf, impliedType, hasDyn,
      Val.isNull, Val.typeOfFields, Proofs.ty_beq_refl]
  · have := hc v hr
    simp [decode, decodeFields, blocksOf, decodeBlocks, decodeMap, mtInsert, lookupKey, insertSorted, mtVal, mtVals,
      DBlock.type, DBlock.attrs, DBlock.blocks, DBlock.labels, findAttr, h1, hr, Val.typeOf, impliedType, hasDyn,
      Val.isNull, Val.typeOfFields, Proofs.ty_beq_refl, this]

end HclModel.Dec
