import Proofs.Decode
/-!
# C08 — decoding always yields a value of the specification's implied type

`decode` / `impliedType` model hcldec (`HclModel/Dec/Decode.lean`; the direct oracle compares the real
`hcldec.Decode` with `ImpliedType` over generated spec trees and bodies).  A `crash` stands for a Go panic.
-/
namespace HclModel.Dec

/-- Whatever the body contains — missing, extra, mistyped or duplicated items — a decode that returns at all
    returns a value whose type conforms to the implied type (equal wherever the implied type is not dynamic). -/
theorem decode_conforms_partial (s : Spec) (hw : wf s = true) (hok : okSpec s = true)
    (attrs : List DAttr) (blocks : List DBlock) (labels : List String) (v : Val) (err : Bool)
    (h : decode s attrs blocks labels = .ok v err) : conforms v.typeOf (impliedType s) = true :=
  Proofs.decode_conforms s hw hok attrs blocks labels v err h

/-- The full-strength statement (no `okSpec`)… -/
def DecodeConformsFull : Prop :=
  ∀ (s : Spec), wf s = true → ∀ attrs blocks labels v err,
    decode s attrs blocks labels = .ok v err → conforms v.typeOf (impliedType s) = true

/-- …fails for a BlockList over a dynamically typed attribute: `b { a = 1 }` + `b { a = "x" }` under
    `BlockListSpec{b, AttrSpec{a, any}}` returns `cty.DynamicVal`, not a list (pinned by existing tests). -/
theorem blocklist_dynamic_counterexample : ¬ DecodeConformsFull := by
  intro h
  -- `decode` is defined by well-founded recursion (no kernel reduction): unfold it with its equation lemmas
  have hd : decode (.blockList "b" (.attr "a" .dyn false) 0 0) []
      [.mk "b" [] [⟨"a", .num {} 1, false⟩] [], .mk "b" [] [⟨"a", .str {} "x", false⟩] []] [] = .ok Val.dynVal true := by
    simp [decode, blocksOf, decodeBlocks, DBlock.type, DBlock.attrs, DBlock.blocks, DBlock.labels, findAttr,
      Proofs.convert_dyn, Val.typeOf]
    decide
  have := h (.blockList "b" (.attr "a" .dyn false) 0 0) (by decide) []
    [.mk "b" [] [⟨"a", .num {} 1, false⟩] [], .mk "b" [] [⟨"a", .str {} "x", false⟩] []] [] Val.dynVal true hd
  revert this; decide

/-- …and for a BlockMap with two labels on a body without such blocks: `map(string)` instead of the implied
    `map(map(string))`. -/
theorem blockmap_multilabel_empty_counterexample :
    decode (.blockMap "b" 2 (.attr "a" .str false)) [] [] [] = .ok (.map {} .str []) false ∧
    impliedType (.blockMap "b" 2 (.attr "a" .str false)) = .map (.map .str) := by
  constructor
  · simp [decode, blocksOf, decodeMap, hasDyn, impliedType]; rfl
  · rfl

/-- The places where the code hands values of different types to `cty.MapVal` are crashes of the model (so the
    theorem above says nothing about them), and the map takes the type of its values, not the declared one:
    `b { x = 1, y = "s" }` under `BlockAttrsSpec{b, any}` panics; `b { x = 1, y = <cty.DynamicVal> }` is a
    `map(number)` whose `y` is an unknown number. -/
theorem blockattrs_dynamic_examples :
    decode (.blockAttrs "b" .dyn false) []
        [.mk "b" [] [⟨"x", .num {} 1, false⟩, ⟨"y", .str {} "s", false⟩] []] [] = .crash "inconsistent map element types" ∧
    decode (.blockAttrs "b" .dyn false) [] [.mk "b" [] [⟨"x", .num {} 1, false⟩, ⟨"y", Val.dynVal, true⟩] []] [] =
      .ok (.map {} .num [("x", .num {} 1), ("y", .unk {} .num)]) true := by
  have h1 : (Ty.num == Ty.dyn) = false := rfl
  have h2 : (Ty.str == Ty.dyn) = false := rfl
  have h3 : (Ty.str == Ty.num) = false := rfl
  have h4 : (Ty.dyn == Ty.dyn) = true := rfl
  have h5 : (Ty.num == Ty.num) = true := rfl
  constructor
  · simp [decode, blocksOf, DBlock.type, DBlock.attrs, Proofs.convert_dyn, hasDyn, insertSorted, mapVal, mapElemTy,
      Val.typeOf, h1, h2, h3]
  · simp [decode, blocksOf, DBlock.type, DBlock.attrs, Proofs.convert_dyn, hasDyn, insertSorted, mapVal, mapElemTy,
      retype, Val.typeOf, Val.dynVal, h1, h4, h5]
    rfl

/-- Likewise for a BlockMap whose elements differ in type (here through a DefaultSpec outside `wf`):
    `b "k" { a = "a" }` + `b "l" {}` under `BlockMapSpec{b, [key], Default{Attr{a, string}, Literal{1}}}` panics. -/
theorem blockmap_mixed_example :
    decode (.blockMap "b" 1 (.default (.attr "a" .str false) (.literal (.num {} 1)))) []
      [.mk "b" ["k"] [⟨"a", .str {} "a", false⟩] [], .mk "b" ["l"] [] []] [] = .crash "inconsistent map element types" := by
  have h1 : convert (.str {} "a") .str = .ok (.str {} "a") := Proofs.convert_self _ _ rfl
  have h2 : (Ty.str == Ty.dyn) = false := rfl
  have h3 : (Ty.num == Ty.dyn) = false := rfl
  have h4 : (Ty.num == Ty.str) = false := rfl
  simp [decode, blocksOf, decodeMap, mtInsert, lookupKey, insertSorted, mtVal, mtVals, mapVal, mapElemTy, DBlock.type,
    DBlock.attrs, DBlock.blocks, DBlock.labels, findAttr, h1, h2, h3, h4, Val.typeOf, impliedType, hasDyn, Val.isNull]

/-- Without label names BlockMap / BlockObject panic only on meeting a block (`Labels[:len(LabelNames)-1]`). -/
theorem no_label_names_examples :
    decode (.blockMap "b" 0 (.attr "a" .str false)) [] [] [] = .ok (.map {} .str []) false ∧
    decode (.blockObject "b" 0 (.attr "a" .str false)) [] [] [] = .ok (.object {} []) false ∧
    decode (.blockMap "b" 0 (.attr "a" .str false)) [] [.mk "b" [] [] []] [] = .crash "BlockMapSpec without labels" ∧
    decode (.blockObject "b" 0 (.attr "a" .str false)) [] [.mk "b" [] [] []] [] = .crash "BlockObjectSpec without labels" := by
  refine ⟨?_, ?_, ?_, ?_⟩
  · simp [decode, blocksOf, decodeMap, hasDyn, impliedType]; rfl
  · simp [decode, blocksOf, decodeMap, mtObj, mtObjs]; rfl
  · simp [decode, blocksOf, DBlock.type, hasDyn, impliedType]
  · simp [decode, blocksOf, DBlock.type]

/-- non-vacuity: a spec using most kinds, decoded from a perturbed body (missing attribute, extra block) -/
example :
    (match decode (.object [("l", .blockList "svc" (.object [("n", .attr "name" .str true), ("id", .blockLabel 0)]) 0 0),
                            ("m", .blockMap "kv" 1 (.attr "v" .num false)),
                            ("x", .default (.attr "x" .num false) (.literal (.num {} 5)))])
        [] [.mk "svc" ["a"] [⟨"name", .str {} "n1", false⟩] [], .mk "svc" ["b"] [] [], .mk "kv" ["k"] [⟨"v", .str {} "7", false⟩] []] [] with
     | .ok v _ => some v.typeOf
     | .crash _ => none) =
    some (.object [("l", .list (.object [("n", .str), ("id", .str)])), ("m", .map .num), ("x", .num)]) := by
  have h1 : convert (.str {} "n1") .str = .ok (.str {} "n1") := Proofs.convert_self _ _ rfl
  -- whether or not "7" converts to a number (`classifyNumStr`), the attribute's value has type number
  have hc : ∀ v, convert (.str {} "7") .num = .ok v → v.typeOf = .num := fun v h =>
    Proofs.conforms_eq _ _ (Proofs.convert_conforms _ _ _ h) rfl
  have hnd : (Ty.num == Ty.dyn) = false := rfl
  rcases hr : convert (.str {} "7") .num with e | v
  · simp [decode, decodeFields, blocksOf, decodeBlocks, decodeMap, mtInsert, lookupKey, insertSorted, mtVal, mtVals,
      mapVal, mapElemTy, hnd, DBlock.type, DBlock.attrs, DBlock.blocks, DBlock.labels, findAttr, h1, hr, Val.typeOf, impliedType, hasDyn,
      Val.isNull, Val.typeOfFields, Proofs.ty_beq_refl]
  · have := hc v hr
    simp [decode, decodeFields, blocksOf, decodeBlocks, decodeMap, mtInsert, lookupKey, insertSorted, mtVal, mtVals,
      mapVal, mapElemTy, hnd, DBlock.type, DBlock.attrs, DBlock.blocks, DBlock.labels, findAttr, h1, hr, Val.typeOf, impliedType, hasDyn,
      Val.isNull, Val.typeOfFields, Proofs.ty_beq_refl, this]

end HclModel.Dec
