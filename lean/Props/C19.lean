import Proofs.Taint
import Proofs.TextWriter
/-!
# C19 — diagnostics never reveal the content of marked values (expression evaluation)

`eval` is the evaluator model (`HclModel/Expr/Eval.lean`), tied to the Go evaluator by the `EVAL`
correspondence; a diagnostic of the model is `⟨site, frags⟩` where `frags` are the values whose content the
message echoes.  The `EVAL` answer carries the fragments (with their taint) and `fclean [] e`, and the `FRAGS`
correspondence of the harness (`props/c19/corr.go`) checks on generated `for` expressions that the Detail of
the real "Duplicate object key" diagnostic names the key iff the model's diagnostic has that key as a fragment,
that an echoed string which occurs in the scope only inside marked values is a tainted fragment, and that
neither happens when the side condition of `taint_partial` holds.  Reading the Go code,
that diagnostic (`ForExpr.Value`) is the only place where expression evaluation puts run-time value content
into Summary / Detail; since the fix it does so only while none of the marks collected so far (collection,
`if` clause, key expressions of this and earlier iterations) is non-empty, which is the model's
`if st.marks.m then [] else [.str kf k]`.

## The ghost taint

Every value node carries, beside the mark `m`, a ghost flag `g` that the Go values do not have: "this content
entered the evaluation inside a marked value".  The wire format sets it at and below every marked node
(`valOfSexp`) and erases it (`valDump`); it never influences a value, a mark or a diagnostic's presence.
The evaluator model copies `g` wherever it copies or derives content, also where the mark is legitimately
removed: `Unmark` keeps it, the keys and elements handed to a `for` body keep it, operators / templates /
conditionals / function results join it from everything they look at.  Scopes:

* `ghostWF false v` (`HclModel/Expr/Rel.lean`): at and below a marked node everything is tainted;
* `tw false v` (`HclModel/Expr/Taint.lean`, with the other definitions used here): every tainted node is
  marked or below a marked node ("nothing tainted is exposed");
* `exactEnv ρ`: both, for every binding — `g` is exactly "at or below a mark";
  `twEnv ρ`: the second alone (what the theorems need).

`fragsClean ds`: every fragment of every diagnostic in `ds` is `untainted` (no `g` at any node).

## What is proved, and what is not

`TaintFull` (every expression, every exact scope) is **false** for the Go code and for the model:
`ForExpr` / splat bodies see the elements and keys of a collection that is marked at the top *without* the
mark, so a "Duplicate object key" of a nested `for` with an unmarked collection echoes them
(`taint_full_false`, `taint_full_false_key`; recorded finding of the direct oracle, key suffix
`via-unmarked-scope-variable`).

`taint_partial` holds for every configuration `C` (the Go one and the repaired ones) under the decidable
side condition `fclean [] e`, a static analysis (`HclModel/Expr/Taint.lean`, ~80 lines with `vclean`):
it tracks the set `L` of variables that may hold exposed taint — the iteration variables of the enclosing
`for` / splat bodies, except those of a `for` whose collection is a tuple constructor or literal (never marked
at the top) that itself exposes nothing (`bodyVars`) — and asks of every non-grouping object `for` that

* its key expression does not depend on a variable in `L` nor on its own iteration variables
  (`vclean (iter ++ L) key`), or
* its collection does not depend on a variable in `L` and its key expression depends on no variable in `L`
  other than its own iteration variables (then the collection is marked, and the key is not echoed, or its
  elements expose nothing).

"Depends" is syntactic (free variables, through nested bodies); literals must not expose taint.
Excluded: exactly the shape of the counterexamples, a non-grouping object `for` inside a loop body whose key
(or whose collection, for keys built from its own iterators) mentions a variable of an enclosing loop.
`taint_simple` is the coarser syntactic corollary: literals free of flags, and no non-grouping object `for`
inside any `for` / splat body.  At top level (no enclosing loop) every expression passes:
`{for k, v in coll : key => val}` is covered whatever `coll`, `key`, `val` are, provided their own
sub-expressions pass.

Functions: `TaintFuncs F` — an implementation called with arguments that carry no taint at all does
not return exposed taint (any implementation returning flag-free values: `Proofs.taintFuncs_of_flagFree`;
the library of the wire protocol: `Proofs.taintFuncs_std`).  `callFunc` re-applies the join of all argument
flags to the result, as `function.Call` does with the marks.  Error messages of implementations are not
fragments (outside the guarantee).

`taint_value`: under `vclean [] e` the *value* of an expression exposes no taint either — whatever a
caller echoes of a result that it unmarks itself is outside this model.

## Mark-dropping sites (findings of C06) in terms of taint

* `obj[key]` with a marked key (`hcl.Index`, object case, `key.Unmark()`): the Go configuration drops the
  key's flags altogether, mark and ghost; the selected attribute is not tainted.  In the property's terms the
  attribute is content of the (unmarked) object, not of the marked key — *which* attribute was selected is
  an implicit flow that C19 does not speak about (`index_marked_key_untainted` below; with `keepKeyMarks` the
  result carries both flags of the key).  List / tuple / map indexing joins the key's flags.
* unknown operands (`-x`, `!x`, unknown index keys, `tjoin`, unknown `for` collections of dynamic type, …):
  a fresh unknown without flags — it has no content.
* conditionals: the result carries the join of the flags of condition and both branches (also `g`);
  diagnostics of the branch not taken are dropped or kept (`keepDropped`), either way they come from
  sub-evaluations.
* `for` / splat / call expansion: the collection is unmarked for iteration; elements and keys keep `g`.
  This is the one place where tainted content is exposed (to the body scope), hence the side condition.

Not modelled: fragments are *value* content only.  Type descriptions in messages (attribute names of a marked
object in "Inconsistent conditional result types" and in conversion errors) are not fragments of the model;
the direct oracle records those leaks (`leak:inconsistent-conditional-result-types-detail`,
`leak:incorrect-attribute-value-type-detail`).  Body decoding is outside the evaluator model.  The text
diagnostic writer, which prints the values of the variables referenced by `Expression` from `EvalContext`,
has its own model and theorems: last section of this file.
-/
namespace HclModel
open Proofs

/-- The property for expression evaluation, full strength: in a scope whose ghost taint is exactly "at or
    below a mark", no diagnostic of the Go configuration echoes tainted content.  **False.** -/
def TaintFull : Prop :=
  ∀ (F : Funcs), TaintFuncs F → ∀ (e : Expr) (ρ : Env), exactEnv ρ → litsFree e = true →
    fragsClean (eval { funcs := F } ρ e).2

private abbrev M : Fl := ⟨true, true⟩      -- marked (and therefore tainted)
private abbrev T : Fl := ⟨false, true⟩     -- below a mark: tainted, not marked itself
private abbrev N : Fl := {}

/-- `[for s in sec : {for k in [s, s] : k => 1}]` -/
def leakExpr : Expr :=
  .forTuple "" "s" (.var "sec")
    (.forObject "" "k" (.tuple [.var "s", .var "s"]) (.var "k") (.lit (.num N 1)) none false) none

/-- `sec` = a marked tuple holding one string -/
def leakEnv : Env := [("sec", .tuple M [.str T "hunter2"])]

theorem leakEnv_exact : exactEnv leakEnv := by
  intro p hp
  simp only [leakEnv, List.mem_singleton] at hp
  subst hp
  exact ⟨rfl, rfl⟩

/-- The element of a collection marked at the top reaches the body of a `for` without the mark; the
    nested `for` (unmarked collection, unmarked key) echoes it. -/
theorem taint_full_false : ¬ TaintFull := by
  intro h
  have h1 := h (fun _ => none) taintFuncs_empty leakExpr leakEnv leakEnv_exact rfl
  have hd : (eval { funcs := fun _ => none } leakEnv leakExpr).2 =
      [⟨"Duplicate object key", [.str T "hunter2"]⟩] := by rfl
  rw [hd] at h1
  have := h1 _ (List.mem_singleton.mpr rfl) _ (List.mem_singleton.mpr rfl)
  revert this
  decide

/-- `[for k, v in sec : {for x in [k, k] : x => 1}]` with `sec` a marked map: the same for a key. -/
theorem taint_full_false_key : ¬ TaintFull := by
  intro h
  have h1 := h (fun _ => none) taintFuncs_empty
    (.forTuple "k" "v" (.var "sec")
      (.forObject "" "x" (.tuple [.var "k", .var "k"]) (.var "x") (.lit (.num N 1)) none false) none)
    [("sec", .map M .num [("hunter2", .num T 1)])]
    (by intro p hp; simp only [List.mem_singleton] at hp; subst hp; exact ⟨rfl, rfl⟩) rfl
  have hd : (eval { funcs := fun _ => none } [("sec", .map M .num [("hunter2", .num T 1)])]
      (.forTuple "k" "v" (.var "sec")
        (.forObject "" "x" (.tuple [.var "k", .var "k"]) (.var "x") (.lit (.num N 1)) none false) none)).2 =
      [⟨"Duplicate object key", [.str T "hunter2"]⟩] := by rfl
  rw [hd] at h1
  have := h1 _ (List.mem_singleton.mpr rfl) _ (List.mem_singleton.mpr rfl)
  revert this
  decide

/-- **No diagnostic echoes tainted content**, for every configuration `C` (Go: `{ funcs := F }`), every scope
    in which nothing tainted is exposed and every expression that passes the analysis `fclean []`. -/
theorem taint_partial (C : Cx) (hF : TaintFuncs C.funcs) (e : Expr) (ρ : Env) (hρ : twEnv ρ)
    (he : fclean [] e = true) : fragsClean (eval C ρ e).2 :=
  Proofs.taint_partial C hF e ρ hρ he

/-- The Go configuration, scopes as they come over the wire. -/
theorem taint_partial_go (F : Funcs) (hF : TaintFuncs F) (e : Expr) (ρ : Env) (hρ : exactEnv ρ)
    (he : fclean [] e = true) : fragsClean (eval { funcs := F } ρ e).2 :=
  Proofs.taint_partial { funcs := F } hF e ρ (exactEnv_tw hρ) he

/-- The configuration of the `EVAL` correspondence (`goCx`, function library `stdFuncs`). -/
theorem taint_partial_wire (e : Expr) (ρ : Env) (hρ : twEnv ρ) (he : fclean [] e = true) :
    fragsClean (eval goCx ρ e).2 :=
  Proofs.taint_partial goCx taintFuncs_std e ρ hρ he

/-- The coarser syntactic condition: literals free of flags, and no non-grouping object `for` inside the
    body (value, key, condition) of a `for` or of a splat. -/
theorem taint_simple (C : Cx) (hF : TaintFuncs C.funcs) (e : Expr) (ρ : Env) (hρ : twEnv ρ)
    (he : simple false e = true) : fragsClean (eval C ρ e).2 :=
  Proofs.taint_simple C hF e ρ hρ he

/-- The value of an expression whose free variables and literals expose no taint exposes none. -/
theorem taint_value (C : Cx) (hF : TaintFuncs C.funcs) (e : Expr) (ρ : Env) (hρ : twEnv ρ)
    (he : vclean [] e = true) : tw false (eval C ρ e).1 = true :=
  Proofs.taint_value C hF e ρ hρ he

/-! ### the hypotheses are satisfiable on erroneous inputs -/

/-- `{for v in c : v => 1}` -/
def dupExpr : Expr := .forObject "" "v" (.var "c") (.var "v") (.lit (.num N 1)) none false

example : fclean [] dupExpr = true := rfl
example : simple false dupExpr = true := rfl

/-- a marked collection with a duplicate: the scope is exact, the diagnostic is there and has no fragment -/
example : exactEnv [("c", .tuple M [.str T "dup", .str T "dup"])] ∧
    (eval { funcs := fun _ => none } [("c", .tuple M [.str T "dup", .str T "dup"])] dupExpr).2 =
      [⟨"Duplicate object key", []⟩] :=
  ⟨by intro p hp; simp only [List.mem_singleton] at hp; subst hp; exact ⟨rfl, rfl⟩, rfl⟩

/-- the elements marked one by one: the same -/
example : exactEnv [("c", .tuple N [.str M "dup", .str M "dup"])] ∧
    (eval { funcs := fun _ => none } [("c", .tuple N [.str M "dup", .str M "dup"])] dupExpr).2 =
      [⟨"Duplicate object key", []⟩] :=
  ⟨by intro p hp; simp only [List.mem_singleton] at hp; subst hp; exact ⟨rfl, rfl⟩, rfl⟩

/-- an unmarked collection: the key is echoed, and it is untainted -/
example : exactEnv [("c", .tuple N [.str N "dup", .str N "dup"])] ∧
    (eval { funcs := fun _ => none } [("c", .tuple N [.str N "dup", .str N "dup"])] dupExpr).2 =
      [⟨"Duplicate object key", [.str N "dup"]⟩] :=
  ⟨by intro p hp; simp only [List.mem_singleton] at hp; subst hp; exact ⟨rfl, rfl⟩, rfl⟩

/-- a nested `for` that the analysis accepts although it sits in a loop body: its key does not depend on
    the outer iteration variable (`[for s in sec : {for k in ["a", "a"] : k => s}]`) -/
example : fclean [] (.forTuple "" "s" (.var "sec")
    (.forObject "" "k" (.tuple [.lit (.str N "a"), .lit (.str N "a")]) (.var "k") (.var "s") none false) none) = true :=
  rfl

/-- … and the counterexample is what it rejects -/
example : fclean [] leakExpr = false := rfl

/-- the same nested `for` under a loop over a tuple constructor is accepted (`bodyVars`): `[a, b]` is never
    marked at the top, so its elements keep their own marks (`[for s in [a, b] : {for k in [s, s] : k => 1}]`) -/
example : fclean [] (.forTuple "" "s" (.tuple [.var "a", .var "b"])
    (.forObject "" "k" (.tuple [.var "s", .var "s"]) (.var "k") (.lit (.num N 1)) none false) none) = true :=
  rfl

/-- … and there a marked element gives a diagnostic without fragment -/
example : (eval { funcs := fun _ => none } [("a", .str M "x"), ("b", .str N "y")]
    (.forTuple "" "s" (.tuple [.var "a", .var "b"])
      (.forObject "" "k" (.tuple [.var "s", .var "s"]) (.var "k") (.lit (.num N 1)) none false) none)).2 =
    [⟨"Duplicate object key", []⟩, ⟨"Duplicate object key", [.str N "y"]⟩] := rfl

/-- `o[k]` with a marked key in the Go configuration: the selected attribute comes back without mark and
    without taint (it is content of the unmarked object); a duplicate-key diagnostic echoes it. -/
theorem index_marked_key_untainted :
    eval { funcs := fun _ => none } [("o", .object N [("a", .str N "x")]), ("k", .str M "a")]
      (.index (.var "o") (.var "k")) = (.str N "x", []) := rfl

/-! ## The text writer's variable summary (`diagnostic_text.go`)

`hcl.NewDiagnosticTextWriter` prints, for a diagnostic with `Expression` and `EvalContext`, one statement
`with <traversal> as <value>` / `<traversal> set to null` per traversal in `Expression.Variables()`.  Model:
`HclModel/Diag/TextWriter.lean` (`TextW.stmtOf`, tied to the real writer by the `TEXTW` correspondence,
`props/c19/corrtextw.go`).  The scope is the chain of contexts, innermost first; the traversal resolves in the
first context that has the root name (a context with `Variables == nil` is passed over like one that lacks the
name), its steps go through `hcl.GetAttr` / `hcl.Index`, any diagnostic skips the statement.  The writer then
tests, in this order: unknown → skipped; null → `set to null`; `val.IsMarked()` — the top-level mark only —
→ skipped; else `valueStr`.  A statement is represented by its fragments (`Shown.frags`): the index keys
printed in the traversal string, and the content `valueStr` prints (`valueFrags`): strings, numbers and bools
print themselves, collections and tuples print type and length only, objects print the number of attributes —
and an object with exactly one attribute prints that attribute's **name** (a fragment with the flags of the
object node: cty cannot mark an attribute name apart from the object).

* `textwriter_clean`: every context exposes no taint (`twEnv`) and the keys are untainted ⟹ every fragment is
  untainted.  In particular for the scopes an application supplies (`exactEnv`, `textwriter_clean_exact`).
* `TextWriterFull` — only the outermost, application-supplied scope is constrained — is **false**
  (`textwriter_full_false`, `textwriter_leak_witness`): a child context that binds an element of a collection
  marked at the top without the mark (the iteration variable of `ForExpr`, the finding recorded above; dynblock
  iterators likewise) is printed.  The writer is only as good as the scope it is given.
* `textwriter_skips_marked`, `textwriter_skips_below_marked`: a value marked at the top, and everything reached
  by steps from a value marked at the top, is skipped unless it is null; a marked null is shown as
  `set to null` (`textwriter_marked_null_shown`: the nullness of a marked value is revealed, its content is not —
  there is none).  `textwriter_collections_show_no_content`.
* `textwriter_shallow_mark_check_suffices`: testing only the top-level mark is enough, because `valueStr` never
  descends: for *every* value that exposes no taint and is unmarked at the top, what is shown is untainted —
  primitives carry all their flags at the top; `{ name = <marked value> }` shows `name`, which is content of
  the unmarked, untainted object node (`textwriter_one_attr_name`), not of the marked attribute value.  What
  *is* revealed about marked content below the top: the length of a collection with marked elements, and that
  an attribute of that name exists.
-/

section TextWriter
open TextW

/-- Nothing tainted is shown when no context exposes taint. -/
theorem textwriter_clean (ctxs : List Env) (t : Trav) (hρ : ∀ ρ ∈ ctxs, twEnv ρ)
    (hk : ∀ k ∈ t.keys, untainted k = true) : ∀ f ∈ (stmtOf ctxs t).frags, untainted f = true :=
  Proofs.textwriter_clean ctxs t hρ hk

/-- … for all the statements of a diagnostic. -/
theorem textwriter_clean_stmts (ctxs : List Env) (ts : List Trav) (hρ : ∀ ρ ∈ ctxs, twEnv ρ)
    (hk : ∀ t ∈ ts, ∀ k ∈ t.keys, untainted k = true) :
    ∀ p ∈ stmts ctxs ts, ∀ f ∈ p.2.frags, untainted f = true := by
  intro p hp
  simp only [stmts, List.mem_map] at hp
  obtain ⟨t, ht, rfl⟩ := hp
  exact Proofs.textwriter_clean ctxs t hρ (hk t ht)

/-- Scopes as applications supply them (and as they come over the wire): taint exactly at and below marks. -/
theorem textwriter_clean_exact (ctxs : List Env) (t : Trav) (hρ : ∀ ρ ∈ ctxs, exactEnv ρ)
    (hk : ∀ k ∈ t.keys, untainted k = true) : ∀ f ∈ (stmtOf ctxs t).frags, untainted f = true :=
  Proofs.textwriter_clean ctxs t (fun ρ h => exactEnv_tw (hρ ρ h)) hk

/-- Full strength: only the application's (outermost) scope is under control; the child contexts are whatever
    the evaluator created.  **False.** -/
def TextWriterFull : Prop :=
  ∀ (children : List Env) (root : Env) (t : Trav), exactEnv root → (∀ k ∈ t.keys, untainted k = true) →
    ∀ f ∈ (stmtOf (children ++ [root]) t).frags, untainted f = true

/-- `sec` is a tuple marked at the top; the body of `[for v in sec : …]` is evaluated in a child context that
    binds `v` to the element — tainted, not marked.  A diagnostic raised there shows `with v as "hunter2"`. -/
theorem textwriter_leak_witness :
    ∃ f ∈ (stmtOf [[("v", .str T "hunter2")], [("sec", .tuple M [.str T "hunter2"])]] ⟨"v", []⟩).frags,
      untainted f = false := by decide

theorem textwriter_full_false : ¬ TextWriterFull := by
  intro h
  have h1 := h [[("v", .str T "hunter2")]] [("sec", .tuple M [.str T "hunter2"])] ⟨"v", []⟩
    (by intro p hp; simp only [List.mem_singleton] at hp; subst hp; exact ⟨rfl, rfl⟩)
    (by intro k hk; cases hk)
  obtain ⟨f, hf, hu⟩ := textwriter_leak_witness
  have := h1 f hf
  rw [hu] at this
  cases this

/-- A value marked at the top is not shown. -/
theorem textwriter_skips_marked (ctxs : List Env) (t : Trav) (v : Val) (h : traverseAbs ctxs t = some v)
    (hm : v.isMarked = true) (hn : v.isNull = false) : stmtOf ctxs t = .skip := by
  unfold stmtOf
  rw [h]
  rcases Proofs.shownOf_marked t v hm with h' | ⟨h1, _⟩
  · exact h'
  · rw [hn] at h1; cases h1

/-- … and if it is null, only its nullness is. -/
theorem textwriter_marked_no_content (ctxs : List Env) (t : Trav) (v : Val) (h : traverseAbs ctxs t = some v)
    (hm : v.isMarked = true) :
    stmtOf ctxs t = .skip ∨ (v.isNull = true ∧ stmtOf ctxs t = .null (travFrags t)) := by
  unfold stmtOf
  rw [h]
  exact Proofs.shownOf_marked t v hm

/-- Steps from a value marked at the top (`sec.a`, `sec[0]`, `sec["k"].b`): every result is marked at the top
    (`WithSameMarks`), hence never shown with content. -/
theorem textwriter_skips_below_marked (ctxs : List Env) (t : Trav) (r v : Val)
    (hr : lookupRoot ctxs t.root = some r) (hm : r.isMarked = true) (h : traverseAbs ctxs t = some v) :
    v.isMarked = true ∧ (stmtOf ctxs t = .skip ∨ (v.isNull = true ∧ stmtOf ctxs t = .null (travFrags t))) := by
  have hv : v.isMarked = true := by
    unfold traverseAbs at h
    rw [hr] at h
    exact Proofs.traverseRel_marked t.steps r v hm h
  exact ⟨hv, textwriter_marked_no_content ctxs t v h hv⟩

/-- The null test comes before the mark test: `sec set to null` for a marked null. -/
theorem textwriter_marked_null_shown :
    (stmtOf [[("sec", .null M .str)]] ⟨"sec", []⟩).frags = [] ∧
    (match stmtOf [[("sec", .null M .str)]] ⟨"sec", []⟩ with | .null _ => true | _ => false) = true := by
  decide

/-- Collections, tuples and objects without or with several attributes show no content at all. -/
theorem textwriter_collections_show_no_content :
    (∀ f t xs, valueFrags (.list f t xs) = []) ∧ (∀ f t kvs, valueFrags (.map f t kvs) = []) ∧
    (∀ f xs, valueFrags (.tuple f xs) = []) ∧
    (∀ f kvs, kvs.length ≠ 1 → valueFrags (.object f kvs) = []) := by
  refine ⟨fun _ _ _ => rfl, fun _ _ _ => rfl, fun _ _ => rfl, ?_⟩
  intro f kvs h
  match kvs, h with
  | [], _ => rfl
  | [_], h => exact absurd rfl h
  | _ :: _ :: _, _ => rfl

/-- **Testing the top-level mark only is enough** (full strength: every value, every shape): a value that
    exposes no taint and is not marked at the top shows only untainted content. -/
theorem textwriter_shallow_mark_check_suffices (v : Val) (hv : tw false v = true) (hm : v.isMarked = false) :
    ∀ f ∈ valueFrags v, untainted f = true :=
  Proofs.valueFrags_untainted v hv hm

/-- The one-attribute object: the name is shown whatever the attribute's value is (marked, tainted, anything);
    the fragment carries the flags of the object node, so it is tainted iff the object node is — and an
    unmarked object node in a scope that exposes no taint is not. -/
theorem textwriter_one_attr_name (f : Fl) (k : String) (x : Val) :
    valueFrags (.object f [(k, x)]) = [.str f k] ∧
    (tw false (.object f [(k, x)]) = true → f.m = false → untainted (.str f k) = true) := by
  refine ⟨rfl, fun hv hm => ?_⟩
  exact Proofs.valueFrags_untainted (.object f [(k, x)]) hv (by simpa [Val.isMarked] using hm) _
    (List.mem_singleton.mpr rfl)

/-! ### non-vacuity -/

/-- `{ password = <marked> }`, the object itself unmarked: the scope is exact, the name is shown, untainted -/
example : exactEnv [("o", .object N [("password", .str M "hunter2")])] ∧
    (stmtOf [[("o", .object N [("password", .str M "hunter2")])]] ⟨"o", []⟩).frags.length = 1 ∧
    ∀ f ∈ (stmtOf [[("o", .object N [("password", .str M "hunter2")])]] ⟨"o", []⟩).frags, untainted f = true :=
  ⟨by intro p hp; simp only [List.mem_singleton] at hp; subst hp; exact ⟨rfl, rfl⟩, by decide, by decide⟩

/-- the step into it is skipped (marked at the top) -/
example : traverseAbs [[("o", .object N [("password", .str M "hunter2")])]] ⟨"o", [.attr "password"]⟩ ≠ none ∧
    (stmtOf [[("o", .object N [("password", .str M "hunter2")])]] ⟨"o", [.attr "password"]⟩).frags = [] := by
  decide

/-- a marked tuple: `sec` and `sec[0]` are skipped although the element itself carries no mark -/
example : (stmtOf [[("sec", .tuple M [.str T "hunter2"])]] ⟨"sec", []⟩).frags = [] ∧
    traverseAbs [[("sec", .tuple M [.str T "hunter2"])]] ⟨"sec", [.index (.num N 0)]⟩ ≠ none ∧
    (stmtOf [[("sec", .tuple M [.str T "hunter2"])]] ⟨"sec", [.index (.num N 0)]⟩).frags = [] := by
  decide

/-- public values are shown: the string, the key of the traversal and the number, the bool -/
example : (stmtOf [[("s", .str N "abc")]] ⟨"s", []⟩).frags.length = 1 ∧
    (stmtOf [[("l", .list N .num [.num N 7])]] ⟨"l", [.index (.num N 0)]⟩).frags.length = 2 ∧
    (stmtOf [[("b", .bool N true)]] ⟨"b", []⟩).frags.length = 1 := by
  decide

/-- shadowing: the innermost context that has the name wins; a nil / empty context is passed over -/
example : (match stmtOf [[], [("x", .null N .str)], [("x", .str N "outer")]] ⟨"x", []⟩ with
    | .null _ => true | _ => false) = true := by
  decide

/-- errors skip: a missing name, a missing attribute, an index out of range -/
example : (stmtOf [[("s", .str N "abc")]] ⟨"zz", []⟩).frags = [] ∧
    (stmtOf [[("s", .str N "abc")]] ⟨"s", [.attr "a"]⟩).frags = [] ∧
    (stmtOf [[("l", .list N .num [.num N 7])]] ⟨"l", [.index (.num N 1)]⟩).frags = [] := by
  decide

end TextWriter

end HclModel
