import Proofs.Taint
/-!
# C19 — diagnostics never reveal the content of marked values (expression evaluation)

`eval` is the evaluator model (`HclModel/Expr/Eval.lean`), tied to the Go evaluator by the `EVAL`
correspondence; a diagnostic of the model is `⟨site, frags⟩` where `frags` are the values whose content the
message echoes.  The `EVAL` answer carries the fragments (with their taint) and `fclean [] e`, and the `FRAGS`
correspondence of the harness (`props/c19/corr.go`) checks on generated `for` expressions that the Detail of
the real "Duplicate object key" diagnostic names the key iff the model's diagnostic has that key as a fragment,
that an echoed string which occurs in the scope only inside marked values is a tainted fragment, and that
neither happens when the side condition of `taint_partial` holds.  Reading the Go code,
that diagnostic (`ForExpr.Value`) is the only place where expression evaluation puts run-time value content
into Summary / Detail; since the fix it does so only while none of the marks collected so far (collection,
`if` clause, key expressions of this and earlier iterations) is non-empty, which is the model's
`if st.marks.m then [] else [.str kf k]`.

## The ghost taint

Every value node carries, beside the mark `m`, a ghost flag `g` that the Go values do not have: "this content
entered the evaluation inside a marked value".  The wire format sets it at and below every marked node
(`valOfSexp`) and erases it (`valDump`); it never influences a value, a mark or a diagnostic's presence.
The evaluator model copies `g` wherever it copies or derives content, also where the mark is legitimately
removed: `Unmark` keeps it, the keys and elements handed to a `for` body keep it, operators / templates /
conditionals / function results join it from everything they look at.  Scopes:

* `ghostWF false v` (`HclModel/Expr/Rel.lean`): at and below a marked node everything is tainted;
* `tw false v` (`HclModel/Expr/Taint.lean`, with the other definitions used here): every tainted node is
  marked or below a marked node ("nothing tainted is exposed");
* `exactEnv ρ`: both, for every binding — `g` is exactly "at or below a mark";
  `twEnv ρ`: the second alone (what the theorems need).

`fragsClean ds`: every fragment of every diagnostic in `ds` is `untainted` (no `g` at any node).

## What is proved, and what is not

`TaintFull` (every expression, every exact scope) is **false** for the Go code and for the model:
`ForExpr` / splat bodies see the elements and keys of a collection that is marked at the top *without* the
mark, so a "Duplicate object key" of a nested `for` with an unmarked collection echoes them
(`taint_full_false`, `taint_full_false_key`; recorded finding of the direct oracle, key suffix
`via-unmarked-scope-variable`).

`taint_partial` holds for every configuration `C` (the Go one and the repaired ones) under the decidable
side condition `fclean [] e`, a static analysis (`HclModel/Expr/Taint.lean`, ~80 lines with `vclean`):
it tracks the set `L` of variables that may hold exposed taint — the iteration variables of the enclosing
`for` / splat bodies, except those of a `for` whose collection is a tuple constructor or literal (never marked
at the top) that itself exposes nothing (`bodyVars`) — and asks of every non-grouping object `for` that

* its key expression does not depend on a variable in `L` nor on its own iteration variables
  (`vclean (iter ++ L) key`), or
* its collection does not depend on a variable in `L` and its key expression depends on no variable in `L`
  other than its own iteration variables (then the collection is marked, and the key is not echoed, or its
  elements expose nothing).

"Depends" is syntactic (free variables, through nested bodies); literals must not expose taint.
Excluded: exactly the shape of the counterexamples, a non-grouping object `for` inside a loop body whose key
(or whose collection, for keys built from its own iterators) mentions a variable of an enclosing loop.
`taint_simple` is the coarser syntactic corollary: literals free of flags, and no non-grouping object `for`
inside any `for` / splat body.  At top level (no enclosing loop) every expression passes:
`{for k, v in coll : key => val}` is covered whatever `coll`, `key`, `val` are, provided their own
sub-expressions pass.

Functions: `TaintFuncs F` — an implementation called with arguments that carry no taint at all does
not return exposed taint (any implementation returning flag-free values: `Proofs.taintFuncs_of_flagFree`;
the library of the wire protocol: `Proofs.taintFuncs_std`).  `callFunc` re-applies the join of all argument
flags to the result, as `function.Call` does with the marks.  Error messages of implementations are not
fragments (outside the guarantee).

`taint_value`: under `vclean [] e` the *value* of an expression exposes no taint either — whatever a
caller echoes of a result that it unmarks itself is outside this model.

## Mark-dropping sites (findings of C06) in terms of taint

* `obj[key]` with a marked key (`hcl.Index`, object case, `key.Unmark()`): the Go configuration drops the
  key's flags altogether, mark and ghost; the selected attribute is not tainted.  In the property's terms the
  attribute is content of the (unmarked) object, not of the marked key — *which* attribute was selected is
  an implicit flow that C19 does not speak about (`index_marked_key_untainted` below; with `keepKeyMarks` the
  result carries both flags of the key).  List / tuple / map indexing joins the key's flags.
* unknown operands (`-x`, `!x`, unknown index keys, `tjoin`, unknown `for` collections of dynamic type, …):
  a fresh unknown without flags — it has no content.
* conditionals: the result carries the join of the flags of condition and both branches (also `g`);
  diagnostics of the branch not taken are dropped or kept (`keepDropped`), either way they come from
  sub-evaluations.
* `for` / splat / call expansion: the collection is unmarked for iteration; elements and keys keep `g`.
  This is the one place where tainted content is exposed (to the body scope), hence the side condition.

Not modelled: fragments are *value* content only.  Type descriptions in messages (attribute names of a marked
object in "Inconsistent conditional result types" and in conversion errors) are not fragments of the model;
the direct oracle records those leaks (`leak:inconsistent-conditional-result-types-detail`,
`leak:incorrect-attribute-value-type-detail`).  Rendering by the text diagnostic writer (which prints the
values of the variables referenced by `Expression` from `EvalContext`) and body decoding are outside the
evaluator model.
-/
namespace HclModel
open Proofs

/-- The property for expression evaluation, full strength: in a scope whose ghost taint is exactly "at or
    below a mark", no diagnostic of the Go configuration echoes tainted content.  **False.** -/
def TaintFull : Prop :=
  ∀ (F : Funcs), TaintFuncs F → ∀ (e : Expr) (ρ : Env), exactEnv ρ → litsFree e = true →
    fragsClean (eval { funcs := F } ρ e).2

private abbrev M : Fl := ⟨true, true⟩      -- marked (and therefore tainted)
private abbrev T : Fl := ⟨false, true⟩     -- below a mark: tainted, not marked itself
private abbrev N : Fl := {}

/-- `[for s in sec : {for k in [s, s] : k => 1}]` -/
def leakExpr : Expr :=
  .forTuple "" "s" (.var "sec")
    (.forObject "" "k" (.tuple [.var "s", .var "s"]) (.var "k") (.lit (.num N 1)) none false) none

/-- `sec` = a marked tuple holding one string -/
def leakEnv : Env := [("sec", .tuple M [.str T "hunter2"])]

theorem leakEnv_exact : exactEnv leakEnv := by
  intro p hp
  simp only [leakEnv, List.mem_singleton] at hp
  subst hp
  exact ⟨rfl, rfl⟩

/-- The element of a collection marked at the top reaches the body of a `for` without the mark; the
    nested `for` (unmarked collection, unmarked key) echoes it. -/
theorem taint_full_false : ¬ TaintFull := by
  intro h
  have h1 := h (fun _ => none) taintFuncs_empty leakExpr leakEnv leakEnv_exact rfl
  have hd : (eval { funcs := fun _ => none } leakEnv leakExpr).2 =
      [⟨"Duplicate object key", [.str T "hunter2"]⟩] := by rfl
  rw [hd] at h1
  have := h1 _ (List.mem_singleton.mpr rfl) _ (List.mem_singleton.mpr rfl)
  revert this
  decide

/-- `[for k, v in sec : {for x in [k, k] : x => 1}]` with `sec` a marked map: the same for a key. -/
theorem taint_full_false_key : ¬ TaintFull := by
  intro h
  have h1 := h (fun _ => none) taintFuncs_empty
    (.forTuple "k" "v" (.var "sec")
      (.forObject "" "x" (.tuple [.var "k", .var "k"]) (.var "x") (.lit (.num N 1)) none false) none)
    [("sec", .map M .num [("hunter2", .num T 1)])]
    (by intro p hp; simp only [List.mem_singleton] at hp; subst hp; exact ⟨rfl, rfl⟩) rfl
  have hd : (eval { funcs := fun _ => none } [("sec", .map M .num [("hunter2", .num T 1)])]
      (.forTuple "k" "v" (.var "sec")
        (.forObject "" "x" (.tuple [.var "k", .var "k"]) (.var "x") (.lit (.num N 1)) none false) none)).2 =
      [⟨"Duplicate object key", [.str T "hunter2"]⟩] := by rfl
  rw [hd] at h1
  have := h1 _ (List.mem_singleton.mpr rfl) _ (List.mem_singleton.mpr rfl)
  revert this
  decide

/-- **No diagnostic echoes tainted content**, for every configuration `C` (Go: `{ funcs := F }`), every scope
    in which nothing tainted is exposed and every expression that passes the analysis `fclean []`. -/
theorem taint_partial (C : Cx) (hF : TaintFuncs C.funcs) (e : Expr) (ρ : Env) (hρ : twEnv ρ)
    (he : fclean [] e = true) : fragsClean (eval C ρ e).2 :=
  Proofs.taint_partial C hF e ρ hρ he

/-- The Go configuration, scopes as they come over the wire. -/
theorem taint_partial_go (F : Funcs) (hF : TaintFuncs F) (e : Expr) (ρ : Env) (hρ : exactEnv ρ)
    (he : fclean [] e = true) : fragsClean (eval { funcs := F } ρ e).2 :=
  Proofs.taint_partial { funcs := F } hF e ρ (exactEnv_tw hρ) he

/-- The configuration of the `EVAL` correspondence (`goCx`, function library `stdFuncs`). -/
theorem taint_partial_wire (e : Expr) (ρ : Env) (hρ : twEnv ρ) (he : fclean [] e = true) :
    fragsClean (eval goCx ρ e).2 :=
  Proofs.taint_partial goCx taintFuncs_std e ρ hρ he

/-- The coarser syntactic condition: literals free of flags, and no non-grouping object `for` inside the
    body (value, key, condition) of a `for` or of a splat. -/
theorem taint_simple (C : Cx) (hF : TaintFuncs C.funcs) (e : Expr) (ρ : Env) (hρ : twEnv ρ)
    (he : simple false e = true) : fragsClean (eval C ρ e).2 :=
  Proofs.taint_simple C hF e ρ hρ he

/-- The value of an expression whose free variables and literals expose no taint exposes none. -/
theorem taint_value (C : Cx) (hF : TaintFuncs C.funcs) (e : Expr) (ρ : Env) (hρ : twEnv ρ)
    (he : vclean [] e = true) : tw false (eval C ρ e).1 = true :=
  Proofs.taint_value C hF e ρ hρ he

/-! ### the hypotheses are satisfiable on erroneous inputs -/

/-- `{for v in c : v => 1}` -/
def dupExpr : Expr := .forObject "" "v" (.var "c") (.var "v") (.lit (.num N 1)) none false

example : fclean [] dupExpr = true := rfl
example : simple false dupExpr = true := rfl

/-- a marked collection with a duplicate: the scope is exact, the diagnostic is there and has no fragment -/
example : exactEnv [("c", .tuple M [.str T "dup", .str T "dup"])] ∧
    (eval { funcs := fun _ => none } [("c", .tuple M [.str T "dup", .str T "dup"])] dupExpr).2 =
      [⟨"Duplicate object key", []⟩] :=
  ⟨by intro p hp; simp only [List.mem_singleton] at hp; subst hp; exact ⟨rfl, rfl⟩, rfl⟩

/-- the elements marked one by one: the same -/
example : exactEnv [("c", .tuple N [.str M "dup", .str M "dup"])] ∧
    (eval { funcs := fun _ => none } [("c", .tuple N [.str M "dup", .str M "dup"])] dupExpr).2 =
      [⟨"Duplicate object key", []⟩] :=
  ⟨by intro p hp; simp only [List.mem_singleton] at hp; subst hp; exact ⟨rfl, rfl⟩, rfl⟩

/-- an unmarked collection: the key is echoed, and it is untainted -/
example : exactEnv [("c", .tuple N [.str N "dup", .str N "dup"])] ∧
    (eval { funcs := fun _ => none } [("c", .tuple N [.str N "dup", .str N "dup"])] dupExpr).2 =
      [⟨"Duplicate object key", [.str N "dup"]⟩] :=
  ⟨by intro p hp; simp only [List.mem_singleton] at hp; subst hp; exact ⟨rfl, rfl⟩, rfl⟩

/-- a nested `for` that the analysis accepts although it sits in a loop body: its key does not depend on
    the outer iteration variable (`[for s in sec : {for k in ["a", "a"] : k => s}]`) -/
example : fclean [] (.forTuple "" "s" (.var "sec")
    (.forObject "" "k" (.tuple [.lit (.str N "a"), .lit (.str N "a")]) (.var "k") (.var "s") none false) none) = true :=
  rfl

/-- … and the counterexample is what it rejects -/
example : fclean [] leakExpr = false := rfl

/-- the same nested `for` under a loop over a tuple constructor is accepted (`bodyVars`): `[a, b]` is never
    marked at the top, so its elements keep their own marks (`[for s in [a, b] : {for k in [s, s] : k => 1}]`) -/
example : fclean [] (.forTuple "" "s" (.tuple [.var "a", .var "b"])
    (.forObject "" "k" (.tuple [.var "s", .var "s"]) (.var "k") (.lit (.num N 1)) none false) none) = true :=
  rfl

/-- … and there a marked element gives a diagnostic without fragment -/
example : (eval { funcs := fun _ => none } [("a", .str M "x"), ("b", .str N "y")]
    (.forTuple "" "s" (.tuple [.var "a", .var "b"])
      (.forObject "" "k" (.tuple [.var "s", .var "s"]) (.var "k") (.lit (.num N 1)) none false) none)).2 =
    [⟨"Duplicate object key", []⟩, ⟨"Duplicate object key", [.str N "y"]⟩] := rfl

/-- `o[k]` with a marked key in the Go configuration: the selected attribute comes back without mark and
    without taint (it is content of the unmarked object); a duplicate-key diagnostic echoes it. -/
theorem index_marked_key_untainted :
    eval { funcs := fun _ => none } [("o", .object N [("a", .str N "x")]), ("k", .str M "a")]
      (.index (.var "o") (.var "k")) = (.str N "x", []) := rfl

end HclModel
