import Proofs.StringLit
/-!
# C11 — generated source reads back as the value it was generated from (string literals, labels, keys)

`escape` is `hclwrite.escapeQuotedStringLit`; `parseQuoted` is what the native scanner and
`ParseStringLiteralToken` make of the characters between the quotes (`HclModel/Write/StringLit.lean`,
tied to the code by the `STRLIT` correspondence on generated Unicode strings).
-/
namespace HclModel.StringLit

/-- Every string — control characters, quotes, backslashes, `${` / `%{` / `$${` / `%%{` sequences, any
    mixture of `$` runs, astral characters — reads back as itself, whatever `unicode.IsPrint` says about
    every character other than `{`. The hypothesis `hb` is needed because `escape` doubles a `$` / `%`
    when the *original* next character is `{`: were `{` not printable it would be written `\u007b`, and
    the doubled introducer would then read back as two characters
    (`escape_unescape_needs_brace_printable`). Go's `unicode.IsPrint('{')` is true. -/
theorem escape_unescape (isPrint : Char → Bool) (hb : isPrint '{' = true) (s : List Char) :
    parseQuoted (escape isPrint s) = some s :=
  Proofs.parseQuoted_escape isPrint hb s

/-- Without `isPrint '{'` the round trip fails: `${` is written `$$\u007b`, which reads back as `$${`. -/
theorem escape_unescape_needs_brace_printable :
    ∃ s, parseQuoted (escape (fun _ => false) s) ≠ some s :=
  ⟨['$', '{'], by decide⟩

/-- The escaped text never contains a bare quote, a raw newline, or an unescaped template introducer:
    it stays inside one quoted literal (this is what makes block labels and object keys safe). -/
theorem escape_is_single_literal (isPrint : Char → Bool) (hb : isPrint '{' = true) (s : List Char) :
    (parseQuoted (escape isPrint s)).isSome = true := by
  rw [escape_unescape isPrint hb]; rfl

/-- non-vacuity on a nasty concrete string -/
example : parseQuoted (escape (fun c => decide (32 ≤ c.toNat ∧ c.toNat < 127)) "a\"\\\n$${x}%{y}$$\u0001é".toList)
    = some "a\"\\\n$${x}%{y}$$\u0001é".toList := by
  exact escape_unescape _ (by decide) _

end HclModel.StringLit
