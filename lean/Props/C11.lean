import Proofs.StringLit
import Proofs.GenValue
import Proofs.Traversal
/-!
# C11 — generated source reads back as the value it was generated from (string literals, labels, keys)

`escape` is `hclwrite.escapeQuotedStringLit`; `parseQuoted` is what the native scanner and
`ParseStringLiteralToken` make of the characters between the quotes (`HclModel/Write/StringLit.lean`,
tied to the code by the `STRLIT` correspondence on generated Unicode strings).
-/
namespace HclModel.StringLit

/-- Every string — control characters, quotes, backslashes, `${` / `%{` / `$${` / `%%{` sequences, any
    mixture of `$` runs, astral characters — reads back as itself, whatever `unicode.IsPrint` says about
    every character other than `{`. The hypothesis `hb` is needed because `escape` doubles a `$` / `%`
    when the *original* next character is `{`: were `{` not printable it would be written `\u007b`, and
    the doubled introducer would then read back as two characters
    (`escape_unescape_needs_brace_printable`). Go's `unicode.IsPrint('{')` is true. -/
theorem escape_unescape (isPrint : Char → Bool) (hb : isPrint '{' = true) (s : List Char) :
    parseQuoted (escape isPrint s) = some s :=
  Proofs.parseQuoted_escape isPrint hb s

/-- Without `isPrint '{'` the round trip fails: `${` is written `$$\u007b`, which reads back as `$${`. -/
theorem escape_unescape_needs_brace_printable :
    ∃ s, parseQuoted (escape (fun _ => false) s) ≠ some s :=
  ⟨['$', '{'], by decide⟩

/-- The escaped text never contains a bare quote, a raw newline, or an unescaped template introducer:
    it stays inside one quoted literal (this is what makes block labels and object keys safe). -/
theorem escape_is_single_literal (isPrint : Char → Bool) (hb : isPrint '{' = true) (s : List Char) :
    (parseQuoted (escape isPrint s)).isSome = true := by
  rw [escape_unescape isPrint hb]; rfl

/-- non-vacuity on a nasty concrete string -/
example : parseQuoted (escape (fun c => decide (32 ≤ c.toNat ∧ c.toNat < 127)) "a\"\\\n$${x}%{y}$$\u0001é".toList)
    = some "a\"\\\n$${x}%{y}$$\u0001é".toList := by
  exact escape_unescape _ (by decide) _

end HclModel.StringLit

/-! ## whole values: `TokensForValue` → bytes → scanner → expression parser → evaluation

`gen` is `appendTokensForValue`; `relex` is what scanning the written bytes again does to the one token that
changes (`-m`); `parseTop` / `parseAttrValue` are `hclsyntax.ParseExpression` / the expression of an attribute
in a body, restricted to the generated token alphabet, behind the peeker's newline-sensitivity stack;
`evalLE` evaluates the constant expression (`HclModel/Write/GenValue.lean`, tied to the code by the `GENV`
correspondence: generated tokens, re-scanned tokens and the value read back, on random values, plus the
parser model against `ParseExpression` on random token strings over the same alphabet). -/
namespace HclModel.GenValue

/-- Every wholly known value — any nesting of sequences and maps/objects, any key strings (keywords, `for`,
    strings that are not identifiers), negative numbers, empty collections, any string content — is written
    as tokens that parse, as a stand-alone expression, to a constant expression whose value is the original
    (`norm v`: a later definition of a key replaces an earlier one; the identity on values whose maps have
    distinct keys, i.e. on every cty value: `readBack_exact`). Holds whatever `ValidIdentifier` and
    `unicode.IsPrint` answer, as long as `{` is printable. -/
theorem readBack_norm (c : Cfg) (hb : c.isPrint '{' = true) (v : GV) : readBack c v = some (norm v) := by
  simp [readBack, Proofs.parseTop_gen c hb v, Proofs.evalLE_toLE]

theorem readBack_exact (c : Cfg) (hb : c.isPrint '{' = true) (v : GV) (hd : keysDistinct v = true) :
    readBack c v = some v := by
  rw [readBack_norm c hb v, Proofs.norm_id v hd]

/-- The same as the value of an attribute in a body (`SetAttributeValue`): newlines are significant there and
    whatever follows the attribute's line does not matter. -/
theorem readBackAttr_exact (c : Cfg) (hb : c.isPrint '{' = true) (v : GV) (after : List Tok)
    (hd : keysDistinct v = true) : readBackAttr c v after = some v := by
  simp [readBackAttr, Proofs.parseAttrValue_gen c hb v after, Proofs.evalLE_toLE, Proofs.norm_id v hd]

/-- The parser builds exactly the expected constant expression (keys written bare come back as literal
    names, quoted keys as strings, `-m` as a negation), in one pass with fuel linear in the token count. -/
theorem parse_gen (c : Cfg) (hb : c.isPrint '{' = true) (v : GV) :
    parseTop (relex (gen c v)) = some (Proofs.toLE c v) :=
  Proofs.parseTop_gen c hb v

/-- Why the key `for` must be quoted (repaired defect e8e9a2c): written bare as the first key, the object
    constructor is taken for a `for` expression. -/
theorem bare_for_key_not_an_object :
    parseTop [.obrace, .newline, .ident kwFor, .equal, .num false 1, .newline, .cbrace] = none := by decide

/-- …whereas the quoted form parses, also when `ValidIdentifier` accepts `for`. -/
example : readBack ⟨fun _ => true, fun _ => true⟩ (.obj [(kwFor, .num false 1)]) = some (.obj [(kwFor, .num false 1)]) :=
  readBack_exact _ rfl _ (by decide)

/-- Why a negative number is safe only behind a separator: `[1 -2]` would be a subtraction (outside the
    fragment, so `none`), the written `[1, -2]` is a two-element tuple. -/
example : parseTop [.obrack, .num false 1, .minus, .num false 2, .cbrack] = none := by decide
example : parseTop (relex (gen ⟨fun _ => true, fun _ => true⟩ (.seq [.num false 1, .num true 2]))) =
    some (.tuple [.num 1, .neg (.num 2)]) := parse_gen _ rfl _

/-- non-vacuity: nested, with keyword keys, an empty map inside a list inside a map, a key that is not an
    identifier, an empty string -/
example : readBack ⟨fun c => decide (32 ≤ c.toNat ∧ c.toNat < 127), fun k => k.all Char.isAlpha && !k.isEmpty⟩
    (.obj [(kwTrue, .seq [.obj [], .num true 3, .str []]), ("a b".toList, .null), (kwFor, .bool false)]) =
    some (.obj [(kwTrue, .seq [.obj [], .num true 3, .str []]), ("a b".toList, .null), (kwFor, .bool false)]) :=
  readBack_exact _ (by decide) _ (by decide)

end HclModel.GenValue

/-! ## traversals: `TokensForTraversal` -/
namespace HclModel.Trav

/-- Every absolute traversal with attribute steps and index steps by non-negative numbers and arbitrary strings
    is written as tokens that both the stand-alone traversal parser and the expression parser read back as
    exactly that traversal (`HclModel/Syntax/Traversal.lean`; attribute names are identifiers: the generator
    writes them as they are). -/
theorem traversal_readback (isPrint : Char → Bool) (hb : isPrint '{' = true) (t : T) :
    standalone (gen isPrint t) = some t ∧ viaExpression (gen isPrint t) = some t :=
  ⟨Proofs.standalone_gen isPrint hb t, Proofs.viaExpression_of_standalone _ t (Proofs.standalone_gen isPrint hb t)⟩

example : (gen (fun _ => true) ⟨['a'], [.attr ['b'], .index (.str ['$', '{'])]⟩) =
    [.ident ['a'], .dot, .ident ['b'], .obrack, .str ['$', '$', '{'], .cbrack] := by decide

end HclModel.Trav
