import Proofs.Skel
import HclModel.Gen.ParserSkel
import HclModel.Gen.DiagSites
/-!
# C15 — front ends are total: the peeker's newline-stack assertion cannot fire

`Gen.parserSkel` is the push/pop control skeleton of `hclsyntax/{parser,parser_template,
parser_traversal,public}.go`, regenerated from the Go AST on every check.  `balanced` is a verified
checker (`balanced_sound`, in `Proofs/Skel.lean`).
-/
namespace HclModel.Skel

/-- The regenerated skeleton of the real parser passes the checker. -/
theorem skeleton_balanced : balanced Gen.parserSkel = true := by decide +kernel

/-- Every terminating execution of every parser function — error-recovery paths included — returns at
    its entry depth of the newline-sensitivity stack; at each `AssertEmptyIncludeNewlinesStack` site
    (translated as a possible return) the depth is the entry depth, so the assertion cannot fire. -/
theorem parser_returns_at_entry_depth (f : Nat) (body : Stmt) (hf : Gen.parserSkel[f]? = some body)
    (d d' : Int) (k : Kind) (h : Exec Gen.parserSkel body d k d') : d' = d :=
  balanced_sound Gen.parserSkel skeleton_balanced f body hf d d' k h

/-- non-vacuity: the skeleton really contains the stack operations (41 push/pop sites at the pinned
    commit; any positive number will do) and the entry points -/
example : 0 < Gen.parserSkelSites ∧ "ParseConfig" ∈ Gen.parserSkelNames ∧ "parseTemplateParts" ∈ Gen.parserSkelNames := by decide

/-- the checker is not trivially true: a function that forgets one pop on one path is rejected -/
example : balanced [.seq .push (.seq (.call 1) (.choice (.seq (.call 0) .ret) (.seq .pop .ret))), .skip] = false := by decide

end HclModel.Skel

/-! ## every diagnostic the library builds has a severity and a summary

`Gen.diagSites` lists every composite literal of type `hcl.Diagnostic` in the non-test source of the library
packages (root, hclsyntax, json, hclwrite, hcldec, gohcl, hclsimple, hclparse, ext/…), regenerated from the
Go AST on every check. -/
namespace HclModel.DiagSites

/-- The regenerated table passes the check. -/
theorem diag_sites_well_formed : allWellFormed Gen.diagSites = true := by decide +kernel

/-- Every diagnostic literal anywhere in the library names one of the two severities (so `DiagInvalid`, the
    zero value, cannot come out of it) and sets a summary that is not the empty string literal. -/
theorem every_diag_literal_has_severity_and_summary (s : Site) (h : s ∈ Gen.diagSites) :
    (s.sev = 1 ∨ s.sev = 2) ∧ (s.summary = 1 ∨ s.summary = 3) :=
  (allWellFormed_iff Gen.diagSites).mp diag_sites_well_formed s h

/-- Every diagnostic literal of the two parsing front ends (hclsyntax, json) sets a subject range, except in
    `json/public.go`, whose three sites report that a file could not be opened or read (there is no input to
    point into). -/
theorem front_end_diags_have_subject :
    (noSubject Gen.diagSites).all (fun p => p.1 == "json/public.go") = true := by decide +kernel

/-- non-vacuity: the table is not empty and covers both front ends -/
example : 200 < Gen.diagSiteCount ∧ Gen.diagSites.length = Gen.diagSiteCount ∧
    (Gen.diagSites.filter (·.pkg == 1)).length > 100 ∧ (Gen.diagSites.filter (·.pkg == 2)).length > 20 := by decide +kernel

/-- the check is not trivially true -/
example : allWellFormed [⟨"x.go", 1, 10, 0, 1, true, true, false⟩] = false := by decide
example : allWellFormed [⟨"x.go", 1, 10, 1, 2, true, true, false⟩] = false := by decide

end HclModel.DiagSites
