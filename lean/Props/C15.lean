import Proofs.Skel
import HclModel.Gen.ParserSkel
/-!
# C15 — front ends are total: the peeker's newline-stack assertion cannot fire

`Gen.parserSkel` is the push/pop control skeleton of `hclsyntax/{parser,parser_template,
parser_traversal,public}.go`, regenerated from the Go AST on every check.  `balanced` is a verified
checker (`balanced_sound`, in `Proofs/Skel.lean`).
-/
namespace HclModel.Skel

/-- The regenerated skeleton of the real parser passes the checker. -/
theorem skeleton_balanced : balanced Gen.parserSkel = true := by decide +kernel

/-- Every terminating execution of every parser function — error-recovery paths included — returns at
    its entry depth of the newline-sensitivity stack; at each `AssertEmptyIncludeNewlinesStack` site
    (translated as a possible return) the depth is the entry depth, so the assertion cannot fire. -/
theorem parser_returns_at_entry_depth (f : Nat) (body : Stmt) (hf : Gen.parserSkel[f]? = some body)
    (d d' : Int) (k : Kind) (h : Exec Gen.parserSkel body d k d') : d' = d :=
  balanced_sound Gen.parserSkel skeleton_balanced f body hf d d' k h

/-- non-vacuity: the skeleton really contains the stack operations (41 push/pop sites at the pinned
    commit; any positive number will do) and the entry points -/
example : 0 < Gen.parserSkelSites ∧ "ParseConfig" ∈ Gen.parserSkelNames ∧ "parseTemplateParts" ∈ Gen.parserSkelNames := by decide

/-- the checker is not trivially true: a function that forgets one pop on one path is rejected -/
example : balanced [.seq .push (.seq (.call 1) (.choice (.seq (.call 0) .ret) (.seq .pop .ret))), .skip] = false := by decide

end HclModel.Skel
