import Proofs.FreeVars
/-!
# C07 — reported variable references are a complete dependency set

`fv e` is the model of the root names reported by `Variables()` (tied to the Go walker by the `VARS`
correspondence); `eval` is the evaluator model (tied by `EVAL`).
-/
namespace HclModel

/-- Evaluation depends only on the reported variables: value AND diagnostics are identical in any two
    scopes that agree on them — in particular in the scope pruned to the reported names and in any larger
    scope, and after changing any variable that is not reported. -/
theorem vars_complete (F : Cx) (e : Expr) (ρ σ : Env) (h : AgreeOn (fv e) ρ σ) :
    eval F ρ e = eval F σ e :=
  Proofs.eval_agree F e ρ σ h

/-- pruning a scope to the reported names -/
def Env.prune (ρ : Env) (S : List String) : Env := ρ.filter fun p => S.contains p.1

theorem eval_pruned (F : Cx) (e : Expr) (ρ : Env) : eval F (ρ.prune (fv e)) e = eval F ρ e :=
  Proofs.eval_pruned F e ρ

/-- Names bound by a for-expression are not reported on account of their uses in the value, key and
    condition expressions (they are reported only if the collection expression itself refers to them). -/
theorem for_bound_not_reported (kv vv : String) (coll val : Expr) (cond : Option Expr) (x : String)
    (hx : x ∈ iterNames kv vv) (hc : x ∉ fv coll) : x ∉ fv (.forTuple kv vv coll val cond) :=
  Proofs.forTuple_bound kv vv coll val cond x hx hc

theorem forobj_bound_not_reported (kv vv : String) (coll key val : Expr) (cond : Option Expr) (g : Bool) (x : String)
    (hx : x ∈ iterNames kv vv) (hc : x ∉ fv coll) : x ∉ fv (.forObject kv vv coll key val cond g) :=
  Proofs.forObject_bound kv vv coll key val cond g x hx hc

/-- The anonymous symbol of a splat is never reported. -/
theorem splat_symbol_not_reported (anon : String) (src each : Expr) (hs : anon ∉ fv src) :
    anon ∉ fv (.splat anon src each) :=
  Proofs.splat_bound anon src each hs

/-- non-vacuity: `[for x in xs : x + y]` reports `xs` and `y` but not `x`, and evaluates -/
example : fv (.forTuple "" "x" (.var "xs") (.bin .add (.var "x") (.var "y")) none) = ["xs", "y"] := by decide

end HclModel
