import HclModel.Gohcl.Codec
/-!
# C16 — struct encoding and decoding are inverse

`encodeBody` / `decodeBody` are the models of `gohcl.EncodeIntoBody` / `gohcl.DecodeBody`
(`HclModel/Gohcl/Codec.lean`, tied to the code by the `GOHCL` correspondence over a family of real Go struct
types).  Between them lies source text: written by hclwrite (C09–C12), read by the parser (C02, C11), literals
evaluated (C01) — summarised by `reparse`; the JSON route is C03's.
-/
namespace HclModel.Gohcl
open HclModel.Body

/-- One attribute: a Go value of a gocty-supported type without inner pointers, converted to cty, written out,
    read back, converted to the implied type of the target and loaded into it, is the same Go value. -/
theorem attr_roundtrip (t : GTy) (v : GVal) (c : Val) (ht : hasTy t v = true) (hp : noPtr t = true)
    (hc : toCty t v = some c) : decodeExpr t (reparse c) = some v := by
  sorry

/-- `toCty` is defined on every well-typed value (the encoder does not panic) -/
theorem toCty_total (t : GTy) (v : GVal) (ht : hasTy t v = true) : (toCty t v).isSome = true := by
  sorry

/-- **Round trip.**  For every well-formed struct type and every value of it, encoding succeeds and decoding
    the encoded body into a fresh value reproduces the value: attributes, optional attributes, nil and non-nil
    pointers, slices and maps, labelled, optional and repeated nested blocks, at every depth. -/
theorem struct_roundtrip (ty : STy) (v : SVal) (fuel : Nat) (hty : ty.wf = true) (hv : v.ok ty = true)
    (hf : ty.depth ≤ fuel) :
    ∃ b, encodeBody ty v = some b ∧ decodeBody fuel ty b = some v := by
  sorry

/-- The decoder indexes the label fields of a nested struct by the position of each label of the block
    (`blockTags.Labels[li]`): that is always in range, for **any** body, because the content it iterates over
    was extracted with the implied schema. -/
theorem labels_in_range (ty : STy) (body : GBody) (hty : ty.wf = true) (hb : (body.attrs.map (·.1)).Nodup) :
    ∀ blk ∈ (body.native.content (impliedSchema ty)).1.blocks,
      ∀ shape sty, Field.block blk.type shape sty ∈ ty.fields →
        blk.labels.length = (labelNames sty.fields).length := by
  sorry

/-- What is lost otherwise (kernel-checked): a non-nil empty slice of blocks comes back nil. -/
theorem empty_slice_not_preserved :
    let ty : STy := .mk [.block "b" .slice (.mk [])]
    let v : SVal := .mk [.slice (some [])]
    ∃ b, encodeBody ty v = some b ∧ decodeBody 3 ty b = some (.mk [.slice none]) := by
  sorry

end HclModel.Gohcl
