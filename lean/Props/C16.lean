import HclModel.Gohcl.Codec
import Proofs.GohclAttr
import Proofs.GohclSchema
import Proofs.GohclStruct
import Proofs.GohclCex
/-!
# C16 — struct encoding and decoding are inverse

`encodeBody` / `decodeBody` are the models of `gohcl.EncodeIntoBody` / `gohcl.DecodeBody`
(`HclModel/Gohcl/Codec.lean`, tied to the code by the `GOHCL` correspondence over a family of real Go struct
types).  Between them lies source text: written by hclwrite (C09–C12), read by the parser (C02, C11), literals
evaluated (C01) — summarised by `reparse`; the JSON route is C03's.

The round trip as first stated (`struct_roundtripFull`) is false in one corner, which is the behaviour of the
Go code: label fields of the struct handed to `EncodeIntoBody` itself are not part of a body
(`struct_roundtrip_counterexample`).  It holds exactly when those labels are empty (`struct_roundtrip_iff`),
and without any side condition one level down, for `EncodeAsBlock` / `decodeBlockToValue`
(`struct_roundtrip_block`).  Proofs: `Proofs/Gohcl*.lean`.

Assumption of the model the theorems inherit (found by the `GOHCL` correspondence): strings are opaque here,
while `cty.StringVal` normalises attribute strings, map keys and (through `hclwrite.NewBlock`) block labels to
Unicode NFC — for the Go code the round trip holds for NFC strings (otherwise modulo NFC).  A value of Go type
`int` is in the int64 range (`hasTy`), which `fromCty` checks as gocty does.
-/
namespace HclModel.Gohcl
open HclModel.Body

/-- One attribute: a Go value of a gocty-supported type without inner pointers, converted to cty, written out,
    read back, converted to the implied type of the target and loaded into it, is the same Go value. -/
theorem attr_roundtrip (t : GTy) (v : GVal) (c : Val) (ht : hasTy t v = true) (hp : noPtr t = true)
    (hc : toCty t v = some c) : decodeExpr t (reparse c) = some v :=
  Proofs.attr_roundtrip t v c ht hp hc

/-- `toCty` is defined on every well-typed value (the encoder does not panic) -/
theorem toCty_total (t : GTy) (v : GVal) (ht : hasTy t v = true) : (toCty t v).isSome = true :=
  Proofs.toCty_isSome t v ht

/-- The round trip as first stated: for every well-formed struct type and every value of it, encoding
    succeeds and decoding the encoded body into a fresh value reproduces the value.  **False**: see below. -/
def struct_roundtripFull : Prop :=
  ∀ (ty : STy) (v : SVal) (fuel : Nat), ty.wf = true → v.ok ty = true → ty.depth ≤ fuel →
    ∃ b, encodeBody ty v = some b ∧ decodeBody fuel ty b = some v

/-- `type T struct { N string \`hcl:"n,label"\` }`, `T{N: "x"}`: `EncodeIntoBody` ignores label fields ("Any
    fields tagged as "label" are ignored by this function", `gohcl/encode.go`) and `DecodeBody` never sets
    them (only `decodeBlockToValue` does, from the block header): the value comes back with `N == ""`. -/
theorem struct_roundtrip_counterexample : ¬ struct_roundtripFull := by
  intro h
  obtain ⟨hw, hok, hd, b, he, hdec⟩ := Proofs.root_label_lost
  obtain ⟨b', he', hdec'⟩ := h _ _ 1 hw hok hd
  rw [he, Option.some.injEq] at he'; subst he'
  rw [hdec] at hdec'
  simp at hdec'

/-- the label fields of the value itself (not those of nested blocks) are empty -/
def SVal.rootLabelsBlank (ty : STy) (v : SVal) : Bool :=
  (labelVals ty.fields v.fields).all (· == "")

/-- **Round trip.**  For every well-formed struct type and every value of it whose own label fields are empty,
    encoding succeeds and decoding the encoded body into a fresh value reproduces the value: attributes,
    optional attributes, nil and non-nil pointers, slices and maps, labelled, optional and repeated nested
    blocks (with their labels), at every depth. -/
theorem struct_roundtrip_partial (ty : STy) (v : SVal) (fuel : Nat) (hty : ty.wf = true) (hv : v.ok ty = true)
    (hf : ty.depth ≤ fuel) (hl : v.rootLabelsBlank ty = true) :
    ∃ b, encodeBody ty v = some b ∧ decodeBody fuel ty b = some v := by
  obtain ⟨fields⟩ := ty
  obtain ⟨vals⟩ := v
  exact Proofs.bodyRT fuel fields vals hty (by rwa [Proofs.ok_mk] at hv) hf
    (by simpa [SVal.rootLabelsBlank, STy.fields, SVal.fields] using hl)

/-- …and the side condition is necessary: the round trip through a body holds exactly for the values whose
    own label fields are empty. -/
theorem struct_roundtrip_iff (ty : STy) (v : SVal) (fuel : Nat) (hty : ty.wf = true) (hv : v.ok ty = true)
    (hf : ty.depth ≤ fuel) :
    (∃ b, encodeBody ty v = some b ∧ decodeBody fuel ty b = some v) ↔ v.rootLabelsBlank ty = true := by
  refine ⟨?_, struct_roundtrip_partial ty v fuel hty hv hf⟩
  obtain ⟨fields⟩ := ty
  obtain ⟨vals⟩ := v
  rintro ⟨b, -, hd⟩
  simpa [SVal.rootLabelsBlank, STy.fields, SVal.fields] using
    Proofs.decodeBody_labels_blank fuel fields vals b hd

/-- The round trip at full strength, one level down: any value of a well-formed struct type (labels included),
    encoded as a block (`EncodeAsBlock`) and decoded from it (`decodeBlockToValue`), is reproduced. -/
theorem struct_roundtrip_block (ty : STy) (v : SVal) (type : String) (fuel : Nat) (hty : ty.wf = true)
    (hv : v.ok ty = true) (hf : ty.depth ≤ fuel) :
    ∃ blk, encodeBlock type ty v = some blk ∧ decodeBlock fuel ty blk = some v :=
  Proofs.blockRT fuel ty hty hf type v hv

section example_
/-- `type Inner struct { Name string "label"; S string "s"; P *int "p,optional" }` -/
private def inner : STy := .mk [.label "name", .attr "s" false .str, .attr "p" true (.ptr .int)]
/-- `type Root struct { N int "n"; Tags []string "tags,optional"; Flags map[string]bool "flags,optional";
    Items []Inner "item,block"; Extra *Inner "extra,block" }` -/
private def root : STy :=
  .mk [.attr "n" false .int, .attr "tags" true (.slice .str), .attr "flags" true (.map .bool),
       .block "item" .slice inner, .block "extra" .ptr inner]
private def rootVal : SVal :=
  .mk [.attr (.int 5), .attr (.slice (some [.str "a", .str "b"])), .attr (.map none),
       .slice (some [.mk [.label "x", .attr (.str "hello"), .attr (.ptr none)],
                     .mk [.label "y", .attr (.str ""), .attr (.ptr (some (.int 7)))]]),
       .ptr (some (.mk [.label "e", .attr (.str "z"), .attr (.ptr none)]))]

example : ∃ b, encodeBody root rootVal = some b ∧ decodeBody 2 root b = some rootVal :=
  struct_roundtrip_partial root rootVal 2 (by decide) (by decide) (by decide) (by decide)
end example_

/-- The decoder indexes the label fields of a nested struct by the position of each label of the block
    (`blockTags.Labels[li]`): that is always in range, for **any** body, because the content it iterates over
    was extracted with the implied schema. -/
theorem labels_in_range (ty : STy) (body : GBody) (hty : ty.wf = true) (_hb : (body.attrs.map (·.1)).Nodup) :
    ∀ blk ∈ (body.native.content (impliedSchema ty)).1.blocks,
      ∀ shape sty, Field.block blk.type shape sty ∈ ty.fields →
        blk.labels.length = (labelNames sty.fields).length :=
  Proofs.labels_in_range ty body hty

/-- What is lost otherwise (kernel-checked): a non-nil empty slice of blocks comes back nil. -/
theorem empty_slice_not_preserved :
    let ty : STy := .mk [.block "b" .slice (.mk [])]
    let v : SVal := .mk [.slice (some [])]
    ∃ b, encodeBody ty v = some b ∧ decodeBody 3 ty b = some (.mk [.slice none]) :=
  Proofs.empty_slice_not_preserved

end HclModel.Gohcl
