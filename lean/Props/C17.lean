import Proofs.SymbolTable
import HclModel.Gen.RecvWrites
import HclModel.Gen.GlobalWrites
/-!
# C17 — a parsed configuration can be evaluated concurrently (isolation of the splat symbol table)

The shared state of a parsed tree is the per-context table of every splat's anonymous symbol.  If every
goroutine uses its own evaluation contexts, then in EVERY interleaving of the (atomic) table operations each
goroutine observes exactly what it would observe running alone, and a goroutine that clears what it sets
leaves nothing behind.  Data-race freedom below the level of these atomic operations is not expressible here;
it is what the race detector run of the direct oracle checks.
-/
namespace HclModel.Conc

/-- The operations of thread `i` appear in the interleaving in its program order, and nobody else touches its keys. -/
theorem isolation (owner : Key → Nat) (ps : List (List Op)) (tr : List Op)
    (hown : OwnKeys owner ps) (hint : Interleaving ps tr) (i : Nat) (p : List Op) (hp : ps[i]? = some p) :
    project (fun k => owner k = i) tr = p :=
  Proofs.isolation owner ps tr hown hint i p hp

/-- The reads of thread `i` inside the interleaved run are the reads of its solo run. -/
theorem concurrent_eq_sequential (owner : Key → Nat) (ps : List (List Op)) (tr : List Op)
    (hown : OwnKeys owner ps) (hint : Interleaving ps tr) (i : Nat) (p : List Op) (hp : ps[i]? = some p) :
    readsOf (fun k => owner k = i) [] tr = (run [] p).2 :=
  Proofs.concurrent_eq_sequential owner ps tr hown hint i p hp

/-- No residue: if every thread, run alone, ends with an empty table (each `set` is followed by a `clear`,
    as `SplatExpr.Value` does), then the table is empty after any interleaving. -/
theorem no_residue (owner : Key → Nat) (ps : List (List Op)) (tr : List Op)
    (hown : OwnKeys owner ps) (hint : Interleaving ps tr)
    (hclean : ∀ p ∈ ps, (run [] p).1 = []) : (run [] tr).1 = [] :=
  Proofs.no_residue owner ps tr hown hint hclean

/-- non-vacuity: two threads, an interleaving in which each reads between the other's set and clear -/
example : Interleaving [[.set 1 10, .get 1, .clear 1], [.set 2 20, .get 2, .clear 2]]
    [.set 1 10, .set 2 20, .get 1, .get 2, .clear 2, .clear 1] := by
  refine .step _ 0 _ _ _ rfl (.step _ 1 _ _ _ rfl (.step _ 0 _ _ _ rfl (.step _ 1 _ _ _ rfl (.step _ 1 _ _ _ rfl (.step _ 0 _ _ _ rfl (.nil _ ?_))))))
  intro p hp; simp at hp; rcases hp with rfl | rfl <;> rfl

end HclModel.Conc

/-! ## what evaluation-time code stores in the shared configuration

`Gen.recvWrites` lists every statement that writes through a method's receiver in the types a parsed
configuration is made of (hclsyntax expressions and bodies, JSON bodies and expressions, merged bodies,
traversals, dynblock's wrappers, hcldec's specs), regenerated from the Go AST on every check. -/
namespace HclModel.RecvWrites

/-- the state the property text names: the splat symbol's per-context table (under `valuesLock`), and the scope
    stack of the walker that `Variables()` creates afresh for every call -/
def allowedWrites : Allowed :=
  [("*AnonSymbolExpr", "setValue", "values"), ("*AnonSymbolExpr", "clearValue", "values"),
   ("*variablesWalker", "Enter", "localScopes"), ("*variablesWalker", "Exit", "localScopes")]

theorem recv_writes_checked : allAllowed allowedWrites Gen.recvWrites = true := by decide +kernel

/-- No method of a shared syntax-tree node, body, traversal, wrapper or spec stores anything in its receiver,
    except the anonymous symbol's table operations that `Conc/SymbolTable` models (and the per-call walker):
    there is no other per-evaluation state inside the tree for goroutines to share. -/
theorem only_the_symbol_table_is_written (s : Site) (h : s ∈ Gen.recvWrites) : s.key ∈ allowedWrites :=
  (allAllowed_iff allowedWrites Gen.recvWrites).mp recv_writes_checked s h

/-- non-vacuity: the table does contain the symbol table's writes -/
example : 0 < (Gen.recvWrites.filter fun s => s.type == "*AnonSymbolExpr").length := by decide +kernel

/-- the check is not trivially true: a memo stored in a node by `Value` is rejected -/
example : allAllowed allowedWrites [⟨"hclsyntax/expression.go", "*SplatExpr", "Value", "Item.resultTys", "assign"⟩] = false := by
  decide +kernel

/-- `Gen.globalWrites`: every statement in a function body of the library packages that writes to a package-level
    variable (regenerated from the Go AST). Package-level state is shared by all goroutines whatever contexts they
    use: the only such writes are in `init` functions, which run before any evaluation. -/
theorem package_state_written_only_by_init : Gen.globalWrites.all (fun s => s.method == "init") = true := by
  decide +kernel

theorem global_write_is_in_init (s : Site) (h : s ∈ Gen.globalWrites) : s.method = "init" := by
  have := List.all_eq_true.mp package_state_written_only_by_init s h
  simpa using this

/-- non-vacuity: the translator does see the writes that exist (the operator table is built in an `init`) -/
example : Gen.globalWrites.any (fun s => s.field == "binaryOps") = true := by decide +kernel

end HclModel.RecvWrites
