import HclModel.Json.Body
import Proofs.JBodyErr
/-!
# C03 — native and JSON syntaxes denote the same configuration

`JBodyV` is the model of a JSON body (`json/structure.go`: the schema decides what each property means;
`HclModel/Json/Body.lean`, tied to the code by the `JBODY` correspondence); `BodyL` is the syntax of all the
ways json/spec.md allows a configuration to be written (object or array-of-objects bodies, nested label
objects, label levels as arrays, arrays of block bodies, `null`, repeated property names, `//` comment
properties, any grouping of blocks of one type); `renderBody` is the JSON value written, `denoteBody` the
configuration meant; `Cfg.native` is that configuration as a native body (whose schema processing is
`HclModel.Body`, property C04).  A consumer sees a body through `Content` with the schema of each level, the
values of the arguments and the blocks of each type in order: `resolveJ` / `resolveN`.

Proofs: `Proofs/JBodyLit.lean` (literals), `Proofs/JBodyFlat.lean`, `Proofs/JBodyLevel.lean`,
`Proofs/JBodyContent.lean` (one level of `Content`), `Proofs/JBodyAgree.lean` (main theorem),
`Proofs/JBodyErr.lean` (schema violations).

`violation_json_native` is **false as first stated** (kept as `violation_json_nativeFull`, refuted by
`violation_json_native_counterexample`): an empty label level — `"t": null`, `"t": {}`, `"t": []`,
`"t": {"a": {}}` for a block type with labels — is a "Missing block label" error in JSON
(`unpackBlock`, `len(jsonAttrs) == 0`) while it denotes no block at all, so the native body has nothing to
object to.  `violation_json_native_partial` adds the hypothesis `noEmptyLabels`; `violation_iff` shows that
this hypothesis and `noEmptyUnknown` are exactly what is needed.
-/
namespace HclModel.JBody
open HclModel.Body

/-- evaluation of a literal written in the native syntax: the evaluator model in the empty scope -/
def evLit (cx : Cx) (e : Expr) : Val × Bool := ((eval cx [] e).1, !(eval cx [] e).2.isEmpty)

/-! ### a concrete schema tree and layout for the non-vacuity examples -/
namespace Ex
/-- `x = …` -/
def leaf : STree := .mk [⟨"x", false⟩] []
/-- body of a `resource`: `count = …`, `lifecycle { x = … }` (a label-less nested block type) -/
def res : STree := .mk [⟨"count", false⟩] [(⟨"lifecycle", 0⟩, leaf)]
/-- top level: required `name`, `resource "<kind>" "<name>" {…}`, `locals {…}` -/
def top : STree := .mk [⟨"name", true⟩] [(⟨"resource", 2⟩, res), (⟨"locals", 0⟩, leaf)]
def cx : Cx := ⟨fun _ => none, false, false⟩

/-- ```json
    [ {"//": "note", "name": {"b": 1, "a": [true, null]}},
      {"resource": [ {"aws": {"web": {"count": 2, "lifecycle": {"x": "y"}},
                              "db":  [ {}, [ {"count": 1}, {"//": null} ] ]}},
                     {"gcp": {"vm": {}}} ]},
      {"resource": {"aws": {"cache": {}}}, "locals": null} ]
    ```
    an array-of-objects body, a comment, the first label level of `resource` written as an array, four
    blocks grouped under one `resource` property and one written separately, a block body written as an
    array of objects, `null` for "no `locals` block" -/
def lay : BodyL := .arr [
  [ .comment (.str "note"), .attr "name" (.obj [("b", .num 1), ("a", .arr [.bool true, .null])]) ],
  [ .blocks "resource" (.labelsArr [
      [("aws", .labelsObj [
          ("web", .one [.attr "count" (.num 2), .blocks "lifecycle" (.one [.attr "x" (.str "y")])]),
          ("db", .many [.obj [], .arr [[.attr "count" (.num 1)], [.comment .null]]])])],
      [("gcp", .labelsObj [("vm", .one [])])] ]) ],
  [ .blocks "resource" (.labelsObj [("aws", .labelsObj [("cache", .one [])])]), .blocks "locals" .none ] ]

/-- the same configuration, every block under its own property of one object -/
def lay' : BodyL := .obj [
  .blocks "resource" (.labelsObj [("aws", .labelsObj [("web",
      .one [.blocks "lifecycle" (.many [.obj [.attr "x" (.str "y")]]), .attr "count" (.num 2)])])]),
  .blocks "resource" (.labelsObj [("aws", .labelsObj [("db", .one [])])]),
  .blocks "resource" (.labelsObj [("aws", .labelsObj [("db", .one [.attr "count" (.num 1)])])]),
  .attr "name" (.obj [("a", .arr [.bool true, .null]), ("b", .num 1)]),
  .blocks "resource" (.labelsObj [("gcp", .labelsObj [("vm", .one [])]), ("aws", .labelsObj [("cache", .many [.obj []])])]) ]

/-- a layout that violates the schema: `name` is missing, `nme` and `module` are unknown -/
def bad : BodyL := .obj [.attr "nme" (.str "n"), .blocks "module" (.one []), .blocks "locals" (.one [])]
end Ex

/-- **Main theorem.**  For every schema tree and every layout admissible for it, consuming the JSON value
    gives exactly what consuming the native body of the denoted configuration gives: the same arguments with
    the same values, and for every block type the same blocks in the same order with the same labels and,
    recursively, the same content. -/
theorem json_native_agree (cx : Cx) (st : STree) (L : BodyL) (n : Nat)
    (hst : st.wf = true) (hL : admBody st L = true) :
    resolveJ n st ⟨renderBody L, []⟩ = resolveN (evLit cx) n st (denoteBody L) :=
  Proofs.resolve_agree (evLit cx) (Proofs.literal_agree cx) n st L hst hL

/-- non-vacuity: the hypotheses hold for `Ex.top`, `Ex.lay` … -/
example : Ex.top.wf = true ∧ admBody Ex.top Ex.lay = true := by decide
/-- … and what both sides are there (the native side by evaluation, the JSON side by the theorem) -/
example : resolveJ 3 Ex.top ⟨renderBody Ex.lay, []⟩ =
    .mk [("name", some (.object Fl.none [("a", .tuple Fl.none [.bool Fl.none true, .null Fl.none .dyn]),
                                          ("b", .num Fl.none 1)], false))]
      [("resource",
          [(["aws", "web"], .mk [("count", some (.num Fl.none 2, false))]
              [("lifecycle", [([], .mk [("x", some (.str Fl.none "y", false))] [])])]),
           (["aws", "db"], .mk [("count", none)] [("lifecycle", [])]),
           (["aws", "db"], .mk [("count", some (.num Fl.none 1, false))] [("lifecycle", [])]),
           (["gcp", "vm"], .mk [("count", none)] [("lifecycle", [])]),
           (["aws", "cache"], .mk [("count", none)] [("lifecycle", [])])]),
       ("locals", [])] :=
  (json_native_agree Ex.cx Ex.top Ex.lay 3 (by decide) (by decide)).trans (by rfl)

/-- literals: a JSON value without repeated object keys evaluates, as a JSON expression, to what the same
    literal written in the native syntax evaluates to -/
theorem literal_agree (cx : Cx) (v : JV) (h : uniqueKeys v = true) :
    evLit cx (litExpr v) = jsonValue v :=
  Proofs.literal_agree cx v h

/-- non-vacuity (keys out of order, nesting), and the hypothesis is needed: with a repeated key the JSON
    expression keeps the first definition and reports an error, the native one keeps the last -/
example : uniqueKeys (.obj [("b", .num 1), ("a", .arr [.obj [("b", .null)], .str "s"])]) = true := by decide
example : uniqueKeys (.obj [("a", .num 1), ("a", .num 2)]) = false ∧
    jsonValue (.obj [("a", .num 1), ("a", .num 2)]) = (.object Fl.none [("a", .num Fl.none 1)], true) ∧
    evLit Ex.cx (litExpr (.obj [("a", .num 1), ("a", .num 2)])) = (.object Fl.none [("a", .num Fl.none 2)], false) :=
  ⟨by decide, by rfl, by rfl⟩

/-- Grouping is immaterial: two admissible layouts that denote configurations with the same arguments and, per
    block type, the same blocks are indistinguishable (corollary of the main theorem). -/
theorem layout_independent (st : STree) (L₁ L₂ : BodyL) (n : Nat)
    (hst : st.wf = true) (h₁ : admBody st L₁ = true) (h₂ : admBody st L₂ = true)
    (h : ∀ cx, resolveN (evLit cx) n st (denoteBody L₁) = resolveN (evLit cx) n st (denoteBody L₂)) :
    resolveJ n st ⟨renderBody L₁, []⟩ = resolveJ n st ⟨renderBody L₂, []⟩ :=
  let cx : Cx := ⟨fun _ => none, false, false⟩
  (json_native_agree cx st L₁ n hst h₁).trans ((h cx).trans (json_native_agree cx st L₂ n hst h₂).symm)

/-- non-vacuity: `Ex.lay` and `Ex.lay'` are different layouts, denote different `Cfg`s (argument and block
    order differ between types) and satisfy the hypotheses -/
example : admBody Ex.top Ex.lay' = true ∧
    (∀ cx, resolveN (evLit cx) 3 Ex.top (denoteBody Ex.lay) = resolveN (evLit cx) 3 Ex.top (denoteBody Ex.lay')) :=
  ⟨by decide, fun _ => by rfl⟩

/-- A schema violation in the native body is a schema violation in the JSON body (one level): if processing
    the native body of the denoted configuration reports an error, so does processing the JSON value. -/
theorem violation_native_json (st : STree) (L : BodyL) (hst : st.wf = true) (hL : admBody st L = true)
    (h : ((denoteBody L).native.content st.schema).2 ≠ []) :
    ((⟨renderBody L, []⟩ : JBodyV).content st.schema).2 ≠ [] :=
  Proofs.violation_native_json st L hst hL h

/-- non-vacuity -/
example : admBody Ex.top Ex.bad = true ∧ ((denoteBody Ex.bad).native.content Ex.top.schema).2 ≠ [] := by decide

/-- The converse needs one more condition: a block-type property the schema does not know is an error in JSON
    even when it holds no block (`"t": null`, `"t": []`), while the configuration it denotes has nothing to
    object to.  `noEmptyUnknown` excludes exactly that. -/
def noEmptyUnknown (st : STree) : BodyL → Bool
  | .obj props => props.all fun p => match p with
      | .blocks t u => st.schema.blocks.any (·.type == t) || !(denoteUnder t [] u).isEmpty
      | _ => true
  | .arr parts => parts.all fun ps => ps.all fun p => match p with
      | .blocks t u => st.schema.blocks.any (·.type == t) || !(denoteUnder t [] u).isEmpty
      | _ => true

/-- The converse as first stated.  It is false: see `violation_json_native_counterexample`. -/
def violation_json_nativeFull : Prop :=
  ∀ (st : STree) (L : BodyL), st.wf = true → admBody st L = true → noEmptyUnknown st L = true →
    ((⟨renderBody L, []⟩ : JBodyV).content st.schema).2 ≠ [] →
    ((denoteBody L).native.content st.schema).2 ≠ []

mutual
/-- …and a second one: every label level (the first `k` levels under the name of a block type with `k`
    labels) has at least one property — no `null`, `{}`, `[]`, `[{}]` where a label is expected.  An empty
    label level is a "Missing block label" error in JSON and denotes no block at all. -/
def fullLabels : Nat → UnderL → Bool
  | 0, _ => true
  | k+1, .labelsObj part => !part.isEmpty && fullLabelProps k part
  | k+1, .labelsArr parts => !parts.flatten.isEmpty && fullLabelParts k parts
  | _+1, _ => false
def fullLabelParts (k : Nat) : List (List (String × UnderL)) → Bool
  | [] => true
  | p :: rest => fullLabelProps k p && fullLabelParts k rest
def fullLabelProps (k : Nat) : List (String × UnderL) → Bool
  | [] => true
  | (_, u) :: rest => fullLabels k u && fullLabelProps k rest
end

/-- no label level of a block type the schema knows is empty (at this level of the configuration) -/
def noEmptyLabels (st : STree) : BodyL → Bool
  | .obj props => props.all fun p => match p with
      | .blocks t u => match st.schema.blocks.find? (·.type == t) with
        | some bs => fullLabels bs.labelCount u
        | none => true
      | _ => true
  | .arr parts => parts.all fun ps => ps.all fun p => match p with
      | .blocks t u => match st.schema.blocks.find? (·.type == t) with
        | some bs => fullLabels bs.labelCount u
        | none => true
      | _ => true

/-- `{"resource": null}` (also `{"resource": {}}`, `{"resource": {"aws": {}}}`, `{"resource": []}`) under a
    schema with a block type `resource` with two labels: "Missing block label" in JSON, the empty — and
    valid — configuration natively. -/
theorem violation_json_native_counterexample : ¬ violation_json_nativeFull := fun h =>
  h (.mk [] [(⟨"resource", 2⟩, Ex.leaf)]) (.obj [.blocks "resource" .none]) (by decide) (by decide) (by decide)
    (fun hj => absurd ((Proofs.json_errs_nil_iff _ _ (by decide) (by decide)).1 hj).2.2 (by decide))
    (by decide)

/-! the definitions above are those the proofs use -/
theorem noEmptyUnknown_eq (st : STree) (L : BodyL) : noEmptyUnknown st L = Proofs.noEmptyUnknown st L := by
  cases L <;> rfl

mutual
theorem fullLabels_eq : ∀ (k : Nat) (u : UnderL), fullLabels k u = Proofs.fullLabels k u
  | 0, _ => by simp [fullLabels, Proofs.fullLabels]
  | k+1, .labelsObj part => by simp [fullLabels, Proofs.fullLabels, fullLabelProps_eq k part]
  | k+1, .labelsArr parts => by simp [fullLabels, Proofs.fullLabels, fullLabelParts_eq k parts]
  | k+1, .none => by simp [fullLabels, Proofs.fullLabels]
  | k+1, .one _ => by simp [fullLabels, Proofs.fullLabels]
  | k+1, .many _ => by simp [fullLabels, Proofs.fullLabels]
theorem fullLabelParts_eq : ∀ (k : Nat) (parts : List (List (String × UnderL))),
    fullLabelParts k parts = Proofs.fullLabelParts k parts
  | _, [] => by simp [fullLabelParts, Proofs.fullLabelParts]
  | k, p :: rest => by
    simp [fullLabelParts, Proofs.fullLabelParts, fullLabelProps_eq k p, fullLabelParts_eq k rest]
theorem fullLabelProps_eq : ∀ (k : Nat) (part : List (String × UnderL)),
    fullLabelProps k part = Proofs.fullLabelProps k part
  | _, [] => by simp [fullLabelProps, Proofs.fullLabelProps]
  | k, (_, u) :: rest => by
    simp [fullLabelProps, Proofs.fullLabelProps, fullLabels_eq k u, fullLabelProps_eq k rest]
end

theorem noEmptyLabels_eq (st : STree) (L : BodyL) : noEmptyLabels st L = Proofs.noEmptyLabels st L := by
  cases L <;> simp only [noEmptyLabels, Proofs.noEmptyLabels, fullLabels_eq] <;> rfl

/-- **Corrected converse**: a schema violation in the JSON body of a layout without empty unknown block-type
    properties and without empty label levels is a schema violation in the native body. -/
theorem violation_json_native_partial (st : STree) (L : BodyL) (hst : st.wf = true) (hL : admBody st L = true)
    (hne : noEmptyUnknown st L = true) (hlb : noEmptyLabels st L = true)
    (h : ((⟨renderBody L, []⟩ : JBodyV).content st.schema).2 ≠ []) :
    ((denoteBody L).native.content st.schema).2 ≠ [] :=
  Proofs.violation_json_native st L hst hL (noEmptyUnknown_eq st L ▸ hne) (noEmptyLabels_eq st L ▸ hlb) h

/-- Both directions at once, and the two extra hypotheses are exactly what is needed: processing the JSON
    value is error-free iff processing the native body is and neither degenerate form occurs. -/
theorem violation_iff (st : STree) (L : BodyL) (hst : st.wf = true) (hL : admBody st L = true) :
    ((⟨renderBody L, []⟩ : JBodyV).content st.schema).2 = [] ↔
      (((denoteBody L).native.content st.schema).2 = [] ∧ noEmptyUnknown st L = true ∧
        noEmptyLabels st L = true) := by
  rw [noEmptyUnknown_eq, noEmptyLabels_eq]; exact Proofs.json_errs_nil_iff st L hst hL

/-- non-vacuity: `Ex.bad` satisfies the hypotheses of `violation_json_native_partial` (its JSON errors are
    non-empty by `violation_native_json`), `Ex.lay` is error-free on both sides -/
example : admBody Ex.top Ex.bad = true ∧ noEmptyUnknown Ex.top Ex.bad = true ∧ noEmptyLabels Ex.top Ex.bad = true ∧
    ((⟨renderBody Ex.bad, []⟩ : JBodyV).content Ex.top.schema).2 ≠ [] :=
  ⟨by decide, by decide, by decide, violation_native_json _ _ (by decide) (by decide) (by decide)⟩
example : noEmptyUnknown Ex.top Ex.lay = true ∧ noEmptyLabels Ex.top Ex.lay = true ∧
    ((⟨renderBody Ex.lay, []⟩ : JBodyV).content Ex.top.schema).2 = [] :=
  ⟨by decide, by decide, (violation_iff _ _ (by decide) (by decide)).2 ⟨by decide, by decide, by decide⟩⟩

end HclModel.JBody
