import Proofs.Unknowns
import HclModel.Expr.Codec
/-!
# C05 — evaluation with unknown values soundly approximates every concrete evaluation

`conc v a`: the concrete value `v` is consistent with the abstract value `a` (known parts equal, unknown
parts typed).  Refinements of unknown values (not-null, numeric range, string prefix, length bounds) are
not modelled: the model's unknowns carry their type only, and the cases in which go-cty's answer depends
on a refinement are outside the modelled fragment (reported as `unsupported`, i.e. a diagnostic here).
Proved for the strict configuration (no sub-evaluation failed); see `Props/C06.lean`.
-/
namespace HclModel

/-- Abstraction soundness: if the abstract evaluation (some variables unknown) and a concrete instantiation
    are both free of errors, the concrete result is consistent with the abstract one. -/
theorem abs_sound (F : Funcs) (hF : SoundFuncs F) (e : Expr) (ρc ρa : Env) (h : concEnv ρc ρa)
    (hc : (eval (strictCx F) ρc e).2 = []) (ha : (eval (strictCx F) ρa e).2 = []) :
    conc (eval (strictCx F) ρc e).1 (eval (strictCx F) ρa e).1 = true :=
  Proofs.abs_sound F hF e ρc ρa h hc ha

/-- Conversely: an error-free evaluation in a scope without unknown values never produces an unknown value. -/
theorem known_in_known_out (F : Funcs) (hF : SoundFuncs F) (e : Expr) (ρ : Env) (hk : knownEnv ρ)
    (h : (eval (strictCx F) ρ e).2 = []) : Val.whollyKnown (eval (strictCx F) ρ e).1 = true :=
  Proofs.known_in_known_out F hF e ρ hk h

/-- non-vacuity: an abstract evaluation that is neither trivially unknown nor trivially known -/
example : (eval (strictCx stdFuncs) [("x", .unk {} .num), ("y", .num {} 2)]
      (.tuple [.bin .add (.var "x") (.var "y"), .bin .mul (.var "y") (.var "y")])).1 =
    .tuple {} [.unk {} .num, .num {} 4] := by rfl

end HclModel
