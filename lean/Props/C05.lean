import Proofs.Unknowns
import HclModel.Expr.Codec
/-!
# C05 — evaluation with unknown values soundly approximates every concrete evaluation

`conc v a`: the concrete value `v` is consistent with the abstract value `a` (known parts equal, unknown
parts typed).  Refinements of unknown values (not-null, numeric range, string prefix, length bounds) are
not modelled: the model's unknowns carry their type only, and the cases in which go-cty's answer depends
on a refinement are outside the modelled fragment (reported as `unsupported`, i.e. a diagnostic here).
Proved for the strict configuration (no sub-evaluation failed); see `Props/C06.lean`.

## What is proved, and what is not

The statements as first planned, `AbsSoundFull` and `KnownInKnownOutFull` below, are **false**; the
counterexamples `cex1` … `cex9` are checked by evaluation.  Some of them are corners of the model, others
are genuine properties of the evaluator (the result type of a conditional is the unification of the types
of its two results, and the dynamic pseudo-type of an unknown result hides a conversion that a concrete
evaluation performs: `cex1`, `cex6`).

Proved instead (`Proofs/Unknowns.lean`, definitions in `HclModel/Expr/Gamma.lean`):

* `known_in_known_out_partial`, for expressions with `knownOk e`: every literal is wholly known and the
  operand of every `tjoin` is a tuple-forming expression (what the parser produces).  Lost: nothing that
  the parser can produce (`cex8`, `cex9`).
* `abs_sound_partial`, with
  * `okExpr e`: every literal is well typed; the two results of every conditional have the same *static*
    primitive type (`staticTy`: literals of primitive type, operators, templates, such conditionals; one
    result may be the literal `null`); the body of every splat has a static primitive type.
    Lost: conditionals whose results are variables / attribute accesses / collections (`cex1`, `cex2`,
    `cex3`, `cex6`), splats whose body is not statically typed such as `xs[*].name` (`cex5`, `cex7`).
    Relaxing `conc` instead (dynamic pseudo-type as a wildcard inside the type of an unknown, or "the abstract
    value converts to the concrete one") does not help: `cex6` and `cex7` end in two different *known*
    booleans.
  * `wfEnv ρc`: collection values of the concrete scope are well typed (`cex4`)
  * `SoundFuncsS F`: `SoundFuncs` plus monotonicity of the declared return type, parameter types that are
    `any` or do not mention `any`, well-typed results.
-/
namespace HclModel

/-- Abstraction soundness as first planned.  FALSE: see `abs_sound_full_false`. -/
def AbsSoundFull : Prop :=
  ∀ (F : Funcs), SoundFuncs F → ∀ (e : Expr) (ρc ρa : Env), concEnv ρc ρa →
    (eval (strictCx F) ρc e).2 = [] → (eval (strictCx F) ρa e).2 = [] →
    conc (eval (strictCx F) ρc e).1 (eval (strictCx F) ρa e).1 = true

/-- Known in, known out as first planned.  FALSE: see `known_in_known_out_full_false`. -/
def KnownInKnownOutFull : Prop :=
  ∀ (F : Funcs), SoundFuncs F → ∀ (e : Expr) (ρ : Env), knownEnv ρ →
    (eval (strictCx F) ρ e).2 = [] → Val.whollyKnown (eval (strictCx F) ρ e).1 = true

/-- Abstraction soundness (proved fragment): if the abstract evaluation (some variables unknown) and a
    concrete instantiation with well-typed values are both free of errors, the concrete result is consistent
    with the abstract one.  Excluded by `okExpr`: conditionals whose two results do not have the same static
    primitive type, splats whose body has no static primitive type, ill-typed literals. -/
theorem abs_sound_partial (F : Funcs) (hS : SoundFuncsS F) (e : Expr) (ρc ρa : Env) (ho : okExpr e = true)
    (h : concEnv ρc ρa) (hw : wfEnv ρc)
    (hc : (eval (strictCx F) ρc e).2 = []) (ha : (eval (strictCx F) ρa e).2 = []) :
    conc (eval (strictCx F) ρc e).1 (eval (strictCx F) ρa e).1 = true :=
  Proofs.abs_sound_partial F hS e ρc ρa ho h hw hc ha

/-- Conversely: an error-free evaluation in a scope without unknown values never produces an unknown value.
    Excluded by `knownOk`: unknown literals, `tjoin` applied to anything but a tuple-forming expression. -/
theorem known_in_known_out_partial (F : Funcs) (hF : SoundFuncs F) (e : Expr) (ρ : Env)
    (ho : knownOk e = true) (hk : knownEnv ρ)
    (h : (eval (strictCx F) ρ e).2 = []) : Val.whollyKnown (eval (strictCx F) ρ e).1 = true :=
  Proofs.known_in_known_out_partial F hF e ρ ho hk h

/-! ## Counterexamples to the full statements -/

/-- the empty function table -/
def noFuncs : Funcs := fun _ => none

theorem noFuncs_sound : SoundFuncs noFuncs where
  known := fun fn spec h => by simp [noFuncs] at h
  mono := fun fn spec h => by simp [noFuncs] at h
  retTy := fun fn spec h => by simp [noFuncs] at h

/-- the strengthened function-table laws are satisfiable -/
theorem noFuncs_soundS : SoundFuncsS noFuncs where
  sound := noFuncs_sound
  retTy_mono := fun fn spec h => by simp [noFuncs] at h
  params_ok := fun fn spec h => by simp [noFuncs] at h
  wf := fun fn spec h => by simp [noFuncs] at h

/-- what a counterexample to abstraction soundness is: consistent scopes, no diagnostics on either side,
    inconsistent results -/
def AbsCex (F : Funcs) (e : Expr) (ρc ρa : Env) : Prop :=
  concEnv ρc ρa ∧ (eval (strictCx F) ρc e).2 = [] ∧ (eval (strictCx F) ρa e).2 = [] ∧
    conc (eval (strictCx F) ρc e).1 (eval (strictCx F) ρa e).1 = false

/-- `false ? x : 1` with `x` unknown of dynamic type / `"5"`: the abstract result is the number `1`, the
    concrete one the string `"1"` (the unified type is `any` / `string`). -/
theorem cex1 : AbsCex noFuncs (.cond (.lit (.bool {} false)) (.var "x") (.lit (.num {} 1)))
    [("x", .str {} "5")] [("x", .unk {} .dyn)] := ⟨⟨rfl, rfl, trivial⟩, rfl, rfl, rfl⟩

/-! `convertible` is defined by well-founded recursion and does not reduce by `rfl`: the two counterexamples
    that convert a `null` of type `any` are evaluated with the unfolding lemmas instead. -/

private theorem conv_dyn_str : convertible .dyn .str = some true := by simp [convertible]
private theorem conv_dyn_num : convertible .dyn .num = some true := by simp [convertible]
private theorem convert_null_dyn_str (f : Fl) : convert (Val.null f .dyn) .str = .ok (Val.null f .str) := by
  rw [convert.eq_def]; simp [Val.typeOf, conv_dyn_str]; rfl
private theorem convert_null_dyn_num (f : Fl) : convert (Val.null f .dyn) .num = .ok (Val.null f .num) := by
  rw [convert.eq_def]; simp [Val.typeOf, conv_dyn_num]; rfl
private theorem convert_bool (f : Fl) (b : Bool) : convert (Val.bool f b) .bool = .ok (Val.bool f b) :=
  Proofs.Unk.convert_id rfl

def cex2Expr : Expr := .cond (.lit (.bool {} true)) (.lit (.null {} .dyn)) (.var "x")

theorem cex2_concrete : eval (strictCx noFuncs) [("x", .str {} "5")] cex2Expr = (.null {} .str, []) := by
  unfold cex2Expr
  rw [Proofs.Unk.eval_cond, Proofs.Unk.eval_lit, Proofs.Unk.eval_lit, Proofs.Unk.eval_var]
  simp [Env.lookup, lookupKey, evalCond, evalCondCore, unifyCond, Val.typeOf, Val.isNull, Val.unmark, Val.setFl,
    Val.fl, Val.isKnown, tryConvert, convert_null_dyn_str, convert_bool, pure, Except.pure]
  rfl

theorem cex2_abstract : eval (strictCx noFuncs) [("x", .unk {} .dyn)] cex2Expr = (.null {} .dyn, []) := by rfl

/-- `true ? null : x`, same scopes: `null` of type `any` / of type `string` (`conc` wants equal types). -/
theorem cex2 : AbsCex noFuncs cex2Expr [("x", .str {} "5")] [("x", .unk {} .dyn)] := by
  refine ⟨⟨rfl, rfl, trivial⟩, ?_, ?_, ?_⟩
  · rw [cex2_concrete]
  · rw [cex2_abstract]
  · rw [cex2_concrete, cex2_abstract]; rfl

def cex3Expr : Expr :=
  .cond (.lit (.bool {} true))
    (.cond (.un .not (.var "c")) (.lit (.null {} .dyn)) (.lit (.null {} .dyn))) (.lit (.num {} 1))

theorem cex3_concrete :
    eval (strictCx noFuncs) [("c", .bool ⟨true, false⟩ true)] cex3Expr = (.null ⟨true, false⟩ .dyn, []) := by rfl

private theorem cex3_inner : eval (strictCx noFuncs) [("c", .unk ⟨true, false⟩ .bool)]
    (.cond (.un .not (.var "c")) (.lit (.null {} .dyn)) (.lit (.null {} .dyn))) = (.null {} .dyn, []) := by rfl

theorem cex3_abstract :
    eval (strictCx noFuncs) [("c", .unk ⟨true, false⟩ .bool)] cex3Expr = (.null {} .num, []) := by
  unfold cex3Expr
  rw [Proofs.Unk.eval_cond, Proofs.Unk.eval_lit, Proofs.Unk.eval_lit, cex3_inner]
  simp [evalCond, evalCondCore, unifyCond, Val.typeOf, Val.isNull, Val.unmark, Val.setFl,
    Val.fl, Val.isKnown, tryConvert, convert_null_dyn_num, convert_bool, pure, Except.pure]
  rfl

/-- `true ? (!c ? null : null) : 1` with `c` a marked bool: `!` drops the mark of an unknown operand, and a
    marked `null` is not the "untyped null" of the unification: `null` of type `number` / of type `any`. -/
theorem cex3 : AbsCex noFuncs cex3Expr [("c", .bool ⟨true, false⟩ true)] [("c", .unk ⟨true, false⟩ .bool)] := by
  refine ⟨⟨rfl, rfl, trivial⟩, ?_, ?_, ?_⟩
  · rw [cex3_concrete]
  · rw [cex3_abstract]
  · rw [cex3_concrete, cex3_abstract]; rfl

/-- `x.a` with `x` an ill-typed map (declared `map(string)`, containing a number) / unknown `map(string)`. -/
theorem cex4 : AbsCex noFuncs (.getAttr (.var "x") "a")
    [("x", .map {} .str [("a", .num {} 1)])] [("x", .unk {} (.map .str))] := ⟨⟨rfl, rfl, trivial⟩, rfl, rfl, rfl⟩

/-- `xs[*].y` (body `y`) with `y` unknown of dynamic type: unknown `list(any)` / `["a"]` of type
    `list(string)` (`conc` wants the type of an unknown to be exact). -/
theorem cex5 : AbsCex noFuncs (.splat "%anon0" (.var "xs") (.var "y"))
    [("xs", .list {} .num [.num {} 1]), ("y", .str {} "a")] [("xs", .unk {} (.list .num)), ("y", .unk {} .dyn)] :=
  ⟨⟨rfl, rfl, rfl, rfl, trivial⟩, rfl, rfl, rfl⟩

/-- `(false ? x : 1) == "1"`: `false` / `true`, two known booleans — no relaxation of `conc` absorbs `cex1`. -/
theorem cex6 : AbsCex noFuncs
    (.bin .eq (.cond (.lit (.bool {} false)) (.var "x") (.lit (.num {} 1))) (.lit (.str {} "1")))
    [("x", .str {} "5")] [("x", .unk {} .dyn)] := ⟨⟨rfl, rfl, trivial⟩, rfl, rfl, rfl⟩

/-- `[][*].y == []` on empty lists: the abstract splat is the known empty `list(any)`, the concrete one the
    empty `list(string)`; `Equals` on different types: `false` / `true`. -/
theorem cex7 : AbsCex noFuncs
    (.bin .eq (.splat "%anon0" (.lit (.list {} .num [])) (.var "y")) (.lit (.list {} .str [])))
    [("y", .str {} "a")] [("y", .unk {} .dyn)] := ⟨⟨rfl, rfl, trivial⟩, rfl, rfl, rfl⟩

theorem abs_sound_full_false : ¬ AbsSoundFull := by
  intro h
  obtain ⟨h1, h2, h3, h4⟩ := cex1
  have := h noFuncs noFuncs_sound _ _ _ h1 h2 h3
  rw [h4] at this
  cases this

/-- `tjoin` of a `null` value: no diagnostic (Go panics here; the parser never builds it), unknown result. -/
theorem cex8 : (eval (strictCx noFuncs) [] (.tjoin (.lit (.null {} .dyn)))).2 = [] ∧
    Val.whollyKnown (eval (strictCx noFuncs) [] (.tjoin (.lit (.null {} .dyn)))).1 = false := ⟨rfl, rfl⟩

/-- an unknown literal -/
theorem cex9 : (eval (strictCx noFuncs) [] (.lit (.unk {} .str))).2 = [] ∧
    Val.whollyKnown (eval (strictCx noFuncs) [] (.lit (.unk {} .str))).1 = false := ⟨rfl, rfl⟩

theorem known_in_known_out_full_false : ¬ KnownInKnownOutFull := by
  intro h
  have := h noFuncs noFuncs_sound (.tjoin (.lit (.null {} .dyn))) [] (fun p hp => by cases hp) cex8.1
  rw [cex8.2] at this
  cases this

/-! `Rat` multiplication does not reduce by `rfl` (it goes through `Nat.gcd`): the product is evaluated with
    the unfolding lemmas. -/

private theorem ex_add : eval (strictCx stdFuncs) [("x", .unk {} .num), ("y", .num {} 2)]
    (.bin .add (.var "x") (.var "y")) = (.unk {} .num, []) := by rfl

private theorem ex_mul : eval (strictCx stdFuncs) [("x", .unk {} .num), ("y", .num {} 2)]
    (.bin .mul (.var "y") (.var "y")) = (.num {} 4, []) := by
  have h2 : (2:Rat) * 2 = 4 := by grind
  have hy : eval (strictCx stdFuncs) [("x", .unk {} .num), ("y", .num {} 2)] (.var "y") = (.num {} 2, []) := by rfl
  rw [Proofs.Unk.eval_bin, hy]
  have hc : tryConvert (Val.num {} 2) BinOp.mul.paramTy = .ok (Val.num {} 2) := by rfl
  unfold evalBin
  simp only [hc, Proofs.Unk.strict_kd]
  have hs : shortCircuit .mul (Val.num {} 2).unmark.1 (Val.num {} 2).unmark.1 [] [] = none := by rfl
  simp only [hs]
  have hcb : callBin .mul (Val.num {} 2).unmark.1 (Val.num {} 2).unmark.1 = .ok (.num {} 4) := by
    simp [callBin, Val.unmark, Val.setFl, Val.isNull, h2, pure, Except.pure, Fl.join, Fl.unmark, Val.fl]
  simp only [hcb, hasErrors]
  rfl

/-- non-vacuity: an abstract evaluation that is neither trivially unknown nor trivially known -/
example : (eval (strictCx stdFuncs) [("x", .unk {} .num), ("y", .num {} 2)]
      (.tuple [.bin .add (.var "x") (.var "y"), .bin .mul (.var "y") (.var "y")])).1 =
    .tuple {} [.unk {} .num, .num {} 4] := by
  rw [Proofs.Unk.eval_tuple]
  simp only [evalList, ex_add, ex_mul]
  rfl

/-- non-vacuity of the fragments: the expression above is in both -/
example : okExpr (.tuple [.bin .add (.var "x") (.var "y"), .bin .mul (.var "y") (.var "y")]) = true ∧
    knownOk (.tuple [.bin .add (.var "x") (.var "y"), .bin .mul (.var "y") (.var "y")]) = true := ⟨rfl, rfl⟩

end HclModel
