import Proofs.OpParser
import Proofs.OpTable
import HclModel.Gen.BinaryOps
/-!
# C01 — expression evaluation conforms to the specification (operator grammar part)

Precedence and associativity.  The parser model (`HclModel/Syntax/OpParser.lean`) has the loop structure
of `parseBinaryOps` / `parseExpressionTerm`; it is tied to the real parser by the `PARSEX` correspondence
on generated operator chains.  The operator table is regenerated from the compiled `binaryOps` on every
check (`HclModel/Gen/BinaryOps.lean`).

The evaluator part of C01 is the `EVAL` correspondence of `HclModel/Expr/Eval.lean` (see DESIGN.md).
-/
namespace HclModel.OpParser

/-- The compiled operator table is the specification's table (levels, tokens and operations). -/
theorem gen_table_is_spec : Gen.binaryOps = specOps := by decide

/-- Round trip for EVERY level table: a tree printed with the parentheses that precedence and left
    associativity require parses back to exactly that tree. -/
theorem parse_render_any_table (T : Tbl) (e : E) (h : WP T T.L e) : parse T (render e) = some e :=
  parse_render T e h

/-- `parenthesize` inserts exactly such parentheses, and nothing else changes. -/
theorem parenthesize_wp (T : Tbl) (e : E) (h : opsKnown T e) : WP T T.L (parenthesize T T.L e) :=
  Proofs.parenthesize_wp T e h

theorem parenthesize_erase (T : Tbl) (d : Nat) (e : E) : eraseParens (parenthesize T d e) = eraseParens e :=
  Proofs.parenthesize_erase T d e

/-- Hence every operator tree over the compiled table has a rendering that the parser reads back as the same
    tree up to parentheses: grouping is decided by the table alone. -/
theorem every_tree_round_trips (e : E) (h : opsKnown (tblOf Gen.binaryOps) e) :
    ∃ e', parse (tblOf Gen.binaryOps) (render (parenthesize (tblOf Gen.binaryOps) (tblOf Gen.binaryOps).L e)) = some e' ∧
      eraseParens e' = eraseParens e :=
  ⟨_, parse_render _ _ (parenthesize_wp _ e h), parenthesize_erase _ _ e⟩

/-- Left associativity and relative precedence, concretely (a sanity check of the table orientation):
    `1 - 2 - 3 * 4 + 5` groups as `((1 - 2) - (3 * 4)) + 5`. -/
example : parse (tblOf Gen.binaryOps)
    [.atom 1, .op 45, .atom 2, .op 45, .atom 3, .op 42, .atom 4, .op 43, .atom 5] =
    some (.bin 43 (.bin 45 (.bin 45 (.atom 1) (.atom 2)) (.bin 42 (.atom 3) (.atom 4))) (.atom 5)) := by
  -- `decide` cannot reduce the well-founded recursion of the parser: unfold it by rewriting instead
  have hL : (tblOf Gen.binaryOps).L = 6 := by decide
  have h45 : (tblOf Gen.binaryOps).lv 45 = some 2 := by decide
  have h42 : (tblOf Gen.binaryOps).lv 42 = some 1 := by decide
  have h43 : (tblOf Gen.binaryOps).lv 43 = some 2 := by decide
  simp [parse, hL, parseLevel, loopLevel, parseTerm, h45, h42, h43]

end HclModel.OpParser
