import Proofs.OpParser
import Proofs.OpTable
import HclModel.Gen.BinaryOps
import Proofs.Template
/-!
# C01 — expression evaluation conforms to the specification (operator grammar part)

Precedence and associativity.  The parser model (`HclModel/Syntax/OpParser.lean`) has the loop structure
of `parseBinaryOps` / `parseExpressionTerm`; it is tied to the real parser by the `PARSEX` correspondence
on generated operator chains.  The operator table is regenerated from the compiled `binaryOps` on every
check (`HclModel/Gen/BinaryOps.lean`).

The evaluator part of C01 is the `EVAL` correspondence of `HclModel/Expr/Eval.lean` (see DESIGN.md).
-/
namespace HclModel.OpParser

/-- The compiled operator table is the specification's table (levels, tokens and operations). -/
theorem gen_table_is_spec : Gen.binaryOps = specOps := by decide

/-- Round trip for EVERY level table: a tree printed with the parentheses that precedence and left
    associativity require parses back to exactly that tree. -/
theorem parse_render_any_table (T : Tbl) (e : E) (h : WP T T.L e) : parse T (render e) = some e :=
  parse_render T e h

/-- `parenthesize` inserts exactly such parentheses, and nothing else changes. -/
theorem parenthesize_wp (T : Tbl) (e : E) (h : opsKnown T e) : WP T T.L (parenthesize T T.L e) :=
  Proofs.parenthesize_wp T e h

theorem parenthesize_erase (T : Tbl) (d : Nat) (e : E) : eraseParens (parenthesize T d e) = eraseParens e :=
  Proofs.parenthesize_erase T d e

/-- Hence every operator tree over the compiled table has a rendering that the parser reads back as the same
    tree up to parentheses: grouping is decided by the table alone. -/
theorem every_tree_round_trips (e : E) (h : opsKnown (tblOf Gen.binaryOps) e) :
    ∃ e', parse (tblOf Gen.binaryOps) (render (parenthesize (tblOf Gen.binaryOps) (tblOf Gen.binaryOps).L e)) = some e' ∧
      eraseParens e' = eraseParens e :=
  ⟨_, parse_render _ _ (parenthesize_wp _ e h), parenthesize_erase _ _ e⟩

/-- Left associativity and relative precedence, concretely (a sanity check of the table orientation):
    `1 - 2 - 3 * 4 + 5` groups as `((1 - 2) - (3 * 4)) + 5`. -/
example : parse (tblOf Gen.binaryOps)
    [.atom 1, .op 45, .atom 2, .op 45, .atom 3, .op 42, .atom 4, .op 43, .atom 5] =
    some (.bin 43 (.bin 45 (.bin 45 (.atom 1) (.atom 2)) (.bin 42 (.atom 3) (.atom 4))) (.atom 5)) := by
  -- `decide` cannot reduce the well-founded recursion of the parser: unfold it by rewriting instead
  have hL : (tblOf Gen.binaryOps).L = 6 := by decide
  have h45 : (tblOf Gen.binaryOps).lv 45 = some 2 := by decide
  have h42 : (tblOf Gen.binaryOps).lv 42 = some 1 := by decide
  have h43 : (tblOf Gen.binaryOps).lv 43 = some 2 := by decide
  simp [parse, hL, parseLevel, loopLevel, parseTerm, h45, h42, h43]

end HclModel.OpParser

/-! ## the template sub-language: strip markers, flush heredocs, melding

`HclModel/Syntax/Template.lean` models what `parseTemplateParts`, `flushHeredocTemplateParts` and
`meldConsecutiveStringLiterals` do to the scanner's template tokens; it is tied to the real template parser by
the `TMPL` correspondence (generated quoted templates and plain / flush heredocs with interpolations, `if` /
`else` / `for` directives, strip markers on every opener and closer, CRLF line endings; the model's tokens are
compared with the tree the parser built).  `sp` stands for `unicode.IsSpace`: every theorem holds whatever
it answers. -/
namespace HclModel.Template

/-- Whatever the strip markers, the flush rule and melding do, they remove white space only: the non-space
    characters and the `${ … }` / `%{ … }` sequences of a template come out exactly as written, in order — for
    quoted templates and both kinds of heredoc. -/
theorem process_preserves_content (sp : Char → Bool) (flushHeredoc : Bool) (raws : List Raw) :
    skel sp (process sp flushHeredoc raws) = skel sp (naive raws) := by
  unfold process
  cases flushHeredoc <;> simp [Proofs.skel_meld, Proofs.skel_flush, Proofs.skel_parts]

/-- A template without strip markers is taken as written, white space included (an empty template is one empty
    literal); with `process`, only the flush rule and melding apply. -/
theorem no_markers_as_written (sp : Char → Bool) (raws : List Raw) (h : raws.all Proofs.noStrip = true) :
    parts sp raws = (match naive raws with | [] => [.lit []] | ps => ps) :=
  Proofs.parts_noStrip sp raws h

/-- The flush rule removes the minimum of the counted indentations (`Proofs.counted`: the literals that start a
    line and are not blank lines count with their leading white space, a sequence that starts a line counts 0,
    everything else does not count), and nothing when no token counts. -/
theorem flush_removes_minimum (sp : Char → Bool) (ps : List Part) :
    flush sp ps = (match (Proofs.counted sp true ps).min? with
                   | none => ps
                   | some m => adjust sp m true ps) := by
  unfold flush
  rw [Proofs.minIndent_eq_min]
  cases (Proofs.counted sp true ps).min? <;> rfl

/-- Flushing is idempotent: once the smallest indentation has been removed the smallest indentation is 0 (line
    structure and blank lines are not disturbed by the removal). -/
theorem flush_idempotent (sp : Char → Bool) (ps : List Part) : flush sp (flush sp ps) = flush sp ps :=
  Proofs.flush_idem sp ps

/-- Melding keeps all the text and leaves no two literals adjacent. -/
theorem meld_keeps_text (ps : List Part) : text (meld ps) = text ps := Proofs.text_meld ps

theorem meld_no_adjacent_literals (ps : List Part) : Proofs.noAdjacentLits (meld ps) = true :=
  Proofs.meld_noAdjacent ps

/-- A flush heredoc: the smallest indentation (2, of `  a`) is removed from every counted line; the blank line
    and the deeper indentation keep what is left. -/
example : process (fun c => c = ' ' || c = '\n') true
    [.lit "  a\n".toList, .lit "    b\n".toList, .lit "\n".toList, .lit "  ".toList, .seq .interp 0 false false, .lit "\n".toList] =
    [.lit "a\n  b\n\n".toList, .seq .interp 0, .lit "\n".toList] := by
  simp [process, parts, stripStep, flush, minIndent, adjust, lineIndent, isBlankLine, endsNl, indentOf, nextNl, omin, meld]

/-- A line that starts with a sequence has indentation 0: nothing is removed. -/
example : process (fun c => c = ' ' || c = '\n') true
    [.lit "  a\n".toList, .seq .interp 0 false false, .lit "\n".toList] =
    [.lit "  a\n".toList, .seq .interp 0, .lit "\n".toList] := by
  simp [process, parts, stripStep, flush, minIndent, adjust, lineIndent, isBlankLine, endsNl, indentOf, nextNl, omin, meld]

/-- Strip markers trim the literal token next to the sequence, on the marked side only. -/
example : process (fun c => c = ' ' || c = '\n') false
    [.lit "a  ".toList, .seq .interp 0 true false, .lit "  b ".toList, .seq .ctrl 1 false true, .lit " c".toList] =
    [.lit "a".toList, .seq .interp 0, .lit "  b ".toList, .seq .ctrl 1, .lit "c".toList] := by
  simp [process, parts, stripStep, trimLast, trimRight, trimLeft, meld]

end HclModel.Template
