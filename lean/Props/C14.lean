import Proofs.Pos
import Proofs.RangeScan
import Proofs.JsonScanPos
/-!
# C14 — tokens tile the source and every reported position is faithful (position arithmetic)

`emitAll` is the scanner's incremental position bookkeeping (`tokenAccum.emitToken`), `refRanges` the
independent recount from the start position (newlines and grapheme clusters up to the byte offset).
The segmentation of the input into tokens and gaps comes from the real scanner (`POS` correspondence);
that gaps hold only spaces/tabs and that token boundaries fall on cluster boundaries are checked there.
-/
namespace HclModel.Pos

/-- Every token's start and end position — byte, line and column — equals the recount from the start
    position, for every segmentation, every start position, every mixture of newline and multi-byte clusters. -/
theorem emit_positions (start : P) (segs : List Seg) :
    emitAll start 0 segs = refRanges start [] segs :=
  Proofs.emitAll_eq_ref start segs

/-- Tokens are emitted in source order and do not overlap: each token starts at or after the end of the
    previous one, and its end is its start plus its bytes. -/
theorem emit_ordered (start : P) (segs : List Seg) :
    (emitAll start 0 segs).Pairwise (fun a b => a.stop.byte ≤ b.start.byte) ∧
    ∀ r ∈ emitAll start 0 segs, r.start.byte ≤ r.stop.byte :=
  Proofs.emitAll_ordered start segs

/-- The byte offsets tile the input: the last token ends at start + total bytes when the input ends with a
    token (the scanner always ends with the EOF token). -/
theorem emit_last_byte (start : P) (segs : List Seg) (ty : Nat) (cls : List Cl) :
    ((emitAll start 0 (segs ++ [.tok ty cls])).getLast?.map (·.stop.byte)) =
      some (start.byte + clBytes (flatten (segs ++ [.tok ty cls]))) :=
  Proofs.emitAll_last start segs ty cls

/-- non-vacuity: a CRLF, a multi-byte cluster and a gap -/
example : emitAll ⟨10, 3, 5⟩ 0 [.tok 73 [⟨1, false⟩, ⟨3, false⟩], .gap 2, .tok 10 [⟨2, true⟩], .tok 73 [⟨1, false⟩]] =
    [⟨73, ⟨10, 3, 5⟩, ⟨14, 3, 7⟩⟩, ⟨10, ⟨16, 3, 9⟩, ⟨18, 4, 1⟩⟩, ⟨73, ⟨18, 4, 1⟩, ⟨19, 4, 2⟩⟩] := by decide

/-! ## `hcl.RangeScanner` (pos_scanner.go)

`scanAll` is `RangeScanner.Scan` called until the buffer is exhausted, over the windows cut by any split
function; `refScan` recounts every range from the start of the buffer.  The `RSCAN` correspondence runs
both on the real scanner's windows (five split functions). -/

/-- Every range reported by the scanner — start and end, byte, line and column — equals the position
    obtained by counting newlines and grapheme clusters from the start position: for every start position,
    every split function (any windows, any token lengths) and every mixture of clusters. -/
theorem rscan_positions (start : P) (wins : List Win) :
    scanAll start wins = refScan start [] wins :=
  Proofs.scanAll_eq_ref start wins

/-- Ranges come in buffer order without overlap, and each is well-formed. -/
theorem rscan_ordered (start : P) (wins : List Win) :
    (scanAll start wins).Pairwise (fun a b => a.stop.byte ≤ b.start.byte) ∧
    ∀ r ∈ scanAll start wins, r.start.byte ≤ r.stop.byte :=
  ⟨(Proofs.scanAll_ordered_gen wins start).1, (Proofs.scanAll_ordered_gen wins start).2.1⟩

/-- A token that ends on a cluster boundary of its window is covered exactly: the range starts at the
    running position and ends `tokLen` bytes later. -/
theorem rscan_covers_token (pos : P) (w : Win) (h : w.aligned) :
    (scanWin pos w).1.start = pos ∧ (scanWin pos w).1.stop.byte = pos.byte + w.tokLen :=
  Proofs.scanWin_covers pos w h

/-- The next range starts at the position — byte, line *and* column — reached after the whole previous
    window, wherever the previous token ended inside it. -/
theorem rscan_contiguous (pos : P) (w : Win) (ws : List Win) :
    scanAll pos (w :: ws) = (scanWin pos w).1 :: scanAll (walk pos w.cls) ws :=
  Proofs.scanAll_contiguous pos w ws

/-- The full reading "the range covers the returned token" is false for split functions that skip leading
    bytes (`bufio.ScanWords`): the scanner takes the token to be the head of the window.  `"  foo "`:
    the token `foo` lies at offset 2, the range reported is bytes [0,3) = `"  f"` (recorded finding
    C14-rangescanner; replayed on the real scanner by the oracle). -/
theorem rscan_skipped_prefix_witness :
    let w : Win := { cls := List.replicate 6 ⟨1, false⟩, tokLen := 3, tokOfs := 2 }
    (scanWin ⟨0, 1, 1⟩ w).1.start.byte ≠ 0 + w.tokOfs ∧ (scanWin ⟨0, 1, 1⟩ w).1 = ⟨0, ⟨0, 1, 1⟩, ⟨3, 1, 4⟩⟩ := by
  decide

/-- non-vacuity: lines kept with their terminator (the end of the first range is line 2, column 1), a
    two-byte cluster, a token shorter than its window -/
example : scanAll ⟨0, 1, 1⟩ [⟨[⟨1, false⟩, ⟨2, false⟩, ⟨1, true⟩], 4, 0⟩, ⟨[⟨1, false⟩, ⟨2, true⟩], 1, 0⟩] =
    [⟨0, ⟨0, 1, 1⟩, ⟨4, 2, 1⟩⟩, ⟨0, ⟨4, 2, 1⟩, ⟨5, 2, 2⟩⟩] := by decide
example : (⟨[⟨1, false⟩, ⟨2, false⟩, ⟨1, true⟩], 4, 0⟩ : Win).aligned := by decide

end HclModel.Pos

/-! ## JSON scanner (json/scanner.go)

`scanP` is the JSON scanner with the position bookkeeping of the Go code (`HclModel/Json/ScanPos.lean`);
`scan` is the scanner model of C13 (types, bytes, byte offsets).  `adv` is the grapheme-cluster advance
(`textseg`), arbitrary in every theorem except `jscan_cols_*`.  The `JSONSCANP` correspondence compares
`scanP` with the real scanner's token ranges. -/
namespace HclModel.Json
open HclModel.Pos (P)

/-- Forgetting lines and columns gives the scanner model of C13: same token types, same bytes, byte offsets
    shifted by the start offset. -/
theorem jscan_erase (adv : List Byte → Nat) (buf : List Byte) (start : P) :
    (scanP adv buf start).map (fun t => (t.ty, t.bytes, t.start.byte)) =
      (scan adv buf).map (fun t => (t.ty, t.bytes, start.byte + t.start)) :=
  Proofs.scanP_erase adv buf start

/-- Every token — the invalid token and the EOF tokens included — ends at its start byte plus the number of
    its bytes. -/
theorem jscan_bytes (adv : List Byte → Nat) (buf : List Byte) (start : P) :
    ∀ t ∈ scanP adv buf start, t.stop.byte = t.start.byte + t.bytes.length :=
  Proofs.scanP_bytes adv buf start

/-- What the Go code does at an invalid byte, exactly: the invalid token holds that one byte and its range is
    `start.Range(1, 1)` (one byte, one column, same line); exactly one token follows it, the synthetic EOF,
    empty, at the invalid token's end.  Every EOF token is empty with `stop = start`, and the token list
    always ends with an EOF token. -/
theorem jscan_invalid_eof (adv : List Byte → Nat) (buf : List Byte) (start : P) :
    (∀ pre t rest, scanP adv buf start = pre ++ t :: rest → t.ty = .invalid →
      t.bytes.length = 1 ∧ t.stop = ⟨t.start.byte + 1, t.start.line, t.start.col + 1⟩ ∧
      rest = [⟨.eof, [], t.stop, t.stop⟩]) ∧
    (∀ t ∈ scanP adv buf start, t.ty = .eof → t.bytes = [] ∧ t.stop = t.start) ∧
    (scanP adv buf start).getLast?.map (·.ty) = some .eof :=
  ⟨(Proofs.scanFromP_shape adv _ buf start).inv, (Proofs.scanFromP_shape adv _ buf start).eof,
   (Proofs.scanFromP_shape adv _ buf start).last⟩

/-- Lines are obtained by counting newline bytes: the line of every token boundary is the start line plus
    the number of bytes `\n` before it — for every input (invalid UTF-8, control bytes, unterminated strings,
    anything) and every `adv`.  (A string token never contains a raw newline: a control byte ends it, and a
    cluster is cut before a control byte.) -/
theorem jscan_lines (adv : List Byte → Nat) (buf : List Byte) (start : P) :
    ∀ t ∈ scanP adv buf start,
      t.start.line = start.line + (buf.take (t.start.byte - start.byte)).count 10 ∧
      t.stop.line = start.line + (buf.take (t.stop.byte - start.byte)).count 10 :=
  Proofs.scanP_lines adv buf start

/-- Columns, general form: on input without tab and carriage return, scanned with one-byte clusters, the column
    of every token boundary is the recount `colAt` of the bytes before it (bytes since the last newline). -/
theorem jscan_cols_no_tab_cr (adv : List Byte → Nat) (buf : List Byte) (start : P)
    (hbuf : ∀ b ∈ buf, b ≠ 9 ∧ b ≠ 13) (hadv : ∀ l, adv l = 1) :
    ∀ t ∈ scanP adv buf start,
      t.start.col = colAt start.col (buf.take (t.start.byte - start.byte)) ∧
      t.stop.col = colAt start.col (buf.take (t.stop.byte - start.byte)) :=
  Proofs.scanP_cols adv buf start hbuf hadv

/-- Columns on plain input: every byte printable ASCII or `\n`, one-byte clusters. -/
theorem jscan_cols_plain (adv : List Byte → Nat) (buf : List Byte) (start : P)
    (hbuf : ∀ b ∈ buf, b = 10 ∨ (32 ≤ b ∧ b ≤ 126)) (hadv : ∀ l, adv l = 1) :
    ∀ t ∈ scanP adv buf start,
      t.start.col = colAt start.col (buf.take (t.start.byte - start.byte)) ∧
      t.stop.col = colAt start.col (buf.take (t.stop.byte - start.byte)) :=
  Proofs.scanP_cols adv buf start (fun b hb => by have := hbuf b hb; simp only [Byte] at *; omega) hadv

/-- the recount: no newline → start column + bytes; else 1 + bytes after the last newline -/
example : colAt 5 [97, 98, 99] = 8 ∧ colAt 5 [97, 10, 98, 10, 99, 100] = 3 ∧ colAt 5 [97, 10] = 1 := by decide

/-- A tab advances the column by 2 (the scanner's documented convention; it deviates from counting bytes
    or grapheme clusters, so the no-tab hypothesis of `jscan_cols_*` is needed). -/
theorem jscan_tab_two_columns :
    scanP (fun _ => 1) [9, 123] ⟨0, 1, 1⟩ =
      [⟨.braceO, [123], ⟨1, 1, 3⟩, ⟨2, 1, 4⟩⟩, ⟨.eof, [], ⟨2, 1, 4⟩, ⟨2, 1, 4⟩⟩] ∧
    colAt 1 [9] = 2 := by decide

/-- A carriage return advances the byte offset only: no column, no line. -/
theorem jscan_cr_zero_columns :
    scanP (fun _ => 1) [13, 123, 13, 10, 125] ⟨0, 1, 1⟩ =
      [⟨.braceO, [123], ⟨1, 1, 1⟩, ⟨2, 1, 2⟩⟩, ⟨.braceC, [125], ⟨4, 2, 1⟩, ⟨5, 2, 2⟩⟩,
       ⟨.eof, [], ⟨5, 2, 2⟩, ⟨5, 2, 2⟩⟩] ∧
    colAt 1 [13] = 2 := by decide

/-- non-vacuity: `{"a\"é": [1, tru]}\n x` with `é` = `e` + U+0301 (one cluster of three bytes at offset 5,
    one column), an escaped quote, a malformed keyword, a newline; start position (100, 7, 4) -/
example :
    let buf : List Byte := [123, 34, 97, 92, 34, 101, 204, 129, 34, 58, 32, 91, 49, 44, 32, 116, 114, 117, 93, 125, 10, 32, 120]
    let tbl : List Nat := [1, 1, 1, 1, 1, 3, 2, 1, 1, 1, 1, 1, 1, 1, 1, 1, 1, 1, 1, 1, 1, 1, 1]
    scanP (fun rest => tbl.getD (buf.length - rest.length) 1) buf ⟨100, 7, 4⟩ =
      [⟨.braceO, [123], ⟨100, 7, 4⟩, ⟨101, 7, 5⟩⟩,
       ⟨.string, [34, 97, 92, 34, 101, 204, 129, 34], ⟨101, 7, 5⟩, ⟨109, 7, 11⟩⟩,
       ⟨.colon, [58], ⟨109, 7, 11⟩, ⟨110, 7, 12⟩⟩,
       ⟨.brackO, [91], ⟨111, 7, 13⟩, ⟨112, 7, 14⟩⟩,
       ⟨.number, [49], ⟨112, 7, 14⟩, ⟨113, 7, 15⟩⟩,
       ⟨.comma, [44], ⟨113, 7, 15⟩, ⟨114, 7, 16⟩⟩,
       ⟨.keyword, [116, 114, 117], ⟨115, 7, 17⟩, ⟨118, 7, 20⟩⟩,
       ⟨.brackC, [93], ⟨118, 7, 20⟩, ⟨119, 7, 21⟩⟩,
       ⟨.braceC, [125], ⟨119, 7, 21⟩, ⟨120, 7, 22⟩⟩,
       ⟨.keyword, [120], ⟨122, 8, 2⟩, ⟨123, 8, 3⟩⟩,
       ⟨.eof, [], ⟨123, 8, 3⟩, ⟨123, 8, 3⟩⟩] := by decide

/-- non-vacuity: an invalid byte stops the scanner; a control byte ends a string -/
example : scanP (fun _ => 1) [34, 97, 10, 64, 49] ⟨0, 1, 1⟩ =
    [⟨.string, [34, 97], ⟨0, 1, 1⟩, ⟨2, 1, 3⟩⟩, ⟨.invalid, [64], ⟨3, 2, 1⟩, ⟨4, 2, 2⟩⟩,
     ⟨.eof, [], ⟨4, 2, 2⟩, ⟨4, 2, 2⟩⟩] := by decide

end HclModel.Json
