import Proofs.Pos
import Proofs.RangeScan
/-!
# C14 — tokens tile the source and every reported position is faithful (position arithmetic)

`emitAll` is the scanner's incremental position bookkeeping (`tokenAccum.emitToken`), `refRanges` the
independent recount from the start position (newlines and grapheme clusters up to the byte offset).
The segmentation of the input into tokens and gaps comes from the real scanner (`POS` correspondence);
that gaps hold only spaces/tabs and that token boundaries fall on cluster boundaries are checked there.
-/
namespace HclModel.Pos

/-- Every token's start and end position — byte, line and column — equals the recount from the start
    position, for every segmentation, every start position, every mixture of newline and multi-byte clusters. -/
theorem emit_positions (start : P) (segs : List Seg) :
    emitAll start 0 segs = refRanges start [] segs :=
  Proofs.emitAll_eq_ref start segs

/-- Tokens are emitted in source order and do not overlap: each token starts at or after the end of the
    previous one, and its end is its start plus its bytes. -/
theorem emit_ordered (start : P) (segs : List Seg) :
    (emitAll start 0 segs).Pairwise (fun a b => a.stop.byte ≤ b.start.byte) ∧
    ∀ r ∈ emitAll start 0 segs, r.start.byte ≤ r.stop.byte :=
  Proofs.emitAll_ordered start segs

/-- The byte offsets tile the input: the last token ends at start + total bytes when the input ends with a
    token (the scanner always ends with the EOF token). -/
theorem emit_last_byte (start : P) (segs : List Seg) (ty : Nat) (cls : List Cl) :
    ((emitAll start 0 (segs ++ [.tok ty cls])).getLast?.map (·.stop.byte)) =
      some (start.byte + clBytes (flatten (segs ++ [.tok ty cls]))) :=
  Proofs.emitAll_last start segs ty cls

/-- non-vacuity: a CRLF, a multi-byte cluster and a gap -/
example : emitAll ⟨10, 3, 5⟩ 0 [.tok 73 [⟨1, false⟩, ⟨3, false⟩], .gap 2, .tok 10 [⟨2, true⟩], .tok 73 [⟨1, false⟩]] =
    [⟨73, ⟨10, 3, 5⟩, ⟨14, 3, 7⟩⟩, ⟨10, ⟨16, 3, 9⟩, ⟨18, 4, 1⟩⟩, ⟨73, ⟨18, 4, 1⟩, ⟨19, 4, 2⟩⟩] := by decide

/-! ## `hcl.RangeScanner` (pos_scanner.go)

`scanAll` is `RangeScanner.Scan` called until the buffer is exhausted, over the windows cut by any split
function; `refScan` recounts every range from the start of the buffer.  The `RSCAN` correspondence runs
both on the real scanner's windows (five split functions). -/

/-- Every range reported by the scanner — start and end, byte, line and column — equals the position
    obtained by counting newlines and grapheme clusters from the start position: for every start position,
    every split function (any windows, any token lengths) and every mixture of clusters. -/
theorem rscan_positions (start : P) (wins : List Win) :
    scanAll start wins = refScan start [] wins :=
  Proofs.scanAll_eq_ref start wins

/-- Ranges come in buffer order without overlap, and each is well-formed. -/
theorem rscan_ordered (start : P) (wins : List Win) :
    (scanAll start wins).Pairwise (fun a b => a.stop.byte ≤ b.start.byte) ∧
    ∀ r ∈ scanAll start wins, r.start.byte ≤ r.stop.byte :=
  ⟨(Proofs.scanAll_ordered_gen wins start).1, (Proofs.scanAll_ordered_gen wins start).2.1⟩

/-- A token that ends on a cluster boundary of its window is covered exactly: the range starts at the
    running position and ends `tokLen` bytes later. -/
theorem rscan_covers_token (pos : P) (w : Win) (h : w.aligned) :
    (scanWin pos w).1.start = pos ∧ (scanWin pos w).1.stop.byte = pos.byte + w.tokLen :=
  Proofs.scanWin_covers pos w h

/-- The next range starts at the position — byte, line *and* column — reached after the whole previous
    window, wherever the previous token ended inside it. -/
theorem rscan_contiguous (pos : P) (w : Win) (ws : List Win) :
    scanAll pos (w :: ws) = (scanWin pos w).1 :: scanAll (walk pos w.cls) ws :=
  Proofs.scanAll_contiguous pos w ws

/-- The full reading "the range covers the returned token" is false for split functions that skip leading
    bytes (`bufio.ScanWords`): the scanner takes the token to be the head of the window.  `"  foo "`:
    the token `foo` lies at offset 2, the range reported is bytes [0,3) = `"  f"` (recorded finding
    C14-rangescanner; replayed on the real scanner by the oracle). -/
theorem rscan_skipped_prefix_witness :
    let w : Win := { cls := List.replicate 6 ⟨1, false⟩, tokLen := 3, tokOfs := 2 }
    (scanWin ⟨0, 1, 1⟩ w).1.start.byte ≠ 0 + w.tokOfs ∧ (scanWin ⟨0, 1, 1⟩ w).1 = ⟨0, ⟨0, 1, 1⟩, ⟨3, 1, 4⟩⟩ := by
  decide

/-- non-vacuity: lines kept with their terminator (the end of the first range is line 2, column 1), a
    two-byte cluster, a token shorter than its window -/
example : scanAll ⟨0, 1, 1⟩ [⟨[⟨1, false⟩, ⟨2, false⟩, ⟨1, true⟩], 4, 0⟩, ⟨[⟨1, false⟩, ⟨2, true⟩], 1, 0⟩] =
    [⟨0, ⟨0, 1, 1⟩, ⟨4, 2, 1⟩⟩, ⟨0, ⟨4, 2, 1⟩, ⟨5, 2, 2⟩⟩] := by decide
example : (⟨[⟨1, false⟩, ⟨2, false⟩, ⟨1, true⟩], 4, 0⟩ : Win).aligned := by decide

end HclModel.Pos
