import Proofs.Pos
/-!
# C14 — tokens tile the source and every reported position is faithful (position arithmetic)

`emitAll` is the scanner's incremental position bookkeeping (`tokenAccum.emitToken`), `refRanges` the
independent recount from the start position (newlines and grapheme clusters up to the byte offset).
The segmentation of the input into tokens and gaps comes from the real scanner (`POS` correspondence);
that gaps hold only spaces/tabs and that token boundaries fall on cluster boundaries are checked there.
-/
namespace HclModel.Pos

/-- Every token's start and end position — byte, line and column — equals the recount from the start
    position, for every segmentation, every start position, every mixture of newline and multi-byte clusters. -/
theorem emit_positions (start : P) (segs : List Seg) :
    emitAll start 0 segs = refRanges start [] segs :=
  Proofs.emitAll_eq_ref start segs

/-- Tokens are emitted in source order and do not overlap: each token starts at or after the end of the
    previous one, and its end is its start plus its bytes. -/
theorem emit_ordered (start : P) (segs : List Seg) :
    (emitAll start 0 segs).Pairwise (fun a b => a.stop.byte ≤ b.start.byte) ∧
    ∀ r ∈ emitAll start 0 segs, r.start.byte ≤ r.stop.byte :=
  Proofs.emitAll_ordered start segs

/-- The byte offsets tile the input: the last token ends at start + total bytes when the input ends with a
    token (the scanner always ends with the EOF token). -/
theorem emit_last_byte (start : P) (segs : List Seg) (ty : Nat) (cls : List Cl) :
    ((emitAll start 0 (segs ++ [.tok ty cls])).getLast?.map (·.stop.byte)) =
      some (start.byte + clBytes (flatten (segs ++ [.tok ty cls]))) :=
  Proofs.emitAll_last start segs ty cls

/-- non-vacuity: a CRLF, a multi-byte cluster and a gap -/
example : emitAll ⟨10, 3, 5⟩ 0 [.tok 73 [⟨1, false⟩, ⟨3, false⟩], .gap 2, .tok 10 [⟨2, true⟩], .tok 73 [⟨1, false⟩]] =
    [⟨73, ⟨10, 3, 5⟩, ⟨14, 3, 7⟩⟩, ⟨10, ⟨16, 3, 9⟩, ⟨18, 4, 1⟩⟩, ⟨73, ⟨18, 4, 1⟩, ⟨19, 4, 2⟩⟩] := by decide

end HclModel.Pos
