import Proofs.Marks
/-!
# C06 — value marks propagate to everything they influence (expression evaluation)

`eval` is the evaluator model (`HclModel/Expr/Eval.lean`, tied to the Go evaluator by the `EVAL`
correspondence, marks at every level included).  `relV a b` says that two values are equal except inside
parts that carry the mark in both.

The statement is proved for the *strict* configuration: `keepKeyMarks` (indexing an object by a marked
key keeps the key's marks — the Go code drops them, pinned by an existing test: recorded finding, witness
below) and `keepDropped` (no sub-evaluation failed, including those whose diagnostics Go discards).
-/
namespace HclModel

/-- Noninterference: evaluate one expression in two scopes that differ only inside marked values.  If both
    evaluations are free of errors, the results are equal except inside parts marked in both. -/
theorem noninterference (F : Funcs) (hF : LawfulFuncs F) (e : Expr) (ρ σ : Env) (h : relEnv ρ σ)
    (h₁ : (eval (strictCx F) ρ e).2 = []) (h₂ : (eval (strictCx F) σ e).2 = []) :
    relV (eval (strictCx F) ρ e).1 (eval (strictCx F) σ e).1 = true :=
  Proofs.noninterference F hF e ρ σ h h₁ h₂

/-- Related values that differ in content carry the mark somewhere in their structure — both of them. -/
theorem rel_differ_marked (a b : Val) (h : relV a b = true) (hd : Val.eqErased a b = false) :
    Val.hasMarkDeep a = true ∧ Val.hasMarkDeep b = true :=
  Proofs.rel_differ_marked a b h hd

/-- The property, for the model: if changing the content of marked variables changes the error-free result,
    the result carries the mark in both evaluations. -/
theorem marks_propagate (F : Funcs) (hF : LawfulFuncs F) (e : Expr) (ρ σ : Env) (h : relEnv ρ σ)
    (h₁ : (eval (strictCx F) ρ e).2 = []) (h₂ : (eval (strictCx F) σ e).2 = [])
    (hd : Val.eqErased (eval (strictCx F) ρ e).1 (eval (strictCx F) σ e).1 = false) :
    Val.hasMarkDeep (eval (strictCx F) ρ e).1 = true ∧ Val.hasMarkDeep (eval (strictCx F) σ e).1 = true :=
  rel_differ_marked _ _ (noninterference F hF e ρ σ h h₁ h₂) hd

/-- When no sub-evaluation fails, the Go configuration computes the same value as the strict one, up to the
    key-mark repair: with `keepKeyMarks` alone the two configurations agree exactly. -/
theorem strict_agrees (F : Funcs) (e : Expr) (ρ : Env) (h : (eval (strictCx F) ρ e).2 = []) :
    eval { funcs := F, keepKeyMarks := true, keepDropped := false } ρ e = ((eval (strictCx F) ρ e).1, []) :=
  Proofs.strict_agrees F e ρ h

/-- The full-strength statement (for the Go configuration) … -/
def NoninterferenceGo (F : Funcs) : Prop :=
  ∀ (e : Expr) (ρ σ : Env), relEnv ρ σ →
    (eval { funcs := F } ρ e).2 = [] → (eval { funcs := F } σ e).2 = [] →
    relV (eval { funcs := F } ρ e).1 (eval { funcs := F } σ e).1 = true

/-- … is false: `o[k]` with a marked key `k` returns the selected attribute without the mark
    (`hcl.Index`, object case: `key, _ = key.Unmark()`); replayed on the Go code. -/
theorem noninterference_go_false : ¬ NoninterferenceGo (fun _ => none) := by
  intro h
  have := h (.index (.var "o") (.var "k"))
    [("o", .object {} [("a", .num {} 1), ("b", .num {} 2)]), ("k", .str ⟨true, true⟩ "a")]
    [("o", .object {} [("a", .num {} 1), ("b", .num {} 2)]), ("k", .str ⟨true, true⟩ "b")]
    (by simp [relEnv, relV, relF]) (by rfl) (by rfl)
  revert this
  decide

end HclModel
