import Proofs.Marks
import Proofs.DynMarks
/-!
# C06 — value marks propagate to everything they influence (expression evaluation)

`eval` is the evaluator model (`HclModel/Expr/Eval.lean`, tied to the Go evaluator by the `EVAL`
correspondence, marks at every level included).  `relV a b` says that two values are equal except inside
parts that carry the mark in both (the flags themselves are not compared).

The statements are about the *strict* configuration: `keepKeyMarks` (indexing an object by a marked key keeps
the key's marks — the Go code drops them, pinned by an existing test: recorded finding, witness
`noninterference_go_false` below) and `keepDropped` (no sub-evaluation failed, including those whose
diagnostics Go discards).

## What is proved, and what is not

Noninterference in full strength (`NoninterferenceFull`) is **false**, also for the strict configuration.
The evaluator (like the Go code it mirrors) lets two things about a marked value show through without a mark:

* **family K — known-ness.**  Several places return a fresh *unmarked* unknown (or `cty.DynamicVal`) when the
  value they inspect is unknown or of the dynamic pseudo-type, and a marked result otherwise: the operand of a
  unary operator, an index key, an object-constructor key, the collection of a `for` expression, the tuple of a
  template join, the expanded final argument of a call (there also: whether it is empty).  Two runs in which
  a marked value is unknown in one and known in the other are told apart.
* **family T — types.**  `relV` lets parts marked in both runs differ in type, tuples and objects are
  heterogeneous, and the type of a value is not protected by its marks: the unified result type of a
  conditional (visible in the type of a `null` or unknown result, or in a conversion) and the element type of
  the list built by a splat depend on the types of marked parts; `unifyCond` also looks at the mark itself.

Each is witnessed below by a theorem proved by evaluation (`decide`).

`noninterference_partial` is the theorem with the side condition `Proofs.Stable` (defined in
`Proofs/MarksStable.lean`, ~60 lines), which says exactly that the two runs agree on those shapes:

* `shapeEq` (both known or both unknown; both of type `dyn` or neither) of: the operand of `-` / `!`; an index
  key; each object-constructor key; the collection of a `for`; the tuple of a template join and, unless that
  tuple is marked in both runs, its elements pairwise; the expanded argument `xs...` of a call, which, if
  marked in both runs, must also be empty in both or in neither;
* for `c ? t : f`: the value of `c`, `t` or `f` is marked in both runs, or `unifyCond` gives the same type;
* for a splat: the source is marked in both runs, or the two results have the same type;
* recursively for all sub-expressions, loop bodies being compared iteration by iteration (unless the
  collection is marked in both runs, which marks the result in both).

Literals, variables, attribute access, binary operators, tuple constructors and templates have no clause:
for expressions built from these alone the property holds outright (`noninterference_plain`).
-/
namespace HclModel

/-- Noninterference, full strength: evaluate one expression in two scopes that differ only inside marked
    values; if both evaluations are free of errors, the results are equal except inside parts marked in both.
    **False** — see the witnesses `K_*` and `T_*`. -/
def NoninterferenceFull (F : Funcs) : Prop :=
  LawfulFuncs F → ∀ (e : Expr) (ρ σ : Env), relEnv ρ σ →
    (eval (strictCx F) ρ e).2 = [] → (eval (strictCx F) σ e).2 = [] →
    relV (eval (strictCx F) ρ e).1 (eval (strictCx F) σ e).1 = true

/-- Noninterference under the side condition `Proofs.Stable` (the two runs agree on the known-ness of the
    values inspected at the mark-dropping sites, and on the types that the conditional and the splat turn
    into content; see the header of this file). -/
theorem noninterference_partial (F : Funcs) (hF : LawfulFuncs F) (e : Expr) (ρ σ : Env) (h : relEnv ρ σ)
    (hs : Proofs.Stable (strictCx F) e ρ σ)
    (h₁ : (eval (strictCx F) ρ e).2 = []) (h₂ : (eval (strictCx F) σ e).2 = []) :
    relV (eval (strictCx F) ρ e).1 (eval (strictCx F) σ e).1 = true :=
  Proofs.noninterference_partial F hF e ρ σ h hs h₁ h₂

/-- Noninterference, without side condition, for expressions built from literals, variables, attribute
    access, binary operators, tuple constructors and templates. -/
theorem noninterference_plain (F : Funcs) (hF : LawfulFuncs F) (e : Expr) (hp : Proofs.plain e = true) (ρ σ : Env)
    (h : relEnv ρ σ) (h₁ : (eval (strictCx F) ρ e).2 = []) (h₂ : (eval (strictCx F) σ e).2 = []) :
    relV (eval (strictCx F) ρ e).1 (eval (strictCx F) σ e).1 = true :=
  Proofs.noninterference_plain F hF e hp ρ σ h h₁ h₂

/-- Related values that differ in content carry the mark somewhere in their structure — both of them. -/
theorem rel_differ_marked (a b : Val) (h : relV a b = true) (hd : Val.eqErased a b = false) :
    Val.hasMarkDeep a = true ∧ Val.hasMarkDeep b = true :=
  Proofs.rel_differ_marked a b h hd

/-- The property, for the model: if changing the content of marked variables changes the error-free result,
    the result carries the mark in both evaluations (under the side condition of `noninterference_partial`). -/
theorem marks_propagate (F : Funcs) (hF : LawfulFuncs F) (e : Expr) (ρ σ : Env) (h : relEnv ρ σ)
    (hs : Proofs.Stable (strictCx F) e ρ σ)
    (h₁ : (eval (strictCx F) ρ e).2 = []) (h₂ : (eval (strictCx F) σ e).2 = [])
    (hd : Val.eqErased (eval (strictCx F) ρ e).1 (eval (strictCx F) σ e).1 = false) :
    Val.hasMarkDeep (eval (strictCx F) ρ e).1 = true ∧ Val.hasMarkDeep (eval (strictCx F) σ e).1 = true :=
  rel_differ_marked _ _ (noninterference_partial F hF e ρ σ h hs h₁ h₂) hd

/-- When no sub-evaluation fails, the Go configuration computes the same value as the strict one, up to the
    key-mark repair: with `keepKeyMarks` alone the two configurations agree exactly. -/
theorem strict_agrees (F : Funcs) (e : Expr) (ρ : Env) (h : (eval (strictCx F) ρ e).2 = []) :
    eval { funcs := F, keepKeyMarks := true, keepDropped := false } ρ e = ((eval (strictCx F) ρ e).1, []) :=
  Proofs.strict_agrees F e ρ h

/-- The side condition is satisfiable beyond the plain fragment: the scopes of `noninterference_go_false`
    below (`o[k]`, marked keys `"a"` / `"b"`) satisfy it, so in the strict configuration the two results are
    related (both carry the key's mark). -/
theorem stable_index_example : Proofs.Stable (strictCx fun _ => none) (.index (.var "o") (.var "k"))
    [("o", .object {} [("a", .num {} 1), ("b", .num {} 2)]), ("k", .str ⟨true, true⟩ "a")]
    [("o", .object {} [("a", .num {} 1), ("b", .num {} 2)]), ("k", .str ⟨true, true⟩ "b")] := by
  simp only [Proofs.Stable, true_and]
  constructor <;> rfl

/-! ### the Go configuration -/

/-- The full-strength statement for the Go configuration … -/
def NoninterferenceGo (F : Funcs) : Prop :=
  ∀ (e : Expr) (ρ σ : Env), relEnv ρ σ →
    (eval { funcs := F } ρ e).2 = [] → (eval { funcs := F } σ e).2 = [] →
    relV (eval { funcs := F } ρ e).1 (eval { funcs := F } σ e).1 = true

/-- … is false already for known values of equal types: `o[k]` with a marked key `k` returns the selected
    attribute without the mark (`hcl.Index`, object case: `key, _ = key.Unmark()`); replayed on the Go code. -/
theorem noninterference_go_false : ¬ NoninterferenceGo (fun _ => none) := by
  intro h
  have := h (.index (.var "o") (.var "k"))
    [("o", .object {} [("a", .num {} 1), ("b", .num {} 2)]), ("k", .str ⟨true, true⟩ "a")]
    [("o", .object {} [("a", .num {} 1), ("b", .num {} 2)]), ("k", .str ⟨true, true⟩ "b")]
    (by simp [relEnv, relV, relF]) (by rfl) (by rfl)
  revert this
  decide

/-! ### witnesses against `NoninterferenceFull` -/

theorem lawful_empty : LawfulFuncs (fun _ => none) :=
  ⟨fun _ _ h => by simp at h, fun _ _ h => by simp at h⟩

/-- one variadic function `len(args...)` returning the number of its arguments -/
def lenTable : Funcs := fun fn =>
  if fn = "len" then
    some { params := [], varParam := some .dyn, retTy := fun _ => .num,
           impl := fun args => .ok (.num {} (args.length : Rat)) }
  else none

theorem eqErasedAll_length : ∀ (xs ys : List Val), eqErasedAll xs ys = true → xs.length = ys.length
  | [], [], _ => rfl
  | [], _ :: _, h => by simp [eqErasedAll] at h
  | _ :: _, [], h => by simp [eqErasedAll] at h
  | _ :: xs, _ :: ys, h => by
    simp only [eqErasedAll, Bool.and_eq_true] at h
    simp [eqErasedAll_length xs ys h.2]

theorem lawful_lenTable : LawfulFuncs lenTable := by
  constructor
  · intro fn spec h args args' he
    unfold lenTable at h
    split at h
    · cases h
      simp [eqErasedAll_length _ _ he, Val.eqErased, Val.hasMarkDeep, Val.fl]
    · cases h
  · intro fn spec h args args' _
    unfold lenTable at h
    split at h
    · cases h; rfl
    · cases h

private abbrev M : Fl := ⟨true, true⟩
private abbrev N : Fl := {}

/-! #### family K: the known-ness of a value marked in both runs is observable -/

/-- `-x` with `x` unknown in one run, `5` in the other (both marked): `unknown(number)` without mark vs
    marked `-5` (`function.Call` returns a fresh unknown for an unknown argument whose parameter allows marks). -/
theorem K_unary_minus : ¬ NoninterferenceFull (fun _ => none) := by
  intro h
  have := h lawful_empty (.un .neg (.var "x")) [("x", .unk M .num)] [("x", .num M 5)]
    (by simp [relEnv, relV]) (by rfl) (by rfl)
  revert this
  decide

/-- `o[k]` with `k` a marked unknown of the dynamic type in one run, marked `0` in the other:
    `hcl.Index` returns `DynamicVal.WithSameMarks(collection)`, the key's marks are lost. -/
theorem K_index_dyn_key : ¬ NoninterferenceFull (fun _ => none) := by
  intro h
  have := h lawful_empty (.index (.var "o") (.var "k"))
    [("o", .tuple N [.num N 1]), ("k", .unk M .dyn)] [("o", .tuple N [.num N 1]), ("k", .num M 0)]
    (by simp [relEnv, relV, relL]) (by rfl) (by rfl)
  revert this
  decide

/-- `o[k]` with `k` a marked unknown number in one run, marked `0` in the other (`HasIndex` is unknown:
    the result is unknown with the collection's marks only). -/
theorem K_index_unknown_key : ¬ NoninterferenceFull (fun _ => none) := by
  intro h
  have := h lawful_empty (.index (.var "o") (.var "k"))
    [("o", .tuple N [.num N 1]), ("k", .unk M .num)] [("o", .tuple N [.num N 1]), ("k", .num M 0)]
    (by simp [relEnv, relV, relL]) (by rfl) (by rfl)
  revert this
  decide

/-- the join of a template `for` directive, `%{ for … }…%{ endfor }` over `x`: an unknown tuple gives
    `unknown(string)` without marks, a known one a marked string. -/
theorem K_template_join : ¬ NoninterferenceFull (fun _ => none) := by
  intro h
  have := h lawful_empty (.tjoin (.var "x")) [("x", .unk M (.tuple []))] [("x", .tuple M [.str N "a"])]
    (by simp [relEnv, relV]) (by rfl) (by rfl)
  revert this
  decide

/-- `[for v in x : v]` with `x` of the dynamic type in one run: `ForExpr.Value` returns `cty.DynamicVal`
    before looking at the marks. -/
theorem K_for_collection : ¬ NoninterferenceFull (fun _ => none) := by
  intro h
  have := h lawful_empty (.forTuple "" "v" (.var "x") (.var "v") none)
    [("x", .unk M .dyn)] [("x", .tuple M [.str N "a"])]
    (by simp [relEnv, relV]) (by rfl) (by rfl)
  revert this
  decide

/-- `{ (x) = 1 }` with an unknown key in one run: `ObjectConsExpr.Value` returns `cty.DynamicVal`. -/
theorem K_object_key : ¬ NoninterferenceFull (fun _ => none) := by
  intro h
  have := h lawful_empty (.object [(.var "x", .lit (.num N 1))]) [("x", .unk M .str)] [("x", .str M "a")]
    (by simp [relEnv, relV]) (by rfl) (by rfl)
  revert this
  decide

/-- `len(x...)` with `x` an unknown tuple in one run: the call is not made, the result is `cty.DynamicVal`. -/
theorem K_call_expand_unknown : ¬ NoninterferenceFull lenTable := by
  intro h
  have := h lawful_lenTable (.call "len" [] (some (.var "x"))) [("x", .unk M (.tuple []))] [("x", .tuple M [])]
    (by simp [relEnv, relV]) (by rfl) (by rfl)
  revert this
  decide

/-- `len(x...)` with `x` the empty tuple in one run, `[1]` in the other (both marked): the marks of `x` are
    re-applied to its elements only, so the empty expansion leaves no mark on the result. -/
theorem K_call_expand_empty : ¬ NoninterferenceFull lenTable := by
  intro h
  have := h lawful_lenTable (.call "len" [] (some (.var "x"))) [("x", .tuple M [])] [("x", .tuple M [.num N 1])]
    (by simp [relEnv, relV]) (by rfl) (by rfl)
  revert this
  decide

/-! #### family T: the type of a part marked in both runs is observable -/

/-- a witness: an expression, two related scopes, error-free evaluations with unrelated results -/
theorem refute {F : Funcs} (hF : LawfulFuncs F) (e : Expr) (ρ σ : Env) (v v' : Val) (hr : relEnv ρ σ)
    (e1 : eval (strictCx F) ρ e = (v, [])) (e2 : eval (strictCx F) σ e = (v', []))
    (hv : relV v v' = false) : ¬ NoninterferenceFull F := by
  intro h
  have := h hF e ρ σ hr (by rw [e1]) (by rw [e2])
  rw [e1, e2, hv] at this
  cases this

/- `convertible` is defined by well-founded recursion and does not reduce by evaluation: the conversion of an
   untyped null is computed here by rewriting -/
private theorem conv_null_dyn (t : Ty) (f : Fl) (h : t ≠ .dyn) : convert (.null f .dyn) t = .ok (.null f t) := by
  rw [convert.eq_def]
  have : (Ty.dyn == t) = false := by simp [Ne.symm h]
  simp only [Val.typeOf, this, Bool.false_eq_true, if_false]
  cases t <;> simp [convertible] at h ⊢ <;> rfl

private theorem evalCond_lit (b : Bool) (tv fv : Val) (rty : Ty) (x : Val) (hu : unifyCond tv fv = .ok (some rty))
    (hx : tryConvert (if b then tv.unmark.1 else fv.unmark.1) rty = .ok x) :
    evalCond true (.bool N b, []) (tv, []) (fv, []) = (x.withFl ((N.join tv.fl).join fv.fl), []) := by
  simp only [evalCond, if_true, List.append_nil]
  rw [Proofs.evalCondCore_eq]
  simp only [hu, Val.isNull, Bool.false_eq_true, if_false, Val.isKnown, Bool.not_true, Proofs.condKnown]
  have hc : tryConvert ((Val.bool N b).unmark.1) .bool = .ok (.bool ⟨false, false⟩ b) := by cases b <;> rfl
  simp only [hc]
  cases b <;> simp only [Proofs.condPick, Bool.false_eq_true, if_false, if_true] at hx ⊢ <;> simp only [hx] <;> rfl

private theorem conv_null (t : Ty) (h : t ≠ .dyn) :
    tryConvert (Val.null N Ty.dyn).unmark.1 t = .ok (.null ⟨false, false⟩ t) := by
  simp [tryConvert, Val.unmark, Val.setFl, Val.fl, Fl.unmark, conv_null_dyn _ _ h]

/-- `false ? x : null` with `x = ["a"]` / `x = [1]`, the element marked: the result is `null` of type
    `tuple([string])` / `tuple([number])`, without any mark. -/
theorem T_cond_null_type : ¬ NoninterferenceFull (fun _ => none) := by
  refine refute lawful_empty (.cond (.lit (.bool N false)) (.var "x") (.lit (.null N .dyn)))
    [("x", .tuple N [.str M "a"])] [("x", .tuple N [.num M 1])]
    (.null N (.tuple [.str])) (.null N (.tuple [.num])) (by simp [relEnv, relV, relL]) ?_ ?_ (by decide)
  · rw [Proofs.eval_cond, Proofs.eval_lit, Proofs.eval_var, Proofs.eval_lit]
    simp only [Env.lookup, lookupKey, beq_self_eq_true, if_true]
    rw [show (strictCx fun _ => none).keepDropped = true from rfl,
      evalCond_lit false _ _ (.tuple [.str]) _ rfl (conv_null _ (by simp))]
    rfl
  · rw [Proofs.eval_cond, Proofs.eval_lit, Proofs.eval_var, Proofs.eval_lit]
    simp only [Env.lookup, lookupKey, beq_self_eq_true, if_true]
    rw [show (strictCx fun _ => none).keepDropped = true from rfl,
      evalCond_lit false _ _ (.tuple [.num]) _ rfl (conv_null _ (by simp))]
    rfl

/-- `false ? [t[k]] : null` with `t = ["a", 1]` unmarked and `k` = marked `0` / marked `1`: all values known,
    the two scopes have the same types and the same mark positions, and still the result is
    `null` of type `tuple([string])` / `tuple([number])` without mark. -/
theorem T_cond_index_type : ¬ NoninterferenceFull (fun _ => none) := by
  refine refute lawful_empty
    (.cond (.lit (.bool N false)) (.tuple [.index (.var "t") (.var "k")]) (.lit (.null N .dyn)))
    [("t", .tuple N [.str N "a", .num N 1]), ("k", .num M 0)]
    [("t", .tuple N [.str N "a", .num N 1]), ("k", .num M 1)]
    (.null N (.tuple [.str])) (.null N (.tuple [.num])) (by simp [relEnv, relV, relL]) ?_ ?_ (by decide)
  · rw [Proofs.eval_cond, Proofs.eval_lit, Proofs.eval_lit]
    rw [show eval (strictCx fun _ => none) [("t", .tuple N [.str N "a", .num N 1]), ("k", .num M 0)]
        (.tuple [.index (.var "t") (.var "k")]) = (.tuple N [.str M "a"], []) from by rfl]
    rw [show (strictCx fun _ => none).keepDropped = true from rfl,
      evalCond_lit false _ _ (.tuple [.str]) _ rfl (conv_null _ (by simp))]
    rfl
  · rw [Proofs.eval_cond, Proofs.eval_lit, Proofs.eval_lit]
    rw [show eval (strictCx fun _ => none) [("t", .tuple N [.str N "a", .num N 1]), ("k", .num M 1)]
        (.tuple [.index (.var "t") (.var "k")]) = (.tuple N [.num M 1], []) from by rfl]
    rw [show (strictCx fun _ => none).keepDropped = true from rfl,
      evalCond_lit false _ _ (.tuple [.num]) _ rfl (conv_null _ (by simp))]
    rfl

/-- `l[*].…` evaluating to `x` for every element of a list `l`, with `x = ["a"]` / `[1]` (element marked): the
    splat builds `list(tuple([string]))` / `list(tuple([number]))`. -/
theorem T_splat_list_type : ¬ NoninterferenceFull (fun _ => none) := by
  intro h
  have := h lawful_empty (.splat "%a" (.var "l") (.var "x"))
    [("l", .list N .num [.num N 0]), ("x", .tuple N [.str M "a"])]
    [("l", .list N .num [.num N 0]), ("x", .tuple N [.num M 1])]
    (by simp [relEnv, relV, relL]) (by rfl) (by rfl)
  revert this
  decide

/-- `true ? x : 1` with `x = null` marked in one run, unmarked in the other (`relV` does not compare flags):
    the unification special-cases an *unmarked* untyped null, so the result is `null` (dynamic, marked) in one
    run and `null` of type number (unmarked) in the other. -/
theorem T_cond_mark_position : ¬ NoninterferenceFull (fun _ => none) := by
  refine refute lawful_empty (.cond (.lit (.bool N true)) (.var "x") (.lit (.num N 1)))
    [("x", .null M .dyn)] [("x", .null N .dyn)]
    (.null M .dyn) (.null N .num) (by simp [relEnv, relV]) (by rfl) ?_ (by decide)
  rw [Proofs.eval_cond, Proofs.eval_lit, Proofs.eval_var, Proofs.eval_lit]
  simp only [Env.lookup, lookupKey, beq_self_eq_true, if_true]
  rw [show (strictCx fun _ => none).keepDropped = true from rfl,
    evalCond_lit true _ _ .num _ rfl (conv_null _ (by simp))]
  rfl

/-! ## Dynamic blocks (`ext/dynblock`): where the marks of a `for_each` collection go

On the model of `dynblock.Expand` (`HclModel/Dyn/Expand.lean`, tied to the code by the `EXPAND`
correspondence, which compares the marks of every attribute value and the value marks of every body). -/

namespace Dyn

/-- Every block that a `dynamic` block stands for — one per element of a known collection, or the single
    placeholder of an unknown one — carries the flags of the `for_each` value as its value marks
    (`BodyValueMarks`, which the decoder applies to the block's decoded value). -/
theorem dyn_blocks_carry_foreach_marks (ev : Env → Expr → Out) (ρf : Env) (its : Iters) (lc : Nat) (type : String)
    (fe : Expr) (itn : Option String) (labels : Option (List Expr)) (content : SBody) :
    ∀ blk ∈ (expandDyn ev ρf its lc type fe itn labels content).1,
      blk.body.bodyMarks = (ev (iterEnv its ++ ρf) fe).1.fl :=
  Proofs.expandDyn_marks ev ρf its lc type fe itn labels content

/-- Every attribute such a body hands out is wrapped with the body's value marks … -/
theorem dyn_attrs_carry_body_marks (ev : Env → Expr → Out) (ρf : Env) (b : XBody) (s : Body.Schema) (pm : Bool) :
    ∀ p ∈ (b.contentCore ev ρf s pm).1.attrs,
      p.2.marks = (match b.unknown with | some um => um | none => b.marks) :=
  Proofs.contentCore_attr_marks ev ρf b s pm

/-- … and its value carries them **whatever the expression evaluates to**: a constant, a null, an unknown,
    a value that does not mention the iterator, even when evaluation reports errors.  (This is what makes
    consumers safe that build a value from the attribute values alone: `hcldec.BlockSpec`, `gohcl`, direct use
    of `Content`.) -/
theorem dyn_attr_value_marked (ev : Env → Expr → Out) (ρ : Env) (a : XAttr) (h : a.marks.m = true) :
    (a.value ev ρ).1.isMarked = true :=
  Proofs.attr_value_marked ev ρ a h

/-- Put together: with a marked `for_each`, every attribute value of every generated block is marked. -/
theorem dyn_marked_foreach_marks_every_attribute (ev : Env → Expr → Out) (ρf ρ : Env) (its : Iters) (lc : Nat)
    (type : String) (fe : Expr) (itn : Option String) (labels : Option (List Expr)) (content : SBody)
    (s : Body.Schema) (pm : Bool)
    (hm : (ev (iterEnv its ++ ρf) fe).1.isMarked = true) :
    ∀ blk ∈ (expandDyn ev ρf its lc type fe itn labels content).1, blk.body.unknown = none →
      ∀ p ∈ (blk.body.contentCore ev ρf s pm).1.attrs, (p.2.value ev ρ).1.isMarked = true := by
  intro blk hb hu p hp
  apply Proofs.attr_value_marked
  have h1 := Proofs.contentCore_attr_marks ev ρf blk.body s pm p hp
  rw [hu] at h1
  have h2 := Proofs.expandDyn_marks ev ρf its lc type fe itn labels content blk hb
  rw [h1, h2]
  exact hm

/-- What is NOT carried (observation, not a finding of the oracles): a *static* block nested in a generated
    block starts again with empty value marks — its attributes are not wrapped with the collection's marks.
    The decoder still marks the enclosing generated block's value as a whole (`BodyValueMarks`). -/
theorem dyn_static_nested_block_unmarked :
    let ev : Env → Expr → Out := fun _ _ => (Val.str Fl.none "fixed", [])
    let inner : SBody := .mk [("y", .lit (.str Fl.none "fixed"))] []
    let generated : XBody := { src := .mk [] [.static "sub" [] inner], marks := ⟨true, true⟩ }
    let c := (generated.contentCore ev [] ⟨[], [⟨"sub", 0⟩]⟩ false).1
    c.blocks.map (fun b => b.body.bodyMarks.m) = [false] ∧
    (c.blocks.flatMap fun b => (b.body.contentCore ev [] ⟨[⟨"y", false⟩], []⟩ false).1.attrs.map
        fun p => (p.2.value ev []).1.isMarked) = [false] := by
  decide

end Dyn

end HclModel
