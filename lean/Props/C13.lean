import Proofs.Json
/-!
# C13 — the JSON syntax accepts exactly JSON and maps literals faithfully

`parseExpression adv bs = some n` is the model of "json.ParseExpression reports no error and the syntax tree
is `n`" (`HclModel/Json/{Scan,Parse}.lean`, tied to `json/scanner.go` + `json/parser.go` by the `JSON`
correspondence).  `JsonText bs n` is the RFC 8259 reference grammar with the value it denotes
(`HclModel/Json/Grammar.lean`).  Helper lemmas live in `Proofs/Json*.lean`.
-/
namespace HclModel.Json

/-- Soundness, for ANY grapheme segmentation: whatever is accepted is a JSON text, and the tree is the
    denoted value (strings verbatim after unescaping, numbers as exact decimals, arrays, objects with
    all their members in order, literals). -/
theorem accept_sound (adv : List Byte → Nat) (bs : List Byte) (n : Node)
    (h : parseExpression adv bs = some n) : JsonText bs n :=
  Proofs.accept_sound adv bs n h

/-- Completeness, provided segmentation never swallows an ASCII byte (`SafeAdv`). -/
theorem accept_complete (adv : List Byte → Nat) (hs : SafeAdv adv) (bs : List Byte) (n : Node)
    (h : JsonText bs n) : parseExpression adv bs = some n :=
  Proofs.accept_complete adv hs bs n h

/-- `accept_iff_partial`: under `SafeAdv`, acceptance without error ⇔ JSON text, with the same value.
    (Partial with respect to the property: UTF-8 validity of raw string bytes is not enforced by the code,
    and `SafeAdv` fails for real grapheme segmentation on Unicode Prepend characters — both are recorded
    findings, see `accept_iff_full_false` and known_findings.json.) -/
theorem accept_iff_partial (adv : List Byte → Nat) (hs : SafeAdv adv) (bs : List Byte) (n : Node) :
    parseExpression adv bs = some n ↔ JsonText bs n :=
  ⟨accept_sound adv bs n, accept_complete adv hs bs n⟩

/-- `json.Parse` additionally requires an object or array root. -/
theorem file_accept_iff_partial (adv : List Byte → Nat) (hs : SafeAdv adv) (bs : List Byte) (n : Node) :
    parseFile adv bs = some n ↔ (JsonText bs n ∧ ((∃ a, n = .obj a) ∨ (∃ a, n = .arr a))) :=
  Proofs.file_accept_iff adv hs bs n

/-- The full-strength statement of the property: accepted ⇔ (JSON text ∧ valid UTF-8). -/
def AcceptIffFull (adv : List Byte → Nat) : Prop :=
  ∀ bs, (parseExpression adv bs).isSome = true ↔ ((∃ n, JsonText bs n) ∧ ValidUtf8 bs)

/-- …is false of the code as it stands: `"\xff"` is accepted (witness replayed on the Go code). -/
theorem accept_iff_full_false : ¬ AcceptIffFull (fun _ => 1) := by
  intro h
  have := (h [34, 255, 34]).mp (by decide)
  exact absurd this.2 (by unfold ValidUtf8; decide)

/-- non-vacuity: a segmentation satisfying `SafeAdv` and a non-trivial accepted text -/
example : SafeAdv (fun _ => 1) := by intro bs i h1 h2; have h2 : i < 1 := h2; omega
example : parseExpression (fun _ => 1) [123, 34, 97, 34, 58, 91, 49, 44, 34, 92, 110, 34, 93, 125] =
    some (.obj [([97], .arr [.num 1 0, .str [10]])]) := by rfl

end HclModel.Json
