import Proofs.Json
/-!
# C13 — the JSON syntax accepts exactly JSON and maps literals faithfully

`parseExpression adv bs = some n` is the model of "json.ParseExpression reports no error and the syntax tree
is `n`" (`HclModel/Json/{Scan,Parse}.lean`, tied to `json/scanner.go` + `json/parser.go` by the `JSON`
correspondence).  `JsonText bs n` is the RFC 8259 reference grammar with the value it denotes
(`HclModel/Json/Grammar.lean`).  Helper lemmas live in `Proofs/Json*.lean`.
-/
namespace HclModel.Json

/-- Soundness, for ANY grapheme segmentation: whatever is accepted is a JSON text, and the tree is the
    denoted value (strings verbatim after unescaping, numbers as exact decimals, arrays, objects with
    all their members in order, literals). -/
theorem accept_sound (adv : List Byte → Nat) (bs : List Byte) (n : Node)
    (h : parseExpression adv bs = some n) : JsonText bs n :=
  Proofs.accept_sound adv bs n h

/-- Completeness, for ANY grapheme segmentation: since the repair of the scanner (a cluster stops before a
    quote, a backslash or a control character; "fix: json: a grapheme cluster cannot swallow the end of a
    string") no assumption on `textseg` is needed any more. -/
theorem accept_complete (adv : List Byte → Nat) (bs : List Byte) (n : Node)
    (h : JsonText bs n) : parseExpression adv bs = some n :=
  Proofs.accept_complete adv bs n h

/-- Acceptance without error ⇔ JSON text, with the same value.
    (Partial with respect to the property only in that UTF-8 validity of raw string bytes is not enforced by
    the code — a recorded finding, see `accept_iff_full_false`.) -/
theorem accept_iff_partial (adv : List Byte → Nat) (bs : List Byte) (n : Node) :
    parseExpression adv bs = some n ↔ JsonText bs n :=
  ⟨accept_sound adv bs n, accept_complete adv bs n⟩

/-- `json.Parse` additionally requires an object or array root. -/
theorem file_accept_iff_partial (adv : List Byte → Nat) (bs : List Byte) (n : Node) :
    parseFile adv bs = some n ↔ (JsonText bs n ∧ ((∃ a, n = .obj a) ∨ (∃ a, n = .arr a))) :=
  Proofs.file_accept_iff adv bs n

/-- The full-strength statement of the property: accepted ⇔ (JSON text ∧ valid UTF-8). -/
def AcceptIffFull (adv : List Byte → Nat) : Prop :=
  ∀ bs, (parseExpression adv bs).isSome = true ↔ ((∃ n, JsonText bs n) ∧ ValidUtf8 bs)

/-- …is false of the code as it stands: `"\xff"` is accepted (witness replayed on the Go code). -/
theorem accept_iff_full_false : ¬ AcceptIffFull (fun _ => 1) := by
  intro h
  have := (h [34, 255, 34]).mp (by decide)
  exact absurd this.2 (by unfold ValidUtf8; decide)

/-- non-vacuity: a non-trivial accepted text -/
example : parseExpression (fun _ => 1) [123, 34, 97, 34, 58, 91, 49, 44, 34, 92, 110, 34, 93, 125] =
    some (.obj [([97], .arr [.num 1 0, .str [10]])]) := by rfl

end HclModel.Json
