import Proofs.Structure
/-!
# C02 — native-syntax structure parses to exactly the written attributes and blocks

`parseConfig` models `ParseBody` … `parseSingleAttrBody` behind the peeker (`HclModel/Syntax/Structure.lean`;
tied to the real parser by the `PARSEB` correspondence on the real token streams of generated files).
`RItem` is a body tree together with its layout choices (blank lines, `#`/`//` comments standing for
newlines, `/* */` comments between tokens, one-line and empty block forms, bare or quoted labels).
-/
namespace HclModel.Structure

/-- Whatever the layout, a structurally valid file parses without error to exactly the written attributes,
    block types, label sequences, nesting and order. -/
theorem parse_render (items : List RItem) (trailing : List Noise)
    (hu : uniqueAttrs (denoteAll items) = true) :
    parseConfig (renderFile items trailing) = some (denoteAll items) :=
  Proofs.parse_render items trailing hu

/-- Layout independence: two renderings of the same tree parse to the same result. -/
theorem layout_independent (items items' : List RItem) (t t' : List Noise)
    (h : denoteAll items = denoteAll items') (hu : uniqueAttrs (denoteAll items) = true) :
    parseConfig (renderFile items t) = parseConfig (renderFile items' t') := by
  rw [parse_render items t hu, parse_render items' t' (h ▸ hu), h]

/-- A body that defines an attribute name twice — at any nesting level, whatever lies between the two
    definitions — is rejected. -/
theorem dup_attr_rejected (items : List RItem) (trailing : List Noise)
    (hd : uniqueAttrs (denoteAll items) = false) :
    parseConfig (renderFile items trailing) = none :=
  Proofs.dup_rejected items trailing hd

/-- non-vacuity: comments, blank lines, a one-line block, quoted and bare labels, nesting -/
example : parseConfig (renderFile
    [.attr [.lineComment, .blank] "a" 1 [()] .comment,
     .block [.inlineComment] "svc" [⟨"web", true⟩, ⟨"x", false⟩] .nl
       [.oneLine [] "inner" [] "k" 2 .nl, .emptyBlock [.blank] "e" [⟨"l", true⟩] .comment] [.blank] .nl]
    [.blank]) =
    some [.attr "a" 1, .block "svc" ["web", "x"] [.block "inner" [] [.attr "k" 2], .block "e" ["l"] []]] := by
  rfl

end HclModel.Structure
