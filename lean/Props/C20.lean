import Proofs.Static
import Proofs.TypeExpr
import Proofs.Traversal
/-!
# C20 — static analysis of an expression agrees with its evaluation and round-trips

`asTraversal` / `traverseAbs` model `hcl.AbsTraversalForExpr` and `Traversal.TraverseAbs` on the evaluator
model (`HclModel/Expr/Static.lean`); `typeString` / `parseType` model `typeexpr.TypeString` and the reading
of type-constraint expressions (`HclModel/Syntax/TypeExpr.lean`).  The stand-alone traversal parser and the
JSON static views are covered by the direct oracle only.
-/
namespace HclModel

/-- Whenever an expression can be interpreted statically as a traversal, applying that traversal to a scope
    gives exactly the expression's value, and reports an error exactly when evaluation does.

    The original statement, `eval F ρ e = traverseAbs F ρ t`, is false for the diagnostics:
    `TraverseRel` stops at the first failing step, and so does the evaluation of an attribute access
    (`.getAttr`), but the evaluation of `.index e (.lit k)` still applies `hcl.Index` to the
    `cty.DynamicVal` left by the failed source.  That is silent for every key except a null one, for which
    `Index` reports "null key" (the null-collection test comes first, and `DynamicVal` is not null): one
    extra diagnostic (`traversal_diags_differ`: `x.missing[null]`).  Full equality holds when the traversal
    has no null literal key (`traversal_agrees_exact`) and when it succeeds (`traversal_agrees_ok`). -/
theorem traversal_agrees (F : Cx) (e : Expr) (t : Trav) (h : asTraversal e = some t) (ρ : Env) :
    (eval F ρ e).1 = (traverseAbs F ρ t).1 ∧
      hasErrors (eval F ρ e).2 = hasErrors (traverseAbs F ρ t).2 :=
  Proofs.traversal_agrees F e t h ρ

/-- Without a null literal key among the index steps, value and diagnostics are identical. -/
theorem traversal_agrees_exact (F : Cx) (e : Expr) (t : Trav) (h : asTraversal e = some t)
    (hn : t.noNullKeys = true) (ρ : Env) : eval F ρ e = traverseAbs F ρ t :=
  Proofs.traversal_agrees_exact F e t h hn ρ

/-- When the traversal succeeds, value and (empty) diagnostics are identical. -/
theorem traversal_agrees_ok (F : Cx) (e : Expr) (t : Trav) (h : asTraversal e = some t) (ρ : Env)
    (hok : hasErrors (traverseAbs F ρ t).2 = false) : eval F ρ e = traverseAbs F ρ t :=
  Proofs.traversal_agrees_ok F e t h ρ hok

/-- Counterexample to full equality: `x.missing[null]` with `x = {}` evaluates with two diagnostics
    ("no such attribute", "null key"); the traversal reports only the first. -/
theorem traversal_diags_differ :
    let F : Cx := { funcs := fun _ => none }
    let ρ : Env := [("x", .object Fl.none [])]
    let e : Expr := .index (.getAttr (.var "x") "missing") (.lit (.null Fl.none .dyn))
    let t : Trav := ⟨"x", [.attr "missing", .index (.null Fl.none .dyn)]⟩
    asTraversal e = some t ∧ (eval F ρ e).2.length = 2 ∧ (traverseAbs F ρ t).2.length = 1 :=
  Proofs.traversal_diags_differ

/-- The static list parts of a tuple constructor evaluate to the elements of the whole. -/
theorem static_list_parts (F : Cx) (e : Expr) (es : List Expr) (h : exprList e = some es) (ρ : Env) :
    eval F ρ e = (.tuple Fl.none (evalList F ρ es).1, (evalList F ρ es).2) :=
  Proofs.static_list_parts F e es h ρ

namespace TypeExpr

/-- Type-constraint expressions rendered from a type parse back to the identical type, provided no object
    type has `for` as its first attribute name (recorded finding: `object({for=string})`). -/
theorem type_roundtrip (ty : CTy) (h : noLeadingFor ty = true) : parseType (typeString ty) = some ty :=
  Proofs.type_roundtrip ty h

/-- The guard is necessary. -/
theorem type_roundtrip_needs_guard : parseType (typeString (.object [("for", .str)])) = none := by decide

/-- non-vacuity -/
example : parseType (typeString (.object [("a", .list .str), ("b", .tuple [.num, .map .any])])) =
    some (.object [("a", .list .str), ("b", .tuple [.num, .map .any])]) := by rfl

end TypeExpr
end HclModel

/-! ## the stand-alone traversal parser and the expression parser

`HclModel/Syntax/Traversal.lean` models both readers of a static traversal on the scanner's tokens:
`standalone` is `hclsyntax.ParseTraversalAbs`, `viaExpression` is `hclsyntax.ParseExpression` followed by
`hcl.AbsTraversalForExpr`; both are tied to the code by the `TRAV` correspondence on random token strings. -/
namespace HclModel.Trav

/-- A text accepted by the stand-alone traversal parser denotes the same traversal for the expression parser:
    same root, same attribute names, same index keys (numbers and strings after escape processing), whatever
    newlines lie between the tokens. -/
theorem standalone_agrees_with_expression_parser (ts : List Tok) (t : T) (h : standalone ts = some t) :
    viaExpression ts = some t :=
  Proofs.viaExpression_of_standalone ts t h

/-- The converse does not hold: the legacy index form `a.0` is a static traversal for the expression parser
    only (the stand-alone parser demands a name after a dot). -/
theorem legacy_index_only_in_expressions :
    ∃ ts t, viaExpression ts = some t ∧ standalone ts = none :=
  ⟨[.ident ['a'], .dot, .num 0 false], ⟨['a'], [.index (.num 0)]⟩, by decide, by decide⟩

/-- …and `a.0.1`, scanned as the one number `0.1` after the dot, is rejected by both. -/
example : viaExpression [.ident ['a'], .dot, .num 1 true] = none ∧ standalone [.ident ['a'], .dot, .num 1 true] = none := by
  decide

/-- non-vacuity: a traversal with every kind of step, newlines inside the brackets -/
example : standalone [.ident ['a'], .dot, .ident ['b'], .obrack, .newline, .num 7 false, .cbrack, .obrack, .str ['k', '\\', 'n'], .newline, .cbrack] =
    some ⟨['a'], [.attr ['b'], .index (.num 7), .index (.str ['k', '\n'])]⟩ := by decide

end HclModel.Trav
