package c14

import (
	"bufio"
	"fmt"
	"strings"

	"github.com/apparentlymart/go-textseg/v15/textseg"
	"github.com/hashicorp/hcl/v2"
	"github.com/hashicorp/hcl/v2/hclsyntax"

	"hx/lib"
)

// corrPos ties the Lean position model (HclModel/Lex/Pos: emitToken's incremental byte/line/column bookkeeping)
// to the real lexer: the segmentation of an input into tokens and gaps is taken from the real token stream, the
// grapheme clusters of every token from textseg, and the model must reproduce every token's start and end position.
func corrPos(cx *lib.Ctx) {
	if !cx.HasModel() {
		return
	}
	frags := []string{"a", "b1", " ", "  ", "\t", "\n", "\r\n", "=", "{", "}", "\"", "${", "}", "é", "é", "日本", "🇩🇪", "👩‍👩‍👧", "#c\n", "//x\r\n", "/* m\nn */", "<<EOT\n", "EOT\n", "1.5", "\xff", "\r", ".", "[", "]", "x-y"}
	n := cx.Scale(1500, 60000)
	for i := 0; i < n; i++ {
		r := cx.R.Fork()
		var sb strings.Builder
		if r.Chance(1, 3) {
			eg := &lib.ExprGen{R: r}
			bg := &lib.BodyGen{R: r, E: eg, ExprDep: 2}
			var toks []lib.Tk
			(&lib.Renderer{R: r}).BodyTokens(&toks, bg.Body(1))
			sb.WriteString(lib.RandomLayout(r).Render(toks, false))
		} else {
			for k := 1 + r.Intn(14); k > 0; k-- {
				sb.WriteString(frags[r.Intn(len(frags))])
			}
		}
		src := []byte(sb.String())
		start := hcl.Pos{Byte: r.Intn(50), Line: 1 + r.Intn(9), Column: 1 + r.Intn(30)}
		var toks hclsyntax.Tokens
		mode := r.Intn(3)
		ok := cx.Guard("lex", string(src), func() {
			switch mode {
			case 0:
				toks, _ = hclsyntax.LexConfig(src, "", start)
			case 1:
				toks, _ = hclsyntax.LexExpression(src, "", start)
			default:
				toks, _ = hclsyntax.LexTemplate(src, "", start)
			}
		})
		if !ok {
			continue
		}
		var segs, want []string
		prevEnd := start.Byte
		tiled := true
		for _, t := range toks {
			gap := t.Range.Start.Byte - prevEnd
			if gap < 0 || t.Range.End.Byte-t.Range.Start.Byte != len(t.Bytes) {
				tiled = false
				break
			}
			if gap > 0 {
				segs = append(segs, fmt.Sprintf("g%d", gap))
			}
			var cls []string
			b := t.Bytes
			for len(b) > 0 {
				adv, seq, _ := textseg.ScanGraphemeClusters(b, true)
				nl := 0
				if (len(seq) == 1 && seq[0] == '\n') || (len(seq) == 2 && seq[0] == '\r' && seq[1] == '\n') {
					nl = 1
				}
				cls = append(cls, fmt.Sprintf("%d.%d", adv, nl))
				b = b[adv:]
			}
			segs = append(segs, fmt.Sprintf("t%d:%s", int(t.Type), strings.Join(cls, ",")))
			want = append(want, fmt.Sprintf("%d:%d.%d.%d-%d.%d.%d", int(t.Type), t.Range.Start.Byte, t.Range.Start.Line, t.Range.Start.Column, t.Range.End.Byte, t.Range.End.Line, t.Range.End.Column))
			prevEnd = t.Range.End.Byte
		}
		if !tiled {
			cx.Res.Count("corr-pos-skip:not-tiled") // the tiling oracle reports this
			continue
		}
		model := cx.Ask(fmt.Sprintf("POS %d %d %d %s", start.Byte, start.Line, start.Column, strings.Join(segs, " ")))
		cx.Res.CorrChecked++
		if impl := strings.Join(want, " "); model != impl {
			cx.Res.Fail(lib.Failure{Kind: "corr", Key: "POS", Desc: "token positions differ from the model of emitToken", Input: fmt.Sprintf("mode=%d start=%v src=%q", mode, start, src), Model: lib.Trunc(model, 400), Impl: lib.Trunc(impl, 400)})
		}
	}
}

// corrRangeScan ties the Lean model of hcl.RangeScanner.Scan (HclModel/Lex/RangeScan: the running position, the
// "end" marker that stops at the token's last cluster, the restart of cluster counting at every window) to the
// real scanner.  The windows are obtained by calling the split function exactly as the scanner does, the
// clusters of every window from textseg (a cluster is a line break when its first byte is \r or \n, the
// scanner's own test); the model must reproduce every Range().  Five split functions: lines, words, bytes,
// runes, lines kept with their terminator.
func corrRangeScan(cx *lib.Ctx) {
	if !cx.HasModel() {
		return
	}
	frags := []string{"a", "b1", " ", "  ", "\t", "\n", "\r\n", "\n\n", "=", "é", "é", "日本", "🇩🇪", "👩‍👩‍👧", "#c\n", "\xff", "\xe0\x80", "\r", ".", "x-y", "word", " \n"}
	splits := []struct {
		name string
		f    bufio.SplitFunc
	}{{"lines", bufio.ScanLines}, {"words", bufio.ScanWords}, {"bytes", bufio.ScanBytes}, {"runes", bufio.ScanRunes}, {"lines-keep", scanLinesKeep}}
	n := cx.Scale(1200, 40000)
	for i := 0; i < n; i++ {
		r := cx.R.Fork()
		var sb strings.Builder
		for k := 1 + r.Intn(16); k > 0; k-- {
			sb.WriteString(frags[r.Intn(len(frags))])
		}
		src := []byte(sb.String())
		start := hcl.Pos{Byte: 0, Line: 1 + r.Intn(9), Column: 1 + r.Intn(30)}
		sp := splits[r.Intn(len(splits))]
		var got []string
		ok := cx.Guard("rangescan:"+sp.name, string(src), func() {
			sc := hcl.NewRangeScannerFragment(src, "f", start, sp.f)
			for sc.Scan() {
				g := sc.Range()
				got = append(got, fmt.Sprintf("%d.%d.%d-%d.%d.%d", g.Start.Byte, g.Start.Line, g.Start.Column, g.End.Byte, g.End.Line, g.End.Column))
				if len(got) > len(src)+2 {
					panic("RangeScanner does not terminate")
				}
			}
		})
		if !ok {
			continue
		}
		var wins []string
		for pos := 0; pos < len(src); {
			adv, tok, err := sp.f(src[pos:], true)
			if err != nil || (adv == 0 && tok == nil) || adv < 0 || pos+adv > len(src) {
				break
			}
			var cls []string
			b := src[pos : pos+adv]
			for len(b) > 0 {
				a, seq, _ := textseg.ScanGraphemeClusters(b, true)
				if a <= 0 {
					break
				}
				nl := 0
				if len(seq) > 0 && (seq[0] == '\r' || seq[0] == '\n') {
					nl = 1
				}
				cls = append(cls, fmt.Sprintf("%d.%d", a, nl))
				b = b[a:]
			}
			wins = append(wins, fmt.Sprintf("w%d:%s", len(tok), strings.Join(cls, ",")))
			if adv == 0 {
				break // (a split function that returns a token without advancing: the scanner would loop; not produced by these five)
			}
			pos += adv
		}
		model := cx.Ask(fmt.Sprintf("RSCAN %d %d %d %s", start.Byte, start.Line, start.Column, strings.Join(wins, " ")))
		cx.Res.CorrChecked++
		cx.Res.Count("corr-rscan:" + sp.name)
		impl := strings.Join(got, " ")
		if impl == "" {
			impl = "-"
		}
		if model != impl {
			cx.Res.Fail(lib.Failure{Kind: "corr", Key: "RSCAN", Desc: "RangeScanner ranges differ from the model of Scan (" + sp.name + ")", Input: fmt.Sprintf("split=%s start=%v src=%q", sp.name, start, src), Model: lib.Trunc(model, 400), Impl: lib.Trunc(impl, 400)})
		}
	}
}
