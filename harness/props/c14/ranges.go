package c14

import (
	"bytes"
	"fmt"
	"github.com/apparentlymart/go-textseg/v15/textseg"
	"strings"
	"unicode"
	"unicode/utf8"

	"github.com/hashicorp/hcl/v2"
	"github.com/hashicorp/hcl/v2/hclsyntax"
	"github.com/zclconf/go-cty/cty"

	"hx/lib"
)

// Range fidelity on an error-free configuration: every recorded range must slice the source to exactly
// the construct it is recorded for, and an expression's range must re-parse to an equivalent expression.
//
// Expression kinds whose Range() is legitimately not an expression text on its own (decided from
// hclsyntax/parser.go and parser_template.go) are not re-parsed as expressions:
//   - ObjectConsKeyExpr: a wrapper with the range of its Wrapped expression (which is checked);
//   - AnonSymbolExpr, and RelativeTraversalExpr / IndexExpr / SplatExpr whose source chain starts at an
//     AnonSymbolExpr (the Each side of a splat): their ranges start at the splat marker "[*]" / ".*";
//   - string literal parts of templates (LiteralValueExpr directly under a TemplateExpr): raw template
//     text; instead the text is re-read in its quoting context and must give the literal's value;
//   - the nodes the template parser builds for %{if} / %{for} directives (ConditionalExpr, ForExpr under
//     TemplateJoinExpr, and the TemplateExprs holding their branches): template fragments; instead they
//     are re-parsed as templates in their quoting context when no strip marker or flush heredoc is around.
type rangeChecker struct {
	cx     *lib.Ctx
	src    []byte
	input  string
	failed bool
	nodes  map[string]int
}

// lineLeading checks the start of a literal that begins a line of a flush heredoc after the common
// indentation was removed: the bytes between the start of the line and the literal's start are the removed
// white space, so they must be whole characters, and their number (in grapheme clusters) is the column shift.
// Literals that do not begin their line (text before them on the line) derive their position from the tokens
// and are covered by the tiling checks.
func (c *rangeChecker) lineLeading(r hcl.Range, what string) {
	p := r.Start
	if p.Byte < 0 || p.Byte > len(c.src) {
		c.fail("position-outside-source:"+what, "the start of the range of a "+what+" is outside the source", r.String())
		return
	}
	ls := bytes.LastIndexByte(c.src[:p.Byte], '\n') + 1
	pre := c.src[ls:p.Byte]
	if !utf8.Valid(pre) || (p.Byte < len(c.src) && !utf8.RuneStart(c.src[p.Byte])) {
		c.fail("position-splits-character:"+what, fmt.Sprintf("the start of the range of a %s (byte %d) lies inside a multi-byte character", what, p.Byte), r.String())
		return
	}
	for _, ch := range string(pre) {
		if !unicode.IsSpace(ch) {
			return // not line-leading
		}
	}
	n, _ := textseg.TokenCount(pre, textseg.ScanGraphemeClusters)
	if p.Column != n+1 {
		c.fail("position-inconsistent:"+what, fmt.Sprintf("the range of a %s starts at byte %d, %d white-space characters into its line, but says column %d", what, p.Byte, n, p.Column), r.String())
	}
}

type tmplRoot struct {
	kind  string // "quoted" | "heredoc" | "flush"
	tilde bool   // the template text contains '~' (strip markers change neighbouring literals)
}

type exprCtx struct {
	part  bool      // direct part of a template
	inner bool      // TemplateExpr built for a directive branch
	root  *tmplRoot // nearest enclosing template written with quotes / heredoc markers
}

func (c *rangeChecker) fail(key, desc, impl string) {
	c.failed = true
	c.cx.Res.Fail(lib.Failure{Kind: "oracle", Key: "range:" + key, Desc: desc, Input: c.input, Impl: impl})
}

func (c *rangeChecker) slice(r hcl.Range, what string) (string, bool) {
	if r.Start.Byte < 0 || r.End.Byte > len(c.src) || r.Start.Byte > r.End.Byte {
		c.fail("out-of-bounds:"+what, fmt.Sprintf("%s range %d..%d outside the source of length %d", what, r.Start.Byte, r.End.Byte, len(c.src)), r.String())
		return "", false
	}
	return string(c.src[r.Start.Byte:r.End.Byte]), true
}

func (c *rangeChecker) want(r hcl.Range, what, expect string) {
	if got, ok := c.slice(r, what); ok && got != expect {
		c.fail("slice:"+what, fmt.Sprintf("%s range slices to %q, expected %q", what, got, expect), r.String())
	}
}

// squeeze lexes a slice and joins the significant tokens (drops spaces, newlines and comments).
func squeeze(s string) string {
	toks, _ := hclsyntax.LexExpression([]byte(s), "", hcl.InitialPos)
	var sb strings.Builder
	for _, t := range toks {
		if t.Type == hclsyntax.TokenNewline || t.Type == hclsyntax.TokenComment {
			continue
		}
		sb.Write(t.Bytes)
	}
	return sb.String()
}

func (c *rangeChecker) wantSqueezed(r hcl.Range, what, expect string) {
	if got, ok := c.slice(r, what); ok && squeeze(got) != expect {
		c.fail("slice:"+what, fmt.Sprintf("%s range slices to %q, expected the tokens of %q", what, got, expect), r.String())
	}
}

func (c *rangeChecker) body(b *hclsyntax.Body) {
	for _, a := range b.Attributes {
		c.nodes["attribute"]++
		c.want(a.NameRange, "attribute-name", a.Name)
		c.want(a.EqualsRange, "attribute-equals", "=")
		er := a.Expr.Range()
		if a.SrcRange.Start != a.NameRange.Start || a.SrcRange.End != er.End {
			c.fail("attribute-extent", fmt.Sprintf("attribute %q SrcRange %s does not run from its name %s to the end of its expression %s", a.Name, a.SrcRange, a.NameRange, er), a.SrcRange.String())
		}
		c.expr(a.Expr, exprCtx{})
	}
	for _, blk := range b.Blocks {
		c.nodes["block"]++
		c.want(blk.TypeRange, "block-type", blk.Type)
		c.want(blk.OpenBraceRange, "open-brace", "{")
		c.want(blk.CloseBraceRange, "close-brace", "}")
		if len(blk.LabelRanges) != len(blk.Labels) {
			c.fail("label-count", fmt.Sprintf("%d labels, %d label ranges", len(blk.Labels), len(blk.LabelRanges)), "")
		} else {
			for i, lr := range blk.LabelRanges {
				c.label(lr, blk.Labels[i])
			}
		}
		if blk.Body != nil {
			c.body(blk.Body)
		}
	}
}

func (c *rangeChecker) label(r hcl.Range, label string) {
	c.nodes["label"]++
	s, ok := c.slice(r, "label")
	if !ok {
		return
	}
	if !strings.HasPrefix(s, `"`) {
		if s != label {
			c.fail("slice:label-bare", fmt.Sprintf("bare label range slices to %q, label is %q", s, label), r.String())
		}
		return
	}
	if len(s) < 2 || !strings.HasSuffix(s, `"`) {
		c.fail("slice:label-quoted", fmt.Sprintf("quoted label range slices to %q", s), r.String())
		return
	}
	e, diags := hclsyntax.ParseExpression([]byte(s), "", r.Start)
	t, isT := e.(*hclsyntax.TemplateExpr)
	if diags.HasErrors() || !isT || !t.IsStringLiteral() {
		c.fail("slice:label-quoted", fmt.Sprintf("label range slices to %q, which is not a quoted string literal", s), r.String())
		return
	}
	v, _ := t.Value(nil)
	if v.Type() != cty.String || v.AsString() != label {
		c.fail("slice:label-quoted", fmt.Sprintf("label range slices to %q, label is %q", s, label), r.String())
	}
}

func exprKind(e hclsyntax.Expression) string {
	return strings.TrimPrefix(fmt.Sprintf("%T", e), "*hclsyntax.")
}

// anchoredOnAnon follows the source chain of traversal-like nodes.
func anchoredOnAnon(e hclsyntax.Expression) bool {
	for {
		switch x := e.(type) {
		case *hclsyntax.AnonSymbolExpr:
			return true
		case *hclsyntax.RelativeTraversalExpr:
			e = x.Source
		case *hclsyntax.IndexExpr:
			e = x.Collection
		case *hclsyntax.SplatExpr:
			e = x.Source
		default:
			return false
		}
	}
}

// endsInHeredoc: the closing marker of a heredoc is recognised by the scanner only when a newline
// follows; that newline terminates the enclosing item and is not part of the expression's range.
func endsInHeredoc(s string) bool {
	if !strings.Contains(s, "<<") {
		return false
	}
	toks, _ := hclsyntax.LexExpression([]byte(s+"\n"), "", hcl.InitialPos)
	n := len(toks)
	return n >= 3 && toks[n-1].Type == hclsyntax.TokenEOF && toks[n-2].Type == hclsyntax.TokenNewline && toks[n-3].Type == hclsyntax.TokenCHeredoc
}

func samePos(a, b hcl.Pos) bool { return a.Byte == b.Byte && a.Line == b.Line && a.Column == b.Column }

// reparse checks that the expression's range, parsed on its own from the range's start position, gives
// an equivalent expression occupying the same range.
func (c *rangeChecker) reparse(e hclsyntax.Expression) {
	kind := exprKind(e)
	r := e.Range()
	s, ok := c.slice(r, "expr:"+kind)
	if !ok {
		return
	}
	c.nodes["reparsed:"+kind]++
	text := s
	if endsInHeredoc(s) {
		text = s + "\n"
	}
	var e2 hclsyntax.Expression
	var diags hcl.Diagnostics
	if !c.cx.Guard("reparse:"+kind, c.input, func() { e2, diags = hclsyntax.ParseExpression([]byte(text), "", r.Start) }) {
		c.failed = true
		return
	}
	if diags.HasErrors() {
		c.fail("expr-reparse-error:"+kind, fmt.Sprintf("the range of a %s slices to %q, which does not parse as an expression: %s", kind, s, diags.Error()), r.String())
		return
	}
	d1, d2 := lib.DumpExpr(e, true), lib.DumpExpr(e2, true)
	if d1 != d2 {
		c.fail("expr-reparse-differs:"+kind, fmt.Sprintf("the range of a %s slices to %q, which parses to a different expression", kind, s), d1+"\n----\n"+d2)
		return
	}
	r2 := e2.Range()
	if !samePos(r2.Start, r.Start) || !samePos(r2.End, r.End) {
		c.fail("expr-reparse-range:"+kind, fmt.Sprintf("re-parsing %q from %v gives the range %v-%v instead of %v-%v", s, r.Start, r2.Start, r2.End, r.Start, r.End), r.String())
	}
}

// tmplText re-reads a template fragment in its quoting context.
func (c *rangeChecker) tmplParse(s string, root *tmplRoot) (*hclsyntax.TemplateExpr, bool) {
	var e hclsyntax.Expression
	var diags hcl.Diagnostics
	ok := c.cx.Guard("reparse:template-fragment", c.input, func() {
		if root.kind == "quoted" {
			e, diags = hclsyntax.ParseExpression([]byte(`"`+s+`"`), "", hcl.InitialPos)
		} else {
			e, diags = hclsyntax.ParseTemplate([]byte(s), "", hcl.InitialPos)
		}
	})
	if !ok || diags.HasErrors() {
		return nil, false
	}
	switch t := e.(type) {
	case *hclsyntax.TemplateExpr:
		return t, true
	case *hclsyntax.TemplateWrapExpr:
		return &hclsyntax.TemplateExpr{Parts: []hclsyntax.Expression{t.Wrapped}}, true
	}
	return nil, false
}

func (c *rangeChecker) tmplLiteral(x *hclsyntax.LiteralValueExpr, ctx exprCtx) {
	if ctx.root != nil && ctx.root.kind == "flush" {
		// the text is not re-parsed (the removed indentation is not part of the literal), but where it starts
		// and ends must still be a faithful position
		c.lineLeading(x.Range(), "flush-heredoc-literal")
	}
	if ctx.root == nil || ctx.root.kind == "flush" {
		c.nodes["template-literal-unchecked"]++
		return
	}
	r := x.Range()
	s, ok := c.slice(r, "template-literal")
	if !ok {
		return
	}
	c.nodes["template-literal"]++
	val := x.Val.AsString()
	if s == "" {
		if val != "" {
			c.fail("template-literal", fmt.Sprintf("empty range for the template literal %q", val), r.String())
		}
		return
	}
	t, ok := c.tmplParse(s, ctx.root)
	if !ok || len(t.Parts) != 1 {
		c.fail("template-literal", fmt.Sprintf("the range of the template literal %q slices to %q, which is not one literal in a %s template", val, s, ctx.root.kind), r.String())
		return
	}
	lit, isLit := t.Parts[0].(*hclsyntax.LiteralValueExpr)
	if !isLit || lit.Val.Type() != cty.String {
		c.fail("template-literal", fmt.Sprintf("the range of the template literal %q slices to %q, which is not a literal", val, s), r.String())
		return
	}
	// strip markers of neighbouring sequences may have removed leading / trailing white space
	got := lit.Val.AsString()
	if got != val && !(strings.Contains(got, val) && strings.TrimSpace(got) == strings.TrimSpace(val)) {
		c.fail("template-literal", fmt.Sprintf("the range of the template literal %q slices to %q, which reads as %q", val, s, got), r.String())
	}
}

// tmplFragment re-parses a directive construct (or a directive branch) as a template in its context.
func (c *rangeChecker) tmplFragment(e hclsyntax.Expression, ctx exprCtx, wrap bool) {
	kind := exprKind(e)
	if ctx.root == nil || ctx.root.kind == "flush" || ctx.root.tilde {
		c.nodes["template-fragment-unchecked"]++
		return
	}
	r := e.Range()
	s, ok := c.slice(r, "template-fragment:"+kind)
	if !ok {
		return
	}
	c.nodes["template-fragment:"+kind]++
	t, ok := c.tmplParse(s, ctx.root)
	if !ok {
		c.fail("template-fragment-reparse-error:"+kind, fmt.Sprintf("the range of a directive %s slices to %q, which does not parse as a %s template", kind, s, ctx.root.kind), r.String())
		return
	}
	d1 := lib.DumpExpr(e, true)
	if wrap {
		d1 = "(template " + d1 + ")"
	}
	if s == "" {
		return // a synthesised empty branch
	}
	if d2 := lib.DumpExpr(t, true); d1 != d2 {
		c.fail("template-fragment-reparse-differs:"+kind, fmt.Sprintf("the range of a directive %s slices to %q, which parses to a different template", kind, s), d1+"\n----\n"+d2)
	}
}

func (c *rangeChecker) traversal(t hcl.Traversal) {
	for _, st := range t {
		switch x := st.(type) {
		case hcl.TraverseRoot:
			c.want(x.SrcRange, "traverse-root", x.Name)
		case hcl.TraverseAttr:
			c.wantSqueezed(x.SrcRange, "traverse-attr", "."+x.Name)
		case hcl.TraverseIndex:
			if s, ok := c.slice(x.SrcRange, "traverse-index"); ok {
				if !(strings.HasPrefix(s, "[") && strings.HasSuffix(s, "]")) && !strings.HasPrefix(s, ".") {
					c.fail("slice:traverse-index", fmt.Sprintf("index step range slices to %q", s), x.SrcRange.String())
				}
			}
		}
	}
}

var unarySymbol = map[string]string{"OpNegate": "-", "OpLogicalNot": "!"}

func binarySymbols() map[string]hclsyntax.TokenType {
	m := map[string]hclsyntax.TokenType{}
	for _, op := range hclsyntax.VerifBinaryOps() {
		m[op.Name] = op.Token
	}
	return m
}

var binSym = binarySymbols()

func (c *rangeChecker) expr(e hclsyntax.Expression, ctx exprCtx) {
	if c.failed || e == nil {
		return
	}
	c.nodes["expr"]++
	sub := exprCtx{root: ctx.root} // children are ordinary expressions unless said otherwise
	switch x := e.(type) {
	case *hclsyntax.LiteralValueExpr:
		if ctx.part && x.Val.Type() == cty.String && x.Val.IsKnown() && !x.Val.IsNull() {
			c.tmplLiteral(x, ctx)
			return
		}
		c.reparse(e)
	case *hclsyntax.ScopeTraversalExpr:
		c.reparse(e)
		c.traversal(x.Traversal)
	case *hclsyntax.RelativeTraversalExpr:
		if !anchoredOnAnon(e) {
			c.reparse(e)
		} else {
			c.nodes["excluded:anon-anchored"]++
		}
		c.traversal(x.Traversal)
		c.expr(x.Source, sub)
	case *hclsyntax.AnonSymbolExpr:
		c.nodes["excluded:AnonSymbolExpr"]++
		c.wantSqueezedOneOf(x.SrcRange, "splat-marker", "[*]", ".*")
	case *hclsyntax.ParenthesesExpr:
		c.reparse(e)
		if s, ok := c.slice(x.SrcRange, "parentheses"); ok && !(strings.HasPrefix(s, "(") && strings.HasSuffix(s, ")")) {
			c.fail("slice:parentheses", fmt.Sprintf("parenthesised expression range slices to %q", s), x.SrcRange.String())
		}
		c.expr(x.Expression, sub)
	case *hclsyntax.FunctionCallExpr:
		c.reparse(e)
		c.wantSqueezed(x.NameRange, "function-name", x.Name)
		c.want(x.OpenParenRange, "open-paren", "(")
		c.want(x.CloseParenRange, "close-paren", ")")
		for _, a := range x.Args {
			c.expr(a, sub)
		}
	case *hclsyntax.ConditionalExpr:
		s, _ := c.slice(x.SrcRange, "expr:ConditionalExpr")
		if ctx.part && strings.HasPrefix(s, "%{") {
			c.tmplFragment(e, ctx, true)
			c.expr(x.Condition, sub)
			c.expr(x.TrueResult, exprCtx{inner: true, root: ctx.root})
			c.expr(x.FalseResult, exprCtx{inner: true, root: ctx.root})
			return
		}
		c.reparse(e)
		c.expr(x.Condition, sub)
		c.expr(x.TrueResult, sub)
		c.expr(x.FalseResult, sub)
	case *hclsyntax.IndexExpr:
		if !anchoredOnAnon(e) {
			c.reparse(e)
		} else {
			c.nodes["excluded:anon-anchored"]++
		}
		c.want(x.OpenRange, "index-open", "[")
		if s, ok := c.slice(x.BracketRange, "index-brackets"); ok && !(strings.HasPrefix(s, "[") && strings.HasSuffix(s, "]")) {
			c.fail("slice:index-brackets", fmt.Sprintf("index bracket range slices to %q", s), x.BracketRange.String())
		}
		c.expr(x.Collection, sub)
		c.expr(x.Key, sub)
	case *hclsyntax.TupleConsExpr:
		c.reparse(e)
		c.want(x.OpenRange, "tuple-open", "[")
		for _, it := range x.Exprs {
			c.expr(it, sub)
		}
	case *hclsyntax.ObjectConsExpr:
		c.reparse(e)
		c.want(x.OpenRange, "object-open", "{")
		for _, it := range x.Items {
			c.expr(it.KeyExpr, sub)
			c.expr(it.ValueExpr, sub)
		}
	case *hclsyntax.ObjectConsKeyExpr:
		c.nodes["excluded:ObjectConsKeyExpr"]++
		c.expr(x.Wrapped, sub)
	case *hclsyntax.ForExpr:
		c.reparse(e)
		open, _ := c.slice(x.OpenRange, "for-open")
		cl, _ := c.slice(x.CloseRange, "for-close")
		if !(open == "[" && cl == "]") && !(open == "{" && cl == "}") {
			c.fail("slice:for-brackets", fmt.Sprintf("for expression open/close ranges slice to %q / %q", open, cl), x.SrcRange.String())
		}
		c.forChildren(x, sub, sub)
	case *hclsyntax.SplatExpr:
		if !anchoredOnAnon(e) {
			c.reparse(e)
		} else {
			c.nodes["excluded:anon-anchored"]++
		}
		c.wantSqueezedOneOf(x.MarkerRange, "splat-marker", "[*]", ".*")
		c.expr(x.Source, sub)
		c.expr(x.Each, sub)
	case *hclsyntax.BinaryOpExpr:
		c.reparse(e)
		l, r := x.LHS.Range(), x.RHS.Range()
		if l.End.Byte <= r.Start.Byte && r.Start.Byte <= len(c.src) && l.End.Byte >= 0 {
			between := string(c.src[l.End.Byte:r.Start.Byte])
			toks, _ := hclsyntax.LexExpression([]byte(between), "", hcl.InitialPos)
			var sig []hclsyntax.Token
			for _, t := range toks {
				if t.Type != hclsyntax.TokenNewline && t.Type != hclsyntax.TokenComment && t.Type != hclsyntax.TokenEOF {
					sig = append(sig, t)
				}
			}
			name := hclsyntax.VerifOpName(x.Op)
			if len(sig) != 1 || sig[0].Type != binSym[name] {
				c.fail("slice:binary-operator", fmt.Sprintf("the text between the operand ranges of a %s is %q, not that operator", name, between), x.SrcRange.String())
			}
		} else {
			c.fail("slice:binary-operator", fmt.Sprintf("operand ranges of a binary operation are not in order: %s, %s", l, r), x.SrcRange.String())
		}
		c.expr(x.LHS, sub)
		c.expr(x.RHS, sub)
	case *hclsyntax.UnaryOpExpr:
		c.reparse(e)
		c.want(x.SymbolRange, "unary-operator", unarySymbol[hclsyntax.VerifOpName(x.Op)])
		c.expr(x.Val, sub)
	case *hclsyntax.TemplateExpr:
		if ctx.inner {
			// parseIf / parseFor give a branch the range from its first part to its last part, and the
			// range of an interpolated part is that of the expression inside "${ }": a branch that begins
			// or ends with an interpolation has a range without those delimiters, which is not a template
			// fragment (see the final report); only branches delimited by literals / directives are re-read.
			if n := len(x.Parts); n > 0 && c.delimitedPart(x.Parts[0]) && c.delimitedPart(x.Parts[n-1]) {
				c.tmplFragment(e, ctx, false)
			} else {
				c.nodes["excluded:branch-edged-by-interpolation"]++
			}
			for _, p := range x.Parts {
				c.expr(p, exprCtx{part: true, root: ctx.root})
			}
			return
		}
		root := c.templateRoot(x.SrcRange, "TemplateExpr")
		c.reparse(e)
		for _, p := range x.Parts {
			c.expr(p, exprCtx{part: true, root: root})
		}
	case *hclsyntax.TemplateWrapExpr:
		c.templateRoot(x.SrcRange, "TemplateWrapExpr")
		c.reparse(e)
		c.expr(x.Wrapped, sub)
	case *hclsyntax.TemplateJoinExpr:
		f, isFor := x.Tuple.(*hclsyntax.ForExpr)
		if !isFor || !ctx.part {
			c.cx.Res.Count("unexpected-shape:TemplateJoinExpr")
			return
		}
		c.nodes["expr"]++
		c.tmplFragment(e, ctx, true)
		c.forChildren(f, sub, exprCtx{inner: true, root: ctx.root})
	default:
		// a node kind this oracle does not know: make it visible instead of silently skipping it
		c.cx.Res.Count("unhandled-node-kind:" + exprKind(e))
	}
}

// delimitedPart: the part's own range includes its delimiters (a literal has none, a directive construct
// runs from "%{" to the closing brace of its end directive).
func (c *rangeChecker) delimitedPart(p hclsyntax.Expression) bool {
	switch x := p.(type) {
	case *hclsyntax.LiteralValueExpr:
		return x.Val.Type() == cty.String && x.Val.IsKnown() && !x.Val.IsNull()
	case *hclsyntax.TemplateJoinExpr:
		return true
	case *hclsyntax.ConditionalExpr:
		r := x.SrcRange
		return r.Start.Byte >= 0 && r.Start.Byte+2 <= len(c.src) && string(c.src[r.Start.Byte:r.Start.Byte+2]) == "%{"
	}
	return false
}

func (c *rangeChecker) forChildren(x *hclsyntax.ForExpr, sub, val exprCtx) {
	c.expr(x.CollExpr, sub)
	if x.KeyExpr != nil {
		c.expr(x.KeyExpr, sub)
	}
	c.expr(x.ValExpr, val)
	if x.CondExpr != nil {
		c.expr(x.CondExpr, sub)
	}
}

func (c *rangeChecker) wantSqueezedOneOf(r hcl.Range, what string, opts ...string) {
	got, ok := c.slice(r, what)
	if !ok {
		return
	}
	sq := squeeze(got)
	for _, o := range opts {
		if sq == o {
			return
		}
	}
	c.fail("slice:"+what, fmt.Sprintf("%s range slices to %q", what, got), r.String())
}

// templateRoot classifies a template written with quotes or heredoc markers; its range must start with
// the opening marker.
func (c *rangeChecker) templateRoot(r hcl.Range, kind string) *tmplRoot {
	s, ok := c.slice(r, "expr:"+kind)
	if !ok {
		return nil
	}
	root := &tmplRoot{tilde: strings.Contains(s, "~")}
	switch {
	case strings.HasPrefix(s, `"`) && strings.HasSuffix(s, `"`) && len(s) >= 2:
		root.kind = "quoted"
	case strings.HasPrefix(s, "<<-"):
		root.kind = "flush"
	case strings.HasPrefix(s, "<<"):
		root.kind = "heredoc"
	default:
		c.fail("slice:template-delimiters:"+kind, fmt.Sprintf("the range of a %s slices to %q, which is not delimited by quotes or heredoc markers", kind, s), r.String())
		return nil
	}
	return root
}

// countNodes counts the expression nodes hclsyntax.VisitAll reaches, to cross-check the oracle's own walk.
func countNodes(b *hclsyntax.Body) int {
	n := 0
	hclsyntax.VisitAll(b, func(node hclsyntax.Node) hcl.Diagnostics {
		switch node.(type) {
		case hclsyntax.Expression:
			n++
		}
		return nil
	})
	return n
}

// checkRanges runs the range-fidelity oracle on one source. It returns false when the source is not an
// error-free configuration (outside the quantifier).
func checkRanges(cx *lib.Ctx, src []byte, origin string) (valid bool, exprs int) {
	input := string(src)
	var f *hcl.File
	var diags hcl.Diagnostics
	if !cx.Guard("parse-config", input, func() { f, diags = hclsyntax.ParseConfig(src, "f.hcl", hcl.InitialPos) }) {
		return false, 0
	}
	if diags.HasErrors() {
		return false, 0
	}
	body := f.Body.(*hclsyntax.Body)
	c := &rangeChecker{cx: cx, src: src, input: input, nodes: map[string]int{}}
	cx.Guard("range-walk", input, func() { c.body(body) })
	for k, v := range c.nodes {
		cx.Res.Distribution["ranges:"+k] += v
	}
	if !c.failed {
		// every expression node VisitAll reaches must have been visited by the walk above
		// (the walk additionally visits the Wrapped expression of literal object keys)
		if n := countNodes(body); c.nodes["expr"] < n {
			cx.Res.Count("walk-incomplete")
			cx.Res.Notes = append(cx.Res.Notes, fmt.Sprintf("range walk visited %d expression nodes, VisitAll %d: %s", c.nodes["expr"], n, lib.Trunc(input, 200)))
		}
	}
	return true, c.nodes["expr"]
}
