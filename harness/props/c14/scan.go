package c14

import (
	"bufio"
	"bytes"
	"fmt"
	"unicode/utf8"

	"github.com/hashicorp/hcl/v2"
	hcljson "github.com/hashicorp/hcl/v2/json"

	"hx/lib"
)

// checkJSONScan holds the JSON scanner to tiling and byte offsets (its columns follow its own documented
// tab / carriage-return convention): tokens in order, not overlapping, Bytes equal to the source slice,
// gaps made of JSON white space only, one EOF token, last, empty, at the end of the input — or, as the
// scanner documents, directly after the first invalid byte, where it stops.
func checkJSONScan(cx *lib.Ctx, src []byte, start hcl.Pos) {
	doc := mkDoc("json", "", src, start)
	var toks []hcljson.VerifToken
	if !cx.Guard("jsonscan", doc.String(), func() { toks = hcljson.VerifScan(src, start) }) {
		return
	}
	fail := func(key, desc string) {
		impl := ""
		for j, t := range toks {
			if j > 12 {
				impl += "...\n"
				break
			}
			impl += fmt.Sprintf("[%d] %q %q %d-%d\n", j, t.Type, t.Bytes, t.Range.Start.Byte, t.Range.End.Byte)
		}
		cx.Res.Fail(lib.Failure{Kind: "oracle", Key: "jsontile:" + key, Desc: desc, Input: doc.String(), Impl: impl})
	}
	if len(toks) == 0 {
		fail("no-tokens", "the JSON scanner returned no tokens")
		return
	}
	const tEOF, tInvalid = '␄', 0
	prevEnd := 0
	for i, t := range toks {
		s := t.Range.Start.Byte - start.Byte
		e := t.Range.End.Byte - start.Byte
		if s < 0 || e > len(src) || s > e {
			fail("range-out-of-bounds", fmt.Sprintf("token %d has byte range [%d,%d), input length %d", i, s, e, len(src)))
			return
		}
		if s < prevEnd {
			fail("overlap", fmt.Sprintf("token %d starts at %d before the previous end %d", i, s, prevEnd))
			return
		}
		// lines are obtained by counting newline bytes (independent of the model)
		if want := start.Line + bytes.Count(src[:s], []byte("\n")); t.Range.Start.Line != want {
			fail("line:start", fmt.Sprintf("token %d starts on line %d, counting newlines gives %d (offset %d)", i, t.Range.Start.Line, want, s))
			return
		}
		if want := start.Line + bytes.Count(src[:e], []byte("\n")); t.Range.End.Line != want {
			fail("line:end", fmt.Sprintf("token %d ends on line %d, counting newlines gives %d (offset %d)", i, t.Range.End.Line, want, e))
			return
		}
		for _, c := range src[prevEnd:s] {
			if c != ' ' && c != '\t' && c != '\r' && c != '\n' {
				fail("gap:"+byteClass(c), fmt.Sprintf("gap [%d,%d) before token %d contains %q", prevEnd, s, i, src[prevEnd:s]))
				return
			}
		}
		if t.Type == tEOF {
			if i != len(toks)-1 {
				fail("eof-not-last", fmt.Sprintf("EOF at index %d of %d", i, len(toks)))
				return
			}
			afterInvalid := i > 0 && toks[i-1].Type == tInvalid
			if s != e || len(t.Bytes) != 0 || (s != len(src) && !afterInvalid) {
				fail("eof-position", fmt.Sprintf("EOF covers [%d,%d), input length %d", s, e, len(src)))
				return
			}
		} else {
			if !bytes.Equal(t.Bytes, src[s:e]) {
				fail("bytes-mismatch", fmt.Sprintf("token %d Bytes %q differ from source slice %q", i, t.Bytes, src[s:e]))
				return
			}
			if s == e {
				fail("empty-token", fmt.Sprintf("token %d is empty", i))
				return
			}
		}
		prevEnd = e
	}
	if toks[len(toks)-1].Type != tEOF {
		fail("eof-missing", "the last token is not EOF")
	}
}

// scanLinesKeep is a split function yielding each line *with* its terminator: every token but the last ends
// in a newline, so the end of its range is the first column of the next line.
func scanLinesKeep(data []byte, atEOF bool) (int, []byte, error) {
	if atEOF && len(data) == 0 {
		return 0, nil, nil
	}
	if i := bytes.IndexByte(data, '\n'); i >= 0 {
		return i + 1, data[:i+1], nil
	}
	if atEOF {
		return len(data), data, nil
	}
	return 0, nil, nil
}

func hasLoneCR(b []byte) bool {
	for i, c := range b {
		if c == '\r' && (i+1 >= len(b) || b[i+1] != '\n') {
			return true
		}
	}
	return false
}

// checkRangeScanner compares hcl.RangeScanner with the recount. The expected items are recomputed with
// the (standard library) split function: window = the bytes one call advances over, token = the bytes it
// returns. Every Range() must cover exactly its token and carry the recounted line and column at both
// ends. The scanner documents that split functions cutting grapheme clusters are outside its domain, so
// an item is compared only when its window start (where the scanner restarts cluster counting; this
// spoils the rest of the text line) and its token's ends are cluster boundaries of the line.
func checkRangeScanner(cx *lib.Ctx, mode string, src []byte, start hcl.Pos) {
	start.Byte = 0 // the scanner indexes its buffer with pos.Byte, so a fragment starts at byte 0 of its buffer
	doc := mkDoc("rangescan", mode, src, start)
	split := bufio.ScanLines
	switch mode {
	case "words":
		split = bufio.ScanWords
	case "bytes":
		split = bufio.ScanBytes
	case "runes":
		// (on malformed input ScanRunes substitutes U+FFFD for the bytes it advances over: Bytes() is then
		// not a slice of the source, which is outside what the scanner can describe)
		if !utf8.Valid(src) {
			return
		}
		split = bufio.ScanRunes
	case "lines-keep":
		split = scanLinesKeep
	}
	type item struct {
		rng hcl.Range
		b   []byte
	}
	var items []item
	ok := cx.Guard("rangescan:"+mode, doc.String(), func() {
		sc := hcl.NewRangeScannerFragment(src, "f", start, split)
		for sc.Scan() {
			items = append(items, item{sc.Range(), sc.Bytes()})
			if len(items) > len(src)+2 {
				panic("RangeScanner does not terminate")
			}
		}
	})
	if !ok {
		return
	}
	rc := newRecount(src, start)
	type want struct{ ws, ts, te int }
	var wants []want
	badFrom := map[int]int{}
	cutoff := -1
	for pos := 0; pos < len(src); {
		adv, tok, err := split(src[pos:], true)
		if err != nil || adv <= 0 {
			break
		}
		ts := pos
		if mode == "words" && len(tok) > 0 {
			ts = pos + bytes.Index(src[pos:pos+adv], tok) // the first non-space run of the window
		}
		wants = append(wants, want{pos, ts, ts + len(tok)})
		if !rc.boundary[pos] {
			if _, seen := badFrom[rc.line[pos]]; !seen {
				badFrom[rc.line[pos]] = pos
			}
			if src[pos] == '\n' && cutoff < 0 {
				cutoff = pos // a CRLF cut in two (ScanWords treats '\r' as a space): line counts are spoiled from here on
			}
		}
		if cutoff < 0 && pos > 0 && src[pos] == '\n' && src[pos-1] == '\r' {
			cutoff = pos // the same, whatever the recount makes of malformed bytes before the '\r' (ScanBytes, ScanRunes)
		}
		pos += adv
	}
	fail := func(key, desc string, it item) {
		cx.Res.Fail(lib.Failure{Kind: "oracle", Key: "rangescan:" + mode + ":" + key, Desc: desc, Input: doc.String(),
			Impl: fmt.Sprintf("%q %d:%d,%d-%d:%d,%d", it.b, it.rng.Start.Byte, it.rng.Start.Line, it.rng.Start.Column, it.rng.End.Byte, it.rng.End.Line, it.rng.End.Column)})
	}
	if len(items) != len(wants) {
		fail("item-count", fmt.Sprintf("%d items, the split function yields %d", len(items), len(wants)), item{})
		return
	}
	for i, it := range items {
		w := wants[i]
		s, e := it.rng.Start.Byte, it.rng.End.Byte
		if s < 0 || e > len(src) || s > e {
			fail("range-out-of-bounds", fmt.Sprintf("item %d range [%d,%d), input length %d", i, s, e, len(src)), it)
			return
		}
		if !bytes.Equal(it.b, src[w.ts:w.te]) {
			fail("bytes", fmt.Sprintf("item %d Bytes() %q, the split function returned %q", i, it.b, src[w.ts:w.te]), it)
			return
		}
		if bw, isBad := badFrom[rc.line[w.ws]]; (isBad && w.ws >= bw) || !rc.boundary[w.ts] || !rc.boundary[w.te] {
			cx.Res.Count("rangescan-item-unaligned")
			continue
		}
		if cutoff >= 0 && w.te >= cutoff {
			cx.Res.Count("rangescan-item-unaligned")
			continue
		}
		if bw, isBad := badFrom[rc.line[w.te]]; isBad && w.te >= bw {
			cx.Res.Count("rangescan-item-unaligned")
			continue
		}
		cx.Res.Count("rangescan-item-compared")
		if s != w.ts || e != w.te {
			k := "range-not-bytes"
			if w.ts > w.ws {
				k += ":skipped-space-in-range"
			}
			fail(k, fmt.Sprintf("item %d: Range() covers [%d,%d) %q but Bytes() is [%d,%d) %q", i, s, e, src[s:e], w.ts, w.te, it.b), it)
			return
		}
		for _, pp := range []struct {
			which string
			p     hcl.Pos
		}{{"start", it.rng.Start}, {"end", it.rng.End}} {
			o := pp.p.Byte
			suffix := ""
			if hasLoneCR(src[:o]) {
				suffix = ":lone-cr"
			}
			if newlineAfterLeadByte(src[:o]) {
				suffix += ":newline-swallowed-by-malformed-utf8"
			}
			if pp.p.Line != rc.line[o] {
				fail("line:"+pp.which+suffix, fmt.Sprintf("item %d %s line %d, recount %d (offset %d)", i, pp.which, pp.p.Line, rc.line[o], o), it)
				return
			}
			if pp.p.Column != rc.col[o] {
				fail("column:"+pp.which+suffix, fmt.Sprintf("item %d %s column %d, recount %d (offset %d)", i, pp.which, pp.p.Column, rc.col[o], o), it)
				return
			}
		}
	}
}
