package c14

import (
	"fmt"
	"strings"

	"github.com/hashicorp/hcl/v2"

	"hx/lib"
)

// ---------------------------------------------------------------------------
// byte-string soup

var asciiFrags = []string{
	"a", "foo", "x-y", "_u", "for", "in", "if", "else", "endif", "endfor", "null", "true",
	"0", "12", "1.5", "1e5", "0x1F", "1.", ".5",
	"=", "==", "!=", "<", "<=", ">", ">=", "&&", "||", "!", "+", "-", "*", "/", "%", "?", ":", "::", "=>", "...", ".", ",",
	"&", "|", "^", "~", "**", ";", "`", "'", "@", "$", "\\",
	"(", ")", "[", "]", "{", "}", "${", "%{", "${~", "%{~", "~}", "$${", "%%{", "\"", "\\\"", "\\n", "\\u00e9", "\\",
	"<<EOT\n", "<<-EOT\n", "<<EOT\r\n", "<<E\n", "EOT\n", "EOT", "  EOT\n", "E\n", "<<", "<<-",
	"#", "//", "/*", "*/", "# c\n", "// c\r\n", "/* c\n c */",
}

var spaceFrags = []string{" ", "  ", "\t", "\n", "\r\n", "\r", "\n\n", " \t ", "\r\r\n", "\n\r"}

var unicodeFrags = []string{
	"é", "e\u0301", "\u0301", "a\u0308\u0323", "日本", "𝄞", "ß", "ключ", "名前",
	"👍", "👍🏽", "👨\u200d👩\u200d👧", "🇩🇪", "🇩", "\u200d", "각", "각", "\u0600", "\u0600 ", "\u0903",
	"\ufeff", "\u00a0", "\u2028", "\u2029", "\u0085", "“", "”", "\u200b", "กำ", "\U000e0001", "\u00ad",
}

var invalidFrags = []string{
	"\xff", "\xfe", "\xc0", "\xc0\xaf", "\xc1\xbf", "\xe2\x82", "\xe2", "\x80", "\xbf", "\xf0\x9f", "\xf0\x9f\x98",
	"\xed\xa0\x80", "\xf4\x90\x80\x80", "\xf5\x80\x80\x80", "\xf8\x88\x80\x80\x80", "\xe0\x80\x80", "\xf0\x80\x80\x80",
	"\xef\xbb", "\xef\xbb\xbf",
}

var controlFrags = []string{"\x00", "\x01", "\x07", "\x08", "\x0b", "\x0c", "\x1b", "\x7f", "\x1f"}

// soup concatenates random fragments; the weights select the flavour of the case.
func soup(r *lib.Rand, n int, w []int) []byte {
	var sb strings.Builder
	for i := 0; i < n; i++ {
		switch r.Weighted(w) {
		case 0:
			sb.WriteString(r.Pick(asciiFrags))
		case 1:
			sb.WriteString(r.Pick(spaceFrags))
		case 2:
			sb.WriteString(r.Pick(unicodeFrags))
		case 3:
			sb.WriteString(r.Pick(invalidFrags))
		case 4:
			sb.WriteString(r.Pick(controlFrags))
		default:
			sb.WriteByte(byte(r.Intn(256)))
		}
	}
	return []byte(sb.String())
}

// templateSoup builds text shaped like a template: literal runs, interpolations and directives,
// possibly unbalanced.
func templateSoup(r *lib.Rand, n int) []byte {
	var sb strings.Builder
	lits := []string{"hello ", "x", "  ", "\n", "\r\n", "$", "%", "$$", "%%", "$${", "%%{", "\"", "\\", "é", "e\u0301", "👍🏽", "\xff", "\t", "}", "{", "~", "EOT\n", "<<EOT\n"}
	exprs := []string{"a", "a.b[0]", "f(x, y...)", "1 + 2", "{a = 1}", "[for v in l : v]", "\"in ${n} er\"", "c ? \"y\" : \"n\"", "<<EOT\nin heredoc ${z}\nEOT\n", "a\n.b", "x /* c */"}
	for i := 0; i < n; i++ {
		switch r.Intn(10) {
		case 0, 1, 2, 3:
			sb.WriteString(r.Pick(lits))
		case 4, 5:
			sb.WriteString("${" + r.Pick([]string{"", "~", " "}) + r.Pick(exprs) + r.Pick([]string{"", "~", " "}) + "}")
		case 6:
			sb.WriteString("%{" + r.Pick([]string{"", "~ ", " "}) + "if " + r.Pick(exprs) + r.Pick([]string{"", " ~"}) + "}")
		case 7:
			sb.WriteString(r.Pick([]string{"%{else}", "%{endif}", "%{ endif ~}", "%{endfor}", "%{~ else ~}"}))
		case 8:
			sb.WriteString("%{for " + r.Pick([]string{"v", "k, v"}) + " in " + r.Pick(exprs) + "}")
		default:
			sb.WriteString(r.Pick([]string{"${", "%{", "}", "~}", "${\"", "\"}"}))
		}
	}
	return []byte(sb.String())
}

// randomStart draws an arbitrary start position.
func randomStart(r *lib.Rand) hcl.Pos {
	switch r.Intn(5) {
	case 0:
		return hcl.InitialPos
	case 1:
		return hcl.Pos{}
	case 2:
		return hcl.Pos{Byte: r.Intn(5), Line: 1 + r.Intn(3), Column: 1 + r.Intn(4)}
	default:
		return hcl.Pos{Byte: r.Intn(100000), Line: r.Intn(5000), Column: r.Intn(300)}
	}
}

// ---------------------------------------------------------------------------
// valid configurations with heredocs, unicode names and multi-cluster strings

var fidelityStrings = append(append([]string{}, lib.DefaultStrings...), "e\u0301", "👍🏽", "👨\u200d👩\u200d👧", "🇩🇪", "각", "a\u0308\u0323", "\u0600", "\u00a0", "\u2028", "~", " ~ ", "  ")

var unicodeIdents = []string{"ключ", "naïve", "名前", "e\u0301x", "_ß", "a\u0308"}

func plain(toks []lib.Tk) string {
	var sb strings.Builder
	for i, t := range toks {
		if t.NL {
			sb.WriteString("\n")
			continue
		}
		if i > 0 {
			sb.WriteString(" ")
		}
		sb.WriteString(t.Text)
	}
	return sb.String()
}

// heredocText writes a complete heredoc (opening marker through the newline after the closing marker).
func heredocText(r *lib.Rand, eg *lib.ExprGen, crlf bool) string {
	marker := r.Pick([]string{"EOT", "EOT", "END_1", "E", "é", "x-y"})
	nl := "\n"
	if crlf {
		nl = "\r\n"
	}
	flush := r.Chance(1, 3)
	var sb strings.Builder
	sb.WriteString("<<")
	if flush {
		sb.WriteString("-")
	}
	sb.WriteString(marker + nl)
	rd := &lib.Renderer{R: r}
	texts := []string{"hello", "two words", "é", "e\u0301", "👍🏽 ok", "tab\there", "$", "%", "$${x}", "%%{y}", "\"quoted\"", "back\\slash", "#not a comment", "}", "{", "EOTX", "x EOT", "日本", "~"}
	openDirs := []string{}
	lines := r.Intn(5)
	// the indentation of a flush heredoc is any white space, also multi-byte
	indentUnit := " "
	if flush && r.Chance(1, 3) {
		indentUnit = r.Pick([]string{"\t", "\u00a0", "\u3000", "\u2003"})
	}
	for i := 0; i < lines; i++ {
		if flush || r.Chance(1, 3) {
			sb.WriteString(strings.Repeat(indentUnit, r.Intn(5)))
		}
		for k := r.Intn(4); k >= 0; k-- {
			switch r.Intn(8) {
			case 0, 1, 2, 3:
				sb.WriteString(r.Pick(texts))
			case 4, 5:
				var toks []lib.Tk
				rd.Expr(&toks, eg.Expr(r.Intn(2)))
				sb.WriteString("${" + r.Pick([]string{"", "~", " "}) + plain(toks) + r.Pick([]string{"", "~", " "}) + "}")
			case 6:
				var toks []lib.Tk
				rd.Expr(&toks, eg.Expr(r.Intn(2)))
				if r.Chance(1, 2) {
					sb.WriteString("%{if " + plain(toks) + "}")
					openDirs = append(openDirs, "%{endif}")
				} else {
					sb.WriteString("%{for hv in " + plain(toks) + r.Pick([]string{"", " ~"}) + "}")
					openDirs = append(openDirs, "%{endfor}")
				}
			default:
				if len(openDirs) > 0 {
					top := openDirs[len(openDirs)-1]
					if top == "%{endif}" && r.Chance(1, 3) {
						sb.WriteString("%{else}")
					} else {
						sb.WriteString(top)
						openDirs = openDirs[:len(openDirs)-1]
					}
				} else {
					sb.WriteString(" ")
				}
			}
		}
		sb.WriteString(nl)
	}
	for len(openDirs) > 0 {
		sb.WriteString(openDirs[len(openDirs)-1])
		openDirs = openDirs[:len(openDirs)-1]
	}
	if s := sb.String(); !strings.HasSuffix(s, "\n") {
		sb.WriteString(nl)
	}
	if flush {
		sb.WriteString(strings.Repeat(" ", r.Intn(4)))
	}
	sb.WriteString(marker + nl)
	return sb.String()
}

// decorate rewrites a generated body tree in place: some strings become heredocs (where the grammar
// allows the newline that must follow the closing marker), some names become non-ASCII identifiers.
func decorate(r *lib.Rand, eg *lib.ExprGen, body *lib.Node, crlf bool) {
	var walkExpr func(n *lib.Node) *lib.Node
	walkExpr = func(n *lib.Node) *lib.Node {
		if (n.K == "str" || n.K == "tmpl") && r.Chance(1, 12) {
			return lib.N("paren", "", &lib.Node{K: "raw", S: heredocText(r, eg, crlf)})
		}
		if n.K == "var" && r.Chance(1, 12) {
			n.S = r.Pick(unicodeIdents)
		}
		if n.K == "object" {
			// keys are rendered by kind; only values are rewritten
			for i := 1; i < len(n.Kids); i += 2 {
				n.Kids[i] = walkExpr(n.Kids[i])
			}
			return n
		}
		if n.K == "tmpl" {
			return n // template parts are rendered to one token; leave them alone
		}
		for i, k := range n.Kids {
			n.Kids[i] = walkExpr(k)
		}
		return n
	}
	var walkBody func(b *lib.Node)
	walkBody = func(b *lib.Node) {
		for _, it := range b.Kids {
			switch it.K {
			case "attrdef":
				if r.Chance(1, 10) {
					it.S = r.Pick(unicodeIdents) + fmt.Sprint(r.Intn(1000))
				}
				if r.Chance(1, 7) {
					it.Kids[0] = &lib.Node{K: "raw", S: heredocText(r, eg, crlf)}
				} else {
					it.Kids[0] = walkExpr(it.Kids[0])
				}
			case "block":
				if !it.Flag {
					walkBody(it.Kids[len(it.Kids)-1])
				}
			}
		}
	}
	walkBody(body)
}

// genConfig renders a random configuration under a random layout.
func genConfig(r *lib.Rand) string {
	eg := &lib.ExprGen{R: r, Strings: fidelityStrings}
	bg := &lib.BodyGen{R: r, E: eg, ExprDep: 3}
	body := bg.Body(2)
	lay := lib.RandomLayout(r)
	decorate(r, eg, body, lay.CRLF)
	rd := &lib.Renderer{R: r, ExtraParen: 6}
	var toks []lib.Tk
	rd.BodyTokens(&toks, body)
	src := lib.RenderChecked(toks, lay)
	if r.Chance(1, 10) {
		src = strings.TrimRight(src, "\r\n")
	}
	if r.Chance(1, 25) {
		src = "\ufeff" + src
	}
	return src
}

// ---------------------------------------------------------------------------
// JSON documents

func jsonString(r *lib.Rand) string {
	parts := []string{"a", "key", "hello world", "é", "e\u0301", "👍🏽", "日本", `\"`, `\\`, `\n`, `é`, `😀`, "${a}", "%{if x}y%{endif}", " ", "\t", "/", `\/`, "\u0600", "x-y"}
	var sb strings.Builder
	sb.WriteString(`"`)
	for k := r.Intn(4); k > 0; k-- {
		sb.WriteString(r.Pick(parts))
	}
	sb.WriteString(`"`)
	return sb.String()
}

func jsonWS(r *lib.Rand) string {
	return r.Pick([]string{"", "", " ", "  ", "\n", "\r\n", "\t", "\n  ", " \r", "\r"})
}

func jsonValue(r *lib.Rand, depth int) string {
	k := r.Intn(9)
	if depth <= 0 && k < 3 {
		k += 3
	}
	switch k {
	case 0, 1:
		var sb strings.Builder
		sb.WriteString("{")
		n := r.Intn(4)
		for i := 0; i < n; i++ {
			if i > 0 {
				sb.WriteString(",")
			}
			sb.WriteString(jsonWS(r) + jsonString(r) + jsonWS(r) + ":" + jsonWS(r) + jsonValue(r, depth-1) + jsonWS(r))
		}
		sb.WriteString(jsonWS(r) + "}")
		return sb.String()
	case 2:
		var sb strings.Builder
		sb.WriteString("[")
		n := r.Intn(4)
		for i := 0; i < n; i++ {
			if i > 0 {
				sb.WriteString(",")
			}
			sb.WriteString(jsonWS(r) + jsonValue(r, depth-1) + jsonWS(r))
		}
		sb.WriteString("]")
		return sb.String()
	case 3, 4:
		return jsonString(r)
	case 5:
		return r.Pick([]string{"0", "-1", "12", "1.5", "1e5", "-0.5E-3", "1E+2", "12345678901234567890123"})
	case 6:
		return r.Pick([]string{"true", "false", "null"})
	case 7:
		return r.Pick([]string{"tru", "True", "nul", "+1", "01", ".5", "1.", "1e", "--1", "'a'", "\"unterminated", "\"ctl\x01\"", "\"\xff\"", "@", "=", "a_b"})
	default:
		return jsonString(r)
	}
}

func genJSON(r *lib.Rand) []byte {
	s := jsonWS(r) + jsonValue(r, 1+r.Intn(3)) + jsonWS(r)
	if r.Chance(1, 3) {
		s = string(lib.MutateBytes(r, []byte(s)))
	}
	if r.Chance(1, 8) {
		s += r.Pick([]string{",", "}", "x", "\x00", "\xff", " 1", "é"})
	}
	return []byte(s)
}
