package c14

import (
	"bytes"
	"encoding/hex"
	"encoding/json"
	"fmt"

	"github.com/apparentlymart/go-textseg/v15/textseg"
	"github.com/hashicorp/hcl/v2"
	"github.com/hashicorp/hcl/v2/hclsyntax"

	"hx/lib"
)

// caseDoc is the replayable description of one case (Failure.Input is its JSON text). Bytes travel as
// hex because inputs are arbitrary byte strings; Text is a %q rendering for the human reader only.
type caseDoc struct {
	Kind  string `json:"kind"`            // lex | json | rangescan | ranges
	Mode  string `json:"mode,omitempty"`  // lex: config|expression|template ; rangescan: lines|words
	Start [3]int `json:"start,omitempty"` // byte, line, column of the start position
	Hex   string `json:"hex"`
	Text  string `json:"text"`
}

func (d caseDoc) String() string {
	b, _ := json.Marshal(d)
	return string(b)
}

func mkDoc(kind, mode string, src []byte, start hcl.Pos) caseDoc {
	return caseDoc{Kind: kind, Mode: mode, Start: [3]int{start.Byte, start.Line, start.Column}, Hex: hex.EncodeToString(src), Text: fmt.Sprintf("%q", lib.Trunc(string(src), 400))}
}

func (d caseDoc) pos() hcl.Pos {
	return hcl.Pos{Byte: d.Start[0], Line: d.Start[1], Column: d.Start[2]}
}

var utf8BOM = []byte{0xef, 0xbb, 0xbf}

// recount is the independent position table of a byte string: for every offset the line (start line
// plus the number of '\n' before the offset), the column (start column on the first line, else 1, plus the
// number of grapheme clusters of the line that end at or before the offset) and whether the offset is a
// grapheme-cluster boundary of its line. Lines are segmented one by one from their first byte, so the
// table does not depend on how anybody tokenised the text.
type recount struct {
	line, col []int
	boundary  []bool
}

func newRecount(data []byte, start hcl.Pos) *recount {
	n := len(data)
	rc := &recount{line: make([]int, n+1), col: make([]int, n+1), boundary: make([]bool, n+1)}
	line, col := start.Line, start.Column
	o := 0
	for o < n {
		// one line: up to and including the next '\n'
		le := bytes.IndexByte(data[o:], '\n')
		if le < 0 {
			le = n
		} else {
			le = o + le + 1
		}
		seg := data[o:le]
		p := o
		for len(seg) > 0 {
			adv, _, _ := textseg.ScanGraphemeClusters(seg, true)
			if adv <= 0 {
				adv = 1
			}
			rc.boundary[p] = true
			for k := 0; k < adv; k++ { // offsets inside a cluster carry the position of its start
				rc.line[p+k] = line
				rc.col[p+k] = col
			}
			col++
			p += adv
			seg = seg[adv:]
		}
		o = le
		if data[le-1] == '\n' {
			line++
			col = 1
		}
	}
	rc.boundary[n] = true
	rc.line[n] = line
	rc.col[n] = col
	return rc
}

func lexMode(mode string, src []byte, start hcl.Pos) hclsyntax.Tokens {
	switch mode {
	case "config":
		t, _ := hclsyntax.LexConfig(src, "f.hcl", start)
		return t
	case "expression":
		t, _ := hclsyntax.LexExpression(src, "f.hcl", start)
		return t
	default:
		t, _ := hclsyntax.LexTemplate(src, "f.hcl", start)
		return t
	}
}

func modeClass(mode string) string {
	if mode == "template" {
		return "template"
	}
	return "normal"
}

// checkLex runs one scanner mode over src with the given start position and checks tiling and positions.
// It returns the number of positions compared and the number skipped as not cluster-aligned.
func checkLex(cx *lib.Ctx, mode string, src []byte, start hcl.Pos) (compared, skipped int) {
	doc := mkDoc("lex", mode, src, start)
	var toks hclsyntax.Tokens
	if !cx.Guard("lex:"+mode, doc.String(), func() { toks = lexMode(mode, src, start) }) {
		return
	}
	fail := func(key, desc string, i int) {
		impl := ""
		if i >= 0 && i < len(toks) {
			lo := i - 2
			if lo < 0 {
				lo = 0
			}
			for j := lo; j <= i+1 && j < len(toks); j++ {
				t := toks[j]
				impl += fmt.Sprintf("[%d] %s %q %d:%d,%d-%d:%d,%d\n", j, lib.TyName(t.Type), t.Bytes, t.Range.Start.Byte, t.Range.Start.Line, t.Range.Start.Column, t.Range.End.Byte, t.Range.End.Line, t.Range.End.Column)
			}
		}
		cx.Res.Fail(lib.Failure{Kind: "oracle", Key: key + ":" + modeClass(mode), Desc: desc, Input: doc.String(), Impl: impl})
	}
	if len(toks) == 0 {
		fail("tile:no-tokens", "the scanner returned no tokens at all (not even EOF)", -1)
		return
	}
	bom := 0
	if bytes.HasPrefix(src, utf8BOM) {
		bom = 3
	}
	// ---- tiling
	prevEnd := 0
	eofs := 0
	for i, t := range toks {
		s := t.Range.Start.Byte - start.Byte
		e := t.Range.End.Byte - start.Byte
		if s < 0 || e > len(src) || s > e {
			fail("tile:range-out-of-bounds:"+lib.TyName(t.Type), fmt.Sprintf("token %d has byte range [%d,%d) outside the input of length %d", i, s, e, len(src)), i)
			return
		}
		if s < prevEnd {
			fail("tile:overlap:"+lib.TyName(t.Type), fmt.Sprintf("token %d starts at %d before the previous token's end %d", i, s, prevEnd), i)
			return
		}
		gap := src[prevEnd:s]
		if prevEnd == 0 && bom > 0 && len(gap) >= bom {
			gap = gap[bom:] // the one permitted non-space prefix
		}
		for _, c := range gap {
			if c != ' ' && c != '\t' {
				fail("tile:gap:"+byteClass(c), fmt.Sprintf("the gap [%d,%d) before token %d contains %q", prevEnd, s, i, src[prevEnd:s]), i)
				return
			}
		}
		if !bytes.Equal(t.Bytes, src[s:e]) {
			fail("tile:bytes-mismatch:"+lib.TyName(t.Type), fmt.Sprintf("token %d Bytes %q differ from the source slice [%d,%d) %q", i, t.Bytes, s, e, src[s:e]), i)
			return
		}
		if t.Type == hclsyntax.TokenEOF {
			eofs++
			if i != len(toks)-1 {
				fail("tile:eof-not-last", fmt.Sprintf("EOF token at index %d of %d", i, len(toks)), i)
				return
			}
			if s != len(src) || e != len(src) {
				fail("tile:eof-position", fmt.Sprintf("EOF token covers [%d,%d), input length %d", s, e, len(src)), i)
				return
			}
		} else if s == e {
			fail("tile:empty-token:"+lib.TyName(t.Type), fmt.Sprintf("token %d is empty", i), i)
			return
		}
		prevEnd = e
	}
	if eofs != 1 || toks[len(toks)-1].Type != hclsyntax.TokenEOF {
		fail("tile:eof-count", fmt.Sprintf("%d EOF tokens; last token is %s", eofs, lib.TyName(toks[len(toks)-1].Type)), len(toks)-1)
		return
	}
	// ---- positions: recount from the start position (the BOM, if any, has no width)
	data := src[bom:]
	rc := newRecount(data, start)
	curLine, bad := -1<<30, false
	cmp := func(i int, which string, p hcl.Pos) bool {
		o := p.Byte - start.Byte - bom
		if o < 0 {
			return true
		}
		// a misaligned token boundary spoils the comparison for the rest of its text line only
		// (a position just after '\n' already belongs to the next line)
		if ln := rc.line[o]; ln != curLine {
			curLine, bad = ln, false
		}
		if !rc.boundary[o] {
			bad = true
		}
		if bad {
			skipped++
			return true
		}
		compared++
		if p.Line != rc.line[o] {
			if p.Line < rc.line[o] && newlineAfterLeadByte(data[:o]) {
				// a '\n' directly after a multi-byte lead byte: the scanner's and textseg's generated tables
				// accept any byte in continuation position for many lead bytes, so the newline is read as
				// part of a character and no line is counted
				fail("pos:line:newline-swallowed-by-malformed-utf8", fmt.Sprintf("token %d %s line %d, recount %d (offset %d)", i, which, p.Line, rc.line[o], o+bom), i)
				return false
			}
			fail("pos:line:"+which+":"+lib.TyName(toks[i].Type), fmt.Sprintf("token %d %s line %d, recount %d (offset %d)", i, which, p.Line, rc.line[o], o+bom), i)
			return false
		}
		if p.Column != rc.col[o] {
			fail("pos:column:"+which+":"+lib.TyName(toks[i].Type), fmt.Sprintf("token %d %s column %d, recount %d (offset %d, line %d)", i, which, p.Column, rc.col[o], o+bom, p.Line), i)
			return false
		}
		return true
	}
	for i, t := range toks {
		if !cmp(i, "start", t.Range.Start) || !cmp(i, "end", t.Range.End) {
			return
		}
	}
	return
}

func byteClass(c byte) string {
	switch {
	case c == '\r':
		return "cr"
	case c == '\n':
		return "lf"
	case c < 0x20 || c == 0x7f:
		return "control"
	case c >= 0x80:
		return "non-ascii"
	}
	return "printable"
}

// newlineAfterLeadByte reports a '\n' in continuation position of a multi-byte lead byte.
func newlineAfterLeadByte(b []byte) bool {
	for p, c := range b {
		if c != '\n' {
			continue
		}
		if p >= 1 && b[p-1] >= 0xc0 {
			return true
		}
		if p >= 2 && b[p-2] >= 0xe0 {
			return true
		}
		if p >= 3 && b[p-3] >= 0xf0 {
			return true
		}
	}
	return false
}
