package c14

import (
	"fmt"
	"strconv"
	"strings"

	"github.com/apparentlymart/go-textseg/v15/textseg"
	"github.com/hashicorp/hcl/v2"
	hcljson "github.com/hashicorp/hcl/v2/json"

	"hx/lib"
)

// jsonTokName maps the real scanner's token type (a rune) to the model's constructor names (Driver ttName).
func jsonTokName(t rune) string {
	switch t {
	case '{':
		return "braceO"
	case '}':
		return "braceC"
	case '[':
		return "brackO"
	case ']':
		return "brackC"
	case ',':
		return "comma"
	case ':':
		return "colon"
	case '=':
		return "equals"
	case 'K':
		return "keyword"
	case 'S':
		return "string"
	case 'N':
		return "number"
	case '␄':
		return "eof"
	case 0:
		return "invalid"
	}
	return fmt.Sprintf("unknown(%d)", t)
}

// jsonAdvTable is the grapheme-cluster advance at every byte offset, computed as props/c13/corr.go does
// (parameter `adv` of the scanner model): 1 for control bytes, textseg's first cluster otherwise.
func jsonAdvTable(src []byte) string {
	if len(src) == 0 {
		return "-"
	}
	advs := make([]string, len(src))
	for i := range src {
		a := 1
		if src[i] >= 0x20 {
			// an ASCII byte may still head a longer cluster (combining marks after it)
			n, _, _ := textseg.ScanGraphemeClusters(src[i:], true)
			if n > 0 {
				a = n
			}
		}
		advs[i] = strconv.Itoa(a)
	}
	return strings.Join(advs, ",")
}

var jsonScanFrags = []string{
	"\"", "\"", "\\", "\\\"", "\\\\", "\\\n", "\\é", "\\́", "\\\x01", "\\\t", "\\\xff", "\t", "\r", "\r\n", "\n", " ", "  ", "\n\n",
	"\"́", "\"̣̈", "́\"", "é", "👨‍👩‍👧", "👍🏽", "🇩🇪", "؀", "؀\"", "؀\\", "؀\n", "日本",
	"\xff", "\xc0\xaf", "\xe2\x82", "\xf0\x9f", "\"é\"", "\"a b\"", "\"unterminated", "\"a\tb\"", "\"a\nb\"", "\"a\rb\"", "\"\x00\"", "\x7f",
	"-1.5e+3", "0", "12", "1e", "+.E-", "tru", "true", "null", "a_b", "_", "True", "@", "#", "'", "/", "\x00", "\x1f",
	"{", "}", "[", "]", ",", ":", "=", "{\"k\": 1}", "[1, 2]",
}

// corrJSONScan ties the Lean model of the JSON scanner with positions (HclModel/Json/ScanPos: scanP, the
// transcription of scan/skipWhitespace/scanString/scanNumber/scanKeyword with their byte/line/column
// bookkeeping) to the real scanner: every token's type and both ends of its range must agree.  The cluster
// advance at every offset comes from textseg.
func corrJSONScan(cx *lib.Ctx) {
	if !cx.HasModel() {
		return
	}
	n := cx.Scale(1500, 50000)
	for i := 0; i < n; i++ {
		r := cx.R.Fork()
		var src []byte
		origin := "gen"
		switch r.Intn(3) {
		case 0:
			src = genJSON(r)
		default:
			origin = "soup"
			var sb strings.Builder
			for k := 1 + r.Intn(14); k > 0; k-- {
				sb.WriteString(jsonScanFrags[r.Intn(len(jsonScanFrags))])
			}
			src = []byte(sb.String())
		}
		if r.Chance(1, 3) {
			src = lib.MutateBytes(r, src)
			origin += "-mutated"
		}
		if len(src) > 1500 {
			cx.Res.Count("corr-jsonscanp-skip:long")
			continue
		}
		start := hcl.Pos{Byte: r.Intn(51), Line: 1 + r.Intn(9), Column: 1 + r.Intn(30)}
		var toks []hcljson.VerifToken
		if !cx.Guard("jsonscan", fmt.Sprintf("%x @%v", src, start), func() { toks = hcljson.VerifScan(src, start) }) {
			continue
		}
		impl := make([]string, len(toks))
		for j, t := range toks {
			impl[j] = fmt.Sprintf("%s:%d.%d.%d-%d.%d.%d", jsonTokName(t.Type), t.Range.Start.Byte, t.Range.Start.Line, t.Range.Start.Column, t.Range.End.Byte, t.Range.End.Line, t.Range.End.Column)
		}
		hx := "-"
		if len(src) > 0 {
			hx = fmt.Sprintf("%x", src)
		}
		model := cx.Ask(fmt.Sprintf("JSONSCANP %d %d %d %s %s", start.Byte, start.Line, start.Column, hx, jsonAdvTable(src)))
		cx.Res.CorrChecked++
		cx.Res.Count("corr-jsonscanp")
		cx.Res.Count("corr-jsonscanp:" + origin)
		if got := strings.Join(impl, " "); model != got {
			cx.Res.Fail(lib.Failure{Kind: "corr", Key: "JSONSCANP", Desc: "token types or ranges differ from the model of json/scanner.go (scanP)",
				Input: fmt.Sprintf("hex=%s start=%d.%d.%d src=%q", hx, start.Byte, start.Line, start.Column, src), Model: lib.Trunc(model, 600), Impl: lib.Trunc(got, 600)})
		}
	}
}
